-- This module serves as the root of the `EV` library.
-- Import modules here that should be built as part of the library.
import EV.Basic
