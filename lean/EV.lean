import EV.Props.C01
import EV.Props.C02
import EV.Props.C11
import EV.Props.C12
import EV.Props.C15
import EV.Props.C16
import EV.Props.C18
import EV.Props.C19
