import EV.Driver.C01
import EV.Driver.C02
import EV.Driver.C12
import EV.Driver.C18
import EV.Driver.C19
import EV.Driver.C11
import EV.Driver.C16
import EV.Driver.C15
import EV.Driver.C03
import EV.Driver.C13
import EV.Driver.C20
import EV.Driver.C20Derive
import EV.Driver.C08
import EV.Driver.C14
import EV.Driver.C09
import EV.Driver.C10
import EV.Driver.C04
import EV.Driver.C05
import EV.Driver.C17
import EV.Driver.C06
import EV.Driver.C07
import EV.Driver.TxAcc
import EV.Driver.C06Ops
open EV.Driver

def allOps : List (String × Handler) := C01.ops ++ C02.ops ++ C12.ops ++ C18.ops ++ C19.ops ++ C11.ops ++ C16.ops ++ C15.ops ++ C03.ops ++ C13.ops ++ C20.ops ++ C08.ops ++ C14.ops ++ C09.ops ++ C10.ops ++ C04.ops ++ C05.ops ++ C17.ops ++ C06.ops ++ C07.ops ++ TxAcc.ops ++ C06Ops.ops ++ C20Derive.ops

def handle (cfg : Cfg) (line : String) : Cfg × String :=
  match line.trimAscii.toString.splitOn " " with
  | [] => (cfg, "bad-op")
  | ["cfg", a, b, c] =>
    match a.toNat?, b.toNat?, c.toNat? with
    | some a, some b, some c => ({ sizeTxIn := a, sizeTxOut := b, sizeTx := c }, "ok")
    | _, _, _ => (cfg, "bad-op")
  | op :: args =>
    match allOps.lookup op with
    | some h => (cfg, h cfg args)
    | none => (cfg, "bad-op")

partial def loop (hin : IO.FS.Stream) (hout : IO.FS.Stream) (cfg : Cfg) : IO Unit := do
  let line ← hin.getLine
  if line.isEmpty then return ()
  let (cfg', out) := handle cfg line
  hout.putStrLn out
  loop hin hout cfg'

def main : IO Unit := do
  let hin ← IO.getStdin
  let hout ← IO.getStdout
  loop hin hout {}
