import EV.Driver.C18
open EV.Driver

def allOps : List (String × Handler) := C18.ops

def handle (line : String) : String :=
  match line.trimAscii.toString.splitOn " " with
  | [] => "bad-op"
  | op :: args =>
    match allOps.lookup op with
    | some h => h args
    | none => "bad-op"

partial def loop (hin : IO.FS.Stream) (hout : IO.FS.Stream) : IO Unit := do
  let line ← hin.getLine
  if line.isEmpty then return ()
  hout.putStrLn (handle line)
  loop hin hout

def main : IO Unit := do
  let hin ← IO.getStdin
  let hout ← IO.getStdout
  loop hin hout
