/-
  C04 — blinding yields a transaction that verifies and that receivers can unblind.

  Model: `EV.Model.Blind` (`blind` = `Transaction::blind(.., blind_issuances = false)`,
  `verify` = `Transaction::verify_tx_amt_proofs`, `unblind` = `TxOut::unblind`, `lastVbf` =
  `ValueBlindingFactor::last`).  Scalars `R`: any commutative ring (the integers mod the group
  order); points `M`: any `R`-module with a base point `G` and a tag point per asset id
  (`Curve`); `AlgB`/`AlgV` say that the EC primitives compute in that module.  The zero-knowledge
  proof systems are parameters: completeness ("a proof made by the prover for these public data is
  accepted for the same data"), totality of the provers on provable statements, and the rewind law
  are hypotheses — they are the trusted base, not proved here.
-/
import EV.Proofs.BlindC04
import EV.Proofs.BlindInstance
import Mathlib.Data.ZMod.Defs

namespace EV.Props.C04
open EV EV.Blind

variable {A R M K RP SP : Type} [CommRing R] [AddCommGroup M] [Module R M]

/-- **the adaptive blinding factor closes the scalar balance**: for ANY lists of input and other-output
    openings and any asset blinding factor, the term `v·abf + vbf` of the last output plus the terms
    of the other outputs equals the terms of the inputs. (`lastVbf` is the loop of
    `secp256k1_pedersen_blind_generator_blind_sum` as coded.) -/
theorem last_balances (a : A) (value : Nat) (abf : R) (ins outs : List (Secrets A R)) :
    term ⟨a, value, abf, lastVbf value abf ins outs⟩ + sumTerms outs = sumTerms ins :=
  last_balances' a value abf ins outs

/-- closed form of `ValueBlindingFactor::last` -/
theorem last_formula (value : Nat) (abf : R) (ins outs : List (Secrets A R)) :
    lastVbf value abf ins outs = sumTerms ins - sumTerms outs - (value : R) * abf :=
  lastVbf_eq value abf ins outs

section driver
open Fin.NatCast

/-- the arithmetic the driver runs (`ZN` = `Fin n` with core Lean's operations mod the secp256k1
    group order) is the commutative-ring arithmetic the theorems are about: the same closed form
    holds for the driver's `blind.last` computation -/
theorem last_formula_ZN (value : Nat) (abf : ZN) (ins outs : List (Secrets Unit ZN)) :
    letI := Fin.instCommRing groupOrder
    (lastVbf value abf ins outs : ZN) = sumTerms ins - sumTerms outs - (value : ZN) * abf := by
  let _ := Fin.instCommRing groupOrder
  exact lastVbf_eq value abf ins outs
end driver

/-- ECDH symmetry in the module: sender `esk•(sk•G)` = receiver `sk•(esk•G)` -/
theorem ecdh_symm (G : M) (a b : R) : a • (b • G) = b • (a • G) := EV.Blind.ecdh_symm G a b

/-- **regrouping by asset**: if for every asset the explicit amounts of two lists of openings
    balance, their tag parts `Σ v•tag a` are equal -/
theorem balanced_regroup [DecidableEq A] (cv : Curve R M A) (ins outs : List (Secrets A R))
    (hbal : ∀ a, amt a ins = amt a outs) :
    (ins.map cv.tagPart).sum = (outs.map cv.tagPart).sum :=
  cv.sum_tagPart_of_balanced ins outs hbal

/-- **blind balances**: for any number ≥ 1 and any positions of marked outputs and any random
    choices, after `blind` (i) the openings of all outputs have the same `Σ (v·abf + vbf)` as the
    spent outputs and (ii) if the explicit amounts balance per asset (spent outputs and issuance
    pseudo-inputs = outputs, fee included) the value commitments of inputs and outputs have equal
    sums. -/
theorem blind_balances [DecidableEq A] (cv : Curve R M A) (B : BPrims A R M K RP SP)
    (outputs : List (TxOut A M RP SP)) (spent : List (Secrets A R)) (rands : Nat → Rand R)
    (entries : List (Entry A R M RP SP))
    (h : blind B outputs spent rands = .ok entries) :
    sumTerms (entries.map Entry.sec) = sumTerms spent ∧
    ((∀ a, amt a spent = amt a (explicitOpenings outputs : List (Secrets A R))) →
      (spent.map cv.commit).sum = ((entries.map Entry.sec).map cv.commit).sum) :=
  ⟨blind_balances_scalar B outputs spent rands entries h,
   fun hbal => blind_balances_commit cv B outputs spent rands entries hbal h⟩

omit [AddCommGroup M] [Module R M] in
/-- **what blind does to each output** (selection logic): at least one output was marked; position
    by position (`Rel`) an unmarked output (fee-shaped or without confidential nonce) is untouched,
    absent from the map and opened by (asset, value, 0, 0), a marked one is the result of
    `with_txout_secrets` on an opening with the original asset and amount, its own script, the key in
    its nonce and the ephemeral key reported in the map; the map has exactly the marked indices. -/
theorem blind_map_keys (B : BPrims A R M K RP SP) (outputs : List (TxOut A M RP SP))
    (spent : List (Secrets A R)) (rands : Nat → Rand R) (entries : List (Entry A R M RP SP))
    (h : blind B outputs spent rands = .ok entries) :
    0 < countMarked outputs ∧ Forall2 (Rel B spent) outputs entries ∧
    (blindsOf 0 entries).map (fun x => x.1) =
      ((outputs.zipIdx 0).filter (fun x => x.1.marked)).map (fun x => x.2) := by
  obtain ⟨h1, h2, _⟩ := blind_spec B outputs spent rands entries h
  exact ⟨h1, h2, blindsOf_spec B spent outputs entries 0 h2⟩

/-- **blinding succeeds and the result verifies**: for every explicit transaction (`hexp`) whose
    explicit amounts balance per asset against the true openings of the spent outputs and issuance
    pseudo-inputs (`htrue`, `hbal`), with any non-empty choice of marked outputs (`hpos`) whose
    scripts are address-shaped and whose amounts lie in the range the range-proof parameters admit
    (`hadr`, `hval`), and any random choices `rands`: `blind` returns a transaction and that
    transaction passes `verify` against the spent outputs. -/
theorem blind_verifies [DecidableEq A] (cv : Curve R M A) (kdf : M → K)
    (B : BPrims A R M K RP SP) (V : VPrims A M RP SP) (hB : AlgB cv kdf B) (hV : AlgV cv V)
    (spent : List (Secrets A R))
    -- completeness and totality of the two proof systems (trusted base)
    (hrange : ∀ c v vbf m spk k g rp, B.rangeProve c v vbf m spk k g = some rp →
      V.rangeVerify rp c spk g = true)
    (hsurj : ∀ a abf ins sp, B.surjProve a abf ins = some sp →
      V.surjVerify sp (B.genBlinded a abf) (ins.map (fun x => x.1)) = true)
    (hrangeTotal : ∀ c v vbf m spk k g, 1 ≤ v → v < 2 ^ 63 → (B.rangeProve c v vbf m spk k g).isSome)
    (hsurjTotal : ∀ a abf, (∃ s ∈ spent, s.asset = a) → (B.surjProve a abf (surjInputs B spent)).isSome)
    (ins : List (TxIn A M)) (utxos outputs : List (TxOut A M RP SP)) (rands : Nat → Rand R)
    (hlen : utxos.length = ins.length)
    (htrue : inputPairs V 0 ins utxos = .ok (spent.map cv.opening))
    (hbal : ∀ a, amt a spent = amt a (explicitOpenings outputs : List (Secrets A R)))
    (hexp : ∀ o ∈ outputs, o.allExplicit = true)
    (hpos : ∃ o ∈ outputs, o.marked = true)
    (hadr : ∀ o ∈ outputs, o.marked = true → addressable o.script = true)
    (hval : ∀ o ∈ outputs, o.marked = true → ∀ v, o.value = .explicit v → 1 ≤ v ∧ v < 2 ^ 63)
    (hzero : ∀ o ∈ outputs, o.marked = false → o.value = .explicit 0 →
      isProvablyUnspendable o.script = true) :
    ∃ entries, blind B outputs spent rands = .ok entries ∧
      verify V ins (entries.map Entry.out) utxos = .ok := by
  obtain ⟨entries, he⟩ := blind_succeeds_alg B outputs spent rands hrangeTotal hsurjTotal hbal hexp hpos hadr hval
  exact ⟨entries, he, blind_verifies' cv kdf B V hB hV hrange hsurj ins utxos outputs spent rands entries
    hlen htrue hbal hzero he⟩

/-- **unblinding**: every marked output `o` (at any position) whose nonce carried the receiver's
    public key `sk•G` is, after `blind`, unblinded with `sk` to exactly the opening the blinder holds
    for it — the original asset and amount and the (abf, vbf) reported in the returned map — and that
    opening reproduces the output's asset and value commitments.  (`Forall2 (Rel ..)` between the
    unblinded outputs and the entries is what `blind_map_keys` provides.) -/
theorem unblind_blind [DecidableEq M] (cv : Curve R M A) (kdf : M → K)
    (B : BPrims A R M K RP SP) (hB : AlgB cv kdf B)
    (hrew : ∀ c v vbf a abf spk k g rp, B.rangeProve c v vbf (a, abf) spk k g = some rp →
      B.rewind rp c k spk g = some (v, vbf, a, abf))
    (spent : List (Secrets A R)) (o : TxOut A M RP SP) (e : Entry A R M RP SP)
    (h : Rel B spent o e) (hm : o.marked = true) (sk : R) (hpk : o.nonce = .conf (sk • cv.G)) :
    unblind B e.out sk = .ok e.sec ∧
    e.out.asset = .conf (cv.gen e.sec.asset e.sec.abf) ∧
    e.out.value = .conf (cv.commit e.sec) ∧
    (∃ a v, o.asset = .explicit a ∧ o.value = .explicit v ∧ e.sec.asset = a ∧ e.sec.value = v) ∧
    (∃ esk, e.esk = some esk ∧ e.out.nonce = .conf (esk • cv.G)) :=
  unblind_rel cv kdf B hB hrew spent o e h hm sk hpk

omit [AddCommGroup M] [Module R M] in
/-- no output marked for blinding: `TooFewBlindingOutputs` (never a panic) -/
theorem blind_none_marked_err (B : BPrims A R M K RP SP)
    (outputs : List (TxOut A M RP SP)) (spent : List (Secrets A R)) (rands : Nat → Rand R)
    (hexp : ∀ o ∈ outputs, o.allExplicit = true) (hnone : ∀ o ∈ outputs, o.marked = false) :
    blind B outputs spent rands = .err eTooFewBlindingOutputs :=
  blind_none_marked_err' B outputs spent rands hexp hnone

omit [AddCommGroup M] [Module R M] in
/-- an output that is not fully explicit: `MustHaveAllExplicitTxOuts`, before anything else -/
theorem blind_not_all_explicit_err (B : BPrims A R M K RP SP)
    (outputs : List (TxOut A M RP SP)) (spent : List (Secrets A R)) (rands : Nat → Rand R)
    (o : TxOut A M RP SP) (ho : o ∈ outputs) (hne : o.allExplicit = false) :
    blind B outputs spent rands = .err eMustHaveAllExplicit :=
  blind_not_all_explicit_err' B outputs spent rands o ho hne

/-! ### non-vacuity: a concrete instance where every hypothesis holds -/
section instance_
open EV.Blind.Inst

/-- p2wpkh-shaped script -/
def spk : Bytes := [0x00, 0x14] ++ List.replicate 20 7

/-- one explicit spent output of 10 units of asset `true`; a marked output of 9 to the key `5•G`
    and a fee of 1 -/
def utxo : TxOut Bool Pt RPz SPz := ⟨.explicit true, .explicit 10, .null, spk, none, none⟩
def out1 : TxOut Bool Pt RPz SPz := ⟨.explicit true, .explicit 9, .conf ((5 : ℤ) • cv.G), spk, none, none⟩
def fee : TxOut Bool Pt RPz SPz := ⟨.explicit true, .explicit 1, .null, [], none, none⟩
def input : TxIn Bool Pt := ⟨.null, .null, false, false⟩
def spent : List (Secrets Bool ℤ) := [⟨true, 10, 0, 0⟩]

example : ∃ entries, blind Bz [fee, out1] spent (fun _ => ⟨3, 4, 6⟩) = .ok entries ∧
    verify Vz [input] (entries.map Entry.out) [utxo] = .ok := by
  apply blind_verifies cv id Bz Vz algB algV spent range_complete surj_complete range_total (surj_total spent)
  · rfl
  · simp [inputPairs, utxo, input, spent, assetGen, valueCommit, issuancePairs, TxIn.hasIssuance,
      CValue.isNull, Vz, Curve.opening, Curve.commit, Curve.pedersen, Curve.gen]
  · intro a
    cases a <;> simp [spent, explicitOpenings, fee, out1, amt]
  · intro o ho
    simp at ho
    rcases ho with rfl | rfl <;> rfl
  · exact ⟨out1, by simp, by decide⟩
  · intro o ho hm
    simp at ho
    rcases ho with rfl | rfl
    · exact absurd hm (by decide)
    · decide
  · intro o ho hm v hv
    simp at ho
    rcases ho with rfl | rfl
    · exact absurd hm (by decide)
    · simp [out1] at hv; subst hv; omega
  · intro o ho _ hv
    simp at ho
    rcases ho with rfl | rfl <;> simp [fee, out1] at hv
end instance_

end EV.Props.C04
