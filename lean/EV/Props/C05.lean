/-
  C05 — amount verification rejects every tampered or unbalanced transaction.

  Model: `EV.Blind.verify` = `Transaction::verify_tx_amt_proofs` as coded (length check, per input
  generator / commitment of the spent output and issuance pseudo-inputs, per output value commitment,
  range-proof branch, surjection branch, final tally).  The EC primitives are parameters (`VPrims`).

  Two kinds of statements:
  * `verify_ok_iff`, `verify_len_err`, `swap_commitments`: pure decision logic, for arbitrary
    primitives.  Removing, corrupting or exchanging proofs and changing the script of a blinded output
    are covered by `verify_ok_iff`: the proof must be accepted *for that commitment, that script, that
    generator* (range proof) / *for that generator and the domain of input and issuance generators in
    order* (surjection proof); that a proof made for other data is not accepted is SOUNDNESS of the
    primitives — the trusted base, not proved here.
  * tamper lemmas decided by the balance equation alone, with the primitives computing in an
    `R`-module (`AlgV`) under explicit hypotheses (`NoTorsion`, `Indep`, `CastInj`).  These hold in the
    idealised (generic-group) reading of the curve — instance below — not as theorems about secp256k1,
    where independence of the asset tags is the discrete-logarithm assumption.
-/
import EV.Proofs.BlindC05
import EV.Proofs.BlindInstance

namespace EV.Props.C05
open EV EV.Blind

variable {A R M RP SP : Type}

/-- **decision logic stated outright**: `verify` returns ok exactly when
    the list lengths match ∧ no spent output has a null asset, a null value or an explicit zero value
    (and no issuance amount is an explicit zero) ∧ every output is acceptable (`OutOk`: value present;
    explicit zero only on a provably unspendable script; explicit non-zero value needs an asset; a
    confidential value has a range proof accepted for that commitment, that script, that generator; a
    confidential asset has a surjection proof accepted for the domain of input and issuance generators
    in order) ∧ the tally accepts the input commitments against the output commitments. -/
theorem verify_ok_iff (V : VPrims A M RP SP) (ins : List (TxIn A M)) (outs utxos : List (TxOut A M RP SP)) :
    verify V ins outs utxos = .ok ↔
      utxos.length = ins.length ∧
      (∀ p ∈ ins.zip utxos, SpentOk p.2 ∧ IssOk p.1) ∧
      (∀ o ∈ outs, OutOk V (domainOf V ins utxos) o) ∧
      V.sumEqual (inCommitsOf V ins utxos) (outCommitsOf V outs) = true :=
  verify_ok_iff' V ins outs utxos

/-- a spent-output list of the wrong length is rejected as such (`UtxoInputLenMismatch`), before
    anything else is looked at -/
theorem verify_len_err (V : VPrims A M RP SP) (ins : List (TxIn A M)) (outs utxos : List (TxOut A M RP SP))
    (h : utxos.length ≠ ins.length) :
    verify V ins outs utxos = .err .utxoInputLenMismatch :=
  verify_len_err' V ins outs utxos h

/-- acceptable inputs, acceptable outputs before position `i`, and at position `i` a confidential
    value (with an asset) but no range proof: exactly `RangeProofMissing(i)` -/
theorem verify_rangeproof_missing (V : VPrims A M RP SP) (ins : List (TxIn A M))
    (utxos pre post : List (TxOut A M RP SP)) (o : TxOut A M RP SP) (c g : M)
    (hlen : utxos.length = ins.length)
    (hin : ∀ p ∈ ins.zip utxos, SpentOk p.2 ∧ IssOk p.1)
    (hpre : ∀ x ∈ pre, OutOk V (domainOf V ins utxos) x)
    (hv : o.value = .conf c) (hg : assetGen V o.asset = some g) (hrp : o.rangeproof = none) :
    verify V ins (pre ++ o :: post) utxos = .err (.rangeProofMissing pre.length) :=
  verify_rangeproof_missing' V ins utxos pre post o c g hlen hin hpre hv hg hrp

/-- the same for a confidential asset without a surjection proof, the value checks and the
    range-proof branch of that output having passed: exactly `SurjectionProofMissing(i)` -/
theorem verify_surjproof_missing (V : VPrims A M RP SP) (ins : List (TxIn A M))
    (utxos pre post : List (TxOut A M RP SP)) (o : TxOut A M RP SP) (g : M)
    (hlen : utxos.length = ins.length)
    (hin : ∀ p ∈ ins.zip utxos, SpentOk p.2 ∧ IssOk p.1)
    (hpre : ∀ x ∈ pre, OutOk V (domainOf V ins utxos) x)
    (hadm : o.value ≠ .null ∧ (o.value = .explicit 0 → isProvablyUnspendable o.script = true) ∧
      (∀ v, o.value = .explicit v → v ≠ 0 → o.asset ≠ .null))
    (hrange : rangeCheck V pre.length o = none)
    (ha : o.asset = .conf g) (hsp : o.surjproof = none) :
    verify V ins (pre ++ o :: post) utxos = .err (.surjectionProofMissing pre.length) :=
  verify_surjproof_missing' V ins utxos pre post o g hlen hin hpre hadm hrange ha hsp

/-- everything acceptable but the tally: exactly `BalanceCheckFailed` -/
theorem verify_balance_failed (V : VPrims A M RP SP) (ins : List (TxIn A M))
    (outs utxos : List (TxOut A M RP SP))
    (hlen : utxos.length = ins.length)
    (hin : ∀ p ∈ ins.zip utxos, SpentOk p.2 ∧ IssOk p.1)
    (hout : ∀ o ∈ outs, OutOk V (domainOf V ins utxos) o)
    (hsum : V.sumEqual (inCommitsOf V ins utxos) (outCommitsOf V outs) = false) :
    verify V ins outs utxos = .err .balanceCheckFailed :=
  verify_balance_failed' V ins outs utxos hlen hin hout hsum

/-- the output loop has no panicking path -/
theorem outputs_no_panic (V : VPrims A M RP SP) (domain : List M) (i : Nat) (outs : List (TxOut A M RP SP))
    (s : String) : outputCommits V domain i outs ≠ .panic s :=
  outputCommits_no_panic V domain i outs s

/-- exchanging the value commitments of two blinded outputs does not change the balance; the result
    verifies only if each output's range proof is accepted for the *other* commitment -/
theorem swap_commitments (V : VPrims A M RP SP) (ins : List (TxIn A M))
    (utxos pre mid post : List (TxOut A M RP SP)) (o₁ o₂ : TxOut A M RP SP) (c₁ c₂ : M)
    (h1 : o₁.value = .conf c₁) (h2 : o₂.value = .conf c₂)
    (h : verify V ins (pre ++ { o₁ with value := .conf c₂ } :: mid ++ { o₂ with value := .conf c₁ } :: post) utxos = .ok) :
    (∃ g rp, assetGen V o₁.asset = some g ∧ o₁.rangeproof = some rp ∧ V.rangeVerify rp c₂ o₁.script g = true) ∧
    (∃ g rp, assetGen V o₂.asset = some g ∧ o₂.rangeproof = some rp ∧ V.rangeVerify rp c₁ o₂.script g = true) :=
  swap_commitments' V ins utxos pre mid post o₁ o₂ c₁ c₂ h1 h2 h

variable [CommRing R] [AddCommGroup M] [Module R M]

/-- changing one explicit amount `v` to `v'` (output with asset generator `g`; amounts below a bound
    under which no natural annihilates `g`, e.g. 2^64): the two transactions do not both verify -/
theorem tamper_amount (cv : Curve R M A) (V : VPrims A M RP SP) (hV : AlgV cv V)
    (ins : List (TxIn A M)) (utxos pre post : List (TxOut A M RP SP)) (o : TxOut A M RP SP)
    (v v' : Nat) (g : M) (B : Nat) (hv : o.value = .explicit v) (hg : assetGen V o.asset = some g)
    (hne : v ≠ v') (hvB : v < B) (hvB' : v' < B) (hT : NoTorsion R g B) :
    ¬ (verify V ins (pre ++ o :: post) utxos = .ok ∧
       verify V ins (pre ++ { o with value := .explicit v' } :: post) utxos = .ok) :=
  tamper_amount' cv V hV ins utxos pre post o v v' g B hv hg hne hvB hvB' hT

/-- changing the explicit asset of an output with a positive explicit amount -/
theorem tamper_asset [DecidableEq A] (cv : Curve R M A) (V : VPrims A M RP SP) (hV : AlgV cv V)
    (ins : List (TxIn A M)) (utxos pre post : List (TxOut A M RP SP)) (o : TxOut A M RP SP)
    (a a' : A) (v : Nat) (B : Nat) (ha : o.asset = .explicit a) (hv : o.value = .explicit v)
    (hne : a ≠ a') (hv0 : 0 < v) (hvB : v < B) (hI : Indep cv) (hC : CastInj R B) :
    ¬ (verify V ins (pre ++ o :: post) utxos = .ok ∧
       verify V ins (pre ++ { o with asset := .explicit a' } :: post) utxos = .ok) :=
  tamper_asset' cv V hV ins utxos pre post o a a' v B ha hv hne hv0 hvB hI hC

/-- replacing a value commitment by a different one (no hypothesis on the module at all) -/
theorem replace_commitment (cv : Curve R M A) (V : VPrims A M RP SP) (hV : AlgV cv V)
    (ins : List (TxIn A M)) (utxos pre post : List (TxOut A M RP SP)) (o : TxOut A M RP SP)
    (c c' : M) (hc : o.value = .conf c) (hne : c ≠ c') :
    ¬ (verify V ins (pre ++ o :: post) utxos = .ok ∧
       verify V ins (pre ++ { o with value := .conf c' } :: post) utxos = .ok) :=
  replace_commitment' cv V hV ins utxos pre post o c c' hc hne

/-- any change of one output that changes the commitment it contributes -/
theorem tamper_any_output (cv : Curve R M A) (V : VPrims A M RP SP) (hV : AlgV cv V)
    (ins : List (TxIn A M)) (utxos pre post : List (TxOut A M RP SP)) (o o' : TxOut A M RP SP)
    (hdiff : (outCommit? V o).toList.sum ≠ (outCommit? V o').toList.sum) :
    ¬ (verify V ins (pre ++ o :: post) utxos = .ok ∧ verify V ins (pre ++ o' :: post) utxos = .ok) :=
  tamper_output cv V hV ins utxos pre post o o' hdiff

/-- changing an explicit issuance amount -/
theorem tamper_issuance (cv : Curve R M A) (V : VPrims A M RP SP) (hV : AlgV cv V)
    (outs : List (TxOut A M RP SP)) (ipre ipost : List (TxIn A M)) (inp : TxIn A M)
    (upre upost : List (TxOut A M RP SP)) (u : TxOut A M RP SP) (hl : upre.length = ipre.length)
    (v v' : Nat) (B : Nat) (hamt : inp.amount = .explicit v) (hne : v ≠ v') (hv0 : v ≠ 0) (hv0' : v' ≠ 0)
    (hvB : v < B) (hvB' : v' < B) (hT : NoTorsion R (cv.tag inp.assetId) B)
    (hkeys : inp.keys ≠ .explicit 0) :
    ¬ (verify V (ipre ++ inp :: ipost) outs (upre ++ u :: upost) = .ok ∧
       verify V (ipre ++ { inp with amount := .explicit v' } :: ipost) outs (upre ++ u :: upost) = .ok) :=
  tamper_issuance' cv V hV outs ipre ipost inp upre upost u hl v v' B hamt hne hv0 hv0' hvB hvB' hT hkeys

/-- presenting, for one input, a different spent output whose value commitment differs -/
theorem other_utxos (cv : Curve R M A) (V : VPrims A M RP SP) (hV : AlgV cv V)
    (outs : List (TxOut A M RP SP)) (ipre ipost : List (TxIn A M)) (inp : TxIn A M)
    (upre upost : List (TxOut A M RP SP)) (u u' : TxOut A M RP SP) (hl : upre.length = ipre.length)
    (g c g' c' : M) (hu : spentPair? V u = some (g, c)) (hu' : spentPair? V u' = some (g', c'))
    (hne : c ≠ c') :
    ¬ (verify V (ipre ++ inp :: ipost) outs (upre ++ u :: upost) = .ok ∧
       verify V (ipre ++ inp :: ipost) outs (upre ++ u' :: upost) = .ok) :=
  other_utxos' cv V hV outs ipre ipost inp upre upost u u' hl g c g' c' hu hu' hne

/-- **a transaction whose amounts are all explicit verifies exactly when, per asset, inputs plus
    issuances equal outputs plus fees**, zero-value outputs being admissible only on provably
    unspendable scripts (and spent outputs / issuance amounts being non-zero, list lengths equal) -/
theorem explicit_tx_iff_balanced [DecidableEq A] (cv : Curve R M A) (V : VPrims A M RP SP) (hV : AlgV cv V)
    (hI : Indep cv) (B : Nat) (hC : CastInj R B)
    (ins : List (TxIn A M)) (outs utxos : List (TxOut A M RP SP)) (hE : ExplicitTx ins outs utxos)
    (hB : ∀ a, amt a (inputOpenings ins utxos : List (Secrets A R)) < B ∧
      amt a (explicitOpenings outs : List (Secrets A R)) < B) :
    verify V ins outs utxos = .ok ↔
      utxos.length = ins.length ∧
      (∀ p ∈ ins.zip utxos, SpentOk p.2 ∧ IssOk p.1) ∧
      (∀ o ∈ outs, o.value = .explicit 0 → isProvablyUnspendable o.script = true) ∧
      ∀ a, amt a (inputOpenings ins utxos : List (Secrets A R)) =
        amt a (explicitOpenings outs : List (Secrets A R)) :=
  explicit_tx_iff_balanced' cv V hV hI B hC ins outs utxos hE hB

/-! ### non-vacuity: the hypotheses about the module are satisfiable -/
section instance_
open EV.Blind.Inst

/-- scalars `ℤ`, points the free module on {G, tag false, tag true}: tags independent of each other
    and of G, no torsion, naturals distinct -/
example : Indep Inst.cv ∧ (∀ B, CastInj ℤ B) ∧ (∀ B, NoTorsion ℤ Inst.cv.G B) ∧
    (∀ B a, NoTorsion ℤ (Inst.cv.tag a) B) ∧ AlgV Inst.cv Inst.Vz :=
  ⟨indep, castInj, noTorsion_G, noTorsion_tag, algV⟩

/-- in that instance: 10 units in, 9 + 1 out verifies; 10 in, 9 + 2 out does not -/
example : verify Vz [⟨.null, .null, false, false⟩]
    [⟨.explicit true, .explicit 9, .null, [1], none, none⟩, ⟨.explicit true, .explicit 1, .null, [], none, none⟩]
    [⟨.explicit true, .explicit 10, .null, [1], none, none⟩] = .ok := by
  rw [verify_ok_iff]
  refine ⟨rfl, ?_, ?_, ?_⟩
  · intro p hp
    simp at hp
    subst hp
    simp [SpentOk, IssOk]
  · intro o ho
    simp at ho
    rcases ho with rfl | rfl <;> simp [OutOk]
  · simp [Vz, inCommitsOf, pairsOf, spentPair?, assetGen, valueCommit, issuancePairs, TxIn.hasIssuance,
      CValue.isNull, outCommitsOf, outCommit?]
    ring

example : ¬ (verify Vz [⟨.null, .null, false, false⟩]
    [⟨.explicit true, .explicit 9, .null, [1], none, none⟩, ⟨.explicit true, .explicit 2, .null, [], none, none⟩]
    [⟨.explicit true, .explicit 10, .null, [1], none, none⟩] = .ok) := by
  intro h
  have h9 : verify Vz [⟨.null, .null, false, false⟩]
      ([⟨.explicit true, .explicit 9, .null, [1], none, none⟩] ++ ⟨.explicit true, .explicit 1, .null, [], none, none⟩ :: [])
      [⟨.explicit true, .explicit 10, .null, [1], none, none⟩] = .ok := by
    rw [verify_ok_iff]
    refine ⟨rfl, ?_, ?_, ?_⟩
    · intro p hp
      simp at hp
      subst hp
      simp [SpentOk, IssOk]
    · intro o ho
      simp at ho
      rcases ho with rfl | rfl <;> simp [OutOk]
    · simp [Vz, inCommitsOf, pairsOf, spentPair?, assetGen, valueCommit, issuancePairs, TxIn.hasIssuance,
        CValue.isNull, outCommitsOf, outCommit?]
      ring
  exact tamper_amount Inst.cv Vz algV _ _ _ _ ⟨.explicit true, .explicit 1, .null, [], none, none⟩ 1 2
    (Inst.cv.tag true) (2 ^ 64) rfl rfl (by decide) (by norm_num) (by norm_num) (noTorsion_tag _ true) ⟨h9, h⟩
end instance_

end EV.Props.C05
