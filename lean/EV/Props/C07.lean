/-
  C07 — PSET serialization round-trips and re-serialization is a fixpoint.

  Model: EV.Model.PsetWire (raw key/pair framing; generic typed map over a field table: `insertPair`,
  `getPairs`), EV.Model.PsetCodec (value / key codecs, `Ord` of the key types), EV.Model.PsetTables
  (generated: the three field tables in the emission order of `get_pairs`, record ⇄ slots),
  EV.Model.PsetSer (`Global` / `Input` / `Output` / `PartiallySignedTransaction` encode and decode with
  the mandatory-field and consistency checks, ELIP-100/102 accessors), on the in-memory records of
  EV.Model.Pset (shared with C08/C14).  Validity that lives in a dependency (libsecp parse predicates,
  `bitcoin::Transaction`, the four preimage hashes) is the parameter `W : WirePrims`; every theorem
  holds for all `W`.

  Well-formed class (`WfPset`): what the format itself accepts — declared counts equal to the number
  of maps (≤ 10 000), PSET version 2, every field value accepted by its codec and canonical, every
  `BTreeMap` strictly key-sorted, fields within their Rust integer widths, every output with an amount
  or commitment, an asset or commitment, a blinder index wherever a blinding key is set, blinding data
  absent or complete (`PsetOutput.accepted`).  `dec_wf` shows the class is exactly what the decoder
  produces.
-/
import EV.Proofs.PsetWireTyped
import EV.Proofs.PsetBridge
import EV.Props.C20
namespace EV.Props.C07
open EV EV.Codec EV.PsetWire EV.Proofs.CodecPrim EV.Proofs.PsetWireRaw EV.Proofs.PsetWireMap EV.Proofs.PsetWireCodec
  EV.Proofs.PsetWireTop EV.Proofs.PsetWireTyped EV.Elip

variable (W : WirePrims)

/-! ## the tables are the ones of the Rust source -/

/-- the field tables of the model list the same fields, in the same EMISSION ORDER, with the same key
    type bytes / proprietary subtypes and the same keyed / unkeyed / mandatory mode as the three
    `get_pairs` of the Rust source (lists regenerated from /repo by tools/extract.d/c07.py) -/
theorem tables_match_source :
    globalShape = Gen.PsetWire.globalEmit ∧ inputShape = Gen.PsetWire.inputEmit ∧ outputShape = Gen.PsetWire.outputEmit := by
  decide

/-- the Rust key / value types of the `insert_pair` arms ↦ the codec of the model (by name) -/
def keyCodecOf : String → String
  | "_" => "-" | "PublicKey" => "pk" | "hash:ripemd160" => "h20" | "hash:hash160" => "h20"
  | "hash:sha256" => "h32" | "hash:sha256d" => "h32" | "(XOnlyPublicKey,TapLeafHash)" => "tapsigkey"
  | "ControlBlock" => "cb" | "XOnlyPublicKey" => "xonly" | _ => "?"
def valCodecOf (keyTy : String) : String → String
  | "Transaction" => "tx" | "TxOut" => "txout" | "PsbtSighashType" => "u32" | "Script" => "bytes"
  | "KeySource" => "keysource" | "Vec<Vec<u8>>" => "stack" | "Sequence" => "u32" | "locktime::Time" => "time"
  | "locktime::Height" => "height" | "schnorr::SchnorrSig" => "schnorr" | "(Script,LeafVersion)" => "scriptver"
  | "(Vec<TapLeafHash>,KeySource)" => "taporigin" | "XOnlyPublicKey" => "xonly" | "TapNodeHash" => "b32"
  | "u64" => "u64" | "u32" => "u32" | "u8" => "u8" | "secp256k1_zkp::PedersenCommitment" => "commitment"
  | "Generator" => "generator" | "Box<RangeProof>" => "rangeproof" | "Box<SurjectionProof>" => "surjproof"
  | "bitcoin::Transaction" => "btctx" | "BlockHash" => "b32" | "Tweak" => "tweak" | "[u8;32]" => "b32"
  | "AssetId" => "b32" | "TapTree" => "taptree" | "PublicKey" => "pk"
  | "Vec<u8>" =>
    if keyTy == "hash:ripemd160" then "pre_ripemd160" else if keyTy == "hash:sha256" then "pre_sha256"
    else if keyTy == "hash:hash160" then "pre_hash160" else if keyTy == "hash:sha256d" then "pre_hash256" else "bytes"
  | _ => "?"

/-- a routing arm of the Rust source is matched by the model: same type byte / subtype for the field, and
    the model's codecs are the ones of the arm's Rust key and value types -/
def armMatches (shape : List (String × String × Nat)) (codecs : List (String × String × String))
    (arm : Nat × Bool × String × String × String) : Bool :=
  let (num, prop, field, kty, vty) := arm
  shape.any (fun s => s.1 == field && s.2.2 == num && ((s.2.1 == "prop") == prop)) &&
  codecs.contains (field, keyCodecOf kty, valCodecOf kty vty)

/-- every `insert_pair` arm of `Input` and `Output` in the Rust source (type byte or proprietary subtype,
    field, Rust key type, Rust value type — regenerated from /repo) is routed and typed the same way in
    the model tables: re-routing a key type or changing the type a field is deserialized as breaks
    this theorem -/
theorem tables_match_routing :
    Gen.PsetWire.inputRouting.all (armMatches inputShape inputCodecNames) = true ∧
    Gen.PsetWire.outputRouting.all (armMatches outputShape outputCodecNames) = true := by
  decide

/-- … and the model tables carry exactly these names and tags -/
theorem tables_match_shape :
    (globalTable W).map (·.name) = globalShape.map (·.1) ∧ (inputTable W).map (·.name) = inputShape.map (·.1) ∧
    (outputTable W).map (·.name) = outputShape.map (·.1) := ⟨rfl, rfl, rfl⟩

/-- the positions the decoders test for mandatory fields are the fields they name -/
theorem mandatory_positions :
    ((globalTable W)[PsetGlobal.ixVersion]?.map (·.name) = some "version") ∧
    ((globalTable W)[PsetGlobal.ixTxVersion]?.map (·.name) = some "tx_version") ∧
    ((globalTable W)[PsetGlobal.ixInputCount]?.map (·.name) = some "input_count") ∧
    ((globalTable W)[PsetGlobal.ixOutputCount]?.map (·.name) = some "output_count") ∧
    ((inputTable W)[PsetInput.ixPreviousTxid]?.map (·.name) = some "previous_txid") ∧
    ((inputTable W)[PsetInput.ixPreviousOutputIndex]?.map (·.name) = some "previous_output_index") ∧
    ((outputTable W)[PsetOutput.ixScriptPubkey]?.map (·.name) = some "script_pubkey") :=
  ⟨rfl, rfl, rfl, rfl, rfl, rfl, rfl⟩

/-- key types are pairwise distinct within each table (no pair can be routed to two fields) and no
    field claims the proprietary type byte for itself -/
theorem tables_distinct : TableOk (globalTable W) ∧ TableOk (inputTable W) ∧ TableOk (outputTable W) :=
  ⟨globalTable_ok W, inputTable_ok W, outputTable_ok W⟩

/-- every value codec of the 79 fields is idempotent and never lengthens a value: what a decoder stores
    is canonical -/
theorem tables_lawful : TableLaw (globalTable W) ∧ TableLaw (inputTable W) ∧ TableLaw (outputTable W) :=
  ⟨globalTable_law W, inputTable_law W, outputTable_law W⟩

/-! ## raw layer -/

/-- the key-value framing is a lawful codec for any list of pairs within the allocation limits: it
    reads back exactly the pairs written and leaves the rest untouched … -/
theorem raw_roundtrip (ps : List Pair) (hok : ∀ p ∈ ps, PairOk p) (r : Bytes) :
    decMapRaw (encPairs ps ++ r) = .ok (ps, r) := decMapRaw_complete ps hok r

/-- … it accepts ONLY canonical framings (minimal compact sizes): the input is the encoding of the
    pairs read, so the framing is prefix-free … -/
theorem raw_canonical (bs : Bytes) (ps : List Pair) (r : Bytes) (h : decMapRaw bs = .ok (ps, r)) :
    bs = encPairs ps ++ r ∧ ∀ p ∈ ps, PairOk p := decMapRaw_sound bs ps r h

/-- … and it never panics -/
theorem raw_total (bs : Bytes) (s : String) : decMapRaw bs ≠ .panic s := decMapRaw_total bs s

/-- proprietary keys: prefix, subtype and key data are recovered, and only canonical key data parse -/
theorem propkey_roundtrip (pfx : Bytes) (sub : UInt8) (k : Bytes) (h : pfx.length ≤ maxVecSize) :
    decPropKey (encPropKey pfx sub k) = some (pfx, sub, k) := decPropKey_enc pfx sub k h

/-! ## generic typed map: proved ONCE over the field table -/

/-- `map_dec_enc`: for ANY table with pairwise distinct tags, decoding the encoding of well-formed slots
    gives the slots back — whatever the emission order of the `BTreeMap` groups (`Field.keyLt`) is -/
theorem map_dec_enc (T : List Field) (hT : TableOk T) (st : List Slot) (hw : WfSlots T st) (r : Bytes) :
    decMap T (encMap T st ++ r) = .ok (st, r) := decMap_encMap hT st hw r

/-- `map_enc_dec`: for ANY table of idempotent codecs, whatever the pair loop accepts is well-formed
    (maps strictly sorted by serialized key and duplicate-free, every stored value canonical), hence
    re-encodes to a canonical byte string that decodes to the same slots -/
theorem map_enc_dec (T : List Field) (hT : TableOk T) (hL : TableLaw T) (bs : Bytes) (st : List Slot) (r : Bytes)
    (h : decMap T bs = .ok (st, r)) : WfSlots T st ∧ ∀ r', decMap T (encMap T st ++ r') = .ok (st, r') := by
  have hw := decMap_wf hL bs st r h
  exact ⟨hw, fun r' => decMap_encMap hT st hw r'⟩

/-- the pair loop never panics -/
theorem map_total (T : List Field) (bs : Bytes) (m : String) : decMap T bs ≠ .panic m := decMap_total T bs m

/-- generic duplicate rejection: two pairs with the same raw key, anywhere in a map, make it fail
    (every field kind except the overwrite-on-repeat kind `optLast`, which no field of the three tables has) -/
theorem duplicate_key_rejected (T : List Field) (pre mid post : List Pair) (rk : RawKey) (v1 v2 : Bytes) (i : Nat)
    (ik : Bytes) (f : Field) (hc : classify T rk = .ok (i, ik)) (hf : T[i]? = some f) (hk : f.kind ≠ .optLast) :
    ∀ st st', insertAll T st (pre ++ (rk, v1) :: (mid ++ (rk, v2) :: post)) ≠ .ok st' :=
  EV.Proofs.PsetWireReject.duplicate_key_rejected T pre mid post rk v1 v2 i ik f hc hf hk

/-! ## the three maps -/

theorem global_roundtrip (g : PsetGlobal) (h : WfGlobal W g) (r : Bytes) :
    PsetGlobal.dec W (PsetGlobal.enc W g ++ r) = .ok (g, r) := EV.Proofs.PsetWireTop.global_roundtrip W g h r
theorem input_roundtrip (x : PsetInput) (h : WfInput W x) (r : Bytes) :
    PsetInput.dec W (PsetInput.enc W x ++ r) = .ok (x, r) := EV.Proofs.PsetWireTop.input_roundtrip W x h r
theorem output_roundtrip (x : PsetOutput) (h : WfOutput W x) (r : Bytes) :
    PsetOutput.dec W (PsetOutput.enc W x ++ r) = .ok (x, r) := EV.Proofs.PsetWireTop.output_roundtrip W x h r

/-- accepted maps are well-formed, for each of the three kinds -/
theorem maps_dec_wf :
    (∀ bs g r, PsetGlobal.dec W bs = .ok (g, r) → WfGlobal W g) ∧
    (∀ bs x r, PsetInput.dec W bs = .ok (x, r) → WfInput W x) ∧
    (∀ bs x r, PsetOutput.dec W bs = .ok (x, r) → WfOutput W x) :=
  ⟨global_dec_wf W, input_dec_wf W, output_dec_wf W⟩

/-- the acceptance rules of an output, spelled out: what `WfOutput` adds to canonical field values -/
theorem output_rules (o : PsetOutput) (h : WfOutput W o) :
    (o.amount.isSome ∨ o.amountComm.isSome) ∧ (o.asset.isSome ∨ o.assetComm.isSome) ∧
    (o.blindingKey.isSome → o.blinderIndex.isSome) ∧
    (o.blindingKey.isSome → (o.amountComm.isSome ∨ o.assetComm.isSome ∨ o.valueRangeproof.isSome ∨
        o.assetSurjectionProof.isSome ∨ o.ecdhPubkey.isSome) →
      (o.amountComm.isSome ∧ o.assetComm.isSome ∧ o.valueRangeproof.isSome ∧ o.assetSurjectionProof.isSome ∧
        o.ecdhPubkey.isSome)) := by
  have ha := h.2.2
  unfold PsetOutput.accepted PsetOutput.isPartiallyBlinded PsetOutput.isFullyBlinded at ha
  cases h1 : o.amount <;> cases h2 : o.amountComm <;> cases h3 : o.asset <;> cases h4 : o.assetComm <;>
    cases h5 : o.blindingKey <;> cases h6 : o.blinderIndex <;> cases h7 : o.valueRangeproof <;>
    cases h8 : o.assetSurjectionProof <;> cases h9 : o.ecdhPubkey <;>
    simp_all

/-! ## the whole PSET -/

/-- `pset_roundtrip`: every well-formed PSET decodes from its serialization to itself (all 79 fields,
    maps of any size, tap trees of every shape, unknown and foreign proprietary pairs included) -/
theorem pset_roundtrip (p : Pset) (h : WfPset W p) : Pset.deserialize W (Pset.serialize W p) = .ok p :=
  EV.Proofs.PsetWireTop.pset_roundtrip W p h

/-- `dec_wf`: whatever the decoder accepts is in the well-formed class -/
theorem dec_wf (bs : Bytes) (p : Pset) (h : Pset.deserialize W bs = .ok p) : WfPset W p := pset_dec_wf W bs p h

/-- `reencode_fixpoint`: for every accepted byte string, decoding then encoding yields a byte string
    that decodes to an equal PSET and re-encodes to itself unchanged.  (The accepted string need not be
    canonical — pairs in any order inside a map, a 65-byte Schnorr signature with sighash byte 0x00,
    trailing bytes after a count — its re-encoding is: maps emitted in table order, groups in key
    order, canonical values.) -/
theorem reencode_fixpoint (bs : Bytes) (p : Pset) (h : Pset.deserialize W bs = .ok p) :
    ∃ p', Pset.deserialize W (Pset.serialize W p) = .ok p' ∧ p' = p ∧ Pset.serialize W p' = Pset.serialize W p :=
  ⟨p, pset_roundtrip W p (dec_wf W bs p h), rfl, rfl⟩

/-- the decoder never panics on any byte string -/
theorem dec_total (bs : Bytes) (m : String) : Pset.deserialize W bs ≠ .panic m := by
  intro h
  unfold Pset.deserialize at h
  cases hd : Pset.dec W bs with
  | ok q =>
    obtain ⟨p, r⟩ := q
    rw [hd] at h
    cases r <;> cases h
  | err e => rw [hd] at h; cases h
  | panic m' =>
    unfold Pset.dec at hd
    cases ht : take 4 bs with
    | ok q1 =>
      obtain ⟨mg, r0⟩ := q1
      rw [ht] at hd
      simp only at hd
      split at hd
      · cases hd
      · cases r0 with
        | nil => cases hd
        | cons s r1 =>
          simp only at hd
          split at hd
          · cases hd
          · cases hg : PsetGlobal.dec W r1 with
            | ok q2 =>
              obtain ⟨g, r2⟩ := q2
              rw [hg] at hd
              simp only at hd
              split at hd
              · cases hd
              · cases hi : repeatN (PsetInput.dec W) g.inputCount r2 with
                | ok q3 =>
                  obtain ⟨ins, r3⟩ := q3
                  rw [hi] at hd
                  simp only at hd
                  split at hd
                  · cases hd
                  · cases ho : repeatN (PsetOutput.dec W) g.outputCount r3 with
                    | ok q4 =>
                      obtain ⟨outs, r4⟩ := q4
                      rw [ho] at hd
                      simp only at hd
                      cases hs : Pset.sanityCheck { global := g, inputs := ins, outputs := outs } with
                      | ok u => rw [hs] at hd; cases hd
                      | err e => rw [hs] at hd; cases hd
                      | panic m3 =>
                        unfold Pset.sanityCheck at hs
                        repeat (first | cases hs | split at hs)
                    | err e => rw [ho] at hd; cases hd
                    | panic m2 => exact repeatN_total _ (output_total W) _ _ _ ho
                | err e => rw [hi] at hd; cases hd
                | panic m2 => exact repeatN_total _ (input_total W) _ _ _ hi
            | err e => rw [hg] at hd; cases hd
            | panic m2 => exact global_total W _ _ hg
    | err e => rw [ht] at hd; cases hd
    | panic m2 => exact (take_lawful 4).total _ _ ht

/-! ## rejections -/

/-- `count_mismatch_rejected`: an accepted PSET has exactly the declared numbers of maps; a PSET whose
    counts differ from its lists is refused by `sanity_check` and its serialization never decodes to it -/
theorem count_mismatch_rejected (p : Pset) (h : p.global.inputCount ≠ p.inputs.length ∨ p.global.outputCount ≠ p.outputs.length) :
    (∃ e, p.sanityCheck = .err e) ∧ Pset.deserialize W (Pset.serialize W p) ≠ .ok p := by
  refine ⟨?_, ?_⟩
  · unfold Pset.sanityCheck Pset.nInputs Pset.nOutputs
    by_cases h1 : p.global.inputCount ≠ p.inputs.length
    · exact ⟨_, by rw [if_pos h1]⟩
    · rw [if_neg h1]
      have h2 : p.global.outputCount ≠ p.outputs.length := by
        rcases h with h | h
        · exact absurd h h1
        · exact h
      exact ⟨_, by rw [if_pos h2]⟩
  · intro hd
    obtain ⟨_, _, _, h1, h2, _⟩ := dec_wf W _ _ hd
    rcases h with h | h
    · exact h h1
    · exact h h2

/-- `too_many_maps_rejected`: more than 10 000 declared inputs or outputs -/
theorem too_many_maps_rejected (r1 r2 : Bytes) (g : PsetGlobal) (hg : PsetGlobal.dec W r1 = .ok (g, r2))
    (h : g.inputCount > Pset.maxMaps ∨ g.outputCount > Pset.maxMaps) :
    ∃ e, Pset.dec W (Pset.magic ++ Pset.separator :: r1) = .err e := too_many_maps W r1 r2 g hg h

/-- `missing_mandatory_rejected`, inputs: no pair of type 0x0e (previous txid), or none of type 0x0f
    (output index), among the pairs of the map -/
theorem missing_mandatory_rejected_input (bs : Bytes) (ps : List Pair) (r : Bytes) (hr : decMapRaw bs = .ok (ps, r))
    (hn : (∀ p ∈ ps, p.1.ty ≠ u8n Gen.PsetWire.psetInPreviousTxid) ∨ (∀ p ∈ ps, p.1.ty ≠ u8n Gen.PsetWire.psetInOutputIndex)) :
    ∃ e, PsetInput.dec W bs = .err e := by
  rcases hn with hn | hn
  · exact input_missing_txid W bs ps r hr hn
  · exact input_missing_vout W bs ps r hr hn

/-- outputs: no pair of type 0x04 (script) -/
theorem missing_mandatory_rejected_output (bs : Bytes) (ps : List Pair) (r : Bytes) (hr : decMapRaw bs = .ok (ps, r))
    (hn : ∀ p ∈ ps, p.1.ty ≠ u8n Gen.PsetWire.psetOutScript) : ∃ e, PsetOutput.dec W bs = .err e :=
  output_missing_script W bs ps r hr hn

/-- global: no PSET version (0xFB), tx version (0x02), input count (0x04) or output count (0x05) -/
theorem missing_mandatory_rejected_global (bs : Bytes) (ps : List Pair) (r : Bytes) (hr : decMapRaw bs = .ok (ps, r))
    (ty : UInt8) (hty : ty = u8n Gen.PsetWire.psetGlobalVersion ∨ ty = u8n Gen.PsetWire.psetGlobalTxVersion ∨
      ty = u8n Gen.PsetWire.psetGlobalInputCount ∨ ty = u8n Gen.PsetWire.psetGlobalOutputCount)
    (hn : ∀ p ∈ ps, p.1.ty ≠ ty) : ∃ e, PsetGlobal.dec W bs = .err e := global_missing W bs ps r hr ty hty hn

/-- an accepted global map has PSET version 2; an accepted output satisfies the four output rules -/
theorem version_and_output_rules :
    (∀ bs g r, PsetGlobal.dec W bs = .ok (g, r) → g.version = 2) ∧
    (∀ bs o r, PsetOutput.dec W bs = .ok (o, r) → o.accepted = .ok ()) :=
  ⟨fun bs g r h => (global_dec_wf W bs g r h).2.2, fun bs o r h => (output_dec_wf W bs o r h).2.2⟩

/-- `duplicate_key_rejected` on the concrete maps: ANY raw key (type byte + key data: dedicated fields,
    Elements proprietary fields incl. the global scalars and `elements_tx_modifiable_flag`, foreign
    proprietary and unknown pairs alike) occurring twice in a global, input or output map makes it fail -/
theorem duplicate_key_rejected_maps (bs r : Bytes) (pre mid post : List Pair) (rk : RawKey) (v1 v2 : Bytes)
    (hr : decMapRaw bs = .ok (pre ++ (rk, v1) :: (mid ++ (rk, v2) :: post), r)) :
    (∃ e, PsetGlobal.dec W bs = .err e) ∧ (∃ e, PsetInput.dec W bs = .err e) ∧ (∃ e, PsetOutput.dec W bs = .err e) :=
  ⟨global_duplicate W bs r pre mid post rk v1 v2 hr, input_duplicate W bs r pre mid post rk v1 v2 hr,
   output_duplicate W bs r pre mid post rk v1 v2 hr⟩

/-- `bad_preimage_rejected`: a pair of one of the four preimage types whose key is not the hash of its
    value (hashes are parameters) -/
theorem bad_preimage_rejected (bs r : Bytes) (pre post : List Pair) (rk : RawKey) (v : Bytes)
    (hr : decMapRaw bs = .ok (pre ++ (rk, v) :: post, r))
    (hbad : (rk.ty = u8n Gen.PsetWire.psetInRipemd160 ∧ W.ripemd160 v ≠ rk.key) ∨
            (rk.ty = u8n Gen.PsetWire.psetInSha256 ∧ W.sha256 v ≠ rk.key) ∨
            (rk.ty = u8n Gen.PsetWire.psetInHash160 ∧ W.hash160 v ≠ rk.key) ∨
            (rk.ty = u8n Gen.PsetWire.psetInHash256 ∧ W.hash256 v ≠ rk.key)) :
    ∃ e, PsetInput.dec W bs = .err e := input_bad_preimage W bs r pre post rk v hr hbad

/-- generic: a pair whose value the codec of its field refuses makes the map fail -/
theorem invalid_value_rejected (T : List Field) (pre post : List Pair) (rk : RawKey) (v : Bytes) (i : Nat) (ik : Bytes)
    (f : Field) (hc : classify T rk = .ok (i, ik)) (hf : T[i]? = some f) (hv : f.normVal ik v = none) :
    ∀ st st', insertAll T st (pre ++ (rk, v) :: post) ≠ .ok st' :=
  EV.Proofs.PsetWireReject.invalid_value_rejected T pre post rk v i ik f hc hf hv

/-! ## key order -/

/-- `key_order_irrelevant`: an input or output map decodes to the same record whatever the order of its
    pairs (any permutation of the pair list; the canonical re-encoding is then the same byte string).
    Not claimed for the global map, where the scalar pairs fill a `Vec` in arrival order. -/
theorem key_order_irrelevant (ps ps' : List Pair) (hp : ps.Perm ps') (hok : ∀ p ∈ ps, PairOk p) (r : Bytes) :
    (∀ x r', PsetInput.dec W (encPairs ps ++ r) = .ok (x, r') → PsetInput.dec W (encPairs ps' ++ r) = .ok (x, r')) ∧
    (∀ x r', PsetOutput.dec W (encPairs ps ++ r) = .ok (x, r') → PsetOutput.dec W (encPairs ps' ++ r) = .ok (x, r')) :=
  ⟨fun x r' h => input_perm W ps ps' hp hok r x r' h, fun x r' h => output_perm W ps ps' hp hok r x r' h⟩

/-! ## unknown and foreign proprietary pairs -/

/-- `unknown_preserved`: every pair of an accepted input / output map whose type byte has no field is
    kept verbatim in `unknown`, every foreign proprietary pair verbatim in `proprietary` (and then
    re-emitted: `pset_roundtrip`) -/
theorem unknown_preserved (bs r : Bytes) (ps : List Pair) (p : Pair) (hp : p ∈ ps) (hr : decMapRaw bs = .ok (ps, r)) :
    (∀ x r', PsetInput.dec W bs = .ok (x, r') →
      (classify (inputTable W) p.1 = .ok (47, p.1.ty :: p.1.key) → KV.lookup (p.1.ty :: p.1.key) x.unknown = some p.2) ∧
      (classify (inputTable W) p.1 = .ok (46, p.1.key) → KV.lookup p.1.key x.proprietary = some p.2)) ∧
    (∀ x r', PsetOutput.dec W bs = .ok (x, r') →
      (classify (outputTable W) p.1 = .ok (19, p.1.ty :: p.1.key) → KV.lookup (p.1.ty :: p.1.key) x.unknown = some p.2) ∧
      (classify (outputTable W) p.1 = .ok (18, p.1.key) → KV.lookup p.1.key x.proprietary = some p.2)) :=
  ⟨fun x r' h => ⟨input_unknown_preserved W bs r ps x r' hr h p hp, input_proprietary_preserved W bs r ps x r' hr h p hp⟩,
   fun x r' h => ⟨output_unknown_preserved W bs r ps x r' hr h p hp, output_proprietary_preserved W bs r ps x r' hr h p hp⟩⟩

/-- which keys these are, by example: type 0x09 (unassigned in inputs) is unknown; a proprietary key with
    another prefix, or with prefix "pset" and an unassigned subtype, is foreign -/
example (k : Bytes) : classify (inputTable W) ⟨0x09, k⟩ = .ok (47, 0x09 :: k) := rfl
example (k : Bytes) : classify (inputTable W) ⟨0xFC, encPropKey [0x78, 0x78] 0 k⟩ = .ok (46, encPropKey [0x78, 0x78] 0 k) := rfl
example (k : Bytes) : classify (inputTable W) ⟨0xFC, encPropKey psetPrefix 0x40 k⟩ = .ok (46, encPropKey psetPrefix 0x40 k) := rfl
example (k : Bytes) : classify (inputTable W) ⟨0xFC, encPropKey psetPrefix 0x11 k⟩ = .ok (41, k) := rfl

/-! ## value codecs -/

/-- the tap-tree codec accepts only canonical encodings: an accepted tree re-serializes to the same bytes
    (the builder keeps the leaves in depth-first order with branch length = depth; C15 `builder_sound`) -/
theorem tap_tree_canonical (k v x : Bytes) (h : tapTreeNorm W k v = some x) : x = v :=
  EV.Proofs.PsetWireTap.tapTreeNorm_canonical W k v x h

/-- a 65-byte Schnorr signature with sighash byte 0x00 is accepted and stored as its 64 signature bytes;
    the stored form is a fixpoint -/
theorem schnorr_default_normalised (v : Bytes) (h : v.length = 65) (h0 : (v.getD 64 0).toNat = 0) :
    schnorrNorm [] v = some (v.take 64) ∧ schnorrNorm [] (v.take 64) = some (v.take 64) := by
  have hl : (v.take 64).length = 64 := by simp [List.length_take]; omega
  refine ⟨?_, by unfold schnorrNorm; rw [if_pos hl]⟩
  unfold schnorrNorm
  rw [if_neg (by omega), if_pos h]
  simp only [h0]
  rfl

/-! ## ELIP-100 / ELIP-102 -/

/-- `get (add m) = some m` for asset metadata, token metadata and the asset blinding factors -/
theorem elip_accessors (utf8 tweak : Bytes → Bool) :
    (∀ (p : Pset) (assetId : Bytes) (m : AssetMetadata), utf8 m.contract = true → m.contract.length ≤ maxVecSize →
      m.prevout.wf → getAssetMetadata utf8 (addAssetMetadata p assetId m).1 assetId = some (.ok m)) ∧
    (∀ (p : Pset) (tokenId : Bytes) (m : TokenMetadata), m.assetId.length = 32 →
      getTokenMetadata (addTokenMetadata p tokenId m).1 tokenId = some (.ok m)) ∧
    (∀ (x : PsetInput) (abf : Bytes), abf.length = 32 → tweak abf = true → inGetAbf tweak (inSetAbf x abf) = some (.ok abf)) ∧
    (∀ (x : PsetOutput) (abf : Bytes), abf.length = 32 → tweak abf = true → outGetAbf tweak (outSetAbf x abf) = some (.ok abf)) :=
  ⟨fun p a m h1 h2 h3 => get_add_asset_metadata utf8 p a m h1 h2 h3, fun p t m h => get_add_token_metadata p t m h,
   fun x abf h1 h2 => in_get_set_abf tweak x abf h1 h2, fun x abf h1 h2 => out_get_set_abf tweak x abf h1 h2⟩

/-- asset and token metadata of the same id do not disturb each other -/
theorem elip_asset_token_independent (utf8 : Bytes → Bool) (p : Pset) (a t : Bytes) (m : TokenMetadata) :
    getAssetMetadata utf8 (addTokenMetadata p t m).1 a = getAssetMetadata utf8 p a :=
  get_asset_after_add_token utf8 p a t m

/-- metadata read from a decoded PSET is what the encoded PSET held: the accessors only look at the
    proprietary map, which round-trips -/
theorem elip_through_bytes (utf8 : Bytes → Bool) (p : Pset) (h : WfPset W p) (a : Bytes) :
    (Pset.deserialize W (Pset.serialize W p)).map (fun q => getAssetMetadata utf8 q a) = .ok (getAssetMetadata utf8 p a) := by
  rw [pset_roundtrip W p h]
  rfl

/-! ## base64 text -/

/-- `to_string` / `from_str`: every well-formed PSET parses back from its base64 text (C20
    `text_roundtrip_pset` instantiated with the binary round trip proved here) -/
theorem base64_roundtrip (p : Pset) (h : WfPset W p) :
    Text.psetParse (Pset.deserialize W) (Text.psetShow (Pset.serialize W) p) = .ok p :=
  EV.Props.C20.text_roundtrip_pset (Pset.serialize W) (Pset.deserialize W) p (pset_roundtrip W p h)

/-- … and for every accepted text the re-rendered text parses to the same PSET -/
theorem base64_fixpoint (cs : Text.Str) (p : Pset) (h : Text.psetParse (Pset.deserialize W) cs = .ok p) :
    Text.psetParse (Pset.deserialize W) (Text.psetShow (Pset.serialize W) p) = .ok p := by
  unfold Text.psetParse at h
  cases hb : Text.b64Dec cs with
  | ok b =>
    rw [hb] at h
    exact base64_roundtrip W p (dec_wf W b p h)
  | err e => rw [hb] at h; cases h
  | panic m => rw [hb] at h; cases h

/-! ## non-vacuity -/

/-- the empty version-2 PSET is in the well-formed class (for every `W`) -/
theorem empty_wf : WfPset W {} := by
  refine ⟨⟨?_, ?_, rfl⟩, (by intro i h; cases h), (by intro o h; cases h), rfl, rfl, (by decide), (by decide)⟩
  · rw [wfSlots_iff_zip]
    simp only [PsetGlobal.toSlots, globalTable, WfZip, and_true]
    refine ⟨?_, ?_, ?_, ?_, ?_, ?_, ?_, ?_, ?_, ?_, ?_⟩ <;>
      first
        | exact wfSlot_nil _ _
        | (refine ⟨?_, ?_⟩
           · intro kv hkv
             simp only [Slot.ofOptN, Slot.ofOpt, Option.map_some, List.mem_singleton] at hkv
             subst hkv
             exact ⟨trivial, (by decide), (by decide), (by decide)⟩
           · exact ⟨(by decide), (by
               intro kv hkv
               simp only [Slot.ofOptN, Slot.ofOpt, Option.map_some, List.mem_singleton] at hkv
               subst hkv; rfl)⟩)
  · exact { txVersion := (by decide), fallbackLocktime := (by intro n h; cases h), inputCount := (by decide),
            outputCount := (by decide), txModifiable := (by intro n h; cases h), xpub := (by intro kv h; cases h),
            version := (by decide), elementsTxModifiableFlag := (by intro n h; cases h) }

/-- hence its serialization decodes to it -/
example : Pset.deserialize W (Pset.serialize W {}) = .ok {} := pset_roundtrip W {} (empty_wf W)

/-- the bytes of the empty PSET, computed by the model: `pset` 0xff, tx version 2, counts 0, PSET version 2,
    terminator -/
example : Pset.serialize W {} =
    [0x70, 0x73, 0x65, 0x74, 0xff, 0x01, 0x02, 0x04, 0x02, 0, 0, 0, 0x01, 0x04, 0x01, 0x00, 0x01, 0x05, 0x01, 0x00,
     0x01, 0xfb, 0x04, 0x02, 0, 0, 0, 0x00] := rfl

/-- a PSET with one input (all-zero previous txid, index 0) and one explicit output (empty script,
    amount 1, all-zero asset id) is in the class for every `W` (its fields only use codecs that do not
    consult the dependency predicates) -/
def samplePset : Pset :=
  { global := { inputCount := 1, outputCount := 1 }, inputs := [{}],
    outputs := [{ amount := some 1, asset := some (List.replicate 32 0) }] }

theorem sample_wf : WfPset W samplePset := by
  have hg : WfGlobal W samplePset.global := by
    refine ⟨?_, ?_, rfl⟩
    · rw [wfSlots_iff_zip]
      simp only [samplePset, PsetGlobal.toSlots, globalTable, WfZip, and_true]
      refine ⟨?_, ?_, ?_, ?_, ?_, ?_, ?_, ?_, ?_, ?_, ?_⟩ <;>
        first
          | exact wfSlot_nil _ _
          | (refine ⟨?_, ?_⟩
             · intro kv hkv
               simp only [Slot.ofOptN, Slot.ofOpt, Option.map_some, List.mem_singleton] at hkv
               subst hkv
               exact ⟨trivial, (by decide), (by decide), (by decide)⟩
             · exact ⟨(by decide), (by
                 intro kv hkv
                 simp only [Slot.ofOptN, Slot.ofOpt, Option.map_some, List.mem_singleton] at hkv
                 subst hkv; rfl)⟩)
    · constructor <;> first | decide | (intro n h; cases h)
  have hi : WfInput W {} := by
    refine ⟨?_, ?_⟩
    · rw [wfSlots_iff_zip]
      simp only [PsetInput.toSlots, inputTable, WfZip, and_true]
      refine ⟨?_, ?_, ?_, ?_, ?_, ?_, ?_, ?_, ?_, ?_, ?_, ?_, ?_, ?_, ?_, ?_, ?_, ?_, ?_, ?_, ?_, ?_, ?_, ?_, ?_, ?_, ?_, ?_, ?_, ?_, ?_, ?_, ?_, ?_, ?_, ?_, ?_, ?_, ?_, ?_, ?_, ?_, ?_, ?_, ?_, ?_, ?_, ?_⟩ <;>
        first
          | exact wfSlot_nil _ _
          | (refine ⟨?_, ?_⟩
             · intro kv hkv
               simp only [Slot.ofOptN, Slot.ofOpt, Option.map_some, List.mem_singleton] at hkv
               subst hkv
               exact ⟨trivial, (by decide), (by decide), (by decide)⟩
             · exact ⟨(by decide), (by
                 intro kv hkv
                 simp only [Slot.ofOptN, Slot.ofOpt, Option.map_some, List.mem_singleton] at hkv
                 subst hkv; rfl)⟩)
    · constructor <;> first | decide | (intro n h; cases h)
  have ho : WfOutput W { amount := some 1, asset := some (List.replicate 32 0) } := by
    refine ⟨?_, ?_, rfl⟩
    · rw [wfSlots_iff_zip]
      simp only [PsetOutput.toSlots, outputTable, WfZip, and_true]
      refine ⟨?_, ?_, ?_, ?_, ?_, ?_, ?_, ?_, ?_, ?_, ?_, ?_, ?_, ?_, ?_, ?_, ?_, ?_, ?_, ?_⟩ <;>
        first
          | exact wfSlot_nil _ _
          | (refine ⟨?_, ?_⟩
             · intro kv hkv
               simp only [Slot.ofOptN, Slot.ofOpt, Option.map_some, List.mem_singleton] at hkv
               subst hkv
               exact ⟨trivial, (by decide), (by decide), (by decide)⟩
             · exact ⟨(by decide), (by
                 intro kv hkv
                 simp only [Slot.ofOptN, Slot.ofOpt, Option.map_some, List.mem_singleton] at hkv
                 subst hkv; rfl)⟩)
    · constructor <;> first | decide | (intro n h; cases h) | (intro n h; cases h; decide)
  refine ⟨hg, ?_, ?_, rfl, rfl, (by decide), (by decide)⟩
  · intro i h
    simp only [samplePset, List.mem_singleton] at h
    subst h; exact hi
  · intro o h
    simp only [samplePset, List.mem_singleton] at h
    subst h; exact ho

/-- … so it round-trips through bytes and through base64 -/
example : Pset.deserialize W (Pset.serialize W samplePset) = .ok samplePset := pset_roundtrip W _ (sample_wf W)
example : Text.psetParse (Pset.deserialize W) (Text.psetShow (Pset.serialize W) samplePset) = .ok samplePset :=
  base64_roundtrip W _ (sample_wf W)

/-! ## BRIDGE to C08 (`from_tx`, `extract_tx`, `unique_id`, `locktime`) and C14 (`merge`)

  The codec of this file and the functions of C08 / C14 are defined on the SAME records
  (`PsetGlobal`, `PsetInput`, `PsetOutput`, `Pset` of EV.Model.Pset: all 11 + 48 + 20 fields, nothing is
  projected away), so `Pset.serialize W (Pset.fromTx t)`, `(Pset.deserialize W bs).bind Pset.extractTx`,
  `Pset.merge H a b` followed by `Pset.serialize W` … are well-typed compositions of the three models.
  What differs is the DOMAIN the theorems are stated on: `WfPset` here, `Pset.Sorted` in C14, `Tx.wf`
  (C01) in C08.  The theorems below connect the domains. -/

section Bridge
open EV.Proofs.PsetBridge

/-- a codec-well-formed PSET satisfies the `BTreeMap` invariant (`Pset.Sorted`) under which the merge
    laws of C14 (commutativity, associativity, nothing lost) are stated: they apply to everything the
    decoder accepts -/
theorem wf_is_sorted (p : Pset) (h : WfPset W p) : p.Sorted := wf_sorted W p h

theorem decoded_is_sorted (bs : Bytes) (p : Pset) (h : Pset.deserialize W bs = .ok p) : p.Sorted :=
  wf_sorted W p (dec_wf W bs p h)

/-- `from_tx_is_wf`: for every well-formed transaction (C01's `Tx.wf`) that is within the limits of the PSET
    format itself (`TxReady`: ≤ 10 000 inputs and outputs; each witness stack fits one pair value; every
    output has a value and an asset; a confidential nonce only on an at least partially blinded output —
    the class F12bc of C08), the PSET built by C08's `from_tx` is well-formed for the codec -/
theorem from_tx_is_wf (t : Tx) (hw : t.wf W.P) (hr : TxReady t) : WfPset W (Pset.fromTx t) := fromTx_wf W t hw hr

/-- the carve-out is EXACT: for a well-formed transaction, `from_tx t` is codec-well-formed iff `TxReady t` -/
theorem from_tx_is_wf_iff (t : Tx) (hw : t.wf W.P) : WfPset W (Pset.fromTx t) ↔ TxReady t := fromTx_wf_iff W t hw

/-- COROLLARY: `from_tx(tx)` serializes to bytes that deserialize to the same PSET, and re-serializing the
    decoded PSET gives the same bytes -/
theorem from_tx_roundtrip (t : Tx) (hw : t.wf W.P) (hr : TxReady t) :
    Pset.deserialize W (Pset.serialize W (Pset.fromTx t)) = .ok (Pset.fromTx t) ∧
    (Pset.deserialize W (Pset.serialize W (Pset.fromTx t))).map (Pset.serialize W) = .ok (Pset.serialize W (Pset.fromTx t)) := by
  have h := pset_roundtrip W _ (from_tx_is_wf W t hw hr)
  exact ⟨h, by rw [h]; rfl⟩

/-- … and outside the carve-out the bytes of `from_tx(tx)` do NOT decode back to it (more than 10 000
    maps, a null value or asset, a confidential nonce on an unblinded output, an over-long witness stack) -/
theorem from_tx_roundtrip_only_if (t : Tx) (hw : t.wf W.P)
    (h : Pset.deserialize W (Pset.serialize W (Pset.fromTx t)) = .ok (Pset.fromTx t)) : TxReady t :=
  (from_tx_is_wf_iff W t hw).mp (dec_wf W _ _ h)

/-- composition with C08's `extract_from_tx`: whenever C08 gives `extract_tx(from_tx t) = t`, going through
    the binary form in between changes nothing -/
theorem extract_after_bytes (t : Tx) (hw : t.wf W.P) (hr : TxReady t) (hx : (Pset.fromTx t).extractTx = .ok t) :
    (Pset.deserialize W (Pset.serialize W (Pset.fromTx t))).bind Pset.extractTx = .ok t := by
  rw [(from_tx_roundtrip W t hw hr).1]
  exact hx

/-- the hypotheses are satisfiable: the empty transaction (for every `W`) … -/
example : (⟨2, 0, [], []⟩ : Tx).wf W.P ∧ TxReady ⟨2, 0, [], []⟩ := by
  refine ⟨⟨(by decide), (by decide), (by simp [maxVecSize]), (by simp [maxVecSize]), (by intro i h; cases h), (by intro o h; cases h)⟩,
    (by decide), (by decide), (by intro i h; cases h), (by intro o h; cases h)⟩

/-- … and a transaction with one plain input and one explicit output (platform sizes within the vector limit) -/
def sampleTx : Tx :=
  { version := 2, lockTime := 0,
    input := [{ previousOutput := ⟨List.replicate 32 0, 0⟩, isPegin := false, scriptSig := [], sequence := 0xffffffff,
                assetIssuance := AssetIssuance.null, witness := TxInWitness.empty }],
    output := [{ asset := .explicit (List.replicate 32 0), value := .explicit 1, nonce := .null, scriptPubkey := [],
                 witness := TxOutWitness.empty }] }

theorem sampleTx_ready (hs : W.P.sizeTxIn ≤ maxVecSize ∧ W.P.sizeTxOut ≤ maxVecSize) : sampleTx.wf W.P ∧ TxReady sampleTx := by
  refine ⟨⟨(by decide), (by decide), (by simpa [sampleTx] using hs.1), (by simpa [sampleTx] using hs.2), ?_, ?_⟩, (by decide), (by decide), ?_, ?_⟩
  · intro i hi
    simp only [sampleTx, List.mem_singleton] at hi
    subst hi
    refine ⟨⟨(by decide), Or.inl ⟨(by decide), (by decide)⟩, (by decide), (by decide), ?_⟩, trivial, trivial,
      ⟨(by decide), (by intro b hb; cases hb)⟩, ⟨(by decide), (by intro b hb; cases hb)⟩⟩
    rfl
  · intro o ho
    simp only [sampleTx, List.mem_singleton] at ho
    subst ho
    exact ⟨⟨(by simp [Asset.wf]), (by simp [Value.wf]), trivial, (by decide)⟩, trivial, trivial⟩
  · intro i hi
    simp only [sampleTx, List.mem_singleton] at hi
    subst hi
    exact ⟨(by decide), (by intro h; cases h)⟩
  · intro o ho
    simp only [sampleTx, List.mem_singleton] at ho
    subst ho
    exact ⟨(by intro h; cases h), (by intro h; cases h), (by intro h; cases h)⟩

example (hs : W.P.sizeTxIn ≤ maxVecSize ∧ W.P.sizeTxOut ≤ maxVecSize) :
    Pset.deserialize W (Pset.serialize W (Pset.fromTx sampleTx)) = .ok (Pset.fromTx sampleTx) :=
  (from_tx_roundtrip W sampleTx (sampleTx_ready W hs).1 (sampleTx_ready W hs).2).1

/-- `merge_preserves_wf`: if `a` and `b` are codec-well-formed and C14's `merge` succeeds, the result is
    codec-well-formed — provided its outputs still satisfy the four acceptance rules.  That proviso is
    needed for exactly one rule ("blinding data absent or complete"): `merge_can_break_blinding_rule`. -/
theorem merge_preserves_wf (H : Hashes) (a b m : Pset) (ha : WfPset W a) (hb : WfPset W b) (h : Pset.merge H a b = .ok m)
    (hacc : ∀ o ∈ m.outputs, o.accepted = .ok ()) : WfPset W m :=
  mergeCore_wf W a b m ha hb (Pset.merge_ok H a b m h).2 hacc

/-- the proviso holds whenever the two operands mark the same outputs for blinding (`blinding_key` present on
    both sides or on neither) -/
theorem merge_preserves_wf_same_marking (H : Hashes) (a b m : Pset) (ha : WfPset W a) (hb : WfPset W b)
    (h : Pset.merge H a b = .ok m) (hl : b.outputs.length ≤ a.outputs.length)
    (hmark : ∀ (j : Nat) x y, a.outputs[j]? = some x → b.outputs[j]? = some y → x.blindingKey.isSome = y.blindingKey.isSome) :
    WfPset W m := by
  have hc := (Pset.merge_ok H a b m h).2
  refine mergeCore_wf W a b m ha hb hc ?_
  rw [(Pset.mergeCore_ok a b m hc).2.2]
  exact merged_outputs_accepted W a b ha hb hl hmark

/-- NEGATIVE: `Output::merge` of two accepted outputs with the same identifying fields can violate the
    decoder's blinding-completeness rule (an output marked for blinding with no blinding data yet, merged
    with an unmarked copy that carries a range proof): the merged PSET serializes to bytes the decoder
    rejects with `MissingBlindingInfo` -/
theorem merge_can_break_blinding_rule :
    ∃ x y : PsetOutput, x.accepted = .ok () ∧ y.accepted = .ok () ∧ PsetOutput.IdEq x y ∧
      (x.merge y).accepted = .err "MissingBlindingInfo" := EV.Proofs.PsetBridge.merge_can_break_blinding_rule

/-- COROLLARY: the merged PSET round-trips through the binary form, and its `unique_id` (C08) is the same
    before and after the round trip; with C14's `merge_keeps_id` it is the unique id of the operands -/
theorem merge_roundtrip (H : Hashes) (a b m : Pset) (ha : WfPset W a) (hb : WfPset W b) (h : Pset.merge H a b = .ok m)
    (hacc : ∀ o ∈ m.outputs, o.accepted = .ok ()) :
    Pset.deserialize W (Pset.serialize W m) = .ok m ∧
    (Pset.deserialize W (Pset.serialize W m)).bind (Pset.uniqueId H) = m.uniqueId H := by
  have hr := pset_roundtrip W m (merge_preserves_wf W H a b m ha hb h hacc)
  exact ⟨hr, by rw [hr]; rfl⟩

theorem merge_roundtrip_id (H : Hashes) (a b m : Pset) (ha : WfPset W a) (hb : WfPset W b) (hid : Pset.IdEq a b)
    (h : Pset.merge H a b = .ok m) (hacc : ∀ o ∈ m.outputs, o.accepted = .ok ()) :
    (Pset.deserialize W (Pset.serialize W m)).bind (Pset.uniqueId H) = a.uniqueId H := by
  rw [(merge_roundtrip W H a b m ha hb h hacc).2]
  exact (EV.Proofs.PsetId.uniqueId_congr H (Pset.mergeCore_idEq a b m hid (Pset.merge_ok H a b m h).2))

/-- the hypotheses are satisfiable: the sample PSET merged with itself -/
example (H : Hashes) : ∃ m, Pset.merge H samplePset samplePset = .ok m ∧ WfPset W m ∧
    Pset.deserialize W (Pset.serialize W m) = .ok m := by
  have hu : ∃ u, samplePset.uniqueId H = .ok u := ⟨_, rfl⟩
  obtain ⟨u, hu⟩ := hu
  have hm : ∃ m, Pset.merge H samplePset samplePset = .ok m := by
    rw [Pset.merge_of_uid_eq H _ _ u hu hu]
    exact ⟨_, rfl⟩
  obtain ⟨m, hm⟩ := hm
  have hw := merge_preserves_wf_same_marking W H _ _ m (sample_wf W) (sample_wf W) hm (Nat.le_refl _)
    (by intro j x y hx hy; rw [hx] at hy; cases hy; rfl)
  exact ⟨m, hm, hw, pset_roundtrip W m hw⟩

/-- `roundtrip_preserves_views`: for a codec-well-formed PSET, `extract_tx`, `unique_id` and `locktime`
    (C08) of the decoded serialization are those of the PSET -/
theorem roundtrip_preserves_views (H : Hashes) (p : Pset) (h : WfPset W p) :
    (Pset.deserialize W (Pset.serialize W p)).bind Pset.extractTx = p.extractTx ∧
    (Pset.deserialize W (Pset.serialize W p)).bind (Pset.uniqueId H) = p.uniqueId H ∧
    (Pset.deserialize W (Pset.serialize W p)).bind Pset.locktime = p.locktime := by
  rw [pset_roundtrip W p h]
  exact ⟨rfl, rfl, rfl⟩

/-- the same for every accepted byte string: re-encoding and decoding again does not change any view -/
theorem reencode_preserves_views (H : Hashes) (bs : Bytes) (p : Pset) (h : Pset.deserialize W bs = .ok p) :
    (Pset.deserialize W (Pset.serialize W p)).bind Pset.extractTx = p.extractTx ∧
    (Pset.deserialize W (Pset.serialize W p)).bind (Pset.uniqueId H) = p.uniqueId H ∧
    (Pset.deserialize W (Pset.serialize W p)).bind Pset.locktime = p.locktime :=
  roundtrip_preserves_views W H p (dec_wf W bs p h)

end Bridge

end EV.Props.C07
