/-
  C19 — dynafed parameter roots survive compaction and match the commitment layout.
  `H.sha256d` and `H.comb` are parameters; `none` would be a panic of the Rust code.
-/
import EV.Model.Block
namespace EV.Props.C19
open EV EV.Codec

variable (H : Hashes)

/-- two- and three-leaf fast merkle roots, computed by the loop as coded -/
theorem fmr_two (a b : Bytes) : H.fmr [a, b] = some (H.comb a b) := by
  simp [Hashes.fmr, FastMerkle.fast, FastMerkle.pushAll, FastMerkle.pushLeaf, FastMerkle.carry,
    FastMerkle.setSlot, FastMerkle.lowestSet, FastMerkle.sweep, Nat.testBit, List.replicate]

theorem fmr_three (a b c : Bytes) : H.fmr [a, b, c] = some (H.comb (H.comb a b) c) := by
  simp [Hashes.fmr, FastMerkle.fast, FastMerkle.pushAll, FastMerkle.pushLeaf, FastMerkle.carry,
    FastMerkle.setSlot, FastMerkle.lowestSet, FastMerkle.sweep, FastMerkle.sweepInner, Nat.testBit, List.replicate]

/-- the commitment layout: two-level commitment to (signblockscript, witness limit) and to
    (fedpeg program, fedpeg script, extension space) -/
theorem root_layout (f : FullParams) :
    f.calculateRoot H = some (H.comb
      (H.comb (H.sha256d (encBytesVec f.signblockscript)) (H.sha256d (encLe 4 f.signblockWitnessLimit)))
      (H.comb (H.comb (H.sha256d (encBytesVec f.fedpegProgram)) (H.sha256d (encBytesVec f.fedpegscript)))
              (H.sha256d (encBytesVecVec f.extensionSpace)))) := by
  simp [FullParams.calculateRoot, FullParams.extraRoot, fmr_two, fmr_three]

theorem extraRoot_layout (f : FullParams) :
    f.extraRoot H = some (H.comb (H.comb (H.sha256d (encBytesVec f.fedpegProgram)) (H.sha256d (encBytesVec f.fedpegscript)))
              (H.sha256d (encBytesVecVec f.extensionSpace))) := by
  simp [FullParams.extraRoot, fmr_three]

/-- `Params::calculate_root` on the `Full` variant is `FullParams::calculate_root` -/
theorem full_root_eq (f : FullParams) : (Params.full f).calculateRoot H = f.calculateRoot H := by
  cases f
  simp [Params.calculateRoot, Params.extraRoot, FullParams.calculateRoot]

/-- compaction never changes the root: the compact form, with the elided root it carries, has the
    root of the full form -/
theorem compact_root_eq (f : FullParams) :
    ∃ c, f.intoCompact H = some c ∧ c.calculateRoot H = (Params.full f).calculateRoot H ∧
         c.calculateRoot H = f.calculateRoot H := by
  refine ⟨.compact f.signblockscript f.signblockWitnessLimit
    (H.comb (H.comb (H.sha256d (encBytesVec f.fedpegProgram)) (H.sha256d (encBytesVec f.fedpegscript)))
              (H.sha256d (encBytesVecVec f.extensionSpace))), ?_, ?_, ?_⟩
  · simp [FullParams.intoCompact, extraRoot_layout]
  · rw [full_root_eq, root_layout]
    simp [Params.calculateRoot, Params.extraRoot, fmr_two]
  · rw [root_layout]
    simp [Params.calculateRoot, Params.extraRoot, fmr_two]

/-- `Params::into_compact`: null has none, compact is itself, full is compacted; roots agree -/
theorem into_compact_root (p : Params) :
    ∃ r, p.intoCompact H = some r ∧ ∀ c, r = some c → c.calculateRoot H = p.calculateRoot H := by
  cases p with
  | null => exact ⟨none, rfl, by simp⟩
  | compact s l e => exact ⟨some (.compact s l e), rfl, by intro c hc; cases hc; rfl⟩
  | full f =>
    obtain ⟨c, hc, h1, _⟩ := compact_root_eq H f
    exact ⟨some c, by simp [Params.intoCompact, hc], by intro c' hc'; cases hc'; exact h1⟩

/-- the elided root carried by the compact form is the extra root of the full form -/
theorem compact_elided_root (f : FullParams) :
    f.intoCompact H = (f.extraRoot H).map (fun er => .compact f.signblockscript f.signblockWitnessLimit er) := by
  simp only [FullParams.intoCompact]
  cases f.extraRoot H <;> rfl

/-- null parameters have the all-zero root -/
theorem null_root_zero : Params.null.calculateRoot H = some (List.replicate 32 0) := rfl

/-- a compact entry commits to (script, limit) and to the elided root it carries -/
theorem compact_root_layout (s : Bytes) (l : Nat) (e : Bytes) :
    (Params.compact s l e).calculateRoot H =
      some (H.comb (H.comb (H.sha256d (encBytesVec s)) (H.sha256d (encLe 4 l))) e) := by
  simp [Params.calculateRoot, Params.extraRoot, fmr_two]

/-- root computation never panics -/
theorem root_no_panic (p : Params) : p.calculateRoot H ≠ none := by
  cases p with
  | null => simp [Params.calculateRoot]
  | compact s l e => simp [compact_root_layout]
  | full f => rw [full_root_eq, root_layout]; simp

/-- a header's dynafed root is the fast-merkle root of the current and proposed roots; legacy: none -/
theorem header_root_def (h : BlockHeader) :
    h.dynafedParamsRoot H =
      match h.ext with
      | .proof _ _ => some none
      | .dynafed c p _ =>
        match c.calculateRoot H, p.calculateRoot H with
        | some rc, some rp => some (some (H.comb rc rp))
        | _, _ => none := by
  unfold BlockHeader.dynafedParamsRoot
  cases h.ext with
  | proof c s => rfl
  | dynafed c p w =>
    simp only
    cases c.calculateRoot H <;> cases p.calculateRoot H <;> simp [fmr_two]

theorem header_root_no_panic (h : BlockHeader) : h.dynafedParamsRoot H ≠ none := by
  rw [header_root_def]
  cases h.ext with
  | proof c s => simp
  | dynafed c p w =>
    have hc := root_no_panic H c
    have hp := root_no_panic H p
    simp only
    cases hc' : c.calculateRoot H <;> cases hp' : p.calculateRoot H <;> simp_all

/-- non-vacuity: the Elements Core test vector shape (scripts of one opcode, two extension entries) -/
example : ∃ c, (FullParams.mk [1] 2 [3] [4] [[5, 6], [7]]).intoCompact H = some c :=
  let ⟨c, hc, _⟩ := compact_root_eq H (FullParams.mk [1] 2 [3] [4] [[5, 6], [7]])
  ⟨c, hc⟩

end EV.Props.C19
