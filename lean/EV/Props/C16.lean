/-
  C16 — scripts built by the builder parse back exactly; templates and addresses agree.

  Model: EV.Model.Script (Builder, script numbers, Instructions iterator, `is_*` predicates,
  `from_script` / `script_pubkey` on payloads); specification vocabulary: EV.Model.ScriptSpec
  (`expected`, `serialize`, guards `BOp.wf` / `BOp.smallIntPush`, template patterns).
  Scope: the *text* form of addresses (base58 / bech32 / blech32) belongs to C06/C17; the clause "its text
  form parses back to the same address" is the composition of this property's payload-level theorems with
  C06's text-level theorems over the payload conversion of EV.Proofs.BridgeScriptAddress (section
  "scripts ↔ addresses ↔ text" at the end), and is also checked on the real code by the S stream of this
  property.
-/
import EV.Proofs.ScriptBuilder
import EV.Proofs.ScriptAddress
import EV.Proofs.BridgeScriptAddress
import EV.Props.C06
namespace EV.Props.C16
open EV EV.Script EV.Gen
open EV.Proofs.ScriptIter EV.Proofs.ScriptNum EV.Proofs.ScriptBuilder EV.Proofs.ScriptTemplates EV.Proofs.ScriptAddress

/-! ## builder → iterator -/

/-- For every finite chain of builder calls whose arguments do not panic (integers other than
    `i64::MIN`, data below 4 GiB) and whose `push_opcode` bytes are not push opcodes with an operand,
    the chain does not panic and iterating the built script yields exactly the expected instruction
    sequence, without error.  `expected` is computed on the call list alone (see the next three
    theorems for what it is). -/
theorem instructions_build (ops : List BOp) (h : ∀ o ∈ ops, o.wf) :
    ∃ s, build ops = some s ∧ instructions s = (expected ops, none) := by
  obtain ⟨hb, hw⟩ := build_eq_serialize false ops (fun o ho => ⟨h o ho, by simp⟩)
  exact ⟨_, hb, collect_serialize_nil false _ (fun i hi => (hw i hi).1) (by simp) _ (Nat.le_refl _)⟩

/-- `expected`: nothing for no call … -/
theorem expected_empty : expected [] = [] := rfl

/-- … a call other than `push_verify` adds exactly its own instruction (data pushes as given,
    `push_int` −1/1..16 as OP_1NEGATE/OP_1..OP_16, 0 and `push_opcode(0)` as the empty push) … -/
theorem expected_push (ops : List BOp) (o : BOp) (h : o ≠ .verify) :
    expected (ops ++ [o]) = expected ops ++ [instrOf o] := expected_snoc_nonverify ops o h

/-- … and `push_verify` replaces the last instruction by its VERIFY form exactly when the directly
    preceding call was `push_opcode(c)` with `c` one of OP_EQUAL, OP_NUMEQUAL, OP_CHECKSIG,
    OP_CHECKMULTISIG, OP_CHECKSIGFROMSTACK (a data push, `push_int`, or another `push_verify` in between
    resets this); otherwise it adds OP_VERIFY. -/
theorem expected_verify (ops : List BOp) :
    expected (ops ++ [.verify]) =
      match ops.getLast? with
      | some (.opcode c) =>
        (match Builder.verifyForm c with
         | some v => (expected ops).dropLast ++ [.op v]
         | none => expected ops ++ [.op opVerify])
      | _ => expected ops ++ [.op opVerify] := expected_snoc_verify ops

/-- without `push_verify` the expected sequence is the call list mapped call by call -/
theorem expected_no_verify (ops : List BOp) (h : ∀ o ∈ ops, o ≠ .verify) :
    expected ops = ops.map instrOf := by
  simpa [expected] using run_no_verify ops ⟨[], none⟩ h

/-- the table of foldable opcodes is exactly the five pairs, as bytes -/
theorem verify_form_table (c : UInt8) :
    Builder.verifyForm c =
      if c = opEqual then some opEqualverify else if c = opNumequal then some opNumequalverify
      else if c = opChecksig then some opChecksigverify else if c = opCheckmultisig then some opCheckmultisigverify
      else if c = opChecksigfromstack then some opChecksigfromstackverify else none := by
  simp only [Builder.verifyForm, beq_iff_eq]

/-- the built script *is* the canonical (shortest-push) encoding of the expected instructions -/
theorem build_bytes (ops : List BOp) (h : ∀ o ∈ ops, o.wf) : build ops = some (serialize (expected ops)) :=
  (build_eq_serialize false ops (fun o ho => ⟨h o ho, by simp⟩)).1

/-- `push_scriptint(i64::MIN)` panics (negation overflow; DESIGN Appendix C), so does `push_int` of it -/
theorem push_i64_min_panics (b : Builder) : b.pushScriptInt i64Min = none ∧ b.pushInt i64Min = none := by
  constructor <;> simp [Builder.pushScriptInt, Builder.pushInt, i64Min]

/-! ## minimal push encoding -/

/-- the header `push_slice` writes: 1 byte up to 75, 2 up to 255, 3 up to 65535, 5 below 2^32, panic beyond -/
theorem push_header_length (n : Nat) :
    (n < 2 ^ 32 → ∃ hd, pushHeader n = some hd ∧
        hd.length = if n ≤ 75 then 1 else if n ≤ 255 then 2 else if n ≤ 65535 then 3 else 5) ∧
    (2 ^ 32 ≤ n → pushHeader n = none) := by
  rcases pushHeader_cases n with ⟨h1, e⟩ | ⟨h1, h2, e⟩ | ⟨h1, h2, e⟩ | ⟨h1, h2, e⟩ | ⟨h1, e⟩
  · exact ⟨fun _ => ⟨_, e, by simp; omega⟩, fun _ => by omega⟩
  · refine ⟨fun _ => ⟨_, e, ?_⟩, fun _ => by omega⟩
    have a : ¬ n ≤ 75 := by omega
    have b : n ≤ 255 := by omega
    simp [a, b]
  · refine ⟨fun _ => ⟨_, e, ?_⟩, fun _ => by omega⟩
    have a : ¬ n ≤ 75 := by omega
    have b : ¬ n ≤ 255 := by omega
    have c : n ≤ 65535 := by omega
    simp [a, b, c]
  · refine ⟨fun _ => ⟨_, e, ?_⟩, fun _ => by omega⟩
    have a : ¬ n ≤ 75 := by omega
    have b : ¬ n ≤ 255 := by omega
    have c : ¬ n ≤ 65535 := by omega
    simp [a, b, c]
  · exact ⟨fun _ => by omega, fun _ => e⟩

/-- `push_minimal`: whatever byte string the iterator decodes as "push `d`, then continue with `rest`"
    is at least as long as what `push_slice(d)` writes — the chosen push opcode is the shortest
    encoding for that length, relative to the decoder itself (all four encodings considered). -/
theorem push_minimal (min : Bool) (s d rest hd : Bytes)
    (h : next min s = .item (.push d) rest) (hh : pushHeader d.length = some hd) :
    hd.length + d.length + rest.length ≤ s.length := push_header_shortest h hh

/-- the boundaries 75/76, 255/256, 65535/65536 -/
theorem push_header_boundaries :
    pushHeader 75 = some [0x4b] ∧ pushHeader 76 = some [opPushdata1, 76] ∧
    pushHeader 255 = some [opPushdata1, 255] ∧ pushHeader 256 = some [opPushdata2, 0, 1] ∧
    pushHeader 65535 = some [opPushdata2, 255, 255] ∧ pushHeader 65536 = some [opPushdata4, 0, 0, 1, 0] ∧
    pushHeader 4294967295 = some [opPushdata4, 255, 255, 255, 255] ∧ pushHeader 4294967296 = none := by
  decide

/-! ## `instructions_minimal` -/

/-- Under exactly the guard that applies — no `push_slice` of a single byte 1..16 / 0x81 and no
    `push_scriptint` of −1, 1..16 (`push_int` is always fine: it uses OP_1NEGATE / OP_1..OP_16) — the
    BIP62-enforcing iterator yields the same sequence without error. -/
theorem instructions_minimal_build (ops : List BOp) (h : ∀ o ∈ ops, o.wf) (hs : ∀ o ∈ ops, ¬ o.smallIntPush) :
    ∃ s, build ops = some s ∧ instructionsMinimal s = (expected ops, none) := by
  obtain ⟨hb, hw⟩ := build_eq_serialize true ops (fun o ho => ⟨h o ho, fun _ => hs o ho⟩)
  exact ⟨_, hb, collect_serialize_nil true _ (fun i hi => (hw i hi).1) (fun _ i hi => (hw i hi).2 rfl) _ (Nat.le_refl _)⟩

/-- The excluded branch: the first length-minimal-but-not-BIP62-minimal call makes
    `instructions_minimal` stop with `NonMinimalPush` after having yielded everything before it, whatever
    follows; the plain iterator still reads the whole script. -/
theorem small_int_push_nonminimal (pre post : List BOp) (o : BOp)
    (hpre : ∀ p ∈ pre, p.wf ∧ ¬ p.smallIntPush) (ho : o.wf ∧ o.smallIntPush) (hpost : ∀ p ∈ post, p.wf) :
    ∃ s, build (pre ++ o :: post) = some s ∧
      instructionsMinimal s = (expected pre, some .nonMinimal) ∧
      instructions s = (expected (pre ++ o :: post), none) := by
  have hall : ∀ p ∈ pre ++ o :: post, p.wf := by
    intro p hp
    rcases List.mem_append.mp hp with hp | hp
    · exact (hpre p hp).1
    · rcases List.mem_cons.mp hp with rfl | hp
      · exact ho.1
      · exact hpost p hp
  obtain ⟨s, hb, hi⟩ := instructions_build _ hall
  refine ⟨s, hb, ?_, hi⟩
  have hs : s = serialize (expected (pre ++ o :: post)) := by
    have := build_bytes _ hall; rw [hb] at this; exact Option.some.inj this
  obtain ⟨x, ys, hx, he⟩ := expected_small pre post o ho.2
  obtain ⟨_, hw⟩ := build_eq_serialize true pre (fun p hp => ⟨(hpre p hp).1, fun _ => (hpre p hp).2⟩)
  rw [instructionsMinimal, hs, he]
  exact collect_serialize_small _ ys x hx (fun i hi => (hw i hi).1) (fun i hi => (hw i hi).2 rfl) _ (Nat.le_refl _)

/-- which calls are excluded: they do write a one-byte push of a small number -/
theorem small_int_push_is_one_byte (o : BOp) (h : o.smallIntPush) :
    ∃ x, smallNumByte x = true ∧ ∀ a : Abs, a.step o = a.pushData [x] := by
  cases o with
  | slice d => obtain ⟨x, rfl, hx⟩ := h; exact ⟨x, hx, fun _ => rfl⟩
  | scriptInt n =>
    obtain ⟨x, e, hx⟩ := buildScriptInt_small h
    exact ⟨x, hx, fun a => by simp [Abs.step, e]⟩
  | int n => exact absurd h (by simp [BOp.smallIntPush])
  | opcode c => exact absurd h (by simp [BOp.smallIntPush])
  | verify => exact absurd h (by simp [BOp.smallIntPush])

/-- Converse: a script iterates without error under minimality enforcement exactly when it is the
    canonical encoding of a list of well-formed, BIP62-minimal instructions (so re-building it with
    `push_slice`/`push_opcode` reproduces it byte for byte). -/
theorem instructions_minimal_iff_canonical (s : Bytes) (is : List Instr) :
    instructionsMinimal s = (is, none) ↔ (s = serialize is ∧ ∀ i ∈ is, i.wf ∧ i.bip62) := by
  constructor
  · intro h
    obtain ⟨e, hw, hb⟩ := collect_min_sound s.length s is (Nat.le_refl _) h
    exact ⟨e, fun i hi => ⟨hw i hi, hb i hi⟩⟩
  · rintro ⟨rfl, h⟩
    exact collect_serialize_nil true is (fun i hi => (h i hi).1) (fun _ i hi => (h i hi).2) _ (Nat.le_refl _)

/-! ## script numbers -/

/-- integers pushed as script numbers read back to the same value, on the whole 4-byte range -/
theorem scriptint_roundtrip (n : Int) (h : -(2 ^ 31) < n ∧ n < 2 ^ 31) :
    readScriptInt (buildScriptInt n) = .ok n := read_build_scriptint h

/-- at and beyond ±2^31 (the rest of the `i64` range except `i64::MIN`, which panics) the push is 5 to
    9 bytes long and `read_scriptint` answers `NumericOverflow`; the builder/iterator round trip
    (`instructions_build`) still holds for such pushes -/
theorem scriptint_beyond_range (n : Int) (h : n ≤ -(2 ^ 31) ∨ 2 ^ 31 ≤ n) (hr : i64Min < n ∧ n < 2 ^ 63) :
    4 < (buildScriptInt n).length ∧ readScriptInt (buildScriptInt n) = .err "NumericOverflow" := by
  have : n.natAbs < 2 ^ 64 := by unfold i64Min at hr; omega
  exact read_build_scriptint_overflow h this

/-- the encoding is the shortest sign-magnitude form: at most `k` bytes iff `|n| < 2^(8k−1)` -/
theorem scriptint_length (n : Int) (h0 : n ≠ 0) (hr : i64Min < n ∧ n < 2 ^ 63) (k : Nat) (hk : 1 ≤ k) :
    (buildScriptInt n).length ≤ k ↔ n.natAbs < 128 * 256 ^ (k - 1) := by
  have : n.natAbs < 2 ^ 64 := by unfold i64Min at hr; omega
  exact buildScriptInt_length_iff h0 this k hk

/-- little-endian magnitude, sign in the top bit of the last byte -/
theorem scriptint_sign_magnitude (n : Int) (h0 : n ≠ 0) (hr : i64Min < n ∧ n < 2 ^ 63) :
    let v := buildScriptInt n
    v ≠ [] ∧ leNat v = n.natAbs + (if n < 0 then 128 * 256 ^ (v.length - 1) else 0) ∧
    (128 ≤ (v.getD (v.length - 1) 0).toNat ↔ n < 0) := by
  have : n.natAbs < 2 ^ 64 := by unfold i64Min at hr; omega
  obtain ⟨a, b, _, _, e⟩ := buildScriptInt_spec h0 this
  exact ⟨a, b, e⟩

theorem scriptint_zero : buildScriptInt 0 = [] ∧ readScriptInt [] = .ok 0 := ⟨rfl, rfl⟩

/-! ## template predicates ↔ byte patterns (for all byte strings) -/

theorem is_p2pkh_iff (s : Bytes) : isP2pkh s = true ↔ ∃ h, h.length = 20 ∧ s = p2pkhScript h := isP2pkh_iff s
theorem is_p2sh_iff (s : Bytes) : isP2sh s = true ↔ ∃ h, h.length = 20 ∧ s = p2shScript h := isP2sh_iff s

/-- version opcode OP_0 or OP_1..OP_16, then a direct push of 2..40 bytes, nothing else -/
theorem is_witness_program_iff (s : Bytes) : isWitnessProgram s = true ↔
    ∃ v prog, (v = 0 ∨ (opPushnum1 ≤ v ∧ v ≤ opPushnum16)) ∧ 2 ≤ prog.length ∧ prog.length ≤ 40 ∧
      s = witnessScript v prog := isWitnessProgram_iff s

theorem is_v0_p2wpkh_iff (s : Bytes) : isV0P2wpkh s = true ↔
    ∃ prog, prog.length = 20 ∧ s = witnessScript opPushbytes0 prog := isV0P2wpkh_iff s
theorem is_v0_p2wsh_iff (s : Bytes) : isV0P2wsh s = true ↔
    ∃ prog, prog.length = 32 ∧ s = witnessScript opPushbytes0 prog := isV0P2wsh_iff s
theorem is_v1_p2tr_iff (s : Bytes) : isV1P2tr s = true ↔
    ∃ prog, prog.length = 32 ∧ s = witnessScript opPushnum1 prog := isV1P2tr_iff s

/-- versions 1..16 with a 2..40 byte program (the lower bound is finding F11, fixed in 32f2c90) -/
theorem is_v1plus_p2witprog_iff (s : Bytes) : isV1plusP2witprog s = true ↔
    ∃ v prog, (opPushnum1 ≤ v ∧ v ≤ opPushnum16) ∧ 2 ≤ prog.length ∧ prog.length ≤ 40 ∧
      s = witnessScript v prog := isV1plusP2witprog_iff s

theorem is_p2pk_iff (s : Bytes) : isP2pk s = true ↔
    ∃ key, (key.length = 65 ∨ key.length = 33) ∧ s = [UInt8.ofNat key.length] ++ key ++ [opChecksig] := isP2pk_iff s
theorem is_op_return_iff (s : Bytes) : isOpReturn s = true ↔ ∃ rest, s = opReturn :: rest := isOpReturn_iff s
theorem is_provably_unspendable_iff (s : Bytes) : isProvablyUnspendable s = true ↔
    (∃ rest, s = opReturn :: rest) ∨ maxScriptSize < s.length ∨ s = [] := isProvablyUnspendable_iff s

/-- the special cases are witness programs -/
theorem special_cases_are_witness_programs (s : Bytes) :
    (isV0P2wpkh s = true ∨ isV0P2wsh s = true ∨ isV1P2tr s = true ∨ isV1plusP2witprog s = true) →
    isWitnessProgram s = true := by
  have z : opPushbytes0 = 0 := by decide
  have o1 : opPushnum1 ≤ opPushnum1 ∧ opPushnum1 ≤ opPushnum16 := by decide
  intro h
  rw [is_witness_program_iff]
  rcases h with h | h | h | h
  · obtain ⟨p, hl, rfl⟩ := (is_v0_p2wpkh_iff s).mp h
    exact ⟨0, p, Or.inl rfl, by omega, by omega, by rw [z]⟩
  · obtain ⟨p, hl, rfl⟩ := (is_v0_p2wsh_iff s).mp h
    exact ⟨0, p, Or.inl rfl, by omega, by omega, by rw [z]⟩
  · obtain ⟨p, hl, rfl⟩ := (is_v1_p2tr_iff s).mp h
    exact ⟨opPushnum1, p, Or.inr o1, by omega, by omega, rfl⟩
  · obtain ⟨v, p, hv, h2, h40, rfl⟩ := (is_v1plus_p2witprog_iff s).mp h
    exact ⟨v, p, Or.inr hv, h2, h40, rfl⟩

/-! ## scripts ↔ addresses (payload level) -/

/-- an address is derived from a script exactly for the templates: `from_script s = Some(p)` iff `p`
    is a standard payload (20-byte hash; v0 with 20/32 bytes; v1..16 with 2..40 bytes) and `s` is its
    pattern -/
theorem from_script_iff_template (s : Bytes) (p : Payload) :
    fromScript s = some p ↔ (p.standard ∧ s = p.pattern) :=
  ⟨fromScript_some, fun ⟨h, e⟩ => e ▸ fromScript_pattern h⟩

/-- … and then the address's output script is the original script -/
theorem script_addr_script (s : Bytes) (p : Payload) (h : fromScript s = some p) : scriptPubkey p = some s := by
  obtain ⟨hs, rfl⟩ := fromScript_some h
  exact scriptPubkey_standard hs

/-- conversely every standard payload survives payload → script → payload -/
theorem addr_script_addr (p : Payload) (h : p.standard) :
    ∃ s, scriptPubkey p = some s ∧ fromScript s = some p :=
  ⟨p.pattern, scriptPubkey_standard h, fromScript_pattern h⟩

/-- … and only those do (e.g. witness versions 17..31, v0 programs of other lengths, v1+ programs of
    0, 1 or more than 40 bytes do not come back) -/
theorem addr_script_addr_only_standard (p : Payload) (s : Bytes)
    (_ : scriptPubkey p = some s) (h2 : fromScript s = some p) : p.standard := (fromScript_some h2).1

/-- `is_witness_program` and `from_script` agree except for version 0 with a program that is not 20
    or 32 bytes: such a script is a witness program by the predicate but has no address -/
theorem witness_program_address (s : Bytes) (h : isWitnessProgram s = true) :
    fromScript s = none ↔ (at' s 0 = opPushbytes0 ∧ s.length ≠ 22 ∧ s.length ≠ 34) :=
  witness_program_fromScript h

/-- scripts with an address are p2pkh, p2sh or witness programs -/
theorem address_scripts_are_templates (s : Bytes) (p : Payload) (h : fromScript s = some p) :
    isP2pkh s = true ∨ isP2sh s = true ∨ isWitnessProgram s = true := fromScript_some_family h

/-- the `Script::new_*` constructors write the address scripts -/
theorem constructors_agree (h : Bytes) (v : Nat) (prog : Bytes) (hv : v ≤ 16) :
    newP2pkh h = scriptPubkey (.pubkeyHash h) ∧ newP2sh h = scriptPubkey (.scriptHash h) ∧
    newWitnessProgram v prog = scriptPubkey (.witnessProgram v prog) :=
  ⟨rfl, rfl, newWitnessProgram_eq v prog hv⟩

/-! ## scripts ↔ addresses ↔ text (C16 × C06) -/

section text
open EV.Proofs.BridgeScriptAddress

/-- **Script → address → text → address.** Composes the script/payload model of this property
    (`EV.Model.Script`: `from_script`, `script_pubkey` on `EV.Script.Payload`) with the address/text model of
    property C06 (`EV.Model.Address`: `Display`, `from_str`, `parse_with_params` on `EV.Addr.Address`, hash and
    key parser as parameters `P`), through `toAddrPayload` (the same payload with its bytes as `List Nat`).
    For every script `s` from which an address is derived (`from_script s = Some(p)`), every one of the three
    networks and every admissible blinder (none, or 33 bytes the key parser accepts — `Addr.BlinderOk`): the
    address's output script is `s`, and the displayed text of the address parses back to the same address, with
    `from_str` and with `parse_with_params` of that network.  Uses `script_addr_script`,
    `from_script_iff_template` and C06 `addr_roundtrip`. -/
theorem script_address_text_roundtrip (P : Addr.Prims) (s : Bytes) (p : Payload) (h : fromScript s = some p)
    (params : Gen.AddrParamsB) (hp : params ∈ Gen.allParamsB) (blinder : Option (List Nat))
    (hb : Addr.BlinderOk P blinder) :
    let a : Addr.Address := ⟨params, toAddrPayload p, blinder⟩
    scriptPubkey p = some s ∧ Addr.fromStr P (Addr.display P a) = .ok a ∧
      Addr.parseWithParams P (Addr.display P a) params = .ok a := by
  intro a
  have hw : Addr.WF P a := wf_toAddress P p ((from_script_iff_template s p).mp h).1 params hp blinder hb
  exact ⟨script_addr_script s p h, C06.addr_roundtrip P a hw⟩

/-- the conversion loses nothing: distinct payloads (hence, by `from_script_iff_template`, distinct address
    scripts) give distinct C06 payloads, and converting back returns the payload -/
theorem address_payload_conversion (p q : Payload) :
    ofAddrPayload (toAddrPayload p) = p ∧ (toAddrPayload p = toAddrPayload q → p = q) :=
  ⟨of_to_payload p, toAddrPayload_injective p q⟩

/-- **Text → address → script → address.** The converse composition of the same two models: whatever
    `from_str` accepts (C06 `parsed_shape`: a standard address, all entries byte values) converts to a C16
    payload `p` that is `standard`, converts back to the parsed payload exactly, and whose `script_pubkey` is a
    script from which `from_script` derives `p` again (`addr_script_addr`); displaying the address gives the
    text back (lower-cased for the segwit forms, C06 `parse_display_canonical`). -/
theorem text_address_script_roundtrip (P : Addr.Prims) (t : Bech32.Text) (a : Addr.Address)
    (h : Addr.fromStr P t = .ok a) :
    let p := ofAddrPayload a.payload
    p.standard ∧ toAddrPayload p = a.payload ∧
      (∃ s, scriptPubkey p = some s ∧ fromScript s = some p) ∧
      Addr.display P ⟨a.params, toAddrPayload p, a.blinder⟩ = (if a.payload.isSegwit then Bech32.lower t else t) := by
  intro p
  obtain ⟨hs, he⟩ := standard_of_payloadStd a.payload (C06.parsed_shape P t a h).payload
  refine ⟨hs, he, addr_script_addr p hs, ?_⟩
  rw [he]
  exact C06.parse_display_canonical P t a h

/-- the same for `parse_with_params` of one of the three networks -/
theorem text_address_script_roundtrip_with_params (P : Addr.Prims) (t : Bech32.Text) (params : Gen.AddrParamsB)
    (hp : params ∈ Gen.allParamsB) (a : Addr.Address) (h : Addr.parseWithParams P t params = .ok a) :
    let p := ofAddrPayload a.payload
    a.params = params ∧ p.standard ∧ toAddrPayload p = a.payload ∧
      ∃ s, scriptPubkey p = some s ∧ fromScript s = some p := by
  intro p
  obtain ⟨hs, he⟩ := standard_of_payloadStd a.payload (C06.parsed_shape_with_params P t params hp a h).payload
  exact ⟨(C06.parse_with_params_display_canonical P t params hp a h).1, hs, he, addr_script_addr p hs⟩

end text

/-! ## non-vacuity -/

example : build [.opcode opDup, .opcode opHash160, .slice (List.replicate 20 7), .opcode opEqual, .verify, .opcode opChecksig]
    = some (p2pkhScript (List.replicate 20 7)) := by decide
example : expected [.opcode opChecksig, .verify, .verify, .slice [1], .verify] =
    [.op opChecksigverify, .op opVerify, .push [1], .op opVerify] := by decide
example : instructions [0x4c, 0x01, 0xaa, 0x01] = ([.push [0xaa]], some .earlyEnd) := by decide
example : instructionsMinimal [0x4c, 0x01, 0xaa] = ([], some .nonMinimal) := by decide
example : instructionsMinimal [0x01, 0x81] = ([], some .nonMinimal) ∧ instructions [0x01, 0x81] = ([.push [0x81]], none) := by decide
example : buildScriptInt (-255) = [0xff, 0x80] ∧ readScriptInt [0xff, 0x80] = .ok (-255) := by decide
example : fromScript (witnessScript opPushnum16 [1, 2]) = some (.witnessProgram 16 [1, 2]) := by decide
example : isWitnessProgram (witnessScript 0 [1, 2, 3]) = true ∧ fromScript (witnessScript 0 [1, 2, 3]) = none := by decide
example : fromScript (witnessScript opPushnum1 [1]) = none := by decide
/-- the hypotheses of `script_address_text_roundtrip` are satisfiable, blinded and unblinded -/
example : fromScript (p2shScript (List.replicate 20 7)) = some (.scriptHash (List.replicate 20 7)) ∧
    Gen.paramsLiquidB ∈ Gen.allParamsB ∧
    Addr.BlinderOk { sha256d := fun _ => [], validPk := fun _ => true } (some (List.replicate 33 2)) ∧
    Addr.BlinderOk { sha256d := fun _ => [], validPk := fun _ => true } none ∧
    EV.Proofs.BridgeScriptAddress.toAddrPayload (.scriptHash (List.replicate 20 7)) = .sh (List.replicate 20 7) :=
  ⟨by decide, by decide, ⟨by decide, rfl, by intro b hb; rw [List.mem_replicate] at hb; omega⟩, trivial, by decide⟩

end EV.Props.C16
