/-
  C16 — scripts built by the builder parse back exactly; templates and addresses agree.

  Model: EV.Model.Script (Builder, script numbers, Instructions iterator, `is_*` predicates,
  `from_script` / `script_pubkey` on payloads); specification vocabulary: EV.Model.ScriptSpec
  (`expected`, `serialize`, guards `BOp.wf` / `BOp.smallIntPush`, template patterns).
  Scope: the *text* form of addresses (base58 / bech32 / blech32) belongs to C06/C17; the clause "its text
  form parses back to the same address" is the composition of this property's payload-level theorems with
  C06's text-level theorems over the payload conversion of EV.Proofs.BridgeScriptAddress (section
  "scripts ↔ addresses ↔ text" at the end), and is also checked on the real code by the S stream of this
  property.
-/
import EV.Proofs.ScriptBuilder
import EV.Proofs.ScriptAddress
import EV.Proofs.BridgeScriptAddress
import EV.Props.C06
import EV.Proofs.ScriptAsm
import EV.Proofs.ScriptNumMin
namespace EV.Props.C16
open EV EV.Script EV.Gen
open EV.Proofs.ScriptIter EV.Proofs.ScriptNum EV.Proofs.ScriptBuilder EV.Proofs.ScriptTemplates EV.Proofs.ScriptAddress

/-! ## builder → iterator -/

/-- For every finite chain of builder calls whose arguments do not panic (integers other than
    `i64::MIN`, data below 4 GiB) and whose `push_opcode` bytes are not push opcodes with an operand,
    the chain does not panic and iterating the built script yields exactly the expected instruction
    sequence, without error.  `expected` is computed on the call list alone (see the next three
    theorems for what it is). -/
theorem instructions_build (ops : List BOp) (h : ∀ o ∈ ops, o.wf) :
    ∃ s, build ops = some s ∧ instructions s = (expected ops, none) := by
  obtain ⟨hb, hw⟩ := build_eq_serialize false ops (fun o ho => ⟨h o ho, by simp⟩)
  exact ⟨_, hb, collect_serialize_nil false _ (fun i hi => (hw i hi).1) (by simp) _ (Nat.le_refl _)⟩

/-- `expected`: nothing for no call … -/
theorem expected_empty : expected [] = [] := rfl

/-- … a call other than `push_verify` adds exactly its own instruction (data pushes as given,
    `push_int` −1/1..16 as OP_1NEGATE/OP_1..OP_16, 0 and `push_opcode(0)` as the empty push) … -/
theorem expected_push (ops : List BOp) (o : BOp) (h : o ≠ .verify) :
    expected (ops ++ [o]) = expected ops ++ [instrOf o] := expected_snoc_nonverify ops o h

/-- … and `push_verify` replaces the last instruction by its VERIFY form exactly when the directly
    preceding call was `push_opcode(c)` with `c` one of OP_EQUAL, OP_NUMEQUAL, OP_CHECKSIG,
    OP_CHECKMULTISIG, OP_CHECKSIGFROMSTACK (a data push, `push_int`, or another `push_verify` in between
    resets this); otherwise it adds OP_VERIFY. -/
theorem expected_verify (ops : List BOp) :
    expected (ops ++ [.verify]) =
      match ops.getLast? with
      | some (.opcode c) =>
        (match Builder.verifyForm c with
         | some v => (expected ops).dropLast ++ [.op v]
         | none => expected ops ++ [.op opVerify])
      | _ => expected ops ++ [.op opVerify] := expected_snoc_verify ops

/-- without `push_verify` the expected sequence is the call list mapped call by call -/
theorem expected_no_verify (ops : List BOp) (h : ∀ o ∈ ops, o ≠ .verify) :
    expected ops = ops.map instrOf := by
  simpa [expected] using run_no_verify ops ⟨[], none⟩ h

/-- the table of foldable opcodes is exactly the five pairs, as bytes -/
theorem verify_form_table (c : UInt8) :
    Builder.verifyForm c =
      if c = opEqual then some opEqualverify else if c = opNumequal then some opNumequalverify
      else if c = opChecksig then some opChecksigverify else if c = opCheckmultisig then some opCheckmultisigverify
      else if c = opChecksigfromstack then some opChecksigfromstackverify else none := by
  simp only [Builder.verifyForm, beq_iff_eq]

/-- the built script *is* the canonical (shortest-push) encoding of the expected instructions -/
theorem build_bytes (ops : List BOp) (h : ∀ o ∈ ops, o.wf) : build ops = some (serialize (expected ops)) :=
  (build_eq_serialize false ops (fun o ho => ⟨h o ho, by simp⟩)).1

/-- `push_scriptint(i64::MIN)` panics (negation overflow; DESIGN Appendix C), so does `push_int` of it -/
theorem push_i64_min_panics (b : Builder) : b.pushScriptInt i64Min = none ∧ b.pushInt i64Min = none := by
  constructor <;> simp [Builder.pushScriptInt, Builder.pushInt, i64Min]

/-! ## minimal push encoding -/

/-- the header `push_slice` writes: 1 byte up to 75, 2 up to 255, 3 up to 65535, 5 below 2^32, panic beyond -/
theorem push_header_length (n : Nat) :
    (n < 2 ^ 32 → ∃ hd, pushHeader n = some hd ∧
        hd.length = if n ≤ 75 then 1 else if n ≤ 255 then 2 else if n ≤ 65535 then 3 else 5) ∧
    (2 ^ 32 ≤ n → pushHeader n = none) := by
  rcases pushHeader_cases n with ⟨h1, e⟩ | ⟨h1, h2, e⟩ | ⟨h1, h2, e⟩ | ⟨h1, h2, e⟩ | ⟨h1, e⟩
  · exact ⟨fun _ => ⟨_, e, by simp; omega⟩, fun _ => by omega⟩
  · refine ⟨fun _ => ⟨_, e, ?_⟩, fun _ => by omega⟩
    have a : ¬ n ≤ 75 := by omega
    have b : n ≤ 255 := by omega
    simp [a, b]
  · refine ⟨fun _ => ⟨_, e, ?_⟩, fun _ => by omega⟩
    have a : ¬ n ≤ 75 := by omega
    have b : ¬ n ≤ 255 := by omega
    have c : n ≤ 65535 := by omega
    simp [a, b, c]
  · refine ⟨fun _ => ⟨_, e, ?_⟩, fun _ => by omega⟩
    have a : ¬ n ≤ 75 := by omega
    have b : ¬ n ≤ 255 := by omega
    have c : ¬ n ≤ 65535 := by omega
    simp [a, b, c]
  · exact ⟨fun _ => by omega, fun _ => e⟩

/-- `push_minimal`: whatever byte string the iterator decodes as "push `d`, then continue with `rest`"
    is at least as long as what `push_slice(d)` writes — the chosen push opcode is the shortest
    encoding for that length, relative to the decoder itself (all four encodings considered). -/
theorem push_minimal (min : Bool) (s d rest hd : Bytes)
    (h : next min s = .item (.push d) rest) (hh : pushHeader d.length = some hd) :
    hd.length + d.length + rest.length ≤ s.length := push_header_shortest h hh

/-- the boundaries 75/76, 255/256, 65535/65536 -/
theorem push_header_boundaries :
    pushHeader 75 = some [0x4b] ∧ pushHeader 76 = some [opPushdata1, 76] ∧
    pushHeader 255 = some [opPushdata1, 255] ∧ pushHeader 256 = some [opPushdata2, 0, 1] ∧
    pushHeader 65535 = some [opPushdata2, 255, 255] ∧ pushHeader 65536 = some [opPushdata4, 0, 0, 1, 0] ∧
    pushHeader 4294967295 = some [opPushdata4, 255, 255, 255, 255] ∧ pushHeader 4294967296 = none := by
  decide

/-! ## `instructions_minimal` -/

/-- Under exactly the guard that applies — no `push_slice` of a single byte 1..16 / 0x81 and no
    `push_scriptint` of −1, 1..16 (`push_int` is always fine: it uses OP_1NEGATE / OP_1..OP_16) — the
    BIP62-enforcing iterator yields the same sequence without error. -/
theorem instructions_minimal_build (ops : List BOp) (h : ∀ o ∈ ops, o.wf) (hs : ∀ o ∈ ops, ¬ o.smallIntPush) :
    ∃ s, build ops = some s ∧ instructionsMinimal s = (expected ops, none) := by
  obtain ⟨hb, hw⟩ := build_eq_serialize true ops (fun o ho => ⟨h o ho, fun _ => hs o ho⟩)
  exact ⟨_, hb, collect_serialize_nil true _ (fun i hi => (hw i hi).1) (fun _ i hi => (hw i hi).2 rfl) _ (Nat.le_refl _)⟩

/-- The excluded branch: the first length-minimal-but-not-BIP62-minimal call makes
    `instructions_minimal` stop with `NonMinimalPush` after having yielded everything before it, whatever
    follows; the plain iterator still reads the whole script. -/
theorem small_int_push_nonminimal (pre post : List BOp) (o : BOp)
    (hpre : ∀ p ∈ pre, p.wf ∧ ¬ p.smallIntPush) (ho : o.wf ∧ o.smallIntPush) (hpost : ∀ p ∈ post, p.wf) :
    ∃ s, build (pre ++ o :: post) = some s ∧
      instructionsMinimal s = (expected pre, some .nonMinimal) ∧
      instructions s = (expected (pre ++ o :: post), none) := by
  have hall : ∀ p ∈ pre ++ o :: post, p.wf := by
    intro p hp
    rcases List.mem_append.mp hp with hp | hp
    · exact (hpre p hp).1
    · rcases List.mem_cons.mp hp with rfl | hp
      · exact ho.1
      · exact hpost p hp
  obtain ⟨s, hb, hi⟩ := instructions_build _ hall
  refine ⟨s, hb, ?_, hi⟩
  have hs : s = serialize (expected (pre ++ o :: post)) := by
    have := build_bytes _ hall; rw [hb] at this; exact Option.some.inj this
  obtain ⟨x, ys, hx, he⟩ := expected_small pre post o ho.2
  obtain ⟨_, hw⟩ := build_eq_serialize true pre (fun p hp => ⟨(hpre p hp).1, fun _ => (hpre p hp).2⟩)
  rw [instructionsMinimal, hs, he]
  exact collect_serialize_small _ ys x hx (fun i hi => (hw i hi).1) (fun i hi => (hw i hi).2 rfl) _ (Nat.le_refl _)

/-- which calls are excluded: they do write a one-byte push of a small number -/
theorem small_int_push_is_one_byte (o : BOp) (h : o.smallIntPush) :
    ∃ x, smallNumByte x = true ∧ ∀ a : Abs, a.step o = a.pushData [x] := by
  cases o with
  | slice d => obtain ⟨x, rfl, hx⟩ := h; exact ⟨x, hx, fun _ => rfl⟩
  | scriptInt n =>
    obtain ⟨x, e, hx⟩ := buildScriptInt_small h
    exact ⟨x, hx, fun a => by simp [Abs.step, e]⟩
  | int n => exact absurd h (by simp [BOp.smallIntPush])
  | opcode c => exact absurd h (by simp [BOp.smallIntPush])
  | verify => exact absurd h (by simp [BOp.smallIntPush])

/-- Converse: a script iterates without error under minimality enforcement exactly when it is the
    canonical encoding of a list of well-formed, BIP62-minimal instructions (so re-building it with
    `push_slice`/`push_opcode` reproduces it byte for byte). -/
theorem instructions_minimal_iff_canonical (s : Bytes) (is : List Instr) :
    instructionsMinimal s = (is, none) ↔ (s = serialize is ∧ ∀ i ∈ is, i.wf ∧ i.bip62) := by
  constructor
  · intro h
    obtain ⟨e, hw, hb⟩ := collect_min_sound s.length s is (Nat.le_refl _) h
    exact ⟨e, fun i hi => ⟨hw i hi, hb i hi⟩⟩
  · rintro ⟨rfl, h⟩
    exact collect_serialize_nil true is (fun i hi => (h i hi).1) (fun _ i hi => (h i hi).2) _ (Nat.le_refl _)

/-! ## script numbers -/

/-- integers pushed as script numbers read back to the same value, on the whole 4-byte range -/
theorem scriptint_roundtrip (n : Int) (h : -(2 ^ 31) < n ∧ n < 2 ^ 31) :
    readScriptInt (buildScriptInt n) = .ok n := read_build_scriptint h

/-- at and beyond ±2^31 (the rest of the `i64` range except `i64::MIN`, which panics) the push is 5 to
    9 bytes long and `read_scriptint` answers `NumericOverflow`; the builder/iterator round trip
    (`instructions_build`) still holds for such pushes -/
theorem scriptint_beyond_range (n : Int) (h : n ≤ -(2 ^ 31) ∨ 2 ^ 31 ≤ n) (hr : i64Min < n ∧ n < 2 ^ 63) :
    4 < (buildScriptInt n).length ∧ readScriptInt (buildScriptInt n) = .err "NumericOverflow" := by
  have : n.natAbs < 2 ^ 64 := by unfold i64Min at hr; omega
  exact read_build_scriptint_overflow h this

/-- the encoding is the shortest sign-magnitude form: at most `k` bytes iff `|n| < 2^(8k−1)` -/
theorem scriptint_length (n : Int) (h0 : n ≠ 0) (hr : i64Min < n ∧ n < 2 ^ 63) (k : Nat) (hk : 1 ≤ k) :
    (buildScriptInt n).length ≤ k ↔ n.natAbs < 128 * 256 ^ (k - 1) := by
  have : n.natAbs < 2 ^ 64 := by unfold i64Min at hr; omega
  exact buildScriptInt_length_iff h0 this k hk

/-- little-endian magnitude, sign in the top bit of the last byte -/
theorem scriptint_sign_magnitude (n : Int) (h0 : n ≠ 0) (hr : i64Min < n ∧ n < 2 ^ 63) :
    let v := buildScriptInt n
    v ≠ [] ∧ leNat v = n.natAbs + (if n < 0 then 128 * 256 ^ (v.length - 1) else 0) ∧
    (128 ≤ (v.getD (v.length - 1) 0).toNat ↔ n < 0) := by
  have : n.natAbs < 2 ^ 64 := by unfold i64Min at hr; omega
  obtain ⟨a, b, _, _, e⟩ := buildScriptInt_spec h0 this
  exact ⟨a, b, e⟩

theorem scriptint_zero : buildScriptInt 0 = [] ∧ readScriptInt [] = .ok 0 := ⟨rfl, rfl⟩

/-! ## template predicates ↔ byte patterns (for all byte strings) -/

theorem is_p2pkh_iff (s : Bytes) : isP2pkh s = true ↔ ∃ h, h.length = 20 ∧ s = p2pkhScript h := isP2pkh_iff s
theorem is_p2sh_iff (s : Bytes) : isP2sh s = true ↔ ∃ h, h.length = 20 ∧ s = p2shScript h := isP2sh_iff s

/-- version opcode OP_0 or OP_1..OP_16, then a direct push of 2..40 bytes, nothing else -/
theorem is_witness_program_iff (s : Bytes) : isWitnessProgram s = true ↔
    ∃ v prog, (v = 0 ∨ (opPushnum1 ≤ v ∧ v ≤ opPushnum16)) ∧ 2 ≤ prog.length ∧ prog.length ≤ 40 ∧
      s = witnessScript v prog := isWitnessProgram_iff s

theorem is_v0_p2wpkh_iff (s : Bytes) : isV0P2wpkh s = true ↔
    ∃ prog, prog.length = 20 ∧ s = witnessScript opPushbytes0 prog := isV0P2wpkh_iff s
theorem is_v0_p2wsh_iff (s : Bytes) : isV0P2wsh s = true ↔
    ∃ prog, prog.length = 32 ∧ s = witnessScript opPushbytes0 prog := isV0P2wsh_iff s
theorem is_v1_p2tr_iff (s : Bytes) : isV1P2tr s = true ↔
    ∃ prog, prog.length = 32 ∧ s = witnessScript opPushnum1 prog := isV1P2tr_iff s

/-- versions 1..16 with a 2..40 byte program (the lower bound is finding F11, fixed in 32f2c90) -/
theorem is_v1plus_p2witprog_iff (s : Bytes) : isV1plusP2witprog s = true ↔
    ∃ v prog, (opPushnum1 ≤ v ∧ v ≤ opPushnum16) ∧ 2 ≤ prog.length ∧ prog.length ≤ 40 ∧
      s = witnessScript v prog := isV1plusP2witprog_iff s

theorem is_p2pk_iff (s : Bytes) : isP2pk s = true ↔
    ∃ key, (key.length = 65 ∨ key.length = 33) ∧ s = [UInt8.ofNat key.length] ++ key ++ [opChecksig] := isP2pk_iff s
theorem is_op_return_iff (s : Bytes) : isOpReturn s = true ↔ ∃ rest, s = opReturn :: rest := isOpReturn_iff s
theorem is_provably_unspendable_iff (s : Bytes) : isProvablyUnspendable s = true ↔
    (∃ rest, s = opReturn :: rest) ∨ maxScriptSize < s.length ∨ s = [] := isProvablyUnspendable_iff s

/-- the special cases are witness programs -/
theorem special_cases_are_witness_programs (s : Bytes) :
    (isV0P2wpkh s = true ∨ isV0P2wsh s = true ∨ isV1P2tr s = true ∨ isV1plusP2witprog s = true) →
    isWitnessProgram s = true := by
  have z : opPushbytes0 = 0 := by decide
  have o1 : opPushnum1 ≤ opPushnum1 ∧ opPushnum1 ≤ opPushnum16 := by decide
  intro h
  rw [is_witness_program_iff]
  rcases h with h | h | h | h
  · obtain ⟨p, hl, rfl⟩ := (is_v0_p2wpkh_iff s).mp h
    exact ⟨0, p, Or.inl rfl, by omega, by omega, by rw [z]⟩
  · obtain ⟨p, hl, rfl⟩ := (is_v0_p2wsh_iff s).mp h
    exact ⟨0, p, Or.inl rfl, by omega, by omega, by rw [z]⟩
  · obtain ⟨p, hl, rfl⟩ := (is_v1_p2tr_iff s).mp h
    exact ⟨opPushnum1, p, Or.inr o1, by omega, by omega, rfl⟩
  · obtain ⟨v, p, hv, h2, h40, rfl⟩ := (is_v1plus_p2witprog_iff s).mp h
    exact ⟨v, p, Or.inr hv, h2, h40, rfl⟩

/-! ## scripts ↔ addresses (payload level) -/

/-- an address is derived from a script exactly for the templates: `from_script s = Some(p)` iff `p`
    is a standard payload (20-byte hash; v0 with 20/32 bytes; v1..16 with 2..40 bytes) and `s` is its
    pattern -/
theorem from_script_iff_template (s : Bytes) (p : Payload) :
    fromScript s = some p ↔ (p.standard ∧ s = p.pattern) :=
  ⟨fromScript_some, fun ⟨h, e⟩ => e ▸ fromScript_pattern h⟩

/-- … and then the address's output script is the original script -/
theorem script_addr_script (s : Bytes) (p : Payload) (h : fromScript s = some p) : scriptPubkey p = some s := by
  obtain ⟨hs, rfl⟩ := fromScript_some h
  exact scriptPubkey_standard hs

/-- conversely every standard payload survives payload → script → payload -/
theorem addr_script_addr (p : Payload) (h : p.standard) :
    ∃ s, scriptPubkey p = some s ∧ fromScript s = some p :=
  ⟨p.pattern, scriptPubkey_standard h, fromScript_pattern h⟩

/-- … and only those do (e.g. witness versions 17..31, v0 programs of other lengths, v1+ programs of
    0, 1 or more than 40 bytes do not come back) -/
theorem addr_script_addr_only_standard (p : Payload) (s : Bytes)
    (_ : scriptPubkey p = some s) (h2 : fromScript s = some p) : p.standard := (fromScript_some h2).1

/-- `is_witness_program` and `from_script` agree except for version 0 with a program that is not 20
    or 32 bytes: such a script is a witness program by the predicate but has no address -/
theorem witness_program_address (s : Bytes) (h : isWitnessProgram s = true) :
    fromScript s = none ↔ (at' s 0 = opPushbytes0 ∧ s.length ≠ 22 ∧ s.length ≠ 34) :=
  witness_program_fromScript h

/-- scripts with an address are p2pkh, p2sh or witness programs -/
theorem address_scripts_are_templates (s : Bytes) (p : Payload) (h : fromScript s = some p) :
    isP2pkh s = true ∨ isP2sh s = true ∨ isWitnessProgram s = true := fromScript_some_family h

/-- the `Script::new_*` constructors write the address scripts -/
theorem constructors_agree (h : Bytes) (v : Nat) (prog : Bytes) (hv : v ≤ 16) :
    newP2pkh h = scriptPubkey (.pubkeyHash h) ∧ newP2sh h = scriptPubkey (.scriptHash h) ∧
    newWitnessProgram v prog = scriptPubkey (.witnessProgram v prog) :=
  ⟨rfl, rfl, newWitnessProgram_eq v prog hv⟩

/-! ## scripts ↔ addresses ↔ text (C16 × C06) -/

section text
open EV.Proofs.BridgeScriptAddress

/-- **Script → address → text → address.** Composes the script/payload model of this property
    (`EV.Model.Script`: `from_script`, `script_pubkey` on `EV.Script.Payload`) with the address/text model of
    property C06 (`EV.Model.Address`: `Display`, `from_str`, `parse_with_params` on `EV.Addr.Address`, hash and
    key parser as parameters `P`), through `toAddrPayload` (the same payload with its bytes as `List Nat`).
    For every script `s` from which an address is derived (`from_script s = Some(p)`), every one of the three
    networks and every admissible blinder (none, or 33 bytes the key parser accepts — `Addr.BlinderOk`): the
    address's output script is `s`, and the displayed text of the address parses back to the same address, with
    `from_str` and with `parse_with_params` of that network.  Uses `script_addr_script`,
    `from_script_iff_template` and C06 `addr_roundtrip`. -/
theorem script_address_text_roundtrip (P : Addr.Prims) (s : Bytes) (p : Payload) (h : fromScript s = some p)
    (params : Gen.AddrParamsB) (hp : params ∈ Gen.allParamsB) (blinder : Option (List Nat))
    (hb : Addr.BlinderOk P blinder) :
    let a : Addr.Address := ⟨params, toAddrPayload p, blinder⟩
    scriptPubkey p = some s ∧ Addr.fromStr P (Addr.display P a) = .ok a ∧
      Addr.parseWithParams P (Addr.display P a) params = .ok a := by
  intro a
  have hw : Addr.WF P a := wf_toAddress P p ((from_script_iff_template s p).mp h).1 params hp blinder hb
  exact ⟨script_addr_script s p h, C06.addr_roundtrip P a hw⟩

/-- the conversion loses nothing: distinct payloads (hence, by `from_script_iff_template`, distinct address
    scripts) give distinct C06 payloads, and converting back returns the payload -/
theorem address_payload_conversion (p q : Payload) :
    ofAddrPayload (toAddrPayload p) = p ∧ (toAddrPayload p = toAddrPayload q → p = q) :=
  ⟨of_to_payload p, toAddrPayload_injective p q⟩

/-- **Text → address → script → address.** The converse composition of the same two models: whatever
    `from_str` accepts (C06 `parsed_shape`: a standard address, all entries byte values) converts to a C16
    payload `p` that is `standard`, converts back to the parsed payload exactly, and whose `script_pubkey` is a
    script from which `from_script` derives `p` again (`addr_script_addr`); displaying the address gives the
    text back (lower-cased for the segwit forms, C06 `parse_display_canonical`). -/
theorem text_address_script_roundtrip (P : Addr.Prims) (t : Bech32.Text) (a : Addr.Address)
    (h : Addr.fromStr P t = .ok a) :
    let p := ofAddrPayload a.payload
    p.standard ∧ toAddrPayload p = a.payload ∧
      (∃ s, scriptPubkey p = some s ∧ fromScript s = some p) ∧
      Addr.display P ⟨a.params, toAddrPayload p, a.blinder⟩ = (if a.payload.isSegwit then Bech32.lower t else t) := by
  intro p
  obtain ⟨hs, he⟩ := standard_of_payloadStd a.payload (C06.parsed_shape P t a h).payload
  refine ⟨hs, he, addr_script_addr p hs, ?_⟩
  rw [he]
  exact C06.parse_display_canonical P t a h

/-- the same for `parse_with_params` of one of the three networks -/
theorem text_address_script_roundtrip_with_params (P : Addr.Prims) (t : Bech32.Text) (params : Gen.AddrParamsB)
    (hp : params ∈ Gen.allParamsB) (a : Addr.Address) (h : Addr.parseWithParams P t params = .ok a) :
    let p := ofAddrPayload a.payload
    a.params = params ∧ p.standard ∧ toAddrPayload p = a.payload ∧
      ∃ s, scriptPubkey p = some s ∧ fromScript s = some p := by
  intro p
  obtain ⟨hs, he⟩ := standard_of_payloadStd a.payload (C06.parsed_shape_with_params P t params hp a h).payload
  exact ⟨(C06.parse_with_params_display_canonical P t params hp a h).1, hs, he, addr_script_addr p hs⟩

end text

/-! ## non-vacuity -/

example : build [.opcode opDup, .opcode opHash160, .slice (List.replicate 20 7), .opcode opEqual, .verify, .opcode opChecksig]
    = some (p2pkhScript (List.replicate 20 7)) := by decide
example : expected [.opcode opChecksig, .verify, .verify, .slice [1], .verify] =
    [.op opChecksigverify, .op opVerify, .push [1], .op opVerify] := by decide
example : instructions [0x4c, 0x01, 0xaa, 0x01] = ([.push [0xaa]], some .earlyEnd) := by decide
example : instructionsMinimal [0x4c, 0x01, 0xaa] = ([], some .nonMinimal) := by decide
example : instructionsMinimal [0x01, 0x81] = ([], some .nonMinimal) ∧ instructions [0x01, 0x81] = ([.push [0x81]], none) := by decide
example : buildScriptInt (-255) = [0xff, 0x80] ∧ readScriptInt [0xff, 0x80] = .ok (-255) := by decide
example : fromScript (witnessScript opPushnum16 [1, 2]) = some (.witnessProgram 16 [1, 2]) := by decide
example : isWitnessProgram (witnessScript 0 [1, 2, 3]) = true ∧ fromScript (witnessScript 0 [1, 2, 3]) = none := by decide
example : fromScript (witnessScript opPushnum1 [1]) = none := by decide
/-- the hypotheses of `script_address_text_roundtrip` are satisfiable, blinded and unblinded -/
example : fromScript (p2shScript (List.replicate 20 7)) = some (.scriptHash (List.replicate 20 7)) ∧
    Gen.paramsLiquidB ∈ Gen.allParamsB ∧
    Addr.BlinderOk { sha256d := fun _ => [], validPk := fun _ => true } (some (List.replicate 33 2)) ∧
    Addr.BlinderOk { sha256d := fun _ => [], validPk := fun _ => true } none ∧
    EV.Proofs.BridgeScriptAddress.toAddrPayload (.scriptHash (List.replicate 20 7)) = .sh (List.replicate 20 7) :=
  ⟨by decide, by decide, ⟨by decide, rfl, by intro b hb; rw [List.mem_replicate] at hb; omega⟩, trivial, by decide⟩

/-! ## opcode classification and opcode names (src/opcodes.rs)

  Model: EV.Model.Opcodes.  `classify` and `name` read tables that tools/extract.d/opcodes.py regenerates from
  the `match`es of `All::classify` / `Debug for All` on every run (`EV.Gen.opClassLegacyTable`,
  `opClassTapscriptTable`, `opNameTable`, `ordinaryOpcodes`); `classifyArms` is the same `match` written out over
  the named constants.  An opcode is its byte; `none` = panic. -/

section opcodes
open EV.Opcodes

/-- the generated tables and the arm-by-arm reading of `All::classify` agree on all 2 × 256 inputs -/
theorem classify_eq_arms (ctx : Ctx) (b : UInt8) : classify ctx b = classifyArms ctx b :=
  EV.Proofs.Opcodes.classify_eq_arms ctx b

/-- in `Legacy` context — the only one `Instructions::next` and `fmt_asm` use — `classify` is total -/
theorem classify_legacy_total (b : UInt8) : ∃ c, classify .legacy b = some c :=
  Option.isSome_iff_exists.mp (EV.Proofs.Opcodes.classify_of_tableAll EV.Proofs.Opcodes.legacy_total_pass b)

/-- FINDING (known_findings.jsonl, C16-CLASSIFY-TAPSCRIPT-PANIC): in `TapScript` context `classify` panics
    (`Ordinary::try_from_all(self).unwrap()` on `None`) exactly for OP_CHECKSIGADD, OP_RETURN_192 and the 33
    Elements tapscript opcodes OP_SHA256INITIALIZE ..= OP_TWEAKVERIFY: no arm claims them and they are not in
    the `ordinary_opcode!` list -/
theorem classify_tapscript_panics_iff (b : UInt8) : classify .tapScript b = none ↔
    (b = opChecksigadd ∨ b = opReturn192 ∨ (opSha256initialize ≤ b ∧ b ≤ opTweakverify)) := by
  have := EV.Proofs.Opcodes.classify_of_tableAll EV.Proofs.Opcodes.tapscript_none_pass b
  rw [EV.Proofs.Opcodes.B_toNat] at this
  exact of_decide_eq_true this

/-- `PushBytes(n)` ↔ the byte is at most `OP_PUSHBYTES_75` and `n` is the byte (both contexts) -/
theorem classify_push_bytes_iff (ctx : Ctx) (b : UInt8) (n : Nat) :
    classify ctx b = some (.pushBytes n) ↔ (b ≤ opPushbytes75 ∧ n = b.toNat) := by
  have h := EV.Proofs.Opcodes.classify_of_tableAll (EV.Proofs.Opcodes.pushBytes_pass ctx) b
  rw [EV.Proofs.Opcodes.B_toNat] at h
  by_cases c : b ≤ opPushbytes75
  · simp only [c, if_true, beq_iff_eq] at h
    rw [h]
    constructor
    · intro e; injection e with e; injection e with e; exact ⟨c, e.symm⟩
    · rintro ⟨_, rfl⟩; rfl
  · simp only [c, if_false, Bool.not_eq_true'] at h
    constructor
    · intro e; rw [e] at h; simp [EV.Proofs.Opcodes.isPushBytes] at h
    · rintro ⟨c', _⟩; exact absurd c' c

/-- `PushNum(n)` ↔ `OP_PUSHNUM_NEG1` with −1, or `OP_PUSHNUM_1 ..= OP_PUSHNUM_16` with 1..16 (both contexts) -/
theorem classify_push_num_iff (ctx : Ctx) (b : UInt8) (n : Int) :
    classify ctx b = some (.pushNum n) ↔
      ((b = opPushnumNeg1 ∧ n = -1) ∨
       (opPushnum1 ≤ b ∧ b ≤ opPushnum16 ∧ n = Int.ofNat b.toNat - Int.ofNat opPushnum1.toNat + 1)) := by
  have h := EV.Proofs.Opcodes.classify_of_tableAll (EV.Proofs.Opcodes.pushNum_pass ctx) b
  rw [EV.Proofs.Opcodes.B_toNat] at h
  have hne : ¬ (opPushnum1 ≤ opPushnumNeg1 ∧ opPushnumNeg1 ≤ opPushnum16) := by decide
  by_cases c1 : b = opPushnumNeg1
  · simp only [c1, if_true, beq_iff_eq] at h
    subst c1
    rw [h]
    constructor
    · intro e; injection e with e; injection e with e; exact Or.inl ⟨rfl, e.symm⟩
    · rintro (⟨_, rfl⟩ | ⟨a, b', _⟩)
      · rfl
      · exact absurd ⟨a, b'⟩ hne
  · by_cases c2 : opPushnum1 ≤ b ∧ b ≤ opPushnum16
    · simp only [c1, c2, and_self, if_true, if_false, beq_iff_eq] at h
      rw [h]
      constructor
      · intro e; injection e with e; injection e with e; exact Or.inr ⟨c2.1, c2.2, e.symm⟩
      · rintro (⟨a, _⟩ | ⟨_, _, rfl⟩)
        · exact absurd a c1
        · rfl
    · simp only [c1, c2, if_false, Bool.not_eq_true'] at h
      constructor
      · intro e; rw [e] at h; simp [EV.Proofs.Opcodes.isPushNum] at h
      · rintro (⟨a, _⟩ | ⟨a, b', _⟩)
        · exact absurd a c1
        · exact absurd ⟨a, b'⟩ c2

/-- the remaining classes in `Legacy` context, as the match arms give them: `ReturnOp` = OP_RETURN, the four
    reserved opcodes and every byte from OP_CHECKSIGADD (0xba) up except 0xff — this includes the Elements
    opcodes OP_CHECKSIGFROMSTACK(VERIFY), OP_SUBSTR_LAZY and all tapscript-only opcodes; `IllegalOp` = the 3 + 15
    listed; `NoOp` = OP_NOP and OP_NOP1..OP_NOP10 (with OP_CLTV, OP_CSV); `SuccessOp` never -/
theorem classify_classes_legacy (b : UInt8) :
    (classify .legacy b = some .returnOp ↔ (b = opReturn ∨ b = opReserved ∨ b = opReserved1 ∨ b = opReserved2 ∨
        b = opVer ∨ (opChecksigadd ≤ b ∧ b ≠ opInvalidopcode))) ∧
    (classify .legacy b = some .illegalOp ↔ b ∈ [opVerif, opVernotif, opInvalidopcode, opCat, opSubstr, opLeft,
        opRight, opInvert, opAnd, opOr, opXor, op2mul, op2div, opMul, opDiv, opMod, opLshift, opRshift]) ∧
    (classify .legacy b = some .noOp ↔ (b = opNop ∨ (opNop1 ≤ b ∧ b ≤ opNop10))) ∧
    classify .legacy b ≠ some .successOp := by
  have := EV.Proofs.Opcodes.classify_of_tableAll EV.Proofs.Opcodes.legacy_classes_pass b
  rw [EV.Proofs.Opcodes.B_toNat] at this
  exact of_decide_eq_true this

/-- … and in `TapScript` context (where it does not panic): `ReturnOp` = OP_RETURN, OP_CHECKMULTISIG(VERIFY);
    `IllegalOp` = OP_VERIF, OP_VERNOTIF, OP_INVALIDOPCODE; `SuccessOp` = the 40 bytes of the guard -/
theorem classify_classes_tapscript (b : UInt8) :
    (classify .tapScript b = some .returnOp ↔ (b = opReturn ∨ b = opCheckmultisig ∨ b = opCheckmultisigverify)) ∧
    (classify .tapScript b = some .illegalOp ↔ (b = opVerif ∨ b = opVernotif ∨ b = opInvalidopcode)) ∧
    (classify .tapScript b = some .noOp ↔ (b = opNop ∨ (opNop1 ≤ b ∧ b ≤ opNop10))) ∧
    (classify .tapScript b = some .successOp ↔ (b.toNat = 80 ∨ b.toNat = 98 ∨ (137 ≤ b.toNat ∧ b.toNat ≤ 138) ∨
        (141 ≤ b.toNat ∧ b.toNat ≤ 142) ∨ (149 ≤ b.toNat ∧ b.toNat ≤ 151) ∨ (187 ≤ b.toNat ∧ b.toNat ≤ 191) ∨
        (229 ≤ b.toNat ∧ b.toNat ≤ 254))) := by
  have := EV.Proofs.Opcodes.classify_of_tableAll EV.Proofs.Opcodes.tapscript_classes_pass b
  rw [EV.Proofs.Opcodes.B_toNat] at this
  exact of_decide_eq_true this

/-- `Ordinary::try_from_all` succeeds exactly on the `ordinary_opcode!` list and returns the variant whose
    discriminant (`into_u8`) is the opcode byte; hence it is injective -/
theorem try_from_all_iff (b o : UInt8) : tryFromAll b = some o ↔ (o = b ∧ b ∈ ordinaryOpcodes) := by
  rw [EV.Proofs.Opcodes.tryFromAll_eq]
  by_cases c : b ∈ ordinaryOpcodes
  · simp only [c, if_true, and_true]
    exact ⟨fun e => (Option.some.inj e).symm, fun e => by rw [e]⟩
  · simp [c]

theorem try_from_all_injective (a b o : UInt8) (ha : tryFromAll a = some o) (hb : tryFromAll b = some o) : a = b := by
  rw [((try_from_all_iff a o).mp ha).1.symm, ((try_from_all_iff b o).mp hb).1]

/-- class `Ordinary(o)` ↔ `o` is the opcode itself, it is in the `ordinary_opcode!` list, and no earlier arm
    claims it.  So "`try_from_all` succeeds iff the class is ordinary" is FALSE in both contexts: 13 listed
    opcodes are `IllegalOp`/`ReturnOp` in `Legacy` (among them OP_CAT … OP_RSHIFT and OP_CHECKSIGFROMSTACK(VERIFY),
    OP_SUBSTR_LAZY, which Elements executes), 2 are `ReturnOp` in `TapScript`. -/
theorem classify_ordinary_iff_legacy (b o : UInt8) : classify .legacy b = some (.ordinary o) ↔
    (o = b ∧ tryFromAll b = some b ∧ b ∉ [opCat, opSubstr, opLeft, opRight, opInvert, opAnd, opOr, opXor, opLshift,
      opRshift, opChecksigfromstack, opChecksigfromstackverify, opSubstrLazy]) := by
  have h := EV.Proofs.Opcodes.classify_of_tableAll (EV.Proofs.Opcodes.ordinary_pass .legacy) b
  rw [EV.Proofs.Opcodes.B_toNat] at h
  rw [try_from_all_iff]
  by_cases c : ordinaryOpcodes.contains b && !(EV.Proofs.Opcodes.ordinaryElsewhere .legacy).contains b
  · rw [if_pos c, beq_iff_eq] at h
    simp only [Bool.and_eq_true, List.contains_eq_mem, decide_eq_true_eq, Bool.not_eq_true', decide_eq_false_iff_not] at c
    rw [h]
    constructor
    · intro e; injection e with e; injection e with e; exact ⟨e.symm, ⟨rfl, c.1⟩, c.2⟩
    · rintro ⟨rfl, _⟩; rfl
  · rw [if_neg c] at h
    simp only [Bool.and_eq_true, List.contains_eq_mem, decide_eq_true_eq, Bool.not_eq_true', decide_eq_false_iff_not] at c
    constructor
    · intro e; rw [e] at h; simp [EV.Proofs.Opcodes.isOrdinary] at h
    · rintro ⟨_, ⟨_, hm⟩, hn⟩; exact absurd ⟨hm, hn⟩ c

theorem classify_ordinary_iff_tapscript (b o : UInt8) : classify .tapScript b = some (.ordinary o) ↔
    (o = b ∧ tryFromAll b = some b ∧ b ∉ [opCheckmultisig, opCheckmultisigverify]) := by
  have h := EV.Proofs.Opcodes.classify_of_tableAll (EV.Proofs.Opcodes.ordinary_pass .tapScript) b
  rw [EV.Proofs.Opcodes.B_toNat] at h
  rw [try_from_all_iff]
  by_cases c : ordinaryOpcodes.contains b && !(EV.Proofs.Opcodes.ordinaryElsewhere .tapScript).contains b
  · rw [if_pos c, beq_iff_eq] at h
    simp only [Bool.and_eq_true, List.contains_eq_mem, decide_eq_true_eq, Bool.not_eq_true', decide_eq_false_iff_not] at c
    rw [h]
    constructor
    · intro e; injection e with e; injection e with e; exact ⟨e.symm, ⟨rfl, c.1⟩, c.2⟩
    · rintro ⟨rfl, _⟩; rfl
  · rw [if_neg c] at h
    simp only [Bool.and_eq_true, List.contains_eq_mem, decide_eq_true_eq, Bool.not_eq_true', decide_eq_false_iff_not] at c
    constructor
    · intro e; rw [e] at h; simp [EV.Proofs.Opcodes.isOrdinary] at h
    · rintro ⟨_, ⟨_, hm⟩, hn⟩; exact absurd ⟨hm, hn⟩ c

/-- sizes of the classes (PushNum, PushBytes, ReturnOp, SuccessOp, IllegalOp, NoOp, Ordinary, panic).  The
    comments in the source announce 61 / 60 `Ordinary` opcodes for Legacy / TapScript and 87 `SuccessOp`s; the
    code has 60 / 71 (+ 35 panics) and 40. -/
theorem class_counts : EV.Proofs.Opcodes.classCounts .legacy = [17, 76, 74, 0, 18, 11, 60, 0] ∧
    EV.Proofs.Opcodes.classCounts .tapScript = [17, 76, 3, 40, 3, 11, 71, 35] := EV.Proofs.Opcodes.classCounts_eq

/-- the `Display`/`Debug` names of the 256 opcodes are pairwise distinct, and each is the identifier of its
    constant in `mod all` (what the crate's unit test `str_roundtrip` asserts) -/
theorem opcode_names_distinct (a b : UInt8) (h : name a = name b) : a = b := EV.Proofs.Opcodes.name_injective h

theorem opcode_name_is_const_identifier : opNameTable = opConstNames := EV.Proofs.Opcodes.opNameTable_eq_constNames

/-- … and so are the texts `fmt_asm` writes (`OP_0` instead of `OP_PUSHBYTES_0`): the asm of a single opcode
    identifies it -/
theorem asm_opcode_injective (a b : UInt8) (h : asmOpcode a = asmOpcode b) : a = b :=
  EV.Proofs.ScriptAsmText.asmOpcode_injective h

/-- bridge to the iterator model: the byte tests `next` makes are `classify(Legacy)` — `PushBytes(n)` exactly
    below `OP_PUSHDATA1`, and the three PUSHDATA opcodes are `Ordinary` -/
theorem iterator_classification (b : UInt8) :
    (b ≤ opPushbytes75 ↔ ∃ n, classify .legacy b = some (.pushBytes n)) ∧
    classify .legacy opPushdata1 = some (.ordinary opPushdata1) ∧
    classify .legacy opPushdata2 = some (.ordinary opPushdata2) ∧
    classify .legacy opPushdata4 = some (.ordinary opPushdata4) := by
  refine ⟨⟨fun h => ⟨b.toNat, (classify_push_bytes_iff .legacy b b.toNat).mpr ⟨h, rfl⟩⟩,
    fun ⟨n, h⟩ => ((classify_push_bytes_iff .legacy b n).mp h).1⟩, ?_, ?_, ?_⟩ <;>
  · rw [classify_ordinary_iff_legacy, try_from_all_iff]; decide

end opcodes

/-! ## script numbers: minimal encodings -/

section scriptnum
open EV.Proofs.ScriptNumMin

/-- `read_scriptint` rejects exactly the over-long strings (more than 4 bytes, `NumericOverflow`); every
    string of at most 4 bytes is read, minimal or not (`[0x00]`, `[0x80]` "negative zero", `[0x01, 0x00]` …) -/
theorem read_scriptint_rejects_only_overlong (v : Bytes) :
    (readScriptInt v = .err "NumericOverflow" ↔ 4 < v.length) ∧ (v.length ≤ 4 → ∃ i, readScriptInt v = .ok i) :=
  ⟨readScriptInt_err_iff v, readScriptInt_ok_of_le v⟩

/-- `build_scriptint` output is minimal: no redundant trailing `0x00` / `0x80` sign byte -/
theorem build_scriptint_minimal (n : Int) (hr : i64Min < n ∧ n < 2 ^ 63) : minimalNum (buildScriptInt n) = true :=
  buildScriptInt_minimal n (by unfold i64Min at hr; omega)

/-- reading a string of at most 4 bytes and building the value again gives the string back exactly when it
    is minimal -/
theorem read_then_build_iff_minimal (v : Bytes) (h4 : v.length ≤ 4) (i : Int) (hr : readScriptInt v = .ok i) :
    buildScriptInt i = v ↔ minimalNum v = true := build_read_iff_minimal v h4 i hr

/-- `push_int` uses `build_scriptint` (through `push_scriptint` / `push_slice`) exactly outside −1, 0, 1..16 -/
theorem push_int_uses_build_scriptint (b : Builder) (n : Int) (h : n ≠ -1 ∧ n ≠ 0 ∧ ¬ (1 ≤ n ∧ n ≤ 16)) (hm : n ≠ i64Min) :
    b.pushInt n = b.pushSlice (buildScriptInt n) := by
  have c : ¬ (n = -1 ∨ (1 ≤ n ∧ n ≤ 16)) := fun e => e.elim h.1 h.2.2
  simp [Builder.pushInt, Builder.pushScriptInt, c, h.2.1, hm]

example : readScriptInt [0x01, 0x00] = .ok 1 ∧ buildScriptInt 1 = [0x01] ∧ minimalNum [0x01, 0x00] = false ∧
    readScriptInt [0x80] = .ok 0 ∧ minimalNum [0x80] = false ∧ minimalNum [0xff, 0x00] = true := by decide
example : i64Min < (2 ^ 63 - 1 : Int) ∧ minimalNum (buildScriptInt (2 ^ 63 - 1)) = true := by decide
example : (17 : Int) ≠ -1 ∧ (17 : Int) ≠ 0 ∧ ¬ (1 ≤ (17 : Int) ∧ (17 : Int) ≤ 16) ∧ (17 : Int) ≠ i64Min := by decide

end scriptnum

/-! ## the text forms of a script (`fmt_asm` / `asm`, `Debug`, `Display`, `{:x}`, `{:X}`)

  Model: EV.Model.ScriptAsm.  The formatter's quirks are modelled as they are: a script whose first opcode is
  `OP_PUSHDATA1/2/4` starts with a space (the separator test is `index > 1` after the length bytes), an error
  marker of a cut-off length field is written without separator and without the opcode, and the length field
  itself is never printed. -/

section asm
open EV.Proofs.ScriptAsm

/-- `fmt_asm` never panics and never fails (`asm()` unwraps it) -/
theorem asm_total (s : Bytes) : ∃ cs, asm s = some cs := EV.Proofs.ScriptAsm.asm_total s

/-- the `<bad length>` branches are unreachable (the length test before `read_uint` is the same test) -/
theorem bad_length_unreachable (b : UInt8) (tl : Bytes) : dataLen b tl ≠ some .badLength := by
  rw [dataLen_eq]
  cases hdr b tl with
  | none => simp
  | some kn => simp

/-- **asm is injective on cleanly decoding scripts**: two scripts whose instruction streams have no error and
    that print the same text are the same byte string.  The opcode text names the push opcode (so the width of
    a PUSHDATA length field is visible), the hex word gives the data and hence the value of the length field;
    `OP_0` / `OP_PUSHDATA1` with length 0 / `OP_PUSHBYTES_1 xx` / `OP_PUSHDATA1 xx` all print differently. -/
theorem asm_injective_clean (s t : Bytes) (hs : (instructions s).2 = none) (ht : (instructions t).2 = none)
    (h : asm s = asm t) : s = t := EV.Proofs.ScriptAsm.asm_injective_clean s t hs ht h

/-- an error marker (`<unexpected end>`, `<push past end>`) is printed exactly when the instruction stream
    has an error: the text of a clean script contains no `<` -/
theorem asm_marker_iff_error (s : Bytes) : (instructions s).2 = none ↔ ∃ cs, asm s = some cs ∧ '<' ∉ cs :=
  asm_marker_iff s

/-- hence the text of a clean script is shared with no other script at all -/
theorem asm_clean_determines_script (s t : Bytes) (hs : (instructions s).2 = none) (h : asm s = asm t) : s = t := by
  obtain ⟨cs, hcs, hn⟩ := (asm_marker_iff s).mp hs
  exact asm_injective_clean s t hs ((asm_marker_iff t).mpr ⟨cs, h ▸ hcs, hn⟩) h

/-- the ambiguity that does exist: scripts that end in a decode error.  A cut-off length field prints only
    the marker, a cut-off push prints neither the announced length nor the bytes that are there. -/
example : asm [0x4c] = asm [0x4d] ∧ asm [0x4d] = asm [0x4d, 0x00] ∧ asm [0x02] = asm [0x02, 0xaa] ∧
    asm [0x4c, 0x05, 0xaa] = asm [0x4c, 0x06, 0xbb, 0xcc] := by decide
/-- … and what does not collide -/
example : asm [0x00] = some "OP_0".toList ∧ asm [0x4c, 0x00] = some " OP_PUSHDATA1".toList ∧
    asm [0x01, 0xaa] = some "OP_PUSHBYTES_1 aa".toList ∧ asm [0x4c, 0x01, 0xaa] = some " OP_PUSHDATA1 aa".toList ∧
    asm [0x4d, 0x01, 0x00, 0xaa] = some " OP_PUSHDATA2 aa".toList ∧
    asm [0x51, 0x4c] = some "OP_PUSHNUM_1<unexpected end>".toList := by decide
example : (instructions [0x76, 0xa9, 0x01, 0xaa]).2 = none ∧ (instructions [0x4c, 0x01]).2 = some .earlyEnd := by decide

/-- asm of a canonically encoded instruction list is its items (opcode text, for a non-empty push followed by
    the data in hex) separated by single spaces (after a leading space if the first push has 76 bytes or more) -/
theorem asm_serialize (is : List Instr) (h : ∀ i ∈ is, i.wf) : asm (serialize is) = some (asmItems is) :=
  EV.Proofs.ScriptAsm.asm_serialize is h

/-- bridge to the builder: the asm (and `Debug`/`Display`) text of a built script is the text of the
    instructions that were added -/
theorem asm_build (ops : List BOp) (h : ∀ o ∈ ops, o.wf) :
    ∃ s, build ops = some s ∧ asm s = some (asmItems (expected ops)) ∧
      debug s = some (scriptDebugOpen ++ asmItems (expected ops) ++ scriptDebugClose) := by
  obtain ⟨hb, hw⟩ := EV.Proofs.ScriptBuilder.build_eq_serialize false ops (fun o ho => ⟨h o ho, by simp⟩)
  have ha := asm_serialize _ (fun i hi => (hw i hi).1)
  exact ⟨_, hb, ha, by simp [debug, ha]⟩

/-- one item per builder call when `push_verify` is not used (with it, a fold replaces the previous item:
    `expected_verify`) -/
theorem asm_build_one_item_per_call (ops : List BOp) (h : ∀ o ∈ ops, o.wf) (hv : ∀ o ∈ ops, o ≠ .verify) :
    ∃ s, build ops = some s ∧ asm s = some (asmLead (ops.map instrOf) ++ [' '].intercalate (ops.map (asmItem ∘ instrOf))) ∧
      (ops.map (asmItem ∘ instrOf)).length = ops.length := by
  obtain ⟨s, hb, ha, _⟩ := asm_build ops h
  rw [expected_no_verify ops hv] at ha
  exact ⟨s, hb, by rw [ha, asmItems, List.map_map], by simp⟩

example : asm (p2pkhScript (List.replicate 20 7)) =
    some "OP_DUP OP_HASH160 OP_PUSHBYTES_20 0707070707070707070707070707070707070707 OP_EQUALVERIFY OP_CHECKSIG".toList := by
  decide
example : asmItems [.push [0xab, 0xcd], .op opChecksig, .push []] = "OP_PUSHBYTES_2 abcd OP_CHECKSIG OP_0".toList ∧
    asmLead [.push (List.replicate 76 0xab), .op opChecksig] = [' '] := by decide

/-- `{:x}` and `{:X}` of a script parse back to the script (`Script::from_hex_no_prefix` accepts both cases) -/
theorem hex_forms_parse_back (s : Bytes) :
    Hex.decodeChars (lowerHex s) = some s ∧ Hex.decodeChars (upperHex s) = some s :=
  ⟨EV.Text.decodeChars_hexStr s, decodeChars_upperHex s⟩

end asm

/-! ## the remaining constructors: `new_op_return`, `to_p2sh`, `to_v0_p2wsh` -/

section constructors

/-- `Script::new_op_return(data)` is recognised by `is_op_return` and `is_provably_unspendable`, and iterates
    as OP_RETURN followed by the push of `data` -/
theorem new_op_return_is_op_return (d : Bytes) (h : d.length < 2 ^ 32) :
    ∃ s, newOpReturn d = some s ∧ isOpReturn s = true ∧ isProvablyUnspendable s = true ∧
      instructions s = ([.op opReturn, .push d], none) := by
  have hwf : ∀ o ∈ [BOp.opcode opReturn, BOp.slice d], o.wf := by
    intro o ho
    rcases List.mem_cons.mp ho with rfl | ho
    · exact Or.inr (by decide)
    · rcases List.mem_cons.mp ho with rfl | ho
      · exact h
      · cases ho
  obtain ⟨s, hb, hi⟩ := instructions_build _ hwf
  have he : expected [BOp.opcode opReturn, BOp.slice d] = [.op opReturn, .push d] := by
    rw [expected_no_verify _ (by intro o ho; rcases List.mem_cons.mp ho with rfl | ho; · simp
                                 · rcases List.mem_cons.mp ho with rfl | ho; · simp
                                   · cases ho)]
    have : opReturn ≠ opPushbytes0 := by decide
    simp [instrOf, instrOfOpcode, this]
  have hs : s = serialize [.op opReturn, .push d] := by
    have := build_bytes _ hwf; rw [hb, he] at this; exact Option.some.inj this
  have hop : ∃ rest, s = opReturn :: rest :=
    ⟨(pushHeader d.length).getD [] ++ d, by rw [hs]; simp [serialize, encInstr]⟩
  exact ⟨s, hb, (is_op_return_iff s).mpr hop, (is_provably_unspendable_iff s).mpr (Or.inl hop), by rw [hi, he]⟩

/-- `Script::to_p2sh` is `new_p2sh(script_hash)`: the p2sh pattern of the script's hash160, recognised by
    `is_p2sh`, and `Address::from_script` gives back that script hash -/
theorem to_p2sh_is_p2sh (H : ScriptHashes) (h20 : ∀ x, (H.hash160 x).length = 20) (s : Bytes) :
    toP2sh H s = newP2sh (H.hash160 s) ∧ toP2sh H s = some (p2shScript (H.hash160 s)) ∧
      isP2sh (p2shScript (H.hash160 s)) = true ∧
      fromScript (p2shScript (H.hash160 s)) = some (.scriptHash (H.hash160 s)) := by
  have hs : (Payload.scriptHash (H.hash160 s)).standard := h20 s
  exact ⟨rfl, scriptPubkey_standard hs, (is_p2sh_iff _).mpr ⟨_, h20 s, rfl⟩, fromScript_pattern hs⟩

/-- `Script::to_v0_p2wsh` is `new_v0_wsh(wscript_hash)`: version 0 with the 32-byte sha256 of the script,
    recognised by `is_v0_p2wsh` (and `is_witness_program`), with the v0 address of that program -/
theorem to_v0_p2wsh_is_v0_p2wsh (H : ScriptHashes) (h32 : ∀ x, (H.sha256 x).length = 32) (s : Bytes) :
    toV0P2wsh H s = newWitnessProgram 0 (H.sha256 s) ∧
      toV0P2wsh H s = some (witnessScript opPushbytes0 (H.sha256 s)) ∧
      isV0P2wsh (witnessScript opPushbytes0 (H.sha256 s)) = true ∧
      isWitnessProgram (witnessScript opPushbytes0 (H.sha256 s)) = true ∧
      fromScript (witnessScript opPushbytes0 (H.sha256 s)) = some (.witnessProgram 0 (H.sha256 s)) := by
  have hs : (Payload.witnessProgram 0 (H.sha256 s)).standard := Or.inl ⟨rfl, Or.inr (h32 s)⟩
  have e : toV0P2wsh H s = scriptPubkey (.witnessProgram 0 (H.sha256 s)) := rfl
  have hw : isV0P2wsh (witnessScript opPushbytes0 (H.sha256 s)) = true := (is_v0_p2wsh_iff _).mpr ⟨_, h32 s, rfl⟩
  exact ⟨by rw [e, newWitnessProgram_eq 0 _ (by omega)], by rw [e]; exact scriptPubkey_standard hs, hw,
    special_cases_are_witness_programs _ (Or.inr (Or.inl hw)), fromScript_pattern hs⟩

/-- the hypotheses are satisfiable -/
example : ∃ H : ScriptHashes, (∀ x, (H.hash160 x).length = 20) ∧ (∀ x, (H.sha256 x).length = 32) :=
  ⟨⟨fun _ => List.replicate 20 0, fun _ => List.replicate 32 0⟩, fun _ => by simp, fun _ => by simp⟩
example : newOpReturn [1, 2, 3] = some [0x6a, 0x03, 1, 2, 3] := by decide

end constructors

end EV.Props.C16
