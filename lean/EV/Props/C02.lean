/-
  C02 — transaction and block ids are the consensus hashes and ignore witness data.
  The hash `H.sha256d` is a parameter; "the id changes whenever a committed field changes" is
  stated in the only form that is true without axioms: equal ids ⇒ equal committed data, or an
  explicit collision of the hash function.
-/
import EV.Proofs.CodecTx
import EV.Proofs.CodecBlock
namespace EV.Props.C02
open EV EV.Codec EV.Proofs.CodecPrim EV.Proofs.CodecTx EV.Proofs.CodecBlock

def Collision (f : Bytes → Bytes) : Prop := ∃ x y, x ≠ y ∧ f x = f y

variable (P : Prims) (H : Hashes)

/-- txid is the double-SHA256 of the witness-stripped serialization, wtxid that of the full one -/
theorem txid_def (t : Tx) : t.txid H = H.sha256d t.encStripped := rfl
theorem wtxid_def (t : Tx) : t.wtxid H = H.sha256d t.enc := rfl

/-- … where the witness-stripped serialization is the serialization of the transaction with all
    witnesses removed -/
theorem encStripped_is_enc_of_stripped (t : Tx) : t.encStripped = (stripWit t).enc := (enc_stripWit t).symm

/-- changing only witness data never changes the txid -/
theorem txid_witness_irrelevant (a b : Tx) (h : stripWit a = stripWit b) : a.txid H = b.txid H := by
  simp only [Tx.txid, ← encStripped_stripWit a, ← encStripped_stripWit b, h]

/-- changing any other serialized field always does (or exhibits a hash collision) -/
theorem txid_commits (hs : SizesPos P) (a b : Tx) (ha : a.wf P) (hb : b.wf P)
    (h : a.txid H = b.txid H) : stripWit a = stripWit b ∨ Collision H.sha256d := by
  by_cases he : a.encStripped = b.encStripped
  · exact Or.inl (encStripped_injective P hs a b ha hb he)
  · exact Or.inr ⟨_, _, he, h⟩

/-- the wtxid commits to everything -/
theorem wtxid_commits (hs : SizesPos P) (a b : Tx) (ha : a.wf P) (hb : b.wf P)
    (h : a.wtxid H = b.wtxid H) : a = b ∨ Collision H.sha256d := by
  by_cases he : a.enc = b.enc
  · exact Or.inl (enc_injective P hs a b ha hb he)
  · exact Or.inr ⟨_, _, he, h⟩

/-- wtxid equals txid exactly when the transaction carries no witness -/
theorem wtxid_eq_txid_of_no_witness (t : Tx) (h : t.hasWitness = false) : t.wtxid H = t.txid H := by
  simp only [Tx.wtxid, Tx.txid, (enc_eq_encStripped_iff t).2 h]

theorem wtxid_ne_txid_of_witness (t : Tx) (h : t.hasWitness = true) :
    t.wtxid H ≠ t.txid H ∨ Collision H.sha256d := by
  by_cases he : t.wtxid H = t.txid H
  · refine Or.inr ⟨t.enc, t.encStripped, ?_, he⟩
    intro heq
    have := (enc_eq_encStripped_iff t).1 heq
    simp [h] at this
  · exact Or.inl he

/-- the block hash is the double-SHA256 of the header serialization without the solution /
    signblock witness, dynafed marker bit included -/
theorem block_hash_def (h : BlockHeader) : h.blockHash H = H.sha256d h.hashPreimage := rfl

/-- the preimage is the full serialization of the witness-cleared header minus its final,
    empty witness field (one zero byte) -/
theorem hashPreimage_is_cleared_enc (h : BlockHeader) : h.clearWitness.enc = h.hashPreimage ++ [0] := by
  unfold BlockHeader.clearWitness BlockHeader.enc BlockHeader.hashPreimage BlockHeader.versionWord
  cases hx : h.ext <;>
    simp [ExtData.clearWitness, ExtData.enc, ExtData.encHashed, ExtData.isDynafed, encBytesVec, encBytesVecVec,
      encVec, encVarint]

/-- witness data never changes the block hash -/
theorem block_hash_clear_witness (h : BlockHeader) : h.clearWitness.blockHash H = h.blockHash H := by
  simp only [BlockHeader.blockHash, hashPreimage_clearWitness]

theorem block_hash_witness_irrelevant (a b : BlockHeader) (h : a.clearWitness = b.clearWitness) :
    a.blockHash H = b.blockHash H := by
  rw [← block_hash_clear_witness H a, ← block_hash_clear_witness H b, h]

/-- every other field does (dynafed marker included), or a collision is exhibited -/
theorem block_hash_commits (a b : BlockHeader) (ha : a.wf) (hb : b.wf)
    (h : a.blockHash H = b.blockHash H) : a.clearWitness = b.clearWitness ∨ Collision H.sha256d := by
  by_cases he : a.hashPreimage = b.hashPreimage
  · exact Or.inl (hashPreimage_injective a b ha hb he)
  · exact Or.inr ⟨_, _, he, h⟩

/-- `clear_witness` touches exactly the fields outside the hash preimage -/
theorem clear_witness_exact (h : BlockHeader) :
    h.clearWitness.version = h.version ∧ h.clearWitness.prevBlockhash = h.prevBlockhash ∧
    h.clearWitness.merkleRoot = h.merkleRoot ∧ h.clearWitness.time = h.time ∧
    h.clearWitness.height = h.height ∧ h.clearWitness.ext.isDynafed = h.ext.isDynafed :=
  clearWitness_fields h

/-- non-vacuity: a canonical transaction with a witness exists, and stripping changes it -/
example : let t : Tx := ⟨2, 0, [⟨⟨List.replicate 32 1, 0⟩, false, [], 0, AssetIssuance.null, ⟨none, none, [[1]], []⟩⟩], []⟩
    t.hasWitness = true ∧ stripWit t ≠ t := by decide

end EV.Props.C02
