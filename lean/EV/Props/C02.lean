/-
  C02 — transaction and block ids are the consensus hashes and ignore witness data.
  The hash `H.sha256d` is a parameter; "the id changes whenever a committed field changes" is
  stated in the only form that is true without axioms: equal ids ⇒ equal committed data, or an
  explicit collision of the hash function.
-/
import EV.Proofs.CodecTx
import EV.Proofs.CodecBlock
import EV.Proofs.Genesis
import EV.Proofs.GenesisKernel
namespace EV.Props.C02
open EV EV.Codec EV.Proofs.CodecPrim EV.Proofs.CodecTx EV.Proofs.CodecBlock

def Collision (f : Bytes → Bytes) : Prop := ∃ x y, x ≠ y ∧ f x = f y

variable (P : Prims) (H : Hashes)

/-- txid is the double-SHA256 of the witness-stripped serialization, wtxid that of the full one -/
theorem txid_def (t : Tx) : t.txid H = H.sha256d t.encStripped := rfl
theorem wtxid_def (t : Tx) : t.wtxid H = H.sha256d t.enc := rfl

/-- … where the witness-stripped serialization is the serialization of the transaction with all
    witnesses removed -/
theorem encStripped_is_enc_of_stripped (t : Tx) : t.encStripped = (stripWit t).enc := (enc_stripWit t).symm

/-- changing only witness data never changes the txid -/
theorem txid_witness_irrelevant (a b : Tx) (h : stripWit a = stripWit b) : a.txid H = b.txid H := by
  simp only [Tx.txid, ← encStripped_stripWit a, ← encStripped_stripWit b, h]

/-- changing any other serialized field always does (or exhibits a hash collision) -/
theorem txid_commits (hs : SizesPos P) (a b : Tx) (ha : a.wf P) (hb : b.wf P)
    (h : a.txid H = b.txid H) : stripWit a = stripWit b ∨ Collision H.sha256d := by
  by_cases he : a.encStripped = b.encStripped
  · exact Or.inl (encStripped_injective P hs a b ha hb he)
  · exact Or.inr ⟨_, _, he, h⟩

/-- the wtxid commits to everything -/
theorem wtxid_commits (hs : SizesPos P) (a b : Tx) (ha : a.wf P) (hb : b.wf P)
    (h : a.wtxid H = b.wtxid H) : a = b ∨ Collision H.sha256d := by
  by_cases he : a.enc = b.enc
  · exact Or.inl (enc_injective P hs a b ha hb he)
  · exact Or.inr ⟨_, _, he, h⟩

/-- wtxid equals txid exactly when the transaction carries no witness -/
theorem wtxid_eq_txid_of_no_witness (t : Tx) (h : t.hasWitness = false) : t.wtxid H = t.txid H := by
  simp only [Tx.wtxid, Tx.txid, (enc_eq_encStripped_iff t).2 h]

theorem wtxid_ne_txid_of_witness (t : Tx) (h : t.hasWitness = true) :
    t.wtxid H ≠ t.txid H ∨ Collision H.sha256d := by
  by_cases he : t.wtxid H = t.txid H
  · refine Or.inr ⟨t.enc, t.encStripped, ?_, he⟩
    intro heq
    have := (enc_eq_encStripped_iff t).1 heq
    simp [h] at this
  · exact Or.inl he

/-- the block hash is the double-SHA256 of the header serialization without the solution /
    signblock witness, dynafed marker bit included -/
theorem block_hash_def (h : BlockHeader) : h.blockHash H = H.sha256d h.hashPreimage := rfl

/-- the preimage is the full serialization of the witness-cleared header minus its final,
    empty witness field (one zero byte) -/
theorem hashPreimage_is_cleared_enc (h : BlockHeader) : h.clearWitness.enc = h.hashPreimage ++ [0] := by
  unfold BlockHeader.clearWitness BlockHeader.enc BlockHeader.hashPreimage BlockHeader.versionWord
  cases hx : h.ext <;>
    simp [ExtData.clearWitness, ExtData.enc, ExtData.encHashed, ExtData.isDynafed, encBytesVec, encBytesVecVec,
      encVec, encVarint]

/-- witness data never changes the block hash -/
theorem block_hash_clear_witness (h : BlockHeader) : h.clearWitness.blockHash H = h.blockHash H := by
  simp only [BlockHeader.blockHash, hashPreimage_clearWitness]

theorem block_hash_witness_irrelevant (a b : BlockHeader) (h : a.clearWitness = b.clearWitness) :
    a.blockHash H = b.blockHash H := by
  rw [← block_hash_clear_witness H a, ← block_hash_clear_witness H b, h]

/-- every other field does (dynafed marker included), or a collision is exhibited -/
theorem block_hash_commits (a b : BlockHeader) (ha : a.wf) (hb : b.wf)
    (h : a.blockHash H = b.blockHash H) : a.clearWitness = b.clearWitness ∨ Collision H.sha256d := by
  by_cases he : a.hashPreimage = b.hashPreimage
  · exact Or.inl (hashPreimage_injective a b ha hb he)
  · exact Or.inr ⟨_, _, he, h⟩

/-- `clear_witness` touches exactly the fields outside the hash preimage -/
theorem clear_witness_exact (h : BlockHeader) :
    h.clearWitness.version = h.version ∧ h.clearWitness.prevBlockhash = h.prevBlockhash ∧
    h.clearWitness.merkleRoot = h.merkleRoot ∧ h.clearWitness.time = h.time ∧
    h.clearWitness.height = h.height ∧ h.clearWitness.ext.isDynafed = h.ext.isDynafed :=
  clearWitness_fields h

/-- non-vacuity: a canonical transaction with a witness exists, and stripping changes it -/
example : let t : Tx := ⟨2, 0, [⟨⟨List.replicate 32 1, 0⟩, false, [], 0, AssetIssuance.null, ⟨none, none, [[1]], []⟩⟩], []⟩
    t.hasWitness = true ∧ stripWit t ≠ t := by decide

/-! ## Genesis blocks and chain hashes (src/genesis.rs — model: EV.Model.Genesis)

  `genesis_block(params)` composes what the sections above are about: two transactions whose `txid`s
  are merkle-ized into a header whose `block_hash` is the chain hash.  `G : GHashes` carries the three
  hash functions as parameters (double SHA-256, the midstate combiner, single SHA-256 of the parameter
  commitment); `Option` results are `none` where the Rust code would panic.
  Hypotheses: `Len32 G` (the hashes return 32 bytes), `ParamsOk p` (`initial_free_coins` is a `u64`, the
  sign-block script is within `MAX_VEC_SIZE`), `SizesFit P` / `SizesPos P` (platform `size_of` facts),
  `P.tweak 0^32` (secp256k1-zkp: "the value 0 is also a valid tweak"). -/
section Genesis
open EV.Genesis EV.Proofs.Genesis

variable (G : GHashes) (p : NetworkParams)

/-! ### (a) structure -/

/-- `genesis_block` never panics -/
theorem genesis_block_total (hl : Len32 G) : ∃ b, genesisBlock G p = some b :=
  genesisBlock_total G p (hl.sha256 _)

/-- the second transaction of the block is exactly what `liquid_genesis_asset_tx` returns (`None` ⇒ absent) … -/
theorem genesis_block_asset_tx (b : Block) (hb : genesisBlock G p = some b) :
    genesisAssetTx G p = some b.txdata[1]? ∧ b.txdata.length ≤ 2 := by
  unfold genesisBlock at hb
  split at hb
  · cases hb
  · split at hb
    · cases hb
    · rename_i heq
      split at hb
      · cases hb
      · cases hb; exact ⟨heq, by simp⟩
    · rename_i heq
      cases hb; exact ⟨heq, by simp⟩

/-- … which is `None` exactly when there are no free coins: 1 or 2 transactions accordingly -/
theorem genesis_tx_count (b : Block) (hb : genesisBlock G p = some b) :
    b.txdata.length = if p.initialFreeCoins = 0 then 1 else 2 := by
  unfold genesisBlock at hb
  split at hb
  · cases hb
  · split at hb
    · cases hb
    · rename_i heq
      have h0 : p.initialFreeCoins ≠ 0 := by
        intro h0; rw [genesisAssetTx_zero G p h0] at heq; cases heq
      split at hb
      · cases hb
      · cases hb; simp [h0]
    · rename_i heq
      have h0 : p.initialFreeCoins = 0 := by
        apply Classical.byContradiction; intro h0; rw [genesisAssetTx_nonzero G p h0] at heq; cases heq
      cases hb; simp [h0]

/-- the header's merkle root is the bitcoin merkle root of the txids of the block's transactions -/
theorem genesis_merkle_root (b : Block) (hb : genesisBlock G p = some b) :
    btcMerkleRoot G.sha256d (b.txdata.map (Tx.txid G.toHashes)) = some b.header.merkleRoot := by
  unfold genesisBlock at hb
  split at hb
  · cases hb
  · split at hb
    · cases hb
    · split at hb
      · cases hb
      · rename_i hroot
        cases hb; exact hroot
    · cases hb; rfl

/-- `bitcoin::merkle_tree::calculate_root`: one hash is its own root, two hashes give the double SHA-256
    of their concatenation, two or more reduce to the root of the pair level (the last hash of an odd
    level is paired with itself), and the computation never fails on a non-empty list -/
theorem btc_merkle_single (h : Bytes → Bytes) (a : Bytes) : btcMerkleRoot h [a] = some a := rfl
theorem btc_merkle_pair (h : Bytes → Bytes) (a b : Bytes) : btcMerkleRoot h [a, b] = some (h (a ++ b)) := rfl
theorem btc_merkle_level (h : Bytes → Bytes) (a b : Bytes) (rest : List Bytes) :
    btcMerkleRoot h (a :: b :: rest) = btcMerkleRoot h (btcPairs h (a :: b :: rest)) := btcMerkleRoot_level h a b rest
theorem btc_merkle_total (h : Bytes → Bytes) (l : List Bytes) (hne : l ≠ []) : ∃ r, btcMerkleRoot h l = some r :=
  btcMerkleRoot_total h l hne
theorem btc_merkle_empty (h : Bytes → Bytes) : btcMerkleRoot h [] = none := rfl

/-- so with one transaction the root is its txid and with two it is `sha256d(txid₀ ‖ txid₁)` -/
theorem genesis_merkle_root_cases (b : Block) (hb : genesisBlock G p = some b) :
    (∃ t, b.txdata = [t] ∧ b.header.merkleRoot = t.txid G.toHashes) ∨
    (∃ t a, b.txdata = [t, a] ∧ b.header.merkleRoot = G.sha256d (t.txid G.toHashes ++ a.txid G.toHashes)) := by
  have hr := genesis_merkle_root G p b hb
  have hc := genesis_tx_count G p b hb
  match htx : b.txdata, hc with
  | [t], _ => rw [htx] at hr; exact Or.inl ⟨t, rfl, (Option.some.inj hr).symm⟩
  | [t, a], _ => rw [htx] at hr; exact Or.inr ⟨t, a, rfl, (Option.some.inj hr).symm⟩
  | [], hc => split at hc <;> simp at hc
  | _ :: _ :: _ :: _, hc => split at hc <;> simp at hc

/-- the rest of the header: no previous block, height 0, the extracted time and version, the sign-block
    script as challenge and an empty solution — so the chain hash is `block_hash_def` of this header -/
theorem genesis_header (b : Block) (hb : genesisBlock G p = some b) :
    b.header = genesisHeader p b.header.merkleRoot ∧
    b.header.prevBlockhash = List.replicate 32 0 ∧ b.header.height = 0 ∧
    b.header.time = EV.Gen.genesisHeaderTime ∧ b.header.ext = .proof p.signBlockScript [] := by
  unfold genesisBlock at hb
  split at hb
  · cases hb
  · split at hb
    · cases hb
    · split at hb
      · cases hb
      · cases hb; exact ⟨rfl, prev_zero, height_zero, rfl, rfl⟩
    · cases hb; exact ⟨rfl, prev_zero, height_zero, rfl, rfl⟩

theorem chain_hash_def (b : Block) (hb : genesisBlock G p = some b) :
    chainHash G p = some (G.sha256d b.header.hashPreimage) := by
  simp only [chainHash, hb, Option.map_some, BlockHeader.blockHash]

/-- the first transaction is coinbase-like: one input with the null outpoint, no pegin, no issuance, no
    witness, whose scriptSig is the 32-byte push (opcode 0x20) of the parameter commitment; one
    unspendable (`OP_RETURN`) output of value 0 -/
theorem genesis_coinbase (hl : Len32 G) (b : Block) (hb : genesisBlock G p = some b) :
    ∃ t rest i o, b.txdata = t :: rest ∧ genesisTx G p = some t ∧ t.input = [i] ∧ t.output = [o] ∧
      i.previousOutput = OutPoint.null ∧ i.scriptSig = 0x20 :: commit G.sha256 p ∧
      i.isPegin = false ∧ i.hasIssuance = false ∧ t.hasWitness = false ∧
      o.scriptPubkey = [EV.Gen.opReturn] ∧ o.value = .explicit 0 := by
  have hc : (commit G.sha256 p).length = 32 := hl.sha256 _
  by_cases h0 : p.initialFreeCoins = 0
  · rw [genesisBlock_zero G p hc h0] at hb; cases hb
    exact ⟨_, _, _, _, rfl, genesisTx_eq G p hc, rfl, rfl, rfl, rfl, rfl, rfl, rfl, by decide, by decide⟩
  · rw [genesisBlock_nonzero G p hc h0] at hb; cases hb
    exact ⟨_, _, _, _, rfl, genesisTx_eq G p hc, rfl, rfl, rfl, rfl, rfl, rfl, rfl, by decide, by decide⟩

/-- bridge to the script model (C16): that scriptSig, read by `Script::instructions()` /
    `instructions_minimal()`, is exactly one data push of the commitment -/
theorem genesis_script_sig_parses (hl : Len32 G) :
    EV.Script.instructions (0x20 :: commit G.sha256 p) = ([.push (commit G.sha256 p)], none) ∧
    EV.Script.instructionsMinimal (0x20 :: commit G.sha256 p) = ([.push (commit G.sha256 p)], none) :=
  ⟨push32_parses _ (hl.sha256 _) false, push32_parses _ (hl.sha256 _) true⟩

/-! ### (b) the asset transaction is a self-consistent issuance -/

/-- the asset of its single output is the asset id that the C11 model (`TxIn::issuance_ids`, equally
    `AssetId::new_issuance` with the zero contract hash) derives for its own single input; the issued
    amount equals the output amount, which is `initial_free_coins`; the input spends output 0 of the
    parameter commitment read as a txid -/
theorem genesis_asset_tx_self_consistent (t : Tx) (ht : genesisAssetTx G p = some (some t)) :
    ∃ i o id, t.input = [i] ∧ t.output = [o] ∧
      (i.issuanceIds G.toHashes).map Prod.fst = some id ∧ o.asset = .explicit id ∧
      Issuance.newIssuance G.toHashes i.previousOutput (List.replicate 32 0) = some id ∧
      i.assetIssuance.amount = o.value ∧ o.value = .explicit p.initialFreeCoins ∧
      i.previousOutput = ⟨commit G.sha256 p, 0⟩ ∧ i.hasIssuance = true ∧ i.isPegin = false ∧
      t.hasWitness = false := by
  have h0 : p.initialFreeCoins ≠ 0 := by
    intro h0; rw [genesisAssetTx_zero G p h0] at ht; cases ht
  rw [genesisAssetTx_nonzero G p h0] at ht
  cases ht
  obtain ⟨i, o, h1, h2, h3, h4, h5, h6, h7, h8, h9, h10⟩ :=
    assetTx_ids G.toHashes (commit G.sha256 p) p.initialFreeCoins
  exact ⟨i, o, _, h1, h2, h3, h4, h5, h6, h7, by rw [h8]; rfl, h9, h10, rfl⟩

/-! ### (c) well-formedness: the C01 round trip applies -/

/-- the genesis block and its transactions are canonical values of the C01 codec model … -/
theorem genesis_block_wf (hl : Len32 G) (hp : ParamsOk p) (ht : P.tweak (List.replicate 32 0) = true)
    (hf : SizesFit P) (b : Block) (hb : genesisBlock G p = some b) : b.wf P :=
  genesisBlock_wf G p P hl hp ht hf b hb

/-- … hence (C01 `block_laws`, `tx_laws`) the consensus encoding of the block decodes back to it, stopping
    exactly at its end, and so does every transaction in it -/
theorem genesis_block_roundtrip (hl : Len32 G) (hp : ParamsOk p) (ht : P.tweak (List.replicate 32 0) = true)
    (hs : SizesPos P) (hf : SizesFit P) (b : Block) (hb : genesisBlock G p = some b) (r : Bytes) :
    Block.dec P (b.enc ++ r) = .ok (b, r) :=
  (block_lawful P hs).complete b r (genesisBlock_wf G p P hl hp ht hf b hb)

theorem genesis_tx_roundtrip (hl : Len32 G) (hp : ParamsOk p) (ht : P.tweak (List.replicate 32 0) = true)
    (hs : SizesPos P) (hf : SizesFit P) (b : Block) (hb : genesisBlock G p = some b) :
    ∀ t ∈ b.txdata, Tx.deserialize P t.enc = .ok t := by
  intro t htm
  have hw := (genesisBlock_wf G p P hl hp ht hf b hb).2.2 t htm
  have := (tx_lawful P hs).complete t [] hw
  simp only [List.append_nil] at this
  simp [Tx.deserialize, this]

/-- the hypotheses are satisfiable (constant 32-byte hashes, both built-in networks, a trivial `Prims`) -/
example : Len32 constHashes ∧ ParamsOk NetworkParams.liquidv1 ∧ ParamsOk NetworkParams.liquidtestnet ∧
    P0.tweak (List.replicate 32 0) = true ∧ SizesPos P0 ∧ SizesFit P0 :=
  ⟨constHashes_len32, liquidv1_ok, liquidtestnet_ok, rfl, P0_pos, P0_fit⟩

/-- … and so are the premises `genesisBlock G p = some b` (both shapes) and `genesisAssetTx G p = some (some t)` -/
example : ∃ b, genesisBlock constHashes NetworkParams.liquidv1 = some b ∧ b.txdata.length = 1 := by
  obtain ⟨b, hb⟩ := genesis_block_total constHashes NetworkParams.liquidv1 constHashes_len32
  exact ⟨b, hb, by rw [genesis_tx_count _ _ b hb]; decide⟩
example : ∃ b, genesisBlock constHashes NetworkParams.liquidtestnet = some b ∧ b.txdata.length = 2 := by
  obtain ⟨b, hb⟩ := genesis_block_total constHashes NetworkParams.liquidtestnet constHashes_len32
  exact ⟨b, hb, by rw [genesis_tx_count _ _ b hb]; decide⟩
example : ∃ t, genesisAssetTx constHashes NetworkParams.liquidtestnet = some (some t) :=
  ⟨_, genesisAssetTx_nonzero _ _ (by decide)⟩

/-! ### (d) what the commitment and the chain hash depend on -/

/-- the commitment is the SHA-256 of: network id ‖ lower-case hex of the fedpeg script ‖ lower-case hex
    of the sign-block script — nothing else (not the free coins), no separators -/
theorem commit_def (S : Bytes → Bytes) :
    commit S p = S (p.networkId ++ hexAscii p.fedpegScript ++ hexAscii p.signBlockScript) := rfl

/-- where the hex feed is the lower-case hex string of EV.Model.Text (C20), char by char as ASCII -/
theorem hex_feed_is_lower_hex (bs : Bytes) :
    hexAscii bs = (EV.Text.hexStr bs).map (fun c => UInt8.ofNat c.toNat) := hexAscii_eq_hexStr bs

theorem commit_depends_only (S : Bytes → Bytes) (q : NetworkParams) (hid : p.networkId = q.networkId)
    (hf : hexAscii p.fedpegScript = hexAscii q.fedpegScript)
    (hs : hexAscii p.signBlockScript = hexAscii q.signBlockScript) : commit S p = commit S q := by
  simp only [commit, commitPreimage, hid, hf, hs]

/-- equal commitments: equal hashed strings, or a SHA-256 collision … -/
theorem commit_commits (S : Bytes → Bytes) (q : NetworkParams) (h : commit S p = commit S q) :
    commitPreimage p = commitPreimage q ∨ Collision S := by
  by_cases he : commitPreimage p = commitPreimage q
  · exact Or.inl he
  · exact Or.inr ⟨_, _, he, h⟩

/-- … and the hashed string determines both scripts once the network id and the length of the fedpeg
    script are fixed (the hex feed is injective) … -/
theorem commit_preimage_injective (q : NetworkParams) (hid : p.networkId = q.networkId)
    (hlen : p.fedpegScript.length = q.fedpegScript.length) (h : commitPreimage p = commitPreimage q) :
    p.fedpegScript = q.fedpegScript ∧ p.signBlockScript = q.signBlockScript :=
  commitPreimage_inj p q hid hlen h

/-- … but not in general: without separators, hex digits can move between the network id and the
    fedpeg script (as in Elements Core, whose commitment this reproduces) -/
theorem commit_split_ambiguity : ∃ a b : NetworkParams, a ≠ b ∧ ∀ S, commit S a = commit S b :=
  ⟨⟨[0x61, 0x62], [], [], 0⟩, ⟨[], [0xab], [], 0⟩, by decide, fun _ => rfl⟩

/-- the genesis block, hence the chain hash, is a function of the commitment, the sign-block script and
    the free coins: parameter sets that agree on those three give the same block -/
theorem chain_hash_depends_only (q : NetworkParams) (hc : commit G.sha256 p = commit G.sha256 q)
    (hs : p.signBlockScript = q.signBlockScript) (hn : p.initialFreeCoins = q.initialFreeCoins) :
    genesisBlock G p = genesisBlock G q ∧ chainHash G p = chainHash G q := by
  have h1 : genesisTx G p = genesisTx G q := by simp only [genesisTx, hc]
  have h2 : genesisAssetTx G p = genesisAssetTx G q := by simp only [genesisAssetTx, hc, hn]
  have h3 : ∀ r, genesisHeader p r = genesisHeader q r := fun r => by simp only [genesisHeader, hs]
  have h4 : genesisBlock G p = genesisBlock G q := by simp only [genesisBlock, h1, h2, h3]
  exact ⟨h4, by simp only [chainHash, h4]⟩

/-- non-vacuity: two different parameter sets that agree on (commitment, sign-block script, coins) exist -/
example : ∃ a b : NetworkParams, a ≠ b ∧ chainHash constHashes a = chainHash constHashes b :=
  ⟨⟨[0x61, 0x62], [], [], 0⟩, ⟨[], [0xab], [], 0⟩, by decide, (chain_hash_depends_only _ _ _ rfl rfl rfl).2⟩

/-- conversely the genesis txid commits to the commitment: parameter sets with different commitments
    have different genesis txids, or a double-SHA-256 collision is exhibited -/
theorem genesis_txid_commits (hl : Len32 G) (q : NetworkParams) (tp tq : Tx)
    (hp : genesisTx G p = some tp) (hq : genesisTx G q = some tq) (h : tp.txid G.toHashes = tq.txid G.toHashes) :
    commit G.sha256 p = commit G.sha256 q ∨ Collision G.sha256d := by
  rw [genesisTx_eq G p (hl.sha256 _)] at hp
  rw [genesisTx_eq G q (hl.sha256 _)] at hq
  cases hp; cases hq
  exact coinbase_txid_commits P0 G.toHashes P0_pos P0_fit _ _ (hl.sha256 _) (hl.sha256 _) h

/-- and so does the chain hash, together with the sign-block script and the free coins: equal chain
    hashes imply equal (commitment, sign-block script, free coins), or a double-SHA-256 collision -/
theorem chain_hash_commits (hl : Len32 G) (q : NetworkParams) (hp : ParamsOk p) (hq : ParamsOk q)
    (h : chainHash G p = chainHash G q) :
    (commit G.sha256 p = commit G.sha256 q ∧ p.signBlockScript = q.signBlockScript ∧
      p.initialFreeCoins = q.initialFreeCoins) ∨ Collision G.sha256d :=
  chainHash_commits G hl p q hp hq h

/-! ### (e) the pinned chain hashes, checked by the kernel -/

/-- running the model on the parameter sets extracted from `NetworkParams::liquidv1()` /
    `liquidtestnet()` with the kernel-evaluable SHA-256 (EV.Model.Sha256K, compared with bitcoin_hashes by
    the K op `shak`) gives exactly the extracted `ChainHash::LIQUIDV1` / `ChainHash::LIQUIDTESTNET`
    (`decide +kernel`, in EV.Proofs.GenesisKernel) -/
theorem chain_hash_liquidv1 :
    chainHash EV.Proofs.GenesisKernel.kernelHashes NetworkParams.liquidv1 = some chainHashLiquidv1 :=
  EV.Proofs.GenesisKernel.chainHash_liquidv1

theorem chain_hash_liquidtestnet :
    chainHash EV.Proofs.GenesisKernel.kernelHashes NetworkParams.liquidtestnet = some chainHashLiquidtestnet :=
  EV.Proofs.GenesisKernel.chainHash_liquidtestnet

end Genesis

end EV.Props.C02
