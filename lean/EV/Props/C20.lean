/-
  C20 — serde and textual forms round-trip in self-describing formats.

  Scope (DESIGN §2 C20): (a) every `Display`/`FromStr` pair and (b) every HAND-WRITTEN serde impl of
  rust-elements, over the models `EV.Model.Text` and `EV.Model.Serde` (serde data model `SVal`, what a
  self-describing format forgets: `lossy`). and (c) every `#[derive(Serialize, Deserialize)]`
  item (the PSET maps, `TxOutSecrets`, `TapTree`, `ControlBlock`, `SchnorrSig`, …) through the table-driven
  interpreter `EV.Model.SerdeDerive` (section (c) below; the serde impls of third-party leaf types are the
  hypothesis `DepsLawful`). The concrete byte syntax of serde_json / serde_cbor stays OUTSIDE the model: it is
  exercised on the real code only (harness S stream). The hand-written summary keeps its historical name
  `serde_roundtrip_handwritten_partial`; `serde_roundtrip_all` combines it with the derived items.

  `h` is `is_human_readable()`, `f` the format; `compatible h f` excludes the one impossible combination
  (a format that forgets byte strings, JSON, is always human readable). `P : Prims` are the parse-acceptance
  predicates of secp256k1-zkp (parameters). Text is `List Char`; `String.ofList`/`toList` convert.
-/
import EV.Proofs.Text
import EV.Proofs.Serde
import EV.Proofs.SerdeUtils
import EV.Proofs.PsetWireTop
import EV.Proofs.SerdeDerive
namespace EV.Props.C20
open EV EV.Text EV.Serde

/-! ## (a) Display / FromStr -/

/-- decimal printing of a `u32` parses back (`str::parse::<u32>`: no overflow on any prefix) -/
theorem text_roundtrip_u32 (n : Nat) (h : n < 2^32) : parseU32 (showNat n) = .ok n := parseU32_showNat n h

/-- the same for any radix 2..16 and any unsigned width (`u64` decimal, `u32` radix 16, …) -/
theorem text_roundtrip_uint (b B n : Nat) (hb2 : 2 ≤ b) (hb : b ≤ 16) (h : n < B) :
    parseUInt b B (showBase b n) = .ok n := parseUInt_showBase b B n hb2 hb h

/-- lower-case hex of any byte string decodes back (`hex::decode_to_vec`) -/
theorem text_roundtrip_hex (bs : Bytes) : unhex (hexStr bs) = .ok bs := unhex_hexStr bs

/-- every hash newtype and sha256-midstate wrapper (`Txid`, `Wtxid`, `BlockHash`, `TxMerkleNode`,
    `ContractHash`, `AssetId`, `AssetEntropy`, `DynafedRoot`, `ParamsRoot`, `ElidedRoot` — reversed hex;
    `WScriptHash`, `ScriptHash`, `TapLeafHash`, `TapNodeHash`, `TapTweakHash`, `PubkeyHash`, `WPubkeyHash` —
    forward hex): `from_str(to_string(x)) = x`, whatever the direction and length of the kind -/
theorem text_roundtrip_hash (k : HashKind) (b : Bytes) (h : b.length = k.len) :
    hashParse k (hashShow k b) = .ok b := hashParse_hashShow k b h

/-- … in particular for every kind of the table the driver and the harness agree on -/
theorem text_roundtrip_hash_table : ∀ p ∈ hashKinds, ∀ b : Bytes, b.length = p.2.len →
    hashParse p.2 (hashShow p.2 b) = .ok b := fun p _ b h => hashParse_hashShow p.2 b h

/-- `AssetBlindingFactor` / `ValueBlindingFactor` (reversed hex; a value of the type is a valid tweak) -/
theorem text_roundtrip_blinding_factor (P : Prims) (b : Bytes) (hl : b.length = 32) (ht : P.tweak b = true) :
    bfParse P.tweak (bfShow b) = .ok b := bfParse_bfShow P.tweak b hl ht

/-- `LockTime` (`from_consensus` is total on `u32`) -/
theorem text_roundtrip_locktime (n : Nat) (h : n < 2^32) : lockTimeParse (showNat n) = .ok n := parseU32_showNat n h

/-- `Height`: values of the type are below `LOCK_TIME_THRESHOLD` -/
theorem text_roundtrip_height (n : Nat) (h : n < Gen.lockTimeThreshold) : heightParse (showNat n) = .ok n :=
  heightParse_showNat n h

/-- `Time`: values of the type are at or above `LOCK_TIME_THRESHOLD` -/
theorem text_roundtrip_time (n : Nat) (h : Gen.lockTimeThreshold ≤ n) (h32 : n < 2^32) :
    timeParse (showNat n) = .ok n := timeParse_showNat n h h32

/-- `Sequence` -/
theorem text_roundtrip_sequence (n : Nat) (h : n < 2^32) : sequenceParse (showNat n) = .ok n := parseU32_showNat n h

/-- `OutPoint`: `[elements]txid:vout` parses back (one colon, ≤ 75 bytes after the prefix, canonical vout) -/
theorem text_roundtrip_outpoint (o : OutPoint) (ht : o.txid.length = 32) (hv : o.vout < 2^32) :
    outPointParse (outPointShow o) = .ok o := outPointParse_outPointShow o ht hv

/-- the `[elements]` prefix is optional on parse -/
theorem outpoint_prefix_optional (o : OutPoint) (ht : o.txid.length = 32) (hv : o.vout < 2^32) :
    outPointParse (hashShow kTxid o.txid ++ ':' :: showNat o.vout) = .ok o := outPointParse_bare o ht hv

/-- `EcdsaSighashType`: every `Display` string is a `FromStr` arm naming the same variant (tables
    regenerated from src/transaction.rs) -/
theorem text_roundtrip_ecdsa_sighash (v : Nat) (s : String) (h : ecdsaShow v = some s) : ecdsaParse s = .ok v :=
  ecdsaParse_ecdsaShow v s h

/-- `SchnorrSighashType` (tables regenerated from src/sighash.rs), `Reserved` included -/
theorem text_roundtrip_schnorr_sighash (v : Nat) (s : String) (h : schnorrShow v = some s) : schnorrParse s = .ok v :=
  schnorrParse_schnorrShow v s h

/-- every variant of both enums has a `Display` arm (so the two theorems above are not vacuous) -/
theorem sighash_display_total :
    (∀ p ∈ Gen.ecdsaSighashDisplay, ecdsaShow p.1 = some p.2) ∧
    (∀ p ∈ Gen.schnorrSighashDisplay, schnorrShow p.1 = some p.2) := ⟨ecdsa_display_total, schnorr_display_total⟩

/-- `PsbtSighashType`, for EVERY `u32`: a Schnorr name where `from_u8` has one, else `0x…` hex, which the
    parser reads back after trimming `0x` -/
theorem text_roundtrip_psbt_sighash (n : Nat) (h : n < 2^32) : psbtParse (psbtShow n) = .ok n := psbtParse_psbtShow n h

/-- standard base64 with padding: `decode (encode bs) = bs` for all byte strings -/
theorem base64_roundtrip (bs : Bytes) : b64Dec (b64Enc bs) = .ok bs := b64Dec_b64Enc bs

/-- PSET `to_string` / `from_str`: base64 around the binary codec; it round-trips exactly when the binary
    codec does on that PSET (that premise is property C07; discharged in `text_roundtrip_pset_wf` below) -/
theorem text_roundtrip_pset {α} (ser : α → Bytes) (de : Bytes → Res α) (p : α) (h : de (ser p) = .ok p) :
    psetParse de (psetShow ser p) = .ok p := psetParse_psetShow ser de p h

/-- PSET `to_string` / `from_str`, UNCONDITIONAL (C20 × C07). Composes the text model of this property
    (`EV.Model.Text`: `psetShow` / `psetParse`, standard base64 around a binary codec) with the binary PSET
    codec model of property C07 (`EV.Model.PsetSer`: `Pset.serialize` / `Pset.deserialize` on the in-memory
    `Pset` of `EV.Model.Pset`, dependency validity as the parameter `W : WirePrims`): the premise of
    `text_roundtrip_pset` is discharged by C07's binary round trip
    (`EV.Proofs.PsetWireTop.pset_roundtrip`, exported as `EV.Props.C07.pset_roundtrip`), so for every
    well-formed PSET (C07's class `WfPset`, which is exactly what the decoder produces) parsing its base64
    text gives back the same PSET.  (`EV.Props.C07.base64_roundtrip` is this statement on the C07 side; C07
    imports this file, so the corollary here goes through the shared proof module.) -/
theorem text_roundtrip_pset_wf (W : PsetWire.WirePrims) (p : Pset) (h : EV.Proofs.PsetWireTop.WfPset W p) :
    psetParse (Pset.deserialize W) (psetShow (Pset.serialize W) p) = .ok p :=
  text_roundtrip_pset (Pset.serialize W) (Pset.deserialize W) p (EV.Proofs.PsetWireTop.pset_roundtrip W p h)

/-- … and every text `from_str` accepts parses, after `to_string`, to the same PSET again (the decoder's
    results are well-formed: C07 `dec_wf`) -/
theorem text_fixpoint_pset (W : PsetWire.WirePrims) (cs : Str) (p : Pset) (h : psetParse (Pset.deserialize W) cs = .ok p) :
    psetParse (Pset.deserialize W) (psetShow (Pset.serialize W) p) = .ok p := by
  unfold psetParse at h
  cases hb : b64Dec cs with
  | ok b => rw [hb] at h; exact text_roundtrip_pset_wf W p (EV.Proofs.PsetWireTop.pset_dec_wf W b p h)
  | err e => rw [hb] at h; cases h
  | panic m => rw [hb] at h; cases h

/- `Script` has `Display` (asm) but no `FromStr`; `confidential::{Value, Asset, Nonce}` have `Display` only. -/

/-! ## (b) hand-written serde impls -/

/-- THE GENERIC STRUCT LEMMA (`serde_struct_impl!`, `ExtData`, `Params`, non-human `OutPoint`): a struct whose
    field names are pairwise distinct is serialized as a map of its fields; after the `visit_map` loop the slot
    of each field holds that field's own parse — so a struct round-trips as soon as each field does -/
theorem serde_struct_field {α} (f : Fmt) (n : String) (p : SVal → Res α) (fs : List (String × SVal)) (v : SVal) (a : α)
    (hnd : (fs.map Prod.fst).Nodup) (hm : (n, v) ∈ fs) (hp : p (lossy f v) = .ok a) :
    field n p (lossyF f fs) = .ok a ∧ keysOk (lossyF f fs) = true :=
  ⟨field_lossyF f n p fs v a hnd hm hp, keysOk_lossyF f fs⟩

/-- a field that is not serialized leaves its slot empty (how `ExtData` / `Params` pick their variant) -/
theorem serde_struct_field_absent {α} (f : Fmt) (n : String) (p : SVal → Res α) (fs : List (String × SVal))
    (h : n ∉ fs.map Prod.fst) : fieldOpt n p (lossyF f fs) = .ok .none := fieldOpt_absent f n p fs h

/-- `Vec<T>` round-trips when its elements do -/
theorem serde_roundtrip_vec {α} (f : Fmt) (t : α → SVal) (p : SVal → Res α) (l : List α)
    (h : ∀ a ∈ l, p (lossy f (t a)) = .ok a) : ofSeq p (lossy f (.seq (l.map t))) = .ok l := ofSeq_rt f t p l h

theorem serde_roundtrip_value (P : Prims) (h : Bool) (f : Fmt) (hc : compatible h f) (v : Value) (hv : Value.ok P v) :
    Value.ofS P h (lossy f (Value.toS h v)) = .ok v := value_rt P h f hc v hv

theorem serde_roundtrip_asset (P : Prims) (h : Bool) (f : Fmt) (hc : compatible h f) (v : Asset) (hv : Asset.ok P v) :
    Asset.ofS P h (lossy f (Asset.toS h v)) = .ok v := asset_rt P h f hc v hv

/-- `Nonce` even round-trips in all four combinations (it never emits a byte string) -/
theorem serde_roundtrip_nonce (P : Prims) (h : Bool) (f : Fmt) (v : Nonce) (hv : Nonce.ok P v) :
    Nonce.ofS P h (lossy f (Nonce.toS h v)) = .ok v := nonce_rt P h f v hv

theorem serde_roundtrip_blinding_factor (P : Prims) (h : Bool) (f : Fmt) (hc : compatible h f) (b : Bytes)
    (hv : BlindingFactor.ok P b) : BlindingFactor.ofS P h (lossy f (BlindingFactor.toS h b)) = .ok b :=
  blindingFactor_rt P h f hc b hv

/-- hash newtypes and `impl_sha256_midstate_wrapper!` types (the latter "cheat" through `sha256d::Hash`) -/
theorem serde_roundtrip_hash (k : HashKind) (h : Bool) (f : Fmt) (hc : compatible h f) (b : Bytes) (hl : b.length = k.len) :
    ofHash k h (lossy f (sHash k h b)) = .ok b := ofHash_rt k h f hc b hl

/-- `Script`: a hex string in both modes -/
theorem serde_roundtrip_script (f : Fmt) (b : Bytes) : ofScript (lossy f (sScript b)) = .ok b := ofScript_rt f b

/-- `serde_string_impl!` and `Address`: serde round-trips whenever the text form does -/
theorem serde_roundtrip_string_impl {α} (f : Fmt) (parse : String → Res α) (s : String) (a : α) (h : parse s = .ok a) :
    stringOfS parse (lossy f (stringToS s)) = .ok a := string_rt f parse s a h

theorem serde_roundtrip_ecdsa_sighash (f : Fmt) (v : Nat) (s : String) (h : ecdsaShow v = some s) :
    stringOfS ecdsaParse (lossy f (stringToS s)) = .ok v := string_rt f _ s v (ecdsaParse_ecdsaShow v s h)

theorem serde_roundtrip_schnorr_sighash (f : Fmt) (v : Nat) (s : String) (h : schnorrShow v = some s) :
    stringOfS schnorrParse (lossy f (stringToS s)) = .ok v := string_rt f _ s v (schnorrParse_schnorrShow v s h)

theorem serde_roundtrip_psbt_sighash (f : Fmt) (n : Nat) (h : n < 2^32) :
    stringOfS psbtParse (lossy f (stringToS (psbtShow n))) = .ok n := string_rt f _ _ n (psbtParse_psbtShow n h)

/-- `OutPoint` (`serde_struct_human_string_impl!`): string when human readable, struct otherwise -/
theorem serde_roundtrip_outpoint (h : Bool) (f : Fmt) (hc : compatible h f) (o : OutPoint) (hv : OutPoint.ok o) :
    OutPoint.ofS h (lossy f (OutPoint.toS h o)) = .ok o := outPoint_rt h f hc o hv

theorem serde_roundtrip_issuance (P : Prims) (h : Bool) (f : Fmt) (hc : compatible h f) (i : AssetIssuance)
    (hv : AssetIssuance.ok P i) : AssetIssuance.ofS P h (lossy f (AssetIssuance.toS h i)) = .ok i :=
  issuance_rt P h f hc i hv

theorem serde_roundtrip_txin_witness (P : Prims) (h : Bool) (f : Fmt) (hc : compatible h f) (w : TxInWitness)
    (hv : TxInWitness.ok P w) : TxInWitness.ofS P h (lossy f (TxInWitness.toS h w)) = .ok w :=
  txInWitness_rt P h f hc w hv

theorem serde_roundtrip_txout_witness (P : Prims) (h : Bool) (f : Fmt) (hc : compatible h f) (w : TxOutWitness)
    (hv : TxOutWitness.ok P w) : TxOutWitness.ofS P h (lossy f (TxOutWitness.toS h w)) = .ok w :=
  txOutWitness_rt P h f hc w hv

/-- the derived impls of `Sequence` and `LockTime` as far as `TxIn` / `Transaction` need them -/
theorem serde_roundtrip_sequence (f : Fmt) (n : Nat) (h : n < 2^32) : ofSequence (lossy f (sSequence n)) = .ok n :=
  sequence_rt f n h
theorem serde_roundtrip_locktime (f : Fmt) (n : Nat) (h : n < 2^32) : ofLockTime (lossy f (sLockTime n)) = .ok n :=
  lockTime_rt f n h

theorem serde_roundtrip_txin (P : Prims) (h : Bool) (f : Fmt) (hc : compatible h f) (i : TxIn) (hv : TxIn.ok P i) :
    TxIn.ofS P h (lossy f (TxIn.toS h i)) = .ok i := txIn_rt P h f hc i hv

theorem serde_roundtrip_txout (P : Prims) (h : Bool) (f : Fmt) (hc : compatible h f) (o : TxOut) (hv : TxOut.ok P o) :
    TxOut.ofS P h (lossy f (TxOut.toS h o)) = .ok o := txOut_rt P h f hc o hv

/-- `Transaction`, any number of inputs and outputs -/
theorem serde_roundtrip_transaction (P : Prims) (h : Bool) (f : Fmt) (hc : compatible h f) (t : Tx) (hv : Tx.ok P t) :
    Tx.ofS P h (lossy f (Tx.toS h t)) = .ok t := tx_rt P h f hc t hv

/-- `dynafed::Params`: the variant is recovered from which fields are present -/
theorem serde_roundtrip_params (h : Bool) (f : Fmt) (hc : compatible h f) (p : Params) (hv : Params.ok p) :
    Params.ofS h (lossy f (Params.toS h p)) = .ok p := params_rt h f hc p hv

theorem serde_roundtrip_extdata (h : Bool) (f : Fmt) (hc : compatible h f) (x : ExtData) (hv : ExtData.ok x) :
    ExtData.ofS h (lossy f (ExtData.toS h x)) = .ok x := extData_rt h f hc x hv

theorem serde_roundtrip_header (h : Bool) (f : Fmt) (hc : compatible h f) (b : BlockHeader) (hv : BlockHeader.ok b) :
    BlockHeader.ofS h (lossy f (BlockHeader.toS h b)) = .ok b := blockHeader_rt h f hc b hv

theorem serde_roundtrip_block (P : Prims) (h : Bool) (f : Fmt) (hc : compatible h f) (b : Block) (hv : Block.ok P b) :
    Block.ofS P h (lossy f (Block.toS h b)) = .ok b := block_rt P h f hc b hv

/-- the canonical transactions of C01 (`Tx.wf`) are in the domain: JSON … -/
theorem serde_roundtrip_transaction_json (P : Prims) (hz : P.tweak AssetIssuance.zero32 = true) (t : Tx) (hv : t.wf P) :
    Tx.ofS P true (lossy .json (Tx.toS true t)) = .ok t :=
  tx_rt P true .json (fun _ => rfl) t (tx_ok_of_wf P hz t hv)

/-- … and CBOR -/
theorem serde_roundtrip_transaction_cbor (P : Prims) (hz : P.tweak AssetIssuance.zero32 = true) (t : Tx) (hv : t.wf P) :
    Tx.ofS P false (lossy .cbor (Tx.toS false t)) = .ok t :=
  tx_rt P false .cbor (fun h => by cases h) t (tx_ok_of_wf P hz t hv)

/-- the canonical blocks of C01, both formats -/
theorem serde_roundtrip_block_wf (P : Prims) (hz : P.tweak AssetIssuance.zero32 = true) (b : Block) (hv : b.wf P) :
    Block.ofS P true (lossy .json (Block.toS true b)) = .ok b ∧
    Block.ofS P false (lossy .cbor (Block.toS false b)) = .ok b :=
  ⟨block_rt P true .json (fun _ => rfl) b (block_ok_of_wf P hz b hv),
   block_rt P false .cbor (fun h => by cases h) b (block_ok_of_wf P hz b hv)⟩

/-- the excluded combination really fails: a non-human-readable impl that emits a byte string cannot read it
    back from a format that turned it into an array of numbers (no such format crate exists: JSON is human
    readable) -/
theorem incompatible_combination_fails :
    ofHash kTxid false (lossy .json (sHash kTxid false (List.replicate 32 0))) ≠ .ok (List.replicate 32 0) := by
  simp [sHash, lossy, ofHash]

/-! ### `src/serde_utils.rs` (hand-written helpers used by the derived PSET impls) -/

/-- `serde_utils::hex_bytes` -/
theorem serde_roundtrip_hex_bytes (h : Bool) (f : Fmt) (b : Bytes) : HexBytes.ofS h (lossy f (HexBytes.toS h b)) = .ok b :=
  hexBytes_rt h f b

/-- `serde_utils::btreemap_byte_values`, generic in the key codec: a map (pairwise distinct keys) round-trips
    when its keys do -/
theorem serde_roundtrip_btreemap_byte_values {κ} [DecidableEq κ] (h : Bool) (f : Fmt) (tk : κ → SVal) (pk : SVal → Res κ)
    (m : List (κ × Bytes)) (hnd : (m.map Prod.fst).Nodup) (hk : ∀ e ∈ m, pk (lossy f (tk e.1)) = .ok e.1) :
    ByteValues.ofS h pk (lossy f (ByteValues.toS h tk m)) = .ok m := byteValues_rt h f tk pk m hnd hk

/-- … e.g. the four hash → preimage maps of `pset::Input` -/
theorem serde_roundtrip_preimage_map (k : HashKind) (h : Bool) (f : Fmt) (hc : compatible h f) (m : List (Bytes × Bytes))
    (hnd : (m.map Prod.fst).Nodup) (hl : ∀ e ∈ m, e.1.length = k.len) :
    ByteValues.ofS h (ofHash k h) (lossy f (ByteValues.toS h (sHash k h) m)) = .ok m :=
  byteValues_rt h f (sHash k h) (ofHash k h) m hnd (fun e he => ofHash_rt k h f hc e.1 (hl e he))

/-- `serde_utils::btreemap_as_seq`, generic in both codecs -/
theorem serde_roundtrip_btreemap_as_seq {κ ν} [DecidableEq κ] (h : Bool) (f : Fmt) (tk : κ → SVal) (tv : ν → SVal)
    (pk : SVal → Res κ) (pv : SVal → Res ν) (m : List (κ × ν)) (hnd : (m.map Prod.fst).Nodup)
    (hk : ∀ e ∈ m, pk (lossy f (tk e.1)) = .ok e.1) (hv : ∀ e ∈ m, pv (lossy f (tv e.2)) = .ok e.2) :
    AsSeq.ofS h pk pv (lossy f (AsSeq.toS h tk tv m)) = .ok m := asSeq_rt h f tk tv pk pv m hnd hk hv

/-- `serde_utils::btreemap_as_seq_byte_values`, generic in the key codec -/
theorem serde_roundtrip_btreemap_as_seq_byte_values {κ} [DecidableEq κ] (h : Bool) (f : Fmt) (tk : κ → SVal)
    (pk : SVal → Res κ) (m : List (κ × Bytes)) (hnd : (m.map Prod.fst).Nodup)
    (hk : ∀ e ∈ m, pk (lossy f (tk e.1)) = .ok e.1) :
    AsSeqByteValues.ofS h pk (lossy f (AsSeqByteValues.toS h tk m)) = .ok m := asSeqByteValues_rt h f tk pk m hnd hk

/-- `pset::raw::Key` and `pset::raw::ProprietaryKey` (derived structs with `hex_bytes` fields) -/
theorem serde_roundtrip_raw_key (h : Bool) (f : Fmt) (k : RawKey) (hv : RawKey.ok k) :
    RawKey.ofS h (lossy f (RawKey.toS h k)) = .ok k := rawKey_rt h f k hv
theorem serde_roundtrip_proprietary_key (h : Bool) (f : Fmt) (k : PropKey) (hv : PropKey.ok k) :
    PropKey.ofS h (lossy f (PropKey.toS h k)) = .ok k := propKey_rt h f k hv

/-- the `unknown` and `proprietary` maps of the PSET maps -/
theorem serde_roundtrip_unknown_map (h : Bool) (f : Fmt) (m : List (RawKey × Bytes)) (hnd : (m.map Prod.fst).Nodup)
    (hv : ∀ e ∈ m, RawKey.ok e.1) :
    AsSeqByteValues.ofS h (RawKey.ofS h) (lossy f (AsSeqByteValues.toS h (RawKey.toS h) m)) = .ok m :=
  asSeqByteValues_rt h f _ _ m hnd (fun e he => rawKey_rt h f e.1 (hv e he))
theorem serde_roundtrip_proprietary_map (h : Bool) (f : Fmt) (m : List (PropKey × Bytes)) (hnd : (m.map Prod.fst).Nodup)
    (hv : ∀ e ∈ m, PropKey.ok e.1) :
    AsSeqByteValues.ofS h (PropKey.ofS h) (lossy f (AsSeqByteValues.toS h (PropKey.toS h) m)) = .ok m :=
  asSeqByteValues_rt h f _ _ m hnd (fun e he => propKey_rt h f e.1 (hv e he))

/-- an instance of `btreemap_as_seq`: `pset::Input::tap_script_sigs : BTreeMap<(XOnlyPublicKey, TapLeafHash),
    SchnorrSig>` (`validX`: x-only key validity, a parameter) -/
theorem serde_roundtrip_tap_script_sigs (validX : Bytes → Bool) (h : Bool) (f : Fmt) (hc : compatible h f)
    (m : List ((Bytes × Bytes) × SchnorrSigM)) (hnd : (m.map Prod.fst).Nodup)
    (hk : ∀ e ∈ m, e.1.1.length = 32 ∧ validX e.1.1 = true ∧ e.1.2.length = 32) (hv : ∀ e ∈ m, SchnorrSigM.ok e.2) :
    AsSeq.ofS h (ofSigKey validX h) (SchnorrSigM.ofS h) (lossy f (AsSeq.toS h (sSigKey h) (SchnorrSigM.toS h) m)) = .ok m :=
  asSeq_rt h f _ _ _ _ m hnd (fun e he => sigKey_rt validX h f hc e.1 (hk e he).1 (hk e he).2.1 (hk e he).2.2)
    (fun e he => schnorrSig_rt h f hc e.2 (hv e he))

/-! ## summary -/

/-
  FULL STATEMENT (properties.jsonl C20), serde half: "serializing ANY transaction, input, output, block, block
  header, dynafed parameter set, address, script, confidential commitment, blinding factor, output secret,
  hash newtype or PSET to JSON or CBOR and deserializing it yields an equal value".
  PROVED below: the statement for every type whose impl is hand-written in /repo (everything in the list but
  PSETs and `TxOutSecrets`), over the model of the serde data model, for the JSON view (human readable) and
  the CBOR view (not human readable). `Address` is covered by `serde_roundtrip_string_impl` given its text
  round trip (property C06).
  The hand-written `serde_utils` helper modules the PSET maps use are proved generically above.
  MISSING (hence `_partial`): the `#[derive]`d impls (`pset::{PartiallySignedTransaction, Global, TxData, Input,
  Output}`, `pset::raw::Pair`, `TxOutSecrets`, `TapTree`, `ControlBlock`, `SchnorrSig`, and the dependency types
  inside the PSET maps: `bitcoin::PublicKey`, `bip32::{Xpub, KeySource}`, `bitcoin::Transaction`, …) and the
  byte-level syntax of serde_json / serde_cbor; both are exercised on the real code only.
-/
theorem serde_roundtrip_handwritten_partial (P : Prims) (h : Bool) (f : Fmt) (hc : compatible h f) :
    (∀ v, Value.ok P v → Value.ofS P h (lossy f (Value.toS h v)) = .ok v) ∧
    (∀ v, Asset.ok P v → Asset.ofS P h (lossy f (Asset.toS h v)) = .ok v) ∧
    (∀ v, Nonce.ok P v → Nonce.ofS P h (lossy f (Nonce.toS h v)) = .ok v) ∧
    (∀ b, BlindingFactor.ok P b → BlindingFactor.ofS P h (lossy f (BlindingFactor.toS h b)) = .ok b) ∧
    (∀ k b, b.length = k.len → ofHash k h (lossy f (sHash k h b)) = .ok b) ∧
    (∀ b, ofScript (lossy f (sScript b)) = .ok b) ∧
    (∀ o, OutPoint.ok o → OutPoint.ofS h (lossy f (OutPoint.toS h o)) = .ok o) ∧
    (∀ i, TxIn.ok P i → TxIn.ofS P h (lossy f (TxIn.toS h i)) = .ok i) ∧
    (∀ o, TxOut.ok P o → TxOut.ofS P h (lossy f (TxOut.toS h o)) = .ok o) ∧
    (∀ t, Tx.ok P t → Tx.ofS P h (lossy f (Tx.toS h t)) = .ok t) ∧
    (∀ p, Params.ok p → Params.ofS h (lossy f (Params.toS h p)) = .ok p) ∧
    (∀ b, BlockHeader.ok b → BlockHeader.ofS h (lossy f (BlockHeader.toS h b)) = .ok b) ∧
    (∀ b, Block.ok P b → Block.ofS P h (lossy f (Block.toS h b)) = .ok b) :=
  ⟨fun v hv => value_rt P h f hc v hv, fun v hv => asset_rt P h f hc v hv, fun v hv => nonce_rt P h f v hv,
   fun b hv => blindingFactor_rt P h f hc b hv, fun k b hl => ofHash_rt k h f hc b hl, fun b => ofScript_rt f b,
   fun o hv => outPoint_rt h f hc o hv, fun i hv => txIn_rt P h f hc i hv, fun o hv => txOut_rt P h f hc o hv,
   fun t hv => tx_rt P h f hc t hv, fun p hv => params_rt h f hc p hv, fun b hv => blockHeader_rt h f hc b hv,
   fun b hv => block_rt P h f hc b hv⟩

/-! ## non-vacuity -/

/-- a predicate record under which everything is valid (any `P` works for the examples below) -/
def allValid : Prims :=
  { commitment := fun _ => true, generator := fun _ => true, pubkey := fun _ => true, tweak := fun _ => true,
    rangeproof := fun _ => true, surjproof := fun _ => true, sizeTxIn := 1, sizeTxOut := 1, sizeTx := 1 }

example : String.ofList (outPointShow ⟨List.replicate 32 0, 7⟩) =
    "[elements]0000000000000000000000000000000000000000000000000000000000000000:7" := by decide
example : outPointParse "[elements]0000000000000000000000000000000000000000000000000000000000000000:07".toList
    = .err "vout not canonical" := by decide
example : psbtShow 0x1f = "0x1f" ∧ psbtShow 0x81 = "SIGHASH_ALL|SIGHASH_ANYONECANPAY" := by decide
example : String.ofList (b64Enc [1, 2, 3, 4, 5]) = "AQIDBAU=" := by decide
example : parseU32 "+0012".toList = .ok 12 ∧ parseU32 "4294967296".toList = .err "overflow" := by decide
example : lossy .json (.struct "S" [("a", .bytes [1, 2]), ("b", .some (.newtype "N" (.num 32 7)))]) =
    .map [(.str "a", .seq [.num 0 1, .num 0 2]), (.str "b", .num 0 7)] := by simp [lossy, lossyF]
example : Value.ok allValid (.explicit 5) := by simp [Value.ok]
example : Tx.ok allValid ⟨2, 0, [], [⟨.null, .explicit 1, .null, [0x51], ⟨none, none⟩⟩]⟩ := by
  simp [Tx.ok, TxOut.ok, Asset.ok, Value.ok, Nonce.ok, TxOutWitness.ok, okOptProof]
example : Value.ofS allValid true (lossy .json (Value.toS true (.explicit 5))) = .ok (.explicit 5) :=
  serde_roundtrip_value allValid true .json (fun _ => rfl) _ (by simp [Value.ok])


/-! ## (c) derived serde impls (`#[derive(Serialize, Deserialize)]`): EV.Model.SerdeDerive

  The model is an interpreter of the table `EV.Gen.serdeDerive`, regenerated from /repo on every run
  (tools/extract.d/c20_derive.py): every derived item with its fields in order, their serde keys, types and hooks.
  Values are the universe `DVal`; `DerivedOk P D nm v` says that `v` is a value of the derived item `nm`.
  Types that are not derived in /repo are leaf codecs: /repo's own hand-written impls (concrete, laws proved from
  part (b)) and the third-party ones `X : Deps` (`bitcoin::PublicKey`, `secp256k1::XOnlyPublicKey`,
  `schnorr::Signature`, `bip32::{Fingerprint, DerivationPath, Xpub}`, `bitcoin::Transaction`), which are PARAMETERS:
  `DepsLawful X D h f` assumes their round trip. -/

open EV.Gen

/-- GENERIC: a derived struct (field keys pairwise distinct) read back by `visit_map` — by field NAME, in the
    format's view of `serialize_struct` (or of `serialize_map` when a field is flattened) — round-trips as soon as
    each field does -/
theorem derive_struct_roundtrip (rcS : RecS) (rcD : RecD) (nm : String) (fields : List SerdeField) (flat h : Bool) (f : Fmt)
    (vs : List DVal) (hnd : (fields.map (·.key)).Nodup) (hp : pairsOk rcS rcD h f fields vs) :
    structOfS rcD fields flat h (lossy f (structToS rcS nm fields flat h vs)) = .ok (.record vs) :=
  structOfS_rt rcS rcD nm fields flat h f vs hnd hp

/-- GENERIC: the same struct read back by `visit_seq` — by POSITION, from a format that writes a struct as the
    sequence of its field values -/
theorem derive_struct_roundtrip_seq (rcS : RecS) (rcD : RecD) (fields : List SerdeField) (h : Bool) (f : Fmt)
    (vs : List DVal) (hp : pairsOk rcS rcD h f fields vs) :
    structOfS rcD fields false h (.seq ((zipFields rcS h fields vs).map fun e => lossy f e.2)) = .ok (.record vs) :=
  structOfS_seq_rt rcS rcD fields h f vs hp

/-- GENERIC: a field round-trips when the values of its type do, whatever `serde(with = …)` hook it carries
    (`hex_bytes`, the three `btreemap_*` helpers, `serde_fallback_locktime`, `serde_parity`) -/
theorem derive_field_roundtrip (rcS : RecS) (rcD : RecD) (wt : SerdeTy → DVal → Prop) (h : Bool) (f : Fmt)
    (hrec : ∀ t x, wt t x → rcD t h (lossy f (rcS t h x)) = .ok x) (fld : SerdeField) (v : DVal) (hw : fieldWT wt fld v) :
    fieldOfS rcD fld h (lossy f (fieldToS rcS fld h v)) = .ok v := fieldOfS_rt rcS rcD wt h f hrec fld v hw

/-- GENERIC: `BTreeMap<K, V>` (`serialize_map`, read back by the `visit_map` loop): a map with pairwise distinct
    keys round-trips when its keys and values do -/
theorem derive_btreemap_roundtrip (f : Fmt) (tk tv : DVal → SVal) (pk pv : SVal → Res DVal) (m : List (DVal × DVal))
    (hd : KeysDistinct m) (hk : ∀ e ∈ m, pk (lossy f (tk e.1)) = .ok e.1) (hv : ∀ e ∈ m, pv (lossy f (tv e.2)) = .ok e.2) :
    dCollectMap pk pv (m.map fun e => (lossy f (tk e.1), lossy f (tv e.2))) [] = .ok m := by
  simpa using dCollectMap_rt f tk tv pk pv m [] (by simpa using hd) hk hv

/-- THE GENERIC THEOREM: over ANY table whose structs have distinct field keys and whose enums have distinct variant
    names, every well-typed value of every type (integers, `bool`, `Option`, `Vec`, `[u8; N]`, tuples, `BTreeMap`,
    structs incl. hooks and flattening, newtype structs, enums) round-trips through the format's view, given the laws
    of the leaf codecs. `Option<T>` needs `T` never to serialize to null (`nonNullTy`, part of well-typedness). -/
theorem derive_roundtrip (env : Env) (tbl : Table) (okLeaf : String → DVal → Prop) (h : Bool) (f : Fmt)
    (hc : compatible h f) (htbl : tableOk tbl = true)
    (hleaf : ∀ nm L, tbl.lookup nm = Option.none → env nm = some L → LeafLaw L (okLeaf nm) h f)
    (henv : ∀ nm v, tbl.lookup nm = Option.none → okLeaf nm v → ∃ L, env nm = some L)
    (n : Nat) (ty : SerdeTy) (v : DVal) (hv : dWT okLeaf tbl n ty v) :
    dOfS env tbl n ty h (lossy f (dToS env tbl n ty h v)) = .ok v :=
  dRoundtrip env tbl okLeaf h f hc htbl hleaf henv n ty v hv

/-- /repo's table satisfies the side condition -/
theorem derive_table_ok : tableOk serdeDerive = true := serdeDerive_tableOk

/-- every derived item of /repo -/
theorem serde_roundtrip_derived (P : Prims) (X : Deps) (D : DepsOk) (h : Bool) (f : Fmt) (hc : compatible h f)
    (hX : DepsLawful X D h f) (nm : String) (v : DVal) (hv : DerivedOk P D nm v) :
    deriveOfS P X nm h (lossy f (deriveToS P X nm h v)) = .ok v := derived_rt P X D h f hc hX nm v hv

/-- no third-party value at all (used where a derived item does not reach one) -/
def noDeps : DepsOk := ⟨fun _ => False, fun _ => False, fun _ => False, fun _ => False, fun _ => False, fun _ => False, fun _ => False⟩

theorem noDeps_lawful (X : Deps) (h : Bool) (f : Fmt) : DepsLawful X noDeps h f :=
  ⟨⟨fun _ hv => hv.elim, fun _ hv => hv.elim⟩, ⟨fun _ hv => hv.elim, fun _ hv => hv.elim⟩, ⟨fun _ hv => hv.elim, fun _ hv => hv.elim⟩,
   ⟨fun _ hv => hv.elim, fun _ hv => hv.elim⟩, ⟨fun _ hv => hv.elim, fun _ hv => hv.elim⟩, ⟨fun _ hv => hv.elim, fun _ hv => hv.elim⟩,
   ⟨fun _ hv => hv.elim, fun _ hv => hv.elim⟩⟩

/-- `TxOutSecrets` (the property's "output secret"): UNCONDITIONAL — it reaches no third-party impl -/
theorem serde_roundtrip_txoutsecrets (P : Prims) (X : Deps) (h : Bool) (f : Fmt) (hc : compatible h f) (v : DVal)
    (hv : DerivedOk P noDeps "TxOutSecrets" v) :
    deriveOfS P X "TxOutSecrets" h (lossy f (deriveToS P X "TxOutSecrets" h v)) = .ok v :=
  derived_rt P X noDeps h f hc (noDeps_lawful X h f) _ v hv

example (P : Prims) (hz : P.tweak (List.replicate 32 0) = true) :
    DerivedOk P noDeps "TxOutSecrets"
      (.record [.bytes (List.replicate 32 1), .bytes (List.replicate 32 0), .nat 5, .bytes (List.replicate 32 0)]) := by
  refine dWT_struct (stdOkLeaf P noDeps) serdeDerive 23 "TxOutSecrets" _ _ _ rfl ?_
  refine ⟨?_, ?_, ?_, ?_, trivial⟩
  · exact dWT_leaf (stdOkLeaf P noDeps) serdeDerive 22 "AssetId" _ rfl ⟨_, rfl, rfl⟩
  · exact dWT_leaf (stdOkLeaf P noDeps) serdeDerive 22 "AssetBlindingFactor" _ rfl ⟨_, rfl, rfl, hz⟩
  · exact ⟨5, rfl, by decide⟩
  · exact dWT_leaf (stdOkLeaf P noDeps) serdeDerive 22 "ValueBlindingFactor" _ rfl ⟨_, rfl, rfl, hz⟩

/-- `pset::raw::{Key, Pair, ProprietaryKey}`: unconditional as well -/
theorem serde_roundtrip_pset_raw (P : Prims) (X : Deps) (h : Bool) (f : Fmt) (hc : compatible h f) (nm : String)
    (_ : nm = "Key" ∨ nm = "Pair" ∨ nm = "ProprietaryKey") (v : DVal) (hv : DerivedOk P noDeps nm v) :
    deriveOfS P X nm h (lossy f (deriveToS P X nm h v)) = .ok v :=
  derived_rt P X noDeps h f hc (noDeps_lawful X h f) nm v hv

/-- `pset::Input` (50 fields: optional transactions / outputs / scripts / proofs / commitments, the
    `btreemap_byte_values` / `btreemap_as_seq` / `btreemap_as_seq_byte_values` maps, taproot data) -/
theorem serde_roundtrip_pset_input (P : Prims) (X : Deps) (D : DepsOk) (h : Bool) (f : Fmt) (hc : compatible h f)
    (hX : DepsLawful X D h f) (v : DVal) (hv : DerivedOk P D "Input" v) :
    deriveOfS P X "Input" h (lossy f (deriveToS P X "Input" h v)) = .ok v := derived_rt P X D h f hc hX _ v hv

theorem serde_roundtrip_pset_output (P : Prims) (X : Deps) (D : DepsOk) (h : Bool) (f : Fmt) (hc : compatible h f)
    (hX : DepsLawful X D h f) (v : DVal) (hv : DerivedOk P D "Output" v) :
    deriveOfS P X "Output" h (lossy f (deriveToS P X "Output" h v)) = .ok v := derived_rt P X D h f hc hX _ v hv

/-- `pset::Global` with the flattened `TxData` (`tx_version` rename, `serde_fallback_locktime` hook): written as a
    map, read back by `visit_map` only -/
theorem serde_roundtrip_pset_global (P : Prims) (X : Deps) (D : DepsOk) (h : Bool) (f : Fmt) (hc : compatible h f)
    (hX : DepsLawful X D h f) (v : DVal) (hv : DerivedOk P D "Global" v) :
    deriveOfS P X "Global" h (lossy f (deriveToS P X "Global" h v)) = .ok v := derived_rt P X D h f hc hX _ v hv

/-- `TapTree` (newtype of `TaprootBuilder` → `Vec<Option<NodeInfo>>` → `LeafInfo` → `TaprootMerkleBranch`),
    `ControlBlock` (with the `serde_parity` hook), `SchnorrSig` -/
theorem serde_roundtrip_taproot_items (P : Prims) (X : Deps) (D : DepsOk) (h : Bool) (f : Fmt) (hc : compatible h f)
    (hX : DepsLawful X D h f) (nm : String) (_ : nm ∈ ["TapTree", "TaprootBuilder", "NodeInfo", "LeafInfo",
      "TaprootMerkleBranch", "ControlBlock", "LeafVersion", "SchnorrSig"]) (v : DVal) (hv : DerivedOk P D nm v) :
    deriveOfS P X nm h (lossy f (deriveToS P X nm h v)) = .ok v := derived_rt P X D h f hc hX nm v hv

/-- THE PSET (`PartiallySignedTransaction { global, inputs, outputs }`) -/
theorem serde_roundtrip_pset (P : Prims) (X : Deps) (D : DepsOk) (h : Bool) (f : Fmt) (hc : compatible h f)
    (hX : DepsLawful X D h f) (v : DVal) (hv : DerivedOk P D "PartiallySignedTransaction" v) :
    deriveOfS P X "PartiallySignedTransaction" h (lossy f (deriveToS P X "PartiallySignedTransaction" h v)) = .ok v :=
  derived_rt P X D h f hc hX _ v hv

/-- the empty PSET (`PartiallySignedTransaction::new_v2()`) is a value, for any `P`, `D` -/
example (P : Prims) (D : DepsOk) : DerivedOk P D "PartiallySignedTransaction"
    (.record [.record [.nat 2, .none, .nat 0, .nat 0, .none, .nat 2, .map [], .list [], .none, .map [], .map []], .list [], .list []]) := by
  refine dWT_struct (stdOkLeaf P D) serdeDerive 23 "PartiallySignedTransaction" _ _ _ rfl ?_
  refine ⟨?_, ?_, ?_, trivial⟩
  · refine dWT_struct (stdOkLeaf P D) serdeDerive 22 "Global" _ _ _ rfl ?_
    refine ⟨?_, ?_, ?_, ?_, ?_, ?_, ?_, ?_, ?_, ?_, ?_, trivial⟩
    · exact ⟨2, rfl, by decide⟩
    · exact Or.inl rfl
    · exact ⟨0, rfl, by decide⟩
    · exact ⟨0, rfl, by decide⟩
    · exact Or.inl rfl
    · exact ⟨2, rfl, by decide⟩
    · exact ⟨[], rfl, by simp, List.Pairwise.nil⟩
    · exact ⟨[], rfl, by simp⟩
    · exact Or.inl rfl
    · exact ⟨by simp, by simp [allBytes], List.Pairwise.nil⟩
    · exact ⟨by simp, by simp [allBytes], List.Pairwise.nil⟩
  · exact ⟨[], rfl, by simp⟩
  · exact ⟨[], rfl, by simp⟩

/-- `DepsLawful` is satisfiable (e.g. when no third-party value occurs) -/
example (X : Deps) (h : Bool) (f : Fmt) : DepsLawful X noDeps h f := noDeps_lawful X h f

/-- WHICH MAP KEYS SURVIVE JSON: a `BTreeMap` written with `serialize_map` into a human-readable format needs keys
    that serialize to strings. In /repo's table every such key type (maps of fields without a hook, and of
    `btreemap_byte_values` fields) is one of `Xpub`, `bitcoin::PublicKey`, the four preimage hash types … -/
theorem derive_json_map_keys_are_string_leaves :
    ∀ k ∈ humanMapKeys serdeDerive, ∃ nm ∈ stringKeyLeaves, k = .named nm := humanMapKeys_are_stringKeyLeaves

/-- … each of which is a string in the JSON view (the two third-party ones by assumption); every other key type of
    /repo — `(XOnlyPublicKey, TapLeafHash)`, `ControlBlock`, `XOnlyPublicKey`, `raw::Key`, `ProprietaryKey`,
    `bitcoin::PublicKey` of `bip32_derivation` — sits behind `btreemap_as_seq` / `btreemap_as_seq_byte_values`,
    which write a sequence of pairs when human readable -/
theorem derive_json_map_keys_are_strings (P : Prims) (X : Deps) (D : DepsOk) (hK : DepsKeysAreStrings X D) :
    ∀ nm ∈ stringKeyLeaves, ∀ L, stdEnv P X nm = some L → ∀ v, stdOkLeaf P D nm v → ∃ s, lossy .json (L.toS true v) = .str s :=
  stringKeyLeaf_toS_str P X D hK

/-- bridges: the table-driven model agrees with the earlier type-specific models -/
theorem derive_bridge_raw_key (P : Prims) (X : Deps) (h : Bool) (t : Nat) (k : Bytes) :
    deriveToS P X "Key" h (.record [.nat t, .bytes k]) = RawKey.toS h ⟨t, k⟩ := derive_rawKey_bridge P X h t k
theorem derive_bridge_proprietary_key (P : Prims) (X : Deps) (h : Bool) (p : Bytes) (t : Nat) (k : Bytes) :
    deriveToS P X "ProprietaryKey" h (.record [.bytes p, .nat t, .bytes k]) = PropKey.toS h ⟨p, t, k⟩ :=
  derive_propKey_bridge P X h p t k
theorem derive_bridge_sequence (P : Prims) (X : Deps) (h : Bool) (n : Nat) :
    deriveToS P X "Sequence" h (.nat n) = sSequence n := derive_sequence_bridge P X h n
theorem derive_bridge_locktime (P : Prims) (X : Deps) (h : Bool) (n : Nat) :
    deriveToS P X "LockTime" h (.variant (if n < lockTimeThreshold then 0 else 1) (.nat n)) = sLockTime n :=
  derive_lockTime_bridge P X h n

/-
  SUMMARY. FULL STATEMENT (properties.jsonl C20, serde half): "serializing ANY transaction, input, output, block,
  block header, dynafed parameter set, address, script, confidential commitment, blinding factor, output secret,
  hash newtype or PSET to JSON or CBOR and deserializing it yields an equal value".
  `serde_roundtrip_all` = the hand-written summary `serde_roundtrip_handwritten_partial` (unchanged) together with
  EVERY derived item of /repo (`TxOutSecrets`, the PSET and all its maps, raw keys, taproot items, `Sequence`,
  `LockTime`, `Height`, `Time`), over the token model of serde and the JSON / CBOR views.
  ASSUMED (hypothesis `DepsLawful`): the round trip of the seven third-party impls that PSET maps embed; each is
  transcribed in the driver and compared with the real impl (K), and its round trip is checked on the real code (S).
  STILL OUTSIDE THE MODEL: the byte-level syntax of serde_json / serde_cbor (parsers / printers), exercised by S.
-/
theorem serde_roundtrip_all (P : Prims) (X : Deps) (D : DepsOk) (h : Bool) (f : Fmt) (hc : compatible h f)
    (hX : DepsLawful X D h f) :
    ((∀ v, Value.ok P v → Value.ofS P h (lossy f (Value.toS h v)) = .ok v) ∧
     (∀ v, Asset.ok P v → Asset.ofS P h (lossy f (Asset.toS h v)) = .ok v) ∧
     (∀ v, Nonce.ok P v → Nonce.ofS P h (lossy f (Nonce.toS h v)) = .ok v) ∧
     (∀ b, BlindingFactor.ok P b → BlindingFactor.ofS P h (lossy f (BlindingFactor.toS h b)) = .ok b) ∧
     (∀ k b, b.length = k.len → ofHash k h (lossy f (sHash k h b)) = .ok b) ∧
     (∀ b, ofScript (lossy f (sScript b)) = .ok b) ∧
     (∀ o, OutPoint.ok o → OutPoint.ofS h (lossy f (OutPoint.toS h o)) = .ok o) ∧
     (∀ i, TxIn.ok P i → TxIn.ofS P h (lossy f (TxIn.toS h i)) = .ok i) ∧
     (∀ o, TxOut.ok P o → TxOut.ofS P h (lossy f (TxOut.toS h o)) = .ok o) ∧
     (∀ t, Tx.ok P t → Tx.ofS P h (lossy f (Tx.toS h t)) = .ok t) ∧
     (∀ p, Params.ok p → Params.ofS h (lossy f (Params.toS h p)) = .ok p) ∧
     (∀ b, BlockHeader.ok b → BlockHeader.ofS h (lossy f (BlockHeader.toS h b)) = .ok b) ∧
     (∀ b, Block.ok P b → Block.ofS P h (lossy f (Block.toS h b)) = .ok b)) ∧
    (∀ nm v, DerivedOk P D nm v → deriveOfS P X nm h (lossy f (deriveToS P X nm h v)) = .ok v) :=
  ⟨serde_roundtrip_handwritten_partial P h f hc, fun nm v hv => derived_rt P X D h f hc hX nm v hv⟩

end EV.Props.C20
