/-
  C20 — serde and textual forms round-trip in self-describing formats.

  Scope (DESIGN §2 C20): (a) every `Display`/`FromStr` pair and (b) every HAND-WRITTEN serde impl of
  rust-elements, over the models `EV.Model.Text` and `EV.Model.Serde` (serde data model `SVal`, what a
  self-describing format forgets: `lossy`). `#[derive(Serialize, Deserialize)]` expansions (the PSET maps,
  `TxOutSecrets`, `TapTree`, `ControlBlock`, `SchnorrSig`, …) and the concrete syntax of serde_json /
  serde_cbor are OUTSIDE the model: they are exercised on the real code only (harness S stream). That is why
  the summary theorem at the end is named `…_partial`.

  `h` is `is_human_readable()`, `f` the format; `compatible h f` excludes the one impossible combination
  (a format that forgets byte strings, JSON, is always human readable). `P : Prims` are the parse-acceptance
  predicates of secp256k1-zkp (parameters). Text is `List Char`; `String.ofList`/`toList` convert.
-/
import EV.Proofs.Text
import EV.Proofs.Serde
import EV.Proofs.SerdeUtils
import EV.Proofs.PsetWireTop
namespace EV.Props.C20
open EV EV.Text EV.Serde

/-! ## (a) Display / FromStr -/

/-- decimal printing of a `u32` parses back (`str::parse::<u32>`: no overflow on any prefix) -/
theorem text_roundtrip_u32 (n : Nat) (h : n < 2^32) : parseU32 (showNat n) = .ok n := parseU32_showNat n h

/-- the same for any radix 2..16 and any unsigned width (`u64` decimal, `u32` radix 16, …) -/
theorem text_roundtrip_uint (b B n : Nat) (hb2 : 2 ≤ b) (hb : b ≤ 16) (h : n < B) :
    parseUInt b B (showBase b n) = .ok n := parseUInt_showBase b B n hb2 hb h

/-- lower-case hex of any byte string decodes back (`hex::decode_to_vec`) -/
theorem text_roundtrip_hex (bs : Bytes) : unhex (hexStr bs) = .ok bs := unhex_hexStr bs

/-- every hash newtype and sha256-midstate wrapper (`Txid`, `Wtxid`, `BlockHash`, `TxMerkleNode`,
    `ContractHash`, `AssetId`, `AssetEntropy`, `DynafedRoot`, `ParamsRoot`, `ElidedRoot` — reversed hex;
    `WScriptHash`, `ScriptHash`, `TapLeafHash`, `TapNodeHash`, `TapTweakHash`, `PubkeyHash`, `WPubkeyHash` —
    forward hex): `from_str(to_string(x)) = x`, whatever the direction and length of the kind -/
theorem text_roundtrip_hash (k : HashKind) (b : Bytes) (h : b.length = k.len) :
    hashParse k (hashShow k b) = .ok b := hashParse_hashShow k b h

/-- … in particular for every kind of the table the driver and the harness agree on -/
theorem text_roundtrip_hash_table : ∀ p ∈ hashKinds, ∀ b : Bytes, b.length = p.2.len →
    hashParse p.2 (hashShow p.2 b) = .ok b := fun p _ b h => hashParse_hashShow p.2 b h

/-- `AssetBlindingFactor` / `ValueBlindingFactor` (reversed hex; a value of the type is a valid tweak) -/
theorem text_roundtrip_blinding_factor (P : Prims) (b : Bytes) (hl : b.length = 32) (ht : P.tweak b = true) :
    bfParse P.tweak (bfShow b) = .ok b := bfParse_bfShow P.tweak b hl ht

/-- `LockTime` (`from_consensus` is total on `u32`) -/
theorem text_roundtrip_locktime (n : Nat) (h : n < 2^32) : lockTimeParse (showNat n) = .ok n := parseU32_showNat n h

/-- `Height`: values of the type are below `LOCK_TIME_THRESHOLD` -/
theorem text_roundtrip_height (n : Nat) (h : n < Gen.lockTimeThreshold) : heightParse (showNat n) = .ok n :=
  heightParse_showNat n h

/-- `Time`: values of the type are at or above `LOCK_TIME_THRESHOLD` -/
theorem text_roundtrip_time (n : Nat) (h : Gen.lockTimeThreshold ≤ n) (h32 : n < 2^32) :
    timeParse (showNat n) = .ok n := timeParse_showNat n h h32

/-- `Sequence` -/
theorem text_roundtrip_sequence (n : Nat) (h : n < 2^32) : sequenceParse (showNat n) = .ok n := parseU32_showNat n h

/-- `OutPoint`: `[elements]txid:vout` parses back (one colon, ≤ 75 bytes after the prefix, canonical vout) -/
theorem text_roundtrip_outpoint (o : OutPoint) (ht : o.txid.length = 32) (hv : o.vout < 2^32) :
    outPointParse (outPointShow o) = .ok o := outPointParse_outPointShow o ht hv

/-- the `[elements]` prefix is optional on parse -/
theorem outpoint_prefix_optional (o : OutPoint) (ht : o.txid.length = 32) (hv : o.vout < 2^32) :
    outPointParse (hashShow kTxid o.txid ++ ':' :: showNat o.vout) = .ok o := outPointParse_bare o ht hv

/-- `EcdsaSighashType`: every `Display` string is a `FromStr` arm naming the same variant (tables
    regenerated from src/transaction.rs) -/
theorem text_roundtrip_ecdsa_sighash (v : Nat) (s : String) (h : ecdsaShow v = some s) : ecdsaParse s = .ok v :=
  ecdsaParse_ecdsaShow v s h

/-- `SchnorrSighashType` (tables regenerated from src/sighash.rs), `Reserved` included -/
theorem text_roundtrip_schnorr_sighash (v : Nat) (s : String) (h : schnorrShow v = some s) : schnorrParse s = .ok v :=
  schnorrParse_schnorrShow v s h

/-- every variant of both enums has a `Display` arm (so the two theorems above are not vacuous) -/
theorem sighash_display_total :
    (∀ p ∈ Gen.ecdsaSighashDisplay, ecdsaShow p.1 = some p.2) ∧
    (∀ p ∈ Gen.schnorrSighashDisplay, schnorrShow p.1 = some p.2) := ⟨ecdsa_display_total, schnorr_display_total⟩

/-- `PsbtSighashType`, for EVERY `u32`: a Schnorr name where `from_u8` has one, else `0x…` hex, which the
    parser reads back after trimming `0x` -/
theorem text_roundtrip_psbt_sighash (n : Nat) (h : n < 2^32) : psbtParse (psbtShow n) = .ok n := psbtParse_psbtShow n h

/-- standard base64 with padding: `decode (encode bs) = bs` for all byte strings -/
theorem base64_roundtrip (bs : Bytes) : b64Dec (b64Enc bs) = .ok bs := b64Dec_b64Enc bs

/-- PSET `to_string` / `from_str`: base64 around the binary codec; it round-trips exactly when the binary
    codec does on that PSET (that premise is property C07; discharged in `text_roundtrip_pset_wf` below) -/
theorem text_roundtrip_pset {α} (ser : α → Bytes) (de : Bytes → Res α) (p : α) (h : de (ser p) = .ok p) :
    psetParse de (psetShow ser p) = .ok p := psetParse_psetShow ser de p h

/-- PSET `to_string` / `from_str`, UNCONDITIONAL (C20 × C07). Composes the text model of this property
    (`EV.Model.Text`: `psetShow` / `psetParse`, standard base64 around a binary codec) with the binary PSET
    codec model of property C07 (`EV.Model.PsetSer`: `Pset.serialize` / `Pset.deserialize` on the in-memory
    `Pset` of `EV.Model.Pset`, dependency validity as the parameter `W : WirePrims`): the premise of
    `text_roundtrip_pset` is discharged by C07's binary round trip
    (`EV.Proofs.PsetWireTop.pset_roundtrip`, exported as `EV.Props.C07.pset_roundtrip`), so for every
    well-formed PSET (C07's class `WfPset`, which is exactly what the decoder produces) parsing its base64
    text gives back the same PSET.  (`EV.Props.C07.base64_roundtrip` is this statement on the C07 side; C07
    imports this file, so the corollary here goes through the shared proof module.) -/
theorem text_roundtrip_pset_wf (W : PsetWire.WirePrims) (p : Pset) (h : EV.Proofs.PsetWireTop.WfPset W p) :
    psetParse (Pset.deserialize W) (psetShow (Pset.serialize W) p) = .ok p :=
  text_roundtrip_pset (Pset.serialize W) (Pset.deserialize W) p (EV.Proofs.PsetWireTop.pset_roundtrip W p h)

/-- … and every text `from_str` accepts parses, after `to_string`, to the same PSET again (the decoder's
    results are well-formed: C07 `dec_wf`) -/
theorem text_fixpoint_pset (W : PsetWire.WirePrims) (cs : Str) (p : Pset) (h : psetParse (Pset.deserialize W) cs = .ok p) :
    psetParse (Pset.deserialize W) (psetShow (Pset.serialize W) p) = .ok p := by
  unfold psetParse at h
  cases hb : b64Dec cs with
  | ok b => rw [hb] at h; exact text_roundtrip_pset_wf W p (EV.Proofs.PsetWireTop.pset_dec_wf W b p h)
  | err e => rw [hb] at h; cases h
  | panic m => rw [hb] at h; cases h

/- `Script` has `Display` (asm) but no `FromStr`; `confidential::{Value, Asset, Nonce}` have `Display` only. -/

/-! ## (b) hand-written serde impls -/

/-- THE GENERIC STRUCT LEMMA (`serde_struct_impl!`, `ExtData`, `Params`, non-human `OutPoint`): a struct whose
    field names are pairwise distinct is serialized as a map of its fields; after the `visit_map` loop the slot
    of each field holds that field's own parse — so a struct round-trips as soon as each field does -/
theorem serde_struct_field {α} (f : Fmt) (n : String) (p : SVal → Res α) (fs : List (String × SVal)) (v : SVal) (a : α)
    (hnd : (fs.map Prod.fst).Nodup) (hm : (n, v) ∈ fs) (hp : p (lossy f v) = .ok a) :
    field n p (lossyF f fs) = .ok a ∧ keysOk (lossyF f fs) = true :=
  ⟨field_lossyF f n p fs v a hnd hm hp, keysOk_lossyF f fs⟩

/-- a field that is not serialized leaves its slot empty (how `ExtData` / `Params` pick their variant) -/
theorem serde_struct_field_absent {α} (f : Fmt) (n : String) (p : SVal → Res α) (fs : List (String × SVal))
    (h : n ∉ fs.map Prod.fst) : fieldOpt n p (lossyF f fs) = .ok .none := fieldOpt_absent f n p fs h

/-- `Vec<T>` round-trips when its elements do -/
theorem serde_roundtrip_vec {α} (f : Fmt) (t : α → SVal) (p : SVal → Res α) (l : List α)
    (h : ∀ a ∈ l, p (lossy f (t a)) = .ok a) : ofSeq p (lossy f (.seq (l.map t))) = .ok l := ofSeq_rt f t p l h

theorem serde_roundtrip_value (P : Prims) (h : Bool) (f : Fmt) (hc : compatible h f) (v : Value) (hv : Value.ok P v) :
    Value.ofS P h (lossy f (Value.toS h v)) = .ok v := value_rt P h f hc v hv

theorem serde_roundtrip_asset (P : Prims) (h : Bool) (f : Fmt) (hc : compatible h f) (v : Asset) (hv : Asset.ok P v) :
    Asset.ofS P h (lossy f (Asset.toS h v)) = .ok v := asset_rt P h f hc v hv

/-- `Nonce` even round-trips in all four combinations (it never emits a byte string) -/
theorem serde_roundtrip_nonce (P : Prims) (h : Bool) (f : Fmt) (v : Nonce) (hv : Nonce.ok P v) :
    Nonce.ofS P h (lossy f (Nonce.toS h v)) = .ok v := nonce_rt P h f v hv

theorem serde_roundtrip_blinding_factor (P : Prims) (h : Bool) (f : Fmt) (hc : compatible h f) (b : Bytes)
    (hv : BlindingFactor.ok P b) : BlindingFactor.ofS P h (lossy f (BlindingFactor.toS h b)) = .ok b :=
  blindingFactor_rt P h f hc b hv

/-- hash newtypes and `impl_sha256_midstate_wrapper!` types (the latter "cheat" through `sha256d::Hash`) -/
theorem serde_roundtrip_hash (k : HashKind) (h : Bool) (f : Fmt) (hc : compatible h f) (b : Bytes) (hl : b.length = k.len) :
    ofHash k h (lossy f (sHash k h b)) = .ok b := ofHash_rt k h f hc b hl

/-- `Script`: a hex string in both modes -/
theorem serde_roundtrip_script (f : Fmt) (b : Bytes) : ofScript (lossy f (sScript b)) = .ok b := ofScript_rt f b

/-- `serde_string_impl!` and `Address`: serde round-trips whenever the text form does -/
theorem serde_roundtrip_string_impl {α} (f : Fmt) (parse : String → Res α) (s : String) (a : α) (h : parse s = .ok a) :
    stringOfS parse (lossy f (stringToS s)) = .ok a := string_rt f parse s a h

theorem serde_roundtrip_ecdsa_sighash (f : Fmt) (v : Nat) (s : String) (h : ecdsaShow v = some s) :
    stringOfS ecdsaParse (lossy f (stringToS s)) = .ok v := string_rt f _ s v (ecdsaParse_ecdsaShow v s h)

theorem serde_roundtrip_schnorr_sighash (f : Fmt) (v : Nat) (s : String) (h : schnorrShow v = some s) :
    stringOfS schnorrParse (lossy f (stringToS s)) = .ok v := string_rt f _ s v (schnorrParse_schnorrShow v s h)

theorem serde_roundtrip_psbt_sighash (f : Fmt) (n : Nat) (h : n < 2^32) :
    stringOfS psbtParse (lossy f (stringToS (psbtShow n))) = .ok n := string_rt f _ _ n (psbtParse_psbtShow n h)

/-- `OutPoint` (`serde_struct_human_string_impl!`): string when human readable, struct otherwise -/
theorem serde_roundtrip_outpoint (h : Bool) (f : Fmt) (hc : compatible h f) (o : OutPoint) (hv : OutPoint.ok o) :
    OutPoint.ofS h (lossy f (OutPoint.toS h o)) = .ok o := outPoint_rt h f hc o hv

theorem serde_roundtrip_issuance (P : Prims) (h : Bool) (f : Fmt) (hc : compatible h f) (i : AssetIssuance)
    (hv : AssetIssuance.ok P i) : AssetIssuance.ofS P h (lossy f (AssetIssuance.toS h i)) = .ok i :=
  issuance_rt P h f hc i hv

theorem serde_roundtrip_txin_witness (P : Prims) (h : Bool) (f : Fmt) (hc : compatible h f) (w : TxInWitness)
    (hv : TxInWitness.ok P w) : TxInWitness.ofS P h (lossy f (TxInWitness.toS h w)) = .ok w :=
  txInWitness_rt P h f hc w hv

theorem serde_roundtrip_txout_witness (P : Prims) (h : Bool) (f : Fmt) (hc : compatible h f) (w : TxOutWitness)
    (hv : TxOutWitness.ok P w) : TxOutWitness.ofS P h (lossy f (TxOutWitness.toS h w)) = .ok w :=
  txOutWitness_rt P h f hc w hv

/-- the derived impls of `Sequence` and `LockTime` as far as `TxIn` / `Transaction` need them -/
theorem serde_roundtrip_sequence (f : Fmt) (n : Nat) (h : n < 2^32) : ofSequence (lossy f (sSequence n)) = .ok n :=
  sequence_rt f n h
theorem serde_roundtrip_locktime (f : Fmt) (n : Nat) (h : n < 2^32) : ofLockTime (lossy f (sLockTime n)) = .ok n :=
  lockTime_rt f n h

theorem serde_roundtrip_txin (P : Prims) (h : Bool) (f : Fmt) (hc : compatible h f) (i : TxIn) (hv : TxIn.ok P i) :
    TxIn.ofS P h (lossy f (TxIn.toS h i)) = .ok i := txIn_rt P h f hc i hv

theorem serde_roundtrip_txout (P : Prims) (h : Bool) (f : Fmt) (hc : compatible h f) (o : TxOut) (hv : TxOut.ok P o) :
    TxOut.ofS P h (lossy f (TxOut.toS h o)) = .ok o := txOut_rt P h f hc o hv

/-- `Transaction`, any number of inputs and outputs -/
theorem serde_roundtrip_transaction (P : Prims) (h : Bool) (f : Fmt) (hc : compatible h f) (t : Tx) (hv : Tx.ok P t) :
    Tx.ofS P h (lossy f (Tx.toS h t)) = .ok t := tx_rt P h f hc t hv

/-- `dynafed::Params`: the variant is recovered from which fields are present -/
theorem serde_roundtrip_params (h : Bool) (f : Fmt) (hc : compatible h f) (p : Params) (hv : Params.ok p) :
    Params.ofS h (lossy f (Params.toS h p)) = .ok p := params_rt h f hc p hv

theorem serde_roundtrip_extdata (h : Bool) (f : Fmt) (hc : compatible h f) (x : ExtData) (hv : ExtData.ok x) :
    ExtData.ofS h (lossy f (ExtData.toS h x)) = .ok x := extData_rt h f hc x hv

theorem serde_roundtrip_header (h : Bool) (f : Fmt) (hc : compatible h f) (b : BlockHeader) (hv : BlockHeader.ok b) :
    BlockHeader.ofS h (lossy f (BlockHeader.toS h b)) = .ok b := blockHeader_rt h f hc b hv

theorem serde_roundtrip_block (P : Prims) (h : Bool) (f : Fmt) (hc : compatible h f) (b : Block) (hv : Block.ok P b) :
    Block.ofS P h (lossy f (Block.toS h b)) = .ok b := block_rt P h f hc b hv

/-- the canonical transactions of C01 (`Tx.wf`) are in the domain: JSON … -/
theorem serde_roundtrip_transaction_json (P : Prims) (hz : P.tweak AssetIssuance.zero32 = true) (t : Tx) (hv : t.wf P) :
    Tx.ofS P true (lossy .json (Tx.toS true t)) = .ok t :=
  tx_rt P true .json (fun _ => rfl) t (tx_ok_of_wf P hz t hv)

/-- … and CBOR -/
theorem serde_roundtrip_transaction_cbor (P : Prims) (hz : P.tweak AssetIssuance.zero32 = true) (t : Tx) (hv : t.wf P) :
    Tx.ofS P false (lossy .cbor (Tx.toS false t)) = .ok t :=
  tx_rt P false .cbor (fun h => by cases h) t (tx_ok_of_wf P hz t hv)

/-- the canonical blocks of C01, both formats -/
theorem serde_roundtrip_block_wf (P : Prims) (hz : P.tweak AssetIssuance.zero32 = true) (b : Block) (hv : b.wf P) :
    Block.ofS P true (lossy .json (Block.toS true b)) = .ok b ∧
    Block.ofS P false (lossy .cbor (Block.toS false b)) = .ok b :=
  ⟨block_rt P true .json (fun _ => rfl) b (block_ok_of_wf P hz b hv),
   block_rt P false .cbor (fun h => by cases h) b (block_ok_of_wf P hz b hv)⟩

/-- the excluded combination really fails: a non-human-readable impl that emits a byte string cannot read it
    back from a format that turned it into an array of numbers (no such format crate exists: JSON is human
    readable) -/
theorem incompatible_combination_fails :
    ofHash kTxid false (lossy .json (sHash kTxid false (List.replicate 32 0))) ≠ .ok (List.replicate 32 0) := by
  simp [sHash, lossy, ofHash]

/-! ### `src/serde_utils.rs` (hand-written helpers used by the derived PSET impls) -/

/-- `serde_utils::hex_bytes` -/
theorem serde_roundtrip_hex_bytes (h : Bool) (f : Fmt) (b : Bytes) : HexBytes.ofS h (lossy f (HexBytes.toS h b)) = .ok b :=
  hexBytes_rt h f b

/-- `serde_utils::btreemap_byte_values`, generic in the key codec: a map (pairwise distinct keys) round-trips
    when its keys do -/
theorem serde_roundtrip_btreemap_byte_values {κ} [DecidableEq κ] (h : Bool) (f : Fmt) (tk : κ → SVal) (pk : SVal → Res κ)
    (m : List (κ × Bytes)) (hnd : (m.map Prod.fst).Nodup) (hk : ∀ e ∈ m, pk (lossy f (tk e.1)) = .ok e.1) :
    ByteValues.ofS h pk (lossy f (ByteValues.toS h tk m)) = .ok m := byteValues_rt h f tk pk m hnd hk

/-- … e.g. the four hash → preimage maps of `pset::Input` -/
theorem serde_roundtrip_preimage_map (k : HashKind) (h : Bool) (f : Fmt) (hc : compatible h f) (m : List (Bytes × Bytes))
    (hnd : (m.map Prod.fst).Nodup) (hl : ∀ e ∈ m, e.1.length = k.len) :
    ByteValues.ofS h (ofHash k h) (lossy f (ByteValues.toS h (sHash k h) m)) = .ok m :=
  byteValues_rt h f (sHash k h) (ofHash k h) m hnd (fun e he => ofHash_rt k h f hc e.1 (hl e he))

/-- `serde_utils::btreemap_as_seq`, generic in both codecs -/
theorem serde_roundtrip_btreemap_as_seq {κ ν} [DecidableEq κ] (h : Bool) (f : Fmt) (tk : κ → SVal) (tv : ν → SVal)
    (pk : SVal → Res κ) (pv : SVal → Res ν) (m : List (κ × ν)) (hnd : (m.map Prod.fst).Nodup)
    (hk : ∀ e ∈ m, pk (lossy f (tk e.1)) = .ok e.1) (hv : ∀ e ∈ m, pv (lossy f (tv e.2)) = .ok e.2) :
    AsSeq.ofS h pk pv (lossy f (AsSeq.toS h tk tv m)) = .ok m := asSeq_rt h f tk tv pk pv m hnd hk hv

/-- `serde_utils::btreemap_as_seq_byte_values`, generic in the key codec -/
theorem serde_roundtrip_btreemap_as_seq_byte_values {κ} [DecidableEq κ] (h : Bool) (f : Fmt) (tk : κ → SVal)
    (pk : SVal → Res κ) (m : List (κ × Bytes)) (hnd : (m.map Prod.fst).Nodup)
    (hk : ∀ e ∈ m, pk (lossy f (tk e.1)) = .ok e.1) :
    AsSeqByteValues.ofS h pk (lossy f (AsSeqByteValues.toS h tk m)) = .ok m := asSeqByteValues_rt h f tk pk m hnd hk

/-- `pset::raw::Key` and `pset::raw::ProprietaryKey` (derived structs with `hex_bytes` fields) -/
theorem serde_roundtrip_raw_key (h : Bool) (f : Fmt) (k : RawKey) (hv : RawKey.ok k) :
    RawKey.ofS h (lossy f (RawKey.toS h k)) = .ok k := rawKey_rt h f k hv
theorem serde_roundtrip_proprietary_key (h : Bool) (f : Fmt) (k : PropKey) (hv : PropKey.ok k) :
    PropKey.ofS h (lossy f (PropKey.toS h k)) = .ok k := propKey_rt h f k hv

/-- the `unknown` and `proprietary` maps of the PSET maps -/
theorem serde_roundtrip_unknown_map (h : Bool) (f : Fmt) (m : List (RawKey × Bytes)) (hnd : (m.map Prod.fst).Nodup)
    (hv : ∀ e ∈ m, RawKey.ok e.1) :
    AsSeqByteValues.ofS h (RawKey.ofS h) (lossy f (AsSeqByteValues.toS h (RawKey.toS h) m)) = .ok m :=
  asSeqByteValues_rt h f _ _ m hnd (fun e he => rawKey_rt h f e.1 (hv e he))
theorem serde_roundtrip_proprietary_map (h : Bool) (f : Fmt) (m : List (PropKey × Bytes)) (hnd : (m.map Prod.fst).Nodup)
    (hv : ∀ e ∈ m, PropKey.ok e.1) :
    AsSeqByteValues.ofS h (PropKey.ofS h) (lossy f (AsSeqByteValues.toS h (PropKey.toS h) m)) = .ok m :=
  asSeqByteValues_rt h f _ _ m hnd (fun e he => propKey_rt h f e.1 (hv e he))

/-- an instance of `btreemap_as_seq`: `pset::Input::tap_script_sigs : BTreeMap<(XOnlyPublicKey, TapLeafHash),
    SchnorrSig>` (`validX`: x-only key validity, a parameter) -/
theorem serde_roundtrip_tap_script_sigs (validX : Bytes → Bool) (h : Bool) (f : Fmt) (hc : compatible h f)
    (m : List ((Bytes × Bytes) × SchnorrSigM)) (hnd : (m.map Prod.fst).Nodup)
    (hk : ∀ e ∈ m, e.1.1.length = 32 ∧ validX e.1.1 = true ∧ e.1.2.length = 32) (hv : ∀ e ∈ m, SchnorrSigM.ok e.2) :
    AsSeq.ofS h (ofSigKey validX h) (SchnorrSigM.ofS h) (lossy f (AsSeq.toS h (sSigKey h) (SchnorrSigM.toS h) m)) = .ok m :=
  asSeq_rt h f _ _ _ _ m hnd (fun e he => sigKey_rt validX h f hc e.1 (hk e he).1 (hk e he).2.1 (hk e he).2.2)
    (fun e he => schnorrSig_rt h f hc e.2 (hv e he))

/-! ## summary -/

/-
  FULL STATEMENT (properties.jsonl C20), serde half: "serializing ANY transaction, input, output, block, block
  header, dynafed parameter set, address, script, confidential commitment, blinding factor, output secret,
  hash newtype or PSET to JSON or CBOR and deserializing it yields an equal value".
  PROVED below: the statement for every type whose impl is hand-written in /repo (everything in the list but
  PSETs and `TxOutSecrets`), over the model of the serde data model, for the JSON view (human readable) and
  the CBOR view (not human readable). `Address` is covered by `serde_roundtrip_string_impl` given its text
  round trip (property C06).
  The hand-written `serde_utils` helper modules the PSET maps use are proved generically above.
  MISSING (hence `_partial`): the `#[derive]`d impls (`pset::{PartiallySignedTransaction, Global, TxData, Input,
  Output}`, `pset::raw::Pair`, `TxOutSecrets`, `TapTree`, `ControlBlock`, `SchnorrSig`, and the dependency types
  inside the PSET maps: `bitcoin::PublicKey`, `bip32::{Xpub, KeySource}`, `bitcoin::Transaction`, …) and the
  byte-level syntax of serde_json / serde_cbor; both are exercised on the real code only.
-/
theorem serde_roundtrip_handwritten_partial (P : Prims) (h : Bool) (f : Fmt) (hc : compatible h f) :
    (∀ v, Value.ok P v → Value.ofS P h (lossy f (Value.toS h v)) = .ok v) ∧
    (∀ v, Asset.ok P v → Asset.ofS P h (lossy f (Asset.toS h v)) = .ok v) ∧
    (∀ v, Nonce.ok P v → Nonce.ofS P h (lossy f (Nonce.toS h v)) = .ok v) ∧
    (∀ b, BlindingFactor.ok P b → BlindingFactor.ofS P h (lossy f (BlindingFactor.toS h b)) = .ok b) ∧
    (∀ k b, b.length = k.len → ofHash k h (lossy f (sHash k h b)) = .ok b) ∧
    (∀ b, ofScript (lossy f (sScript b)) = .ok b) ∧
    (∀ o, OutPoint.ok o → OutPoint.ofS h (lossy f (OutPoint.toS h o)) = .ok o) ∧
    (∀ i, TxIn.ok P i → TxIn.ofS P h (lossy f (TxIn.toS h i)) = .ok i) ∧
    (∀ o, TxOut.ok P o → TxOut.ofS P h (lossy f (TxOut.toS h o)) = .ok o) ∧
    (∀ t, Tx.ok P t → Tx.ofS P h (lossy f (Tx.toS h t)) = .ok t) ∧
    (∀ p, Params.ok p → Params.ofS h (lossy f (Params.toS h p)) = .ok p) ∧
    (∀ b, BlockHeader.ok b → BlockHeader.ofS h (lossy f (BlockHeader.toS h b)) = .ok b) ∧
    (∀ b, Block.ok P b → Block.ofS P h (lossy f (Block.toS h b)) = .ok b) :=
  ⟨fun v hv => value_rt P h f hc v hv, fun v hv => asset_rt P h f hc v hv, fun v hv => nonce_rt P h f v hv,
   fun b hv => blindingFactor_rt P h f hc b hv, fun k b hl => ofHash_rt k h f hc b hl, fun b => ofScript_rt f b,
   fun o hv => outPoint_rt h f hc o hv, fun i hv => txIn_rt P h f hc i hv, fun o hv => txOut_rt P h f hc o hv,
   fun t hv => tx_rt P h f hc t hv, fun p hv => params_rt h f hc p hv, fun b hv => blockHeader_rt h f hc b hv,
   fun b hv => block_rt P h f hc b hv⟩

/-! ## non-vacuity -/

/-- a predicate record under which everything is valid (any `P` works for the examples below) -/
def allValid : Prims :=
  { commitment := fun _ => true, generator := fun _ => true, pubkey := fun _ => true, tweak := fun _ => true,
    rangeproof := fun _ => true, surjproof := fun _ => true, sizeTxIn := 1, sizeTxOut := 1, sizeTx := 1 }

example : String.ofList (outPointShow ⟨List.replicate 32 0, 7⟩) =
    "[elements]0000000000000000000000000000000000000000000000000000000000000000:7" := by decide
example : outPointParse "[elements]0000000000000000000000000000000000000000000000000000000000000000:07".toList
    = .err "vout not canonical" := by decide
example : psbtShow 0x1f = "0x1f" ∧ psbtShow 0x81 = "SIGHASH_ALL|SIGHASH_ANYONECANPAY" := by decide
example : String.ofList (b64Enc [1, 2, 3, 4, 5]) = "AQIDBAU=" := by decide
example : parseU32 "+0012".toList = .ok 12 ∧ parseU32 "4294967296".toList = .err "overflow" := by decide
example : lossy .json (.struct "S" [("a", .bytes [1, 2]), ("b", .some (.newtype "N" (.num 32 7)))]) =
    .map [(.str "a", .seq [.num 0 1, .num 0 2]), (.str "b", .num 0 7)] := by simp [lossy, lossyF]
example : Value.ok allValid (.explicit 5) := by simp [Value.ok]
example : Tx.ok allValid ⟨2, 0, [], [⟨.null, .explicit 1, .null, [0x51], ⟨none, none⟩⟩]⟩ := by
  simp [Tx.ok, TxOut.ok, Asset.ok, Value.ok, Nonce.ok, TxOutWitness.ok, okOptProof]
example : Value.ofS allValid true (lossy .json (Value.toS true (.explicit 5))) = .ok (.explicit 5) :=
  serde_roundtrip_value allValid true .json (fun _ => rfl) _ (by simp [Value.ok])

end EV.Props.C20
