/-
  C03 — signature hashes follow the Elements legacy, segwit-v0 and taproot algorithms.

  Model: `EV/Model/Sighash.lean`.  Part 1 is src/sighash.rs AS CODED (`msgLegacy`, `msgSegwit`,
  `msgTaproot` = the bytes the three `*encode*_signing_data_to` functions write; `legacySighash`,
  `segwitSighash`, `taprootSighash` = the digests).  Part 2 is an INDEPENDENT transcription of the
  specifications (Core's `CTransactionSignatureSerializer` / `SignatureHash`, BIP143 + issuance
  extension, BIP341 + Elements extensions): the record of committed fields (`LegacyView`,
  `SegwitView`, `TaprootView`) is assembled from the numeric hash type with the masks of the
  specifications and then serialised (`serLegacy`, `serSegwit`, `serTaproot`).
  The hash functions are parameters (`SigHashes`); a collision is
  `Collision f := ∃ x y, x ≠ y ∧ f x = f y`.

  Clauses:  *_refines (as coded = specification) · *_ignores (fields not committed) ·
  *_commits (equal digests ⇒ equal committed records ∨ collision) · the SIGHASH_SINGLE-without-
  output and index-out-of-range clauses.
-/
import EV.Proofs.SighashRefine
import EV.Proofs.SighashIgnores
import EV.Proofs.SighashCommitsLS
import EV.Proofs.SighashCommitsT
import EV.Proofs.SighashErrors
import EV.Proofs.SighashViewAgree
import EV.Proofs.MemTx
namespace EV.Props.C03
open EV EV.Codec EV.Sighash EV.Proofs.CodecTx

variable (P : Prims) (H : SigHashes)

/-! ### 1. as coded = specification -/

/-- LEGACY message: for an existing input (and, with SIGHASH_SINGLE, an existing output at its
    index) the bytes written by `encode_legacy_signing_data_to` are the serialization of the record
    Core's index-driven `CTransactionSignatureSerializer` describes, followed by the hash type -/
theorem legacy_msg_refines (tx : Tx) (idx : Nat) (script : Bytes) (ty : EcdsaTy) (h : InRange ty idx tx) :
    msgLegacy tx idx script ty = .ok (serLegacy (specLegacyView tx idx script ty.asU32)) ∧
    msgLegacy tx idx script ty = specLegacy tx idx script ty.asU32 :=
  ⟨legacy_refines tx idx script ty h, legacy_refines_spec tx idx script ty h⟩

/-- LEGACY digest: `legacy_sighash` equals Core's `SignatureHash(SigVersion::BASE)` for every
    existing input, INCLUDING SIGHASH_SINGLE without a corresponding output (the constant ONE) -/
theorem legacy_digest_refines (tx : Tx) (idx : Nat) (script : Bytes) (ty : EcdsaTy) (h : idx < tx.input.length) :
    legacySighash H tx idx script ty = specLegacySighash H tx idx script ty.asU32 :=
  Sighash.legacy_digest_refines H tx idx script ty h

/-- the documented panic of the legacy functions = Core's `assert(nIn < txTo.vin.size())` -/
theorem legacy_out_of_range_panics (tx : Tx) (idx : Nat) (script : Bytes) (ty : EcdsaTy) (h : ¬ idx < tx.input.length) :
    (∃ s, msgLegacy tx idx script ty = .panic s) ∧ (∃ s, specLegacy tx idx script ty.asU32 = .panic s) ∧
    (∃ s, legacySighash H tx idx script ty = .panic s) ∧ (∃ s, specLegacySighash H tx idx script ty.asU32 = .panic s) :=
  legacy_panic H tx idx script ty h

/-- SEGWIT v0: BIP143 with the issuance extension.  The code hashes its cached SHA-256 values once
    more where BIP143 says double SHA-256 (`Dbl H : ∀ x, sha256d x = sha256 (sha256 x)`) -/
theorem segwit_msg_refines (hd : Dbl H) (tx : Tx) (idx : Nat) (sc : Bytes) (v : Value) (ty : EcdsaTy)
    (h : idx < tx.input.length) :
    ∃ vw, specSegwitView tx idx sc v ty.asU32 = some vw ∧ msgSegwit H tx idx sc v ty = .ok (serSegwit H vw) ∧
      specSegwit H tx idx sc v ty.asU32 = msgSegwit H tx idx sc v ty := by
  obtain ⟨vw, h1, h2⟩ := segwit_refines H hd tx idx sc v ty h
  exact ⟨vw, h1, h2, by simp only [specSegwit, h1, h2]⟩

/-- the documented panic of the segwit functions -/
theorem segwit_out_of_range_panics (tx : Tx) (idx : Nat) (sc : Bytes) (v : Value) (ty : EcdsaTy)
    (h : ¬ idx < tx.input.length) :
    (∃ s, msgSegwit H tx idx sc v ty = .panic s) ∧ (∃ s, specSegwit H tx idx sc v ty.asU32 = .panic s) := by
  obtain ⟨h1, h2⟩ := segwit_panic H tx idx sc v ty h
  exact ⟨h1, ⟨"assert(nIn < txTo.vin.size())", by simp only [specSegwit, h2]⟩⟩

/-- TAPROOT: for the seven hash types `SchnorrSighashType::from_u8` accepts, the bytes written by
    `taproot_encode_signing_data_to` — and every error, in the same order — are those of the
    Elements taproot signature message (genesis hash twice, hash type, version, lock time,
    sha_outpoint_flags, sha_prevouts, sha_asset_amounts, sha_scriptpubkeys, sha_sequences,
    sha_issuances, sha_issuance_rangeproofs, sha_outputs, sha_output_witnesses, spend_type, input
    data or index, sha_annex, single output + witness hashes, leaf hash, key version, codesep) -/
theorem taproot_msg_refines (tx : Tx) (idx : Nat) (pv : Prevouts) (annex : Option Bytes)
    (leaf : Option (Bytes × Nat)) (ty : SchnorrTy) (genesis : Bytes) (hty : ty ≠ .reserved) :
    msgTaproot H tx idx pv annex leaf ty genesis = specTaproot H tx idx pv annex leaf ty.byte genesis :=
  taproot_refines H tx idx pv annex leaf ty genesis hty

/-- `from_u8` is the inverse of the `as u8` cast on exactly those seven types -/
theorem schnorr_from_u8_table :
    (∀ ty ∈ SchnorrTy.standard, SchnorrTy.fromU8 ty.byte = some ty) ∧
    (∀ n, n < 256 → ∀ ty, SchnorrTy.fromU8 n = some ty → ty.byte = n ∧ ty ∈ SchnorrTy.standard) := by
  constructor
  · decide
  · decide +kernel

/-- the key-spend and script-spend wrappers are the general function with no annex, and no leaf resp.
    the given leaf hash with code separator position `0xFFFFFFFF` -/
theorem taproot_wrappers (tx : Tx) (idx : Nat) (pv : Prevouts) (ty : SchnorrTy) (g lh : Bytes) :
    taprootKeySighash H tx idx pv ty g = taprootSighash H tx idx pv none none ty g ∧
    taprootScriptSighash H tx idx pv lh ty g = taprootSighash H tx idx pv none (some (lh, 0xFFFFFFFF)) ty g :=
  ⟨rfl, rfl⟩

/-! ### 2. fields the algorithms do not commit to -/

/-- LEGACY.  `legacyAgree ty idx a b` (EV/Proofs/SighashDefs.lean) says: same version and lock time;
    the signed input has the same outpoint, pegin flag, issuance and sequence; unless ANYONECANPAY all
    inputs have the same outpoint, pegin flag, issuance — and, for ALL only, sequence; the outputs
    (without witnesses) agree: all of them (ALL), the one at the input's index (SINGLE), none (NONE).
    Everything else — every `script_sig`, all four witness fields of every input, output witnesses,
    other inputs under ANYONECANPAY, other sequences under NONE/SINGLE, other outputs under
    NONE/SINGLE — does not influence the message (nor the panic, nor the SINGLE constant) -/
theorem legacy_ignores (ty : EcdsaTy) (idx : Nat) (script : Bytes) (a b : Tx) (h : legacyAgree ty idx a b) :
    msgLegacy a idx script ty = msgLegacy b idx script ty ∧
    legacySighash H a idx script ty = legacySighash H b idx script ty := by
  have hm := legacy_ignores' ty idx script a b h
  refine ⟨hm, ?_⟩
  have hin : idx < a.input.length ↔ idx < b.input.length :=
    Ignores.isSome_of_getElem?_map_eq _ _ _ _ h.2.2.1
  have hout : ty.base = .single → (idx < a.output.length ↔ idx < b.output.length) := by
    intro hb
    have := h.2.2.2.2.2
    rw [hb] at this
    exact Ignores.isSome_of_getElem?_map_eq _ _ _ _ this
  simp only [legacySighash, hm]
  by_cases h1 : idx < a.input.length
  · have h1' := hin.1 h1
    by_cases h2 : ty.base = .single ∧ idx ≥ a.output.length
    · have h2' : ty.base = .single ∧ idx ≥ b.output.length := ⟨h2.1, by have := hout h2.1; omega⟩
      simp only [h1, h1', not_true_eq_false, if_false, h2, h2', and_self, if_true]
    · have h2' : ¬ (ty.base = .single ∧ idx ≥ b.output.length) := fun x => h2 ⟨x.1, by have := hout x.1; omega⟩
      simp only [h1, h1', not_true_eq_false, if_false, h2, h2']
  · have h1' : ¬ idx < b.input.length := fun x => h1 (hin.2 x)
    simp only [h1, h1', not_false_eq_true, if_true]

/-- SEGWIT v0.  `segwitAgree`: as for legacy, except that the pegin flag of NO input is committed -/
theorem segwit_ignores (ty : EcdsaTy) (idx : Nat) (sc : Bytes) (v : Value) (a b : Tx) (h : segwitAgree ty idx a b) :
    msgSegwit H a idx sc v ty = msgSegwit H b idx sc v ty ∧
    segwitSighash H a idx sc v ty = segwitSighash H b idx sc v ty := by
  have hm := segwit_ignores' H ty idx sc v a b h
  exact ⟨hm, by simp only [segwitSighash, hm]⟩

/-- TAPROOT.  `taprootAgree`: same version, lock time, same outcome of the prevout-count check;
    with ANYONECANPAY the signed input has the same outpoint, pegin flag, sequence, issuance (and, if
    it has one, issuance range proofs) and its spent output the same asset, amount and script;
    otherwise all inputs have the same outpoint, pegin flag, issuance, sequence, issuance range
    proofs and all spent outputs the same asset, amount, script; the outputs WITH witnesses agree:
    all (DEFAULT/ALL), the one at the input's index (SINGLE), none (NONE).
    Not committed: every `script_sig`, script witness and pegin witness, nonces and witnesses of
    spent outputs, other inputs/spent outputs under ANYONECANPAY, other outputs under NONE/SINGLE -/
theorem taproot_ignores (ty : SchnorrTy) (idx : Nat) (annex : Option Bytes) (leaf : Option (Bytes × Nat)) (g : Bytes)
    (a b : Tx) (pa pb : Prevouts) (h : taprootAgree ty idx a b pa pb) :
    msgTaproot H a idx pa annex leaf ty g = msgTaproot H b idx pb annex leaf ty g ∧
    taprootSighash H a idx pa annex leaf ty g = taprootSighash H b idx pb annex leaf ty g := by
  have hm := taproot_ignores' H ty idx annex leaf g a b pa pb h
  exact ⟨hm, by simp only [taprootSighash, hm]⟩

/-- in particular: no algorithm reads a script witness or a `script_sig` (the two things a signer
    fills in) -/
theorem script_sig_and_witness_irrelevant (tx : Tx) (k : Nat) (sig : Bytes) (st pw : List Bytes) :
    let tx' : Tx := { tx with input := tx.input.modify k (fun i =>
      { i with scriptSig := sig, witness := { i.witness with scriptWitness := st, peginWitness := pw } }) }
    (∀ ty idx, legacyAgree ty idx tx tx') ∧ (∀ ty idx, segwitAgree ty idx tx tx') ∧
    (∀ ty idx pv, taprootAgree ty idx tx tx' pv pv) := by
  intro tx'
  have hlen : tx'.input.length = tx.input.length := List.length_modify _ _ _
  have hget : ∀ (β : Type) (g : TxIn → β), (∀ i sig st pw, g { i with scriptSig := sig, witness :=
      { i.witness with scriptWitness := st, peginWitness := pw } } = g i) →
      ∀ j : Nat, (tx.input[j]?).map g = (tx'.input[j]?).map g := by
    intro β g hg j
    simp only [tx', List.getElem?_modify]
    cases tx.input[j]? with
    | none => rfl
    | some x =>
      simp only [Option.map_some, Functor.map]
      by_cases hk : k = j <;> simp [hk, hg]
  have hmap : ∀ (β : Type) (g : TxIn → β), (∀ i sig st pw, g { i with scriptSig := sig, witness :=
      { i.witness with scriptWitness := st, peginWitness := pw } } = g i) →
      tx.input.map g = tx'.input.map g := by
    intro β g hg
    apply List.ext_getElem?
    intro j
    simp only [List.getElem?_map]
    exact hget β g hg j
  refine ⟨?_, ?_, ?_⟩
  · intro ty idx
    refine ⟨rfl, rfl, hget _ _ (fun _ _ _ _ => rfl) idx, fun _ => hmap _ _ (fun _ _ _ _ => rfl),
      fun _ _ => hmap _ _ (fun _ _ _ _ => rfl), ?_⟩
    cases ty.base <;> simp only [tx']
  · intro ty idx
    refine ⟨rfl, rfl, hget _ _ (fun _ _ _ _ => rfl) idx, fun _ => hmap _ _ (fun _ _ _ _ => rfl),
      fun _ _ => hmap _ _ (fun _ _ _ _ => rfl), ?_⟩
    cases ty.base <;> simp only [tx']
  · intro ty idx pv
    refine ⟨rfl, rfl, ?_, ?_, ?_⟩
    · cases pv with
      | one j p => rfl
      | all ps => simp only [Prevouts.checkAll, hlen]
    · by_cases hacp : ty.acp = true
      · rw [if_pos hacp]
        exact ⟨hget _ _ (fun _ _ _ _ => rfl) idx, fun _ => rfl⟩
      · rw [if_neg hacp]
        exact ⟨hmap _ _ (fun _ _ _ _ => rfl), rfl⟩
    · show (if ty.isSingle = true then tx.output[idx]? = tx.output[idx]?
            else if ty.isNone = true then True else tx.output = tx.output)
      split
      · rfl
      · split
        · trivial
        · rfl

/-! ### 3. committed fields: equal digests ⇒ equal committed records ∨ collision -/

/-- LEGACY: two in-range queries with the same digest sign the same record (version, inputs as
    signed — outpoint with flags, script, sequence, issuance —, outputs as signed, lock time, hash
    type), or a SHA-256d collision is exhibited -/
theorem legacy_commits (hs : SizesPos P) (a b : Tx) (ha : a.wf P) (hb : b.wf P) (i j : Nat) (sa sb : Bytes)
    (ta tb : EcdsaTy) (hsa : sa.length ≤ maxVecSize) (hsb : sb.length ≤ maxVecSize)
    (ra : InRange ta i a) (rb : InRange tb j b)
    (h : legacySighash H a i sa ta = legacySighash H b j sb tb) :
    specLegacyView a i sa ta.asU32 = specLegacyView b j sb tb.asU32 ∨ Collision H.sha256d := by
  have e : ∀ (t : Tx) (k : Nat) (s : Bytes) (ty : EcdsaTy), InRange ty k t →
      legacySighash H t k s ty = .ok (H.sha256d (serLegacy (specLegacyView t k s ty.asU32))) := by
    intro t k s ty r
    have h1 : ¬ ¬ k < t.input.length := fun x => x r.1
    have h2 : ¬ (ty.base = .single ∧ k ≥ t.output.length) := fun x => by have := r.2 x.1; omega
    simp only [legacySighash, if_neg h1, if_neg h2, legacy_refines t k s ty r, Res.map, Res.bind]
  rw [e a i sa ta ra, e b j sb tb rb] at h
  simp only [Res.ok.injEq] at h
  by_cases hser : serLegacy (specLegacyView a i sa ta.asU32) = serLegacy (specLegacyView b j sb tb.asU32)
  · exact Or.inl (serLegacy_injective P _ _ (specLegacyView_wf P hs a ha i sa ta hsa ra)
      (specLegacyView_wf P hs b hb j sb tb hsb rb) hser)
  · exact Or.inr ⟨_, _, hser, h⟩

/-- … in particular the hash type, version and lock time -/
theorem legacy_commits_type (a b : Tx) (i j : Nat) (sa sb : Bytes) (ta tb : EcdsaTy)
    (h : specLegacyView a i sa ta.asU32 = specLegacyView b j sb tb.asU32) :
    ta = tb ∧ a.version = b.version ∧ a.lockTime = b.lockTime := by
  have h1 := congrArg LegacyView.hashType h
  have h2 := congrArg LegacyView.version h
  have h3 := congrArg LegacyView.lockTime h
  simp only [specLegacyView] at h1 h2 h3
  refine ⟨?_, h2, h3⟩
  revert h1
  cases ta <;> cases tb <;> decide

/-- SEGWIT v0: two queries on existing inputs with the same digest have the same BIP143 record
    (`sameCommitted`: every field; the per-input issuances through their concatenation only, see
    `serSegwit_injective`), or a SHA-256d collision is exhibited, or a preimage of the all-zero
    hash (which BIP143 uses for "SIGHASH_SINGLE without output") -/
theorem segwit_commits (hl : HashLen H) (hd : Dbl H) (a b : Tx) (ha : a.wf P) (hb : b.wf P) (i j : Nat)
    (sca scb : Bytes) (va vb : Value) (ta tb : EcdsaTy)
    (hsa : sca.length ≤ maxVecSize) (hsb : scb.length ≤ maxVecSize) (hva : va.wf P) (hvb : vb.wf P)
    (hi : i < a.input.length) (hj : j < b.input.length)
    (h : segwitSighash H a i sca va ta = segwitSighash H b j scb vb tb) :
    ∃ x y, specSegwitView a i sca va ta.asU32 = some x ∧ specSegwitView b j scb vb tb.asU32 = some y ∧
      (x.sameCommitted y ∨ Collision H.sha256d ∨ ZeroPreimage H.sha256d) := by
  obtain ⟨x, hx, mx⟩ := segwit_refines H hd a i sca va ta hi
  obtain ⟨y, hy, my⟩ := segwit_refines H hd b j scb vb tb hj
  refine ⟨x, y, hx, hy, ?_⟩
  simp only [segwitSighash, mx, my, Res.map, Res.bind, Res.ok.injEq] at h
  by_cases hser : serSegwit H x = serSegwit H y
  · exact serSegwit_injective P H hl x y (specSegwitView_wf P a ha i sca va ta hsa hva x hx)
      (specSegwitView_wf P b hb j scb vb tb hsb hvb y hy) hser
  · exact Or.inr (Or.inl ⟨_, _, hser, h⟩)

/-- TAPROOT: two successful queries (any of the seven hash types) with the same digest have the same
    Elements-taproot record — genesis hash, hash type, version, lock time, input data (all inputs
    and spent outputs, or the signed one), outputs with witnesses, annex, leaf hash and code
    separator position — or a collision of SHA-256 or of the tagged hash is exhibited -/
theorem taproot_commits (hl : HashLen H) (a b : Tx) (ha : a.wf P) (hb : b.wf P) (i j : Nat) (pa pb : Prevouts)
    (anna annb : Option Bytes) (la lb : Option (Bytes × Nat)) (ta tb : SchnorrTy) (ga gb : Bytes)
    (hta : ta ≠ .reserved) (htb : tb ≠ .reserved) (hpa : pa.wf P) (hpb : pb.wf P)
    (hga : ga.length = 32) (hgb : gb.length = 32)
    (hanna : ∀ x, anna = some x → x.length ≤ maxVecSize) (hannb : ∀ x, annb = some x → x.length ≤ maxVecSize)
    (hla : ∀ h p, la = some (h, p) → h.length = 32 ∧ p < 2^32) (hlb : ∀ h p, lb = some (h, p) → h.length = 32 ∧ p < 2^32)
    (d : Bytes) (h1 : taprootSighash H a i pa anna la ta ga = .ok d) (h2 : taprootSighash H b j pb annb lb tb gb = .ok d) :
    (∃ v, specTaprootView a i pa anna la ta.byte ga = .ok v ∧ specTaprootView b j pb annb lb tb.byte gb = .ok v) ∨
    Collision H.sha256 ∨ Collision (H.tagged Gen.tapSighashTag) := by
  simp only [taprootSighash, taproot_refines H _ _ _ _ _ _ _ hta, taproot_refines H _ _ _ _ _ _ _ htb, specTaproot] at h1 h2
  cases hva : specTaprootView a i pa anna la ta.byte ga with
  | err e => rw [hva] at h1; cases h1
  | panic s => rw [hva] at h1; cases h1
  | ok va =>
    cases hvb : specTaprootView b j pb annb lb tb.byte gb with
    | err e => rw [hvb] at h2; cases h2
    | panic s => rw [hvb] at h2; cases h2
    | ok vb =>
      rw [hva] at h1; rw [hvb] at h2
      simp only [Res.map, Res.bind, Res.ok.injEq] at h1 h2
      by_cases hser : serTaproot H va = serTaproot H vb
      · rcases serTaproot_injective P H hl va vb
          (specTaprootView_wf P a ha i pa anna la ta.byte ga hpa hga hanna hla va hva)
          (specTaprootView_wf P b hb j pb annb lb tb.byte gb hpb hgb hannb hlb vb hvb) hser with heq | hc
        · exact Or.inl ⟨va, rfl, by rw [heq]⟩
        · exact Or.inr (Or.inl hc)
      · exact Or.inr (Or.inr ⟨_, _, hser, by rw [h1, h2]⟩)

/-! ### 3b. "exactly": for a fixed hash type and input index, equal digests ⇒ agreement on the named
    fields (the converse of `*_ignores`), or a collision -/

/-- LEGACY: same digest ⇒ same script code and `legacyAgree`, or a SHA-256d collision -/
theorem legacy_commits_agree (hs : SizesPos P) (a b : Tx) (ha : a.wf P) (hb : b.wf P) (ty : EcdsaTy) (idx : Nat)
    (sa sb : Bytes) (hsa : sa.length ≤ maxVecSize) (hsb : sb.length ≤ maxVecSize)
    (ra : InRange ty idx a) (rb : InRange ty idx b)
    (h : legacySighash H a idx sa ty = legacySighash H b idx sb ty) :
    (legacyAgree ty idx a b ∧ sa = sb) ∨ Collision H.sha256d := by
  rcases legacy_commits P H hs a b ha hb idx idx sa sb ty ty hsa hsb ra rb h with hv | hc
  · exact Or.inl (legacyAgree_of_view ty idx a b sa sb ra rb hv)
  · exact Or.inr hc

/-- SEGWIT v0: same digest ⇒ same script code, same amount and `segwitAgreeC` (= `segwitAgree` with the
    per-input issuances known through their concatenation), or a collision / zero-hash preimage -/
theorem segwit_commits_agree (hl : HashLen H) (hd : Dbl H) (a b : Tx) (ha : a.wf P) (hb : b.wf P) (ty : EcdsaTy)
    (idx : Nat) (sca scb : Bytes) (va vb : Value)
    (hsa : sca.length ≤ maxVecSize) (hsb : scb.length ≤ maxVecSize) (hva : va.wf P) (hvb : vb.wf P)
    (hi : idx < a.input.length) (hj : idx < b.input.length)
    (h : segwitSighash H a idx sca va ty = segwitSighash H b idx scb vb ty) :
    (segwitAgreeC ty idx a b ∧ sca = scb ∧ va = vb) ∨ Collision H.sha256d ∨ ZeroPreimage H.sha256d := by
  obtain ⟨x, y, hx, hy, hr⟩ := segwit_commits P H hl hd a b ha hb idx idx sca scb va vb ty ty hsa hsb hva hvb hi hj h
  rcases hr with hs | hc
  · exact Or.inl (segwitAgreeC_of_view ty idx a b sca scb va vb x y hx hy hs)
  · exact Or.inr hc

/-- `segwitAgree` implies `segwitAgreeC` (so `segwit_ignores` applies to the stronger, readable one) -/
theorem segwit_agree_weaken (ty : EcdsaTy) (idx : Nat) (a b : Tx) (h : segwitAgree ty idx a b) :
    segwitAgreeC ty idx a b := segwitAgreeC_of_agree ty idx a b h

/-- TAPROOT: same digest (two successful queries, same type and index) ⇒ same annex, leaf, genesis
    hash and `taprootAgree`, or a collision of SHA-256 / the tagged hash -/
theorem taproot_commits_agree (hl : HashLen H) (a b : Tx) (ha : a.wf P) (hb : b.wf P) (ty : SchnorrTy) (idx : Nat)
    (pa pb : Prevouts) (anna annb : Option Bytes) (la lb : Option (Bytes × Nat)) (ga gb : Bytes)
    (hty : ty ≠ .reserved) (hpa : pa.wf P) (hpb : pb.wf P) (hga : ga.length = 32) (hgb : gb.length = 32)
    (hanna : ∀ x, anna = some x → x.length ≤ maxVecSize) (hannb : ∀ x, annb = some x → x.length ≤ maxVecSize)
    (hla : ∀ h p, la = some (h, p) → h.length = 32 ∧ p < 2^32) (hlb : ∀ h p, lb = some (h, p) → h.length = 32 ∧ p < 2^32)
    (d : Bytes) (h1 : taprootSighash H a idx pa anna la ty ga = .ok d) (h2 : taprootSighash H b idx pb annb lb ty gb = .ok d) :
    (taprootAgree ty idx a b pa pb ∧ anna = annb ∧ la = lb ∧ ga = gb) ∨
    Collision H.sha256 ∨ Collision (H.tagged Gen.tapSighashTag) := by
  rcases taproot_commits P H hl a b ha hb idx idx pa pb anna annb la lb ty ty ga gb hty hty hpa hpb hga hgb
    hanna hannb hla hlb d h1 h2 with ⟨v, hva, hvb⟩ | hc
  · exact Or.inl (taprootAgree_of_view ty hty idx a b pa pb anna annb la lb ga gb v hva hvb)
  · exact Or.inr hc

/-! ### 4. SIGHASH_SINGLE without a corresponding output; index out of range -/

/-- LEGACY: index ≥ #outputs with SINGLE (with or without ANYONECANPAY): the encoder writes the
    32 bytes `01 00 … 00` and the digest is that constant (Core's `uint256::ONE`) — for every
    transaction, script and (SINGLE) type -/
theorem single_oob_legacy (tx : Tx) (idx : Nat) (script : Bytes) (ty : EcdsaTy)
    (h1 : idx < tx.input.length) (h2 : ty.base = .single) (h3 : idx ≥ tx.output.length) :
    msgLegacy tx idx script ty = .ok uint256One ∧ legacySighash H tx idx script ty = .ok uint256One ∧
    specLegacySighash H tx idx script ty.asU32 = .ok uint256One := by
  obtain ⟨a, b⟩ := single_oob_legacy' H tx idx script ty h1 h2 h3
  exact ⟨a, b, by rw [← Sighash.legacy_digest_refines H tx idx script ty h1, b]⟩

/-- TAPROOT: SINGLE without a corresponding output is always an error, and it is
    `SingleWithoutCorrespondingOutput` when the earlier checks pass -/
theorem single_oob_taproot_err (tx : Tx) (idx : Nat) (pv : Prevouts) (annex : Option Bytes)
    (leaf : Option (Bytes × Nat)) (ty : SchnorrTy) (g : Bytes)
    (hs : ty.isSingle = true) (h : idx ≥ tx.output.length) :
    (∃ e, msgTaproot H tx idx pv annex leaf ty g = .err e) ∧
    (∃ e, taprootSighash H tx idx pv annex leaf ty g = .err e) ∧
    (∀ b1 b2, pv.checkAll tx = .ok () → tapInsPart H tx pv ty = .ok b1 → tapThisPart H tx idx pv ty = .ok b2 →
      msgTaproot H tx idx pv annex leaf ty g = .err eSingle) := by
  obtain ⟨⟨e, he⟩, h2⟩ := single_oob_taproot_err' H tx idx pv annex leaf ty g hs h
  exact ⟨⟨e, he⟩, ⟨e, by simp only [taprootSighash, he, Res.map, Res.bind]⟩, h2⟩

/-- TAPROOT with ANYONECANPAY: an input index that does not exist is `IndexOutOfInputsBounds`
    (`PrevoutsSize` if a prevout list of the wrong size was passed) -/
theorem taproot_index_err (tx : Tx) (idx : Nat) (pv : Prevouts) (annex : Option Bytes)
    (leaf : Option (Bytes × Nat)) (ty : SchnorrTy) (g : Bytes)
    (hacp : ty.acp = true) (h : ¬ idx < tx.input.length) :
    (pv.checkAll tx = .ok () → msgTaproot H tx idx pv annex leaf ty g = .err eIndex) ∧
    (pv.checkAll tx ≠ .ok () → msgTaproot H tx idx pv annex leaf ty g = .err ePrevoutsSize) :=
  taproot_index_err' H tx idx pv annex leaf ty g hacp h

/-- the taproot encoder never panics: a message or one of its five error classes -/
theorem taproot_never_panics (tx : Tx) (idx : Nat) (pv : Prevouts) (annex : Option Bytes)
    (leaf : Option (Bytes × Nat)) (ty : SchnorrTy) (g : Bytes) :
    (∃ m, msgTaproot H tx idx pv annex leaf ty g = .ok m) ∨
    (∃ e, e ∈ [ePrevoutsSize, ePrevoutKind, eIndex, ePrevoutIndex, eSingle] ∧
      msgTaproot H tx idx pv annex leaf ty g = .err e) :=
  taproot_total H tx idx pv annex leaf ty g

/-- OBSERVATION (as coded, not a defect of the digest): without ANYONECANPAY the input index is
    not checked against the number of inputs, only serialized as a `u32` -/
theorem taproot_index_unchecked_without_anyonecanpay (tx : Tx) (idx : Nat) (ps : List TxOut) (annex : Option Bytes)
    (leaf : Option (Bytes × Nat)) (ty : SchnorrTy) (g : Bytes)
    (hacp : ty.acp = false) (hs : ty.isSingle = false) (hlen : ps.length = tx.input.length) :
    ∃ m, msgTaproot H tx idx (.all ps) annex leaf ty g = .ok m :=
  taproot_index_unchecked H tx idx ps annex leaf ty g hacp hs hlen

/-! ### tie machinery: the in-memory transport of the correspondence run is faithful

  The digests are functions of in-memory `Transaction` values, some of which the consensus encoding cannot carry
  (an all-ones outpoint index together with a pegin flag or an issuance: the taproot outpoint flag is computed from
  the FIELDS). For those the harness sends the transaction field by field (`m:` argument); this theorem is why the
  model then evaluates the query on exactly the value the real code holds. -/

/-- decoding what the transport wrote returns the transaction, under field-size conditions only (no relation
    between index and flags is required) -/
theorem transport_faithful (P : Prims) (t : Tx) (r : Bytes) (h : EV.Proofs.MemTx.wfTx P t) :
    EV.Driver.MemTx.dec P (EV.Driver.MemTx.enc t ++ r) = .ok (t, r) :=
  EV.Proofs.MemTx.dec_complete P t r h

/-! ### non-vacuity -/

/-- a canonical two-input / one-output transaction: input 1 is out of range for SINGLE -/
def exTx : Tx :=
  ⟨2, 0, [⟨⟨List.replicate 32 1, 0⟩, false, [0x51], 0xfffffffe, AssetIssuance.null, TxInWitness.empty⟩,
          ⟨⟨List.replicate 32 2, 1⟩, true, [], 7, AssetIssuance.null, ⟨none, none, [[1, 2]], []⟩⟩],
         [⟨.explicit (List.replicate 32 3), .explicit 5, .null, [0x6a], TxOutWitness.empty⟩]⟩

example : InRange .all 1 exTx ∧ InRange .single 0 exTx ∧ ¬ InRange .single 1 exTx := by
  simp only [InRange]; decide

/-- changing the script witness and `script_sig` of input 1 changes the transaction but keeps all
    three `…Agree` predicates -/
example : (setScriptWitness exTx 1 [[9]] ≠ exTx) := by decide

example : msgLegacy exTx 1 [0xac] .single = .ok uint256One := by decide

end EV.Props.C03
