/-
  C03 — signature hashes follow the Elements legacy, segwit-v0 and taproot algorithms.

  Model: `EV/Model/Sighash.lean`.  Part 1 is src/sighash.rs AS CODED (`msgLegacy`, `msgSegwit`,
  `msgTaproot` = the bytes the three `*encode*_signing_data_to` functions write; `legacySighash`,
  `segwitSighash`, `taprootSighash` = the digests).  Part 2 is an INDEPENDENT transcription of the
  specifications (Core's `CTransactionSignatureSerializer` / `SignatureHash`, BIP143 + issuance
  extension, BIP341 + Elements extensions): the record of committed fields (`LegacyView`,
  `SegwitView`, `TaprootView`) is assembled from the numeric hash type with the masks of the
  specifications and then serialised (`serLegacy`, `serSegwit`, `serTaproot`).
  The hash functions are parameters (`SigHashes`); a collision is
  `Collision f := ∃ x y, x ≠ y ∧ f x = f y`.

  Clauses:  *_refines (as coded = specification) · *_ignores (fields not committed) ·
  *_commits (equal digests ⇒ equal committed records ∨ collision) · the SIGHASH_SINGLE-without-
  output and index-out-of-range clauses.
-/
import EV.Proofs.SighashRefine
import EV.Proofs.SighashIgnores
import EV.Proofs.SighashCommitsLS
import EV.Proofs.SighashCommitsT
import EV.Proofs.SighashErrors
import EV.Proofs.SighashViewAgree
import EV.Proofs.MemTx
import EV.Proofs.BridgeTapLeaf
import EV.Proofs.BridgeSighashCodec
namespace EV.Props.C03
open EV EV.Codec EV.Sighash EV.Proofs.CodecTx

variable (P : Prims) (H : SigHashes)

/-! ### 1. as coded = specification -/

/-- LEGACY message: for an existing input (and, with SIGHASH_SINGLE, an existing output at its
    index) the bytes written by `encode_legacy_signing_data_to` are the serialization of the record
    Core's index-driven `CTransactionSignatureSerializer` describes, followed by the hash type -/
theorem legacy_msg_refines (tx : Tx) (idx : Nat) (script : Bytes) (ty : EcdsaTy) (h : InRange ty idx tx) :
    msgLegacy tx idx script ty = .ok (serLegacy (specLegacyView tx idx script ty.asU32)) ∧
    msgLegacy tx idx script ty = specLegacy tx idx script ty.asU32 :=
  ⟨legacy_refines tx idx script ty h, legacy_refines_spec tx idx script ty h⟩

/-- LEGACY digest: `legacy_sighash` equals Core's `SignatureHash(SigVersion::BASE)` for every
    existing input, INCLUDING SIGHASH_SINGLE without a corresponding output (the constant ONE) -/
theorem legacy_digest_refines (tx : Tx) (idx : Nat) (script : Bytes) (ty : EcdsaTy) (h : idx < tx.input.length) :
    legacySighash H tx idx script ty = specLegacySighash H tx idx script ty.asU32 :=
  Sighash.legacy_digest_refines H tx idx script ty h

/-- the documented panic of the legacy functions = Core's `assert(nIn < txTo.vin.size())` -/
theorem legacy_out_of_range_panics (tx : Tx) (idx : Nat) (script : Bytes) (ty : EcdsaTy) (h : ¬ idx < tx.input.length) :
    (∃ s, msgLegacy tx idx script ty = .panic s) ∧ (∃ s, specLegacy tx idx script ty.asU32 = .panic s) ∧
    (∃ s, legacySighash H tx idx script ty = .panic s) ∧ (∃ s, specLegacySighash H tx idx script ty.asU32 = .panic s) :=
  legacy_panic H tx idx script ty h

/-- SEGWIT v0: BIP143 with the issuance extension.  The code hashes its cached SHA-256 values once
    more where BIP143 says double SHA-256 (`Dbl H : ∀ x, sha256d x = sha256 (sha256 x)`) -/
theorem segwit_msg_refines (hd : Dbl H) (tx : Tx) (idx : Nat) (sc : Bytes) (v : Value) (ty : EcdsaTy)
    (h : idx < tx.input.length) :
    ∃ vw, specSegwitView tx idx sc v ty.asU32 = some vw ∧ msgSegwit H tx idx sc v ty = .ok (serSegwit H vw) ∧
      specSegwit H tx idx sc v ty.asU32 = msgSegwit H tx idx sc v ty := by
  obtain ⟨vw, h1, h2⟩ := segwit_refines H hd tx idx sc v ty h
  exact ⟨vw, h1, h2, by simp only [specSegwit, h1, h2]⟩

/-- the documented panic of the segwit functions -/
theorem segwit_out_of_range_panics (tx : Tx) (idx : Nat) (sc : Bytes) (v : Value) (ty : EcdsaTy)
    (h : ¬ idx < tx.input.length) :
    (∃ s, msgSegwit H tx idx sc v ty = .panic s) ∧ (∃ s, specSegwit H tx idx sc v ty.asU32 = .panic s) := by
  obtain ⟨h1, h2⟩ := segwit_panic H tx idx sc v ty h
  exact ⟨h1, ⟨"assert(nIn < txTo.vin.size())", by simp only [specSegwit, h2]⟩⟩

/-- TAPROOT: for the seven hash types `SchnorrSighashType::from_u8` accepts, the bytes written by
    `taproot_encode_signing_data_to` — and every error, in the same order — are those of the
    Elements taproot signature message (genesis hash twice, hash type, version, lock time,
    sha_outpoint_flags, sha_prevouts, sha_asset_amounts, sha_scriptpubkeys, sha_sequences,
    sha_issuances, sha_issuance_rangeproofs, sha_outputs, sha_output_witnesses, spend_type, input
    data or index, sha_annex, single output + witness hashes, leaf hash, key version, codesep) -/
theorem taproot_msg_refines (tx : Tx) (idx : Nat) (pv : Prevouts) (annex : Option Bytes)
    (leaf : Option (Bytes × Nat)) (ty : SchnorrTy) (genesis : Bytes) (hty : ty ≠ .reserved) :
    msgTaproot H tx idx pv annex leaf ty genesis = specTaproot H tx idx pv annex leaf ty.byte genesis :=
  taproot_refines H tx idx pv annex leaf ty genesis hty

/-- `from_u8` is the inverse of the `as u8` cast on exactly those seven types -/
theorem schnorr_from_u8_table :
    (∀ ty ∈ SchnorrTy.standard, SchnorrTy.fromU8 ty.byte = some ty) ∧
    (∀ n, n < 256 → ∀ ty, SchnorrTy.fromU8 n = some ty → ty.byte = n ∧ ty ∈ SchnorrTy.standard) := by
  constructor
  · decide
  · decide +kernel

/-- the key-spend and script-spend wrappers are the general function with no annex, and no leaf resp.
    the given leaf hash with code separator position `0xFFFFFFFF` -/
theorem taproot_wrappers (tx : Tx) (idx : Nat) (pv : Prevouts) (ty : SchnorrTy) (g lh : Bytes) :
    taprootKeySighash H tx idx pv ty g = taprootSighash H tx idx pv none none ty g ∧
    taprootScriptSighash H tx idx pv lh ty g = taprootSighash H tx idx pv none (some (lh, 0xFFFFFFFF)) ty g :=
  ⟨rfl, rfl⟩

/-! ### 2. fields the algorithms do not commit to -/

/-- LEGACY.  `legacyAgree ty idx a b` (EV/Proofs/SighashDefs.lean) says: same version and lock time;
    the signed input has the same outpoint, pegin flag, issuance and sequence; unless ANYONECANPAY all
    inputs have the same outpoint, pegin flag, issuance — and, for ALL only, sequence; the outputs
    (without witnesses) agree: all of them (ALL), the one at the input's index (SINGLE), none (NONE).
    Everything else — every `script_sig`, all four witness fields of every input, output witnesses,
    other inputs under ANYONECANPAY, other sequences under NONE/SINGLE, other outputs under
    NONE/SINGLE — does not influence the message (nor the panic, nor the SINGLE constant) -/
theorem legacy_ignores (ty : EcdsaTy) (idx : Nat) (script : Bytes) (a b : Tx) (h : legacyAgree ty idx a b) :
    msgLegacy a idx script ty = msgLegacy b idx script ty ∧
    legacySighash H a idx script ty = legacySighash H b idx script ty := by
  have hm := legacy_ignores' ty idx script a b h
  refine ⟨hm, ?_⟩
  have hin : idx < a.input.length ↔ idx < b.input.length :=
    Ignores.isSome_of_getElem?_map_eq _ _ _ _ h.2.2.1
  have hout : ty.base = .single → (idx < a.output.length ↔ idx < b.output.length) := by
    intro hb
    have := h.2.2.2.2.2
    rw [hb] at this
    exact Ignores.isSome_of_getElem?_map_eq _ _ _ _ this
  simp only [legacySighash, hm]
  by_cases h1 : idx < a.input.length
  · have h1' := hin.1 h1
    by_cases h2 : ty.base = .single ∧ idx ≥ a.output.length
    · have h2' : ty.base = .single ∧ idx ≥ b.output.length := ⟨h2.1, by have := hout h2.1; omega⟩
      simp only [h1, h1', not_true_eq_false, if_false, h2, h2', and_self, if_true]
    · have h2' : ¬ (ty.base = .single ∧ idx ≥ b.output.length) := fun x => h2 ⟨x.1, by have := hout x.1; omega⟩
      simp only [h1, h1', not_true_eq_false, if_false, h2, h2']
  · have h1' : ¬ idx < b.input.length := fun x => h1 (hin.2 x)
    simp only [h1, h1', not_false_eq_true, if_true]

/-- SEGWIT v0.  `segwitAgree`: as for legacy, except that the pegin flag of NO input is committed -/
theorem segwit_ignores (ty : EcdsaTy) (idx : Nat) (sc : Bytes) (v : Value) (a b : Tx) (h : segwitAgree ty idx a b) :
    msgSegwit H a idx sc v ty = msgSegwit H b idx sc v ty ∧
    segwitSighash H a idx sc v ty = segwitSighash H b idx sc v ty := by
  have hm := segwit_ignores' H ty idx sc v a b h
  exact ⟨hm, by simp only [segwitSighash, hm]⟩

/-- TAPROOT.  `taprootAgree`: same version, lock time, same outcome of the prevout-count check;
    with ANYONECANPAY the signed input has the same outpoint, pegin flag, sequence, issuance (and, if
    it has one, issuance range proofs) and its spent output the same asset, amount and script;
    otherwise all inputs have the same outpoint, pegin flag, issuance, sequence, issuance range
    proofs and all spent outputs the same asset, amount, script; the outputs WITH witnesses agree:
    all (DEFAULT/ALL), the one at the input's index (SINGLE), none (NONE).
    Not committed: every `script_sig`, script witness and pegin witness, nonces and witnesses of
    spent outputs, other inputs/spent outputs under ANYONECANPAY, other outputs under NONE/SINGLE -/
theorem taproot_ignores (ty : SchnorrTy) (idx : Nat) (annex : Option Bytes) (leaf : Option (Bytes × Nat)) (g : Bytes)
    (a b : Tx) (pa pb : Prevouts) (h : taprootAgree ty idx a b pa pb) :
    msgTaproot H a idx pa annex leaf ty g = msgTaproot H b idx pb annex leaf ty g ∧
    taprootSighash H a idx pa annex leaf ty g = taprootSighash H b idx pb annex leaf ty g := by
  have hm := taproot_ignores' H ty idx annex leaf g a b pa pb h
  exact ⟨hm, by simp only [taprootSighash, hm]⟩

/-- in particular: no algorithm reads a script witness or a `script_sig` (the two things a signer
    fills in) -/
theorem script_sig_and_witness_irrelevant (tx : Tx) (k : Nat) (sig : Bytes) (st pw : List Bytes) :
    let tx' : Tx := { tx with input := tx.input.modify k (fun i =>
      { i with scriptSig := sig, witness := { i.witness with scriptWitness := st, peginWitness := pw } }) }
    (∀ ty idx, legacyAgree ty idx tx tx') ∧ (∀ ty idx, segwitAgree ty idx tx tx') ∧
    (∀ ty idx pv, taprootAgree ty idx tx tx' pv pv) := by
  intro tx'
  have hlen : tx'.input.length = tx.input.length := List.length_modify _ _ _
  have hget : ∀ (β : Type) (g : TxIn → β), (∀ i sig st pw, g { i with scriptSig := sig, witness :=
      { i.witness with scriptWitness := st, peginWitness := pw } } = g i) →
      ∀ j : Nat, (tx.input[j]?).map g = (tx'.input[j]?).map g := by
    intro β g hg j
    simp only [tx', List.getElem?_modify]
    cases tx.input[j]? with
    | none => rfl
    | some x =>
      simp only [Option.map_some, Functor.map]
      by_cases hk : k = j <;> simp [hk, hg]
  have hmap : ∀ (β : Type) (g : TxIn → β), (∀ i sig st pw, g { i with scriptSig := sig, witness :=
      { i.witness with scriptWitness := st, peginWitness := pw } } = g i) →
      tx.input.map g = tx'.input.map g := by
    intro β g hg
    apply List.ext_getElem?
    intro j
    simp only [List.getElem?_map]
    exact hget β g hg j
  refine ⟨?_, ?_, ?_⟩
  · intro ty idx
    refine ⟨rfl, rfl, hget _ _ (fun _ _ _ _ => rfl) idx, fun _ => hmap _ _ (fun _ _ _ _ => rfl),
      fun _ _ => hmap _ _ (fun _ _ _ _ => rfl), ?_⟩
    cases ty.base <;> simp only [tx']
  · intro ty idx
    refine ⟨rfl, rfl, hget _ _ (fun _ _ _ _ => rfl) idx, fun _ => hmap _ _ (fun _ _ _ _ => rfl),
      fun _ _ => hmap _ _ (fun _ _ _ _ => rfl), ?_⟩
    cases ty.base <;> simp only [tx']
  · intro ty idx pv
    refine ⟨rfl, rfl, ?_, ?_, ?_⟩
    · cases pv with
      | one j p => rfl
      | all ps => simp only [Prevouts.checkAll, hlen]
    · by_cases hacp : ty.acp = true
      · rw [if_pos hacp]
        exact ⟨hget _ _ (fun _ _ _ _ => rfl) idx, fun _ => rfl⟩
      · rw [if_neg hacp]
        exact ⟨hmap _ _ (fun _ _ _ _ => rfl), rfl⟩
    · show (if ty.isSingle = true then tx.output[idx]? = tx.output[idx]?
            else if ty.isNone = true then True else tx.output = tx.output)
      split
      · rfl
      · split
        · trivial
        · rfl

/-! ### 3. committed fields: equal digests ⇒ equal committed records ∨ collision -/

/-- LEGACY: two in-range queries with the same digest sign the same record (version, inputs as
    signed — outpoint with flags, script, sequence, issuance —, outputs as signed, lock time, hash
    type), or a SHA-256d collision is exhibited -/
theorem legacy_commits (hs : SizesPos P) (a b : Tx) (ha : a.wf P) (hb : b.wf P) (i j : Nat) (sa sb : Bytes)
    (ta tb : EcdsaTy) (hsa : sa.length ≤ maxVecSize) (hsb : sb.length ≤ maxVecSize)
    (ra : InRange ta i a) (rb : InRange tb j b)
    (h : legacySighash H a i sa ta = legacySighash H b j sb tb) :
    specLegacyView a i sa ta.asU32 = specLegacyView b j sb tb.asU32 ∨ Collision H.sha256d := by
  have e : ∀ (t : Tx) (k : Nat) (s : Bytes) (ty : EcdsaTy), InRange ty k t →
      legacySighash H t k s ty = .ok (H.sha256d (serLegacy (specLegacyView t k s ty.asU32))) := by
    intro t k s ty r
    have h1 : ¬ ¬ k < t.input.length := fun x => x r.1
    have h2 : ¬ (ty.base = .single ∧ k ≥ t.output.length) := fun x => by have := r.2 x.1; omega
    simp only [legacySighash, if_neg h1, if_neg h2, legacy_refines t k s ty r, Res.map, Res.bind]
  rw [e a i sa ta ra, e b j sb tb rb] at h
  simp only [Res.ok.injEq] at h
  by_cases hser : serLegacy (specLegacyView a i sa ta.asU32) = serLegacy (specLegacyView b j sb tb.asU32)
  · exact Or.inl (serLegacy_injective P _ _ (specLegacyView_wf P hs a ha i sa ta hsa ra)
      (specLegacyView_wf P hs b hb j sb tb hsb rb) hser)
  · exact Or.inr ⟨_, _, hser, h⟩

/-- … in particular the hash type, version and lock time -/
theorem legacy_commits_type (a b : Tx) (i j : Nat) (sa sb : Bytes) (ta tb : EcdsaTy)
    (h : specLegacyView a i sa ta.asU32 = specLegacyView b j sb tb.asU32) :
    ta = tb ∧ a.version = b.version ∧ a.lockTime = b.lockTime := by
  have h1 := congrArg LegacyView.hashType h
  have h2 := congrArg LegacyView.version h
  have h3 := congrArg LegacyView.lockTime h
  simp only [specLegacyView] at h1 h2 h3
  refine ⟨?_, h2, h3⟩
  revert h1
  cases ta <;> cases tb <;> decide

/-- SEGWIT v0: two queries on existing inputs with the same digest have the same BIP143 record
    (`sameCommitted`: every field; the per-input issuances through their concatenation only, see
    `serSegwit_injective`), or a SHA-256d collision is exhibited, or a preimage of the all-zero
    hash (which BIP143 uses for "SIGHASH_SINGLE without output") -/
theorem segwit_commits (hl : HashLen H) (hd : Dbl H) (a b : Tx) (ha : a.wf P) (hb : b.wf P) (i j : Nat)
    (sca scb : Bytes) (va vb : Value) (ta tb : EcdsaTy)
    (hsa : sca.length ≤ maxVecSize) (hsb : scb.length ≤ maxVecSize) (hva : va.wf P) (hvb : vb.wf P)
    (hi : i < a.input.length) (hj : j < b.input.length)
    (h : segwitSighash H a i sca va ta = segwitSighash H b j scb vb tb) :
    ∃ x y, specSegwitView a i sca va ta.asU32 = some x ∧ specSegwitView b j scb vb tb.asU32 = some y ∧
      (x.sameCommitted y ∨ Collision H.sha256d ∨ ZeroPreimage H.sha256d) := by
  obtain ⟨x, hx, mx⟩ := segwit_refines H hd a i sca va ta hi
  obtain ⟨y, hy, my⟩ := segwit_refines H hd b j scb vb tb hj
  refine ⟨x, y, hx, hy, ?_⟩
  simp only [segwitSighash, mx, my, Res.map, Res.bind, Res.ok.injEq] at h
  by_cases hser : serSegwit H x = serSegwit H y
  · exact serSegwit_injective P H hl x y (specSegwitView_wf P a ha i sca va ta hsa hva x hx)
      (specSegwitView_wf P b hb j scb vb tb hsb hvb y hy) hser
  · exact Or.inr (Or.inl ⟨_, _, hser, h⟩)

/-- TAPROOT: two successful queries (any of the seven hash types) with the same digest have the same
    Elements-taproot record — genesis hash, hash type, version, lock time, input data (all inputs
    and spent outputs, or the signed one), outputs with witnesses, annex, leaf hash and code
    separator position — or a collision of SHA-256 or of the tagged hash is exhibited -/
theorem taproot_commits (hl : HashLen H) (a b : Tx) (ha : a.wf P) (hb : b.wf P) (i j : Nat) (pa pb : Prevouts)
    (anna annb : Option Bytes) (la lb : Option (Bytes × Nat)) (ta tb : SchnorrTy) (ga gb : Bytes)
    (hta : ta ≠ .reserved) (htb : tb ≠ .reserved) (hpa : pa.wf P) (hpb : pb.wf P)
    (hga : ga.length = 32) (hgb : gb.length = 32)
    (hanna : ∀ x, anna = some x → x.length ≤ maxVecSize) (hannb : ∀ x, annb = some x → x.length ≤ maxVecSize)
    (hla : ∀ h p, la = some (h, p) → h.length = 32 ∧ p < 2^32) (hlb : ∀ h p, lb = some (h, p) → h.length = 32 ∧ p < 2^32)
    (d : Bytes) (h1 : taprootSighash H a i pa anna la ta ga = .ok d) (h2 : taprootSighash H b j pb annb lb tb gb = .ok d) :
    (∃ v, specTaprootView a i pa anna la ta.byte ga = .ok v ∧ specTaprootView b j pb annb lb tb.byte gb = .ok v) ∨
    Collision H.sha256 ∨ Collision (H.tagged Gen.tapSighashTag) := by
  simp only [taprootSighash, taproot_refines H _ _ _ _ _ _ _ hta, taproot_refines H _ _ _ _ _ _ _ htb, specTaproot] at h1 h2
  cases hva : specTaprootView a i pa anna la ta.byte ga with
  | err e => rw [hva] at h1; cases h1
  | panic s => rw [hva] at h1; cases h1
  | ok va =>
    cases hvb : specTaprootView b j pb annb lb tb.byte gb with
    | err e => rw [hvb] at h2; cases h2
    | panic s => rw [hvb] at h2; cases h2
    | ok vb =>
      rw [hva] at h1; rw [hvb] at h2
      simp only [Res.map, Res.bind, Res.ok.injEq] at h1 h2
      by_cases hser : serTaproot H va = serTaproot H vb
      · rcases serTaproot_injective P H hl va vb
          (specTaprootView_wf P a ha i pa anna la ta.byte ga hpa hga hanna hla va hva)
          (specTaprootView_wf P b hb j pb annb lb tb.byte gb hpb hgb hannb hlb vb hvb) hser with heq | hc
        · exact Or.inl ⟨va, rfl, by rw [heq]⟩
        · exact Or.inr (Or.inl hc)
      · exact Or.inr (Or.inr ⟨_, _, hser, by rw [h1, h2]⟩)

/-! ### 3b. "exactly": for a fixed hash type and input index, equal digests ⇒ agreement on the named
    fields (the converse of `*_ignores`), or a collision -/

/-- LEGACY: same digest ⇒ same script code and `legacyAgree`, or a SHA-256d collision -/
theorem legacy_commits_agree (hs : SizesPos P) (a b : Tx) (ha : a.wf P) (hb : b.wf P) (ty : EcdsaTy) (idx : Nat)
    (sa sb : Bytes) (hsa : sa.length ≤ maxVecSize) (hsb : sb.length ≤ maxVecSize)
    (ra : InRange ty idx a) (rb : InRange ty idx b)
    (h : legacySighash H a idx sa ty = legacySighash H b idx sb ty) :
    (legacyAgree ty idx a b ∧ sa = sb) ∨ Collision H.sha256d := by
  rcases legacy_commits P H hs a b ha hb idx idx sa sb ty ty hsa hsb ra rb h with hv | hc
  · exact Or.inl (legacyAgree_of_view ty idx a b sa sb ra rb hv)
  · exact Or.inr hc

/-- SEGWIT v0: same digest ⇒ same script code, same amount and `segwitAgreeC` (= `segwitAgree` with the
    per-input issuances known through their concatenation), or a collision / zero-hash preimage -/
theorem segwit_commits_agree (hl : HashLen H) (hd : Dbl H) (a b : Tx) (ha : a.wf P) (hb : b.wf P) (ty : EcdsaTy)
    (idx : Nat) (sca scb : Bytes) (va vb : Value)
    (hsa : sca.length ≤ maxVecSize) (hsb : scb.length ≤ maxVecSize) (hva : va.wf P) (hvb : vb.wf P)
    (hi : idx < a.input.length) (hj : idx < b.input.length)
    (h : segwitSighash H a idx sca va ty = segwitSighash H b idx scb vb ty) :
    (segwitAgreeC ty idx a b ∧ sca = scb ∧ va = vb) ∨ Collision H.sha256d ∨ ZeroPreimage H.sha256d := by
  obtain ⟨x, y, hx, hy, hr⟩ := segwit_commits P H hl hd a b ha hb idx idx sca scb va vb ty ty hsa hsb hva hvb hi hj h
  rcases hr with hs | hc
  · exact Or.inl (segwitAgreeC_of_view ty idx a b sca scb va vb x y hx hy hs)
  · exact Or.inr hc

/-- `segwitAgree` implies `segwitAgreeC` (so `segwit_ignores` applies to the stronger, readable one) -/
theorem segwit_agree_weaken (ty : EcdsaTy) (idx : Nat) (a b : Tx) (h : segwitAgree ty idx a b) :
    segwitAgreeC ty idx a b := segwitAgreeC_of_agree ty idx a b h

/-- TAPROOT: same digest (two successful queries, same type and index) ⇒ same annex, leaf, genesis
    hash and `taprootAgree`, or a collision of SHA-256 / the tagged hash -/
theorem taproot_commits_agree (hl : HashLen H) (a b : Tx) (ha : a.wf P) (hb : b.wf P) (ty : SchnorrTy) (idx : Nat)
    (pa pb : Prevouts) (anna annb : Option Bytes) (la lb : Option (Bytes × Nat)) (ga gb : Bytes)
    (hty : ty ≠ .reserved) (hpa : pa.wf P) (hpb : pb.wf P) (hga : ga.length = 32) (hgb : gb.length = 32)
    (hanna : ∀ x, anna = some x → x.length ≤ maxVecSize) (hannb : ∀ x, annb = some x → x.length ≤ maxVecSize)
    (hla : ∀ h p, la = some (h, p) → h.length = 32 ∧ p < 2^32) (hlb : ∀ h p, lb = some (h, p) → h.length = 32 ∧ p < 2^32)
    (d : Bytes) (h1 : taprootSighash H a idx pa anna la ty ga = .ok d) (h2 : taprootSighash H b idx pb annb lb ty gb = .ok d) :
    (taprootAgree ty idx a b pa pb ∧ anna = annb ∧ la = lb ∧ ga = gb) ∨
    Collision H.sha256 ∨ Collision (H.tagged Gen.tapSighashTag) := by
  rcases taproot_commits P H hl a b ha hb idx idx pa pb anna annb la lb ty ty ga gb hty hty hpa hpb hga hgb
    hanna hannb hla hlb d h1 h2 with ⟨v, hva, hvb⟩ | hc
  · exact Or.inl (taprootAgree_of_view ty hty idx a b pa pb anna annb la lb ga gb v hva hvb)
  · exact Or.inr hc

/-! ### 4. SIGHASH_SINGLE without a corresponding output; index out of range -/

/-- LEGACY: index ≥ #outputs with SINGLE (with or without ANYONECANPAY): the encoder writes the
    32 bytes `01 00 … 00` and the digest is that constant (Core's `uint256::ONE`) — for every
    transaction, script and (SINGLE) type -/
theorem single_oob_legacy (tx : Tx) (idx : Nat) (script : Bytes) (ty : EcdsaTy)
    (h1 : idx < tx.input.length) (h2 : ty.base = .single) (h3 : idx ≥ tx.output.length) :
    msgLegacy tx idx script ty = .ok uint256One ∧ legacySighash H tx idx script ty = .ok uint256One ∧
    specLegacySighash H tx idx script ty.asU32 = .ok uint256One := by
  obtain ⟨a, b⟩ := single_oob_legacy' H tx idx script ty h1 h2 h3
  exact ⟨a, b, by rw [← Sighash.legacy_digest_refines H tx idx script ty h1, b]⟩

/-- TAPROOT: SINGLE without a corresponding output is always an error, and it is
    `SingleWithoutCorrespondingOutput` when the earlier checks pass -/
theorem single_oob_taproot_err (tx : Tx) (idx : Nat) (pv : Prevouts) (annex : Option Bytes)
    (leaf : Option (Bytes × Nat)) (ty : SchnorrTy) (g : Bytes)
    (hs : ty.isSingle = true) (h : idx ≥ tx.output.length) :
    (∃ e, msgTaproot H tx idx pv annex leaf ty g = .err e) ∧
    (∃ e, taprootSighash H tx idx pv annex leaf ty g = .err e) ∧
    (∀ b1 b2, pv.checkAll tx = .ok () → tapInsPart H tx pv ty = .ok b1 → tapThisPart H tx idx pv ty = .ok b2 →
      msgTaproot H tx idx pv annex leaf ty g = .err eSingle) := by
  obtain ⟨⟨e, he⟩, h2⟩ := single_oob_taproot_err' H tx idx pv annex leaf ty g hs h
  exact ⟨⟨e, he⟩, ⟨e, by simp only [taprootSighash, he, Res.map, Res.bind]⟩, h2⟩

/-- TAPROOT with ANYONECANPAY: an input index that does not exist is `IndexOutOfInputsBounds`
    (`PrevoutsSize` if a prevout list of the wrong size was passed) -/
theorem taproot_index_err (tx : Tx) (idx : Nat) (pv : Prevouts) (annex : Option Bytes)
    (leaf : Option (Bytes × Nat)) (ty : SchnorrTy) (g : Bytes)
    (hacp : ty.acp = true) (h : ¬ idx < tx.input.length) :
    (pv.checkAll tx = .ok () → msgTaproot H tx idx pv annex leaf ty g = .err eIndex) ∧
    (pv.checkAll tx ≠ .ok () → msgTaproot H tx idx pv annex leaf ty g = .err ePrevoutsSize) :=
  taproot_index_err' H tx idx pv annex leaf ty g hacp h

/-- the taproot encoder never panics: a message or one of its five error classes -/
theorem taproot_never_panics (tx : Tx) (idx : Nat) (pv : Prevouts) (annex : Option Bytes)
    (leaf : Option (Bytes × Nat)) (ty : SchnorrTy) (g : Bytes) :
    (∃ m, msgTaproot H tx idx pv annex leaf ty g = .ok m) ∨
    (∃ e, e ∈ [ePrevoutsSize, ePrevoutKind, eIndex, ePrevoutIndex, eSingle] ∧
      msgTaproot H tx idx pv annex leaf ty g = .err e) :=
  taproot_total H tx idx pv annex leaf ty g

/-- OBSERVATION (as coded, not a defect of the digest): without ANYONECANPAY the input index is
    not checked against the number of inputs, only serialized as a `u32` -/
theorem taproot_index_unchecked_without_anyonecanpay (tx : Tx) (idx : Nat) (ps : List TxOut) (annex : Option Bytes)
    (leaf : Option (Bytes × Nat)) (ty : SchnorrTy) (g : Bytes)
    (hacp : ty.acp = false) (hs : ty.isSingle = false) (hlen : ps.length = tx.input.length) :
    ∃ m, msgTaproot H tx idx (.all ps) annex leaf ty g = .ok m :=
  taproot_index_unchecked H tx idx ps annex leaf ty g hacp hs hlen

/-! ### tie machinery: the in-memory transport of the correspondence run is faithful

  The digests are functions of in-memory `Transaction` values, some of which the consensus encoding cannot carry
  (an all-ones outpoint index together with a pegin flag or an issuance: the taproot outpoint flag is computed from
  the FIELDS). For those the harness sends the transaction field by field (`m:` argument); this theorem is why the
  model then evaluates the query on exactly the value the real code holds. -/

/-- decoding what the transport wrote returns the transaction, under field-size conditions only (no relation
    between index and flags is required) -/
theorem transport_faithful (P : Prims) (t : Tx) (r : Bytes) (h : EV.Proofs.MemTx.wfTx P t) :
    EV.Driver.MemTx.dec P (EV.Driver.MemTx.enc t ++ r) = .ok (t, r) :=
  EV.Proofs.MemTx.dec_complete P t r h

/-! ### non-vacuity -/

/-- a canonical two-input / one-output transaction: input 1 is out of range for SINGLE -/
def exTx : Tx :=
  ⟨2, 0, [⟨⟨List.replicate 32 1, 0⟩, false, [0x51], 0xfffffffe, AssetIssuance.null, TxInWitness.empty⟩,
          ⟨⟨List.replicate 32 2, 1⟩, true, [], 7, AssetIssuance.null, ⟨none, none, [[1, 2]], []⟩⟩],
         [⟨.explicit (List.replicate 32 3), .explicit 5, .null, [0x6a], TxOutWitness.empty⟩]⟩

example : InRange .all 1 exTx ∧ InRange .single 0 exTx ∧ ¬ InRange .single 1 exTx := by
  simp only [InRange]; decide

/-- changing the script witness and `script_sig` of input 1 changes the transaction but keeps all
    three `…Agree` predicates -/
example : (setScriptWitness exTx 1 [[9]] ≠ exTx) := by decide

example : msgLegacy exTx 1 [0xac] .single = .ok uint256One := by decide

/-! ### bridge to C15: the leaf a script-path digest commits to is the leaf a control block opens

  `taproot_script_spend_signature_hash` takes the tapleaf hash as 32 opaque bytes; callers obtain it from
  `TapLeafHash::from_script(script, leaf_version)` (`tapLeafHash`, what the correspondence driver of this property
  computes).  The script-tree model of C15 (`EV.Model.Taproot`) has its own `leafHash`, from which merkle roots are
  built and from which `ControlBlock::verify_taproot_commitment` recomputes the root.  With C15's hash record
  instantiated the way both drivers do it (`tapHashesOf H`: the tagged hash of this property under the three
  taproot tags; `tap_hashes_of_drivers`), the two are the same function, so the theorems of the two properties compose. -/

section bridgeC15
open EV.Proofs.BridgeTapLeaf EV.Proofs.TaprootSpend

/-- the hash records the two correspondence drivers run are related by `tapHashesOf`, and the leaf tag extracted
    for this property is the one extracted for C15 -/
theorem tap_hashes_of_drivers :
    EV.Driver.C15.tapHashes = tapHashesOf EV.Driver.SighashUtil.sigHashes ∧ Gen.tapLeafTag = Gen.Taproot.leafTag :=
  ⟨drivers_agree, leafTag_agree⟩

/-- **the two models of `TapLeafHash::from_script` agree** (C03's `tapLeafHash`, C15's `leafHash`) -/
theorem tapleaf_hash_is_c15_leaf_hash (script : Bytes) (ver : UInt8) (n : Nat) :
    tapLeafHash H script ver.toNat = Taproot.leafHash (tapHashesOf H) script ver ∧
    tapLeafHash H script n = Taproot.leafHash (tapHashesOf H) script (UInt8.ofNat n) :=
  ⟨tapLeafHash_eq' H script ver, tapLeafHash_eq H script n⟩

/-- the message hashed for a script-path spend of leaf `(script, ver)` ends in C15's leaf hash of that leaf — the
    value `verify_taproot_commitment` folds the control block's path over (`computeRoot`) —, the key version byte and
    the code separator position -/
theorem script_spend_message_ends_in_leaf_hash (tx : Tx) (idx : Nat) (pv : Prevouts) (annex : Option Bytes)
    (script : Bytes) (ver : UInt8) (pos : Nat) (ty : SchnorrTy) (g m : Bytes) (branch : List Bytes)
    (h : msgTaproot H tx idx pv annex (some (tapLeafHash H script ver.toNat, pos)) ty g = .ok m) :
    (∃ pre, m = pre ++ (Taproot.leafHash (tapHashesOf H) script ver ++ [UInt8.ofNat Gen.sighashKeyVersion0] ++ encLe 4 pos)) ∧
    Taproot.ControlBlock.computeRoot (tapHashesOf H) script ver branch =
      branch.foldl (fun cur e => Taproot.branchHash (tapHashesOf H) cur e) (Taproot.leafHash (tapHashesOf H) script ver) := by
  rw [tapLeafHash_eq'] at h
  exact ⟨msgTaproot_leaf_suffix H tx idx pv annex _ pos ty g m h, rfl⟩

/-- **a script-path digest commits to (script, leaf version)**: two successful script-spend digests (same hash type
    and input index) that are equal were computed for the same script and leaf version (and `taprootAgree`
    transactions, same genesis hash), or a collision of SHA-256, of the TapSighash hash or of the TapLeaf hash is
    exhibited -/
theorem script_spend_commits_to_leaf (hl : HashLen H) (hlt : ∀ tag x, (H.tagged tag x).length = 32)
    (a b : Tx) (ha : a.wf P) (hb : b.wf P) (ty : SchnorrTy) (idx : Nat) (pa pb : Prevouts)
    (sa sb : Bytes) (va vb : UInt8) (ga gb : Bytes)
    (hty : ty ≠ .reserved) (hpa : pa.wf P) (hpb : pb.wf P) (hga : ga.length = 32) (hgb : gb.length = 32)
    (hsa : sa.length < 2 ^ 64) (hsb : sb.length < 2 ^ 64) (d : Bytes)
    (h1 : taprootScriptSighash H a idx pa (tapLeafHash H sa va.toNat) ty ga = .ok d)
    (h2 : taprootScriptSighash H b idx pb (tapLeafHash H sb vb.toNat) ty gb = .ok d) :
    (taprootAgree ty idx a b pa pb ∧ sa = sb ∧ va = vb ∧ ga = gb) ∨
    Collision H.sha256 ∨ Collision (H.tagged Gen.tapSighashTag) ∨ Collision (H.tagged Gen.Taproot.leafTag) := by
  have hlen : ∀ (s : Bytes) (v : UInt8) (h : Bytes) (p : Nat),
      (some (tapLeafHash H s v.toNat, 0xFFFFFFFF) : Option (Bytes × Nat)) = some (h, p) → h.length = 32 ∧ p < 2 ^ 32 := by
    intro s v h p e
    simp only [Option.some.injEq, Prod.mk.injEq] at e
    obtain ⟨e1, e2⟩ := e
    subst e1; subst e2
    exact ⟨hlt _ _, by decide⟩
  rcases taproot_commits_agree P H hl a b ha hb ty idx pa pb none none _ _ ga gb hty hpa hpb hga hgb
    (fun x hx => by cases hx) (fun x hx => by cases hx) (hlen sa va) (hlen sb vb) d h1 h2 with ⟨hag, _, hleaf, hg⟩ | hc | hc
  · simp only [Option.some.injEq, Prod.mk.injEq, and_true] at hleaf
    rw [tapLeafHash_eq', tapLeafHash_eq'] at hleaf
    rcases leafHash_binds (tapHashesOf H) sa sb va vb hsa hsb hleaf with ⟨e1, e2⟩ | hc
    · exact Or.inl ⟨hag, e1, e2, hg⟩
    · exact Or.inr (Or.inr (Or.inr hc))
  · exact Or.inr (Or.inl hc)
  · exact Or.inr (Or.inr (Or.inl hc))

/-- **`script_spend_commits_to_opened_leaf`** (C03 `taproot_commits_agree` ∘ C15 `cb_binds`).  A verifier holds an
    output key committing to tree `t` (internal key `key`), a revealed script `s` and a control block `cb` (carrying the
    committed internal key and parity) that passes `verify_taproot_commitment`; it computes the script-spend digest for
    the leaf `(s, cb.leaf_version)`.  A signer computed its digest for a leaf `(s', v')`.  If the two digests are equal
    (so that the signature checks), then the signer's leaf IS the revealed one, and it is a genuine opening of `t` —
    the sibling path of a leaf of `t` with exactly that script and version (or a path into a hidden node) —, or one of
    the hash functions collides. -/
theorem script_spend_commits_to_opened_leaf (E : Taproot.EC) (law : ECLaw E) (inj : ECTweakInj E)
    (hl : HashLen H) (hlt : ∀ tag x, (H.tagged tag x).length = 32)
    (key : Bytes) (t : Taproot.Tree) (si : Taproot.SpendInfo)
    (hsi : Taproot.fromNodeInfo E (tapHashesOf H) key (Taproot.info (tapHashesOf H) t) = .ok si) (ht : EV.Proofs.TaprootCb.ScriptsOk t)
    (cb : Taproot.ControlBlock) (s : Bytes) (hk : cb.internalKey = key) (hp : cb.parity = si.parity)
    (hbr : ∀ e ∈ cb.branch, e.length = 32) (hs : s.length < 2 ^ 64)
    (hv : cb.verify E (tapHashesOf H) si.outputKey s = .ok true)
    (a b : Tx) (ha : a.wf P) (hb : b.wf P) (ty : SchnorrTy) (idx : Nat) (pa pb : Prevouts) (s' : Bytes) (v' : UInt8)
    (ga gb : Bytes) (hty : ty ≠ .reserved) (hpa : pa.wf P) (hpb : pb.wf P) (hga : ga.length = 32) (hgb : gb.length = 32)
    (hs' : s'.length < 2 ^ 64) (d : Bytes)
    (hverifier : taprootScriptSighash H a idx pa (tapLeafHash H s cb.leafVersion.toNat) ty ga = .ok d)
    (hsigner : taprootScriptSighash H b idx pb (tapLeafHash H s' v'.toNat) ty gb = .ok d) :
    (s' = s ∧ v' = cb.leafVersion ∧ taprootAgree ty idx a b pa pb ∧ ga = gb ∧
      EV.Proofs.TaprootCb.Opens (tapHashesOf H) t s' v' cb.branch) ∨
    Collision H.sha256 ∨ Collision (H.tagged Gen.tapSighashTag) ∨ Collision (H.tagged Gen.Taproot.leafTag) ∨
    Collision (H.tagged Gen.Taproot.branchTag) ∨ Collision (H.tagged Gen.Taproot.tweakTag) ∨
    EV.Proofs.TaprootCb.Cross (H.tagged Gen.Taproot.leafTag) (H.tagged Gen.Taproot.branchTag) := by
  rcases script_spend_commits_to_leaf P H hl hlt a b ha hb ty idx pa pb s s' cb.leafVersion v' ga gb hty hpa hpb hga hgb
    hs hs' d hverifier hsigner with ⟨hag, e1, e2, hg⟩ | hc | hc | hc
  · rcases cb_binds E (tapHashesOf H) law inj (len32_of H hlt) key t si hsi ht cb s hk hp hbr hs hv with ho | hc | hc | hc | hc
    · exact Or.inl ⟨e1.symm, e2.symm, hag, hg, by rw [← e1, ← e2]; exact ho⟩
    · exact Or.inr (Or.inr (Or.inr (Or.inr (Or.inr (Or.inl hc)))))
    · exact Or.inr (Or.inr (Or.inr (Or.inl hc)))
    · exact Or.inr (Or.inr (Or.inr (Or.inr (Or.inl hc))))
    · exact Or.inr (Or.inr (Or.inr (Or.inr (Or.inr (Or.inr hc)))))
  · exact Or.inr (Or.inl hc)
  · exact Or.inr (Or.inr (Or.inl hc))
  · exact Or.inr (Or.inr (Or.inr (Or.inl hc)))

/-- conversely every leaf of a tree gets a control block that verifies (C15 `cb_verifies`), and the digest a signer
    computes for that leaf is the digest computed from the C15 leaf hash the control block opens -/
theorem every_leaf_signable (E : Taproot.EC) (law : ECLaw E) (key : Bytes) (t : Taproot.Tree) (si : Taproot.SpendInfo)
    (hsi : Taproot.fromNodeInfo E (tapHashesOf H) key (Taproot.info (tapHashesOf H) t) = .ok si)
    (tx : Tx) (idx : Nat) (pv : Prevouts) (ty : SchnorrTy) (g : Bytes) :
    ∀ l ∈ (Taproot.info (tapHashesOf H) t).leaves, ∃ cb, Taproot.controlBlock si l.script l.ver = some (some cb) ∧
      cb.verify E (tapHashesOf H) si.outputKey l.script = .ok true ∧
      taprootScriptSighash H tx idx pv (tapLeafHash H l.script cb.leafVersion.toNat) ty g =
        taprootSighash H tx idx pv none (some (Taproot.leafHash (tapHashesOf H) l.script l.ver, 0xFFFFFFFF)) ty g := by
  intro l hl
  obtain ⟨cb, h1, h2, _, _, _, _, h7⟩ := cb_verifies E (tapHashesOf H) law key t si hsi l hl
  exact ⟨cb, h1, h7, by rw [tapLeafHash_eq', h2]; rfl⟩

/-- the hypotheses on the hash record are satisfiable together (32-byte outputs for every function) -/
example : ∃ H : SigHashes, HashLen H ∧ ∀ tag x, (H.tagged tag x).length = 32 :=
  ⟨⟨fun _ => List.replicate 32 0, fun _ => List.replicate 32 0, fun _ _ => List.replicate 32 0⟩,
   ⟨fun _ => List.length_replicate, fun _ => List.length_replicate⟩, fun _ _ => List.length_replicate⟩

/-- a two-leaf tree, its second leaf and the control block C15 hands out for it: the script-spend query with the
    leaf hash of that leaf succeeds on `exTx` (key-path-free example of `hverifier`) -/
example : (taprootScriptSighash ⟨fun b => b.take 32, fun b => b.take 32, fun _ b => b.take 32⟩ exTx 0
    (.all [txOutDefault, txOutDefault])
    (tapLeafHash ⟨fun b => b.take 32, fun b => b.take 32, fun _ b => b.take 32⟩ [0x51] Taproot.tapscriptVer.toNat) .default
    (List.replicate 32 0)).isOk = true := by decide

end bridgeC15

/-! ### bridge to C01/C02: the messages are built from the SAME encoders as the transaction serialization

  `EV.Model.Sighash` has no encoder of its own for a transaction part: the as-coded messages and the specification
  serializers are written with `TxIn.enc`, `TxOut.enc`, `OutPoint.enc`, `Value.enc`, `Asset.enc`, `AssetIssuance.enc`,
  `TxOutWitness.enc`, `encOptProof`, `encBytesVec`, `encVec`, `encLe` of `EV.Model.Transaction` / `EV.Model.Codec` — the
  functions C01 proves lawful (`tx_laws` …) and C02 injective.  The three local re-definitions of the specification
  part are equal to them (`sighash_spec_encoders_agree`).  Beyond the inventory (`EV.Proofs.BridgeSighashCodec`): -/

section bridgeC01
open EV.Proofs.BridgeSighashCodec

/-- the only encoders Part 2 of the model defines for itself (`encIssuanceOpt`, `flagByte`, `encProofs`) are the
    as-coded ones, i.e. C01's `AssetIssuance.enc` (or the byte `00`), the outpoint flag byte, C01's `encOptProof` twice -/
theorem sighash_spec_encoders_agree (i : TxIn) :
    encIssuanceOpt (issuanceOf i) = issuanceOrZero i ∧
    issuanceOrZero i = (if i.hasIssuance then i.assetIssuance.enc else [0]) ∧
    flagByte (inFlag i) = outpointFlag i ∧
    encProofs (proofsOf i) = issuanceProofs i ∧
    issuanceProofs i = encOptProof i.witness.amountRangeproof ++ encOptProof i.witness.inflationKeysRangeproof :=
  spec_encoders_agree i

/-- **LEGACY message format in C01 terms.**  The specification message is C01's witness-stripped transaction encoding
    `Tx.encStripped` (the txid preimage of C02) of the transaction to sign (`legacyTx`), with the Elements flag byte at
    offset 4 removed (`dropFlag`), followed by the hash type — the Rust comment "cannot encode tx directly because of
    different consensus encoding of elements tx" as a theorem; conversely the stripped encoding is the message with the
    byte `00` put back -/
theorem legacy_message_is_stripped_tx_encoding (v : LegacyView) :
    serLegacy v = dropFlag (legacyTx v).encStripped ++ encLe 4 v.hashType ∧
    (legacyTx v).encStripped =
      (serLegacy v).take 4 ++ [0] ++ ((serLegacy v).drop 4).take ((serLegacy v).length - 8) :=
  ⟨serLegacy_eq v, encStripped_of_serLegacy v⟩

/-- **LEGACY, as coded.**  For an in-range query on a canonical transaction the bytes `encode_legacy_signing_data_to`
    writes are that encoding of the transaction to sign `t'`; `t'` carries no witness, so C01's `Tx.enc t'` IS the
    stripped encoding, its txid (C02) is the double SHA-256 of it, and C01's decoder returns `t'` from it -/
theorem legacy_msg_is_tx_encoding (hs : SizesPos P) (tx : Tx) (htx : tx.wf P) (idx : Nat) (script : Bytes)
    (ty : EcdsaTy) (hsc : script.length ≤ maxVecSize) (hr : InRange ty idx tx) (Hh : Hashes) :
    let t' := legacyTx (specLegacyView tx idx script ty.asU32)
    msgLegacy tx idx script ty = .ok (dropFlag t'.encStripped ++ encLe 4 ty.asU32) ∧
    t'.enc = t'.encStripped ∧ t'.txid Hh = Hh.sha256d t'.encStripped ∧ t'.wf P ∧
    (∀ r, Tx.dec P (t'.encStripped ++ r) = .ok (t', r)) := by
  intro t'
  obtain ⟨h1, h2, h3⟩ := msgLegacy_is_tx_encoding P hs tx htx idx script ty hsc hr
  exact ⟨h1, h2, rfl, legacyTx_wf P hs tx htx idx script ty hsc hr, h3⟩

/-- **SEGWIT v0 / TAPROOT: the hashed preimages are C01 vector encodings.**  `sha_prevouts`, `sha_sequences`,
    `sha_outputs`, `sha_output_witnesses`, `sha_scriptpubkeys` hash the element concatenation of C01's `encVec` of the
    outpoints / sequences / outputs / output witnesses / spent scripts, i.e. the vector encoding without its length prefix -/
theorem sighash_preimages_are_vector_encodings (tx : Tx) (ps : List TxOut) :
    encVec OutPoint.enc (tx.input.map (fun i => i.previousOutput)) = encVarint tx.input.length ++ preOutpoints tx ∧
    encVec (encLe 4) (tx.input.map (fun i => i.sequence)) = encVarint tx.input.length ++ preSequences tx ∧
    encVec TxOut.enc tx.output = encVarint tx.output.length ++ preOutputs tx ∧
    encVec TxOutWitness.enc (tx.output.map (fun o => o.witness)) = encVarint tx.output.length ++ preOutputWitnesses tx ∧
    encVec encBytesVec (ps.map (fun p => p.scriptPubkey)) = encVarint ps.length ++ preScriptPubkeys ps :=
  preimages_are_vectors tx ps

/-- … and `sha_outputs` / `sha_output_witnesses` hash literal SEGMENTS of the consensus serialization of the transaction
    (C01 `Tx.encStripped` = txid preimage, `Tx.enc`); the witness of an input starts with its issuance range proofs as
    `sha_issuance_rangeproofs` hashes them -/
theorem sighash_preimages_are_segments_of_tx_encoding (tx : Tx) :
    tx.encStripped = encLe 4 tx.version ++ [0] ++ encVarint tx.input.length ++ tx.input.flatMap TxIn.enc ++
      encVarint tx.output.length ++ preOutputs tx ++ encLe 4 tx.lockTime ∧
    (tx.hasWitness = true →
      tx.enc = encLe 4 tx.version ++ [1] ++ encVarint tx.input.length ++ tx.input.flatMap TxIn.enc ++
        encVarint tx.output.length ++ preOutputs tx ++ encLe 4 tx.lockTime ++
        tx.input.flatMap (fun i => i.witness.enc) ++ preOutputWitnesses tx) ∧
    (∀ i : TxIn, i.witness.enc = issuanceProofs i ++ encBytesVecVec i.witness.scriptWitness ++
      encBytesVecVec i.witness.peginWitness) :=
  ⟨encStripped_segments tx, fun h => (enc_segments tx h).1, fun _ => rfl⟩

/-- the one place where the sighash input data and C01's `TxIn.enc` differ: `TxIn.enc` writes the outpoint with the
    pegin / issuance flags inside the vout word, the sighash algorithms commit to the PLAIN outpoint `OutPoint.enc
    previousOutput` (and, in taproot, to the flags as a separate byte; in segwit v0 the pegin flag is not committed at
    all — `segwit_ignores`).  On inputs without flags the two coincide.  The issuance bytes are the same. -/
theorem sighash_outpoint_vs_txin_encoding (i : TxIn) :
    TxIn.enc i = OutPoint.enc ⟨i.previousOutput.txid, i.voutWord⟩ ++ encBytesVec i.scriptSig ++ encLe 4 i.sequence ++
      (if i.hasIssuance then i.assetIssuance.enc else []) ∧
    (i.isPegin = false → i.hasIssuance = false →
      TxIn.enc i = OutPoint.enc i.previousOutput ++ encBytesVec i.scriptSig ++ encLe 4 i.sequence) ∧
    (i.hasIssuance = true → issuanceOrZero i = i.assetIssuance.enc) :=
  txIn_enc_parts i

/-- the hypotheses of `legacy_msg_is_tx_encoding` are satisfiable: `exTx` is canonical for permissive primitives, and
    the ALL query on input 1 is in range -/
example : let P0 : Prims := ⟨fun _ => true, fun _ => true, fun _ => true, fun _ => true, fun _ => true, fun _ => true, 1, 1, 1⟩
    SizesPos P0 ∧ exTx.wf P0 ∧ InRange .all 1 exTx ∧ ([0xac] : Bytes).length ≤ maxVecSize := by
  refine ⟨⟨by decide, by decide, by decide⟩, ?_, by simp only [InRange]; decide, by decide⟩
  simp [Tx.wf, exTx, TxIn.wf, TxIn.wfBody, TxIn.hasIssuance, AssetIssuance.isNull, AssetIssuance.null, Value.isNull,
    TxInWitness.wf, TxInWitness.empty, TxInWitness.wfStack, wfOptProof, TxOut.wf, TxOut.wfBody, TxOutWitness.wf,
    TxOutWitness.empty, Asset.wf, Value.wf, Nonce.wf, maxVecSize, AssetIssuance.zero32]

end bridgeC01

end EV.Props.C03
