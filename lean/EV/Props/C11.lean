/-
  C11 — asset and token ids follow the issuance derivation in every representation.

  `H.sha256d`, `H.comb` (SHA-256 compression of `l ‖ r` from the initial state) and the
  single SHA-256 of the JSON clause are parameters; `none` would be a panic of the Rust code.
  All byte strings are the in-memory arrays (`to_byte_array`), which is what is hashed;
  `AssetId` / `AssetEntropy` / `ContractHash` merely *display* reversed.
  Helper lemmas: EV.Proofs.Issuance, EV.Proofs.Json.
-/
import EV.Proofs.Issuance
import EV.Proofs.Json
import EV.Proofs.JsonText
import EV.Proofs.IssuanceBridge
import EV.Proofs.PeggedAsset
import EV.Proofs.PeggedAssetKernel
namespace EV.Props.C11
open EV EV.Codec EV.Issuance

def Collision (f : Bytes → Bytes) : Prop := ∃ x y, x ≠ y ∧ f x = f y
/-- a collision of the two-to-one compression function, colliding pairs exhibited -/
def Collision2 (g : Bytes → Bytes → Bytes) : Prop := ∃ a b c d, (a, b) ≠ (c, d) ∧ g a b = g c d

variable (P : Prims) (H : Hashes)

/-! ## 1. the derivation (src/issuance.rs) -/

/-- entropy of a new issuance: `comb (sha256d (txid ‖ vout_le32)) contract_hash` — the fast merkle
    root of the two leaves, evaluated as coded -/
theorem entropy_formula (o : OutPoint) (c : Bytes) :
    generateAssetEntropy H o c = some (H.comb (H.sha256d (o.txid ++ encLe 4 o.vout)) c) :=
  EV.Proofs.Issuance.entropy_eq H o c

/-- asset id = `comb entropy 0^32` (leaf constant re-read from the Rust source) -/
theorem asset_id_formula (e : Bytes) : fromEntropy H e = some (H.comb e (List.replicate 32 0)) := by
  rw [EV.Proofs.Issuance.fromEntropy_eq, EV.Proofs.Issuance.assetLeaf_eq]

/-- token id = `comb entropy k`, `k` = 32 bytes with first byte 1 (explicit issuance amount) or
    2 (confidential issuance amount), the rest zero -/
theorem token_id_formula (e : Bytes) (confidential : Bool) :
    reissuanceTokenFromEntropy H e confidential =
      some (H.comb e ((if confidential then 2 else 1) :: List.replicate 31 0)) := by
  rw [EV.Proofs.Issuance.token_eq, EV.Proofs.Issuance.tokenLeaf_eq]

/-- `AssetId::new_issuance` / `new_reissuance_token` compose the above -/
theorem new_issuance_formula (o : OutPoint) (c : Bytes) :
    newIssuance H o c = some (H.comb (H.comb (H.sha256d (o.txid ++ encLe 4 o.vout)) c) (List.replicate 32 0)) := by
  simp only [newIssuance, entropy_formula, asset_id_formula]

theorem new_reissuance_token_formula (o : OutPoint) (c : Bytes) (confidential : Bool) :
    newReissuanceToken H o c confidential =
      some (H.comb (H.comb (H.sha256d (o.txid ++ encLe 4 o.vout)) c) ((if confidential then 2 else 1) :: List.replicate 31 0)) := by
  simp only [newReissuanceToken, entropy_formula, token_id_formula]

/-- `TxIn::issuance_ids`, new issuance (zero blinding nonce): the entropy is derived from the stored
    outpoint (plain index) and the `asset_entropy` field read as contract hash -/
theorem ids_formula (i : TxIn) (h : i.assetIssuance.nonce = Issuance.zero32) :
    i.issuanceIds H =
      let e := H.comb (H.sha256d (i.previousOutput.txid ++ encLe 4 i.previousOutput.vout)) i.assetIssuance.entropy
      some (H.comb e (List.replicate 32 0),
            H.comb e ((if i.assetIssuance.amount.isConf then 2 else 1) :: List.replicate 31 0)) := by
  rw [EV.Proofs.Issuance.txin_ids_eq, EV.Proofs.Issuance.assetLeaf_eq, EV.Proofs.Issuance.tokenLeaf_eq]
  simp only [EV.Proofs.Issuance.entropyOf, h, if_true]

/-- `TxIn::issuance_ids`, reissuance (non-zero nonce): the entropy is the one carried in the input -/
theorem ids_formula_reissuance (i : TxIn) (h : i.assetIssuance.nonce ≠ Issuance.zero32) :
    i.issuanceIds H =
      some (H.comb i.assetIssuance.entropy (List.replicate 32 0),
            H.comb i.assetIssuance.entropy ((if i.assetIssuance.amount.isConf then 2 else 1) :: List.replicate 31 0)) := by
  rw [EV.Proofs.Issuance.txin_ids_eq, EV.Proofs.Issuance.assetLeaf_eq, EV.Proofs.Issuance.tokenLeaf_eq]
  simp only [EV.Proofs.Issuance.entropyOf, h, if_false]

/-- `pset::Input::issuance_ids`: same layout, from the optional fields (absent = zero), the index with
    the flag bits removed, "blinded" = a value commitment is present -/
theorem ids_formula_pset (p : IssPsetInput) :
    p.issuanceIds H =
      let e := if p.issuanceBlindingNonce.getD Issuance.zero32 = Issuance.zero32
        then H.comb (H.sha256d (p.previousTxid ++ encLe 4 (IssPsetInput.plainIndex p.previousOutputIndex)))
                    (p.issuanceAssetEntropy.getD Issuance.zero32)
        else p.issuanceAssetEntropy.getD Issuance.zero32
      some (H.comb e (List.replicate 32 0),
            H.comb e ((if p.issuanceValueComm.isSome then 2 else 1) :: List.replicate 31 0)) := by
  rw [EV.Proofs.Issuance.pset_ids_eq, EV.Proofs.Issuance.assetLeaf_eq, EV.Proofs.Issuance.tokenLeaf_eq]
  rfl

/-- none of the id computations panics -/
theorem ids_no_panic (i : TxIn) (p : IssPsetInput) : i.issuanceIds H ≠ none ∧ p.issuanceIds H ≠ none := by
  rw [EV.Proofs.Issuance.txin_ids_eq, EV.Proofs.Issuance.pset_ids_eq]; simp

/-! ## 2. the three representations agree -/

/-- The inputs for which agreement holds.  (a) the stored index is a real index (< 2^30; 2^30-1
    with both flags is excluded: `from_txin` folds it to 0xffffffff, the coinbase index, which by
    definition carries no flags) or the coinbase index; (b) an input *without* issuance
    (null amount and null inflation keys) has zero nonce and zero entropy — `from_txin` copies the
    issuance fields only when `has_issuance()`, while `TxIn::issuance_ids` "does not check whether
    there is an issuance" and reads them regardless.  Every input obtained by consensus decoding
    satisfies both (`canonical_of_decoded`). -/
def Canonical (t : TxIn) : Prop :=
  ((t.previousOutput.vout < 2^30 ∧ ¬ (t.previousOutput.vout = 2^30 - 1 ∧ t.isPegin = true ∧ t.hasIssuance = true)) ∨
    t.previousOutput.vout = 0xffffffff) ∧
  (t.hasIssuance = true ∨ (t.assetIssuance.nonce = Issuance.zero32 ∧ t.assetIssuance.entropy = Issuance.zero32))

/-- Main theorem: a transaction input, the PSET input built from it (`Input::from_txin`) and the input
    of the transaction extracted from that PSET (`extract_tx`) yield the same (asset id, token id):
    pegin or not, new issuance or reissuance, explicit / confidential / null amounts, any txid. -/
theorem ids_agree (t : TxIn) (h : Canonical t) :
    (IssPsetInput.fromTxin t).issuanceIds H = t.issuanceIds H ∧
    (IssPsetInput.extractIn (IssPsetInput.fromTxin t)).issuanceIds H = t.issuanceIds H :=
  ⟨EV.Proofs.Issuance.ids_agree_pset H t h.1 h.2, EV.Proofs.Issuance.ids_agree_extract H t h.1 h.2⟩

/-- every well-formed in-memory input (`wfBody` of C01) is canonical … -/
theorem canonical_of_wf (t : TxIn) (h : t.wfBody P) : Canonical t :=
  EV.Proofs.Issuance.hyps_of_wfBody P t h

/-- … in particular everything the consensus decoder returns -/
theorem canonical_of_decoded (bs rest : Bytes) (t : TxIn) (h : TxIn.dec P bs = .ok (t, rest)) : Canonical t :=
  canonical_of_wf P t ((EV.Proofs.CodecTx.txIn_sound P bs t rest h).2.1)

theorem ids_agree_decoded (bs rest : Bytes) (t : TxIn) (h : TxIn.dec P bs = .ok (t, rest)) :
    (IssPsetInput.fromTxin t).issuanceIds H = t.issuanceIds H ∧
    (IssPsetInput.extractIn (IssPsetInput.fromTxin t)).issuanceIds H = t.issuanceIds H :=
  ids_agree H t (canonical_of_decoded P bs rest t h)

/-- what is behind it: outpoint and issuance survive TxIn → PSET input → extracted TxIn (the flags
    folded into the index by `from_txin` are stripped again), and so does the pegin flag -/
theorem extract_keeps_outpoint_and_issuance (t : TxIn) (h : Canonical t) :
    (IssPsetInput.extractIn (IssPsetInput.fromTxin t)).previousOutput = t.previousOutput ∧
    (IssPsetInput.extractIn (IssPsetInput.fromTxin t)).assetIssuance = t.assetIssuance ∧
    (IssPsetInput.fromTxin t).assetIssuance = t.assetIssuance :=
  let ⟨a, b⟩ := EV.Proofs.Issuance.extract_fromTxin_core t h.1 h.2
  ⟨a, b, EV.Proofs.Issuance.assetIssuance_fromTxin t h.2⟩

theorem extract_keeps_pegin (t : TxIn)
    (h : (t.previousOutput.vout < 2^30 ∧ ¬ (t.previousOutput.vout = 2^30 - 1 ∧ t.isPegin = true ∧ t.hasIssuance = true)) ∨
         (t.previousOutput.vout = 0xffffffff ∧ t.isPegin = false)) :
    (IssPsetInput.extractIn (IssPsetInput.fromTxin t)).isPegin = t.isPegin :=
  EV.Proofs.Issuance.extract_fromTxin_isPegin t h

/-- The excluded index, exactly: for index 2^30-1 with pegin *and* issuance the PSET input (and the
    extracted input) compute the ids of the outpoint with index 0xffffffff instead. -/
theorem ids_at_excluded_index (t : TxIn) (hv : t.previousOutput.vout = 2^30 - 1) (hp : t.isPegin = true)
    (hq : t.hasIssuance = true) :
    (IssPsetInput.fromTxin t).issuanceIds H =
      ({ t with previousOutput := ⟨t.previousOutput.txid, 0xffffffff⟩ } : TxIn).issuanceIds H := by
  have hi : EV.Proofs.Issuance.IssuanceOk t := Or.inl hq
  rw [EV.Proofs.Issuance.pset_ids_eq, EV.Proofs.Issuance.txin_ids_eq, EV.Proofs.Issuance.fromTxin_nonce t hi,
    EV.Proofs.Issuance.fromTxin_entropy t hi, EV.Proofs.Issuance.fromTxin_comm_isSome,
    EV.Proofs.Issuance.fromTxin_index, EV.Proofs.Issuance.fromTxin_txid, hv, hp, hq]
  rfl

/-- The other excluded inputs, exactly: an input *without* issuance (null amount and null inflation
    keys) that nevertheless carries a nonce or an entropy.  `TxIn::issuance_ids` reads them, the PSET
    input never receives them: it computes the ids of the same input with the default issuance. -/
theorem ids_without_issuance (t : TxIn) (hq : t.hasIssuance = false)
    (hv : t.previousOutput.vout < 2^30 ∨ t.previousOutput.vout = 0xffffffff) :
    (IssPsetInput.fromTxin t).issuanceIds H = ({ t with assetIssuance := AssetIssuance.null } : TxIn).issuanceIds H := by
  rw [EV.Proofs.Issuance.fromTxin_no_issuance t hq]
  apply EV.Proofs.Issuance.ids_agree_pset
  · rcases hv with hv | hv
    · exact Or.inl ⟨hv, fun h => by simp [TxIn.hasIssuance, AssetIssuance.null, AssetIssuance.isNull, Value.isNull] at h⟩
    · exact Or.inr hv
  · exact Or.inr ⟨rfl, rfl⟩

/-! ## 3. flag bits are irrelevant -/

/-- the PSET ids depend on the stored index only through the plain index: setting or clearing the
    pegin (bit 30) and issuance (bit 31) flags of a real index changes nothing -/
theorem ids_flag_bits_irrelevant (p : IssPsetInput) (idx : Nat) (pegin iss : Bool) (hidx : idx < 2^30)
    (hrep : ¬ (idx = 2^30 - 1 ∧ pegin = true ∧ iss = true)) :
    ({ p with previousOutputIndex := (idx ||| (if pegin then 2^30 else 0)) ||| (if iss then 2^31 else 0) } : IssPsetInput).issuanceIds H
      = ({ p with previousOutputIndex := idx } : IssPsetInput).issuanceIds H := by
  rw [EV.Proofs.Issuance.pset_ids_eq, EV.Proofs.Issuance.pset_ids_eq]
  have h1 := EV.Proofs.Issuance.plainIndex_word idx pegin iss (Or.inl ⟨hidx, hrep⟩)
  have h2 := EV.Proofs.Issuance.plainIndex_word idx false false (Or.inl ⟨hidx, by simp⟩)
  simp only [Bool.false_eq_true, if_false, Nat.or_zero] at h2
  simp only [h1, h2]

/-- `TxIn::issuance_ids` does not look at the pegin flag, the script, the sequence or the witness -/
theorem ids_pegin_irrelevant (t : TxIn) (b : Bool) (s : Bytes) (q : Nat) (w : TxInWitness) :
    ({ t with isPegin := b, scriptSig := s, sequence := q, witness := w } : TxIn).issuanceIds H = t.issuanceIds H := rfl

/-! ## 4. the ids commit to outpoint and contract hash -/

/-- equal entropies ⇒ equal (outpoint, contract hash), or a collision is exhibited -/
theorem entropy_commit (o o' : OutPoint) (c c' : Bytes) (ho : o.wf) (ho' : o'.wf)
    (h : generateAssetEntropy H o c = generateAssetEntropy H o' c') :
    (o = o' ∧ c = c') ∨ Collision H.sha256d ∨ Collision2 H.comb :=
  EV.Proofs.Issuance.entropy_commits H o o' c c' ho ho' h

/-- equal asset ids of two new issuances ⇒ equal (outpoint, contract hash) ∨ collision of sha256d ∨
    collision of the compression function -/
theorem ids_commit (o o' : OutPoint) (c c' : Bytes) (ho : o.wf) (ho' : o'.wf)
    (h : newIssuance H o c = newIssuance H o' c') :
    (o = o' ∧ c = c') ∨ Collision H.sha256d ∨ Collision2 H.comb := by
  simp only [newIssuance, entropy_formula] at h
  rcases EV.Proofs.Issuance.assetId_commits H _ _ h with he | hc
  · exact entropy_commit H o o' c c' ho ho' (by rw [entropy_formula, entropy_formula, he])
  · exact Or.inr (Or.inr hc)

/-- the same for inputs: two new-issuance inputs with the same asset id spend the same outpoint
    and carry the same contract hash -/
theorem ids_commit_txin (a b : TxIn) (ha : a.previousOutput.wf) (hb : b.previousOutput.wf)
    (hna : a.assetIssuance.nonce = Issuance.zero32) (hnb : b.assetIssuance.nonce = Issuance.zero32)
    (h : (a.issuanceIds H).map Prod.fst = (b.issuanceIds H).map Prod.fst) :
    (a.previousOutput = b.previousOutput ∧ a.assetIssuance.entropy = b.assetIssuance.entropy) ∨
      Collision H.sha256d ∨ Collision2 H.comb := by
  rw [ids_formula H a hna, ids_formula H b hnb] at h
  simp only [Option.map_some, Option.some.injEq] at h
  apply ids_commit H _ _ _ _ ha hb
  rw [new_issuance_formula, new_issuance_formula, h]

/-- the token id commits to the entropy and to the blinded flag; asset id and token id of any
    entropies never coincide (domain separation by the second leaf) -/
theorem token_commit (e e' : Bytes) (c c' : Bool)
    (h : reissuanceTokenFromEntropy H e c = reissuanceTokenFromEntropy H e' c') :
    (e = e' ∧ c = c') ∨ Collision2 H.comb :=
  EV.Proofs.Issuance.tokenId_commits H e e' c c' h

theorem asset_id_commit (e e' : Bytes) (h : fromEntropy H e = fromEntropy H e') : e = e' ∨ Collision2 H.comb :=
  EV.Proofs.Issuance.assetId_commits H e e' h

theorem asset_token_distinct (e e' : Bytes) (c : Bool)
    (h : fromEntropy H e = reissuanceTokenFromEntropy H e' c) : Collision2 H.comb :=
  EV.Proofs.Issuance.asset_ne_token H e e' c h

/-! ## 5. the contract hash of a JSON contract does not depend on key order -/

open EV.Json in
/-- `w` is `v` with the members of every object, at every nesting depth, written in another order;
    if no object of `v` repeats a key, the canonical text and therefore the contract hash are the
    same.  (With a repeated key serde_json keeps the member written last — `duplicate_key_last_wins`
    — so the order of the duplicates matters and the hypothesis is needed.) -/
theorem contract_hash_perm (sha256 : Bytes → Bytes) (v w : Json) (h : JPerm v w) (hk : NoDupKeys v) :
    canon v = canon w ∧ contractHash sha256 v = contractHash sha256 w := by
  have hn : norm v = norm w := norm_perm h hk
  refine ⟨by simp only [canon, hn], ?_⟩
  cases h with
  | obj hm hp => simp only [contractHash, canon, hn]
  | null => rfl
  | bool b => rfl
  | num t => rfl
  | str s => rfl
  | arr hl => rfl

open EV.Json in
/-- one level, directly: permuting the members of an object with distinct keys -/
theorem contract_hash_perm_top (sha256 : Bytes → Bytes) (l l' : List (Bytes × Json)) (hp : l.Perm l')
    (hk : NoDupKeys (.obj l)) : contractHash sha256 (.obj l) = contractHash sha256 (.obj l') :=
  (contract_hash_perm sha256 _ _ (JPerm.obj (JPermM.refl l) hp) hk).2

open EV.Json in
/-- the canonical form lists the members of every object in strictly increasing byte order of the
    keys (the order of `BTreeMap<String, _>`) -/
theorem canon_keys_sorted (l : List (Bytes × Json)) :
    ∃ m, norm (.obj l) = .obj m ∧ Sorted m :=
  ⟨buildMap (normMembers l), by simp only [norm], buildMap_sorted _⟩

open EV.Json in
/-- duplicates: the member written last wins, no other key is lost -/
theorem duplicate_key_last_wins {α : Type} (l : List (Bytes × α)) (k : Bytes) :
    (buildMap l).lookup k = l.reverse.lookup k := lookup_buildMap k l

open EV.Json in
/-- the contract hash commits to the canonical text: equal hashes ⇒ equal canonical texts, or a
    SHA-256 collision is exhibited -/
theorem contract_hash_commits_to_text (sha256 : Bytes → Bytes) (l l' : List (Bytes × Json))
    (h : contractHash sha256 (.obj l) = contractHash sha256 (.obj l')) :
    canon (.obj l) = canon (.obj l') ∨ Collision sha256 := by
  simp only [contractHash, Option.some.injEq] at h
  by_cases e : canon (.obj l) = canon (.obj l')
  · exact Or.inl e
  · exact Or.inr ⟨_, _, e, h⟩

open EV.Json in
/-- only an object is a contract -/
theorem contract_hash_top_level (sha256 : Bytes → Bytes) (v : Json) :
    (contractHash sha256 v).isSome = (match v with | .obj _ => true | _ => false) := by
  cases v <;> rfl

/-! ## 6. … nor on insignificant whitespace

  `EV.JsonText` models the reader (`serde_json::from_str`) as a lexer followed by a parser on tokens;
  the hash is by construction a function of the token list (`contractHashText`).  The theorem
  below is about that lexer: whitespace (space, tab, LF, CR) between tokens — before the first, after
  the last, around every `{ } [ ] : ,`, string and literal — never changes the token list.  That the
  real reader behaves like the model is what the `contracthash` correspondence and the S check
  `contract_hash_whitespace` establish on generated documents (serde_json itself is trusted). -/

open EV.JsonText in
/-- a text written as gaps and tokens lexes to exactly its tokens, whatever the gaps -/
theorem lex_ignores_whitespace (l : List (Bytes × Tok)) (trail : Bytes) (h : GapsOk l) (ht : allWs trail) :
    lex (render l trail) = some (l.map Prod.snd) :=
  lex_render l trail (wf_of_gapsOk l trail h ht)

open EV.JsonText in
/-- two texts with the same tokens and different whitespace have the same contract hash (or are
    both rejected) -/
theorem contract_hash_whitespace (sha256 : Bytes → Bytes) (l l' : List (Bytes × Tok)) (trail trail' : Bytes)
    (h : GapsOk l) (h' : GapsOk l') (ht : allWs trail) (ht' : allWs trail')
    (hsame : l.map Prod.snd = l'.map Prod.snd) :
    contractHashText sha256 (render l trail) = contractHashText sha256 (render l' trail') := by
  simp only [contractHashText, parseContract, lex_ignores_whitespace l trail h ht,
    lex_ignores_whitespace l' trail' h' ht', hsame]

open EV.JsonText EV.Json in
/-- both clauses together, on texts: two contract texts whose values differ only by the order of
    object members (distinct keys) have the same contract hash -/
theorem contract_hash_text_perm (sha256 : Bytes → Bytes) (a b : Bytes) (v w : Json)
    (ha : parseContract a = .ok v) (hb : parseContract b = .ok w) (h : JPerm v w) (hk : NoDupKeys v) :
    contractHashText sha256 a = contractHashText sha256 b := by
  simp only [contractHashText, ha, hb]
  exact (contract_hash_perm sha256 v w h hk).2

/-! ## non-vacuity -/

/-- a pegin + issuance input at index 5 is canonical, and so is the coinbase input -/
example : Canonical ⟨⟨List.replicate 32 7, 5⟩, true, [], 0, ⟨Issuance.zero32, List.replicate 32 9, .explicit 1, .null⟩, TxInWitness.empty⟩ := by
  refine ⟨Or.inl ⟨by decide, by decide⟩, Or.inl (by decide)⟩
example : Canonical ⟨OutPoint.null, false, [], 0, AssetIssuance.null, TxInWitness.empty⟩ :=
  ⟨Or.inr rfl, Or.inr ⟨rfl, rfl⟩⟩

/-- `{"b":1,"a":{"d":null,"c":true}}` and `{"a":{"c":true,"d":null},"b":1}` -/
example : EV.Json.canon (.obj [([0x62], .num [0x31]), ([0x61], .obj [([0x64], .null), ([0x63], .bool true)])])
    = EV.Json.canon (.obj [([0x61], .obj [([0x63], .bool true), ([0x64], .null)]), ([0x62], .num [0x31])]) := by
  decide

/-- `{"a":1}` and ` {\t"a" :\n1 } ` have the same tokens -/
example : EV.JsonText.lex [0x7b, 0x22, 0x61, 0x22, 0x3a, 0x31, 0x7d]
    = EV.JsonText.lex [0x20, 0x7b, 0x09, 0x22, 0x61, 0x22, 0x20, 0x3a, 0x0a, 0x31, 0x20, 0x7d, 0x20] := by decide

/-! ### the PSET input used here is the projection of the full PSET input of C08/C14 -/

/-- `from_txin`, the per-input part of `extract_tx`, `is_pegin`, `has_issuance` of the full 48-field PSET
    input model (`EV.PsetInput`, properties C08/C14/C07) agree, under the projection that forgets the
    fields the issuance derivation does not read, with the ones used in this file: `ids_agree` is about
    the same `from_tx` / `extract_tx` as C08's `extract_from_tx`. -/
theorem pset_input_is_projection_of_full_model (H : Hashes) (t : TxIn) :
    EV.Proofs.IssuanceBridge.proj (PsetInput.fromTxIn t) = IssPsetInput.fromTxin t ∧
    (PsetInput.fromTxIn t).toTxIn = (IssPsetInput.fromTxin t).extractIn ∧
    (EV.Proofs.IssuanceBridge.proj (PsetInput.fromTxIn t)).issuanceIds H = (IssPsetInput.fromTxin t).issuanceIds H :=
  ⟨EV.Proofs.IssuanceBridge.fromTxin_proj t, (EV.Proofs.IssuanceBridge.ids_of_full_model H t).2,
   (EV.Proofs.IssuanceBridge.ids_of_full_model H t).1⟩

/-! ## 7. the pegged-asset id of a network (src/issuance.rs: `AssetId::pegged_asset_id_for_network_params`)

  Model: EV.Model.PeggedAsset (`forNetworkParams`, `forParamsAndParent`), on top of the genesis model of C02
  (`NetworkParams`, `commit`) and the derivation of §1.  `G.sha256` (the commitment), `G.sha256d` and
  `G.comb` are parameters; the two asset ids, the two strings of the `match`, the output index and the
  chain hashes of the parent networks are regenerated from the Rust sources on every run
  (tools/extract.d/pegged.py; the chain hashes come from the `bitcoin` crate /repo/Cargo.lock resolves to). -/
section Pegged
open EV.Genesis EV.PeggedAsset EV.Proofs.PeggedAsset

variable (G : GHashes) (p : NetworkParams)

/-! ### (a) what the function returns -/

/-- `pegged_asset_id_for_network_params` never panics -/
theorem pegged_total : ∃ a, forNetworkParams G p = some a := total G p

/-- the first arm: a parameter set whose `network_id` is the first matched string gets `LIQUID_BTC` … -/
theorem pegged_first_arm (h : p.networkId = networkIdLiquidBtc) : forNetworkParams G p = some liquidBtc :=
  named_first G p h

/-- … the second arm: `LIQUIDTESTNET_BTC` -/
theorem pegged_second_arm (h : p.networkId = networkIdLiquidtestnetBtc) :
    forNetworkParams G p = some liquidtestnetBtc := named_second G p h

/-- A fact users should know: for the two named networks the fedpeg script, the sign-block script and the
    free coins of `params` are IGNORED — any parameter set that merely carries the name gets the constant,
    and the hash functions play no role. -/
theorem pegged_named_ignores_scripts (G' : GHashes) (fed sb : Bytes) (coins : Nat) (h : IsNamed p) :
    forNetworkParams G' ⟨p.networkId, fed, sb, coins⟩ = forNetworkParams G p := by
  rcases h with h | h
  · rw [named_first G p h, named_first G' ⟨p.networkId, fed, sb, coins⟩ h]
  · rw [named_second G p h, named_second G' ⟨p.networkId, fed, sb, coins⟩ h]

/-- the two matched strings are the network ids of the built-in parameter sets of src/genesis.rs, so
    `NetworkParams::liquidv1()` / `liquidtestnet()` get the two constants, which differ -/
theorem pegged_builtin :
    forNetworkParams G NetworkParams.liquidv1 = some liquidBtc ∧
    forNetworkParams G NetworkParams.liquidtestnet = some liquidtestnetBtc ∧ liquidBtc ≠ liquidtestnetBtc :=
  ⟨named_first G _ liquidv1_named, named_second G _ liquidtestnet_named, consts_distinct⟩

/-- every other network: exactly the issuance derivation of §1 — a NEW ISSUANCE spending output 0 of the
    "transaction" whose id is the commitment to the parameters, with the chain hash of the parent chain
    (bitcoin REGTEST) in the contract-hash position -/
theorem pegged_custom (h : ¬ IsNamed p) :
    forNetworkParams G p = newIssuance G.toHashes ⟨commit G.sha256 p, 0⟩ regtestChainHash ∧
    forNetworkParams G p =
      (match generateAssetEntropy G.toHashes ⟨commit G.sha256 p, 0⟩ regtestChainHash with
       | some e => fromEntropy G.toHashes e
       | none => none) := by
  rw [custom_eq G p h, parent_is_regtest, derive_is_newIssuance, vout_zero]
  refine ⟨rfl, ?_⟩
  simp only [newIssuance, entropy_formula]

/-- … in closed form -/
theorem pegged_custom_formula (h : ¬ IsNamed p) :
    forNetworkParams G p =
      some (G.comb (G.comb (G.sha256d (commit G.sha256 p ++ [0, 0, 0, 0])) regtestChainHash) (List.replicate 32 0)) := by
  rw [custom_eq G p h, parent_is_regtest, derive_eq, derived, le_vout, EV.Proofs.Issuance.assetLeaf_eq]

/-- the private `pegged_asset_id_for_params_and_parent_chain_hash` for any parent chain hash -/
theorem pegged_derive_formula (x : Bytes) :
    forParamsAndParent G p x = newIssuance G.toHashes ⟨commit G.sha256 p, 0⟩ x ∧
    forParamsAndParent G p x =
      some (G.comb (G.comb (G.sha256d (commit G.sha256 p ++ [0, 0, 0, 0])) x) (List.replicate 32 0)) := by
  refine ⟨by rw [derive_is_newIssuance, vout_zero], ?_⟩
  rw [derive_eq, derived, le_vout, EV.Proofs.Issuance.assetLeaf_eq]

/-- the id depends on the parameters only through the commitment (network id ‖ hex fedpeg ‖ hex sign-block,
    `commit_def` of C02): the free coins are never looked at … -/
theorem pegged_ignores_free_coins (coins : Nat) :
    forNetworkParams G { p with initialFreeCoins := coins } = forNetworkParams G p := rfl

theorem pegged_depends_only_on_commit (q : NetworkParams) (hp : ¬ IsNamed p) (hq : ¬ IsNamed q)
    (h : commit G.sha256 p = commit G.sha256 q) : forNetworkParams G p = forNetworkParams G q := by
  rw [custom_eq G p hp, custom_eq G q hq, derive_eq, derive_eq, h]

/-- … and since the commitment has no separators (`commit_split_ambiguity` of C02), two DIFFERENT custom
    parameter sets can have the same pegged asset under every hash function -/
theorem pegged_split_ambiguity :
    ∃ a b : NetworkParams, a ≠ b ∧ ¬ IsNamed a ∧ ¬ IsNamed b ∧ ∀ G : GHashes, forNetworkParams G a = forNetworkParams G b :=
  ⟨⟨[0x61, 0x62], [], [], 0⟩, ⟨[], [0xab], [], 0⟩, by decide, by decide, by decide,
   fun G => pegged_depends_only_on_commit G _ _ (by decide) (by decide) rfl⟩

/-! ### (b) relation to the genesis block (C02) -/

/-- With free coins the genesis block's second transaction issues an asset from the SAME outpoint
    (commitment, 0) — but with the ZERO contract hash, where the pegged asset has the parent chain hash. -/
theorem genesis_asset_same_outpoint (h : p.initialFreeCoins ≠ 0) :
    ∃ t i o a, genesisAssetTx G p = some (some t) ∧ t.input = [i] ∧ t.output = [o] ∧
      i.previousOutput = ⟨commit G.sha256 p, 0⟩ ∧ o.asset = .explicit a ∧
      newIssuance G.toHashes ⟨commit G.sha256 p, 0⟩ (List.replicate 32 0) = some a ∧
      forParamsAndParent G p (List.replicate 32 0) = some a := by
  obtain ⟨i, o, hi, ho, _, hasset, hnew, _, _, hprev, _, _⟩ :=
    EV.Proofs.Genesis.assetTx_ids G.toHashes (commit G.sha256 p) p.initialFreeCoins
  refine ⟨_, i, o, _, EV.Proofs.Genesis.genesisAssetTx_nonzero G p h, hi, ho, ?_, hasset, ?_, ?_⟩
  · rw [hprev, vout_genesis, vout_zero]
  · rw [← hnew, hprev, vout_genesis, vout_zero]
  · rw [derive_eq, genesisAssetId_eq_derived]

/-- Hence the asset issued in the genesis block of a custom network is NOT its pegged asset: if the two
    ids coincide, a collision of the compression function is exhibited. -/
theorem genesis_asset_ne_pegged (hn : ¬ IsNamed p) (t : Tx) (o : TxOut) (a : Bytes)
    (ht : genesisAssetTx G p = some (some t)) (ho : o ∈ t.output) (ha : o.asset = .explicit a)
    (h : forNetworkParams G p = some a) : Collision2 G.comb := by
  have h0 : p.initialFreeCoins ≠ 0 := by
    intro h0; rw [EV.Proofs.Genesis.genesisAssetTx_zero G p h0] at ht; cases ht
  rw [EV.Proofs.Genesis.genesisAssetTx_nonzero G p h0] at ht
  simp only [Option.some.injEq] at ht
  subst ht
  simp only [EV.Proofs.Genesis.assetTx, List.mem_singleton] at ho
  subst ho
  simp only [Asset.explicit.injEq] at ha
  subst ha
  rw [custom_eq G p hn] at h
  exact genesis_ne_derive G p _ parent_ne_zero h

/-- the same for any non-zero parent chain hash (mainnet, testnet, …) -/
theorem genesis_asset_ne_derived (x : Bytes) (hx : x ≠ List.replicate 32 0)
    (h : forParamsAndParent G p x = forParamsAndParent G p (List.replicate 32 0)) : Collision2 G.comb := by
  rw [derive_eq, derive_eq] at h
  rcases derived_same_commit G.toHashes _ _ _ (Option.some.inj h) with e | hc
  · exact absurd e hx
  · exact hc

/-! ### (c) what the pegged asset commits to -/

/-- two custom parameter sets with the same pegged asset have the same commitment, or a collision of
    double SHA-256 or of the compression function is exhibited … -/
theorem pegged_commits (q : NetworkParams) (hp : ¬ IsNamed p) (hq : ¬ IsNamed q)
    (h : forNetworkParams G p = forNetworkParams G q) :
    commit G.sha256 p = commit G.sha256 q ∨ Collision G.sha256d ∨ Collision2 G.comb := by
  rw [custom_eq G p hp, custom_eq G q hq] at h
  rcases derive_commits G p q _ _ h with ⟨e, _⟩ | hc
  · exact Or.inl e
  · exact Or.inr hc

/-- … down to the hashed string: equal (network id ‖ hex fedpeg ‖ hex sign-block), or a collision of one of
    the three hash functions -/
theorem pegged_commits_preimage (q : NetworkParams) (hp : ¬ IsNamed p) (hq : ¬ IsNamed q)
    (h : forNetworkParams G p = forNetworkParams G q) :
    commitPreimage p = commitPreimage q ∨ Collision G.sha256 ∨ Collision G.sha256d ∨ Collision2 G.comb := by
  rcases pegged_commits G p q hp hq h with e | hc
  · by_cases he : commitPreimage p = commitPreimage q
    · exact Or.inl he
    · exact Or.inr (Or.inl ⟨_, _, he, e⟩)
  · exact Or.inr (Or.inr hc)

/-- the derivation commits to the parent chain hash as well -/
theorem pegged_derive_commits (q : NetworkParams) (x x' : Bytes)
    (h : forParamsAndParent G p x = forParamsAndParent G q x') :
    (commit G.sha256 p = commit G.sha256 q ∧ x = x') ∨ Collision G.sha256d ∨ Collision2 G.comb :=
  derive_commits G p q x x' h

/-- a custom network never gets one of the two pinned ids unless they are derived ids themselves: stated for
    `LIQUID_BTC`, which IS a derived id (`liquid_btc_is_mainnet_derivation`) — a custom network whose pegged
    asset (regtest parent) equals the mainnet derivation for liquidv1 exhibits a collision, because the
    regtest and mainnet chain hashes differ -/
theorem pegged_custom_ne_liquidv1_derivation (h : forParamsAndParent G p regtestChainHash =
      forParamsAndParent G NetworkParams.liquidv1 bitcoinChainHash) :
    Collision G.sha256d ∨ Collision2 G.comb := by
  rcases derive_commits G p _ _ _ h with ⟨_, e⟩ | hc
  · exact absurd e (by decide)
  · exact hc

/-! ### (d) the two pinned ids and the derivation, checked by the kernel

  The model is run with the kernel-evaluable SHA-256 (EV.Model.Sha256K, compared with bitcoin_hashes by the
  K op `shak` of C02) on the extracted parameter sets, chain hashes and asset ids (`decide +kernel`,
  EV.Proofs.PeggedAssetKernel).  No documentation of the crate promises either equality; the crate's test
  `liquid_asset_ids` pins the first and the third statement. -/

/-- `LIQUID_BTC` IS the derivation applied to the liquidv1 parameters with the Bitcoin MAINNET chain hash -/
theorem liquid_btc_is_mainnet_derivation :
    forParamsAndParent EV.Proofs.GenesisKernel.kernelHashes NetworkParams.liquidv1 bitcoinChainHash = some liquidBtc :=
  EV.Proofs.PeggedAssetKernel.liquidBtc_mainnet

/-- `LIQUIDTESTNET_BTC` is NOT the derivation applied to the liquidtestnet parameters with the Bitcoin
    TESTNET (testnet3) chain hash … -/
theorem liquidtestnet_btc_is_not_testnet_derivation :
    forParamsAndParent EV.Proofs.GenesisKernel.kernelHashes NetworkParams.liquidtestnet testnetChainHash ≠ some liquidtestnetBtc :=
  EV.Proofs.PeggedAssetKernel.liquidtestnetBtc_not_testnet

/-- … it is the derivation with the all-ZERO parent chain hash, i.e. (`genesis_asset_same_outpoint`) the id of
    the asset that the liquidtestnet GENESIS BLOCK issues -/
theorem liquidtestnet_btc_is_zero_parent_derivation :
    forParamsAndParent EV.Proofs.GenesisKernel.kernelHashes NetworkParams.liquidtestnet (List.replicate 32 0) = some liquidtestnetBtc :=
  EV.Proofs.PeggedAssetKernel.liquidtestnetBtc_zero

/-- the string arms of the `match` are not redundant: the fall-through arm (regtest parent) would give
    neither constant for the built-in parameter sets -/
theorem builtin_not_fallthrough :
    forParamsAndParent EV.Proofs.GenesisKernel.kernelHashes NetworkParams.liquidv1 parentChainHash ≠ some liquidBtc ∧
    forParamsAndParent EV.Proofs.GenesisKernel.kernelHashes NetworkParams.liquidtestnet parentChainHash ≠ some liquidtestnetBtc :=
  EV.Proofs.PeggedAssetKernel.builtin_not_fallthrough

/-! ### (e) `AssetId` as bytes and as text -/

/-- `from_byte_array` / `to_byte_array` / `into_tag` keep the 32 bytes as they are (no reversal) -/
theorem assetid_accessors (a : Bytes) : toByteArray (fromByteArray a) = a ∧ intoTag a = a := ⟨rfl, rfl⟩

/-- `Display` (= `{:x}` = `{:?}`) is the lower-case hex of the bytes in REVERSED order, `{:X}` its upper case -/
theorem assetid_display_reversed (a : Bytes) :
    display a = EV.Text.hexStr a.reverse ∧ upperHex a = (EV.Text.hexStr a.reverse).map upperChar := ⟨rfl, rfl⟩

/-- `FromStr` inverts `Display` and accepts the upper-case form too -/
theorem assetid_text_roundtrip (a : Bytes) (h : a.length = 32) :
    fromStr (display a) = .ok a ∧ fromStr (upperHex a) = .ok a :=
  ⟨fromStr_display a h, fromStr_upperHex a h⟩

/-- `FromStr` accepts only strings of exactly 64 characters (63, 65, odd lengths, a `0x` prefix are errors)
    and yields 32 bytes -/
theorem assetid_fromStr_length (s : EV.Text.Str) (a : Bytes) (h : fromStr s = .ok a) : s.length = 64 ∧ a.length = 32 :=
  fromStr_ok s a h

/-- the `Display` string of `LIQUID_BTC` is the one the crate's test `liquid` asserts (both extracted) -/
theorem liquid_btc_display : String.ofList (display liquidBtc) = EV.Gen.peggedLiquidBtcDisplay := by decide

/-! ### non-vacuity -/

/-- `NetworkParams::custom_network("elementsregtest", None, None, Some(21))` is not a named network and has free coins -/
example : ¬ IsNamed (NetworkParams.customNetwork [101, 108, 101, 109, 101, 110, 116, 115, 114, 101, 103, 116, 101, 115, 116] none none (some 21)) ∧
    (NetworkParams.customNetwork [101, 108, 101, 109, 101, 110, 116, 115, 114, 101, 103, 116, 101, 115, 116] none none (some 21)).initialFreeCoins ≠ 0 := by decide
example : IsNamed NetworkParams.liquidv1 ∧ IsNamed NetworkParams.liquidtestnet := by decide
/-- two different custom networks with different commitments (constant-length hashes: `constHashes` of C02) -/
example : ∃ q : NetworkParams, ¬ IsNamed q ∧ forNetworkParams EV.Proofs.Genesis.constHashes q =
    forNetworkParams EV.Proofs.Genesis.constHashes ⟨[0x61], [], [], 0⟩ := ⟨⟨[0x62], [], [], 0⟩, by decide, rfl⟩
/-- the genesis asset transaction of liquidtestnet exists and has an explicit-asset output -/
example : ∃ t o a, genesisAssetTx EV.Proofs.Genesis.constHashes NetworkParams.liquidtestnet = some (some t) ∧
    o ∈ t.output ∧ o.asset = .explicit a :=
  ⟨_, _, _, EV.Proofs.Genesis.genesisAssetTx_nonzero _ _ (by decide), List.mem_singleton.mpr rfl, rfl⟩
example : (display liquidBtc).length = 64 ∧ fromStr (display liquidBtc) = .ok liquidBtc :=
  ⟨by decide, fromStr_display _ const_lengths.1⟩

end Pegged

end EV.Props.C11
