/-
  C11 — asset and token ids follow the issuance derivation in every representation.

  `H.sha256d`, `H.comb` (SHA-256 compression of `l ‖ r` from the initial state) and the
  single SHA-256 of the JSON clause are parameters; `none` would be a panic of the Rust code.
  All byte strings are the in-memory arrays (`to_byte_array`), which is what is hashed;
  `AssetId` / `AssetEntropy` / `ContractHash` merely *display* reversed.
  Helper lemmas: EV.Proofs.Issuance, EV.Proofs.Json.
-/
import EV.Proofs.Issuance
import EV.Proofs.Json
import EV.Proofs.JsonText
import EV.Proofs.IssuanceBridge
import EV.Proofs.PeggedAsset
import EV.Proofs.PeggedAssetKernel
import EV.Proofs.BridgeIssuanceBlind
namespace EV.Props.C11
open EV EV.Codec EV.Issuance

def Collision (f : Bytes → Bytes) : Prop := ∃ x y, x ≠ y ∧ f x = f y
/-- a collision of the two-to-one compression function, colliding pairs exhibited -/
def Collision2 (g : Bytes → Bytes → Bytes) : Prop := ∃ a b c d, (a, b) ≠ (c, d) ∧ g a b = g c d

variable (P : Prims) (H : Hashes)

/-! ## 1. the derivation (src/issuance.rs) -/

/-- entropy of a new issuance: `comb (sha256d (txid ‖ vout_le32)) contract_hash` — the fast merkle
    root of the two leaves, evaluated as coded -/
theorem entropy_formula (o : OutPoint) (c : Bytes) :
    generateAssetEntropy H o c = some (H.comb (H.sha256d (o.txid ++ encLe 4 o.vout)) c) :=
  EV.Proofs.Issuance.entropy_eq H o c

/-- asset id = `comb entropy 0^32` (leaf constant re-read from the Rust source) -/
theorem asset_id_formula (e : Bytes) : fromEntropy H e = some (H.comb e (List.replicate 32 0)) := by
  rw [EV.Proofs.Issuance.fromEntropy_eq, EV.Proofs.Issuance.assetLeaf_eq]

/-- token id = `comb entropy k`, `k` = 32 bytes with first byte 1 (explicit issuance amount) or
    2 (confidential issuance amount), the rest zero -/
theorem token_id_formula (e : Bytes) (confidential : Bool) :
    reissuanceTokenFromEntropy H e confidential =
      some (H.comb e ((if confidential then 2 else 1) :: List.replicate 31 0)) := by
  rw [EV.Proofs.Issuance.token_eq, EV.Proofs.Issuance.tokenLeaf_eq]

/-- `AssetId::new_issuance` / `new_reissuance_token` compose the above -/
theorem new_issuance_formula (o : OutPoint) (c : Bytes) :
    newIssuance H o c = some (H.comb (H.comb (H.sha256d (o.txid ++ encLe 4 o.vout)) c) (List.replicate 32 0)) := by
  simp only [newIssuance, entropy_formula, asset_id_formula]

theorem new_reissuance_token_formula (o : OutPoint) (c : Bytes) (confidential : Bool) :
    newReissuanceToken H o c confidential =
      some (H.comb (H.comb (H.sha256d (o.txid ++ encLe 4 o.vout)) c) ((if confidential then 2 else 1) :: List.replicate 31 0)) := by
  simp only [newReissuanceToken, entropy_formula, token_id_formula]

/-- `TxIn::issuance_ids`, new issuance (zero blinding nonce): the entropy is derived from the stored
    outpoint (plain index) and the `asset_entropy` field read as contract hash -/
theorem ids_formula (i : TxIn) (h : i.assetIssuance.nonce = Issuance.zero32) :
    i.issuanceIds H =
      let e := H.comb (H.sha256d (i.previousOutput.txid ++ encLe 4 i.previousOutput.vout)) i.assetIssuance.entropy
      some (H.comb e (List.replicate 32 0),
            H.comb e ((if i.assetIssuance.amount.isConf then 2 else 1) :: List.replicate 31 0)) := by
  rw [EV.Proofs.Issuance.txin_ids_eq, EV.Proofs.Issuance.assetLeaf_eq, EV.Proofs.Issuance.tokenLeaf_eq]
  simp only [EV.Proofs.Issuance.entropyOf, h, if_true]

/-- `TxIn::issuance_ids`, reissuance (non-zero nonce): the entropy is the one carried in the input -/
theorem ids_formula_reissuance (i : TxIn) (h : i.assetIssuance.nonce ≠ Issuance.zero32) :
    i.issuanceIds H =
      some (H.comb i.assetIssuance.entropy (List.replicate 32 0),
            H.comb i.assetIssuance.entropy ((if i.assetIssuance.amount.isConf then 2 else 1) :: List.replicate 31 0)) := by
  rw [EV.Proofs.Issuance.txin_ids_eq, EV.Proofs.Issuance.assetLeaf_eq, EV.Proofs.Issuance.tokenLeaf_eq]
  simp only [EV.Proofs.Issuance.entropyOf, h, if_false]

/-- `pset::Input::issuance_ids`: same layout, from the optional fields (absent = zero), the index with
    the flag bits removed, "blinded" = a value commitment is present -/
theorem ids_formula_pset (p : IssPsetInput) :
    p.issuanceIds H =
      let e := if p.issuanceBlindingNonce.getD Issuance.zero32 = Issuance.zero32
        then H.comb (H.sha256d (p.previousTxid ++ encLe 4 (IssPsetInput.plainIndex p.previousOutputIndex)))
                    (p.issuanceAssetEntropy.getD Issuance.zero32)
        else p.issuanceAssetEntropy.getD Issuance.zero32
      some (H.comb e (List.replicate 32 0),
            H.comb e ((if p.issuanceValueComm.isSome then 2 else 1) :: List.replicate 31 0)) := by
  rw [EV.Proofs.Issuance.pset_ids_eq, EV.Proofs.Issuance.assetLeaf_eq, EV.Proofs.Issuance.tokenLeaf_eq]
  rfl

/-- none of the id computations panics -/
theorem ids_no_panic (i : TxIn) (p : IssPsetInput) : i.issuanceIds H ≠ none ∧ p.issuanceIds H ≠ none := by
  rw [EV.Proofs.Issuance.txin_ids_eq, EV.Proofs.Issuance.pset_ids_eq]; simp

/-! ## 2. the three representations agree -/

/-- The inputs for which agreement holds.  (a) the stored index is a real index (< 2^30; 2^30-1
    with both flags is excluded: `from_txin` folds it to 0xffffffff, the coinbase index, which by
    definition carries no flags) or the coinbase index; (b) an input *without* issuance
    (null amount and null inflation keys) has zero nonce and zero entropy — `from_txin` copies the
    issuance fields only when `has_issuance()`, while `TxIn::issuance_ids` "does not check whether
    there is an issuance" and reads them regardless.  Every input obtained by consensus decoding
    satisfies both (`canonical_of_decoded`). -/
def Canonical (t : TxIn) : Prop :=
  ((t.previousOutput.vout < 2^30 ∧ ¬ (t.previousOutput.vout = 2^30 - 1 ∧ t.isPegin = true ∧ t.hasIssuance = true)) ∨
    t.previousOutput.vout = 0xffffffff) ∧
  (t.hasIssuance = true ∨ (t.assetIssuance.nonce = Issuance.zero32 ∧ t.assetIssuance.entropy = Issuance.zero32))

/-- Main theorem: a transaction input, the PSET input built from it (`Input::from_txin`) and the input
    of the transaction extracted from that PSET (`extract_tx`) yield the same (asset id, token id):
    pegin or not, new issuance or reissuance, explicit / confidential / null amounts, any txid. -/
theorem ids_agree (t : TxIn) (h : Canonical t) :
    (IssPsetInput.fromTxin t).issuanceIds H = t.issuanceIds H ∧
    (IssPsetInput.extractIn (IssPsetInput.fromTxin t)).issuanceIds H = t.issuanceIds H :=
  ⟨EV.Proofs.Issuance.ids_agree_pset H t h.1 h.2, EV.Proofs.Issuance.ids_agree_extract H t h.1 h.2⟩

/-- every well-formed in-memory input (`wfBody` of C01) is canonical … -/
theorem canonical_of_wf (t : TxIn) (h : t.wfBody P) : Canonical t :=
  EV.Proofs.Issuance.hyps_of_wfBody P t h

/-- … in particular everything the consensus decoder returns -/
theorem canonical_of_decoded (bs rest : Bytes) (t : TxIn) (h : TxIn.dec P bs = .ok (t, rest)) : Canonical t :=
  canonical_of_wf P t ((EV.Proofs.CodecTx.txIn_sound P bs t rest h).2.1)

theorem ids_agree_decoded (bs rest : Bytes) (t : TxIn) (h : TxIn.dec P bs = .ok (t, rest)) :
    (IssPsetInput.fromTxin t).issuanceIds H = t.issuanceIds H ∧
    (IssPsetInput.extractIn (IssPsetInput.fromTxin t)).issuanceIds H = t.issuanceIds H :=
  ids_agree H t (canonical_of_decoded P bs rest t h)

/-- what is behind it: outpoint and issuance survive TxIn → PSET input → extracted TxIn (the flags
    folded into the index by `from_txin` are stripped again), and so does the pegin flag -/
theorem extract_keeps_outpoint_and_issuance (t : TxIn) (h : Canonical t) :
    (IssPsetInput.extractIn (IssPsetInput.fromTxin t)).previousOutput = t.previousOutput ∧
    (IssPsetInput.extractIn (IssPsetInput.fromTxin t)).assetIssuance = t.assetIssuance ∧
    (IssPsetInput.fromTxin t).assetIssuance = t.assetIssuance :=
  let ⟨a, b⟩ := EV.Proofs.Issuance.extract_fromTxin_core t h.1 h.2
  ⟨a, b, EV.Proofs.Issuance.assetIssuance_fromTxin t h.2⟩

theorem extract_keeps_pegin (t : TxIn)
    (h : (t.previousOutput.vout < 2^30 ∧ ¬ (t.previousOutput.vout = 2^30 - 1 ∧ t.isPegin = true ∧ t.hasIssuance = true)) ∨
         (t.previousOutput.vout = 0xffffffff ∧ t.isPegin = false)) :
    (IssPsetInput.extractIn (IssPsetInput.fromTxin t)).isPegin = t.isPegin :=
  EV.Proofs.Issuance.extract_fromTxin_isPegin t h

/-- The excluded index, exactly: for index 2^30-1 with pegin *and* issuance the PSET input (and the
    extracted input) compute the ids of the outpoint with index 0xffffffff instead. -/
theorem ids_at_excluded_index (t : TxIn) (hv : t.previousOutput.vout = 2^30 - 1) (hp : t.isPegin = true)
    (hq : t.hasIssuance = true) :
    (IssPsetInput.fromTxin t).issuanceIds H =
      ({ t with previousOutput := ⟨t.previousOutput.txid, 0xffffffff⟩ } : TxIn).issuanceIds H := by
  have hi : EV.Proofs.Issuance.IssuanceOk t := Or.inl hq
  rw [EV.Proofs.Issuance.pset_ids_eq, EV.Proofs.Issuance.txin_ids_eq, EV.Proofs.Issuance.fromTxin_nonce t hi,
    EV.Proofs.Issuance.fromTxin_entropy t hi, EV.Proofs.Issuance.fromTxin_comm_isSome,
    EV.Proofs.Issuance.fromTxin_index, EV.Proofs.Issuance.fromTxin_txid, hv, hp, hq]
  rfl

/-- The other excluded inputs, exactly: an input *without* issuance (null amount and null inflation
    keys) that nevertheless carries a nonce or an entropy.  `TxIn::issuance_ids` reads them, the PSET
    input never receives them: it computes the ids of the same input with the default issuance. -/
theorem ids_without_issuance (t : TxIn) (hq : t.hasIssuance = false)
    (hv : t.previousOutput.vout < 2^30 ∨ t.previousOutput.vout = 0xffffffff) :
    (IssPsetInput.fromTxin t).issuanceIds H = ({ t with assetIssuance := AssetIssuance.null } : TxIn).issuanceIds H := by
  rw [EV.Proofs.Issuance.fromTxin_no_issuance t hq]
  apply EV.Proofs.Issuance.ids_agree_pset
  · rcases hv with hv | hv
    · exact Or.inl ⟨hv, fun h => by simp [TxIn.hasIssuance, AssetIssuance.null, AssetIssuance.isNull, Value.isNull] at h⟩
    · exact Or.inr hv
  · exact Or.inr ⟨rfl, rfl⟩

/-! ## 3. flag bits are irrelevant -/

/-- the PSET ids depend on the stored index only through the plain index: setting or clearing the
    pegin (bit 30) and issuance (bit 31) flags of a real index changes nothing -/
theorem ids_flag_bits_irrelevant (p : IssPsetInput) (idx : Nat) (pegin iss : Bool) (hidx : idx < 2^30)
    (hrep : ¬ (idx = 2^30 - 1 ∧ pegin = true ∧ iss = true)) :
    ({ p with previousOutputIndex := (idx ||| (if pegin then 2^30 else 0)) ||| (if iss then 2^31 else 0) } : IssPsetInput).issuanceIds H
      = ({ p with previousOutputIndex := idx } : IssPsetInput).issuanceIds H := by
  rw [EV.Proofs.Issuance.pset_ids_eq, EV.Proofs.Issuance.pset_ids_eq]
  have h1 := EV.Proofs.Issuance.plainIndex_word idx pegin iss (Or.inl ⟨hidx, hrep⟩)
  have h2 := EV.Proofs.Issuance.plainIndex_word idx false false (Or.inl ⟨hidx, by simp⟩)
  simp only [Bool.false_eq_true, if_false, Nat.or_zero] at h2
  simp only [h1, h2]

/-- `TxIn::issuance_ids` does not look at the pegin flag, the script, the sequence or the witness -/
theorem ids_pegin_irrelevant (t : TxIn) (b : Bool) (s : Bytes) (q : Nat) (w : TxInWitness) :
    ({ t with isPegin := b, scriptSig := s, sequence := q, witness := w } : TxIn).issuanceIds H = t.issuanceIds H := rfl

/-! ## 4. the ids commit to outpoint and contract hash -/

/-- equal entropies ⇒ equal (outpoint, contract hash), or a collision is exhibited -/
theorem entropy_commit (o o' : OutPoint) (c c' : Bytes) (ho : o.wf) (ho' : o'.wf)
    (h : generateAssetEntropy H o c = generateAssetEntropy H o' c') :
    (o = o' ∧ c = c') ∨ Collision H.sha256d ∨ Collision2 H.comb :=
  EV.Proofs.Issuance.entropy_commits H o o' c c' ho ho' h

/-- equal asset ids of two new issuances ⇒ equal (outpoint, contract hash) ∨ collision of sha256d ∨
    collision of the compression function -/
theorem ids_commit (o o' : OutPoint) (c c' : Bytes) (ho : o.wf) (ho' : o'.wf)
    (h : newIssuance H o c = newIssuance H o' c') :
    (o = o' ∧ c = c') ∨ Collision H.sha256d ∨ Collision2 H.comb := by
  simp only [newIssuance, entropy_formula] at h
  rcases EV.Proofs.Issuance.assetId_commits H _ _ h with he | hc
  · exact entropy_commit H o o' c c' ho ho' (by rw [entropy_formula, entropy_formula, he])
  · exact Or.inr (Or.inr hc)

/-- the same for inputs: two new-issuance inputs with the same asset id spend the same outpoint
    and carry the same contract hash -/
theorem ids_commit_txin (a b : TxIn) (ha : a.previousOutput.wf) (hb : b.previousOutput.wf)
    (hna : a.assetIssuance.nonce = Issuance.zero32) (hnb : b.assetIssuance.nonce = Issuance.zero32)
    (h : (a.issuanceIds H).map Prod.fst = (b.issuanceIds H).map Prod.fst) :
    (a.previousOutput = b.previousOutput ∧ a.assetIssuance.entropy = b.assetIssuance.entropy) ∨
      Collision H.sha256d ∨ Collision2 H.comb := by
  rw [ids_formula H a hna, ids_formula H b hnb] at h
  simp only [Option.map_some, Option.some.injEq] at h
  apply ids_commit H _ _ _ _ ha hb
  rw [new_issuance_formula, new_issuance_formula, h]

/-- the token id commits to the entropy and to the blinded flag; asset id and token id of any
    entropies never coincide (domain separation by the second leaf) -/
theorem token_commit (e e' : Bytes) (c c' : Bool)
    (h : reissuanceTokenFromEntropy H e c = reissuanceTokenFromEntropy H e' c') :
    (e = e' ∧ c = c') ∨ Collision2 H.comb :=
  EV.Proofs.Issuance.tokenId_commits H e e' c c' h

theorem asset_id_commit (e e' : Bytes) (h : fromEntropy H e = fromEntropy H e') : e = e' ∨ Collision2 H.comb :=
  EV.Proofs.Issuance.assetId_commits H e e' h

theorem asset_token_distinct (e e' : Bytes) (c : Bool)
    (h : fromEntropy H e = reissuanceTokenFromEntropy H e' c) : Collision2 H.comb :=
  EV.Proofs.Issuance.asset_ne_token H e e' c h

/-! ## 5. the contract hash of a JSON contract does not depend on key order -/

open EV.Json in
/-- `w` is `v` with the members of every object, at every nesting depth, written in another order;
    if no object of `v` repeats a key, the canonical text and therefore the contract hash are the
    same.  (With a repeated key serde_json keeps the member written last — `duplicate_key_last_wins`
    — so the order of the duplicates matters and the hypothesis is needed.) -/
theorem contract_hash_perm (sha256 : Bytes → Bytes) (v w : Json) (h : JPerm v w) (hk : NoDupKeys v) :
    canon v = canon w ∧ contractHash sha256 v = contractHash sha256 w := by
  have hn : norm v = norm w := norm_perm h hk
  refine ⟨by simp only [canon, hn], ?_⟩
  cases h with
  | obj hm hp => simp only [contractHash, canon, hn]
  | null => rfl
  | bool b => rfl
  | num t => rfl
  | str s => rfl
  | arr hl => rfl

open EV.Json in
/-- one level, directly: permuting the members of an object with distinct keys -/
theorem contract_hash_perm_top (sha256 : Bytes → Bytes) (l l' : List (Bytes × Json)) (hp : l.Perm l')
    (hk : NoDupKeys (.obj l)) : contractHash sha256 (.obj l) = contractHash sha256 (.obj l') :=
  (contract_hash_perm sha256 _ _ (JPerm.obj (JPermM.refl l) hp) hk).2

open EV.Json in
/-- the canonical form lists the members of every object in strictly increasing byte order of the
    keys (the order of `BTreeMap<String, _>`) -/
theorem canon_keys_sorted (l : List (Bytes × Json)) :
    ∃ m, norm (.obj l) = .obj m ∧ Sorted m :=
  ⟨buildMap (normMembers l), by simp only [norm], buildMap_sorted _⟩

open EV.Json in
/-- duplicates: the member written last wins, no other key is lost -/
theorem duplicate_key_last_wins {α : Type} (l : List (Bytes × α)) (k : Bytes) :
    (buildMap l).lookup k = l.reverse.lookup k := lookup_buildMap k l

open EV.Json in
/-- the contract hash commits to the canonical text: equal hashes ⇒ equal canonical texts, or a
    SHA-256 collision is exhibited -/
theorem contract_hash_commits_to_text (sha256 : Bytes → Bytes) (l l' : List (Bytes × Json))
    (h : contractHash sha256 (.obj l) = contractHash sha256 (.obj l')) :
    canon (.obj l) = canon (.obj l') ∨ Collision sha256 := by
  simp only [contractHash, Option.some.injEq] at h
  by_cases e : canon (.obj l) = canon (.obj l')
  · exact Or.inl e
  · exact Or.inr ⟨_, _, e, h⟩

open EV.Json in
/-- only an object is a contract -/
theorem contract_hash_top_level (sha256 : Bytes → Bytes) (v : Json) :
    (contractHash sha256 v).isSome = (match v with | .obj _ => true | _ => false) := by
  cases v <;> rfl

/-! ## 6. … nor on insignificant whitespace

  `EV.JsonText` models the reader (`serde_json::from_str`) as a lexer followed by a parser on tokens;
  the hash is by construction a function of the token list (`contractHashText`).  The theorem
  below is about that lexer: whitespace (space, tab, LF, CR) between tokens — before the first, after
  the last, around every `{ } [ ] : ,`, string and literal — never changes the token list.  That the
  real reader behaves like the model is what the `contracthash` correspondence and the S check
  `contract_hash_whitespace` establish on generated documents (serde_json itself is trusted). -/

open EV.JsonText in
/-- a text written as gaps and tokens lexes to exactly its tokens, whatever the gaps -/
theorem lex_ignores_whitespace (l : List (Bytes × Tok)) (trail : Bytes) (h : GapsOk l) (ht : allWs trail) :
    lex (render l trail) = some (l.map Prod.snd) :=
  lex_render l trail (wf_of_gapsOk l trail h ht)

open EV.JsonText in
/-- two texts with the same tokens and different whitespace have the same contract hash (or are
    both rejected) -/
theorem contract_hash_whitespace (sha256 : Bytes → Bytes) (l l' : List (Bytes × Tok)) (trail trail' : Bytes)
    (h : GapsOk l) (h' : GapsOk l') (ht : allWs trail) (ht' : allWs trail')
    (hsame : l.map Prod.snd = l'.map Prod.snd) :
    contractHashText sha256 (render l trail) = contractHashText sha256 (render l' trail') := by
  simp only [contractHashText, parseContract, lex_ignores_whitespace l trail h ht,
    lex_ignores_whitespace l' trail' h' ht', hsame]

open EV.JsonText EV.Json in
/-- both clauses together, on texts: two contract texts whose values differ only by the order of
    object members (distinct keys) have the same contract hash -/
theorem contract_hash_text_perm (sha256 : Bytes → Bytes) (a b : Bytes) (v w : Json)
    (ha : parseContract a = .ok v) (hb : parseContract b = .ok w) (h : JPerm v w) (hk : NoDupKeys v) :
    contractHashText sha256 a = contractHashText sha256 b := by
  simp only [contractHashText, ha, hb]
  exact (contract_hash_perm sha256 v w h hk).2

/-! ## non-vacuity -/

/-- a pegin + issuance input at index 5 is canonical, and so is the coinbase input -/
example : Canonical ⟨⟨List.replicate 32 7, 5⟩, true, [], 0, ⟨Issuance.zero32, List.replicate 32 9, .explicit 1, .null⟩, TxInWitness.empty⟩ := by
  refine ⟨Or.inl ⟨by decide, by decide⟩, Or.inl (by decide)⟩
example : Canonical ⟨OutPoint.null, false, [], 0, AssetIssuance.null, TxInWitness.empty⟩ :=
  ⟨Or.inr rfl, Or.inr ⟨rfl, rfl⟩⟩

/-- `{"b":1,"a":{"d":null,"c":true}}` and `{"a":{"c":true,"d":null},"b":1}` -/
example : EV.Json.canon (.obj [([0x62], .num [0x31]), ([0x61], .obj [([0x64], .null), ([0x63], .bool true)])])
    = EV.Json.canon (.obj [([0x61], .obj [([0x63], .bool true), ([0x64], .null)]), ([0x62], .num [0x31])]) := by
  decide

/-- `{"a":1}` and ` {\t"a" :\n1 } ` have the same tokens -/
example : EV.JsonText.lex [0x7b, 0x22, 0x61, 0x22, 0x3a, 0x31, 0x7d]
    = EV.JsonText.lex [0x20, 0x7b, 0x09, 0x22, 0x61, 0x22, 0x20, 0x3a, 0x0a, 0x31, 0x20, 0x7d, 0x20] := by decide

/-! ### the PSET input used here is the projection of the full PSET input of C08/C14 -/

/-- `from_txin`, the per-input part of `extract_tx`, `is_pegin`, `has_issuance` of the full 48-field PSET
    input model (`EV.PsetInput`, properties C08/C14/C07) agree, under the projection that forgets the
    fields the issuance derivation does not read, with the ones used in this file: `ids_agree` is about
    the same `from_tx` / `extract_tx` as C08's `extract_from_tx`. -/
theorem pset_input_is_projection_of_full_model (H : Hashes) (t : TxIn) :
    EV.Proofs.IssuanceBridge.proj (PsetInput.fromTxIn t) = IssPsetInput.fromTxin t ∧
    (PsetInput.fromTxIn t).toTxIn = (IssPsetInput.fromTxin t).extractIn ∧
    (EV.Proofs.IssuanceBridge.proj (PsetInput.fromTxIn t)).issuanceIds H = (IssPsetInput.fromTxin t).issuanceIds H :=
  ⟨EV.Proofs.IssuanceBridge.fromTxin_proj t, (EV.Proofs.IssuanceBridge.ids_of_full_model H t).2,
   (EV.Proofs.IssuanceBridge.ids_of_full_model H t).1⟩

/-! ## 7. the pegged-asset id of a network (src/issuance.rs: `AssetId::pegged_asset_id_for_network_params`)

  Model: EV.Model.PeggedAsset (`forNetworkParams`, `forParamsAndParent`), on top of the genesis model of C02
  (`NetworkParams`, `commit`) and the derivation of §1.  `G.sha256` (the commitment), `G.sha256d` and
  `G.comb` are parameters; the two asset ids, the two strings of the `match`, the output index and the
  chain hashes of the parent networks are regenerated from the Rust sources on every run
  (tools/extract.d/pegged.py; the chain hashes come from the `bitcoin` crate /repo/Cargo.lock resolves to). -/
section Pegged
open EV.Genesis EV.PeggedAsset EV.Proofs.PeggedAsset

variable (G : GHashes) (p : NetworkParams)

/-! ### (a) what the function returns -/

/-- `pegged_asset_id_for_network_params` never panics -/
theorem pegged_total : ∃ a, forNetworkParams G p = some a := total G p

/-- the first arm: a parameter set whose `network_id` is the first matched string gets `LIQUID_BTC` … -/
theorem pegged_first_arm (h : p.networkId = networkIdLiquidBtc) : forNetworkParams G p = some liquidBtc :=
  named_first G p h

/-- … the second arm: `LIQUIDTESTNET_BTC` -/
theorem pegged_second_arm (h : p.networkId = networkIdLiquidtestnetBtc) :
    forNetworkParams G p = some liquidtestnetBtc := named_second G p h

/-- A fact users should know: for the two named networks the fedpeg script, the sign-block script and the
    free coins of `params` are IGNORED — any parameter set that merely carries the name gets the constant,
    and the hash functions play no role. -/
theorem pegged_named_ignores_scripts (G' : GHashes) (fed sb : Bytes) (coins : Nat) (h : IsNamed p) :
    forNetworkParams G' ⟨p.networkId, fed, sb, coins⟩ = forNetworkParams G p := by
  rcases h with h | h
  · rw [named_first G p h, named_first G' ⟨p.networkId, fed, sb, coins⟩ h]
  · rw [named_second G p h, named_second G' ⟨p.networkId, fed, sb, coins⟩ h]

/-- the two matched strings are the network ids of the built-in parameter sets of src/genesis.rs, so
    `NetworkParams::liquidv1()` / `liquidtestnet()` get the two constants, which differ -/
theorem pegged_builtin :
    forNetworkParams G NetworkParams.liquidv1 = some liquidBtc ∧
    forNetworkParams G NetworkParams.liquidtestnet = some liquidtestnetBtc ∧ liquidBtc ≠ liquidtestnetBtc :=
  ⟨named_first G _ liquidv1_named, named_second G _ liquidtestnet_named, consts_distinct⟩

/-- every other network: exactly the issuance derivation of §1 — a NEW ISSUANCE spending output 0 of the
    "transaction" whose id is the commitment to the parameters, with the chain hash of the parent chain
    (bitcoin REGTEST) in the contract-hash position -/
theorem pegged_custom (h : ¬ IsNamed p) :
    forNetworkParams G p = newIssuance G.toHashes ⟨commit G.sha256 p, 0⟩ regtestChainHash ∧
    forNetworkParams G p =
      (match generateAssetEntropy G.toHashes ⟨commit G.sha256 p, 0⟩ regtestChainHash with
       | some e => fromEntropy G.toHashes e
       | none => none) := by
  rw [custom_eq G p h, parent_is_regtest, derive_is_newIssuance, vout_zero]
  refine ⟨rfl, ?_⟩
  simp only [newIssuance, entropy_formula]

/-- … in closed form -/
theorem pegged_custom_formula (h : ¬ IsNamed p) :
    forNetworkParams G p =
      some (G.comb (G.comb (G.sha256d (commit G.sha256 p ++ [0, 0, 0, 0])) regtestChainHash) (List.replicate 32 0)) := by
  rw [custom_eq G p h, parent_is_regtest, derive_eq, derived, le_vout, EV.Proofs.Issuance.assetLeaf_eq]

/-- the private `pegged_asset_id_for_params_and_parent_chain_hash` for any parent chain hash -/
theorem pegged_derive_formula (x : Bytes) :
    forParamsAndParent G p x = newIssuance G.toHashes ⟨commit G.sha256 p, 0⟩ x ∧
    forParamsAndParent G p x =
      some (G.comb (G.comb (G.sha256d (commit G.sha256 p ++ [0, 0, 0, 0])) x) (List.replicate 32 0)) := by
  refine ⟨by rw [derive_is_newIssuance, vout_zero], ?_⟩
  rw [derive_eq, derived, le_vout, EV.Proofs.Issuance.assetLeaf_eq]

/-- the id depends on the parameters only through the commitment (network id ‖ hex fedpeg ‖ hex sign-block,
    `commit_def` of C02): the free coins are never looked at … -/
theorem pegged_ignores_free_coins (coins : Nat) :
    forNetworkParams G { p with initialFreeCoins := coins } = forNetworkParams G p := rfl

theorem pegged_depends_only_on_commit (q : NetworkParams) (hp : ¬ IsNamed p) (hq : ¬ IsNamed q)
    (h : commit G.sha256 p = commit G.sha256 q) : forNetworkParams G p = forNetworkParams G q := by
  rw [custom_eq G p hp, custom_eq G q hq, derive_eq, derive_eq, h]

/-- … and since the commitment has no separators (`commit_split_ambiguity` of C02), two DIFFERENT custom
    parameter sets can have the same pegged asset under every hash function -/
theorem pegged_split_ambiguity :
    ∃ a b : NetworkParams, a ≠ b ∧ ¬ IsNamed a ∧ ¬ IsNamed b ∧ ∀ G : GHashes, forNetworkParams G a = forNetworkParams G b :=
  ⟨⟨[0x61, 0x62], [], [], 0⟩, ⟨[], [0xab], [], 0⟩, by decide, by decide, by decide,
   fun G => pegged_depends_only_on_commit G _ _ (by decide) (by decide) rfl⟩

/-! ### (b) relation to the genesis block (C02) -/

/-- With free coins the genesis block's second transaction issues an asset from the SAME outpoint
    (commitment, 0) — but with the ZERO contract hash, where the pegged asset has the parent chain hash. -/
theorem genesis_asset_same_outpoint (h : p.initialFreeCoins ≠ 0) :
    ∃ t i o a, genesisAssetTx G p = some (some t) ∧ t.input = [i] ∧ t.output = [o] ∧
      i.previousOutput = ⟨commit G.sha256 p, 0⟩ ∧ o.asset = .explicit a ∧
      newIssuance G.toHashes ⟨commit G.sha256 p, 0⟩ (List.replicate 32 0) = some a ∧
      forParamsAndParent G p (List.replicate 32 0) = some a := by
  obtain ⟨i, o, hi, ho, _, hasset, hnew, _, _, hprev, _, _⟩ :=
    EV.Proofs.Genesis.assetTx_ids G.toHashes (commit G.sha256 p) p.initialFreeCoins
  refine ⟨_, i, o, _, EV.Proofs.Genesis.genesisAssetTx_nonzero G p h, hi, ho, ?_, hasset, ?_, ?_⟩
  · rw [hprev, vout_genesis, vout_zero]
  · rw [← hnew, hprev, vout_genesis, vout_zero]
  · rw [derive_eq, genesisAssetId_eq_derived]

/-- Hence the asset issued in the genesis block of a custom network is NOT its pegged asset: if the two
    ids coincide, a collision of the compression function is exhibited. -/
theorem genesis_asset_ne_pegged (hn : ¬ IsNamed p) (t : Tx) (o : TxOut) (a : Bytes)
    (ht : genesisAssetTx G p = some (some t)) (ho : o ∈ t.output) (ha : o.asset = .explicit a)
    (h : forNetworkParams G p = some a) : Collision2 G.comb := by
  have h0 : p.initialFreeCoins ≠ 0 := by
    intro h0; rw [EV.Proofs.Genesis.genesisAssetTx_zero G p h0] at ht; cases ht
  rw [EV.Proofs.Genesis.genesisAssetTx_nonzero G p h0] at ht
  simp only [Option.some.injEq] at ht
  subst ht
  simp only [EV.Proofs.Genesis.assetTx, List.mem_singleton] at ho
  subst ho
  simp only [Asset.explicit.injEq] at ha
  subst ha
  rw [custom_eq G p hn] at h
  exact genesis_ne_derive G p _ parent_ne_zero h

/-- the same for any non-zero parent chain hash (mainnet, testnet, …) -/
theorem genesis_asset_ne_derived (x : Bytes) (hx : x ≠ List.replicate 32 0)
    (h : forParamsAndParent G p x = forParamsAndParent G p (List.replicate 32 0)) : Collision2 G.comb := by
  rw [derive_eq, derive_eq] at h
  rcases derived_same_commit G.toHashes _ _ _ (Option.some.inj h) with e | hc
  · exact absurd e hx
  · exact hc

/-! ### (c) what the pegged asset commits to -/

/-- two custom parameter sets with the same pegged asset have the same commitment, or a collision of
    double SHA-256 or of the compression function is exhibited … -/
theorem pegged_commits (q : NetworkParams) (hp : ¬ IsNamed p) (hq : ¬ IsNamed q)
    (h : forNetworkParams G p = forNetworkParams G q) :
    commit G.sha256 p = commit G.sha256 q ∨ Collision G.sha256d ∨ Collision2 G.comb := by
  rw [custom_eq G p hp, custom_eq G q hq] at h
  rcases derive_commits G p q _ _ h with ⟨e, _⟩ | hc
  · exact Or.inl e
  · exact Or.inr hc

/-- … down to the hashed string: equal (network id ‖ hex fedpeg ‖ hex sign-block), or a collision of one of
    the three hash functions -/
theorem pegged_commits_preimage (q : NetworkParams) (hp : ¬ IsNamed p) (hq : ¬ IsNamed q)
    (h : forNetworkParams G p = forNetworkParams G q) :
    commitPreimage p = commitPreimage q ∨ Collision G.sha256 ∨ Collision G.sha256d ∨ Collision2 G.comb := by
  rcases pegged_commits G p q hp hq h with e | hc
  · by_cases he : commitPreimage p = commitPreimage q
    · exact Or.inl he
    · exact Or.inr (Or.inl ⟨_, _, he, e⟩)
  · exact Or.inr (Or.inr hc)

/-- the derivation commits to the parent chain hash as well -/
theorem pegged_derive_commits (q : NetworkParams) (x x' : Bytes)
    (h : forParamsAndParent G p x = forParamsAndParent G q x') :
    (commit G.sha256 p = commit G.sha256 q ∧ x = x') ∨ Collision G.sha256d ∨ Collision2 G.comb :=
  derive_commits G p q x x' h

/-- a custom network never gets one of the two pinned ids unless they are derived ids themselves: stated for
    `LIQUID_BTC`, which IS a derived id (`liquid_btc_is_mainnet_derivation`) — a custom network whose pegged
    asset (regtest parent) equals the mainnet derivation for liquidv1 exhibits a collision, because the
    regtest and mainnet chain hashes differ -/
theorem pegged_custom_ne_liquidv1_derivation (h : forParamsAndParent G p regtestChainHash =
      forParamsAndParent G NetworkParams.liquidv1 bitcoinChainHash) :
    Collision G.sha256d ∨ Collision2 G.comb := by
  rcases derive_commits G p _ _ _ h with ⟨_, e⟩ | hc
  · exact absurd e (by decide)
  · exact hc

/-! ### (d) the two pinned ids and the derivation, checked by the kernel

  The model is run with the kernel-evaluable SHA-256 (EV.Model.Sha256K, compared with bitcoin_hashes by the
  K op `shak` of C02) on the extracted parameter sets, chain hashes and asset ids (`decide +kernel`,
  EV.Proofs.PeggedAssetKernel).  No documentation of the crate promises either equality; the crate's test
  `liquid_asset_ids` pins the first and the third statement. -/

/-- `LIQUID_BTC` IS the derivation applied to the liquidv1 parameters with the Bitcoin MAINNET chain hash -/
theorem liquid_btc_is_mainnet_derivation :
    forParamsAndParent EV.Proofs.GenesisKernel.kernelHashes NetworkParams.liquidv1 bitcoinChainHash = some liquidBtc :=
  EV.Proofs.PeggedAssetKernel.liquidBtc_mainnet

/-- `LIQUIDTESTNET_BTC` is NOT the derivation applied to the liquidtestnet parameters with the Bitcoin
    TESTNET (testnet3) chain hash … -/
theorem liquidtestnet_btc_is_not_testnet_derivation :
    forParamsAndParent EV.Proofs.GenesisKernel.kernelHashes NetworkParams.liquidtestnet testnetChainHash ≠ some liquidtestnetBtc :=
  EV.Proofs.PeggedAssetKernel.liquidtestnetBtc_not_testnet

/-- … it is the derivation with the all-ZERO parent chain hash, i.e. (`genesis_asset_same_outpoint`) the id of
    the asset that the liquidtestnet GENESIS BLOCK issues -/
theorem liquidtestnet_btc_is_zero_parent_derivation :
    forParamsAndParent EV.Proofs.GenesisKernel.kernelHashes NetworkParams.liquidtestnet (List.replicate 32 0) = some liquidtestnetBtc :=
  EV.Proofs.PeggedAssetKernel.liquidtestnetBtc_zero

/-- the string arms of the `match` are not redundant: the fall-through arm (regtest parent) would give
    neither constant for the built-in parameter sets -/
theorem builtin_not_fallthrough :
    forParamsAndParent EV.Proofs.GenesisKernel.kernelHashes NetworkParams.liquidv1 parentChainHash ≠ some liquidBtc ∧
    forParamsAndParent EV.Proofs.GenesisKernel.kernelHashes NetworkParams.liquidtestnet parentChainHash ≠ some liquidtestnetBtc :=
  EV.Proofs.PeggedAssetKernel.builtin_not_fallthrough

/-! ### (e) `AssetId` as bytes and as text -/

/-- `from_byte_array` / `to_byte_array` / `into_tag` keep the 32 bytes as they are (no reversal) -/
theorem assetid_accessors (a : Bytes) : toByteArray (fromByteArray a) = a ∧ intoTag a = a := ⟨rfl, rfl⟩

/-- `Display` (= `{:x}` = `{:?}`) is the lower-case hex of the bytes in REVERSED order, `{:X}` its upper case -/
theorem assetid_display_reversed (a : Bytes) :
    display a = EV.Text.hexStr a.reverse ∧ upperHex a = (EV.Text.hexStr a.reverse).map upperChar := ⟨rfl, rfl⟩

/-- `FromStr` inverts `Display` and accepts the upper-case form too -/
theorem assetid_text_roundtrip (a : Bytes) (h : a.length = 32) :
    fromStr (display a) = .ok a ∧ fromStr (upperHex a) = .ok a :=
  ⟨fromStr_display a h, fromStr_upperHex a h⟩

/-- `FromStr` accepts only strings of exactly 64 characters (63, 65, odd lengths, a `0x` prefix are errors)
    and yields 32 bytes -/
theorem assetid_fromStr_length (s : EV.Text.Str) (a : Bytes) (h : fromStr s = .ok a) : s.length = 64 ∧ a.length = 32 :=
  fromStr_ok s a h

/-- the `Display` string of `LIQUID_BTC` is the one the crate's test `liquid` asserts (both extracted) -/
theorem liquid_btc_display : String.ofList (display liquidBtc) = EV.Gen.peggedLiquidBtcDisplay := by decide

/-! ### non-vacuity -/

/-- `NetworkParams::custom_network("elementsregtest", None, None, Some(21))` is not a named network and has free coins -/
example : ¬ IsNamed (NetworkParams.customNetwork [101, 108, 101, 109, 101, 110, 116, 115, 114, 101, 103, 116, 101, 115, 116] none none (some 21)) ∧
    (NetworkParams.customNetwork [101, 108, 101, 109, 101, 110, 116, 115, 114, 101, 103, 116, 101, 115, 116] none none (some 21)).initialFreeCoins ≠ 0 := by decide
example : IsNamed NetworkParams.liquidv1 ∧ IsNamed NetworkParams.liquidtestnet := by decide
/-- two different custom networks with different commitments (constant-length hashes: `constHashes` of C02) -/
example : ∃ q : NetworkParams, ¬ IsNamed q ∧ forNetworkParams EV.Proofs.Genesis.constHashes q =
    forNetworkParams EV.Proofs.Genesis.constHashes ⟨[0x61], [], [], 0⟩ := ⟨⟨[0x62], [], [], 0⟩, by decide, rfl⟩
/-- the genesis asset transaction of liquidtestnet exists and has an explicit-asset output -/
example : ∃ t o a, genesisAssetTx EV.Proofs.Genesis.constHashes NetworkParams.liquidtestnet = some (some t) ∧
    o ∈ t.output ∧ o.asset = .explicit a :=
  ⟨_, _, _, EV.Proofs.Genesis.genesisAssetTx_nonzero _ _ (by decide), List.mem_singleton.mpr rfl, rfl⟩
example : (display liquidBtc).length = 64 ∧ fromStr (display liquidBtc) = .ok liquidBtc :=
  ⟨by decide, fromStr_display _ const_lengths.1⟩

end Pegged

/-! ### bridge to C05/C04: the generator of an issuance pseudo-input is the generator of `issuance_ids`

  `Transaction::verify_tx_amt_proofs` (src/blind.rs; model `EV.Blind.verify`, property C05) takes the two ids
  of an input as parameters of the model (`Blind.TxIn.assetId`, `.tokenId`).  The Rust code instantiates
  them with `let (asset_id, token_id) = inp.issuance_ids();` and feeds `asset.into_tag()` to
  `Generator::new_unblinded`.  `blindIn H pt t` (EV.Proofs.BridgeIssuanceBlind) is that instantiation for
  the consensus input `t`; `pt` reads the commitment bytes of a confidential amount as a point.
  Helper lemmas: EV.Proofs.BridgeIssuanceBlind. -/
section BridgeBlind
open EV.Proofs.BridgeIssuanceBlind
variable {Pt RP SP : Type}

/-- The Blind view of a consensus input always exists (`issuance_ids` never panics: `ids_no_panic`), its
    two ids ARE `TxIn::issuance_ids()`, its amounts are the issuance amounts, and `has_issuance` of the two
    models (C05's `Blind.TxIn.hasIssuance`, C01's `TxIn.hasIssuance`) agree. -/
theorem bridge_blind_view (pt : Bytes → Pt) (t : TxIn) :
    blindIn? H pt t = some (blindIn H pt t) ∧
    t.issuanceIds H = some ((blindIn H pt t).assetId, (blindIn H pt t).tokenId) ∧
    (blindIn H pt t).amount = cvalue pt t.assetIssuance.amount ∧
    (blindIn H pt t).keys = cvalue pt t.assetIssuance.inflationKeys ∧
    (blindIn H pt t).hasIssuance = t.hasIssuance :=
  ⟨blindIn?_eq H pt t, ids_eq H t, rfl, rfl, hasIssuance_blindIn H pt t⟩

/-- **The pseudo-inputs of an issuance input are built on the generators of `issuance_ids`.**
    With `(a, tk) = t.issuance_ids()`: the verifier refuses the input (`IssuanceTransactionInput`) exactly
    when an amount is an explicit 0; otherwise its (generator, commitment) pairs are
    `(gen a, commitment of the amount)` — present iff the amount is non-null, an explicit `v` committed as
    `commitUnblinded v (gen a)` — followed by `(gen tk, commitment of the inflation keys)` likewise
    (`issTerm`); hence the domain entries are `gen a` and/or `gen tk`. -/
theorem bridge_issuance_pairs (V : Blind.VPrims Bytes Pt RP SP) (pt : Bytes → Pt) (t : TxIn) (a tk : Bytes)
    (hids : t.issuanceIds H = some (a, tk)) :
    (Blind.issuancePairs V (blindIn H pt t) = none ↔
      (t.assetIssuance.amount = .explicit 0 ∨ t.assetIssuance.inflationKeys = .explicit 0)) ∧
    (t.assetIssuance.amount ≠ .explicit 0 → t.assetIssuance.inflationKeys ≠ .explicit 0 →
      Blind.issuancePairs V (blindIn H pt t) =
        some (issTerm V pt a t.assetIssuance.amount ++ issTerm V pt tk t.assetIssuance.inflationKeys) ∧
      (issTerm V pt a t.assetIssuance.amount ++ issTerm V pt tk t.assetIssuance.inflationKeys).map Prod.fst =
        (if t.assetIssuance.amount.isNull then [] else [V.genUnblinded a]) ++
        (if t.assetIssuance.inflationKeys.isNull then [] else [V.genUnblinded tk])) := by
  obtain ⟨h1, h2⟩ := ids_of_some H t a tk hids
  refine ⟨issuancePairs_blindIn_none_iff H pt V t, fun ha hk => ⟨?_, ?_⟩⟩
  · rw [issuancePairs_blindIn H pt V t ha hk, issTerms, h1, h2]
  · rw [List.map_append, issTerm_fst, issTerm_fst]

/-- what `issTerm` is, case by case -/
theorem bridge_issTerm (V : Blind.VPrims Bytes Pt RP SP) (pt : Bytes → Pt) (id : Bytes) (n : Nat) (c : Bytes) :
    issTerm V pt id .null = [] ∧
    issTerm V pt id (.explicit n) = [(V.genUnblinded id, V.commitUnblinded n (V.genUnblinded id))] ∧
    issTerm V pt id (.conf c) = [(V.genUnblinded id, pt c)] := ⟨rfl, rfl, rfl⟩

/-- **The surjection domain and the input side of the tally of a transaction, in terms of C11.**
    For acceptable inputs (`InsOk`: spent outputs with asset and non-zero value, no explicit-0 issuance
    amount — what `verify` demands anyway) the domain `verify` checks every surjection proof against is,
    per input, the spent output's generator followed by the generators of `issuedIds` (the asset id of
    `issuance_ids()` iff there is an issuance amount, then its token id iff there are inflation keys); the
    commitments are, per input, the spent output's, then those of the two issuance amounts. -/
theorem bridge_domain (V : Blind.VPrims Bytes Pt RP SP) (pt : Bytes → Pt) (ins : List TxIn)
    (utxos : List (Blind.TxOut Bytes Pt RP SP)) (h : InsOk ins utxos) :
    Blind.domainOf V (ins.map (blindIn H pt)) utxos = idsDomain V H ins utxos ∧
    Blind.inCommitsOf V (ins.map (blindIn H pt)) utxos = idsCommits V H pt ins utxos ∧
    Blind.pairsOf V (ins.map (blindIn H pt)) utxos = idsPairs V H pt ins utxos :=
  ⟨domainOf_blindIn H pt V ins utxos h, inCommitsOf_blindIn H pt V ins utxos h, pairsOf_blindIn H pt V ins utxos h⟩

/-- the shape of `idsDomain` / `idsCommits` / `issuedIds` (definitional) -/
theorem bridge_domain_cons (V : Blind.VPrims Bytes Pt RP SP) (pt : Bytes → Pt) (t : TxIn) (ts : List TxIn)
    (u : Blind.TxOut Bytes Pt RP SP) (us : List (Blind.TxOut Bytes Pt RP SP)) :
    idsDomain V H (t :: ts) (u :: us) =
      (Blind.assetGen V u.asset).toList ++ (issuedIds H t).map V.genUnblinded ++ idsDomain V H ts us ∧
    idsCommits V H pt (t :: ts) (u :: us) =
      (Blind.outCommit? V u).toList ++
        (issTerm V pt (blindIn H pt t).assetId t.assetIssuance.amount ++
         issTerm V pt (blindIn H pt t).tokenId t.assetIssuance.inflationKeys).map Prod.snd ++
        idsCommits V H pt ts us ∧
    issuedIds H t =
      (if t.assetIssuance.amount.isNull then [] else [(blindIn H pt t).assetId]) ++
      (if t.assetIssuance.inflationKeys.isNull then [] else [(blindIn H pt t).tokenId]) :=
  ⟨rfl, rfl, rfl⟩

/-- **Composition with `ids_formula`: the generators of a NEW issuance in closed form.**  The asset
    entry of the domain is `gen (comb (comb (sha256d (txid ‖ vout_le32)) contract_hash) 0^32)`, the token
    entry `gen (comb (same entropy) (k ‖ 0^31))`, `k = 1` for an explicit and `2` for a confidential
    issuance amount — so the token generator differs between the two. -/
theorem bridge_generator_new_issuance (V : Blind.VPrims Bytes Pt RP SP) (pt : Bytes → Pt) (t : TxIn)
    (h : t.assetIssuance.nonce = Issuance.zero32) :
    V.genUnblinded (blindIn H pt t).assetId =
      V.genUnblinded (H.comb (H.comb (H.sha256d (t.previousOutput.txid ++ encLe 4 t.previousOutput.vout))
        t.assetIssuance.entropy) (List.replicate 32 0)) ∧
    V.genUnblinded (blindIn H pt t).tokenId =
      V.genUnblinded (H.comb (H.comb (H.sha256d (t.previousOutput.txid ++ encLe 4 t.previousOutput.vout))
        t.assetIssuance.entropy) ((if t.assetIssuance.amount.isConf then 2 else 1) :: List.replicate 31 0)) := by
  have h1 := ids_eq H t
  rw [ids_formula H t h] at h1
  simp only [Option.some.injEq, Prod.mk.injEq] at h1
  exact ⟨congrArg V.genUnblinded h1.1.symm, congrArg V.genUnblinded h1.2.symm⟩

/-- **Composition with `ids_formula_reissuance`: a REISSUANCE** (non-zero blinding nonce) contributes
    `gen (comb entropy 0^32)` — the outpoint it spends plays no role. -/
theorem bridge_generator_reissuance (V : Blind.VPrims Bytes Pt RP SP) (pt : Bytes → Pt) (t : TxIn)
    (h : t.assetIssuance.nonce ≠ Issuance.zero32) :
    V.genUnblinded (blindIn H pt t).assetId =
      V.genUnblinded (H.comb t.assetIssuance.entropy (List.replicate 32 0)) ∧
    V.genUnblinded (blindIn H pt t).tokenId =
      V.genUnblinded (H.comb t.assetIssuance.entropy
        ((if t.assetIssuance.amount.isConf then 2 else 1) :: List.replicate 31 0)) := by
  have h1 := ids_eq H t
  rw [ids_formula_reissuance H t h] at h1
  simp only [Option.some.injEq, Prod.mk.injEq] at h1
  exact ⟨congrArg V.genUnblinded h1.1.symm, congrArg V.genUnblinded h1.2.symm⟩

/-- **A reissuance input contributes the SAME asset generator as the issuance whose entropy it quotes**:
    `i` a new issuance, `r` a reissuance (of any outpoint) whose `asset_entropy` field is the entropy
    `AssetId::generate_asset_entropy` derives for `i`.  The token generators coincide as well when both
    issuance amounts are blinded or both are not. -/
theorem bridge_reissuance_same_generator (V : Blind.VPrims Bytes Pt RP SP) (pt : Bytes → Pt) (i r : TxIn)
    (hi : i.assetIssuance.nonce = Issuance.zero32) (hr : r.assetIssuance.nonce ≠ Issuance.zero32)
    (he : generateAssetEntropy H i.previousOutput i.assetIssuance.entropy = some r.assetIssuance.entropy) :
    V.genUnblinded (blindIn H pt r).assetId = V.genUnblinded (blindIn H pt i).assetId ∧
    (r.assetIssuance.amount.isConf = i.assetIssuance.amount.isConf →
      V.genUnblinded (blindIn H pt r).tokenId = V.genUnblinded (blindIn H pt i).tokenId) :=
  ⟨congrArg V.genUnblinded (reissuance_same_asset H i r hi hr he),
   fun hf => congrArg V.genUnblinded (reissuance_same_token H i r hi hr he hf)⟩

/-- **What equal ids of two issuance inputs mean** (`asset_id_commit`, `token_commit`,
    `asset_token_distinct`, `ids_commit_txin` through the bridge).  `e x` is the entropy `issuance_ids`
    uses for `x` (derived for a new issuance, quoted for a reissuance).  Same asset id ⇒ same entropy; same
    token id ⇒ same entropy and same blinded flag of the issuance amount; an asset id is never a token id;
    a reissuance with the asset id of a new issuance quotes its entropy — each time unless a collision
    of the compression function is exhibited. -/
theorem bridge_same_ids (a b : TxIn) :
    let e := fun (x : TxIn) => EV.Proofs.Issuance.entropyOf H x.previousOutput x.assetIssuance.nonce x.assetIssuance.entropy
    ((blindIn H (fun x => x) a).assetId = (blindIn H (fun x => x) b).assetId → e a = e b ∨ Collision2 H.comb) ∧
    ((blindIn H (fun x => x) a).tokenId = (blindIn H (fun x => x) b).tokenId →
      (e a = e b ∧ a.assetIssuance.amount.isConf = b.assetIssuance.amount.isConf) ∨ Collision2 H.comb) ∧
    ((blindIn H (fun x => x) a).assetId = (blindIn H (fun x => x) b).tokenId → Collision2 H.comb) ∧
    (a.assetIssuance.nonce = Issuance.zero32 → b.assetIssuance.nonce ≠ Issuance.zero32 →
      (blindIn H (fun x => x) b).assetId = (blindIn H (fun x => x) a).assetId →
      generateAssetEntropy H a.previousOutput a.assetIssuance.entropy = some b.assetIssuance.entropy ∨
        Collision2 H.comb) :=
  ⟨same_asset_same_entropy H a b, same_token_same_entropy_flag H a b, asset_ne_token_ids H a b,
   fun ha hb h => same_asset_quotes_entropy H a b ha hb h⟩

/-- two NEW issuances with the same domain generator id spend the same outpoint with the same contract
    hash (`ids_commit_txin` read on the Blind views) -/
theorem bridge_same_asset_new (pt : Bytes → Pt) (a b : TxIn) (ha : a.previousOutput.wf) (hb : b.previousOutput.wf)
    (hna : a.assetIssuance.nonce = Issuance.zero32) (hnb : b.assetIssuance.nonce = Issuance.zero32)
    (h : (blindIn H pt a).assetId = (blindIn H pt b).assetId) :
    (a.previousOutput = b.previousOutput ∧ a.assetIssuance.entropy = b.assetIssuance.entropy) ∨
      Collision H.sha256d ∨ Collision2 H.comb := by
  apply ids_commit_txin H a b ha hb hna hnb
  rw [ids_eq H a, ids_eq H b]
  exact congrArg some h

/-- **`verify_ok_iff` of C05 about a consensus input list**: `verify_tx_amt_proofs` accepts exactly when
    the lengths match, the inputs are acceptable, every output is acceptable against the domain made of
    the spent outputs' generators and the generators of the C11 ids (`idsDomain`), and the tally accepts
    the commitments to those generators (`idsCommits`) against the output commitments. -/
theorem bridge_verify_ok_iff (V : Blind.VPrims Bytes Pt RP SP) (pt : Bytes → Pt) (ins : List TxIn)
    (outs utxos : List (Blind.TxOut Bytes Pt RP SP)) :
    Blind.verify V (ins.map (blindIn H pt)) outs utxos = .ok ↔
      utxos.length = ins.length ∧ InsOk ins utxos ∧
      (∀ o ∈ outs, Blind.OutOk V (idsDomain V H ins utxos) o) ∧
      V.sumEqual (idsCommits V H pt ins utxos) (Blind.outCommitsOf V outs) = true :=
  verify_ok_iff_ids H pt V ins outs utxos

/-- **`tamper_issuance` of C05 about a consensus input**: changing an explicit issuance amount `v` into
    `v'` (`setAmount`) — the two transactions do not both verify; the torsion hypothesis is about the
    tag of the asset id `a` that `issuance_ids()` derives for the input (other hypotheses as in C05). -/
theorem bridge_tamper_issuance {R M : Type} [CommRing R] [AddCommGroup M] [Module R M]
    (cv : Blind.Curve R M Bytes) (V : Blind.VPrims Bytes M RP SP) (hV : Blind.AlgV cv V) (pt : Bytes → M)
    (outs : List (Blind.TxOut Bytes M RP SP)) (ipre ipost : List TxIn) (t : TxIn)
    (upre upost : List (Blind.TxOut Bytes M RP SP)) (u : Blind.TxOut Bytes M RP SP)
    (hl : upre.length = ipre.length)
    (v v' : Nat) (B : Nat) (hamt : t.assetIssuance.amount = .explicit v) (hne : v ≠ v') (hv0 : v ≠ 0)
    (hv0' : v' ≠ 0) (hvB : v < B) (hvB' : v' < B)
    (a tk : Bytes) (hids : t.issuanceIds H = some (a, tk))
    (hT : Blind.NoTorsion R (cv.tag a) B) (hkeys : t.assetIssuance.inflationKeys ≠ .explicit 0) :
    ¬ (Blind.verify V ((ipre ++ t :: ipost).map (blindIn H pt)) outs (upre ++ u :: upost) = .ok ∧
       Blind.verify V ((ipre ++ setAmount t (.explicit v') :: ipost).map (blindIn H pt)) outs
         (upre ++ u :: upost) = .ok) :=
  tamper_issuance_ids cv V hV H pt outs ipre ipost t upre upost u hl v v' B hamt hne hv0 hv0' hvB hvB' a tk hids hT hkeys

/-- … for a NEW issuance with the tag written out (`ids_formula`): no natural below the bound annihilates
    the tag of `comb (comb (sha256d (txid ‖ vout_le32)) contract_hash) 0^32` -/
theorem bridge_tamper_new_issuance {R M : Type} [CommRing R] [AddCommGroup M] [Module R M]
    (cv : Blind.Curve R M Bytes) (V : Blind.VPrims Bytes M RP SP) (hV : Blind.AlgV cv V) (pt : Bytes → M)
    (outs : List (Blind.TxOut Bytes M RP SP)) (ipre ipost : List TxIn) (t : TxIn)
    (upre upost : List (Blind.TxOut Bytes M RP SP)) (u : Blind.TxOut Bytes M RP SP)
    (hl : upre.length = ipre.length)
    (v v' : Nat) (B : Nat) (hamt : t.assetIssuance.amount = .explicit v) (hne : v ≠ v') (hv0 : v ≠ 0)
    (hv0' : v' ≠ 0) (hvB : v < B) (hvB' : v' < B)
    (hnonce : t.assetIssuance.nonce = Issuance.zero32)
    (hT : Blind.NoTorsion R (cv.tag (H.comb (H.comb (H.sha256d (t.previousOutput.txid ++ encLe 4 t.previousOutput.vout))
      t.assetIssuance.entropy) (List.replicate 32 0))) B)
    (hkeys : t.assetIssuance.inflationKeys ≠ .explicit 0) :
    ¬ (Blind.verify V ((ipre ++ t :: ipost).map (blindIn H pt)) outs (upre ++ u :: upost) = .ok ∧
       Blind.verify V ((ipre ++ setAmount t (.explicit v') :: ipost).map (blindIn H pt)) outs
         (upre ++ u :: upost) = .ok) :=
  tamper_issuance_ids cv V hV H pt outs ipre ipost t upre upost u hl v v' B hamt hne hv0 hv0' hvB hvB' _ _
    (ids_formula H t hnonce) hT hkeys

/-- **C09**: `PartiallySignedTransaction::surjection_inputs` (src/pset/mod.rs) appends, for an input with an
    issuance, pseudo-inputs for `pset::Input::issuance_ids()` — parameters (`Inp.issued`) of the C09 model
    `EV.PsetBlind`.  For the PSET inputs built from canonical consensus inputs (`Input::from_txin`,
    `ids_agree`) they are the ids of `TxIn::issuance_ids()` — the same list `issuedIds` whose generators
    `verify` uses (`bridge_domain_cons`); `code` names asset ids as the `Nat`s of that model. -/
theorem bridge_pset_domain (code : Bytes → Nat) (l : List (TxIn × Bool × Option Nat))
    (h : ∀ x ∈ l, Canonical x.1) :
    EV.PsetBlind.issuedAssets (l.map (fun x => psetInp H code x.2.1 x.2.2 (IssPsetInput.fromTxin x.1))) =
      l.flatMap (fun x => (issuedIds H x.1).map code) ∧
    ∀ x ∈ l, psetInp H code x.2.1 x.2.2 (IssPsetInput.fromTxin x.1) =
      { hasUtxo := x.2.1, hasIssuance := x.1.hasIssuance, blindedIssuance := x.2.2,
        issued := (issuedIds H x.1).map code } :=
  ⟨issuedAssets_fromTxin H code l (fun x hx => h x hx),
   fun x hx => psetInp_fromTxin H code _ _ _ (h x hx).1 (h x hx).2⟩

/-! #### the hypotheses are satisfiable -/

/-- a new issuance of 1 unit (no inflation keys) spending output 5, and a spent output of 10 units:
    acceptable inputs (`bridge_domain`, `bridge_issuance_pairs`, `bridge_generator_new_issuance`) -/
example : InsOk (Pt := Unit) (RP := Unit) (SP := Unit)
    [⟨⟨List.replicate 32 7, 5⟩, true, [], 0, ⟨Issuance.zero32, List.replicate 32 9, .explicit 1, .null⟩, TxInWitness.empty⟩]
    [⟨.explicit [1], .explicit 10, .null, [1], none, none⟩] := by
  intro p hp
  simp only [List.zip_cons_cons, List.zip_nil_right, List.mem_singleton] at hp
  subst hp
  exact ⟨⟨by simp, by simp, by simp⟩, by decide, by decide⟩
example : ∃ (t : TxIn) (a tk : Bytes), t.issuanceIds H = some (a, tk) ∧
    t.assetIssuance.amount ≠ .explicit 0 ∧ t.assetIssuance.inflationKeys ≠ .explicit 0 ∧
    t.assetIssuance.nonce = Issuance.zero32 ∧ t.previousOutput.wf :=
  ⟨⟨⟨List.replicate 32 7, 5⟩, true, [], 0, ⟨Issuance.zero32, List.replicate 32 9, .explicit 1, .null⟩, TxInWitness.empty⟩,
   _, _, ids_eq H _, by decide, by decide, rfl, ⟨by decide, by decide⟩⟩
/-- a reissuance (non-zero nonce) quoting the entropy of a new issuance
    (`bridge_generator_reissuance`, `bridge_reissuance_same_generator`), for every `H` -/
example : ∃ i r : TxIn, i.assetIssuance.nonce = Issuance.zero32 ∧ r.assetIssuance.nonce ≠ Issuance.zero32 ∧
    generateAssetEntropy H i.previousOutput i.assetIssuance.entropy = some r.assetIssuance.entropy ∧
    r.assetIssuance.amount.isConf = i.assetIssuance.amount.isConf ∧ r.previousOutput ≠ i.previousOutput :=
  ⟨⟨⟨List.replicate 32 7, 5⟩, false, [], 0, ⟨Issuance.zero32, List.replicate 32 9, .explicit 1, .explicit 1⟩, TxInWitness.empty⟩,
   ⟨⟨List.replicate 32 8, 0⟩, false, [], 0,
     ⟨List.replicate 32 1, H.comb (H.sha256d (List.replicate 32 7 ++ encLe 4 5)) (List.replicate 32 9), .explicit 3, .null⟩,
     TxInWitness.empty⟩,
   rfl, fun h => absurd (congrArg List.head? h) (show ¬ (List.replicate 32 (1 : UInt8)).head? = Issuance.zero32.head? by decide), entropy_formula H _ _, rfl,
   fun h => absurd (congrArg OutPoint.vout h) (show ¬ (0 : Nat) = 5 by decide)⟩
/-- `bridge_tamper_issuance` / `bridge_tamper_new_issuance`: scalars `ℤ`, points the free module on
    {G} ∪ {tag a | a : Bytes} (`Inst.cvB`, `Inst.VB`), amounts 1 and 2 below 2^64 -/
example : ∃ (t : TxIn) (v v' B : Nat) (a tk : Bytes),
    t.assetIssuance.amount = .explicit v ∧ v ≠ v' ∧ v ≠ 0 ∧ v' ≠ 0 ∧ v < B ∧ v' < B ∧
    t.issuanceIds H = some (a, tk) ∧ t.assetIssuance.nonce = Issuance.zero32 ∧
    Blind.NoTorsion Int (Inst.cvB.tag a) B ∧ t.assetIssuance.inflationKeys ≠ .explicit 0 ∧
    Blind.AlgV Inst.cvB Inst.VB :=
  ⟨⟨⟨List.replicate 32 7, 5⟩, true, [], 0, ⟨Issuance.zero32, List.replicate 32 9, .explicit 1, .null⟩, TxInWitness.empty⟩,
   1, 2, 2 ^ 64, _, _, rfl, by decide, by decide, by decide, by decide, by decide, ids_eq H _, rfl,
   Inst.noTorsion_tagB _ _, by decide, Inst.algVB⟩
/-- `bridge_pset_domain`: the pegin + issuance input at index 5 is canonical (see above) -/
example : ∀ x ∈ [((⟨⟨List.replicate 32 7, 5⟩, true, [], 0, ⟨Issuance.zero32, List.replicate 32 9, .explicit 1, .null⟩, TxInWitness.empty⟩ : TxIn), true, some 0)],
    Canonical x.1 := by
  intro x hx
  simp only [List.mem_singleton] at hx
  subst hx
  exact ⟨Or.inl ⟨by decide, by decide⟩, Or.inl (by decide)⟩

end BridgeBlind

end EV.Props.C11
