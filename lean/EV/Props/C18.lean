/-
  C18 — fast_merkle_root is the definitional midstate merkle tree for every leaf count.
  Property theorems only; helper lemmas live in EV.Proofs.FastMerkle.
  `comb` (the SHA-256 compression of `l ‖ r` from the initial state) and the node
  type are parameters: nothing here depends on what the hash is.
-/
import EV.Model.FastMerkle
import EV.Proofs.FastMerkle
import EV.Model.Sha256
namespace EV.Props.C18
open EV.FastMerkle

variable {α : Type}

/-- A collision of the two-to-one compression function, with the colliding pairs exhibited. -/
def Collision (comb : α → α → α) : Prop :=
  ∃ a b c d, (a, b) ≠ (c, d) ∧ comb a b = comb c d

/-- Main theorem: for every leaf list of at most 2^31 leaves the loop as coded (32 slots, `u32`
    counter, carry loop, final sweep; `none` = the Rust code would panic) returns exactly the root of
    the definitional tree.  (For 2^31 < n < 2^32, n not a power of two, the `u32` counter of the final
    sweep overflows in the Rust code; such an input needs > 64 GiB of leaves.) -/
theorem fast_eq_level (comb : α → α → α) (zero : α) (leaves : List α)
    (h : leaves.length ≤ 2^31) :
    fast comb zero leaves = some (levelRoot comb zero leaves) :=
  EV.Proofs.FastMerkle.fast_eq_level comb zero leaves h

/-- the empty list gives the all-zero value -/
theorem root_empty (comb : α → α → α) (zero : α) : fast comb zero [] = some zero := by
  simp [fast]

/-- a single leaf gives that leaf -/
theorem root_single (comb : α → α → α) (zero a : α) : fast comb zero [a] = some a := by
  have := fast_eq_level comb zero [a] (by simp)
  simpa [levelRoot] using this

/-- never panics (no u32 overflow, no shift overflow, no index out of the 32 slots) below 2^31 leaves -/
theorem fast_no_panic (comb : α → α → α) (zero : α) (leaves : List α) (h : leaves.length ≤ 2^31) :
    fast comb zero leaves ≠ none := by
  rw [fast_eq_level comb zero leaves h]; simp

/-- The root commits to every leaf and to leaf order: two leaf lists of the same length with the
    same root are equal, or a collision of the compression function is exhibited. -/
theorem root_commits (comb : α → α → α) (zero : α) (l₁ l₂ : List α)
    (hlen : l₁.length = l₂.length)
    (hroot : levelRoot comb zero l₁ = levelRoot comb zero l₂) :
    l₁ = l₂ ∨ Collision comb :=
  EV.Proofs.FastMerkle.root_commits comb zero l₁ l₂ hlen hroot

/-- hence the same for the coded function -/
theorem fast_commits (comb : α → α → α) (zero : α) (l₁ l₂ : List α)
    (h₁ : l₁.length ≤ 2^31) (hlen : l₁.length = l₂.length)
    (hroot : fast comb zero l₁ = fast comb zero l₂) :
    l₁ = l₂ ∨ Collision comb := by
  rw [fast_eq_level comb zero l₁ h₁, fast_eq_level comb zero l₂ (hlen ▸ h₁)] at hroot
  exact root_commits comb zero l₁ l₂ hlen (Option.some.inj hroot)

/-! ### the instance the correspondence run executes

  The driver evaluates `fast` with `comb := Sha256.midstate` (the SHA-256 compression of `l ‖ r` from the initial
  state, the model's transcription of `sha256::Midstate` after one block) and `zero := 0^32`; the K op `fmr` compares
  THAT function with the real `fast_merkle_root`, and the K op `sha` ties `Sha256.*` to the real SHA-256. The
  theorems above hold for every `comb`; here they are at the one that runs. -/

/-- for every list of at most 2^31 leaves the coded loop with the SHA-256 midstate as compression function returns
    the root of the definitional tree over that same function -/
theorem fast_eq_level_sha256 (leaves : List EV.Bytes) (h : leaves.length ≤ 2^31) :
    fast EV.Sha256.midstate (List.replicate 32 0) leaves
      = some (levelRoot EV.Sha256.midstate (List.replicate 32 0) leaves) :=
  fast_eq_level _ _ leaves h

/-- and equal roots of equally long lists mean equal lists or an explicit collision of the SHA-256 compression
    function on two 64-byte blocks -/
theorem fast_commits_sha256 (l₁ l₂ : List EV.Bytes) (h₁ : l₁.length ≤ 2^31) (hlen : l₁.length = l₂.length)
    (hroot : fast EV.Sha256.midstate (List.replicate 32 0) l₁ = fast EV.Sha256.midstate (List.replicate 32 0) l₂) :
    l₁ = l₂ ∨ Collision EV.Sha256.midstate :=
  fast_commits _ _ l₁ l₂ h₁ hlen hroot

/-- non-vacuity: a concrete 5-leaf instance over `Nat` with a non-commutative `comb` -/
example : fast (fun a b => 2 * a + 3 * b + 1) 0 [1, 2, 3, 4, 5] = some 168 := by decide
example : levelRoot (fun a b => 2 * a + 3 * b + 1) 0 [1, 2, 3, 4, 5] = 168 := by
  simp [levelRoot, pairUp]

end EV.Props.C18
