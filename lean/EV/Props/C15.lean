/-
  C15 — taproot script trees commit every leaf and nothing else.

  Model: EV.Model.Taproot (src/taproot.rs, src/schnorr.rs).  The tagged hashes (`TapHashes`) and the
  elliptic-curve primitives (`EC`) are parameters.  What is assumed of libsecp256k1 is explicit:
  `ECLaw` (tweak_add_check accepts exactly the result of add_tweak) and, for binding, `ECTweakInj`
  (for one internal key, different valid tweaks give different tweaked keys).  "Fails to verify with
  any other …" is stated as: success ⇒ genuine opening ∨ an exhibited hash collision.
-/
import EV.Proofs.TaprootBuilder
import EV.Proofs.TaprootCb
import EV.Proofs.TaprootSpend
import EV.Proofs.TaprootHuffman
import EV.Proofs.TaprootKeypair
import EV.Ref.Taproot
namespace EV.Props.C15
open EV EV.Taproot EV.Proofs.TaprootBuilder EV.Proofs.TaprootCb EV.Proofs.TaprootSpend
open EV.Proofs.TaprootHuffman EV.Proofs.TaprootKeypair

variable (E : EC) (H : TapHashes)

/-! ### constants: Elements' tags and leaf version -/

/-- the constants in the Rust source are the ones the Elements specification prescribes
    ("/elements" tags, leaf version 0xc4, 33 + 32·m control blocks with m ≤ 128, annex tag 0x50) -/
theorem consts_match_reference :
    Gen.Taproot.leafTag = Ref.Taproot.leafTag ∧ Gen.Taproot.branchTag = Ref.Taproot.branchTag ∧
    Gen.Taproot.tweakTag = Ref.Taproot.tweakTag ∧
    Gen.Taproot.controlMaxNodeCount = Ref.Taproot.controlMaxNodeCount ∧
    Gen.Taproot.controlNodeSize = Ref.Taproot.controlNodeSize ∧
    Gen.Taproot.controlBaseSize = Ref.Taproot.controlBaseSize ∧
    Gen.Taproot.leafMask = Ref.Taproot.leafMask ∧ Gen.Taproot.leafTapscript = Ref.Taproot.leafTapscript ∧
    Gen.Taproot.annexTag = Ref.Taproot.annexTag :=
  ⟨rfl, rfl, rfl, rfl, rfl, rfl, rfl, rfl, rfl⟩

/-- sorted-pair branch hashing: the branch hash does not depend on the order of the children -/
theorem branch_hash_sorted (a b : Bytes) : branchHash H a b = branchHash H b a := branchHash_comm H a b

/-! ### the builder: depth-first listings -/

/-- for every tree of height ≤ 128 the builder accepts the depth-first listing (leaves and hidden
    nodes) and finalizes to the node the tree denotes; its hash is the merkle root -/
theorem builder_dfs (t : Tree) (hh : t.height ≤ maxDepth) :
    addAll H [] (t.dfs 0) = .ok [some (info H t)] ∧ buildTree H (t.dfs 0) = .ok (info H t) ∧
    (info H t).hash = t.merkleRoot H :=
  ⟨EV.Proofs.TaprootBuilder.builder_dfs H t hh, build_dfs H t hh, info_hash H t⟩

/-- the leaves come out in depth-first order, the merkle branch of each has the length of the leaf's
    depth and is the leaf's sibling path: folding it over the leaf hash gives the merkle root -/
theorem builder_leaf_paths (t : Tree) :
    (info H t).leaves.map (fun l => (l.branch.length, l.script, l.ver)) = leafItems (t.dfs 0) ∧
    ∀ l ∈ (info H t).leaves, ControlBlock.computeRoot H l.script l.ver l.branch = t.merkleRoot H := by
  refine ⟨?_, info_leaf_root H t⟩
  have := info_leaves_dfs H t 0
  simpa using this

/-- whatever the builder accepts and reports complete is the depth-first listing of a tree -/
theorem builder_sound (items : List (Nat × Item)) (b : Builder) (hok : addAll H [] items = .ok b)
    (hc : isComplete b = true) : ∃ t : Tree, items = t.dfs 0 ∧ b = [some (info H t)] ∧ t.height ≤ maxDepth :=
  EV.Proofs.TaprootBuilder.builder_sound H items b hok hc

/-- build-and-finalize succeeds exactly on depth-first listings of trees of height ≤ 128: incomplete,
    over-complete, out-of-order and over-deep listings are all refused -/
theorem builder_accepts_iff (items : List (Nat × Item)) (n : NodeInfo) :
    buildTree H items = .ok n ↔ ∃ t : Tree, items = t.dfs 0 ∧ t.height ≤ maxDepth ∧ n = info H t :=
  buildTree_ok_iff H items n

/-- over-deep: any item deeper than 128 is refused with the depth error -/
theorem refuse_over_deep (b : Builder) (n : NodeInfo) (d : Nat) (h : d > maxDepth) :
    insert H b n d = .err "InvalidMerkleTreeDepth" := insert_over_deep H b n d h
/-- out-of-order: an item above an unfinished deeper level is refused -/
theorem refuse_out_of_order (b : Builder) (n : NodeInfo) (d : Nat) (h1 : d ≤ maxDepth) (h2 : d + 1 < b.length) :
    insert H b n d = .err "NodeNotInDfsOrder" := insert_out_of_order H b n d h1 h2
/-- over-complete: a second node at depth 0 is refused -/
theorem refuse_over_complete (x n : NodeInfo) : insert H [some x] n 0 = .err "OverCompleteTree" :=
  insert_over_complete H x n
/-- incomplete: finalize with more than one pending level is refused; so is the empty builder -/
theorem refuse_incomplete (b : Builder) (h : b.length > 1) : finalizeNode b = .err "IncompleteTree" :=
  finalize_incomplete b h
theorem refuse_empty : finalizeNode [] = .err "EmptyTree" := finalize_empty
/-- the builder has no other error class and never panics -/
theorem builder_errors (b : Builder) (n : NodeInfo) (d : Nat) (e : String) (he : insert H b n d = .err e) :
    e = "InvalidMerkleTreeDepth" ∨ e = "NodeNotInDfsOrder" ∨ e = "OverCompleteTree" := insert_err_class H b n d e he
theorem builder_no_panic (items : List (Nat × Item)) (s : String) : buildTree H items ≠ .panic s :=
  buildTree_no_panic H items s

/-! ### control blocks: serialization -/

/-- `from_slice (serialize cb) = cb` -/
theorem cb_roundtrip (cb : ControlBlock) (hw : cb.wf E) : ControlBlock.decode E cb.encode = .ok cb :=
  decode_encode E cb hw
/-- `serialize (from_slice bs) = bs`: the encoding is canonical, and decoding never panics -/
theorem cb_decode_canonical (bs : Bytes) (cb : ControlBlock) (h : ControlBlock.decode E bs = .ok cb) :
    cb.encode = bs ∧ cb.wf E := encode_decode E bs cb h
theorem cb_decode_no_panic (bs : Bytes) (s : String) : ControlBlock.decode E bs ≠ .panic s := decode_no_panic E bs s
/-- the length is 33 + 32·(path length), for `size()` and for the serialization; only lengths of this
    form with at most 128 path elements decode -/
theorem cb_size (cb : ControlBlock) (hw : cb.wf E) :
    cb.size = 33 + 32 * cb.branch.length ∧ cb.encode.length = cb.size :=
  ⟨size_eq cb, encode_length E cb hw⟩
theorem cb_decode_length (bs : Bytes) (cb : ControlBlock) (h : ControlBlock.decode E bs = .ok cb) :
    bs.length = 33 + 32 * cb.branch.length ∧ cb.branch.length ≤ maxDepth := decode_length E bs cb h

/-! ### output key -/

/-- the output key (and parity) is the internal key tweaked by TapTweak(internal ‖ merkle root) -/
theorem output_key_def (key : Bytes) (n : NodeInfo) (si : SpendInfo) (h : fromNodeInfo E H key n = .ok si) :
    si.internalKey = key ∧ si.merkleRoot = some n.hash ∧
    E.tweakAdd key (tweakHash H key (some n.hash)) = some (si.outputKey, si.parity) :=
  let ⟨h1, h2, _, _, h5⟩ := fromNodeInfo_ok E H key n si h
  ⟨h1, h2, h5⟩
/-- key-path-only outputs commit to TapTweak(internal) -/
theorem output_key_def_keyspend (key : Bytes) (root : Option Bytes) (si : SpendInfo)
    (h : newKeySpend E H key root = .ok si) :
    E.tweakAdd key (tweakHash H key root) = some (si.outputKey, si.parity) :=
  (newKeySpend_ok E H key root si h).2.2.2.2
/-- under the tweak law, the only failures are the two documented panics of `tap_tweak` -/
theorem spend_info_total (law : ECLaw E) (key : Bytes) (n : NodeInfo) (q : Bytes) (par : Bool)
    (hs : E.scalarOk (tweakHash H key (some n.hash)) = true)
    (ht : E.tweakAdd key (tweakHash H key (some n.hash)) = some (q, par)) :
    ∃ si, fromNodeInfo E H key n = .ok si ∧ si.outputKey = q ∧ si.parity = par :=
  fromNodeInfo_total E H law key n q par hs ht

/-- tweaking the matching key pair yields the secret key of exactly the output key (abstract group) -/
theorem keypair_tweak_matches {S G X : Type} (A : KeyAlgebra S G X) (sk t : S) :
    (A.xonly (A.pub (A.keypairTweak sk t)), A.odd (A.pub (A.keypairTweak sk t))) =
      A.xonlyTweakAdd (A.xonly (A.pub sk)) t := A.keypair_matches sk t

/-! ### control blocks: every leaf verifies -/

/-- every leaf gets a control block with its version, the internal key and the output parity; the
    path is a (shortest) sibling path of that (script, version); it verifies against the output key -/
theorem cb_verifies (law : ECLaw E) (key : Bytes) (t : Tree) (si : SpendInfo)
    (hsi : fromNodeInfo E H key (info H t) = .ok si) :
    ∀ l ∈ (info H t).leaves, ∃ cb, controlBlock si l.script l.ver = some (some cb) ∧
      cb.leafVersion = l.ver ∧ cb.internalKey = key ∧ cb.parity = si.parity ∧
      (⟨l.script, l.ver, cb.branch⟩ : LeafInfo) ∈ (info H t).leaves ∧
      cb.branch.length ≤ l.branch.length ∧
      cb.verify E H si.outputKey l.script = .ok true :=
  EV.Proofs.TaprootSpend.cb_verifies E H law key t si hsi
/-- … and so does the control block of every single occurrence (duplicate scripts at different depths) -/
theorem cb_each_occurrence_verifies (law : ECLaw E) (key : Bytes) (t : Tree) (si : SpendInfo)
    (hsi : fromNodeInfo E H key (info H t) = .ok si) :
    ∀ l ∈ (info H t).leaves,
      (⟨l.ver, si.parity, key, l.branch⟩ : ControlBlock).verify E H si.outputKey l.script = .ok true :=
  EV.Proofs.TaprootSpend.cb_each_occurrence_verifies E H law key t si hsi
/-- nothing that is not a leaf gets a control block, and `control_block` does not panic -/
theorem cb_only_for_leaves (key : Bytes) (n : NodeInfo) (si : SpendInfo) (hsi : fromNodeInfo E H key n = .ok si)
    (s : Bytes) (v : UInt8) :
    controlBlock si s v ≠ none ∧ ((¬ ∃ l ∈ n.leaves, l.script = s ∧ l.ver = v) → controlBlock si s v = some none) :=
  ⟨controlBlock_no_panic E H key n si hsi s v, controlBlock_none E H key n si hsi s v⟩

/-! ### control blocks: nothing else verifies -/

/-- verification is exactly "output key and parity = tweak of the internal key by
    TapTweak(internal ‖ recomputed root)" -/
theorem verify_iff (law : ECLaw E) (cb : ControlBlock) (Q s : Bytes) :
    cb.verify E H Q s = .ok true ↔
      (E.scalarOk (tweakHash H cb.internalKey (some (ControlBlock.computeRoot H s cb.leafVersion cb.branch))) = true ∧
       E.tweakAdd cb.internalKey (tweakHash H cb.internalKey (some (ControlBlock.computeRoot H s cb.leafVersion cb.branch)))
         = some (Q, cb.parity)) := EV.Proofs.TaprootSpend.verify_iff E H law cb Q s
/-- the flipped parity bit fails -/
theorem cb_other_parity_fails (law : ECLaw E) (cb : ControlBlock) (Q s : Bytes)
    (h : cb.verify E H Q s = .ok true) : ({ cb with parity := !cb.parity } : ControlBlock).verify E H Q s = .ok false :=
  verify_parity_unique E H law cb Q s h
/-- any other output key fails -/
theorem cb_other_output_key_fails (law : ECLaw E) (cb : ControlBlock) (Q Q' s : Bytes)
    (h : cb.verify E H Q s = .ok true) (hq : Q' ≠ Q) : cb.verify E H Q' s = .ok false :=
  verify_key_unique E H law cb Q Q' s h hq
/-- any other script, leaf version or sibling path fails: a control block (with the committed internal
    key and parity) that verifies is a genuine opening of the tree — the path of a leaf with exactly
    that script and version, or a path into a hidden node — or a tagged hash collides -/
theorem cb_binds (law : ECLaw E) (inj : ECTweakInj E) (L : Len32 H) (key : Bytes) (t : Tree) (si : SpendInfo)
    (hsi : fromNodeInfo E H key (info H t) = .ok si) (ht : ScriptsOk t)
    (cb : ControlBlock) (s : Bytes) (hk : cb.internalKey = key) (hp : cb.parity = si.parity)
    (hb : ∀ e ∈ cb.branch, e.length = 32) (hs : s.length < 2 ^ 64)
    (hv : cb.verify E H si.outputKey s = .ok true) :
    Opens H t s cb.leafVersion cb.branch ∨ Collision H.tweak ∨ Collision H.leaf ∨ Collision H.branch ∨
      Cross H.leaf H.branch :=
  EV.Proofs.TaprootSpend.cb_binds E H law inj L key t si hsi ht cb s hk hp hb hs hv
/-- without hidden nodes the genuine openings are exactly the leaves with their sibling paths -/
theorem opens_are_leaves (t : Tree) (hn : t.noHidden = true) (s : Bytes) (v : UInt8) (b : List Bytes) :
    Opens H t s v b ↔ (⟨s, v, b⟩ : LeafInfo) ∈ (info H t).leaves :=
  ⟨opens_mem_leaves H t hn s v b, mem_leaves_opens H t s v b⟩
/-- the root itself is binding -/
theorem root_binds (L : Len32 H) (t : Tree) (s : Bytes) (v : UInt8) (b : List Bytes)
    (ht : ScriptsOk t) (hs : s.length < 2 ^ 64) (hb : ∀ e ∈ b, e.length = 32)
    (h : ControlBlock.computeRoot H s v b = t.merkleRoot H) :
    Opens H t s v b ∨ Collision H.leaf ∨ Collision H.branch ∨ Cross H.leaf H.branch :=
  opens_of_root_eq H L t s v b ht hs hb h
/-- equal tweak hashes commit to the same internal key and merkle root -/
theorem tweak_binds (k k' r r' : Bytes) (hk : k.length = 32) (hk' : k'.length = 32)
    (h : tweakHash H k (some r) = tweakHash H k' (some r')) : (k = k' ∧ r = r') ∨ Collision H.tweak :=
  tweakHash_inj H k k' r r' hk hk' h

/-! ### Huffman construction -/

/-- the Huffman construction returns the node of a weighted tree over exactly the given leaves in
    which no heavier leaf is deeper than a lighter one (no saturation: Σ weights < 2^64, true for
    fewer than 2^32 `u32` weights); depth = merkle branch length = (control block size − 33) / 32 -/
theorem huffman_heavier_not_deeper (ws : List (Nat × Bytes)) (n : NodeInfo)
    (hsum : (ws.map (·.1)).sum < 2 ^ 64) (h : huffmanNode H ws = .ok n) :
    ∃ T : WT, n = info H T.toTree ∧ T.leaves.Perm ws ∧
      (info H T.toTree).leaves.map (fun l => (l.script, l.branch.length)) =
        (T.leafDepths 0).map (fun x => (x.2.1, x.2.2)) ∧
      ∀ a ∈ T.leafDepths 0, ∀ b ∈ T.leafDepths 0, a.1 < b.1 → b.2.2 ≤ a.2.2 := by
  obtain ⟨T, h1, h2, h3⟩ := EV.Proofs.TaprootHuffman.huffman_heavier_not_deeper H ws n hsum h
  exact ⟨T, h1, h2, info_leaf_depths H T, h3⟩
/-- it terminates without panic: a node, or the depth error when the tree would exceed 128 levels;
    the empty list is refused -/
theorem huffman_total (ws : List (Nat × Bytes)) (hne : ws ≠ []) (hsum : (ws.map (·.1)).sum < 2 ^ 64) :
    (∃ n, huffmanNode H ws = .ok n) ∨ huffmanNode H ws = .err "InvalidMerkleTreeDepth" :=
  EV.Proofs.TaprootHuffman.huffman_total H ws hne hsum
theorem huffman_empty_refused : huffmanNode H [] = .err "IncompleteTree" := huffman_empty H
/-- Huffman trees are script trees: all the control-block theorems above apply to them -/
theorem huffman_cb_verifies (law : ECLaw E) (key : Bytes) (ws : List (Nat × Bytes)) (si : SpendInfo)
    (hsum : (ws.map (·.1)).sum < 2 ^ 64) (h : withHuffmanTree E H key ws = .ok si) :
    ∃ T : WT, T.leaves.Perm ws ∧ ∀ l ∈ (info H T.toTree).leaves, ∃ cb,
      controlBlock si l.script l.ver = some (some cb) ∧ cb.verify E H si.outputKey l.script = .ok true := by
  unfold withHuffmanTree at h
  cases hn : huffmanNode H ws with
  | ok n =>
    rw [hn] at h
    obtain ⟨T, h1, h2, _⟩ := EV.Proofs.TaprootHuffman.huffman_heavier_not_deeper H ws n hsum hn
    subst h1
    refine ⟨T, h2, fun l hl => ?_⟩
    obtain ⟨cb, hcb, _, _, _, _, _, hv⟩ := EV.Proofs.TaprootSpend.cb_verifies E H law key T.toTree si h l hl
    exact ⟨cb, hcb, hv⟩
  | err e => rw [hn] at h; cases h
  | panic s => rw [hn] at h; cases h

/-! ### non-vacuity -/

/-- the assumed EC laws are satisfiable (a toy "curve": tweaking appends the tweak) -/
example : ∃ E : EC, ECLaw E ∧ ECTweakInj E :=
  ⟨{ xonlyOk := fun _ => true, scalarOk := fun _ => true,
     tweakAdd := fun P t => some (P ++ t, false),
     tweakAddCheck := fun P Q par t => decide (some (P ++ t, false) = some (Q, par)) },
   by intro P t Q par; simp,
   by intro P t t' r _ _ h1 h2
      simp only at h1 h2
      rw [← h2] at h1
      simpa using h1⟩

/-- the unit-test tree of src/taproot.rs (A, B, C at depth 2, D, E at depth 3) is covered -/
example : buildTree H ((Tree.node (.node (.leaf [0x51] tapscriptVer) (.leaf [0x52] tapscriptVer))
    (.node (.leaf [0x53] tapscriptVer) (.node (.leaf [0x54] tapscriptVer) (.leaf [0x55] tapscriptVer)))).dfs 0) =
    .ok (info H (Tree.node (.node (.leaf [0x51] tapscriptVer) (.leaf [0x52] tapscriptVer))
    (.node (.leaf [0x53] tapscriptVer) (.node (.leaf [0x54] tapscriptVer) (.leaf [0x55] tapscriptVer))))) :=
  build_dfs H _ (by decide)

/-- the key algebra is inhabited -/
example : ∃ A : KeyAlgebra Int Int Nat, A.keypairTweak 3 4 = 7 := ⟨intAlgebra, by decide⟩

end EV.Props.C15
