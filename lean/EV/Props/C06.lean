/-
  C06 — addresses round-trip through text, are canonical, and name exactly one network.

  Model: `EV.Model.Address` (`Address::{Display, from_str, parse_with_params, from_bech32, from_base58}`
  of /repo/src/address.rs), `EV.Model.Bech32` (bech32 crate encoder/decoder and
  /repo/src/blech32/decode.rs), `EV.Model.Base58` (base58ck). The network table (version bytes,
  human-readable parts, the order in which `from_str` tries the networks) and the blech32 constants
  are re-extracted from the Rust source on every run (`EV.Gen`); `gen_matches_reference` pins them to
  the reference values (`EV.Ref`). SHA-256d and the secp256k1 public-key parser are parameters
  (`Prims`); nothing below unfolds them.

  "Standard address" = `WF P a`: one of the three networks; a 20-byte hash, or a witness program of
  version 0..16 and 2..40 bytes (20 or 32 for version 0); optional blinding key = 33 bytes accepted by
  the key parser. Text is the list of UTF-8 bytes of the string.

  Last section ("conversions, inspectors and constructors"): `EV.Model.AddressOps` —
  `Address::{is_blinded, is_liquid, to_confidential, to_unconfidential, script_pubkey, from_script, p2pkh, p2sh,
  p2wpkh, p2shwpkh, p2wsh, p2shwsh, p2tr, p2tr_tweaked}`, bridged to the payload level of C16 (`EV.Model.Script`)
  and to the taproot tweak of C15 (`EV.Model.Taproot`).
-/
import EV.Proofs.AddrCanonical
import EV.Proofs.AddrDetect
import EV.Proofs.AddressOps
import EV.Proofs.BridgeAddrDetect
namespace EV.Props.C06
open EV EV.Bech32 EV.Base58 EV.Addr

variable (P : Prims)

/-- **Round trip.** The displayed string of every standard address parses back to the same address,
    with `from_str` and with `parse_with_params` of its own network — base58check forms (p2pkh, p2sh,
    blinded or not) and segwit forms (bech32 / bech32m, blech32 / blech32m) alike. -/
theorem addr_roundtrip (a : Address) (h : WF P a) :
    fromStr P (display P a) = .ok a ∧ parseWithParams P (display P a) a.params = .ok a := by
  cases hp : a.payload with
  | wit ver prog =>
    have := segwit_roundtrip P a h false ver prog hp
    rwa [map_cmap_false] at this
  | pkh hh => exact base58_roundtrip P a h (by rw [hp]; rfl)
  | sh hh => exact base58_roundtrip P a h (by rw [hp]; rfl)

/-- **Round trip, upper case.** Segwit forms also parse back when every letter is upper-cased. -/
theorem addr_roundtrip_upper (a : Address) (h : WF P a) (hs : a.payload.isSegwit = true) :
    fromStr P (upper (display P a)) = .ok a ∧ parseWithParams P (upper (display P a)) a.params = .ok a := by
  cases hp : a.payload with
  | wit ver prog =>
    have := segwit_roundtrip P a h true ver prog hp
    rwa [map_cmap_true] at this
  | pkh hh => rw [hp] at hs; simp [Payload.isSegwit] at hs
  | sh hh => rw [hp] at hs; simp [Payload.isSegwit] at hs

/-- **Canonical form (`from_str`).** If a string parses, displaying the result gives the string itself
    (base58 forms, case-sensitive) or its lower-case form (segwit forms). -/
theorem parse_display_canonical (s : Text) (a : Address) (h : fromStr P s = .ok a) :
    display P a = (if a.payload.isSegwit then lower s else s) := by
  obtain ⟨hp, r⟩ := route_of_fromStr P s a h
  exact (route_sound P s a.params hp a r).2

/-- **Canonical form (`parse_with_params`).** -/
theorem parse_with_params_display_canonical (s : Text) (p : Gen.AddrParamsB) (hp : p ∈ Gen.allParamsB)
    (a : Address) (h : parseWithParams P s p = .ok a) :
    a.params = p ∧ display P a = (if a.payload.isSegwit then lower s else s) := by
  obtain ⟨hpa, r⟩ := route_of_parseWithParams P s p a h
  exact ⟨hpa, (route_sound P s p hp a r).2⟩

/-- **Shape.** Every successfully parsed address is standard: it names one of the three networks and
    holds a 20-byte hash or a witness program of version ≤ 16 and 2..40 bytes (exactly 20 or 32 for
    version 0); a blinding key is 33 bytes accepted by the key parser. -/
theorem parsed_shape (s : Text) (a : Address) (h : fromStr P s = .ok a) : WF P a := by
  obtain ⟨hp, r⟩ := route_of_fromStr P s a h
  exact (route_sound P s a.params hp a r).1

theorem parsed_shape_with_params (s : Text) (p : Gen.AddrParamsB) (hp : p ∈ Gen.allParamsB) (a : Address)
    (h : parseWithParams P s p = .ok a) : WF P a := by
  obtain ⟨_, r⟩ := route_of_parseWithParams P s p a h
  exact (route_sound P s p hp a r).1

/-- **Checksum variant.** A parsed witness-program address comes from a string `hrp ++ "1" ++ data`
    whose symbols verify under the variant its version requires: bech32 (unblinded) / blech32
    (blinded) for version 0, bech32m / blech32m for versions 1..16. -/
theorem parsed_variant (s : Text) (a : Address) (h : fromStr P s = .ok a) (ver : Nat) (prog : List Nat)
    (hpl : a.payload = .wit ver prog) :
    ∃ hrp d, s = hrp ++ 49 :: d ∧ (∀ c ∈ d, (fromChar c).isSome = true) ∧
      (a.blinder.isSome = true → verify (blechFlavor.variant ver) hrp (d.map sym) = true ∧
        blechFlavor.variant ver = (if ver = 0 then blech32 else blech32m)) ∧
      (a.blinder.isSome = false → verify (crateFlavor.variant ver) hrp (d.map sym) = true ∧
        crateFlavor.variant ver = (if ver = 0 then bech32 else bech32m)) := by
  obtain ⟨_, r⟩ := route_of_fromStr P s a h
  exact parsed_variant_of_route P s a.params a r ver prog hpl

/-- **One network.** A string parses under at most one of the three parameter sets. The only case no
    proof can exclude without evaluating the hash — the same string is accepted by a segwit decoder
    and is also a valid base58check string (a 32-bit SHA-256d checksum coincidence) — is the explicit
    second disjunct. -/
theorem one_network (s : Text) (p q : Gen.AddrParamsB) (hp : p ∈ Gen.allParamsB) (hq : q ∈ Gen.allParamsB)
    (a b : Address) (ha : parseWithParams P s p = .ok a) (hb : parseWithParams P s q = .ok b) :
    p = q ∨ MixedForms P s := by
  obtain ⟨_, ra⟩ := route_of_parseWithParams P s p a ha
  obtain ⟨_, rb⟩ := route_of_parseWithParams P s q b hb
  exact routes_same_network P s p q hp hq a b ra rb

/-- `from_str` agrees with `parse_with_params` of the network it names -/
theorem from_str_names_its_network (s : Text) (a : Address) (h : fromStr P s = .ok a) :
    a.params ∈ Gen.allParamsB ∧ parseWithParams P s a.params = .ok a := by
  have hwf := parsed_shape P s a h
  have hcanon := parse_display_canonical P s a h
  obtain ⟨hp, r⟩ := route_of_fromStr P s a h
  refine ⟨hp, ?_⟩
  cases r with
  | segwit bl hm hfb =>
    have hpre : matchPrefix (findPrefix s) (if bl then a.params.blechHrp else a.params.bechHrp) = true :=
      (matchPrefix_iff _ _).2 hm
    cases bl with
    | true =>
      simp only [if_true] at hpre
      simp only [parseWithParams, hpre, Bool.or_true, if_true, hfb]
    | false =>
      simp only [Bool.false_eq_true, if_false] at hpre hm
      have hne : matchPrefix (findPrefix s) a.params.blechHrp = false := by
        cases hx : matchPrefix (findPrefix s) a.params.blechHrp with
        | false => rfl
        | true =>
          exfalso
          have h2 := (matchPrefix_iff _ _).1 hx
          have hl1 := hrpOk_lower _ (hrps_ok a.params.bechHrp (List.mem_flatMap.2 ⟨a.params, hp, by simp [hrps]⟩)).1
          have hl2 := hrpOk_lower _ (hrps_ok a.params.blechHrp (List.mem_flatMap.2 ⟨a.params, hp, by simp [hrps]⟩)).1
          have : a.params.bechHrp = a.params.blechHrp := by rw [← hl1, ← hl2, hm, h2]
          rcases mem_all a.params hp with h | h | h <;> rw [h] at this <;> revert this <;> decide
      simp only [parseWithParams, hpre, hne, Bool.or_false, if_true, hfb]
  | base58 data hd hfb hno =>
    have hshort : ¬ s.length > 150 := by
      unfold fromStr at h
      split at h
      · rename_i r hr
        have := dispatchBech_none_of P s (findPrefix s) Gen.fromStrOrder (by
          intro q hq
          rw [order_eq_all] at hq
          -- no network matches: the route says so only for a.params; use the dispatch result instead
          exact absurd hr (by
            intro hr
            obtain ⟨p', hp', hc⟩ := dispatchBech_some P s _ _ _ hr
            rw [order_eq_all] at hp'
            -- a prefix match leads to from_bech32, whose result is a segwit address
            rcases hc with ⟨hm', rfl⟩ | ⟨hm', rfl⟩
            · have := (fromBech32_sound P s false p' hp' a hm' h).2.2
              have h2 := (fromBase58_inv P data a.params a hfb).2.1
              rw [this] at h2; simp at h2
            · have := (fromBech32_sound P s true p' hp' a hm' h).2.2
              have h2 := (fromBase58_inv P data a.params a hfb).2.1
              rw [this] at h2; simp at h2))
        rw [this] at hr; simp at hr
      · split at h
        · simp at h
        · assumption
    simp only [parseWithParams, hno.1, hno.2, Bool.or_self, Bool.false_eq_true, if_false, hshort, hd, hfb]

/-- **Exactly one network** for valid strings: what `from_str` accepts is accepted by
    `parse_with_params` of the named network and of no other (up to `MixedForms`). -/
theorem exactly_one_network (s : Text) (a : Address) (h : fromStr P s = .ok a) (q : Gen.AddrParamsB)
    (hq : q ∈ Gen.allParamsB) (b : Address) (hb : parseWithParams P s q = .ok b) :
    q = a.params ∨ MixedForms P s := by
  obtain ⟨hp, hpw⟩ := from_str_names_its_network P s a h
  exact one_network P s q a.params hq hp b a hb hpw

/-- parsing is total: no input makes `from_str` or `parse_with_params` panic (the model has an explicit
    panic outcome for every indexing / `unwrap` of the Rust code; pre-fix `new_bech32("a1")` was one) -/
theorem parse_total (s : Text) (site : String) :
    fromStr P s ≠ .panic site ∧ ∀ p, parseWithParams P s p ≠ .panic site :=
  ⟨fromStr_not_panic P s site, fun p => parseWithParams_not_panic P s p site⟩

/-- the regenerated constants are the reference constants: the three networks' version bytes and
    human-readable parts (Elements chain parameters) and the blech32 generator table, target residues
    and checksum length (Elements `blech32.cpp`) -/
theorem gen_matches_reference :
    Gen.allParamsB.map (fun p => (p.p2pkh, p.p2sh, p.blinded, p.bechHrp, p.blechHrp))
      = [(57, 39, 12, [101, 120], [108, 113]), (235, 75, 4, [101, 114, 116], [101, 108]),
         (36, 19, 23, [116, 101, 120], [116, 108, 113])] ∧
    Gen.blech32Generators = Ref.blech32Generators ∧ Gen.blech32mGenerators = Ref.blech32Generators ∧
    Gen.blech32Target = Ref.blech32Target ∧ Gen.blech32mTarget = Ref.blech32mTarget ∧
    Gen.blech32ChecksumLength = Ref.blech32ChecksumLength ∧ Gen.blech32mChecksumLength = Ref.blech32ChecksumLength := by
  decide

/-- the byte lists above are the ASCII codes of "ex","lq","ert","el","tex","tlq", and the two alphabets
    are the bech32 and base58 character sets -/
theorem ascii_tables :
    "ex".toList.map Char.toNat = [101, 120] ∧ "lq".toList.map Char.toNat = [108, 113] ∧
    "ert".toList.map Char.toNat = [101, 114, 116] ∧ "el".toList.map Char.toNat = [101, 108] ∧
    "tex".toList.map Char.toNat = [116, 101, 120] ∧ "tlq".toList.map Char.toNat = [116, 108, 113] ∧
    "qpzry9x8gf2tvdw0s3jn54khce6mua7l".toList.map Char.toNat = Ref.charset ∧
    "123456789ABCDEFGHJKLMNPQRSTUVWXYZabcdefghijkmnopqrstuvwxyz".toList.map Char.toNat = Ref.base58Chars := by
  decide

/-! ### non-vacuity -/

/-- a standard address exists for every payload kind (with an always-accepting key parser) -/
example : WF { sha256d := fun _ => [], validPk := fun _ => true }
    { params := Gen.paramsLiquidB, payload := .wit 1 (List.replicate 32 7), blinder := some (List.replicate 33 2) } :=
  ⟨by decide, ⟨by decide, by decide, by decide, by decide, by intro b hb; rw [List.mem_replicate] at hb; omega⟩,
   ⟨by decide, rfl, by intro b hb; rw [List.mem_replicate] at hb; omega⟩⟩

example : WF { sha256d := fun _ => [], validPk := fun _ => true }
    { params := Gen.paramsElementsB, payload := .pkh (List.replicate 20 0), blinder := none } :=
  ⟨by decide, ⟨by decide, by intro b hb; rw [List.mem_replicate] at hb; omega⟩, trivial⟩

/-! ## conversions, inspectors and constructors (model growth: `EV.Model.AddressOps`)

  `Address::{is_blinded, is_liquid, to_confidential, to_unconfidential, script_pubkey, from_script, p2pkh, p2sh,
  p2wpkh, p2shwpkh, p2wsh, p2shwsh, p2tr, p2tr_tweaked}` of /repo/src/address.rs.  Hashes and the taproot tweak are
  parameters; the constants (which network `is_liquid` names, the field list of `AddressParams`, the `Fe32` version
  constants, the pushed integer of the nested forms) are re-extracted on every run (tools/extract.d/c17_addrops.py).
-/
section ops
open EV.Proofs.BridgeScriptAddress

/-! ### (a) confidential ⇄ unconfidential -/

/-- dropping the blinding key after setting one is dropping it from the original -/
theorem unconf_of_conf (a : Address) (k : List Nat) :
    toUnconfidential (toConfidential a k) = toUnconfidential a := rfl

/-- `to_confidential` sets exactly the blinding key: network and payload are untouched, and any address with
    that network, payload and key is the result -/
theorem to_confidential_sets_only_key (a : Address) (k : List Nat) :
    (toConfidential a k).params = a.params ∧ (toConfidential a k).payload = a.payload ∧
    (toConfidential a k).blinder = some k ∧
    ∀ b : Address, b.params = a.params → b.payload = a.payload → b.blinder = some k → b = toConfidential a k := by
  refine ⟨rfl, rfl, rfl, ?_⟩
  rintro ⟨p, pl, bl⟩ h1 h2 h3
  simp only at h1 h2 h3
  subst h1 h2 h3
  rfl

/-- `to_unconfidential` clears exactly the blinding key -/
theorem to_unconfidential_clears_only_key (a : Address) :
    (toUnconfidential a).params = a.params ∧ (toUnconfidential a).payload = a.payload ∧
    (toUnconfidential a).blinder = none := ⟨rfl, rfl, rfl⟩

/-- `is_blinded` ⇔ a blinding key is present -/
theorem is_blinded_iff (a : Address) : isBlinded a = true ↔ ∃ k, a.blinder = some k := by
  cases h : a.blinder <;> simp [isBlinded, h]

theorem is_blinded_after (a : Address) (k : List Nat) :
    isBlinded (toConfidential a k) = true ∧ isBlinded (toUnconfidential a) = false := ⟨rfl, rfl⟩

/-- `to_unconfidential` is idempotent, and its fixed points are exactly the unblinded addresses -/
theorem to_unconfidential_idempotent (a : Address) :
    toUnconfidential (toUnconfidential a) = toUnconfidential a ∧
    (toUnconfidential a = a ↔ isBlinded a = false) := by
  refine ⟨rfl, ?_⟩
  obtain ⟨p, pl, bl⟩ := a
  cases bl <;> simp [toUnconfidential, isBlinded]

/-- a later key replaces an earlier one; re-blinding with its own key restores a blinded address -/
theorem to_confidential_overwrites (a : Address) (k k' : List Nat) :
    toConfidential (toConfidential a k) k' = toConfidential a k' ∧
    toConfidential (toUnconfidential a) k = toConfidential a k ∧
    (a.blinder = some k → toConfidential (toUnconfidential a) k = a) := by
  refine ⟨rfl, rfl, ?_⟩
  obtain ⟨p, pl, bl⟩ := a
  rintro h
  simp only at h
  subst h
  rfl

/-- the output script does not depend on the blinding key (nor on the network): both conversions commute with
    `script_pubkey`, and addresses with the same payload have the same script -/
theorem script_pubkey_ignores_blinding_key (a : Address) (k : List Nat) :
    scriptPubkey (toConfidential a k) = scriptPubkey a ∧ scriptPubkey (toUnconfidential a) = scriptPubkey a ∧
    ∀ b : Address, b.payload = a.payload → scriptPubkey b = scriptPubkey a := by
  refine ⟨rfl, rfl, ?_⟩
  intro b h
  simp only [scriptPubkey, h]

/-- both conversions keep an address standard (for `to_confidential`: with a key the key parser accepts) -/
theorem conversions_keep_standard (a : Address) (k : List Nat) (h : WF P a) :
    WF P (toUnconfidential a) ∧ (BlinderOk P (some k) → WF P (toConfidential a k)) :=
  ⟨⟨h.net, h.payload, trivial⟩, fun hk => ⟨h.net, h.payload, hk⟩⟩

/-! ### (b) text forms of the two -/

/-- the printed form of `to_confidential a k` (and of `to_unconfidential a`) parses back to it — corollary of
    `addr_roundtrip` -/
theorem to_confidential_text_roundtrip (a : Address) (k : List Nat) (h : WF P a) (hk : BlinderOk P (some k)) :
    fromStr P (display P (toConfidential a k)) = .ok (toConfidential a k) ∧
    parseWithParams P (display P (toConfidential a k)) a.params = .ok (toConfidential a k) ∧
    fromStr P (display P (toUnconfidential a)) = .ok (toUnconfidential a) ∧
    parseWithParams P (display P (toUnconfidential a)) a.params = .ok (toUnconfidential a) := by
  obtain ⟨hu, hc⟩ := conversions_keep_standard P a k h
  obtain ⟨c1, c2⟩ := addr_roundtrip P _ (hc hk)
  obtain ⟨u1, u2⟩ := addr_roundtrip P _ hu
  exact ⟨c1, c2, u1, u2⟩

/-- **`Display` is injective** on standard addresses of the three built-in networks: the string determines
    network, payload and blinding key — corollary of `addr_roundtrip` -/
theorem display_injective (a b : Address) (ha : WF P a) (hb : WF P b) (h : display P a = display P b) : a = b := by
  have h1 := (addr_roundtrip P a ha).1
  have h2 := (addr_roundtrip P b hb).1
  rw [h, h2] at h1
  exact (Res.ok.inj h1).symm

/-- the blinded string determines (network, payload, key) -/
theorem blinded_text_determines (a b : Address) (k k' : List Nat) (ha : WF P a) (hb : WF P b)
    (hk : BlinderOk P (some k)) (hk' : BlinderOk P (some k'))
    (h : display P (toConfidential a k) = display P (toConfidential b k')) :
    a.params = b.params ∧ a.payload = b.payload ∧ k = k' := by
  have := display_injective P _ _ ((conversions_keep_standard P a k ha).2 hk)
    ((conversions_keep_standard P b k' hb).2 hk') h
  simp only [toConfidential, Address.mk.injEq, Option.some.injEq] at this
  exact this

/-- blinded and unblinded forms of one payload are different strings -/
theorem blinded_unblinded_text_differ (a : Address) (k : List Nat) (h : WF P a) (hk : BlinderOk P (some k)) :
    display P (toConfidential a k) ≠ display P (toUnconfidential a) := by
  intro he
  have := display_injective P _ _ ((conversions_keep_standard P a k h).2 hk) (conversions_keep_standard P a k h).1 he
  simp [toConfidential, toUnconfidential] at this

/-- … with different human-readable parts (segwit forms): the blinded string starts with the network's blech32
    hrp, the unblinded one with its bech32 hrp, and the two differ even up to letter case -/
theorem blinded_unblinded_hrp_differ (a : Address) (k : List Nat) (h : WF P a) (hs : a.payload.isSegwit = true) :
    findPrefix (display P (toConfidential a k)) = a.params.blechHrp ∧
    findPrefix (display P (toUnconfidential a)) = a.params.bechHrp ∧
    lower a.params.blechHrp ≠ lower a.params.bechHrp := by
  obtain ⟨p, pl, bl⟩ := a
  cases pl with
  | wit ver prog =>
    have hv : ver ≤ 16 := h.payload.1
    exact ⟨findPrefix_display_wit P _ h.net ver prog rfl hv, findPrefix_display_wit P _ h.net ver prog rfl hv,
      (bech_ne_blech p h.net).2⟩
  | pkh hh => simp [Payload.isSegwit] at hs
  | sh hh => simp [Payload.isSegwit] at hs

/-- … and different version bytes (base58 forms): the blinded string carries the network's `blinded_prefix`
    followed by the p2pkh / p2sh prefix, the unblinded one starts with the p2pkh / p2sh prefix itself -/
theorem blinded_unblinded_version_byte_differ (a : Address) (k : List Nat) (h : WF P a) (hk : BlinderOk P (some k))
    (hs : a.payload.isSegwit = false) :
    ∃ v hash, (v = a.params.p2pkh ∨ v = a.params.p2sh) ∧ v ≠ a.params.blinded ∧
      decodeCheck P.sha256d (display P (toConfidential a k)) = some (a.params.blinded :: v :: (k ++ hash)) ∧
      decodeCheck P.sha256d (display P (toUnconfidential a)) = some (v :: hash) := by
  obtain ⟨hu, hc⟩ := conversions_keep_standard P a k h
  obtain ⟨p, pl, bl⟩ := a
  obtain ⟨hd1, hd2, _⟩ := prefix_facts p h.net
  cases pl with
  | wit ver prog => simp [Payload.isSegwit] at hs
  | pkh hh =>
    exact ⟨p.p2pkh, hh, Or.inl rfl, hd1, decodeCheck_display P _ (hc hk) _ rfl, decodeCheck_display P _ hu _ rfl⟩
  | sh hh =>
    exact ⟨p.p2sh, hh, Or.inr rfl, hd2, decodeCheck_display P _ (hc hk) _ rfl, decodeCheck_display P _ hu _ rfl⟩

/-! ### (c) networks -/

/-- `is_liquid` as coded: the address's parameter VALUES equal those of `AddressParams::LIQUID`, field by field
    (derived `PartialEq`; the `Hrp`s up to letter case) — not an identity test on the `&'static` reference -/
theorem is_liquid_as_coded (a : Address) :
    isLiquid a = true ↔ (a.params.p2pkh = Gen.paramsLiquidB.p2pkh ∧ a.params.p2sh = Gen.paramsLiquidB.p2sh ∧
      a.params.blinded = Gen.paramsLiquidB.blinded ∧ lower a.params.bechHrp = lower Gen.paramsLiquidB.bechHrp ∧
      lower a.params.blechHrp = lower Gen.paramsLiquidB.blechHrp) :=
  paramsEq_iff a.params Gen.paramsLiquidB

/-- on the three built-in networks: `is_liquid` ⇔ the address's network is LIQUID (and never for the other two) -/
theorem is_liquid_iff (a : Address) (h : a.params ∈ Gen.allParamsB) :
    isLiquid a = true ↔ a.params = Gen.paramsLiquidB :=
  paramsEq_table a.params Gen.paramsLiquidB h (by decide)

/-- `is_liquid` looks at the network only -/
theorem is_liquid_ignores_key_and_payload (a b : Address) (k : List Nat) (h : b.params = a.params) :
    isLiquid b = isLiquid a ∧ isLiquid (toConfidential a k) = isLiquid a ∧
    isLiquid (toUnconfidential a) = isLiquid a := by
  refine ⟨?_, rfl, rfl⟩
  simp only [isLiquid, h]

/-- **The network table separates the networks.** Over the three built-in parameter sets (as extracted): the
    nine base58 version bytes are pairwise different, non-zero bytes; the six human-readable parts are pairwise
    different — also after lower-casing, which is how `match_prefix` and `Hrp: PartialEq` compare — and well
    formed; field-wise equality of two of the sets is equality. -/
theorem network_table_distinct :
    (Gen.allParamsB.flatMap prefixBytes).Nodup ∧ (∀ b ∈ Gen.allParamsB.flatMap prefixBytes, 0 < b ∧ b < 256) ∧
    (Gen.allParamsB.flatMap hrps).Nodup ∧ ((Gen.allParamsB.flatMap hrps).map lower).Nodup ∧
    (∀ h ∈ Gen.allParamsB.flatMap hrps, HrpOk h) ∧
    (∀ p ∈ Gen.allParamsB, ∀ q ∈ Gen.allParamsB, paramsEq p q = true ↔ p = q) ∧
    Gen.allParamsB.length = 3 := by
  refine ⟨prefix_bytes_distinct.1, prefix_bytes_distinct.2, hrps_distinct, by decide,
    fun h hh => (hrps_ok h hh).1, fun p hp q hq => paramsEq_table p q hp hq, rfl⟩

/-- **A printed address names exactly one network.** The displayed string of a standard address parses under
    its own network's parameters, and under no other of the three — `addr_roundtrip` composed with
    `exactly_one_network` (whose `MixedForms` disjunct, a 32-bit checksum coincidence between a segwit string and
    base58check, remains for segwit forms; see the next theorem for the base58 forms). -/
theorem printed_address_names_one_network (a : Address) (h : WF P a) :
    parseWithParams P (display P a) a.params = .ok a ∧
    ∀ q ∈ Gen.allParamsB, ∀ b, parseWithParams P (display P a) q = .ok b →
      q = a.params ∨ MixedForms P (display P a) := by
  obtain ⟨h1, h2⟩ := addr_roundtrip P a h
  exact ⟨h2, fun q hq b hb => exactly_one_network P _ a h1 q hq b hb⟩

/-- … without any residual case for the base58 forms: a printed p2pkh / p2sh address (blinded or not) parses
    under exactly its own network, and to the same address. -/
theorem printed_base58_address_names_one_network (a : Address) (h : WF P a) (hns : a.payload.isSegwit = false)
    (q : Gen.AddrParamsB) (hq : q ∈ Gen.allParamsB) (b : Address)
    (hb : parseWithParams P (display P a) q = .ok b) : q = a.params ∧ b = a := by
  obtain ⟨h1, h2⟩ := addr_roundtrip P a h
  have hnone := fromStr_base58_no_match P _ a h1 hns
  obtain ⟨data, hd, hfb⟩ := parseWithParams_base58 P _ q hq hnone b hb
  obtain ⟨data', hd', hfa⟩ := parseWithParams_base58 P _ a.params h.net hnone a h2
  rw [hd] at hd'
  simp only [Option.some.injEq] at hd'
  subst hd'
  obtain ⟨_, _, ⟨b0, rest, hdat, hb0⟩, _⟩ := fromBase58_inv P data a.params a hfa
  obtain ⟨_, _, ⟨b0', rest', hdat', hb0'⟩, _⟩ := fromBase58_inv P data q b hfb
  rw [hdat] at hdat'
  simp only [List.cons.injEq] at hdat'
  obtain ⟨rfl, _⟩ := hdat'
  have hpq : q = a.params := by
    apply prefix_owner q a.params hq h.net b0
    · simp only [prefixBytes, List.mem_cons, List.mem_nil_iff, or_false]; exact hb0'
    · simp only [prefixBytes, List.mem_cons, List.mem_nil_iff, or_false]; exact hb0
  refine ⟨hpq, ?_⟩
  subst hpq
  rw [hfa] at hfb
  exact (Res.ok.inj hfb).symm

/-! ### (d) pay-to-taproot -/

/-- `p2tr_tweaked`: witness version 1 with the (tweaked) x-only key as the program; network and blinding key
    as given -/
theorem p2tr_tweaked_shape (k : Bytes) (bl : Option (List Nat)) (p : Gen.AddrParamsB) :
    p2trTweaked k bl p = { params := p, payload := .wit 1 (natsOfBytes k), blinder := bl } ∧
    (natsOfBytes k).length = k.length ∧ bytesOfNats (natsOfBytes k) = k :=
  ⟨p2trTweaked_eq k bl p, natsOfBytes_length k, bytesOfNats_natsOfBytes k⟩

/-- its `script_pubkey` is `OP_1 PUSH32 key` (`EV.Taproot.p2trScript`, the script C15's control blocks are
    verified against), which C16's `is_v1_p2tr` template recognises and from which `from_script` — on payloads
    (C16) and on whole addresses — recovers the address -/
theorem p2tr_tweaked_script (k : Bytes) (bl : Option (List Nat)) (p : Gen.AddrParamsB) (hk : k.length = 32) :
    scriptPubkey (p2trTweaked k bl p) = some (Taproot.p2trScript k) ∧
    Taproot.p2trScript k = Script.witnessScript Gen.opPushnum1 k ∧
    Script.isV1P2tr (Taproot.p2trScript k) = true ∧
    Script.fromScript (Taproot.p2trScript k) = some (.witnessProgram 1 k) ∧
    fromScript (Taproot.p2trScript k) bl p = some (p2trTweaked k bl p) := by
  obtain ⟨a, b, c, d⟩ := p2trTweaked_script k bl p hk
  exact ⟨a, (p2trScript_eq k hk).1, b, c, d⟩

/-- a taproot address of a 32-byte key on a built-in network is standard, so its bech32m / blech32m text form
    round-trips (`addr_roundtrip`) -/
theorem p2tr_tweaked_text_roundtrip (k : Bytes) (bl : Option (List Nat)) (p : Gen.AddrParamsB) (hk : k.length = 32)
    (hp : p ∈ Gen.allParamsB) (hb : BlinderOk P bl) :
    WF P (p2trTweaked k bl p) ∧ fromStr P (display P (p2trTweaked k bl p)) = .ok (p2trTweaked k bl p) ∧
    crateFlavor.variant 1 = bech32m ∧ blechFlavor.variant 1 = blech32m := by
  have hw := p2trTweaked_wf P k bl p hk hp hb
  exact ⟨hw, (addr_roundtrip P _ hw).1, rfl, rfl⟩

/-- `p2tr` is `p2tr_tweaked` of the output key `tap_tweak` computes (parity dropped); it never returns an error,
    and panics exactly where `tap_tweak` does -/
theorem p2tr_is_tweaked (E : Taproot.EC) (H : Taproot.TapHashes) (key : Bytes) (root : Option Bytes)
    (bl : Option (List Nat)) (p : Gen.AddrParamsB) :
    (∀ q par, Taproot.tapTweak E H key root = .ok (q, par) → p2tr E H key root bl p = .ok (p2trTweaked q bl p)) ∧
    (∀ site, Taproot.tapTweak E H key root = .panic site → p2tr E H key root bl p = .panic site) ∧
    (∀ e, p2tr E H key root bl p ≠ .err e) := by
  rw [p2tr_eq]
  refine ⟨fun q par h => by rw [h], fun site h => by rw [h], fun e => ?_⟩
  have := tapTweak_not_err E H key root
  cases ht : Taproot.tapTweak E H key root with
  | ok qp => intro h; cases h
  | err e' => exact absurd ht (this e')
  | panic s => intro h; cases h

/-- the address commits to the internal key and the merkle root: its program is the key `Q` with
    `Q = P + t·G` for `t = TapTweakHash(P ‖ root?)` (`tweak_add_check` holds, `t` is a valid scalar) -/
theorem p2tr_commits (E : Taproot.EC) (H : Taproot.TapHashes) (key : Bytes) (root : Option Bytes)
    (bl : Option (List Nat)) (p : Gen.AddrParamsB) (a : Address) (h : p2tr E H key root bl p = .ok a) :
    ∃ q par, a = p2trTweaked q bl p ∧ E.scalarOk (Taproot.tweakHash H key root) = true ∧
      E.tweakAdd key (Taproot.tweakHash H key root) = some (q, par) ∧
      E.tweakAddCheck key q par (Taproot.tweakHash H key root) = true := by
  rw [p2tr_eq] at h
  cases ht : Taproot.tapTweak E H key root with
  | ok qp =>
    obtain ⟨q, par⟩ := qp
    rw [ht] at h
    exact ⟨q, par, (Res.ok.inj h).symm, tapTweak_ok E H key root q par ht⟩
  | err e => rw [ht] at h; cases h
  | panic s => rw [ht] at h; cases h

/-- bridge to C15: the address of `(key, root)` is the taproot address of the output key of
    `TaprootSpendInfo::new_key_spend(key, root)` — the key every control block of that spend info verifies against -/
theorem p2tr_matches_spend_info (E : Taproot.EC) (H : Taproot.TapHashes) (key : Bytes) (root : Option Bytes)
    (si : Taproot.SpendInfo) (h : Taproot.newKeySpend E H key root = .ok si)
    (bl : Option (List Nat)) (p : Gen.AddrParamsB) :
    p2tr E H key root bl p = .ok (p2trTweaked si.outputKey bl p) := by
  unfold Taproot.newKeySpend at h
  cases ht : Taproot.tapTweak E H key root with
  | ok qp =>
    obtain ⟨q, par⟩ := qp
    rw [ht] at h
    simp only [Res.ok.injEq] at h
    subst h
    exact (p2tr_is_tweaked E H key root bl p).1 q par ht
  | err e => rw [ht] at h; cases h
  | panic s => rw [ht] at h; cases h

/-! ### scripts of whole addresses and the other constructors -/

/-- `from_script` on whole addresses: the address it returns has the given network and blinding key, a standard
    payload — the C16 payload of the script under the bridge conversion — and `script_pubkey` gives the script back -/
theorem from_script_then_script_pubkey (s : Bytes) (bl : Option (List Nat)) (p : Gen.AddrParamsB) (a : Address)
    (h : fromScript s bl p = some a) :
    scriptPubkey a = some s ∧ a.params = p ∧ a.blinder = bl ∧ PayloadStd a.payload ∧
      ∃ pl, Script.fromScript s = some pl ∧ a = toAddress p pl bl := by
  obtain ⟨h1, h2, h3, h4, pl, h5, h6⟩ := fromScript_scriptPubkey s bl p a h
  refine ⟨h1, h2, h3, h4, pl, h5, ?_⟩
  obtain ⟨ap, apl, abl⟩ := a
  simp only at h2 h3 h6
  subst h2 h3 h6
  rfl

/-- `script_pubkey` then `from_script`: every address with a standard payload comes back, key and network included -/
theorem script_pubkey_then_from_script (a : Address) (h : PayloadStd a.payload) :
    ∃ s, scriptPubkey a = some s ∧ fromScript s a.blinder a.params = some a := by
  obtain ⟨s, h1, _, h2⟩ := scriptPubkey_fromScript a h
  exact ⟨s, h1, h2⟩

/-- the address-level `script_pubkey` is C16's payload-level one under the bridge conversion -/
theorem script_pubkey_bridge (a : Address) : scriptPubkey a = Script.scriptPubkey (ofAddrPayload a.payload) := by
  simp only [scriptPubkey, toScript_eq]

/-- `p2wpkh` / `p2shwpkh` insist on a compressed key (they panic otherwise); `p2pkh` does not -/
theorem segwit_key_must_be_compressed (H : CtorHashes) (pk : BtcKey) (bl : Option (List Nat)) (p : Gen.AddrParamsB) :
    (pk.compressed = false → p2wpkh H pk bl p = .panic Gen.p2wpkhExpectMsg ∧ p2shwpkh H pk bl p = .panic Gen.p2wpkhExpectMsg) ∧
    (pk.compressed = true → p2wpkh H pk bl p = .ok ⟨p, .wit 0 (natsOfBytes (H.hash160 pk.ser)), bl⟩) ∧
    (p2pkh H pk bl p = ⟨p, .pkh (natsOfBytes (H.hash160 pk.ser)), bl⟩) := by
  refine ⟨fun h => ?_, fun h => ?_, rfl⟩
  · simp [p2wpkh, p2shwpkh, wpubkeyHash, h]
  · simp [p2wpkh, wpubkeyHash, h, version_consts.1]

/-- the nested forms wrap the native ones: `p2shwpkh` is `p2sh` of the `script_pubkey` of `p2wpkh`, `p2shwsh` is
    `p2sh` of the `script_pubkey` of `p2wsh` (same key / script, blinding key, network) -/
theorem nested_wraps_native (H : CtorHashes) (pk : BtcKey) (script : Bytes) (bl : Option (List Nat)) (p : Gen.AddrParamsB) :
    (∀ w s, p2wpkh H pk bl p = .ok w → scriptPubkey w = some s → p2shwpkh H pk bl p = .ok (p2sh H s bl p)) ∧
    (∀ s, scriptPubkey (p2wsh H script bl p) = some s → p2shwsh H script bl p = .ok (p2sh H s bl p)) := by
  constructor
  · intro w s hw hs
    unfold p2wpkh at hw
    unfold p2shwpkh
    cases hh : wpubkeyHash H pk with
    | none => rw [hh] at hw; cases hw
    | some hash =>
      rw [hh] at hw
      simp only [Res.ok.injEq] at hw
      subst hw
      simp only [scriptPubkey, Payload.toScript, version_consts.1, bytesOfNats_natsOfBytes] at hs
      simp only [nested_consts.1, nestedScript_eq, hs, p2sh]
  · intro s hs
    unfold p2shwsh
    simp only [scriptPubkey, p2wsh, Payload.toScript, version_consts.2.1, bytesOfNats_natsOfBytes] at hs
    simp only [nested_consts.2, nestedScript_eq, hs, p2sh]

/-- with hash functions of the right output lengths (20 / 32 bytes) every constructor returns a standard address
    on a built-in network — so all of section (a)–(c) and `addr_roundtrip` apply to it — and the native segwit
    ones have the v0 scripts C16's templates recognise -/
theorem constructors_standard (H : CtorHashes) (h160 : ∀ x, (H.hash160 x).length = 20) (h256 : ∀ x, (H.sha256 x).length = 32)
    (pk : BtcKey) (script : Bytes) (bl : Option (List Nat)) (p : Gen.AddrParamsB) (hp : p ∈ Gen.allParamsB)
    (hb : BlinderOk P bl) :
    WF P (p2pkh H pk bl p) ∧ WF P (p2sh H script bl p) ∧ WF P (p2wsh H script bl p) ∧
    (∀ a, p2wpkh H pk bl p = .ok a → WF P a) ∧ (∀ a, p2shwpkh H pk bl p = .ok a → WF P a) ∧
    (∀ a, p2shwsh H script bl p = .ok a → WF P a) := by
  have hsh : ∀ x, PayloadStd (.sh (natsOfBytes (H.hash160 x))) := fun x =>
    ⟨by rw [natsOfBytes_length]; exact h160 x, natsOfBytes_bytesOk _⟩
  have hpkh : ∀ x, PayloadStd (.pkh (natsOfBytes (H.hash160 x))) := fun x =>
    ⟨by rw [natsOfBytes_length]; exact h160 x, natsOfBytes_bytesOk _⟩
  have hw20 : ∀ x, PayloadStd (.wit 0 (natsOfBytes (H.hash160 x))) := fun x => by
    have := h160 x
    refine ⟨by omega, ?_, ?_, fun _ => Or.inl ?_, natsOfBytes_bytesOk _⟩ <;> rw [natsOfBytes_length] <;> omega
  have hw32 : ∀ x, PayloadStd (.wit 0 (natsOfBytes (H.sha256 x))) := fun x => by
    have := h256 x
    refine ⟨by omega, ?_, ?_, fun _ => Or.inr ?_, natsOfBytes_bytesOk _⟩ <;> rw [natsOfBytes_length] <;> omega
  refine ⟨⟨hp, hpkh _, hb⟩, ⟨hp, hsh _, hb⟩, ⟨hp, ?_, hb⟩, ?_, ?_, ?_⟩
  · show PayloadStd (.wit (fe32OfChar Gen.p2wshVersionChar) _)
    rw [version_consts.2.1]; exact hw32 _
  · intro a ha
    unfold p2wpkh at ha
    split at ha
    · cases ha
    · rename_i hash hh
      simp only [Res.ok.injEq] at ha; subst ha
      simp only [wpubkeyHash] at hh
      split at hh
      · simp only [Option.some.injEq] at hh; subst hh
        refine ⟨hp, ?_, hb⟩
        show PayloadStd (.wit (fe32OfChar Gen.p2wpkhVersionChar) _)
        rw [version_consts.1]; exact hw20 _
      · cases hh
  · intro a ha
    unfold p2shwpkh at ha
    split at ha
    · cases ha
    · split at ha
      · cases ha
      · simp only [Res.ok.injEq] at ha; subst ha
        exact ⟨hp, hsh _, hb⟩
  · intro a ha
    unfold p2shwsh at ha
    split at ha
    · cases ha
    · simp only [Res.ok.injEq] at ha; subst ha
      exact ⟨hp, hsh _, hb⟩

/-- the extracted constants of this section are what the model's statements assume: `is_liquid` names LIQUID,
    `AddressParams` has exactly the five compared fields, `Fe32::Q` = 0 (p2wpkh, p2wsh) and `Fe32::P` = 1 (p2tr,
    p2tr_tweaked), the nested forms push 0 -/
theorem ops_constants :
    Gen.isLiquidParams = Gen.paramsLiquidB ∧
    Gen.addressParamsFields.map (·.1) = ["p2pkh_prefix", "p2sh_prefix", "blinded_prefix", "bech_hrp", "blech_hrp"] ∧
    fe32OfChar Gen.p2wpkhVersionChar = 0 ∧ fe32OfChar Gen.p2wshVersionChar = 0 ∧
    fe32OfChar Gen.p2trVersionChar = 1 ∧ fe32OfChar Gen.p2trTweakedVersionChar = 1 ∧
    Gen.p2shwpkhPushInt = 0 ∧ Gen.p2shwshPushInt = 0 := by
  refine ⟨rfl, by decide, version_consts.1, version_consts.2.1, version_consts.2.2.1, version_consts.2.2.2,
    nested_consts.1, nested_consts.2⟩

/-! ### non-vacuity of the hypotheses above -/

/-- an always-accepting key parser, a standard blinded and unblinded address, an admissible key -/
example : let P0 : Prims := { sha256d := fun _ => [], validPk := fun _ => true }
    WF P0 { params := Gen.paramsLiquidTestnetB, payload := .sh (List.replicate 20 9), blinder := none } ∧
    BlinderOk P0 (some (List.replicate 33 2)) ∧
    (Payload.sh (List.replicate 20 9)).isSegwit = false ∧ (Payload.wit 1 (List.replicate 32 7)).isSegwit = true :=
  ⟨⟨by decide, ⟨by decide, by intro b hb; rw [List.mem_replicate] at hb; omega⟩, trivial⟩,
   ⟨by decide, rfl, by intro b hb; rw [List.mem_replicate] at hb; omega⟩, rfl, rfl⟩

/-- `is_liquid_iff` / `is_liquid_as_coded`: true on LIQUID, false on the other two, true on a parameter set that
    is not one of the three constants but has LIQUID's values (another name, upper-case hrps) -/
example : isLiquid ⟨Gen.paramsLiquidB, .pkh [], none⟩ = true ∧ isLiquid ⟨Gen.paramsElementsB, .pkh [], none⟩ = false ∧
    isLiquid ⟨Gen.paramsLiquidTestnetB, .pkh [], none⟩ = false ∧
    isLiquid ⟨{ Gen.paramsLiquidB with name := "custom", bechHrp := [69, 88], blechHrp := [76, 81] }, .pkh [], none⟩ = true ∧
    isLiquid ⟨{ Gen.paramsLiquidB with blinded := 13 }, .pkh [], none⟩ = false := by decide

/-- `p2tr_*`: a 32-byte key; an EC record under which `tap_tweak` succeeds; `new_key_spend` succeeds -/
example : (List.replicate 32 (5 : UInt8)).length = 32 ∧
    let E : Taproot.EC := ⟨fun _ => true, fun _ => true, fun _ _ => some (List.replicate 32 6, true), fun _ _ _ _ => true⟩
    let H : Taproot.TapHashes := ⟨id, id, id⟩
    Taproot.tapTweak E H (List.replicate 32 5) none = .ok (List.replicate 32 6, true) ∧
    (∃ si, Taproot.newKeySpend E H (List.replicate 32 5) none = .ok si) ∧
    p2tr E H (List.replicate 32 5) none none Gen.paramsElementsB
      = .ok ⟨Gen.paramsElementsB, .wit 1 (List.replicate 32 6), none⟩ := by
  refine ⟨by decide, by decide, ⟨_, rfl⟩, by decide⟩

/-- `from_script_then_script_pubkey`, `nested_wraps_native`, `constructors_standard`: a script with an address;
    hash functions of the right lengths; a compressed key for which `p2wpkh` succeeds and has a script -/
example : fromScript (Taproot.p2trScript (List.replicate 32 1)) none Gen.paramsLiquidB
      = some ⟨Gen.paramsLiquidB, .wit 1 (List.replicate 32 1), none⟩ ∧
    let H : CtorHashes := ⟨fun _ => List.replicate 20 3, fun _ => List.replicate 32 4⟩
    (∀ x, (H.hash160 x).length = 20) ∧ (∀ x, (H.sha256 x).length = 32) ∧
    (p2wpkh H ⟨true, List.replicate 33 2⟩ none Gen.paramsLiquidB = .ok ⟨Gen.paramsLiquidB, .wit 0 (List.replicate 20 3), none⟩ ∧
      scriptPubkey ⟨Gen.paramsLiquidB, .wit 0 (List.replicate 20 3), none⟩ = some (0x00 :: 0x14 :: List.replicate 20 3)) ∧
    scriptPubkey (p2wsh H [0x51] none Gen.paramsLiquidB) = some (0x00 :: 0x20 :: List.replicate 32 4) := by
  refine ⟨by decide, fun _ => rfl, fun _ => rfl, ⟨by decide, by decide⟩, by decide⟩

end ops

/-! ## bridge to C17: corruptions of a DISPLAYED address are rejected

  The round-trip theorems above and the detection theorems of C17 are about the same parser (`fromStr`,
  `parseWithParams` of `EV.Model.Address`; the same `segwitNew` decoders underneath), so C17's
  `corrupted_address_rejected` applies verbatim to the strings `Display` produces.  `EV.Proofs.BridgeAddrDetect` makes
  the shape of those strings explicit (`displayHrp a`, separator, `dataPart a` = the characters of `segSyms a`: version,
  regrouped payload, checksum), shows that C17's length bounds hold for every standard address, and extends the
  statement from alphabet replacements to replacements by arbitrary bytes. -/
section bridgeC17
open EV.Bech32.Code

/-- what `Display` prints for a standard segwit address: the network's hrp (blech32 one when blinded), `'1'`, and the
    data characters — all of them lower-case characters of the bech32 alphabet, reading back to the symbols `segSyms a` -/
theorem display_segwit_shape (a : Address) (h : WF P a) (hs : a.payload.isSegwit = true) :
    display P a = displayHrp a ++ 49 :: dataPart a ∧
    (∀ c ∈ dataPart a, (fromChar c).isSome = true ∧ isUpper c = false) ∧ (dataPart a).map sym = segSyms a :=
  ⟨display_shape_wf P a h hs, dataPart_clean P a h, dataPart_syms P a h⟩

/-- C17's length bounds (same variant: 1023 symbols; switched variant: 100 symbols for bech32/bech32m, 140 for
    blech32/blech32m; hrp expansion included) hold for every standard address -/
theorem display_within_checksum_bounds (a : Address) (h : WF P a) (hs : a.payload.isSegwit = true) :
    (hrpExpand (displayHrp a) ++ segSyms a).length ≤ (segFlavor a).switchBound ∧ (segFlavor a).switchBound ≤ 1023 :=
  display_symbols_within_bound P a h hs

/-- **`corrupted_display_rejected`.** For a standard segwit address `a` on a built-in network: a string that differs
    from `display a` in one or two characters of the data part — the replacement characters being alphabet characters
    of a different symbol value, the witness-version character included — is rejected by `from_str`, by
    `parse_with_params` of `a`'s network, and by `parse_with_params` of any network unless the whole string happens to be
    a valid base58check string (C06 `addr_roundtrip` ∘ C17 `corrupted_address_rejected`; no length hypothesis left) -/
theorem corrupted_display_rejected (a : Address) (h : WF P a) (hs : a.payload.isSegwit = true)
    (d' : Text) (hd' : ∀ c ∈ d', (fromChar c).isSome = true) (hlen : d'.length = (dataPart a).length)
    (h1 : 1 ≤ diffCount (segSyms a) (d'.map sym)) (h2 : diffCount (segSyms a) (d'.map sym) ≤ 2) :
    (∃ k, fromStr P (displayHrp a ++ 49 :: d') = .err k) ∧
    (∃ k, parseWithParams P (displayHrp a ++ 49 :: d') a.params = .err k) ∧
    (∀ q ∈ Gen.allParamsB, (∃ k, parseWithParams P (displayHrp a ++ 49 :: d') q = .err k) ∨
      (decodeCheck P.sha256d (displayHrp a ++ 49 :: d')).isSome = true) :=
  EV.Addr.corrupted_display_rejected P a h hs d' hd' hlen h1 h2

/-- **`corrupted_display_rejected_any`.** … and so is ANY string `s'` that differs from `display a` in one or two
    characters of the data part (`diffCount` counts differing character positions), whatever the replacement bytes are —
    another alphabet character (checksum mismatch), an upper-case letter (mixed case), a non-alphabet or non-ASCII byte
    (invalid character) — as long as no replacement is the separator `'1'` itself (that moves the separator: the string
    then has an unknown prefix and falls through to the base58check parser, where only a SHA-256d coincidence decides) -/
theorem corrupted_display_rejected_any (a : Address) (h : WF P a) (hs : a.payload.isSegwit = true)
    (d' : Text) (hlen : d'.length = (dataPart a).length) (hsep : ∀ c ∈ d', c ≠ 49)
    (h1 : 1 ≤ diffCount (dataPart a) d') (h2 : diffCount (dataPart a) d' ≤ 2) :
    (∃ k, fromStr P (displayHrp a ++ 49 :: d') = .err k) ∧
    (∃ k, parseWithParams P (displayHrp a ++ 49 :: d') a.params = .err k) :=
  EV.Addr.corrupted_display_rejected_any P a h hs d' hlen hsep h1 h2

/-- the hypotheses are satisfiable: a standard v0 address on LIQUID, its data part with the first character after the
    version replaced by another alphabet character (`corrupted_display_rejected`), by an upper-case letter and by a
    non-alphabet byte (`corrupted_display_rejected_any`) -/
example : let P0 : Prims := { sha256d := fun _ => [], validPk := fun _ => true }
    let a : Address := { params := Gen.paramsLiquidB, payload := .wit 0 (List.replicate 20 7), blinder := none }
    WF P0 a ∧ a.payload.isSegwit = true ∧
    (∀ x ∈ [112, 80, 98], ((dataPart a).set 1 x).length = (dataPart a).length ∧ (∀ c ∈ (dataPart a).set 1 x, c ≠ 49) ∧
      diffCount (dataPart a) ((dataPart a).set 1 x) = 1) ∧
    (∀ c ∈ (dataPart a).set 1 112, (fromChar c).isSome = true) ∧
    diffCount (segSyms a) (((dataPart a).set 1 112).map sym) = 1 := by
  refine ⟨⟨by decide, ⟨by decide, by decide, by decide, by decide, by intro b hb; rw [List.mem_replicate] at hb; omega⟩,
    trivial⟩, rfl, by decide +kernel, by decide +kernel, by decide +kernel⟩

end bridgeC17

end EV.Props.C06
