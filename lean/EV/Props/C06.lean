/-
  C06 — addresses round-trip through text, are canonical, and name exactly one network.

  Model: `EV.Model.Address` (`Address::{Display, from_str, parse_with_params, from_bech32, from_base58}`
  of /repo/src/address.rs), `EV.Model.Bech32` (bech32 crate encoder/decoder and
  /repo/src/blech32/decode.rs), `EV.Model.Base58` (base58ck). The network table (version bytes,
  human-readable parts, the order in which `from_str` tries the networks) and the blech32 constants
  are re-extracted from the Rust source on every run (`EV.Gen`); `gen_matches_reference` pins them to
  the reference values (`EV.Ref`). SHA-256d and the secp256k1 public-key parser are parameters
  (`Prims`); nothing below unfolds them.

  "Standard address" = `WF P a`: one of the three networks; a 20-byte hash, or a witness program of
  version 0..16 and 2..40 bytes (20 or 32 for version 0); optional blinding key = 33 bytes accepted by
  the key parser. Text is the list of UTF-8 bytes of the string.
-/
import EV.Proofs.AddrCanonical
import EV.Proofs.AddrDetect
namespace EV.Props.C06
open EV EV.Bech32 EV.Base58 EV.Addr

variable (P : Prims)

/-- **Round trip.** The displayed string of every standard address parses back to the same address,
    with `from_str` and with `parse_with_params` of its own network — base58check forms (p2pkh, p2sh,
    blinded or not) and segwit forms (bech32 / bech32m, blech32 / blech32m) alike. -/
theorem addr_roundtrip (a : Address) (h : WF P a) :
    fromStr P (display P a) = .ok a ∧ parseWithParams P (display P a) a.params = .ok a := by
  cases hp : a.payload with
  | wit ver prog =>
    have := segwit_roundtrip P a h false ver prog hp
    rwa [map_cmap_false] at this
  | pkh hh => exact base58_roundtrip P a h (by rw [hp]; rfl)
  | sh hh => exact base58_roundtrip P a h (by rw [hp]; rfl)

/-- **Round trip, upper case.** Segwit forms also parse back when every letter is upper-cased. -/
theorem addr_roundtrip_upper (a : Address) (h : WF P a) (hs : a.payload.isSegwit = true) :
    fromStr P (upper (display P a)) = .ok a ∧ parseWithParams P (upper (display P a)) a.params = .ok a := by
  cases hp : a.payload with
  | wit ver prog =>
    have := segwit_roundtrip P a h true ver prog hp
    rwa [map_cmap_true] at this
  | pkh hh => rw [hp] at hs; simp [Payload.isSegwit] at hs
  | sh hh => rw [hp] at hs; simp [Payload.isSegwit] at hs

/-- **Canonical form (`from_str`).** If a string parses, displaying the result gives the string itself
    (base58 forms, case-sensitive) or its lower-case form (segwit forms). -/
theorem parse_display_canonical (s : Text) (a : Address) (h : fromStr P s = .ok a) :
    display P a = (if a.payload.isSegwit then lower s else s) := by
  obtain ⟨hp, r⟩ := route_of_fromStr P s a h
  exact (route_sound P s a.params hp a r).2

/-- **Canonical form (`parse_with_params`).** -/
theorem parse_with_params_display_canonical (s : Text) (p : Gen.AddrParamsB) (hp : p ∈ Gen.allParamsB)
    (a : Address) (h : parseWithParams P s p = .ok a) :
    a.params = p ∧ display P a = (if a.payload.isSegwit then lower s else s) := by
  obtain ⟨hpa, r⟩ := route_of_parseWithParams P s p a h
  exact ⟨hpa, (route_sound P s p hp a r).2⟩

/-- **Shape.** Every successfully parsed address is standard: it names one of the three networks and
    holds a 20-byte hash or a witness program of version ≤ 16 and 2..40 bytes (exactly 20 or 32 for
    version 0); a blinding key is 33 bytes accepted by the key parser. -/
theorem parsed_shape (s : Text) (a : Address) (h : fromStr P s = .ok a) : WF P a := by
  obtain ⟨hp, r⟩ := route_of_fromStr P s a h
  exact (route_sound P s a.params hp a r).1

theorem parsed_shape_with_params (s : Text) (p : Gen.AddrParamsB) (hp : p ∈ Gen.allParamsB) (a : Address)
    (h : parseWithParams P s p = .ok a) : WF P a := by
  obtain ⟨_, r⟩ := route_of_parseWithParams P s p a h
  exact (route_sound P s p hp a r).1

/-- **Checksum variant.** A parsed witness-program address comes from a string `hrp ++ "1" ++ data`
    whose symbols verify under the variant its version requires: bech32 (unblinded) / blech32
    (blinded) for version 0, bech32m / blech32m for versions 1..16. -/
theorem parsed_variant (s : Text) (a : Address) (h : fromStr P s = .ok a) (ver : Nat) (prog : List Nat)
    (hpl : a.payload = .wit ver prog) :
    ∃ hrp d, s = hrp ++ 49 :: d ∧ (∀ c ∈ d, (fromChar c).isSome = true) ∧
      (a.blinder.isSome = true → verify (blechFlavor.variant ver) hrp (d.map sym) = true ∧
        blechFlavor.variant ver = (if ver = 0 then blech32 else blech32m)) ∧
      (a.blinder.isSome = false → verify (crateFlavor.variant ver) hrp (d.map sym) = true ∧
        crateFlavor.variant ver = (if ver = 0 then bech32 else bech32m)) := by
  obtain ⟨_, r⟩ := route_of_fromStr P s a h
  exact parsed_variant_of_route P s a.params a r ver prog hpl

/-- **One network.** A string parses under at most one of the three parameter sets. The only case no
    proof can exclude without evaluating the hash — the same string is accepted by a segwit decoder
    and is also a valid base58check string (a 32-bit SHA-256d checksum coincidence) — is the explicit
    second disjunct. -/
theorem one_network (s : Text) (p q : Gen.AddrParamsB) (hp : p ∈ Gen.allParamsB) (hq : q ∈ Gen.allParamsB)
    (a b : Address) (ha : parseWithParams P s p = .ok a) (hb : parseWithParams P s q = .ok b) :
    p = q ∨ MixedForms P s := by
  obtain ⟨_, ra⟩ := route_of_parseWithParams P s p a ha
  obtain ⟨_, rb⟩ := route_of_parseWithParams P s q b hb
  exact routes_same_network P s p q hp hq a b ra rb

/-- `from_str` agrees with `parse_with_params` of the network it names -/
theorem from_str_names_its_network (s : Text) (a : Address) (h : fromStr P s = .ok a) :
    a.params ∈ Gen.allParamsB ∧ parseWithParams P s a.params = .ok a := by
  have hwf := parsed_shape P s a h
  have hcanon := parse_display_canonical P s a h
  obtain ⟨hp, r⟩ := route_of_fromStr P s a h
  refine ⟨hp, ?_⟩
  cases r with
  | segwit bl hm hfb =>
    have hpre : matchPrefix (findPrefix s) (if bl then a.params.blechHrp else a.params.bechHrp) = true :=
      (matchPrefix_iff _ _).2 hm
    cases bl with
    | true =>
      simp only [if_true] at hpre
      simp only [parseWithParams, hpre, Bool.or_true, if_true, hfb]
    | false =>
      simp only [Bool.false_eq_true, if_false] at hpre hm
      have hne : matchPrefix (findPrefix s) a.params.blechHrp = false := by
        cases hx : matchPrefix (findPrefix s) a.params.blechHrp with
        | false => rfl
        | true =>
          exfalso
          have h2 := (matchPrefix_iff _ _).1 hx
          have hl1 := hrpOk_lower _ (hrps_ok a.params.bechHrp (List.mem_flatMap.2 ⟨a.params, hp, by simp [hrps]⟩)).1
          have hl2 := hrpOk_lower _ (hrps_ok a.params.blechHrp (List.mem_flatMap.2 ⟨a.params, hp, by simp [hrps]⟩)).1
          have : a.params.bechHrp = a.params.blechHrp := by rw [← hl1, ← hl2, hm, h2]
          rcases mem_all a.params hp with h | h | h <;> rw [h] at this <;> revert this <;> decide
      simp only [parseWithParams, hpre, hne, Bool.or_false, if_true, hfb]
  | base58 data hd hfb hno =>
    have hshort : ¬ s.length > 150 := by
      unfold fromStr at h
      split at h
      · rename_i r hr
        have := dispatchBech_none_of P s (findPrefix s) Gen.fromStrOrder (by
          intro q hq
          rw [order_eq_all] at hq
          -- no network matches: the route says so only for a.params; use the dispatch result instead
          exact absurd hr (by
            intro hr
            obtain ⟨p', hp', hc⟩ := dispatchBech_some P s _ _ _ hr
            rw [order_eq_all] at hp'
            -- a prefix match leads to from_bech32, whose result is a segwit address
            rcases hc with ⟨hm', rfl⟩ | ⟨hm', rfl⟩
            · have := (fromBech32_sound P s false p' hp' a hm' h).2.2
              have h2 := (fromBase58_inv P data a.params a hfb).2.1
              rw [this] at h2; simp at h2
            · have := (fromBech32_sound P s true p' hp' a hm' h).2.2
              have h2 := (fromBase58_inv P data a.params a hfb).2.1
              rw [this] at h2; simp at h2))
        rw [this] at hr; simp at hr
      · split at h
        · simp at h
        · assumption
    simp only [parseWithParams, hno.1, hno.2, Bool.or_self, Bool.false_eq_true, if_false, hshort, hd, hfb]

/-- **Exactly one network** for valid strings: what `from_str` accepts is accepted by
    `parse_with_params` of the named network and of no other (up to `MixedForms`). -/
theorem exactly_one_network (s : Text) (a : Address) (h : fromStr P s = .ok a) (q : Gen.AddrParamsB)
    (hq : q ∈ Gen.allParamsB) (b : Address) (hb : parseWithParams P s q = .ok b) :
    q = a.params ∨ MixedForms P s := by
  obtain ⟨hp, hpw⟩ := from_str_names_its_network P s a h
  exact one_network P s q a.params hq hp b a hb hpw

/-- parsing is total: no input makes `from_str` or `parse_with_params` panic (the model has an explicit
    panic outcome for every indexing / `unwrap` of the Rust code; pre-fix `new_bech32("a1")` was one) -/
theorem parse_total (s : Text) (site : String) :
    fromStr P s ≠ .panic site ∧ ∀ p, parseWithParams P s p ≠ .panic site :=
  ⟨fromStr_not_panic P s site, fun p => parseWithParams_not_panic P s p site⟩

/-- the regenerated constants are the reference constants: the three networks' version bytes and
    human-readable parts (Elements chain parameters) and the blech32 generator table, target residues
    and checksum length (Elements `blech32.cpp`) -/
theorem gen_matches_reference :
    Gen.allParamsB.map (fun p => (p.p2pkh, p.p2sh, p.blinded, p.bechHrp, p.blechHrp))
      = [(57, 39, 12, [101, 120], [108, 113]), (235, 75, 4, [101, 114, 116], [101, 108]),
         (36, 19, 23, [116, 101, 120], [116, 108, 113])] ∧
    Gen.blech32Generators = Ref.blech32Generators ∧ Gen.blech32mGenerators = Ref.blech32Generators ∧
    Gen.blech32Target = Ref.blech32Target ∧ Gen.blech32mTarget = Ref.blech32mTarget ∧
    Gen.blech32ChecksumLength = Ref.blech32ChecksumLength ∧ Gen.blech32mChecksumLength = Ref.blech32ChecksumLength := by
  decide

/-- the byte lists above are the ASCII codes of "ex","lq","ert","el","tex","tlq", and the two alphabets
    are the bech32 and base58 character sets -/
theorem ascii_tables :
    "ex".toList.map Char.toNat = [101, 120] ∧ "lq".toList.map Char.toNat = [108, 113] ∧
    "ert".toList.map Char.toNat = [101, 114, 116] ∧ "el".toList.map Char.toNat = [101, 108] ∧
    "tex".toList.map Char.toNat = [116, 101, 120] ∧ "tlq".toList.map Char.toNat = [116, 108, 113] ∧
    "qpzry9x8gf2tvdw0s3jn54khce6mua7l".toList.map Char.toNat = Ref.charset ∧
    "123456789ABCDEFGHJKLMNPQRSTUVWXYZabcdefghijkmnopqrstuvwxyz".toList.map Char.toNat = Ref.base58Chars := by
  decide

/-! ### non-vacuity -/

/-- a standard address exists for every payload kind (with an always-accepting key parser) -/
example : WF { sha256d := fun _ => [], validPk := fun _ => true }
    { params := Gen.paramsLiquidB, payload := .wit 1 (List.replicate 32 7), blinder := some (List.replicate 33 2) } :=
  ⟨by decide, ⟨by decide, by decide, by decide, by decide, by intro b hb; rw [List.mem_replicate] at hb; omega⟩,
   ⟨by decide, rfl, by intro b hb; rw [List.mem_replicate] at hb; omega⟩⟩

example : WF { sha256d := fun _ => [], validPk := fun _ => true }
    { params := Gen.paramsElementsB, payload := .pkh (List.replicate 20 0), blinder := none } :=
  ⟨by decide, ⟨by decide, by intro b hb; rw [List.mem_replicate] at hb; omega⟩, trivial⟩

end EV.Props.C06
