/-
  C13 — a sighash cache answers every query as a fresh one would, in any order.

  Model: `EV/Model/SighashCache.lean` — `SighashCache` as a state machine: three lazily filled slots
  (`common_cache`, `segwit_cache`, `taproot_cache`), the three query kinds threading the cache in the
  order of the code (including what is filled before an error or a panic), `witness_mut` as an
  update of one input's script witness.  `fresh H tx q` is the cache-free function of C03.
  `CacheInv H tx ps c`: every filled slot equals the value computed from `tx` (and, for the taproot
  slot, from the spent outputs `ps`).  A history is "consistent" when all its `Prevouts::All`
  queries pass the same list `ps` (`Op.usesAll ps`); `Prevouts::One` queries are unconstrained.
-/
import EV.Proofs.SighashCacheProofs
import EV.Proofs.BridgeCacheSpec
namespace EV.Props.C13
open EV EV.Codec EV.Sighash

variable (H : SigHashes)

/-- a new cache satisfies the invariant -/
theorem cache_inv_empty (tx : Tx) (ps : List TxOut) : CacheInv H tx ps Cache.empty :=
  cacheInv_empty H tx ps

/-- `cache_inv`: the invariant is preserved by every query (legacy, segwit, taproot general / key /
    script, with `All ps` or `One`, successful or not) and by `witness_mut`, which exposes exactly
    the `script_witness` of one input — a field no cached hash reads (the taproot slot DOES hash
    the issuance range proofs and output witnesses; those cannot be changed through the cache) -/
theorem cache_inv (ps : List TxOut) (s : State) (op : Op) (hop : op.usesAll ps)
    (hc : CacheInv H s.tx ps s.cache) :
    CacheInv H (step H s op).1.tx ps (step H s op).1.cache :=
  step_inv H ps s op hop hc

/-- one query against any cache state satisfying the invariant returns what a fresh cache returns -/
theorem query_as_fresh (tx : Tx) (ps : List TxOut) (q : Query) (hq : q.usesAll ps) (c : Cache)
    (hc : CacheInv H tx ps c) : (query H tx q c).2 = fresh H tx q :=
  (query_sound H tx ps q hq c hc).2

/-- `fresh` is literally "create a cache, ask one question" -/
theorem fresh_is_query_on_new_cache (tx : Tx) (q : Query) : (query H tx q Cache.empty).2 = fresh H tx q := by
  cases q with
  | legacy i s t => exact (query_sound H tx [] (.legacy i s t) trivial _ (cacheInv_empty H tx [])).2
  | segwit i s v t => exact (query_sound H tx [] (.segwit i s v t) trivial _ (cacheInv_empty H tx [])).2
  | taproot i pv a l t g =>
    cases pv with
    | one j p => exact (query_sound H tx [] (.taproot i (.one j p) a l t g) trivial _ (cacheInv_empty H tx [])).2
    | all ps => exact (query_sound H tx ps (.taproot i (.all ps) a l t g) rfl _ (cacheInv_empty H tx ps)).2

/-- `cache_refines`: ANY finite history of queries and `witness_mut` updates on one cache object,
    in any order, with repetitions, returns for each query exactly what a freshly created cache
    returns for that query alone over the transaction as it is at that point … -/
theorem cache_refines_current (tx : Tx) (ps : List TxOut) (ops : List Op) (hops : ∀ o ∈ ops, o.usesAll ps) :
    run H ⟨tx, Cache.empty⟩ ops = runFresh H tx ops :=
  run_eq_runFresh H tx ps ops hops Cache.empty (cacheInv_empty H tx ps)

/-- … which is what a fresh cache over the ORIGINAL transaction returns: filling in script witnesses
    between queries changes no answer -/
theorem cache_refines (tx : Tx) (ps : List TxOut) (ops : List Op) (hops : ∀ o ∈ ops, o.usesAll ps) :
    run H ⟨tx, Cache.empty⟩ ops = runOriginal H tx ops := by
  rw [cache_refines_current H tx ps ops hops, runFresh_eq_runOriginal]

/-- for histories of queries only: `results = qs.map (fun q => (query empty q).2)` -/
theorem cache_refines_queries (tx : Tx) (ps : List TxOut) (qs : List Query) (hqs : ∀ q ∈ qs, q.usesAll ps) :
    run H ⟨tx, Cache.empty⟩ (qs.map Op.q) = qs.map (fun q => Out.digest (query H tx q Cache.empty).2) := by
  rw [cache_refines H tx ps (qs.map Op.q) (by
    intro o ho
    obtain ⟨q, hq, rfl⟩ := List.mem_map.mp ho
    exact hqs q hq)]
  induction qs with
  | nil => rfl
  | cons q qs ih =>
    simp only [List.map_cons, runOriginal, fresh_is_query_on_new_cache]
    rw [ih (fun q hq => hqs q (List.mem_cons_of_mem _ hq))]
    simp only [fresh_is_query_on_new_cache]

/-- no signature hash depends on a script witness -/
theorem witness_mut_irrelevant (tx : Tx) (i : Nat) (st : List Bytes) (q : Query) :
    fresh H (setScriptWitness tx i st) q = fresh H tx q :=
  fresh_setScriptWitness H tx i st q

/-- `one_suffices`: for every hash type with ANYONECANPAY (ALL|ACP included, as fixed by 300f5ff),
    supplying only the spent output of the signed input gives the same message, hence the same
    digest, as supplying all of them — on a fresh cache and on any cache state of a consistent
    history -/
theorem one_suffices (tx : Tx) (ps : List TxOut) (idx : Nat) (p : TxOut) (annex : Option Bytes)
    (leaf : Option (Bytes × Nat)) (ty : SchnorrTy) (g : Bytes)
    (hty : ty.acp = true) (hlen : ps.length = tx.input.length) (hp : ps[idx]? = some p) :
    taprootSighash H tx idx (.one idx p) annex leaf ty g = taprootSighash H tx idx (.all ps) annex leaf ty g ∧
    ∀ c, CacheInv H tx ps c →
      (query H tx (.taproot idx (.one idx p) annex leaf ty g) c).2 =
      (query H tx (.taproot idx (.all ps) annex leaf ty g) c).2 := by
  have h := one_eq_all H tx ps idx p annex leaf ty g hty hlen hp
  have hd : taprootSighash H tx idx (.one idx p) annex leaf ty g = taprootSighash H tx idx (.all ps) annex leaf ty g := by
    simp only [taprootSighash, h]
  refine ⟨hd, fun c hc => ?_⟩
  rw [(query_sound H tx ps (.taproot idx (.one idx p) annex leaf ty g) trivial c hc).2,
    (query_sound H tx ps (.taproot idx (.all ps) annex leaf ty g) rfl c hc).2]
  exact hd

/-- `one_insufficient_err`: a hash type without ANYONECANPAY with a single spent output is reported
    as `PrevoutKind` — whatever the index, annex, leaf, and cache state -/
theorem one_insufficient_err (tx : Tx) (ps : List TxOut) (idx j : Nat) (p : TxOut) (annex : Option Bytes)
    (leaf : Option (Bytes × Nat)) (ty : SchnorrTy) (g : Bytes) (hty : ty.acp = false) :
    taprootSighash H tx idx (.one j p) annex leaf ty g = .err ePrevoutKind ∧
    ∀ c, CacheInv H tx ps c → (query H tx (.taproot idx (.one j p) annex leaf ty g) c).2 = .err ePrevoutKind := by
  have h := one_insufficient H tx idx j p annex leaf ty g hty
  have hd : taprootSighash H tx idx (.one j p) annex leaf ty g = .err ePrevoutKind := by
    simp only [taprootSighash, h, Res.map, Res.bind]
  refine ⟨hd, fun c hc => ?_⟩
  rw [(query_sound H tx ps (.taproot idx (.one j p) annex leaf ty g) trivial c hc).2]
  exact hd

/-! ### non-vacuity -/

example : (run ⟨fun b => b.take 32, fun b => b.take 32, fun _ b => b.take 32⟩
    ⟨⟨2, 0, [⟨⟨List.replicate 32 1, 0⟩, false, [], 5, AssetIssuance.null, TxInWitness.empty⟩], []⟩, Cache.empty⟩
    [.q (.segwit 0 [] .null .all), .w 0 [[1]], .q (.segwit 0 [] .null .all), .w 3 []]).length = 4 := by decide

/-! ### bridge to C03: every digest a used cache returns is the SPECIFICATION digest

  `query_as_fresh` (above) says a used cache answers like the cache-free functions of src/sighash.rs; C03's
  `legacy_digest_refines`, `segwit_msg_refines`, `taproot_msg_refines` say those functions are the independent
  transcription of the specifications (`specDigest`: Core's `SignatureHash(BASE)`, BIP143 + issuance, Elements
  taproot).  Composed (`EV.Proofs.BridgeCacheSpec`), with `Query.Covered n`: the signed input exists (legacy,
  segwit v0) / the taproot hash type is one of the seven `from_u8` yields. -/

/-- the cache-free functions ARE the specification digests (the three `…_refines` theorems of C03 as one) -/
theorem fresh_equals_spec (hd : Dbl H) (tx : Tx) (q : Query) (hq : q.Covered tx.input.length) :
    fresh H tx q = specDigest H tx q := fresh_eq_specDigest H hd tx q hq

/-- outside `Covered` — legacy / segwit v0 on an input that does not exist — code and specification both abort
    (the documented panic / Core's `assert(nIn < txTo.vin.size())`) -/
theorem uncovered_query_both_abort (tx : Tx) (q : Query)
    (hty : ∀ i pv a l ty g, q = .taproot i pv a l ty g → ty ≠ .reserved) (hq : ¬ q.Covered tx.input.length) :
    (∃ s, fresh H tx q = .panic s) ∧ (∃ s, specDigest H tx q = .panic s) := uncovered_both_panic H tx q hty hq

/-- **`used_cache_returns_spec_digest`**: one query against a cache in any state satisfying the invariant (new, or
    used by any consistent history) returns the specification digest (or the specification's error) -/
theorem used_cache_returns_spec_digest (hd : Dbl H) (tx : Tx) (ps : List TxOut) (q : Query) (hu : q.usesAll ps)
    (hq : q.Covered tx.input.length) (c : Cache) (hc : CacheInv H tx ps c) :
    (query H tx q c).2 = specDigest H tx q := cached_query_eq_spec H hd tx ps q hu hq c hc

/-- **`cache_history_equals_spec`**: ANY finite history of queries and `witness_mut` updates on one cache object — new
    or already used —, in any order, with repetitions, returns operation by operation what the specifications
    prescribe over the ORIGINAL transaction; in particular every digest in the history is a specification digest -/
theorem cache_history_equals_spec (hd : Dbl H) (tx : Tx) (ps : List TxOut) (ops : List Op)
    (hu : ∀ o ∈ ops, o.usesAll ps) (hcov : ∀ o ∈ ops, o.Covered tx.input.length) (c : Cache) (hc : CacheInv H tx ps c) :
    run H ⟨tx, c⟩ ops = ops.map (specOut H tx) ∧
    ∀ (k : Nat) (q : Query), ops[k]? = some (Op.q q) →
      (run H ⟨tx, c⟩ ops)[k]? = some (Out.digest (specDigest H tx q)) :=
  ⟨run_eq_spec H hd tx ps ops hu hcov c hc, fun k q hk => run_getElem_eq_spec H hd tx ps ops hu hcov c hc k q hk⟩

/-- the hypotheses are satisfiable: a hash record with `sha256d = sha256 ∘ sha256`, and a covered, consistent history
    (segwit and taproot queries around a `witness_mut`) on the transaction of the example above -/
example : ∃ H : SigHashes, Dbl H := ⟨⟨fun b => b.take 32, fun b => b.take 32, fun _ b => b.take 32⟩, fun x => by
  simp only [List.take_take, Nat.min_self]⟩

example :
    let tx : Tx := ⟨2, 0, [⟨⟨List.replicate 32 1, 0⟩, false, [], 5, AssetIssuance.null, TxInWitness.empty⟩], []⟩
    let ops : List Op := [.q (.segwit 0 [] .null .all), .w 0 [[1]], .q (.taproot 0 (.all [txOutDefault]) none none .default []),
      .q (.legacy 0 [] .single)]
    (∀ o ∈ ops, o.usesAll [txOutDefault]) ∧ (∀ o ∈ ops, o.Covered tx.input.length) := by
  refine ⟨?_, ?_⟩ <;> intro o ho <;> simp only [List.mem_cons, List.mem_nil_iff, or_false] at ho <;>
    rcases ho with rfl | rfl | rfl | rfl <;> simp [Op.usesAll, Query.usesAll, Op.Covered, Query.Covered]


end EV.Props.C13
