/-
  C13 — a sighash cache answers every query as a fresh one would, in any order.

  Model: `EV/Model/SighashCache.lean` — `SighashCache` as a state machine: three lazily filled slots
  (`common_cache`, `segwit_cache`, `taproot_cache`), the three query kinds threading the cache in the
  order of the code (including what is filled before an error or a panic), `witness_mut` as an
  update of one input's script witness.  `fresh H tx q` is the cache-free function of C03.
  `CacheInv H tx ps c`: every filled slot equals the value computed from `tx` (and, for the taproot
  slot, from the spent outputs `ps`).  A history is "consistent" when all its `Prevouts::All`
  queries pass the same list `ps` (`Op.usesAll ps`); `Prevouts::One` queries are unconstrained.
-/
import EV.Proofs.SighashCacheProofs
namespace EV.Props.C13
open EV EV.Codec EV.Sighash

variable (H : SigHashes)

/-- a new cache satisfies the invariant -/
theorem cache_inv_empty (tx : Tx) (ps : List TxOut) : CacheInv H tx ps Cache.empty :=
  cacheInv_empty H tx ps

/-- `cache_inv`: the invariant is preserved by every query (legacy, segwit, taproot general / key /
    script, with `All ps` or `One`, successful or not) and by `witness_mut`, which exposes exactly
    the `script_witness` of one input — a field no cached hash reads (the taproot slot DOES hash
    the issuance range proofs and output witnesses; those cannot be changed through the cache) -/
theorem cache_inv (ps : List TxOut) (s : State) (op : Op) (hop : op.usesAll ps)
    (hc : CacheInv H s.tx ps s.cache) :
    CacheInv H (step H s op).1.tx ps (step H s op).1.cache :=
  step_inv H ps s op hop hc

/-- one query against any cache state satisfying the invariant returns what a fresh cache returns -/
theorem query_as_fresh (tx : Tx) (ps : List TxOut) (q : Query) (hq : q.usesAll ps) (c : Cache)
    (hc : CacheInv H tx ps c) : (query H tx q c).2 = fresh H tx q :=
  (query_sound H tx ps q hq c hc).2

/-- `fresh` is literally "create a cache, ask one question" -/
theorem fresh_is_query_on_new_cache (tx : Tx) (q : Query) : (query H tx q Cache.empty).2 = fresh H tx q := by
  cases q with
  | legacy i s t => exact (query_sound H tx [] (.legacy i s t) trivial _ (cacheInv_empty H tx [])).2
  | segwit i s v t => exact (query_sound H tx [] (.segwit i s v t) trivial _ (cacheInv_empty H tx [])).2
  | taproot i pv a l t g =>
    cases pv with
    | one j p => exact (query_sound H tx [] (.taproot i (.one j p) a l t g) trivial _ (cacheInv_empty H tx [])).2
    | all ps => exact (query_sound H tx ps (.taproot i (.all ps) a l t g) rfl _ (cacheInv_empty H tx ps)).2

/-- `cache_refines`: ANY finite history of queries and `witness_mut` updates on one cache object,
    in any order, with repetitions, returns for each query exactly what a freshly created cache
    returns for that query alone over the transaction as it is at that point … -/
theorem cache_refines_current (tx : Tx) (ps : List TxOut) (ops : List Op) (hops : ∀ o ∈ ops, o.usesAll ps) :
    run H ⟨tx, Cache.empty⟩ ops = runFresh H tx ops :=
  run_eq_runFresh H tx ps ops hops Cache.empty (cacheInv_empty H tx ps)

/-- … which is what a fresh cache over the ORIGINAL transaction returns: filling in script witnesses
    between queries changes no answer -/
theorem cache_refines (tx : Tx) (ps : List TxOut) (ops : List Op) (hops : ∀ o ∈ ops, o.usesAll ps) :
    run H ⟨tx, Cache.empty⟩ ops = runOriginal H tx ops := by
  rw [cache_refines_current H tx ps ops hops, runFresh_eq_runOriginal]

/-- for histories of queries only: `results = qs.map (fun q => (query empty q).2)` -/
theorem cache_refines_queries (tx : Tx) (ps : List TxOut) (qs : List Query) (hqs : ∀ q ∈ qs, q.usesAll ps) :
    run H ⟨tx, Cache.empty⟩ (qs.map Op.q) = qs.map (fun q => Out.digest (query H tx q Cache.empty).2) := by
  rw [cache_refines H tx ps (qs.map Op.q) (by
    intro o ho
    obtain ⟨q, hq, rfl⟩ := List.mem_map.mp ho
    exact hqs q hq)]
  induction qs with
  | nil => rfl
  | cons q qs ih =>
    simp only [List.map_cons, runOriginal, fresh_is_query_on_new_cache]
    rw [ih (fun q hq => hqs q (List.mem_cons_of_mem _ hq))]
    simp only [fresh_is_query_on_new_cache]

/-- no signature hash depends on a script witness -/
theorem witness_mut_irrelevant (tx : Tx) (i : Nat) (st : List Bytes) (q : Query) :
    fresh H (setScriptWitness tx i st) q = fresh H tx q :=
  fresh_setScriptWitness H tx i st q

/-- `one_suffices`: for every hash type with ANYONECANPAY (ALL|ACP included, as fixed by 300f5ff),
    supplying only the spent output of the signed input gives the same message, hence the same
    digest, as supplying all of them — on a fresh cache and on any cache state of a consistent
    history -/
theorem one_suffices (tx : Tx) (ps : List TxOut) (idx : Nat) (p : TxOut) (annex : Option Bytes)
    (leaf : Option (Bytes × Nat)) (ty : SchnorrTy) (g : Bytes)
    (hty : ty.acp = true) (hlen : ps.length = tx.input.length) (hp : ps[idx]? = some p) :
    taprootSighash H tx idx (.one idx p) annex leaf ty g = taprootSighash H tx idx (.all ps) annex leaf ty g ∧
    ∀ c, CacheInv H tx ps c →
      (query H tx (.taproot idx (.one idx p) annex leaf ty g) c).2 =
      (query H tx (.taproot idx (.all ps) annex leaf ty g) c).2 := by
  have h := one_eq_all H tx ps idx p annex leaf ty g hty hlen hp
  have hd : taprootSighash H tx idx (.one idx p) annex leaf ty g = taprootSighash H tx idx (.all ps) annex leaf ty g := by
    simp only [taprootSighash, h]
  refine ⟨hd, fun c hc => ?_⟩
  rw [(query_sound H tx ps (.taproot idx (.one idx p) annex leaf ty g) trivial c hc).2,
    (query_sound H tx ps (.taproot idx (.all ps) annex leaf ty g) rfl c hc).2]
  exact hd

/-- `one_insufficient_err`: a hash type without ANYONECANPAY with a single spent output is reported
    as `PrevoutKind` — whatever the index, annex, leaf, and cache state -/
theorem one_insufficient_err (tx : Tx) (ps : List TxOut) (idx j : Nat) (p : TxOut) (annex : Option Bytes)
    (leaf : Option (Bytes × Nat)) (ty : SchnorrTy) (g : Bytes) (hty : ty.acp = false) :
    taprootSighash H tx idx (.one j p) annex leaf ty g = .err ePrevoutKind ∧
    ∀ c, CacheInv H tx ps c → (query H tx (.taproot idx (.one j p) annex leaf ty g) c).2 = .err ePrevoutKind := by
  have h := one_insufficient H tx idx j p annex leaf ty g hty
  have hd : taprootSighash H tx idx (.one j p) annex leaf ty g = .err ePrevoutKind := by
    simp only [taprootSighash, h, Res.map, Res.bind]
  refine ⟨hd, fun c hc => ?_⟩
  rw [(query_sound H tx ps (.taproot idx (.one j p) annex leaf ty g) trivial c hc).2]
  exact hd

/-! ### non-vacuity -/

example : (run ⟨fun b => b.take 32, fun b => b.take 32, fun _ b => b.take 32⟩
    ⟨⟨2, 0, [⟨⟨List.replicate 32 1, 0⟩, false, [], 5, AssetIssuance.null, TxInWitness.empty⟩], []⟩, Cache.empty⟩
    [.q (.segwit 0 [] .null .all), .w 0 [[1]], .q (.segwit 0 [] .null .all), .w 3 []]).length = 4 := by decide

end EV.Props.C13
