/-
  C12 — size, weight, vsize and discount weight equal the real serialized sizes.
  `Tx.scaledSize` is the hand arithmetic of `Transaction::scaled_size` transcribed term by term;
  the theorems compare it with the length of the modelled encoder output for every shape.
-/
import EV.Proofs.CodecTx
import EV.Proofs.CodecBlock
import EV.Proofs.Sizes
import EV.Proofs.TxAccessors
import EV.Proofs.BridgePsetSize
namespace EV.Props.C12
open EV EV.Codec EV.Proofs.CodecTx EV.Proofs.CodecBlock

variable (P : Prims)

/-- the reported size is the byte length of the consensus serialization -/
theorem size_eq (t : Tx) (h : t.wf P) : t.size = t.enc.length := size_eq_enc_length P t h

/-- weight = 3 × witness-stripped length + full length -/
theorem weight_eq (t : Tx) (h : t.wf P) : t.weight = 3 * t.encStripped.length + t.enc.length :=
  EV.Proofs.CodecTx.weight_eq P t h

/-- vsize = weight / 4 rounded up -/
theorem vsize_eq (t : Tx) : t.vsize = (t.weight + 3) / 4 ∧ 4 * t.vsize ≥ t.weight ∧ 4 * t.vsize < t.weight + 4 := by
  unfold Tx.vsize; omega

/-- what `discount_weight` subtracts for one output: the bytes its witness occupies beyond the two
    of an empty witness, 4·24 for a confidential value, 4·32 for a confidential nonce -/
def discount (o : TxOut) : Nat := EV.Proofs.Sizes.discount o

theorem discount_def (o : TxOut) : discount o =
    (o.witness.enc.length - 2) + (if o.value.isConf then 4 * 24 else 0) + (if o.nonce.isConf then 4 * 32 else 0) := rfl

/-- the discount weight is the weight minus the per-output discounts, and the `usize` subtraction
    never underflows (no panic) -/
theorem discount_weight_eq (t : Tx) (h : t.wf P) :
    (t.output.map discount).sum ≤ t.weight ∧
    t.discountWeight = some (t.weight - (t.output.map discount).sum) :=
  EV.Proofs.Sizes.discount_weight_eq P t h

theorem discount_vsize_eq (t : Tx) (h : t.wf P) :
    t.discountVsize = some ((t.weight - (t.output.map discount).sum + 3) / 4) := by
  simp [Tx.discountVsize, (discount_weight_eq P t h).2]

/-- a block's size is its serialized length; its weight is 4 × (header + count bytes) + tx weights -/
theorem block_size_eq (b : Block) (h : b.wf P) : b.size = b.enc.length := EV.Proofs.CodecBlock.block_size_eq P b h
theorem block_weight_eq (P : Prims) (b : Block) :
    b.weight = 4 * (b.header.enc.length + varintSize b.txdata.length) + (b.txdata.map Tx.weight).sum :=
  EV.Proofs.CodecBlock.block_weight_eq P b

/-- non-vacuity: an output with witness and confidential value/nonce has a positive discount -/
example : discount ⟨.null, .conf (List.replicate 33 8), .conf (List.replicate 33 2), [],
    ⟨some (List.replicate 67 0), some (List.replicate 65 0)⟩⟩ = 132 + 96 + 128 := by decide

/-! ## Transaction-level accessors and classification (model growth: `EV.Model.TxAccessors`)

  Fee accounting (`TxOut::{new_fee, is_fee}`, `Transaction::{fee_in, all_fees}`), the pegout template
  (`TxOut::{is_null_data, is_pegout, pegout_data}`), the pegin witness layout
  (`PeginData::{from_pegin_witness, to_pegin_witness}`, `TxIn::pegin_data`), the input/transaction flags
  and the `Sequence` predicates, with bridges to the size arithmetic and the encoders above.
  `checks = true` is a build with overflow checks (an overflowing `u64` `+` panics), `false` wraps. -/
section TxAccessors
open EV.TxAcc EV.Acc EV.Proofs.TxAccessors

/-! ### (a) fee accounting -/

/-- the fee outputs are exactly those with an empty script and an explicit value and asset (as coded) -/
theorem is_fee_iff (o : TxOut) :
    isFee o = true ↔ o.scriptPubkey = [] ∧ (∃ v, o.value = .explicit v) ∧ (∃ a, o.asset = .explicit a) :=
  EV.Proofs.TxAccessors.isFee_iff o

/-- `fee_in(asset)` under overflow checks: the sum of the explicit values of exactly the fee outputs in
    that asset (`feeSum`, a sum over `feeOutputs`), and a panic exactly when that sum does not fit a `u64` -/
theorem fee_in_checked (t : Tx) (a : Bytes) :
    feeIn true t a = if feeSum t.output a < 2^64 then .ok (feeSum t.output a) else .panic feeOverflowSite := by
  have := feeInLoop_checked a t.output 0 (by decide)
  simpa [feeIn] using this

/-- `fee_in(asset)` without overflow checks (release profile): the same sum modulo 2^64, never a panic -/
theorem fee_in_wrapping (t : Tx) (a : Bytes) : feeIn false t a = .ok (feeSum t.output a % 2^64) := by
  have := feeInLoop_wrapping a t.output 0 (by decide)
  simpa [feeIn] using this

/-- the outputs `feeSum` adds up are exactly the `is_fee` outputs whose explicit asset is `a` -/
theorem fee_outputs_spec (outs : List TxOut) (a : Bytes) (o : TxOut) :
    o ∈ feeOutputs outs a ↔ o ∈ outs ∧ isFee o = true ∧ o.asset = .explicit a := by
  simp [feeOutputs, List.mem_filter]

/-- `all_fees` when no per-asset sum overflows: one entry per asset that has a fee output, no duplicates,
    and every entry is that asset's `feeSum` -/
theorem all_fees_ok (t : Tx) (h : ∀ a, feeSum t.output a < 2^64) :
    ∃ m, allFees true t = .ok m ∧ (∀ a, feeMapGet m a = feeSum t.output a) ∧
      (∀ a, a ∈ m.map Prod.fst ↔ ∃ o ∈ t.output, isFee o = true ∧ o.asset = .explicit a) ∧
      (m.map Prod.fst).Nodup := by
  obtain ⟨m, e, hg, hk, hn⟩ := (allFeesLoop_checked t.output [] (by intro a; simp [feeMapGet_nil])).1
    (by intro a; simpa [feeMapGet_nil] using h a)
  refine ⟨m, e, fun a => by simpa [feeMapGet_nil] using hg a, ?_, hn (by simp [keys])⟩
  intro a
  have := hk a
  simpa [keys, feeAsset] using this

/-- `all_fees` under overflow checks panics as soon as one asset's fee sum exceeds `u64::MAX`
    (recorded in DESIGN §3 as observed behaviour of the real code; it is not a `Result` API) -/
theorem all_fees_overflow (t : Tx) (h : ∃ a, 2^64 ≤ feeSum t.output a) :
    allFees true t = .panic feeOverflowSite := by
  obtain ⟨a, ha⟩ := h
  exact (allFeesLoop_checked t.output [] (by intro a; simp [feeMapGet_nil])).2 ⟨a, by simpa [feeMapGet_nil] using ha⟩

/-- `all_fees` without overflow checks (release profile): never a panic; the same keys, every entry is its
    asset's `feeSum` modulo 2^64 -/
theorem all_fees_wrapping (t : Tx) :
    ∃ m, allFees false t = .ok m ∧ (∀ a, feeMapGet m a = feeSum t.output a % 2^64) ∧
      (∀ a, a ∈ m.map Prod.fst ↔ ∃ o ∈ t.output, isFee o = true ∧ o.asset = .explicit a) ∧
      (m.map Prod.fst).Nodup := by
  obtain ⟨m, e, hg, hk, hn⟩ := allFeesLoop_wrapping t.output [] (by intro a; simp [feeMapGet_nil])
  refine ⟨m, e, fun a => by simpa [feeMapGet_nil] using hg a, ?_, hn (by simp [keys])⟩
  intro a
  have := hk a
  simpa [keys, feeAsset] using this

/-- `fee_in asset` is the lookup of `asset` in `all_fees` (0 when absent) -/
theorem fee_in_eq_all_fees_lookup (t : Tx) (m : FeeMap) (h : allFees true t = .ok m) (a : Bytes) :
    feeIn true t a = .ok (feeMapGet m a) := by
  have hall : ∀ a, feeSum t.output a < 2^64 := by
    intro a
    by_cases hlt : feeSum t.output a < 2^64
    · exact hlt
    · have := all_fees_overflow t ⟨a, by omega⟩
      rw [h] at this; cases this
  obtain ⟨m', e, hg, _, _⟩ := all_fees_ok t hall
  rw [h] at e; cases e
  rw [fee_in_checked, if_pos (hall a), hg a]

/-- fees do not depend on the order of the outputs (also not whether the call panics) -/
theorem fee_in_perm (checks : Bool) (t t' : Tx) (h : t.output.Perm t'.output) (a : Bytes) :
    feeIn checks t a = feeIn checks t' a := by
  cases checks
  · rw [fee_in_wrapping, fee_in_wrapping, feeSum_perm h]
  · rw [fee_in_checked, fee_in_checked, feeSum_perm h]

/-- `all_fees` of a permuted output list: the same entries (as a finite map) -/
theorem all_fees_perm (t t' : Tx) (h : t.output.Perm t'.output) (m : FeeMap) (hm : allFees true t = .ok m) :
    ∃ m', allFees true t' = .ok m' ∧ ∀ a, feeMapGet m' a = feeMapGet m a ∧ (a ∈ m'.map Prod.fst ↔ a ∈ m.map Prod.fst) := by
  have hall : ∀ a, feeSum t.output a < 2^64 := by
    intro a
    by_cases hlt : feeSum t.output a < 2^64
    · exact hlt
    · have := all_fees_overflow t ⟨a, by omega⟩
      rw [hm] at this; cases this
  obtain ⟨m0, e0, hg0, hk0, _⟩ := all_fees_ok t hall
  rw [hm] at e0; cases e0
  obtain ⟨m', e', hg', hk', _⟩ := all_fees_ok t' (fun a => by rw [← feeSum_perm h]; exact hall a)
  refine ⟨m', e', fun a => ⟨by rw [hg', hg0, feeSum_perm h], ?_⟩⟩
  rw [hk' a, hk0 a]
  constructor
  · rintro ⟨o, ho, h1, h2⟩; exact ⟨o, h.symm.subset ho, h1, h2⟩
  · rintro ⟨o, ho, h1, h2⟩; exact ⟨o, h.subset ho, h1, h2⟩

/-- fee sums are additive under appending outputs -/
theorem fee_sum_append (xs ys : List TxOut) (a : Bytes) : feeSum (xs ++ ys) a = feeSum xs a + feeSum ys a :=
  feeSum_append xs ys a

/-- … and so is `fee_in`: if it succeeds on the longer transaction it succeeds on both parts and adds up -/
theorem fee_in_additive (t : Tx) (more : List TxOut) (a : Bytes) (v : Nat)
    (h : feeIn true { t with output := t.output ++ more } a = .ok v) :
    ∃ v1 v2, feeIn true t a = .ok v1 ∧ feeIn true { t with output := more } a = .ok v2 ∧ v = v1 + v2 := by
  rw [fee_in_checked] at h
  simp only [feeSum_append] at h
  by_cases hlt : feeSum t.output a + feeSum more a < 2^64
  · rw [if_pos hlt] at h
    refine ⟨feeSum t.output a, feeSum more a, ?_, ?_, by cases h; rfl⟩
    · rw [fee_in_checked, if_pos (by omega)]
    · rw [fee_in_checked, if_pos (by simp only; omega)]
  · rw [if_neg hlt] at h; cases h

/-- BRIDGE to the sizes: a `new_fee` output is a fee output, is canonical, serializes to exactly 44 bytes,
    contributes `44·scale` (+2 for its empty witness when the transaction has witnesses) to `scaled_size`,
    and nothing to the ELIP-200 discount -/
theorem new_fee_size (P : Prims) (v : Nat) (a : Bytes) (hv : v < 2^64) (ha : a.length = 32) :
    isFee (newFee v a) = true ∧ (newFee v a).wf P ∧ (newFee v a).enc.length = 44 ∧
    (∀ scale wit, Tx.outputScaled scale wit (newFee v a) = scale * 44 + (if wit then 2 else 0)) ∧
    discount (newFee v a) = 0 ∧ isPartiallyBlinded (newFee v a) = false :=
  ⟨rfl, newFee_wf P v a hv ha, newFee_enc_length v a ha, fun s w => newFee_outputScaled s w v a, newFee_discount v a, rfl⟩

/-- any fee output: 43 bytes plus its nonce (1 or 33), plus its witness when witnesses are serialized -/
theorem fee_output_scaled (o : TxOut) (h : isFee o = true) (scale : Nat) (wit : Bool) :
    Tx.outputScaled scale wit o = scale * (43 + o.nonce.encodedLength) + (if wit then o.witness.enc.length else 0) :=
  isFee_outputScaled o h scale wit

/-- appending a `new_fee` output: size +44, weight +176 (+2 with witnesses), plus the growth of the
    output counter; the witness flag is unchanged -/
theorem with_fee_sizes (t : Tx) (v : Nat) (a : Bytes) :
    (withFee t v a).hasWitness = t.hasWitness ∧
    (withFee t v a).size + varintSize t.output.length =
      t.size + varintSize (t.output.length + 1) + 44 + (if t.hasWitness then 2 else 0) ∧
    (withFee t v a).weight + 4 * varintSize t.output.length =
      t.weight + 4 * varintSize (t.output.length + 1) + 176 + (if t.hasWitness then 2 else 0) :=
  ⟨withFee_hasWitness t v a, withFee_size t v a, withFee_weight t v a⟩

/-- an output that is not partially blinded gets no discount except for a confidential nonce -/
theorem not_blinded_discount (o : TxOut) (h : isPartiallyBlinded o = false) :
    discount o = if o.nonce.isConf then 4 * 32 else 0 := notBlinded_discount o h

/-- the deprecated aliases `get_size` / `get_weight` (transaction and block) are `size` / `weight`, hence
    the serialized length and 3·stripped + full -/
theorem get_size_weight_aliases (t : Tx) (ht : t.wf P) (b : Block) (hb : b.wf P) :
    txGetSize t = t.size ∧ txGetWeight t = t.weight ∧ blockGetSize b = b.size ∧ blockGetWeight b = b.weight ∧
    txGetSize t = t.enc.length ∧ txGetWeight t = 3 * t.encStripped.length + t.enc.length ∧
    blockGetSize b = b.enc.length :=
  ⟨rfl, rfl, rfl, rfl, size_eq P t ht, weight_eq P t ht, block_size_eq P b hb⟩

/-! ### (b) pegout -/

/-- BRIDGE: the instruction iterator of the accessor model (C10, explicit bounds checks) and the one of
    the script model (C16) are the same function, step by step and run to the end -/
theorem instruction_models_agree (minimal : Bool) (s : Bytes) :
    Acc.step minimal s = stepOfScript (Script.next minimal s) ∧
    Acc.instructions minimal s = .ok (pairOfScript (Script.collect minimal s.length s)) :=
  ⟨step_eq_next minimal s, instructions_eq minimal s⟩

/-- EXACT CLASS of `pegout_data`: `Some(d)` exactly when the value is explicit and the iterator reads the
    script, without error, as `OP_RETURN`, a 32-byte push, a non-empty push, then data pushes only; `d`
    is exactly (value, asset, those pushes).  Every other script / value gives `None` (`pegout_data_total`). -/
theorem pegout_data_iff (o : TxOut) (d : PegoutData) :
    pegoutData o = .ok (some d) ↔
      o.value = .explicit d.value ∧ d.asset = o.asset ∧ d.genesisHash.length = 32 ∧ d.scriptPubkey ≠ [] ∧
      Acc.instructions false o.scriptPubkey = .ok (accPegoutInstrs d.genesisHash d.scriptPubkey d.extraData, none) :=
  pegoutData_iff o d

/-- `pegout_data` is total: no panic, no error, on any script and any value/asset -/
theorem pegout_data_total (o : TxOut) : ∃ r, pegoutData o = .ok r := pegoutData_total o

/-- `is_pegout()` ⇔ `pegout_data().is_some()` -/
theorem is_pegout_iff (o : TxOut) : isPegout o = .ok true ↔ ∃ d, pegoutData o = .ok (some d) := by
  unfold isPegout
  obtain ⟨r, hr⟩ := pegoutData_total o
  rw [hr]
  cases r <;> simp

/-- PARTIAL INVERSE: for every genesis hash of 32 bytes, non-empty destination script and extra pushes
    (all below 4 GiB), the template script parses back to exactly these components, for every explicit
    value and every asset, nonce and witness -/
theorem pegout_template_roundtrip (g spk : Bytes) (extra : List Bytes) (h : PegoutArgsOk g spk extra)
    (hg : g.length = 32) (hs : spk ≠ []) (asset : Asset) (v : Nat) (nonce : Nonce) (w : TxOutWitness) :
    pegoutData ⟨asset, .explicit v, nonce, pegoutScript g spk extra, w⟩ = .ok (some ⟨v, asset, g, spk, extra⟩) :=
  (pegoutData_iff _ _).mpr ⟨rfl, rfl, hg, hs, instructions_pegoutScript g spk extra h⟩

/-- BRIDGE to the `script::Builder` model (C16): the template is what
    `push_opcode(OP_RETURN).push_slice(genesis).push_slice(script).push_slice(extra)…` writes -/
theorem pegout_template_builder (g spk : Bytes) (extra : List Bytes) (h : PegoutArgsOk g spk extra) :
    Script.build (pegoutBuilderCalls g spk extra) = some (pegoutScript g spk extra) := build_pegout g spk extra h

/-- value must be explicit (as coded): a null or confidential value is never a pegout -/
theorem pegout_requires_explicit_value (o : TxOut) (h : ∀ v, o.value ≠ .explicit v) : pegoutData o = .ok none := by
  obtain ⟨r, hr⟩ := pegoutData_total o
  cases r with
  | none => exact hr
  | some d => exact absurd ((pegoutData_iff o d).mp hr).1 (h d.value)

/-! ### (c) pegin -/

/-- EXACT CLASS of `from_pegin_witness` and the documented slices: accepted exactly for 6 items with an
    8-byte value, 32-byte asset, 32-byte genesis hash and a proof of at least 80 bytes; the fields are
    items 0..5 verbatim (value little endian), the outpoint is the given one, and the referenced block is
    the hash of the first 80 bytes of the proof -/
theorem from_pegin_witness_iff (H : Bytes → Bytes) (w : List Bytes) (txid : Bytes) (vout : Nat) (d : PeginData) :
    fromPeginWitness H w txid vout = .ok d ↔
      peginWitnessOk w = true ∧
      d = ⟨txid, vout, leNat (w.getD 0 []), w.getD 1 [], w.getD 2 [], w.getD 3 [], w.getD 4 [], w.getD 5 [],
           H ((w.getD 5 []).take 80)⟩ := fromPeginWitness_iff H w txid vout d

/-- total: every other witness is an error, never a panic -/
theorem from_pegin_witness_err_iff (H : Bytes → Bytes) (w : List Bytes) (txid : Bytes) (vout : Nat) :
    (∃ e, fromPeginWitness H w txid vout = .err e) ↔ peginWitnessOk w = false :=
  fromPeginWitness_err_iff H w txid vout

/-- `from_pegin_witness ∘ to_pegin_witness = id` on well-formed data; the witness has the 6 items -/
theorem pegin_witness_roundtrip (H : Bytes → Bytes) (d : PeginData) (h : PeginDataOk H d) :
    (toPeginWitness d).length = EV.Gen.txaccPeginWitnessItems ∧
    fromPeginWitness H (toPeginWitness d) d.outpointTxid d.outpointVout = .ok d :=
  ⟨rfl, from_to_peginWitness H d h⟩

/-- `to_pegin_witness ∘ from_pegin_witness = id`: an accepted witness is reproduced item by item, and what
    was parsed is well formed -/
theorem pegin_witness_roundtrip_inv (H : Bytes → Bytes) (w : List Bytes) (txid : Bytes) (vout : Nat) (d : PeginData)
    (h : fromPeginWitness H w txid vout = .ok d) : toPeginWitness d = w ∧ PeginDataOk H d :=
  to_from_peginWitness H w txid vout d h

/-- `TxIn::pegin_data`: `Some` exactly for a pegin input with an accepted witness, parsed against the
    input's own previous output; total -/
theorem pegin_data_iff (H : Bytes → Bytes) (i : TxIn) (d : PeginData) :
    (peginData H i = .ok (some d) ↔
      i.isPegin = true ∧ fromPeginWitness H i.witness.peginWitness i.previousOutput.txid i.previousOutput.vout = .ok d) ∧
    (∃ r, peginData H i = .ok r) ∧ (peginPrevout i = if i.isPegin then some i.previousOutput else none) :=
  ⟨peginData_iff H i d, peginData_total H i, rfl⟩

/-! ### (d) the classification lattice -/

/-- pegout ⊂ null data ⊂ OP_RETURN scripts, and fee outputs are disjoint from all three -/
theorem classification_lattice (o : TxOut) :
    (isPegout o = .ok true → outIsNullData o = .ok true) ∧
    (outIsNullData o = .ok true → Acc.isOpReturn o.scriptPubkey = .ok true) ∧
    (isFee o = true → outIsNullData o = .ok false ∧ Acc.isOpReturn o.scriptPubkey = .ok false ∧ isPegout o = .ok false) := by
  refine ⟨?_, fun h => nulldata_opreturn h, ?_⟩
  · intro h
    obtain ⟨d, hd⟩ := (is_pegout_iff o).mp h
    exact pegout_nulldata o d hd
  · intro h
    obtain ⟨h1, h2, h3⟩ := fee_not_nulldata o h
    exact ⟨h1, h2, by unfold isPegout; rw [h3]; rfl⟩

/-! ### inputs and transactions -/

/-- `outpoint_flag` is bit 6 for a pegin and bit 7 for an issuance; BRIDGE to the encoder: it is the top
    byte of the serialized index word -/
theorem outpoint_flag_spec (i : TxIn) :
    outpointFlag i = (if i.isPegin then 64 else 0) + (if i.hasIssuance then 128 else 0) ∧
    i.voutWord = i.previousOutput.vout ||| (outpointFlag i <<< 24) :=
  ⟨outpointFlag_eq i, voutWord_eq_flag i⟩

/-- a canonical coinbase input carries no flags, hence is neither a pegin nor an issuance -/
theorem coinbase_input_no_flags (i : TxIn) (hw : i.wfBody P) (hc : inIsCoinbase i = true) :
    i.isPegin = false ∧ i.hasIssuance = false ∧ outpointFlag i = 0 ∧ peginPrevout i = none := by
  obtain ⟨h1, h2⟩ := coinbase_no_flags P i hw hc
  refine ⟨h1, h2, ?_, ?_⟩
  · rw [outpointFlag_eq, h1, h2]; rfl
  · unfold peginPrevout; rw [h1]; rfl

/-- `Transaction::is_coinbase` never panics (the index is guarded by the length test) and holds exactly
    for a single input spending the null outpoint -/
theorem tx_is_coinbase_iff (t : Tx) :
    (∃ b, txIsCoinbase t = .ok b) ∧
    (txIsCoinbase t = .ok true ↔ ∃ i, t.input = [i] ∧ i.previousOutput = OutPoint.null) := by
  rw [txIsCoinbase_eq]
  refine ⟨⟨_, rfl⟩, ?_⟩
  match t.input with
  | [] => simp
  | [i] => simp [inIsCoinbase]
  | _ :: _ :: _ => simp

/-- BRIDGE to the encoder: `has_witness` is the flag byte (offset 4) of the serialization -/
theorem has_witness_is_flag_byte (t : Tx) : (t.enc.drop 4).head? = some (if t.hasWitness then 1 else 0) :=
  enc_witness_flag t

/-! ### Sequence -/

/-- final ⇔ 0xffffffff; absolute lock time enabled ⇔ not final; RBF ⇔ below 0xfffffffe -/
theorem seq_final_rbf (n : Nat) :
    (seqIsFinal n = true ↔ n = 0xffffffff) ∧ seqEnablesAbsoluteLockTime n = !seqIsFinal n ∧
    (seqIsRbf n = true ↔ n < 0xfffffffe) ∧ (seqIsFinal n = true → seqIsRbf n = false) := by
  refine ⟨by simp [seqIsFinal, EV.Gen.txaccSeqMax], rfl, by unfold seqIsRbf; exact decide_eq_true_iff, ?_⟩
  intro h
  have : n = 0xffffffff := by simpa [seqIsFinal, EV.Gen.txaccSeqMax] using h
  subst this; decide

/-- BIP68: bit 31 disables the relative lock time, bit 22 selects time (set) or height (clear);
    a relative lock is exactly one of the two kinds -/
theorem seq_bip68 (n : Nat) :
    seqIsRelativeLockTime n = !n.testBit 31 ∧ seqIsHeightLocked n = (!n.testBit 31 && !n.testBit 22) ∧
    seqIsTimeLocked n = (!n.testBit 31 && n.testBit 22) ∧
    seqIsRelativeLockTime n = (seqIsHeightLocked n != seqIsTimeLocked n) := by
  refine ⟨seqIsRelativeLockTime_eq n, seqIsHeightLocked_eq n, seqIsTimeLocked_eq n, ?_⟩
  rw [seqIsRelativeLockTime_eq, seqIsHeightLocked_eq, seqIsTimeLocked_eq]
  cases n.testBit 31 <;> cases n.testBit 22 <;> rfl

/-- the constructors produce what they say: a height lock, a 512-second-interval lock carrying the
    interval in its low 16 bits -/
theorem seq_constructors (x : Nat) (hx : x < 2^16) :
    seqIsHeightLocked (seqFromHeight x) = true ∧ seqFromHeight x = x ∧
    seqIsTimeLocked (seqFrom512 x) = true ∧ seqFrom512 x % 2^16 = x ∧ seqFrom512 x < 2^32 :=
  ⟨seqFromHeight_locked x hx, rfl, (seqFrom512_locked x hx).1, (seqFrom512_locked x hx).2.1, (seqFrom512_locked x hx).2.2⟩

/-- `from_seconds_floor` / `from_seconds_ceil`: 512-second granularity, error exactly when the interval
    count does not fit 16 bits -/
theorem seq_from_seconds (s : Nat) :
    seqFromSecondsFloor s = (if s / 512 < 2^16 then .ok (seqFrom512 (s / 512)) else .err "IntegerOverflow") ∧
    seqFromSecondsCeil s = (if (s + 511) / 512 < 2^16 then .ok (seqFrom512 ((s + 511) / 512)) else .err "IntegerOverflow") ∧
    s / 512 * 512 ≤ s ∧ s ≤ (s + 511) / 512 * 512 ∧ (s + 511) / 512 * 512 < s + 512 := by
  refine ⟨rfl, rfl, ?_, ?_, ?_⟩ <;> omega

/-! non-vacuity and strictness of the lattice -/

/-- two fee outputs in one asset and one in another; the confidential-value output does not count -/
example : allFees true ⟨2, 0, [], [newFee 5 [1], newFee 7 [2], newFee 6 [1],
    ⟨.explicit [1], .conf [9], .null, [], TxOutWitness.empty⟩]⟩ = .ok [([1], 11), ([2], 7)] := by decide
example : feeIn true ⟨2, 0, [], [newFee 5 [1], newFee 7 [2], newFee 6 [1]]⟩ [1] = .ok 11 := by decide
/-- overflow: panic with checks, wrap without -/
example : feeIn true ⟨2, 0, [], [newFee (2^64 - 1) [1], newFee 2 [1]]⟩ [1] = .panic feeOverflowSite := by decide
example : feeIn false ⟨2, 0, [], [newFee (2^64 - 1) [1], newFee 2 [1]]⟩ [1] = .ok 1 := by decide
example : ∃ a, 2^64 ≤ feeSum [newFee (2^64 - 1) [1], newFee 2 [1]] a := ⟨[1], by decide⟩
example : ∀ a, feeSum [newFee 5 [1], newFee 7 [2]] a < 2^64 := by
  intro a; simp only [EV.Proofs.TxAccessors.feeSum_cons, EV.Proofs.TxAccessors.feeSum_nil]
  have : ∀ (c : Bool) (x : Nat), (if c = true then x else 0) ≤ x := by intro c x; cases c <;> simp
  have h1 := this (EV.Proofs.TxAccessors.sel a (newFee 5 [1])) (explicitValueD (newFee 5 [1]))
  have h2 := this (EV.Proofs.TxAccessors.sel a (newFee 7 [2])) (explicitValueD (newFee 7 [2]))
  have e1 : explicitValueD (newFee 5 [1]) = 5 := rfl
  have e2 : explicitValueD (newFee 7 [2]) = 7 := rfl
  omega
example : PegoutArgsOk (List.replicate 32 7) [0x51] [[], [5]] ∧ (List.replicate 32 7).length = 32 := by
  refine ⟨⟨by decide, by decide, ?_⟩, by decide⟩
  intro e he; simp at he; rcases he with rfl | rfl <;> decide
example : pegoutScript (List.replicate 32 7) [0x51] [[], [5]] =
    [0x6a, 32] ++ List.replicate 32 7 ++ [1, 0x51, 0, 1, 5] := by decide
example : PeginDataOk (fun b => b) ⟨List.replicate 32 1, 3, 1000, List.replicate 32 2, List.replicate 32 3, [0x51], [9],
    List.replicate 80 4, List.replicate 80 4⟩ := by unfold PeginDataOk; decide
example : peginWitnessOk [List.replicate 8 0, List.replicate 32 2, List.replicate 32 3, [], [], List.replicate 80 4] = true := by decide
example : peginWitnessOk [List.replicate 8 0, List.replicate 32 2, List.replicate 32 3, [], [], List.replicate 79 4] = false := by decide
/-- strictness: OP_RETURN script that is not null data; null data that is no pegout; a pegout -/
example : Acc.isOpReturn [0x6a, 0x61] = .ok true ∧ Acc.isNullData [0x6a, 0x61] = .ok false := by decide
example : outIsNullData ⟨.null, .explicit 1, .null, [0x6a, 0x51], TxOutWitness.empty⟩ = .ok true ∧
    isPegout ⟨.null, .explicit 1, .null, [0x6a, 0x51], TxOutWitness.empty⟩ = .ok false := by decide
example : isPegout ⟨.null, .explicit 1, .null, pegoutScript (List.replicate 32 7) [0x51] [], TxOutWitness.empty⟩ = .ok true := by decide
example : isFee (newFee 1 (List.replicate 32 0)) = true := rfl
/-- a coinbase input that is canonical -/
example : inIsCoinbase ⟨OutPoint.null, false, [], 0xffffffff, AssetIssuance.null, TxInWitness.empty⟩ = true := by decide
example : seqFromSecondsFloor 33554431 = .ok (65535 ||| 0x400000) ∧ (seqFromSecondsCeil 33554431).isOk = false := by decide

end TxAccessors

/-! ### bridge to C08: the size of an extracted PSET transaction

  `PartiallySignedTransaction::extract_tx` (C08, model `Pset.extractTx`) assembles a `Transaction` from
  PSET fields; `Transaction::size`/`weight`/`vsize` (above) and the codec laws (C01) speak about canonical
  transactions.  `PsetFieldsOk` states canonicity on the PSET FIELDS (`EV.Proofs.BridgePsetSize`): global
  `tx_version` and every stated lock time are `u32`s, the two vector bounds, and per input / output the
  conditions of `InputFieldsOk` / `OutputFieldsOk`, which are *equivalent* to the canonicity of the
  `TxIn` / `TxOut` that `extract_tx` builds. -/
section PsetBridge
open EV.Proofs.BridgePsetSize

/-- the per-input field conditions (`previous_txid` 32 bytes; an index with low 30 bits all ones and
    the pegin bit set allows no issuance; `final_script_sig` within `MAX_VEC_SIZE`; `sequence` a `u32`;
    with an issuance: nonce accepted by `Tweak::from_inner`, 32-byte entropy, valid amounts — without:
    nonce/entropy absent or zero; issuance range proofs valid; witness stacks within bounds) hold
    exactly when the `TxIn` built by `extract_tx` is canonical -/
theorem extract_tx_input_fields_iff (i : PsetInput) : InputFieldsOk P i ↔ i.toTxIn.wf P :=
  inputFieldsOk_iff P i

/-- the per-output field conditions (asset id 32 bytes / generator valid, amount `u64` / commitment
    valid, compressed `ecdh_pubkey` a valid 33-byte nonce, script within `MAX_VEC_SIZE`, proofs valid)
    hold exactly when the `TxOut` built by `extract_tx` is canonical -/
theorem extract_tx_output_fields_iff (o : PsetOutput) (t : TxOut) (h : o.extract = .ok t) :
    OutputFieldsOk P o ↔ t.wf P := extract_wf_out P o t h

/-- `PartiallySignedTransaction::locktime` returns a `u32` when the fallback and every per-input
    requirement are `u32`s (it returns one of them, or 0) -/
theorem extract_tx_locktime_u32 (p : Pset) (lt : Nat) (hl : LockFieldsOk p) (h : p.locktime = .ok lt) :
    lt < 2^32 := locktime_lt p lt hl h

/-- **`PartiallySignedTransaction::extract_tx` of a PSET whose fields are in range returns a canonical
    transaction** (the domain of the codec laws of C01 and of the size theorems above) -/
theorem extract_tx_wf (p : Pset) (t : Tx) (h : p.extractTx = .ok t) (hp : PsetFieldsOk P p) : t.wf P :=
  extract_wf P p t h hp

/-- exactness: for a successful `extract_tx` the result is canonical **iff** version and selected lock
    time are `u32`s, the vector bounds hold and every input and output satisfies its field conditions -/
theorem extract_tx_wf_iff (p : Pset) (t : Tx) (h : p.extractTx = .ok t) :
    t.wf P ↔
      (p.global.txVersion < 2^32 ∧ t.lockTime < 2^32 ∧
       p.inputs.length * P.sizeTxIn ≤ maxVecSize ∧ p.outputs.length * P.sizeTxOut ≤ maxVecSize ∧
       (∀ i ∈ p.inputs, InputFieldsOk P i) ∧ (∀ o ∈ p.outputs, OutputFieldsOk P o)) :=
  extract_wf_iff P p t h

/-- **`Transaction::size()` of what `extract_tx` returns is the number of bytes its consensus
    serialization writes** -/
theorem extract_tx_size_eq (p : Pset) (t : Tx) (h : p.extractTx = .ok t) (hp : PsetFieldsOk P p) :
    t.size = t.enc.length := extract_size_eq P p t h hp

/-- `Transaction::weight()` of the extracted transaction = 3 × witness-stripped length + full length -/
theorem extract_tx_weight_eq (p : Pset) (t : Tx) (h : p.extractTx = .ok t) (hp : PsetFieldsOk P p) :
    t.weight = 3 * t.encStripped.length + t.enc.length := extract_weight_eq P p t h hp

/-- `Transaction::vsize()` of the extracted transaction is that weight divided by 4, rounded up -/
theorem extract_tx_vsize_bracket (p : Pset) (t : Tx) (h : p.extractTx = .ok t) (hp : PsetFieldsOk P p) :
    3 * t.encStripped.length + t.enc.length ≤ 4 * t.vsize ∧
    4 * t.vsize < 3 * t.encStripped.length + t.enc.length + 4 := extract_vsize_bracket P p t h hp

/-- **what `extract_tx` returns is serializable and decodes back to itself** (C01 round trip): the
    partial decoder stops exactly at its end, `deserialize` returns it -/
theorem extract_tx_roundtrip (hs : SizesPos P) (p : Pset) (t : Tx) (h : p.extractTx = .ok t)
    (hp : PsetFieldsOk P p) :
    (∀ rest, Tx.dec P (t.enc ++ rest) = .ok (t, rest)) ∧ Tx.deserialize P t.enc = .ok t :=
  ⟨extract_roundtrip P hs p t h hp, extract_deserialize P hs p t h hp⟩

/-- the witness flag of the extracted transaction from the PSET fields: some input has an issuance
    range proof or a non-empty final script / pegin witness, or some output has a proof -/
theorem extract_tx_has_witness (p : Pset) (t : Tx) (h : p.extractTx = .ok t) :
    t.hasWitness =
      (p.inputs.any (fun i => i.issuanceValueRangeproof.isSome || i.issuanceKeysRangeproof.isSome ||
          !(i.finalScriptWitness.getD []).isEmpty || !(i.peginWitness.getD []).isEmpty) ||
       p.outputs.any (fun o => o.assetSurjectionProof.isSome || o.valueRangeproof.isSome)) :=
  extract_hasWitness p t h

/-- **the serialized length of `extract_tx`'s result as a sum over the PSET's inputs and outputs**
    (`outOf o` is the `TxOut` built from output `o`: `extract_tx_output_of`) -/
theorem extract_tx_size_formula (p : Pset) (t : Tx) (h : p.extractTx = .ok t) (hp : PsetFieldsOk P p) :
    t.enc.length =
      9 + varintSize p.inputs.length + varintSize p.outputs.length +
      (p.inputs.map (fun i => Tx.inputScaled 1 (pHasWitness p) i.toTxIn)).sum +
      (p.outputs.map (fun o => Tx.outputScaled 1 (pHasWitness p) (outOf o))).sum :=
  extract_size_formula P p t h hp

theorem extract_tx_output_of (p : Pset) (t : Tx) (h : p.extractTx = .ok t) :
    t.input = p.inputs.map PsetInput.toTxIn ∧ t.output = p.outputs.map outOf ∧
    ∀ o, outOf o = ⟨PsetOutput.pairAsset o.asset o.assetComm, PsetInput.pairValue o.amount o.amountComm,
      PsetOutput.nonceOf o.ecdhPubkey, o.scriptPubkey, ⟨o.assetSurjectionProof, o.valueRangeproof⟩⟩ := by
  obtain ⟨_, _, _, _, hi, ho⟩ := (EV.Proofs.PsetExtract.extractTx_ok_iff p t).1 h
  exact ⟨hi, outputs_eq_map_outOf _ _ ho, fun _ => rfl⟩

/-- converse: **every PSET made by `PartiallySignedTransaction::from_tx` from a canonical transaction
    satisfies the field conditions** (no side condition on nonces or witness placement) -/
theorem from_tx_fields_ok (t : Tx) (h : t.wf P) : PsetFieldsOk P (Pset.fromTx t) := fromTx_fieldsOk P t h

/-- … hence whatever `extract_tx(from_tx(tx))` returns for a canonical `tx` (`tx` itself on the class
    `Rt` of C08; otherwise `tx` with the nonces that `from_txout` does not carry nulled) is canonical and
    reports its serialized length as its size -/
theorem from_tx_extract_size (t t' : Tx) (h : t.wf P) (he : (Pset.fromTx t).extractTx = .ok t') :
    t'.wf P ∧ t'.size = t'.enc.length := fromTx_extract_size P t t' h he

/-! non-vacuity: a literal PSET with a pegin input carrying an issuance, a height requirement and
    witnesses, a plain input, an explicit output and a blinded output with an uncompressed ECDH key -/

/-- concrete primitives: a commitment / generator / key "parses" iff it has 33 bytes, a tweak iff 32;
    proofs always; `size_of` values of a 64-bit build -/
def exPrims : Prims :=
  ⟨fun b => b.length == 33, fun b => b.length == 33, fun b => b.length == 33, fun b => b.length == 32,
   fun _ => true, fun _ => true, 328, 160, 56⟩

def exPset : Pset :=
  { global := { txVersion := 2, fallbackLocktime := some 7, inputCount := 2, outputCount := 2 }
    inputs := [
      { previousTxid := List.replicate 32 7, previousOutputIndex := 5 + 2^30 + 2^31,
        sequence := some 0xfffffffe, finalScriptSig := some [0x51], requiredHeightLocktime := some 500000,
        issuanceValueAmount := some 1000, issuanceAssetEntropy := some (List.replicate 32 9),
        finalScriptWitness := some [[1, 2, 3]], peginWitness := some [[4]] },
      { previousTxid := List.replicate 32 8, previousOutputIndex := 0 } ]
    outputs := [
      { asset := some (List.replicate 32 1), amount := some 5, scriptPubkey := [0x51] },
      { assetComm := some (0x0a :: List.replicate 32 1), amountComm := some (8 :: List.replicate 32 2),
        amount := some (2^64), ecdhPubkey := some (4 :: List.replicate 64 3), scriptPubkey := [0x51],
        valueRangeproof := some [1], assetSurjectionProof := some [2] } ] }

/-- what `extract_tx` returns for it: lock time = the height requirement, flags out of the index, the
    commitment shadows the (out-of-range) explicit amount, the ECDH key compressed -/
def exTx : Tx :=
  ⟨2, 500000,
   [⟨⟨List.replicate 32 7, 5⟩, true, [0x51], 0xfffffffe,
     ⟨List.replicate 32 0, List.replicate 32 9, .explicit 1000, .null⟩, ⟨none, none, [[1, 2, 3]], [[4]]⟩⟩,
    ⟨⟨List.replicate 32 8, 0⟩, false, [], 0xffffffff, AssetIssuance.null, TxInWitness.empty⟩],
   [⟨.explicit (List.replicate 32 1), .explicit 5, .null, [0x51], TxOutWitness.empty⟩,
    ⟨.conf (0x0a :: List.replicate 32 1), .conf (8 :: List.replicate 32 2), .conf (3 :: List.replicate 32 3),
     [0x51], ⟨some [2], some [1]⟩⟩]⟩

example : PsetFieldsOk exPrims exPset := by decide
example : exPset.extractTx = .ok exTx := by decide
example : SizesPos exPrims := ⟨by decide, by decide, by decide⟩
/-- so the theorems above apply, and indeed: -/
example : exTx.size = 334 ∧ exTx.enc.length = 334 ∧ exTx.encStripped.length = 314 ∧
    exTx.weight = 3 * 314 + 334 ∧ exTx.vsize = 319 := by decide +kernel
example : Tx.deserialize exPrims exTx.enc = .ok exTx :=
  (extract_tx_roundtrip exPrims ⟨by decide, by decide, by decide⟩ exPset exTx (by decide) (by decide)).2
/-- strictness: each kind of condition can fail — a version beyond `u32`, a lock-time requirement beyond
    `u32`, an issuance on the coinbase index, a stray nonce without an issuance, a 31-byte asset id -/
example : ¬ PsetFieldsOk exPrims { exPset with global := { exPset.global with txVersion := 2^32 } } := by decide
example : ¬ PsetFieldsOk exPrims { exPset with inputs := [{ requiredTimeLocktime := some (2^32) }, {}] } := by decide
example : ¬ InputFieldsOk exPrims { previousOutputIndex := 0xffffffff, issuanceValueAmount := some 1 } := by decide
example : ¬ InputFieldsOk exPrims { issuanceBlindingNonce := some (List.replicate 32 1) } := by decide
example : InputFieldsOk exPrims { issuanceBlindingNonce := some (List.replicate 32 0) } := by decide
example : ¬ OutputFieldsOk exPrims { asset := some (List.replicate 31 1), amount := some 1 } := by decide

end PsetBridge

end EV.Props.C12
