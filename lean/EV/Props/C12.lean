/-
  C12 — size, weight, vsize and discount weight equal the real serialized sizes.
  `Tx.scaledSize` is the hand arithmetic of `Transaction::scaled_size` transcribed term by term;
  the theorems compare it with the length of the modelled encoder output for every shape.
-/
import EV.Proofs.CodecTx
import EV.Proofs.CodecBlock
import EV.Proofs.Sizes
namespace EV.Props.C12
open EV EV.Codec EV.Proofs.CodecTx EV.Proofs.CodecBlock

variable (P : Prims)

/-- the reported size is the byte length of the consensus serialization -/
theorem size_eq (t : Tx) (h : t.wf P) : t.size = t.enc.length := size_eq_enc_length P t h

/-- weight = 3 × witness-stripped length + full length -/
theorem weight_eq (t : Tx) (h : t.wf P) : t.weight = 3 * t.encStripped.length + t.enc.length :=
  EV.Proofs.CodecTx.weight_eq P t h

/-- vsize = weight / 4 rounded up -/
theorem vsize_eq (t : Tx) : t.vsize = (t.weight + 3) / 4 ∧ 4 * t.vsize ≥ t.weight ∧ 4 * t.vsize < t.weight + 4 := by
  unfold Tx.vsize; omega

/-- what `discount_weight` subtracts for one output: the bytes its witness occupies beyond the two
    of an empty witness, 4·24 for a confidential value, 4·32 for a confidential nonce -/
def discount (o : TxOut) : Nat := EV.Proofs.Sizes.discount o

theorem discount_def (o : TxOut) : discount o =
    (o.witness.enc.length - 2) + (if o.value.isConf then 4 * 24 else 0) + (if o.nonce.isConf then 4 * 32 else 0) := rfl

/-- the discount weight is the weight minus the per-output discounts, and the `usize` subtraction
    never underflows (no panic) -/
theorem discount_weight_eq (t : Tx) (h : t.wf P) :
    (t.output.map discount).sum ≤ t.weight ∧
    t.discountWeight = some (t.weight - (t.output.map discount).sum) :=
  EV.Proofs.Sizes.discount_weight_eq P t h

theorem discount_vsize_eq (t : Tx) (h : t.wf P) :
    t.discountVsize = some ((t.weight - (t.output.map discount).sum + 3) / 4) := by
  simp [Tx.discountVsize, (discount_weight_eq P t h).2]

/-- a block's size is its serialized length; its weight is 4 × (header + count bytes) + tx weights -/
theorem block_size_eq (b : Block) (h : b.wf P) : b.size = b.enc.length := EV.Proofs.CodecBlock.block_size_eq P b h
theorem block_weight_eq (P : Prims) (b : Block) :
    b.weight = 4 * (b.header.enc.length + varintSize b.txdata.length) + (b.txdata.map Tx.weight).sum :=
  EV.Proofs.CodecBlock.block_weight_eq P b

/-- non-vacuity: an output with witness and confidential value/nonce has a positive discount -/
example : discount ⟨.null, .conf (List.replicate 33 8), .conf (List.replicate 33 2), [],
    ⟨some (List.replicate 67 0), some (List.replicate 65 0)⟩⟩ = 132 + 96 + 128 := by decide

end EV.Props.C12
