/-
  C09 — multi-party PSET blinding balances for every split and order of blinders.

  Model: EV.Model.PsetBlind (`blind_checks`, `blind_non_last`, `blind_last`, the scalar list on the
  wire, `ValueBlindingFactor::{last,+=,neg}` as coded).  Scalars are an arbitrary commutative ring
  `R` here; the driver runs the same definitions with `R := Fin n` (n = secp256k1 group order), for
  which `Fin.instCommRing` supplies exactly the core instances it uses (`driver_scalars_*`).
  EC points do not occur: `commit` lives in an arbitrary `R`-module with abstract generators.

  Notation: `term s = s.value * s.abf + s.vbf`, `sumTerms l = Σ term`, `outTermSum st` = Σ term over
  the secrets inside the outputs' commitments (explicit outputs count 0).
-/
import EV.Proofs.PsetBlind
import EV.Model.PsetBlindZn
import Mathlib.Data.ZMod.Defs
namespace EV.Props.C09
open EV EV.PsetBlind

section Generic
variable {R : Type} [CommRing R]

/-! ### the scalar layer -/

/-- Σ term does not depend on the order in which a `HashMap` iterates the supplied secrets -/
theorem sum_perm {l₁ l₂ : List (Secret R)} (h : l₁.Perm l₂) : sumTerms l₁ = sumTerms l₂ :=
  sumTerms_perm h

/-- `ValueBlindingFactor::last` (the libsecp loop as coded, with the placeholder trick of the Rust
    wrapper) is Σ_a term − Σ_b term − value·abf -/
theorem last_vbf_formula (value : Nat) (abf : R) (ins outs : List (Secret R)) :
    lastVbf value abf ins outs = sumTerms ins - sumTerms outs - (value : R) * abf :=
  lastVbf_eq value abf ins outs

/-- … hence invariant under reordering both sets -/
theorem last_vbf_perm (value : Nat) (abf : R) {ins ins' outs outs' : List (Secret R)}
    (hi : ins.Perm ins') (ho : outs.Perm outs') :
    lastVbf value abf ins outs = lastVbf value abf ins' outs' := by
  rw [lastVbf_eq, lastVbf_eq, sumTerms_perm hi, sumTerms_perm ho]

/-- the last output then carries exactly the imbalance: its term is Σ_a term − Σ_b term -/
theorem last_vbf_balances (asset value : Nat) (abf : R) (ins outs : List (Secret R)) :
    sumTerms ins = sumTerms (outs ++ [⟨asset, value, abf, lastVbf value abf ins outs⟩]) := by
  simp [lastVbf_eq, term]

variable [DecidableEq R]

/-- `impl AddAssign for ValueBlindingFactor` with its zero special cases is ring addition -/
theorem vbf_add_is_ring_add (a b : R) : vbfAdd a b = a + b := vbfAdd_eq a b
/-- `impl Neg for ValueBlindingFactor` is ring negation -/
theorem vbf_neg_is_ring_neg (a : R) : vbfNeg a = -a := vbfNeg_eq a

/-! ### `blind_checks` -/

/-- a blinded issuance (or one without the `blinded_issuance = 0` marker) stops both blinders -/
theorem issuance_blocks (st : St R) (sup : Supplied R) (rand : Nat → R × R)
    (h : ∃ i ∈ st.inputs, i.hasIssuance = true ∧ i.blindedIssuance.getD 1 = 1) :
    nonLast st sup rand = .err "Issuance" ∧ blindLast st sup rand = .err "Issuance" := by
  have hb : issuanceBlocked st.inputs = true := (issuanceBlocked_iff _).2 h
  simp [nonLast, blindLast, blindChecks, hb]

/-- `BlinderIndexOutOfBounds`: an output with a blinding key and an index ≥ #inputs -/
theorem blinder_index_out_of_bounds (st : St R) (sup : Supplied R) (rand : Nat → R × R)
    (hiss : issuanceBlocked st.inputs = false)
    (h : ∃ o ∈ st.outputs, o.hasKey = true ∧ ∃ b, o.blinderIndex = some b ∧ st.inputs.length ≤ b) :
    nonLast st sup rand = .err "Index" ∧ blindLast st sup rand = .err "Index" := by
  rcases selectOuts_result st.inputs.length sup 0 st.outputs with ⟨l, _, hall⟩ | ⟨he, _⟩
  · obtain ⟨o, ho, hk, b, hb, hge⟩ := h
    have := hall o ho hk b hb
    omega
  · simp [nonLast, blindLast, blindChecks, hiss, he]

/-- which outputs a party blinds: exactly those with a blinding key whose blinder index it owns,
    in ascending order -/
theorem selection_rule {st : St R} {sup : Supplied R} {sel : List Nat}
    (h : selectOuts st.inputs.length sup 0 st.outputs = .ok sel) :
    (∀ i, i ∈ sel ↔ ∃ o, st.outputs[i]? = some o ∧ Selected sup o) ∧ sel.Pairwise (· < ·) := by
  obtain ⟨h1, h2, _⟩ := selectOuts_spec h
  refine ⟨fun i => ?_, h2⟩
  rw [h1]
  constructor
  · rintro ⟨j, o, hj, hg, hs⟩
    have : j = i := by omega
    subst this
    exact ⟨o, hg, hs⟩
  · rintro ⟨o, hg, hs⟩
    exact ⟨i, o, by omega, hg, hs⟩

/-- non-last blinder with nothing to blind: `Ok(empty)`, PSET untouched, no scalar published -/
theorem nonlast_nothing_to_blind (st : St R) (sup : Supplied R) (rand : Nat → R × R)
    (hiss : issuanceBlocked st.inputs = false)
    (h : selectOuts st.inputs.length sup 0 st.outputs = .ok []) :
    nonLast st sup rand = .ok (st, []) := by
  simp [nonLast, blindChecks, hiss, h]

/-- last blinder with nothing to blind: `AtleastOneOutputBlind` -/
theorem last_needs_an_output (st : St R) (sup : Supplied R) (rand : Nat → R × R)
    (hiss : issuanceBlocked st.inputs = false)
    (h : selectOuts st.inputs.length sup 0 st.outputs = .ok []) :
    blindLast st sup rand = .err "NoOutput" := by
  simp [blindLast, blindChecks, hiss, h]

/-! ### one non-last step -/

/-- for ANY random choices, a successful non-last step that blinds the outputs `sel ≠ []` appends
    exactly one scalar, Σ_{supplied inputs} term − Σ_{outputs blinded now} term, returns the
    random factors it used, fills all seven blinding fields of the selected outputs and touches
    no other output -/
theorem nonlast_scalar {st st' : St R} {sup : Supplied R} {rand : Nat → R × R} {ret : List (Nat × R × R)}
    (h : nonLast st sup rand = .ok (st', ret)) (hinv : Inv st.outputs) :
    ∃ sel, selectOuts st.inputs.length sup 0 st.outputs = .ok sel ∧
      ret = sel.map (fun i => (i, (rand i).1, (rand i).2)) ∧
      (sel = [] → st' = st) ∧
      (sel ≠ [] → st'.scalars = st.scalars ++
          [sumTerms (inpSecrets sup) - sumTerms (sel.map (secretAt st.outputs rand))]) ∧
      (∀ j ∈ sel, ∃ o' : Out R, st'.outputs[j]? = some o' ∧ o'.Full) ∧
      (∀ j, j ∉ sel → st'.outputs[j]? = st.outputs[j]?) := by
  obtain ⟨sel, h1, _, _, _, h5, h6, h7, h8, h9⟩ := nonLast_spec h hinv
  exact ⟨sel, h1, h7, h8, fun hne => (h9 hne).1, h5, h6⟩

/-! ### any sequence of non-last blinders, with hops -/

/-- `scalar_invariant`: after any sequence of non-last blinders and serialize/deserialize hops in
    which every blinder has at least one output to blind,
      Σ scalars' = Σ scalars + Σ_P Σ_{I_P} term − (terms newly put into outputs).
    No disjointness hypothesis is needed: the code refuses to blind an output twice
    (`ExpectedExplicitValue`), so a successful run never double counts. -/
theorem scalar_invariant {steps : List (Step R)} {st st' : St R}
    (hpre : ∀ s ∈ steps, s.isPre) (h : runFlow st steps = .ok st') (hinv : Inv st.outputs)
    (hact : ∀ sup rand, Step.nonLast sup rand ∈ steps →
      ∃ (j : Nat) (o : Out R), st.outputs[j]? = some o ∧ Selected sup o) :
    st'.scalars.sum =
      st.scalars.sum + (steps.map Step.terms).sum - (outTermSum st' - outTermSum st) := by
  have := (pre_invariant hpre h hinv hact).2.2.2.1
  linear_combination this

/-- `scalar_invariant_perm`: the carried quantity Σ scalars + Σ blinded-output terms does not
    depend on the order of the non-last blinders -/
theorem scalar_invariant_perm {steps₁ steps₂ : List (Step R)} {st st₁ st₂ : St R}
    (hperm : steps₁.Perm steps₂)
    (hpre : ∀ s ∈ steps₁, s.isPre) (hinv : Inv st.outputs)
    (hact : ∀ sup rand, Step.nonLast sup rand ∈ steps₁ →
      ∃ (j : Nat) (o : Out R), st.outputs[j]? = some o ∧ Selected sup o)
    (h₁ : runFlow st steps₁ = .ok st₁) (h₂ : runFlow st steps₂ = .ok st₂) :
    st₁.scalars.sum + outTermSum st₁ = st₂.scalars.sum + outTermSum st₂ := by
  have a := (pre_invariant hpre h₁ hinv hact).2.2.2.1
  have b := (pre_invariant (fun s hs => hpre s (hperm.mem_iff.2 hs)) h₂ hinv
    (fun sup rand hm => hact sup rand (hperm.mem_iff.2 hm))).2.2.2.1
  rw [a, b, (hperm.map Step.terms).sum_eq]

/-! ### the whole flow -/

/-- `last_balances`: any sequence of non-last blinders and hops, then the last blinder (one or
    several outputs — both code paths).  If every non-last party has an output to blind and the
    outputs of the last party are not claimed by another party, then after a successful run the
    scalar list is empty and the terms inside the outputs equal what was there before plus the
    terms of all supplied input secrets. -/
theorem last_balances {pre : List (Step R)} {st0 st' : St R} {supL : Supplied R} {randL : Nat → R × R}
    (hpre : ∀ s ∈ pre, s.isPre) (hinv : Inv st0.outputs)
    (hact : ∀ sup rand, Step.nonLast sup rand ∈ pre →
      ∃ (j : Nat) (o : Out R), st0.outputs[j]? = some o ∧ Selected sup o)
    (hdisj : ∀ sup rand, Step.nonLast sup rand ∈ pre → ∀ o ∈ st0.outputs, Selected supL o → ¬ Selected sup o)
    (hfresh : ∀ o ∈ st0.outputs, Selected supL o → o.secrets = none)
    (h : runFlow st0 (pre ++ [Step.last supL randL]) = .ok st') :
    st'.scalars = [] ∧
    outTermSum st' =
      outTermSum st0 + st0.scalars.sum + (pre.map Step.terms).sum + sumTerms (inpSecrets supL) :=
  let ⟨a, b, _, _⟩ := flow_spec hpre hinv hact hdisj hfresh h
  ⟨a, b⟩

/-- the secrets a step supplies -/
def Step.supplied : Step R → List (Secret R)
  | .nonLast sup _ => inpSecrets sup
  | .last sup _ => inpSecrets sup
  | .hop => []

theorem terms_eq_supplied (l : List (Step R)) :
    (l.map Step.terms).sum = sumTerms (l.flatMap Step.supplied) := by
  induction l with
  | nil => simp
  | cons s rest ih =>
    cases s <;> simp [Step.terms, Step.supplied, ih]

/-- `last_balances` on an unblinded PSET, against ALL inputs of the transaction: if the parties'
    supplied secrets together with inputs of zero term (explicit ones nobody needs to supply) are
    the inputs, Σ_in term = Σ_out term. -/
theorem last_balances_all_inputs {pre : List (Step R)} {st0 st' : St R} {supL : Supplied R}
    {randL : Nat → R × R} (allIns zeros : List (Secret R))
    (hpre : ∀ s ∈ pre, s.isPre)
    (hnew : ∀ o ∈ st0.outputs, o.secrets = none) (hsc : st0.scalars = [])
    (hact : ∀ sup rand, Step.nonLast sup rand ∈ pre →
      ∃ (j : Nat) (o : Out R), st0.outputs[j]? = some o ∧ Selected sup o)
    (hdisj : ∀ sup rand, Step.nonLast sup rand ∈ pre → ∀ o ∈ st0.outputs, Selected supL o → ¬ Selected sup o)
    (hall : allIns.Perm (pre.flatMap Step.supplied ++ inpSecrets supL ++ zeros))
    (hz : ∀ z ∈ zeros, term z = 0)
    (h : runFlow st0 (pre ++ [Step.last supL randL]) = .ok st') :
    st'.scalars = [] ∧ sumTerms allIns = outTermSum st' := by
  have hinv : Inv st0.outputs := fun o ho _ => hnew o ho
  obtain ⟨a, b⟩ := last_balances hpre hinv hact hdisj (fun o ho _ => hnew o ho) h
  refine ⟨a, ?_⟩
  have h0 : outTermSum st0 = 0 := by
    unfold outTermSum sumTerms
    apply List.sum_eq_zero
    intro x hx
    simp only [List.mem_map] at hx
    obtain ⟨s, ⟨o, ho, rfl⟩, rfl⟩ := hx
    exact term_outSecret_of_none (hnew o ho)
  have hzs : sumTerms zeros = 0 := by
    unfold sumTerms
    apply List.sum_eq_zero
    intro x hx
    simp only [List.mem_map] at hx
    obtain ⟨z, hz', rfl⟩ := hx
    exact hz z hz'
  rw [b, h0, hsc, sumTerms_perm hall, sumTerms_append, sumTerms_append, hzs, terms_eq_supplied]
  simp

/-- `all_marked_fully_blinded`: after a successful flow every output with a blinding key and a
    blinder index owned by one of the parties has all blinding fields set (amount commitment,
    asset commitment, ECDH key, range proof, surjection proof — `is_fully_blinded` — and the two
    explicit proofs); marks (key, index, explicit amount and asset) are unchanged -/
theorem all_marked_fully_blinded {pre : List (Step R)} {st0 st' : St R} {supL : Supplied R}
    {randL : Nat → R × R}
    (hpre : ∀ s ∈ pre, s.isPre) (hinv : Inv st0.outputs)
    (hact : ∀ sup rand, Step.nonLast sup rand ∈ pre →
      ∃ (j : Nat) (o : Out R), st0.outputs[j]? = some o ∧ Selected sup o)
    (hdisj : ∀ sup rand, Step.nonLast sup rand ∈ pre → ∀ o ∈ st0.outputs, Selected supL o → ¬ Selected sup o)
    (hfresh : ∀ o ∈ st0.outputs, Selected supL o → o.secrets = none)
    (h : runFlow st0 (pre ++ [Step.last supL randL]) = .ok st')
    (j : Nat) (o : Out R) (ho : st0.outputs[j]? = some o) (hk : o.hasKey = true)
    (b : Nat) (hb : o.blinderIndex = some b)
    (hown : owns supL b = true ∨ ∃ sup rand, Step.nonLast sup rand ∈ pre ∧ owns sup b = true) :
    ∃ o' : Out R, st'.outputs[j]? = some o' ∧ o'.isFullyBlinded = true ∧ o'.Full ∧
      o'.valueProof = true ∧ o'.assetProof = true ∧ o.SameMarks o' := by
  obtain ⟨_, _, hle, hfull⟩ := flow_spec hpre hinv hact hdisj hfresh h
  have hsel : Selected supL o ∨ ∃ sup rand, Step.nonLast sup rand ∈ pre ∧ Selected sup o := by
    rcases hown with h | ⟨sup, rand, hm, h⟩
    · exact Or.inl ⟨hk, b, hb, h⟩
    · exact Or.inr ⟨sup, rand, hm, hk, b, hb, h⟩
  obtain ⟨o', ho', hf⟩ := hfull j o ho hsel
  have hmarks := (hle.2 j o o' ho ho').1
  exact ⟨o', ho', hf.isFullyBlinded (by rw [hmarks.1]; exact hk), hf, hf.2.2.2.2.2.1, hf.2.2.2.2.2.2, hmarks⟩

/-! ### every order succeeds, and the order does not matter -/

/-- `flow_succeeds`: on a well-formed PSET (`StaticOk`: no blinded issuance, all UTXOs present,
    blinder indices in range, explicit amounts on unmarked outputs) where every party's outputs
    pass the per-output checks (`PartyOk`: explicit non-zero amount and asset, no commitments yet,
    an address-like script, asset held by the party), parties claim pairwise disjoint outputs and
    the last party has at least one, the flow runs to completion in EVERY order of the non-last
    blinders and wherever the hops are — the only other outcome is a hop meeting two equal
    scalars (`DuplicateKey`).  (Creation of the zero-knowledge proofs is assumed to succeed.) -/
theorem flow_succeeds {pre : List (Step R)} {st0 : St R} {supL : Supplied R} (randL : Nat → R × R)
    (hpre : ∀ s ∈ pre, s.isPre) (hs : StaticOk st0) (hinv : Inv st0.outputs)
    (hok : ∀ sup rand, Step.nonLast sup rand ∈ pre → PartyOk st0.inputs st0.outputs sup)
    (hokL : PartyOk st0.inputs st0.outputs supL)
    (hdis : StepsDisjoint st0.outputs pre)
    (hdisL : ∀ sup rand, Step.nonLast sup rand ∈ pre → DisjointSel st0.outputs sup supL)
    (hex : ∃ o ∈ st0.outputs, Selected supL o) :
    (∃ st', runFlow st0 (pre ++ [Step.last supL randL]) = .ok st') ∨
    runFlow st0 (pre ++ [Step.last supL randL]) = .err "DuplicateKey" :=
  flow_total randL hpre hs hinv hok hokL hdis hdisL hex

/-- `nonlast_order_independent`: two successful runs of the same non-last blinders (each with its
    own random choices) in different orders end with the same inputs and outputs and the same
    scalars up to their order in the list -/
theorem nonlast_order_independent {steps₁ steps₂ : List (Step R)} {st st₁ st₂ : St R}
    (hperm : steps₁.Perm steps₂) (hpre : ∀ s ∈ steps₁, s.isPre) (hinv : Inv st.outputs)
    (hdis : StepsDisjoint st.outputs steps₁)
    (h₁ : runFlow st steps₁ = .ok st₁) (h₂ : runFlow st steps₂ = .ok st₂) :
    st₁.inputs = st₂.inputs ∧ st₁.outputs = st₂.outputs ∧ st₁.scalars.Perm st₂.scalars := by
  have hpre₂ : ∀ s ∈ steps₂, s.isPre := fun s hs => hpre s (hperm.mem_iff.2 hs)
  have hdis₂ : StepsDisjoint st.outputs steps₂ := by
    refine (hperm.pairwise_iff ?_).1 hdis
    intro x y hxy sup rand sup' rand' e1 e2 o ho h1 h2
    exact hxy sup' rand' sup rand e2 e1 o ho h2 h1
  obtain ⟨a1, a2⟩ := pre_exact hpre h₁ hinv hdis
  obtain ⟨b1, b2⟩ := pre_exact hpre₂ h₂ hinv hdis₂
  obtain ⟨c1, c2, _, c4⟩ := pre_struct hpre h₁ hinv
  obtain ⟨d1, d2, _, d4⟩ := pre_struct hpre₂ h₂ hinv
  refine ⟨c1.trans d1.symm, ?_, ?_⟩
  · apply List.ext_getElem?
    intro j
    by_cases hex : ∃ sup rand o, Step.nonLast sup rand ∈ steps₁ ∧ st.outputs[j]? = some o ∧ Selected sup o
    · obtain ⟨sup, rand, o, hm, ho, hso⟩ := hex
      rw [a2 sup rand hm j o ho hso, b2 sup rand (hperm.mem_iff.1 hm) j o ho hso]
    · have hun : ∀ sup rand, Step.nonLast sup rand ∈ steps₁ → ∀ o : Out R, st.outputs[j]? = some o →
          ¬ Selected sup o := fun sup rand hm o ho hso => hex ⟨sup, rand, o, hm, ho, hso⟩
      rw [c4 j hun, d4 j (fun sup rand hm => hun sup rand (hperm.mem_iff.2 hm))]
  · rw [a1, b1]
    exact (hperm.flatMap_right _).append_left _

/-- `flow_order_independent`: the finished PSET does not depend on the order in which the non-last
    blinders ran (nor on where the hops were): two successful complete flows with the same
    parties and the same random choices end in the SAME state — same commitments' secrets in every
    output, in particular the same balancing vbf of the last blinder -/
theorem flow_order_independent {pre₁ pre₂ : List (Step R)} {st0 st₁ st₂ : St R} {supL : Supplied R}
    {randL : Nat → R × R}
    (hperm : pre₁.Perm pre₂) (hpre : ∀ s ∈ pre₁, s.isPre) (hinv : Inv st0.outputs)
    (hdis : StepsDisjoint st0.outputs pre₁)
    (h₁ : runFlow st0 (pre₁ ++ [Step.last supL randL]) = .ok st₁)
    (h₂ : runFlow st0 (pre₂ ++ [Step.last supL randL]) = .ok st₂) :
    st₁ = st₂ := by
  rw [runFlow_append] at h₁ h₂
  split at h₁
  · next a ha =>
    split at h₂
    · next b hb =>
      obtain ⟨e1, e2, e3⟩ := nonlast_order_independent hperm hpre hinv hdis ha hb
      simp only [runFlow, runStep] at h₁ h₂
      split at h₁
      · next a' hsa =>
        simp only [Res.ok.injEq] at h₁
        subst h₁
        split at hsa
        · next st' ret hbl =>
          simp only [Res.ok.injEq] at hsa
          subst hsa
          have hbeq : b = { a with scalars := b.scalars } := by
            cases a; cases b; simp_all
          have := blindLast_scalars b.scalars (e3.symm.sum_eq) hbl
          rw [← hbeq] at this
          rw [this] at h₂
          simp only [Res.ok.injEq] at h₂
          exact h₂
        · cases hsa
        · cases hsa
      · cases h₁
      · cases h₁
    · cases h₂
    · cases h₂
  · cases h₁
  · cases h₁

/-! ### no panic -/

/-- the blinders never panic: the index and `unwrap` sites of `blind_non_last` / `blind_last`
    (`outputs[i]`, `out_secrets.pop().unwrap()`, `outputs[last_out_index]`) are unreachable, for
    every PSET state, every supplied map and all random choices — and so is every step of a flow -/
theorem blinders_never_panic (st : St R) (sup : Supplied R) (rand : Nat → R × R) (p : String) :
    nonLast st sup rand ≠ .panic p ∧ blindLast st sup rand ≠ .panic p :=
  ⟨nonLast_no_panic st sup rand p, blindLast_no_panic st sup rand p⟩

theorem flow_never_panics (steps : List (Step R)) (st : St R) (p : String) :
    runFlow st steps ≠ .panic p := runFlow_no_panic steps st p

/-! ### the scalar list on the wire -/

/-- `hop_preserves`: serialize → deserialize keeps the scalar list (and everything else) when the
    scalars are pairwise distinct -/
theorem hop_preserves (st : St R) (h : st.scalars.Nodup) : hop st = .ok st := by
  unfold hop
  rw [decodeScalars_of_nodup (by simpa using h)]
  simp

/-- … and fails with `DuplicateKey` otherwise: two parties publishing the same scalar cannot be
    represented (each scalar is a map KEY) -/
theorem hop_duplicate_rejected (st : St R) (h : ¬ st.scalars.Nodup) : hop st = .err "DuplicateKey" := by
  unfold hop
  rw [decodeScalars_of_dup List.nodup_nil (by simpa using h)]

/-- a hop that succeeds changes nothing (in particular not the sum of the scalars) -/
theorem hop_ok_identity {st st' : St R} (h : hop st = .ok st') : st' = st := hop_ok h

/-! ### from scalars to commitments -/

variable {M : Type} [AddCommGroup M] [Module R M]

/-- Pedersen commitment `v·(H_asset + abf·G) + vbf·G` with abstract generators -/
def commit (G : M) (H : Nat → M) (s : Secret R) : M :=
  (s.value : R) • (H s.asset + s.abf • G) + s.vbf • G

omit [DecidableEq R] in
theorem commit_eq (G : M) (H : Nat → M) (s : Secret R) :
    commit G H s = (s.value : R) • H s.asset + term s • G := by
  simp only [commit, term, smul_add, add_smul, mul_smul]
  abel

omit [DecidableEq R] in
theorem sum_commit (G : M) (H : Nat → M) (l : List (Secret R)) :
    (l.map (commit G H)).sum = (l.map fun s => (s.value : R) • H s.asset).sum + sumTerms l • G := by
  induction l with
  | nil => simp
  | cons s rest ih =>
    simp only [List.map_cons, List.sum_cons, ih, commit_eq, sumTerms_cons, add_smul]
    abel

omit [DecidableEq R] in
/-- `balanced_commitments`: per-asset balance of the amounts (as the tag-weighted sums) and balance
    of the terms make the commitments balance — what `verify_tx_amt_proofs` checks -/
theorem balanced_commitments (G : M) (H : Nat → M) (ins outs : List (Secret R))
    (hamt : (ins.map fun s => (s.value : R) • H s.asset).sum =
            (outs.map fun s => (s.value : R) • H s.asset).sum)
    (hterm : sumTerms ins = sumTerms outs) :
    (ins.map (commit G H)).sum = (outs.map (commit G H)).sum := by
  rw [sum_commit, sum_commit, hamt, hterm]

/-- the end-to-end statement: after a successful honest flow on an unblinded PSET whose amounts
    balance per asset, the commitments of the extracted transaction's outputs sum to the
    commitments of the inputs -/
theorem flow_commitments_balance {pre : List (Step R)} {st0 st' : St R} {supL : Supplied R}
    {randL : Nat → R × R} (allIns zeros : List (Secret R)) (G : M) (H : Nat → M)
    (hpre : ∀ s ∈ pre, s.isPre)
    (hnew : ∀ o ∈ st0.outputs, o.secrets = none) (hsc : st0.scalars = [])
    (hact : ∀ sup rand, Step.nonLast sup rand ∈ pre →
      ∃ (j : Nat) (o : Out R), st0.outputs[j]? = some o ∧ Selected sup o)
    (hdisj : ∀ sup rand, Step.nonLast sup rand ∈ pre → ∀ o ∈ st0.outputs, Selected supL o → ¬ Selected sup o)
    (hall : allIns.Perm (pre.flatMap Step.supplied ++ inpSecrets supL ++ zeros))
    (hz : ∀ z ∈ zeros, term z = 0)
    (h : runFlow st0 (pre ++ [Step.last supL randL]) = .ok st')
    (hamt : (allIns.map fun s => (s.value : R) • H s.asset).sum =
            ((st'.outputs.map outSecret).map fun s => (s.value : R) • H s.asset).sum) :
    (allIns.map (commit G H)).sum = ((st'.outputs.map outSecret).map (commit G H)).sum :=
  balanced_commitments G H _ _ hamt
    (last_balances_all_inputs allIns zeros hpre hnew hsc hact hdisj hall hz h).2

end Generic

/-! ### the driver's scalar type -/

/-- the instances the compiled driver uses on `Fin n` are the ones of Mathlib's commutative ring
    structure on `Fin n`, so every theorem above applies verbatim to what the driver computes -/
theorem driver_scalars_add : (Fin.instCommRing Secp.n).toAdd = (inferInstance : Add Zn) := rfl
theorem driver_scalars_mul : (Fin.instCommRing Secp.n).toMul = (inferInstance : Mul Zn) := rfl
theorem driver_scalars_neg : (Fin.instCommRing Secp.n).toNeg = (inferInstance : Neg Zn) := rfl
theorem driver_scalars_zero : (Fin.instCommRing Secp.n).toZero = (inferInstance : Zero Zn) := rfl
theorem driver_scalars_natCast : (Fin.instCommRing Secp.n).toNatCast = instNatCastZn := rfl

/-- e.g. the driver's `psetblind.last` op computes Σ_a − Σ_b − value·abf modulo n -/
theorem driver_last_vbf (value : Nat) (abf : Zn) (ins outs : List (Secret Zn)) :
    lastVbf value abf ins outs = sumTerms ins - sumTerms outs - (value : Zn) * abf :=
  @last_vbf_formula Zn (Fin.instCommRing Secp.n) value abf ins outs

/-! ### non-vacuity: a two-party flow over ℤ (party A: input 0, outputs 0 and 1; party B: input 1,
    output 2; one explicit output and a hop in between) runs and balances -/

def exSt : St ℤ :=
  { inputs := [⟨true, false, none, []⟩, ⟨true, false, none, []⟩],
    outputs := [
      { amount := some 30, asset := some 0, hasKey := true, blinderIndex := some 0, addressable := true },
      { amount := some 60, asset := some 0, hasKey := true, blinderIndex := some 0, addressable := true },
      { amount := some 45, asset := some 1, hasKey := true, blinderIndex := some 1, addressable := true },
      { amount := some 10, asset := some 0, hasKey := false, blinderIndex := none, addressable := false },
      { amount := some 5, asset := some 1, hasKey := false, blinderIndex := none, addressable := true }],
    scalars := [] }
def exA : Supplied ℤ := [(0, ⟨0, 100, 7, 11⟩)]
def exB : Supplied ℤ := [(1, ⟨1, 50, 3, 5⟩)]
def exRand : Nat → ℤ × ℤ := fun i => (2 * i + 1, 3 * i + 2)

example : ∃ st', runFlow exSt [.nonLast exB exRand, .hop, .last exA exRand] = .ok st' ∧
    st'.scalars = [] ∧ outTermSum st' = sumTerms (inpSecrets exA) + sumTerms (inpSecrets exB) := by
  refine ⟨_, rfl, rfl, ?_⟩
  decide

example : ∃ st', runFlow exSt [.nonLast exA exRand, .hop, .last exB exRand] = .ok st' ∧
    st'.scalars = [] ∧ outTermSum st' = sumTerms (inpSecrets exA) + sumTerms (inpSecrets exB) := by
  refine ⟨_, rfl, rfl, ?_⟩
  decide

end EV.Props.C09
