/-
  C14 — merging PSETs never loses information, never panics, and is order-insensitive.

  Model: EV.Model.Pset (`merge` of global / input / output / whole PSET as coded: unique-id gate,
  `BTreeMap::extend`, `merge!`, scalar union, flag OR, version max, lock-time max, xpub key-source
  reconciliation with its index arithmetic).  Maps are strictly key-sorted association lists
  (`Sorted`, what a `BTreeMap` is), so "equal PSET" is plain `=`.
  Proofs: EV.Proofs.PsetMap, PsetMerge (per-field text generated from tools/gen_pset_fields.py),
  PsetMergeTop, PsetId.
-/
import EV.Proofs.PsetMergeTop
import EV.Proofs.PsetMergeId
import EV.Proofs.PsetSourceTie
namespace EV.Props.C14
open EV EV.Codec EV.Proofs.PsetId

variable (H : Hashes)

/-! ### the gate -/

/-- **PSETs with different unique ids are refused** (`UniqueIdMismatch`) … -/
theorem merge_id_gate (a b : Pset) (u v : Bytes) (ha : a.uniqueId H = .ok u) (hb : b.uniqueId H = .ok v)
    (h : u ≠ v) : Pset.merge H a b = .err "UniqueIdMismatch" :=
  Pset.merge_uid_mismatch H a b u v ha hb h

/-- … both ids must be computable: a PSET without a unique id (count mismatch, lock-time
    conflict, output without asset or value) is never merged, the error returned is `self`'s if
    `self` has none, otherwise `other`'s … -/
theorem merge_id_gate_no_id (a b : Pset) :
    (∀ e, a.uniqueId H = .err e → Pset.merge H a b = .err e) ∧
    (∀ u e, a.uniqueId H = .ok u → b.uniqueId H = .err e → Pset.merge H a b = .err e) :=
  ⟨fun e h => Pset.merge_uid_err_left H a b e h, fun u e h1 h2 => Pset.merge_uid_err_right H a b u e h1 h2⟩

/-- … so whenever the two `unique_id()` results differ the merge is an error … -/
theorem merge_id_gate_ne (a b : Pset) (h : a.uniqueId H ≠ b.uniqueId H) : ∃ e, Pset.merge H a b = .err e :=
  Pset.merge_of_uid_ne H a b h

/-- … and with two equal ids the merge proceeds: nothing else is compared (not the counts, not the
    number of inputs or outputs) -/
theorem merge_id_gate_eq (a b : Pset) (u : Bytes) (ha : a.uniqueId H = .ok u) (hb : b.uniqueId H = .ok u) :
    Pset.merge H a b = a.mergeCore b :=
  Pset.merge_of_uid_eq H a b u ha hb

/-- a successful merge passed the gate: both operands have the same, existing, unique id -/
theorem merge_ok_passed_gate (a b m : Pset) (h : Pset.merge H a b = .ok m) :
    ∃ u, a.uniqueId H = .ok u ∧ b.uniqueId H = .ok u := by
  obtain ⟨u, ha, hb, _⟩ := Pset.merge_ok_ids H a b m h
  exact ⟨u, ha, hb⟩

/-- merge never panics (unique ids, the xpub index arithmetic, everything) -/
theorem merge_no_panic (a b : Pset) (s : String) : Pset.merge H a b ≠ .panic s := Pset.merge_no_panic H a b s

/-! ### nothing is lost -/

/-- **after a successful merge every map key of either operand is a key of the result, and every
    optional field present in either operand is present** — for every field of `Global`
    (`PsetGlobal.Keeps`: fallback lock time, xpub, scalars, proprietary, unknown, elements
    modifiable flag; the tx modifiable flags are OR-ed, the version is the maximum), of every
    `Input` (`PsetInput.Keeps`: all 46 mergeable fields) and of every `Output`
    (`PsetOutput.Keeps`: all 19), position by position. -/
theorem merge_keeps_all (a b m : Pset) (hb : b.Sorted) (h : Pset.merge H a b = .ok m) : Pset.Keeps a b m :=
  Pset.mergeCore_keeps a b m hb (Pset.merge_ok H a b m h).2

/-- the per-input statement spelled out for the fields the property names -/
theorem merge_keeps_input_fields (x y : PsetInput) (hy : y.Sorted) :
    (∀ k, (k ∈ KV.keys x.partialSigs ∨ k ∈ KV.keys y.partialSigs) → k ∈ KV.keys (x.merge y).partialSigs) ∧
    (∀ k, (k ∈ KV.keys x.tapScriptSigs ∨ k ∈ KV.keys y.tapScriptSigs) → k ∈ KV.keys (x.merge y).tapScriptSigs) ∧
    (∀ k, (k ∈ KV.keys x.tapScripts ∨ k ∈ KV.keys y.tapScripts) → k ∈ KV.keys (x.merge y).tapScripts) ∧
    (∀ k, (k ∈ KV.keys x.bip32Derivation ∨ k ∈ KV.keys y.bip32Derivation) → k ∈ KV.keys (x.merge y).bip32Derivation) ∧
    (∀ k, (k ∈ KV.keys x.tapKeyOrigins ∨ k ∈ KV.keys y.tapKeyOrigins) → k ∈ KV.keys (x.merge y).tapKeyOrigins) ∧
    (∀ k, (k ∈ KV.keys x.sha256Preimages ∨ k ∈ KV.keys y.sha256Preimages) → k ∈ KV.keys (x.merge y).sha256Preimages) ∧
    (∀ k, (k ∈ KV.keys x.proprietary ∨ k ∈ KV.keys y.proprietary) → k ∈ KV.keys (x.merge y).proprietary) ∧
    (∀ k, (k ∈ KV.keys x.unknown ∨ k ∈ KV.keys y.unknown) → k ∈ KV.keys (x.merge y).unknown) ∧
    ((x.sighashType.isSome ∨ y.sighashType.isSome) → (x.merge y).sighashType.isSome) ∧
    ((x.sequence.isSome ∨ y.sequence.isSome) → (x.merge y).sequence.isSome) ∧
    ((x.nonWitnessUtxo.isSome ∨ y.nonWitnessUtxo.isSome) → (x.merge y).nonWitnessUtxo.isSome) ∧
    ((x.witnessUtxo.isSome ∨ y.witnessUtxo.isSome) → (x.merge y).witnessUtxo.isSome) ∧
    ((x.finalScriptSig.isSome ∨ y.finalScriptSig.isSome) → (x.merge y).finalScriptSig.isSome) ∧
    ((x.finalScriptWitness.isSome ∨ y.finalScriptWitness.isSome) → (x.merge y).finalScriptWitness.isSome) :=
  let k := PsetInput.merge_keeps x y hy
  ⟨k.partialSigs, k.tapScriptSigs, k.tapScripts, k.bip32Derivation, k.tapKeyOrigins, k.sha256Preimages, k.proprietary,
   k.unknown, k.sighashType, k.sequence, k.nonWitnessUtxo, k.witnessUtxo, k.finalScriptSig, k.finalScriptWitness⟩

/-- and the values: the result's value under a key is the other operand's if it has one, else
    self's (`BTreeMap::extend`); an optional field is self's if present, else the other's (`merge!`) -/
theorem merge_values (x y : PsetInput) (hy : y.Sorted) (k : Bytes) :
    KV.lookup k (x.merge y).partialSigs = mergeOpt (KV.lookup k y.partialSigs) (KV.lookup k x.partialSigs) ∧
    (x.merge y).redeemScript = mergeOpt x.redeemScript y.redeemScript :=
  ⟨KV.lookup_extend _ _ hy.1 k, rfl⟩

/-- the maps of the result are again sorted and duplicate-free -/
theorem merge_sorted (a b m : Pset) (ha : a.Sorted) (h : Pset.merge H a b = .ok m) : m.Sorted :=
  Pset.mergeCore_sorted a b m ha (Pset.merge_ok H a b m h).2

/-- **the fallback lock time is kept** (regression of finding F15fallback): present in either
    operand ⇒ present in the result, self's value first -/
theorem merge_keeps_fallback_locktime (a b m : Pset) (h : Pset.merge H a b = .ok m) :
    m.global.fallbackLocktime = mergeOpt a.global.fallbackLocktime b.global.fallbackLocktime ∧
    ((a.global.fallbackLocktime.isSome ∨ b.global.fallbackLocktime.isSome) → m.global.fallbackLocktime.isSome) := by
  have hg := (Pset.mergeCore_ok a b m (Pset.merge_ok H a b m h).2).1
  have h2 := (EV.Proofs.PsetMergeId.global_merge_idEq _ _ _ hg).2.1
  exact ⟨h2, fun hs => by rw [h2]; exact mergeOpt_isSome _ _ hs⟩

def p0 : Pset := { global := { inputCount := 1 }, inputs := [{ requiredHeightLocktime := some 100 }] }

/-- the former counterexample: two PSETs with the same unique id (the input fixes the lock time),
    only the other one carrying a fallback lock time: the result carries it -/
theorem merge_fallback_locktime_example :
    let a := p0
    let b : Pset := { p0 with global := { p0.global with fallbackLocktime := some 77 } }
    ∃ m, Pset.merge H a b = .ok m ∧ m.global.fallbackLocktime = some 77 := by
  intro a b
  have hid : idTx a = idTx b := by decide
  obtain ⟨t, ht⟩ := ok_of_isOk (idTx a) (by decide)
  have ha : a.uniqueId H = .ok (t.txid H) := by rw [uniqueId_eq, ht]
  have hb : b.uniqueId H = .ok (t.txid H) := by rw [uniqueId_eq, ← hid, ht]
  rw [Pset.merge_of_uid_eq H a b _ ha hb]
  exact ⟨_, rfl, rfl⟩

/-! ### the id is kept -/

/-- **merging two PSETs that describe the same transaction keeps the unique id**: if the
    identifying fields coincide (`Pset.IdEq`, the fields listed in `C08.unique_id_ignores`) the
    result has the unique id of the operands -/
theorem merge_keeps_id (a b m : Pset) (hid : Pset.IdEq a b) (h : Pset.merge H a b = .ok m) :
    m.uniqueId H = a.uniqueId H ∧ m.uniqueId H = b.uniqueId H := by
  have := uniqueId_congr H (Pset.mergeCore_idEq a b m hid (Pset.merge_ok H a b m h).2)
  exact ⟨this, this.trans (uniqueId_congr H hid)⟩

/-- the identifying fields themselves are those of the operands -/
theorem merge_keeps_identifying_fields (a b m : Pset) (hid : Pset.IdEq a b) (h : Pset.merge H a b = .ok m) :
    Pset.IdEq m a :=
  Pset.mergeCore_idEq a b m hid (Pset.merge_ok H a b m h).2

/-- **the same under the weakest usable hypothesis**: the gate has established equal unique ids;
    if in addition the per-input lock-time requirement fields coincide, the result has the unique
    id of the operands or the hash collides (identifying transactions well-formed as in
    `C08.unique_id_commits`).  The identifying *fields* may differ here (e.g. an explicit amount
    present beside the commitment on one side only). -/
theorem merge_keeps_id_of_equal_ids (P : Prims) (hs : EV.Proofs.CodecTx.SizesPos P) (a b m : Pset) (ta tb : Tx)
    (hm : Pset.merge H a b = .ok m) (ha : idTx a = .ok ta) (hb : idTx b = .ok tb)
    (wa : (canon ta).wf P) (wb : (canon tb).wf P) (hl : a.lockReqs = b.lockReqs) :
    m.uniqueId H = a.uniqueId H ∨ Collision H.sha256d :=
  EV.Proofs.PsetMergeId.merge_keeps_id_of_equal_ids P hs H a b m ta tb hm ha hb wa wb hl

def TL : Nat := 500000000
def inT (t : Nat) : PsetInput := { requiredTimeLocktime := some t }
def inTH (t h : Nat) : PsetInput := { requiredTimeLocktime := some t, requiredHeightLocktime := some h }
def lockA : Pset := { global := { inputCount := 2 }, inputs := [inT (TL + 10), inTH (TL + 20) 9] }
def lockB : Pset := { global := { inputCount := 2 }, inputs := [inTH (TL + 10) 7, inT (TL + 20)] }

/-- **negative (finding F16locktime)**: the hypothesis on the lock-time requirement fields cannot
    be weakened to "same unique id": `Input::merge` takes the maxima of the two required lock
    times per input; two PSETs with the *same identifying transaction* (lock time 500000020, a
    time) whose inputs state different requirement sets merge into a PSET in which every input
    supports a height, so its lock time is the height 9: a different transaction, a different id -/
theorem merge_can_change_locktime :
    idTx lockA = idTx lockB ∧ lockA.locktime = .ok (TL + 20) ∧
    ∃ m, Pset.merge H lockA lockB = .ok m ∧ m.locktime = .ok 9 := by
  have hid : idTx lockA = idTx lockB := by decide
  refine ⟨hid, by decide, ?_⟩
  obtain ⟨t, ht⟩ := ok_of_isOk (idTx lockA) (by decide)
  have ha : lockA.uniqueId H = .ok (t.txid H) := by rw [uniqueId_eq, ht]
  have hb : lockB.uniqueId H = .ok (t.txid H) := by rw [uniqueId_eq, ← hid, ht]
  rw [Pset.merge_of_uid_eq H _ _ _ ha hb]
  exact ⟨_, rfl, by decide⟩

/-! ### order-insensitivity -/

/-- **`merge a b = merge b a`** for compatible operands (`Pset.Compat`: equal identifying fields;
    equal values under common map keys and for optional fields present on both sides — exactly
    descendants of a common ancestor by disjoint or identical additions) -/
theorem merge_comm (a b : Pset) (ha : a.Sorted) (hb : b.Sorted) (hc : Pset.Compat a b) :
    Pset.merge H a b = Pset.merge H b a :=
  Pset.merge_comm_top H a b ha hb hc

/-- compatible operands that have a unique id always merge -/
theorem merge_compatible_succeeds (a b : Pset) (u : Bytes) (hu : a.uniqueId H = .ok u) (hb : b.Sorted)
    (hc : Pset.Compat a b) : ∃ m, Pset.merge H a b = .ok m :=
  Pset.merge_of_compat H a b u hu hb hc

/-- **`(a ∪ b) ∪ c = a ∪ (b ∪ c)`**: merge is associative as soon as the three describe the same
    transaction and their xpub key sources agree (no further compatibility is needed: first-present
    -wins, other-wins-on-maps, maxima and unions are associative) -/
theorem merge_assoc (a b c ab bc : Pset) (ha : a.Sorted) (hb : b.Sorted) (hc : c.Sorted)
    (iab : Pset.IdEq a b) (ibc : Pset.IdEq b c)
    (xab : Pset.XpubAgree a b) (xbc : Pset.XpubAgree b c) (xac : Pset.XpubAgree a c)
    (h1 : Pset.merge H a b = .ok ab) (h2 : Pset.merge H b c = .ok bc) :
    Pset.merge H ab c = Pset.merge H a bc :=
  Pset.merge_assoc_top H a b c ab bc ha hb hc iab ibc xab xbc xac h1 h2

/-- the merge of two members of a compatible family is compatible with the others, and sorted:
    the laws above apply again to the intermediate results, for families of any size -/
theorem merge_family_closed (a b c ab : Pset) (ha : a.Sorted) (hb : b.Sorted) (hab : Pset.Compat a b)
    (hac : Pset.Compat a c) (hbc : Pset.Compat b c) (h : Pset.merge H a b = .ok ab) :
    Pset.Compat ab c ∧ ab.Sorted :=
  ⟨Pset.mergeCore_compat a b c ab hb hab hac hbc (Pset.merge_ok H a b ab h).2,
   Pset.mergeCore_sorted a b ab ha (Pset.merge_ok H a b ab h).2⟩

/-- **all merge orders and groupings of a family of three give the same PSET**: the twelve
    expressions (six orders × two groupings) coincide, and succeed (the family has a unique id) -/
theorem merge_family3 {a b c : Pset} (h : Pset.Family3 a b c) (u : Bytes) (hu : a.uniqueId H = .ok u) :
    let L := Pset.mergeL H
    let R := Pset.mergeRt H
    (∃ m, L a b c = .ok m) ∧
    L a c b = L a b c ∧ L b a c = L a b c ∧ L b c a = L a b c ∧ L c a b = L a b c ∧ L c b a = L a b c ∧
    R a b c = L a b c ∧ R a c b = L a b c ∧ R b a c = L a b c ∧ R b c a = L a b c ∧ R c a b = L a b c ∧
    R c b a = L a b c := by
  intro L R
  obtain ⟨ub, uc⟩ := h.uids H u hu
  have e1 : L a c b = L a b c := (Pset.mergeL_swap23 H h u hu).symm
  have e2 : L b a c = L a b c := (Pset.mergeL_swap12 H h).symm
  have e3 : L b c a = L a b c := by
    show Pset.mergeL H b c a = _
    rw [← Pset.mergeL_swap23 H h.swap12 u ub]; exact e2
  have e4 : L c a b = L a b c := by
    show Pset.mergeL H c a b = _
    rw [← Pset.mergeL_swap12 H h.swap23]; exact e1
  have e5 : L c b a = L a b c := by
    show Pset.mergeL H c b a = _
    rw [← Pset.mergeL_swap12 H h.swap12.swap23]; exact e3
  have r1 : R a b c = L a b c := (Pset.mergeL_eq_mergeRt H h u hu).symm
  have r2 : R a c b = L a b c := by
    show Pset.mergeRt H a c b = _
    rw [← Pset.mergeL_eq_mergeRt H h.swap23 u hu]; exact e1
  have r3 : R b a c = L a b c := by
    show Pset.mergeRt H b a c = _
    rw [← Pset.mergeL_eq_mergeRt H h.swap12 u ub]; exact e2
  have r4 : R b c a = L a b c := by
    show Pset.mergeRt H b c a = _
    rw [← Pset.mergeL_eq_mergeRt H h.swap12.swap23 u ub]; exact e3
  have r5 : R c a b = L a b c := by
    show Pset.mergeRt H c a b = _
    rw [← Pset.mergeL_eq_mergeRt H h.swap23.swap12 u uc]; exact e4
  have r6 : R c b a = L a b c := by
    show Pset.mergeRt H c b a = _
    rw [← Pset.mergeL_eq_mergeRt H h.swap12.swap23.swap12 u uc]; exact e5
  refine ⟨?_, e1, e2, e3, e4, e5, r1, r2, r3, r4, r5, r6⟩
  obtain ⟨ab, hab⟩ := Pset.merge_of_compat H a b u hu h.sb h.ab
  have cab := (Pset.merge_ok H a b ab hab).2
  have uab : ab.uniqueId H = .ok u := by
    rw [uniqueId_congr H (Pset.mergeCore_idEq a b ab h.ab.idEq cab)]; exact hu
  obtain ⟨m, hm⟩ := Pset.merge_of_compat H ab c u uab h.sc (Pset.mergeCore_compat a b c ab h.sb h.ab h.ac h.bc cab)
  exact ⟨m, by show Pset.mergeR H (Pset.mergeR H (.ok a) (.ok b)) (.ok c) = _; simp only [Pset.mergeR, hab, hm]⟩

/-! ### global xpub key sources -/

/-- **decision table of the key-source reconciliation**, over all pairs of key sources (`mine` in
    `self`, `theirs` in `other`): equal ⇒ keep; one path a proper suffix of the other (either
    direction) ⇒ the longer one with its fingerprint; otherwise ⇒ `MergeConflict` -/
theorem xpub_reconcile_spec (mine theirs : KeySource) :
    xpubReconcile mine theirs =
      if theirs = mine then .ok mine
      else if ProperSuffix theirs.path mine.path then .ok mine
      else if ProperSuffix mine.path theirs.path then .ok theirs
      else .err "MergeConflict" :=
  xpubReconcile_table mine theirs

/-- the rows named by the property: equal; suffix either way; equal path with different
    fingerprint; equal length but different; unrelated -/
theorem xpub_reconcile_rows (mine theirs : KeySource) :
    (theirs = mine → xpubReconcile mine theirs = .ok mine) ∧
    (ProperSuffix theirs.path mine.path → xpubReconcile mine theirs = .ok mine) ∧
    (ProperSuffix mine.path theirs.path → xpubReconcile mine theirs = .ok theirs) ∧
    (theirs.path = mine.path → theirs.fp ≠ mine.fp → xpubReconcile mine theirs = .err "MergeConflict") ∧
    (theirs.path.length = mine.path.length → theirs.path ≠ mine.path → xpubReconcile mine theirs = .err "MergeConflict") ∧
    (theirs ≠ mine → ¬ ProperSuffix theirs.path mine.path → ¬ ProperSuffix mine.path theirs.path →
      xpubReconcile mine theirs = .err "MergeConflict") :=
  xpubReconcile_cases mine theirs

/-- it never panics: the `usize` subtraction and the slice are only evaluated under their guard -/
theorem xpub_reconcile_no_panic (mine theirs : KeySource) (s : String) : xpubReconcile mine theirs ≠ .panic s :=
  xpubReconcile_no_panic mine theirs s

/-- the reconciliation is symmetric: both merge directions keep the same key source or both conflict -/
theorem xpub_reconcile_symm (x y : KeySource) : xpubReconcile x y = xpubReconcile y x := by
  rw [xpubReconcile_table, xpubReconcile_table]
  by_cases he : y = x
  · subst he; rfl
  · have he' : ¬ x = y := fun h => he h.symm
    simp only [he, he', if_false]
    by_cases h1 : ProperSuffix y.path x.path
    · have h2 : ¬ ProperSuffix x.path y.path := fun h2 => by
        have := properSuffix_length h1; have := properSuffix_length h2; omega
      simp only [h1, h2, if_true, if_false]
    · by_cases h2 : ProperSuffix x.path y.path
      · simp only [h1, h2, if_true, if_false]
      · simp only [h1, h2, if_false]

/-- whole xpub maps: the loop never panics, keeps every key, and is a plain union when the common
    keys carry equal sources -/
theorem xpub_merge_no_panic (self other : List (Bytes × KeySource)) (s : String) : mergeXpub self other ≠ .panic s :=
  mergeXpub_no_panic self other s

theorem xpub_merge_keeps_keys (self other res : List (Bytes × KeySource)) (h : mergeXpub self other = .ok res)
    (k : Bytes) (hk : k ∈ KV.keys self ∨ k ∈ KV.keys other) : k ∈ KV.keys res :=
  PsetGlobal.mergeXpub_keys self other res h k hk

/-! ### non-vacuity -/

example : ProperSuffix [2, 3] [1, 2, 3] ∧ ¬ ProperSuffix [1, 2] [1, 2, 3] ∧ ¬ ProperSuffix [1, 2, 3] [1, 2, 3] := by decide

example : xpubReconcile ⟨[1], [1, 2, 3]⟩ ⟨[2], [7, 7]⟩ = .err "MergeConflict" ∧
    xpubReconcile ⟨[1], [2, 3]⟩ ⟨[2], [1, 2, 3]⟩ = .ok ⟨[2], [1, 2, 3]⟩ ∧
    xpubReconcile ⟨[1], [1, 2, 3]⟩ ⟨[2], [1, 2, 3]⟩ = .err "MergeConflict" := by decide

/-- two compatible descendants with different additions: the result has both -/
example :
    let ia : PsetInput := { partialSigs := [([2, 1], [9])], redeemScript := some [0x51] }
    let ib : PsetInput := { partialSigs := [([2, 2], [8])], sighashType := some 1 }
    let im : PsetInput := { partialSigs := [([2, 1], [9]), ([2, 2], [8])], redeemScript := some [0x51], sighashType := some 1 }
    let a : Pset := { global := { inputCount := 1 }, inputs := [ia] }
    let b : Pset := { global := { inputCount := 1 }, inputs := [ib] }
    a.mergeCore b = .ok { global := { inputCount := 1, txModifiable := some 0 }, inputs := [im] } ∧
    a.mergeCore b = b.mergeCore a := by decide

/-! ### the model's field inventory is the source's (re-extracted from `src/pset/map/*.rs` on every run)

`EV.Gen.pset*Fields` are the struct definitions, `EV.Gen.pset*MergeOps` the statements found in the bodies
of `merge`; `EV.PsetFieldTable` is the table the model (structures, `merge`, `merge_keeps_all` …) is
generated from. A field added to `pset::Input`/`Output`, or one that `merge` stops handling, breaks these. -/
open EV.Proofs.PsetSourceTie in
theorem source_input_fields_match : namesKinds PsetFieldTable.input = Gen.psetInputFields := input_fields_match
open EV.Proofs.PsetSourceTie in
theorem source_output_fields_match : namesKinds PsetFieldTable.output = Gen.psetOutputFields := output_fields_match
open EV.Proofs.PsetSourceTie in
theorem source_input_merge_ops_match : sameSet (mergeOps PsetFieldTable.input) Gen.psetInputMergeOps = true := input_merge_ops_match
open EV.Proofs.PsetSourceTie in
theorem source_output_merge_ops_match : sameSet (mergeOps PsetFieldTable.output) Gen.psetOutputMergeOps = true := output_merge_ops_match
open EV.Proofs.PsetSourceTie in
/-- every `Option` / map field of the source structs is handled by the source `merge` -/
theorem source_merge_covers_every_field :
    covered Gen.psetInputFields Gen.psetInputMergeOps = true ∧ covered Gen.psetOutputFields Gen.psetOutputMergeOps = true :=
  ⟨input_merge_covers_source, output_merge_covers_source⟩
open EV.Proofs.PsetSourceTie in
theorem source_global_inventory :
    Gen.psetGlobalFields.map (·.1) = ["tx_data", "version", "xpub", "scalars", "elements_tx_modifiable_flag", "proprietary", "unknown"] ∧
    Gen.psetTxDataFields.map (·.1) = ["version", "fallback_locktime", "input_count", "output_count", "tx_modifiable"] := global_fields_inventory

end EV.Props.C14
