/-
  C08 — PSET and transaction views agree; unique id and lock time follow BIP370.

  Model: EV.Model.Pset (`from_tx`, `extract_tx`, `unique_id`, `locktime` as coded).  Hashes are a
  parameter (`H : Hashes`); "the id commits to X" is stated as `equal ids → equal X ∨ Collision`.
  Proofs: EV.Proofs.PsetRoundTrip, PsetExtract, PsetId, PsetLocktime, PsetLockKind.
-/
import EV.Proofs.PsetRoundTrip
import EV.Proofs.PsetExtract
import EV.Proofs.PsetId
import EV.Proofs.PsetLocktime
import EV.Proofs.PsetLockKind
namespace EV.Props.C08
open EV EV.Codec EV.Proofs.CodecTx EV.Proofs.PsetRoundTrip EV.Proofs.PsetExtract EV.Proofs.PsetId
  EV.Proofs.PsetLocktime EV.Proofs.PsetLockKind

variable (P : Prims) (H : Hashes)

/-! ### transaction → PSET → transaction -/

/-- **Converting a well-formed transaction to a PSET and extracting it again returns the identical
    transaction.**  Well-formed = canonical (`Tx.wf`, the domain of the codec laws of C01), pegin
    witnesses only on pegin inputs, issuance range proofs only on issuances, non-null output asset
    and value, and the nonce of every output is null or a confidential nonce on an output that is
    at least partially blinded (the only placements `from_txout`/`extract_tx` carry: recorded
    finding class F12bc, see `extract_from_tx_explicit_nonce_lost`).  `Tx.wf` (through
    `TxIn.wfBody`) also excludes the in-memory input with index 2^30-1 that is both pegin and
    issuance: its flags folded into the index give 0xffffffff, the flag-less coinbase index
    (recorded finding class IDX-3FFFFFFF; `extract_from_tx_iff` shows the exclusion is necessary). -/
theorem extract_from_tx (t : Tx) (hw : t.wf P)
    (hpeg : ∀ i ∈ t.input, i.isPegin = false → i.witness.peginWitness = [])
    (hiss : ∀ i ∈ t.input, i.hasIssuance = false →
      i.witness.amountRangeproof = none ∧ i.witness.inflationKeysRangeproof = none)
    (hout : ∀ o ∈ t.output, o.asset ≠ .null ∧ o.value ≠ .null ∧
      (o.nonce = .null ∨ ∃ pk, o.nonce = .conf pk ∧ PsetOutput.txOutPartiallyBlinded o = true)) :
    (Pset.fromTx t).extractTx = .ok t := by
  obtain ⟨hr, hi⟩ := rt_of_wf P t hw hpeg hiss hout
  exact (extract_fromTx_iff t hi).2 hr

/-- the hypothesis is exact: for every in-memory transaction with `u32` indices the round trip
    succeeds **iff** `Rt t` (per input: coinbase index without pegin flag, or index below 2^30 and
    not the flag/coinbase clash; pegin witness only on pegins; without issuance the default issuance
    and no issuance proofs; per output: asset, value not null; nonce null, or confidential,
    compressed, on a partially blinded output) -/
theorem extract_from_tx_iff (t : Tx) (h : IndexInRange t) : (Pset.fromTx t).extractTx = .ok t ↔ Rt t :=
  extract_fromTx_iff t h

/-- conversion never panics -/
theorem extract_from_tx_no_panic (t : Tx) (s : String) : (Pset.fromTx t).extractTx ≠ .panic s :=
  extract_fromTx_no_panic t s

/-- a transaction with one explicit-value output carrying the given nonce -/
def nonceTx (n : Nonce) : Tx :=
  ⟨2, 0, [], [⟨.explicit (List.replicate 32 1), .explicit 5, n, [0x51], TxOutWitness.empty⟩]⟩

/-- **negative (finding F12bc)**: an explicit (non-null) nonce is lost -/
theorem extract_from_tx_explicit_nonce_lost :
    (Pset.fromTx (nonceTx (.explicit (List.replicate 32 7)))).extractTx = .ok (nonceTx .null) ∧
    nonceTx (.explicit (List.replicate 32 7)) ≠ nonceTx .null := by decide

/-- **negative (finding F12bc)**: a confidential nonce on an output that is not blinded goes to
    `blinding_key`, which `extract_tx` does not read -/
theorem extract_from_tx_unblinded_conf_nonce_lost :
    (Pset.fromTx (nonceTx (.conf (2 :: List.replicate 32 7)))).extractTx = .ok (nonceTx .null) ∧
    ((Pset.fromTx (nonceTx (.conf (2 :: List.replicate 32 7)))).outputs.map (·.blindingKey)) = [some (2 :: List.replicate 32 7)] := by
  decide

/-- … while `Output::to_txout` would have returned it -/
theorem to_txout_keeps_unblinded_conf_nonce :
    ((Pset.fromTx (nonceTx (.conf (2 :: List.replicate 32 7)))).outputs.map PsetOutput.toTxOut) =
      (nonceTx (.conf (2 :: List.replicate 32 7))).output := by decide

/-! ### extraction is a function of the listed fields, and reflects them -/

/-- **deterministic, and determined by the listed fields only**: PSETs that agree on the fields
    of `Pset.TxEq` (global: tx version, fallback lock time, counts; input: previous txid/index,
    sequence, final script sig/witness, both required lock times, the six issuance fields, the two
    issuance range proofs, pegin witness; output: amount/asset in both forms, script, ecdh key, range
    and surjection proof) extract the same transaction or fail with the same error -/
theorem extract_deterministic {a b : Pset} (h : Pset.TxEq a b) : a.extractTx = b.extractTx :=
  extractTx_congr h

/-- **extraction reflects exactly the fields**: it succeeds iff the counts match, a lock time
    exists and every output has an asset and a value, and then version, lock time, every input and
    every output are the stated functions of the PSET fields -/
theorem extract_reflects_fields (p : Pset) (t : Tx) :
    p.extractTx = .ok t ↔
      (p.global.inputCount = p.inputs.length ∧ p.global.outputCount = p.outputs.length ∧
       t.version = p.global.txVersion ∧ p.locktime = .ok t.lockTime ∧
       t.input = p.inputs.map PsetInput.toTxIn ∧ p.outputs.map PsetOutput.extract = t.output.map Res.ok) :=
  extractTx_ok_iff p t

/-- the fields of an extracted input (flag masking, coinbase exemption, defaults) -/
theorem extract_input_fields (x : PsetInput) :
    x.toTxIn.previousOutput.txid = x.previousTxid ∧
    x.toTxIn.previousOutput.vout =
      (if x.previousOutputIndex = 0xffffffff then x.previousOutputIndex else x.previousOutputIndex % 2^30) ∧
    x.toTxIn.isPegin = (x.previousOutputIndex != 0xffffffff && x.previousOutputIndex.testBit 30) ∧
    x.toTxIn.scriptSig = x.finalScriptSig.getD [] ∧
    x.toTxIn.sequence = x.sequence.getD 0xffffffff ∧
    x.toTxIn.assetIssuance.nonce = x.issuanceBlindingNonce.getD zero32 ∧
    x.toTxIn.assetIssuance.entropy = x.issuanceAssetEntropy.getD zero32 ∧
    x.toTxIn.assetIssuance.amount = PsetInput.pairValue x.issuanceValueAmount x.issuanceValueComm ∧
    x.toTxIn.assetIssuance.inflationKeys = PsetInput.pairValue x.issuanceInflationKeys x.issuanceInflationKeysComm ∧
    x.toTxIn.witness.amountRangeproof = x.issuanceValueRangeproof ∧
    x.toTxIn.witness.inflationKeysRangeproof = x.issuanceKeysRangeproof ∧
    x.toTxIn.witness.scriptWitness = x.finalScriptWitness.getD [] ∧
    x.toTxIn.witness.peginWitness = x.peginWitness.getD [] :=
  toTxIn_fields x

/-- the fields of an extracted output (commitment wins over explicit; nonce from `ecdh_pubkey` only) -/
theorem extract_output_fields (o : PsetOutput) (t : TxOut) (h : o.extract = .ok t) :
    t.asset = PsetOutput.pairAsset o.asset o.assetComm ∧ t.asset ≠ .null ∧
    t.value = PsetInput.pairValue o.amount o.amountComm ∧ t.value ≠ .null ∧
    t.nonce = PsetOutput.nonceOf o.ecdhPubkey ∧
    t.scriptPubkey = o.scriptPubkey ∧
    t.witness.surjectionProof = o.assetSurjectionProof ∧ t.witness.rangeproof = o.valueRangeproof :=
  extract_fields o t h

/-- the errors, in the order the code reports them -/
theorem extract_errors (p : Pset) :
    (p.global.inputCount ≠ p.inputs.length → p.extractTx = .err "InputCountMismatch") ∧
    (p.global.inputCount = p.inputs.length → p.global.outputCount ≠ p.outputs.length →
      p.extractTx = .err "OutputCountMismatch") ∧
    (p.global.inputCount = p.inputs.length → p.global.outputCount = p.outputs.length →
      ∀ e, p.locktime = .err e → p.extractTx = .err e) :=
  extractTx_err p

theorem extract_output_errors (o : PsetOutput) :
    (o.extract = .err "MissingOutputValue" ↔ (o.assetComm = none ∧ o.asset = none)) ∧
    (o.extract = .err "MissingOutputAsset" ↔ (¬ (o.assetComm = none ∧ o.asset = none) ∧ o.amountComm = none ∧ o.amount = none)) :=
  extract_err_iff o

theorem extract_no_panic (p : Pset) (s : String) : p.extractTx ≠ .panic s := extractTx_no_panic p s

/-! ### unique id -/

/-- the unique id is the txid of the extracted transaction with all sequences zeroed and all
    script sigs emptied -/
theorem unique_id_def (p : Pset) :
    p.uniqueId H = match p.extractTx with
      | .ok t => .ok (Tx.txid H { t with input := t.input.map fun i => { i with sequence := 0, scriptSig := [] } })
      | .err e => .err e
      | .panic s => .panic s := rfl

/-- … which is the txid of the identifying transaction `idTx` (witnesses stripped as well) -/
theorem unique_id_is_txid_of_idTx (p : Pset) :
    p.uniqueId H = match idTx p with
      | .ok t => .ok (t.txid H)
      | .err e => .err e
      | .panic s => .panic s := uniqueId_eq H p

/-- **the unique id depends only on transaction-identifying data**: PSETs that agree on
    global tx version / fallback lock time / counts, per input on previous txid, index, the two
    required lock times and the six issuance fields (amount, commitment, inflation keys, their
    commitment, blinding nonce, entropy), and per output on amount, amount commitment, asset, asset
    commitment, script and ecdh key, have the same unique id -/
theorem unique_id_ignores {a b : Pset} (h : Pset.IdEq a b) : a.uniqueId H = b.uniqueId H :=
  uniqueId_congr H h

/-- ALL other input fields, enumerated: setting or changing any of them keeps the identifying
    part: utxos, partial sigs, sighash type, redeem/witness script, bip32 derivations, final script
    sig, final script witness, the four preimage maps, **sequence**, tap key sig, tap script sigs,
    tap scripts, tap key origins, tap internal key, tap merkle root, the two issuance range proofs,
    the six pegin fields incl. pegin witness, utxo range proof, the blind value/asset proofs and
    explicit amount/asset, blinded-issuance flag, proprietary, unknown -/
theorem unique_id_ignores_input_fields (x : PsetInput) :
    (∀ v, PsetInput.IdEq { x with nonWitnessUtxo := v } x) ∧
    (∀ v, PsetInput.IdEq { x with witnessUtxo := v } x) ∧
    (∀ v, PsetInput.IdEq { x with partialSigs := v } x) ∧
    (∀ v, PsetInput.IdEq { x with sighashType := v } x) ∧
    (∀ v, PsetInput.IdEq { x with redeemScript := v } x) ∧
    (∀ v, PsetInput.IdEq { x with witnessScript := v } x) ∧
    (∀ v, PsetInput.IdEq { x with bip32Derivation := v } x) ∧
    (∀ v, PsetInput.IdEq { x with finalScriptSig := v } x) ∧
    (∀ v, PsetInput.IdEq { x with finalScriptWitness := v } x) ∧
    (∀ v, PsetInput.IdEq { x with ripemd160Preimages := v } x) ∧
    (∀ v, PsetInput.IdEq { x with sha256Preimages := v } x) ∧
    (∀ v, PsetInput.IdEq { x with hash160Preimages := v } x) ∧
    (∀ v, PsetInput.IdEq { x with hash256Preimages := v } x) ∧
    (∀ v, PsetInput.IdEq { x with sequence := v } x) ∧
    (∀ v, PsetInput.IdEq { x with tapKeySig := v } x) ∧
    (∀ v, PsetInput.IdEq { x with tapScriptSigs := v } x) ∧
    (∀ v, PsetInput.IdEq { x with tapScripts := v } x) ∧
    (∀ v, PsetInput.IdEq { x with tapKeyOrigins := v } x) ∧
    (∀ v, PsetInput.IdEq { x with tapInternalKey := v } x) ∧
    (∀ v, PsetInput.IdEq { x with tapMerkleRoot := v } x) ∧
    (∀ v, PsetInput.IdEq { x with issuanceValueRangeproof := v } x) ∧
    (∀ v, PsetInput.IdEq { x with issuanceKeysRangeproof := v } x) ∧
    (∀ v, PsetInput.IdEq { x with peginTx := v } x) ∧
    (∀ v, PsetInput.IdEq { x with peginTxoutProof := v } x) ∧
    (∀ v, PsetInput.IdEq { x with peginGenesisHash := v } x) ∧
    (∀ v, PsetInput.IdEq { x with peginClaimScript := v } x) ∧
    (∀ v, PsetInput.IdEq { x with peginValue := v } x) ∧
    (∀ v, PsetInput.IdEq { x with peginWitness := v } x) ∧
    (∀ v, PsetInput.IdEq { x with inUtxoRangeproof := v } x) ∧
    (∀ v, PsetInput.IdEq { x with inIssuanceBlindValueProof := v } x) ∧
    (∀ v, PsetInput.IdEq { x with inIssuanceBlindInflationKeysProof := v } x) ∧
    (∀ v, PsetInput.IdEq { x with amount := v } x) ∧
    (∀ v, PsetInput.IdEq { x with blindValueProof := v } x) ∧
    (∀ v, PsetInput.IdEq { x with asset := v } x) ∧
    (∀ v, PsetInput.IdEq { x with blindAssetProof := v } x) ∧
    (∀ v, PsetInput.IdEq { x with blindedIssuance := v } x) ∧
    (∀ v, PsetInput.IdEq { x with proprietary := v } x) ∧
    (∀ v, PsetInput.IdEq { x with unknown := v } x) :=
  PsetInput.idEq_ignores x

/-- ALL other output fields, enumerated -/
theorem unique_id_ignores_output_fields (x : PsetOutput) :
    (∀ v, PsetOutput.IdEq { x with redeemScript := v } x) ∧
    (∀ v, PsetOutput.IdEq { x with witnessScript := v } x) ∧
    (∀ v, PsetOutput.IdEq { x with bip32Derivation := v } x) ∧
    (∀ v, PsetOutput.IdEq { x with tapInternalKey := v } x) ∧
    (∀ v, PsetOutput.IdEq { x with tapTree := v } x) ∧
    (∀ v, PsetOutput.IdEq { x with tapKeyOrigins := v } x) ∧
    (∀ v, PsetOutput.IdEq { x with valueRangeproof := v } x) ∧
    (∀ v, PsetOutput.IdEq { x with assetSurjectionProof := v } x) ∧
    (∀ v, PsetOutput.IdEq { x with blindingKey := v } x) ∧
    (∀ v, PsetOutput.IdEq { x with blinderIndex := v } x) ∧
    (∀ v, PsetOutput.IdEq { x with blindValueProof := v } x) ∧
    (∀ v, PsetOutput.IdEq { x with blindAssetProof := v } x) ∧
    (∀ v, PsetOutput.IdEq { x with proprietary := v } x) ∧
    (∀ v, PsetOutput.IdEq { x with unknown := v } x) :=
  PsetOutput.idEq_ignores x

/-- ALL other global fields, enumerated -/
theorem unique_id_ignores_global_fields (x : PsetGlobal) :
    (∀ v, PsetGlobal.IdEq { x with txModifiable := v } x) ∧
    (∀ v, PsetGlobal.IdEq { x with version := v } x) ∧
    (∀ v, PsetGlobal.IdEq { x with xpub := v } x) ∧
    (∀ v, PsetGlobal.IdEq { x with scalars := v } x) ∧
    (∀ v, PsetGlobal.IdEq { x with elementsTxModifiableFlag := v } x) ∧
    (∀ v, PsetGlobal.IdEq { x with proprietary := v } x) ∧
    (∀ v, PsetGlobal.IdEq { x with unknown := v } x) :=
  PsetGlobal.idEq_ignores x

/-- one updater/signer/finalizer step at input `j` -/
theorem unique_id_ignores_input_update (p : Pset) (j : Nat) (x x' : PsetInput) (hx : p.inputs[j]? = some x)
    (h : PsetInput.IdEq x' x) : Pset.uniqueId H { p with inputs := p.inputs.set j x' } = p.uniqueId H :=
  uniqueId_congr H ⟨PsetGlobal.IdEq.refl _, ListRel.set PsetInput.IdEq.refl _ j x x' hx h,
    ListRel.refl PsetOutput.IdEq.refl _⟩

theorem unique_id_ignores_output_update (p : Pset) (j : Nat) (x x' : PsetOutput) (hx : p.outputs[j]? = some x)
    (h : PsetOutput.IdEq x' x) : Pset.uniqueId H { p with outputs := p.outputs.set j x' } = p.uniqueId H :=
  uniqueId_congr H ⟨PsetGlobal.IdEq.refl _, ListRel.refl PsetInput.IdEq.refl _,
    ListRel.set PsetOutput.IdEq.refl _ j x x' hx h⟩

theorem unique_id_ignores_global_update (p : Pset) (g : PsetGlobal) (h : PsetGlobal.IdEq g p.global) :
    Pset.uniqueId H { p with global := g } = p.uniqueId H :=
  uniqueId_congr H ⟨h, ListRel.refl PsetInput.IdEq.refl _, ListRel.refl PsetOutput.IdEq.refl _⟩

/-- any sequence of such steps (a history): the relation is an equivalence, so it composes -/
theorem unique_id_ignores_history {a b c : Pset} (h1 : Pset.IdEq a b) (h2 : Pset.IdEq b c) :
    a.uniqueId H = c.uniqueId H := by
  rw [uniqueId_congr H h1, uniqueId_congr H h2]

/-- the identifying transaction, field by field: version, selected lock time, per input plain
    outpoint / pegin flag / issuance, per output asset / value / nonce / script -/
theorem unique_id_identifying_data (p : Pset) (t : Tx) (h : idTx p = .ok t) :
    t.version = p.global.txVersion ∧ p.locktime = .ok t.lockTime ∧
    t.input = p.inputs.map (fun x =>
      { previousOutput := ⟨x.previousTxid, x.plainIndex⟩, isPegin := x.isPegin, scriptSig := [], sequence := 0,
        assetIssuance := x.assetIssuance, witness := TxInWitness.empty }) ∧
    idOuts p.outputs = .ok t.output := by
  simp only [idTx] at h
  cases hs : p.sanityCheck with
  | ok u =>
    cases u
    rw [hs] at h
    simp only at h
    cases hl : p.locktime with
    | ok lt =>
      rw [hl] at h
      simp only at h
      cases ho : idOuts p.outputs with
      | ok outs =>
        rw [ho] at h
        simp only [Res.ok.injEq] at h
        subst h
        exact ⟨rfl, rfl, rfl, rfl⟩
      | err e => rw [ho] at h; cases h
      | panic s => rw [ho] at h; cases h
    | err e => rw [hl] at h; cases h
    | panic s => rw [hl] at h; cases h
  | err e => rw [hs] at h; cases h
  | panic s => rw [hs] at h; cases h

/-- **the id commits to the identifying data**: two PSETs with the same unique id have the same
    identifying transaction (`canon` only normalises the issuance record of inputs without
    issuance, which the transaction format does not serialize), or the hash collides.  Hypothesis:
    the identifying transactions are well-formed transactions in the sense of C01 (field widths as
    the Rust types guarantee, counts within the decoder's allocation bound, no flag/coinbase index
    clash). -/
theorem unique_id_commits (hs : SizesPos P) (a b : Pset) (ta tb : Tx)
    (ha : idTx a = .ok ta) (hb : idTx b = .ok tb) (wa : (canon ta).wf P) (wb : (canon tb).wf P)
    (h : a.uniqueId H = b.uniqueId H) :
    stripWit (canon ta) = stripWit (canon tb) ∨ Collision H.sha256d :=
  uniqueId_commits P hs H a b ta tb ha hb wa wb h

/-- unique id never panics -/
theorem unique_id_no_panic (p : Pset) (s : String) : p.uniqueId H ≠ .panic s := uniqueId_no_panic H p s

/-! ### lock time -/

/-- **the lock time is chosen as BIP370 prescribes** (`bip370`: the fallback, or 0, when no input
    constrains it; otherwise the maximum of the heights if every constraining input supports a
    height — height preferred when both kinds are possible —; otherwise the maximum of the times if
    every constraining input supports a time; otherwise an error), for every PSET -/
theorem locktime_spec (p : Pset) : p.locktime = bip370 p.global.fallbackLocktime p.lockReqs :=
  locktimeOf_eq_bip370 _ _

/-- the same on bare requirement lists: for all lists of inputs and every fallback -/
theorem locktime_spec_reqs (fb : Option Nat) (reqs : List LockReq) : locktimeOf fb reqs = bip370 fb reqs :=
  locktimeOf_eq_bip370 fb reqs

/-- **the two `unreachable!()` arms are unreachable** -/
theorem locktime_no_panic (p : Pset) (s : String) : p.locktime ≠ .panic s :=
  locktimeOf_no_panic _ _ s

/-- the loop invariant behind it: a kind is `Disallowed` only if the other is at least `Minimum` -/
theorem locktime_invariant (reqs : List LockReq) :
    ((lockFold reqs).2 = .disallowed → (lockFold reqs).1 ≠ .unconstrained) ∧
    ((lockFold reqs).1 = .disallowed → (lockFold reqs).2 ≠ .unconstrained) :=
  lockFold_invariant reqs

/-- with requirements typed as in Rust (heights below `LOCK_TIME_THRESHOLD`, times at or above;
    constant regenerated from src/locktime.rs) a constrained lock time is a block height exactly
    when every constraining input supports one: height is preferred whenever possible -/
theorem locktime_prefers_height (fb : Option Nat) (reqs : List LockReq) (hw : WellTyped reqs)
    (hc : ∃ r ∈ reqs, constraining r = true) (n : Nat) (h : locktimeOf fb reqs = .ok n) :
    (n < EV.Gen.lockTimeThreshold ↔ ∀ r ∈ reqs, constraining r = true → r.2.isSome = true) :=
  locktime_kind fb reqs hw hc n h

/-- a constrained lock time is one of the stated requirements -/
theorem locktime_is_stated (fb : Option Nat) (reqs : List LockReq)
    (hc : ∃ r ∈ reqs, constraining r = true) (n : Nat) (h : locktimeOf fb reqs = .ok n) :
    (∃ r ∈ reqs, r.2 = some n) ∨ (∃ r ∈ reqs, r.1 = some n) :=
  locktime_is_a_requirement fb reqs hc n h

/-! ### non-vacuity -/

/-- a well-formed transaction with a pegin+issuance input and a blinded output with nonce survives -/
example :
    let t : Tx := ⟨2, 77,
      [⟨⟨List.replicate 32 1, 5⟩, true, [0x51], 0xfffffffe, ⟨List.replicate 32 0, List.replicate 32 9, .explicit 10, .null⟩,
        ⟨none, none, [[1]], [[2, 3]]⟩⟩,
       ⟨OutPoint.null, false, [], 0xffffffff, AssetIssuance.null, TxInWitness.empty⟩],
      [⟨.explicit (List.replicate 32 1), .conf (8 :: List.replicate 32 2), .conf (2 :: List.replicate 32 7), [0x51], TxOutWitness.empty⟩]⟩
    (Pset.fromTx t).extractTx = .ok t := by decide

/-- every branch of the BIP370 selection occurs -/
example : locktimeOf (some 77) [] = .ok 77 ∧ locktimeOf none [(none, none)] = .ok 0 ∧
    locktimeOf (some 77) [(some 500000005, some 7), (some 500000009, some 3)] = .ok 7 ∧
    locktimeOf (some 77) [(some 500000005, some 7), (some 500000009, none)] = .ok 500000009 ∧
    locktimeOf (some 77) [(some 500000005, none), (none, some 3)] = .err "LocktimeConflict" := by decide

/-- the sequence and the final script sig do not enter the id, the previous txid does (different
    identifying transactions) -/
example :
    let p := Pset.fromTx ⟨2, 0, [⟨⟨List.replicate 32 1, 0⟩, false, [1], 5, AssetIssuance.null, TxInWitness.empty⟩], []⟩
    let q := Pset.fromTx ⟨2, 0, [⟨⟨List.replicate 32 1, 0⟩, false, [], 0xffffffff, AssetIssuance.null, TxInWitness.empty⟩], []⟩
    let r := Pset.fromTx ⟨2, 0, [⟨⟨List.replicate 32 2, 0⟩, false, [1], 5, AssetIssuance.null, TxInWitness.empty⟩], []⟩
    idTx p = idTx q ∧ idTx p ≠ idTx r := by decide

end EV.Props.C08
