/-
  C08 — PSET and transaction views agree; unique id and lock time follow BIP370.

  Model: EV.Model.Pset (`from_tx`, `extract_tx`, `unique_id`, `locktime` as coded).  Hashes are a
  parameter (`H : Hashes`); "the id commits to X" is stated as `equal ids → equal X ∨ Collision`.
  Proofs: EV.Proofs.PsetRoundTrip, PsetExtract, PsetId, PsetLocktime, PsetLockKind.

  Last section: lock times and sequence numbers as types (model EV.Model.LockTime of src/locktime.rs
  `LockTime`/`Height`/`Time` and src/transaction.rs `Sequence`; proofs EV.Proofs.LockTime) and the bridge
  from the BIP370 selection to `LockTime::is_satisfied_by`.
-/
import EV.Proofs.PsetRoundTrip
import EV.Proofs.PsetExtract
import EV.Proofs.PsetId
import EV.Proofs.PsetLocktime
import EV.Proofs.PsetLockKind
import EV.Proofs.LockTime
namespace EV.Props.C08
open EV EV.Codec EV.Proofs.CodecTx EV.Proofs.PsetRoundTrip EV.Proofs.PsetExtract EV.Proofs.PsetId
  EV.Proofs.PsetLocktime EV.Proofs.PsetLockKind
open EV.Lock EV.Proofs.LockTime

variable (P : Prims) (H : Hashes)

/-! ### transaction → PSET → transaction -/

/-- **Converting a well-formed transaction to a PSET and extracting it again returns the identical
    transaction.**  Well-formed = canonical (`Tx.wf`, the domain of the codec laws of C01), pegin
    witnesses only on pegin inputs, issuance range proofs only on issuances, non-null output asset
    and value, and the nonce of every output is null or a confidential nonce on an output that is
    at least partially blinded (the only placements `from_txout`/`extract_tx` carry: recorded
    finding class F12bc, see `extract_from_tx_explicit_nonce_lost`).  `Tx.wf` (through
    `TxIn.wfBody`) also excludes the in-memory input with index 2^30-1 that is both pegin and
    issuance: its flags folded into the index give 0xffffffff, the flag-less coinbase index
    (recorded finding class IDX-3FFFFFFF; `extract_from_tx_iff` shows the exclusion is necessary). -/
theorem extract_from_tx (t : Tx) (hw : t.wf P)
    (hpeg : ∀ i ∈ t.input, i.isPegin = false → i.witness.peginWitness = [])
    (hiss : ∀ i ∈ t.input, i.hasIssuance = false →
      i.witness.amountRangeproof = none ∧ i.witness.inflationKeysRangeproof = none)
    (hout : ∀ o ∈ t.output, o.asset ≠ .null ∧ o.value ≠ .null ∧
      (o.nonce = .null ∨ ∃ pk, o.nonce = .conf pk ∧ PsetOutput.txOutPartiallyBlinded o = true)) :
    (Pset.fromTx t).extractTx = .ok t := by
  obtain ⟨hr, hi⟩ := rt_of_wf P t hw hpeg hiss hout
  exact (extract_fromTx_iff t hi).2 hr

/-- the hypothesis is exact: for every in-memory transaction with `u32` indices the round trip
    succeeds **iff** `Rt t` (per input: coinbase index without pegin flag, or index below 2^30 and
    not the flag/coinbase clash; pegin witness only on pegins; without issuance the default issuance
    and no issuance proofs; per output: asset, value not null; nonce null, or confidential,
    compressed, on a partially blinded output) -/
theorem extract_from_tx_iff (t : Tx) (h : IndexInRange t) : (Pset.fromTx t).extractTx = .ok t ↔ Rt t :=
  extract_fromTx_iff t h

/-- conversion never panics -/
theorem extract_from_tx_no_panic (t : Tx) (s : String) : (Pset.fromTx t).extractTx ≠ .panic s :=
  extract_fromTx_no_panic t s

/-- a transaction with one explicit-value output carrying the given nonce -/
def nonceTx (n : Nonce) : Tx :=
  ⟨2, 0, [], [⟨.explicit (List.replicate 32 1), .explicit 5, n, [0x51], TxOutWitness.empty⟩]⟩

/-- **negative (finding F12bc)**: an explicit (non-null) nonce is lost -/
theorem extract_from_tx_explicit_nonce_lost :
    (Pset.fromTx (nonceTx (.explicit (List.replicate 32 7)))).extractTx = .ok (nonceTx .null) ∧
    nonceTx (.explicit (List.replicate 32 7)) ≠ nonceTx .null := by decide

/-- **negative (finding F12bc)**: a confidential nonce on an output that is not blinded goes to
    `blinding_key`, which `extract_tx` does not read -/
theorem extract_from_tx_unblinded_conf_nonce_lost :
    (Pset.fromTx (nonceTx (.conf (2 :: List.replicate 32 7)))).extractTx = .ok (nonceTx .null) ∧
    ((Pset.fromTx (nonceTx (.conf (2 :: List.replicate 32 7)))).outputs.map (·.blindingKey)) = [some (2 :: List.replicate 32 7)] := by
  decide

/-- … while `Output::to_txout` would have returned it -/
theorem to_txout_keeps_unblinded_conf_nonce :
    ((Pset.fromTx (nonceTx (.conf (2 :: List.replicate 32 7)))).outputs.map PsetOutput.toTxOut) =
      (nonceTx (.conf (2 :: List.replicate 32 7))).output := by decide

/-! ### extraction is a function of the listed fields, and reflects them -/

/-- **deterministic, and determined by the listed fields only**: PSETs that agree on the fields
    of `Pset.TxEq` (global: tx version, fallback lock time, counts; input: previous txid/index,
    sequence, final script sig/witness, both required lock times, the six issuance fields, the two
    issuance range proofs, pegin witness; output: amount/asset in both forms, script, ecdh key, range
    and surjection proof) extract the same transaction or fail with the same error -/
theorem extract_deterministic {a b : Pset} (h : Pset.TxEq a b) : a.extractTx = b.extractTx :=
  extractTx_congr h

/-- **extraction reflects exactly the fields**: it succeeds iff the counts match, a lock time
    exists and every output has an asset and a value, and then version, lock time, every input and
    every output are the stated functions of the PSET fields -/
theorem extract_reflects_fields (p : Pset) (t : Tx) :
    p.extractTx = .ok t ↔
      (p.global.inputCount = p.inputs.length ∧ p.global.outputCount = p.outputs.length ∧
       t.version = p.global.txVersion ∧ p.locktime = .ok t.lockTime ∧
       t.input = p.inputs.map PsetInput.toTxIn ∧ p.outputs.map PsetOutput.extract = t.output.map Res.ok) :=
  extractTx_ok_iff p t

/-- the fields of an extracted input (flag masking, coinbase exemption, defaults) -/
theorem extract_input_fields (x : PsetInput) :
    x.toTxIn.previousOutput.txid = x.previousTxid ∧
    x.toTxIn.previousOutput.vout =
      (if x.previousOutputIndex = 0xffffffff then x.previousOutputIndex else x.previousOutputIndex % 2^30) ∧
    x.toTxIn.isPegin = (x.previousOutputIndex != 0xffffffff && x.previousOutputIndex.testBit 30) ∧
    x.toTxIn.scriptSig = x.finalScriptSig.getD [] ∧
    x.toTxIn.sequence = x.sequence.getD 0xffffffff ∧
    x.toTxIn.assetIssuance.nonce = x.issuanceBlindingNonce.getD zero32 ∧
    x.toTxIn.assetIssuance.entropy = x.issuanceAssetEntropy.getD zero32 ∧
    x.toTxIn.assetIssuance.amount = PsetInput.pairValue x.issuanceValueAmount x.issuanceValueComm ∧
    x.toTxIn.assetIssuance.inflationKeys = PsetInput.pairValue x.issuanceInflationKeys x.issuanceInflationKeysComm ∧
    x.toTxIn.witness.amountRangeproof = x.issuanceValueRangeproof ∧
    x.toTxIn.witness.inflationKeysRangeproof = x.issuanceKeysRangeproof ∧
    x.toTxIn.witness.scriptWitness = x.finalScriptWitness.getD [] ∧
    x.toTxIn.witness.peginWitness = x.peginWitness.getD [] :=
  toTxIn_fields x

/-- the fields of an extracted output (commitment wins over explicit; nonce from `ecdh_pubkey` only) -/
theorem extract_output_fields (o : PsetOutput) (t : TxOut) (h : o.extract = .ok t) :
    t.asset = PsetOutput.pairAsset o.asset o.assetComm ∧ t.asset ≠ .null ∧
    t.value = PsetInput.pairValue o.amount o.amountComm ∧ t.value ≠ .null ∧
    t.nonce = PsetOutput.nonceOf o.ecdhPubkey ∧
    t.scriptPubkey = o.scriptPubkey ∧
    t.witness.surjectionProof = o.assetSurjectionProof ∧ t.witness.rangeproof = o.valueRangeproof :=
  extract_fields o t h

/-- the errors, in the order the code reports them -/
theorem extract_errors (p : Pset) :
    (p.global.inputCount ≠ p.inputs.length → p.extractTx = .err "InputCountMismatch") ∧
    (p.global.inputCount = p.inputs.length → p.global.outputCount ≠ p.outputs.length →
      p.extractTx = .err "OutputCountMismatch") ∧
    (p.global.inputCount = p.inputs.length → p.global.outputCount = p.outputs.length →
      ∀ e, p.locktime = .err e → p.extractTx = .err e) :=
  extractTx_err p

theorem extract_output_errors (o : PsetOutput) :
    (o.extract = .err "MissingOutputValue" ↔ (o.assetComm = none ∧ o.asset = none)) ∧
    (o.extract = .err "MissingOutputAsset" ↔ (¬ (o.assetComm = none ∧ o.asset = none) ∧ o.amountComm = none ∧ o.amount = none)) :=
  extract_err_iff o

theorem extract_no_panic (p : Pset) (s : String) : p.extractTx ≠ .panic s := extractTx_no_panic p s

/-! ### unique id -/

/-- the unique id is the txid of the extracted transaction with all sequences zeroed and all
    script sigs emptied -/
theorem unique_id_def (p : Pset) :
    p.uniqueId H = match p.extractTx with
      | .ok t => .ok (Tx.txid H { t with input := t.input.map fun i => { i with sequence := 0, scriptSig := [] } })
      | .err e => .err e
      | .panic s => .panic s := rfl

/-- … which is the txid of the identifying transaction `idTx` (witnesses stripped as well) -/
theorem unique_id_is_txid_of_idTx (p : Pset) :
    p.uniqueId H = match idTx p with
      | .ok t => .ok (t.txid H)
      | .err e => .err e
      | .panic s => .panic s := uniqueId_eq H p

/-- **the unique id depends only on transaction-identifying data**: PSETs that agree on
    global tx version / fallback lock time / counts, per input on previous txid, index, the two
    required lock times and the six issuance fields (amount, commitment, inflation keys, their
    commitment, blinding nonce, entropy), and per output on amount, amount commitment, asset, asset
    commitment, script and ecdh key, have the same unique id -/
theorem unique_id_ignores {a b : Pset} (h : Pset.IdEq a b) : a.uniqueId H = b.uniqueId H :=
  uniqueId_congr H h

/-- ALL other input fields, enumerated: setting or changing any of them keeps the identifying
    part: utxos, partial sigs, sighash type, redeem/witness script, bip32 derivations, final script
    sig, final script witness, the four preimage maps, **sequence**, tap key sig, tap script sigs,
    tap scripts, tap key origins, tap internal key, tap merkle root, the two issuance range proofs,
    the six pegin fields incl. pegin witness, utxo range proof, the blind value/asset proofs and
    explicit amount/asset, blinded-issuance flag, proprietary, unknown -/
theorem unique_id_ignores_input_fields (x : PsetInput) :
    (∀ v, PsetInput.IdEq { x with nonWitnessUtxo := v } x) ∧
    (∀ v, PsetInput.IdEq { x with witnessUtxo := v } x) ∧
    (∀ v, PsetInput.IdEq { x with partialSigs := v } x) ∧
    (∀ v, PsetInput.IdEq { x with sighashType := v } x) ∧
    (∀ v, PsetInput.IdEq { x with redeemScript := v } x) ∧
    (∀ v, PsetInput.IdEq { x with witnessScript := v } x) ∧
    (∀ v, PsetInput.IdEq { x with bip32Derivation := v } x) ∧
    (∀ v, PsetInput.IdEq { x with finalScriptSig := v } x) ∧
    (∀ v, PsetInput.IdEq { x with finalScriptWitness := v } x) ∧
    (∀ v, PsetInput.IdEq { x with ripemd160Preimages := v } x) ∧
    (∀ v, PsetInput.IdEq { x with sha256Preimages := v } x) ∧
    (∀ v, PsetInput.IdEq { x with hash160Preimages := v } x) ∧
    (∀ v, PsetInput.IdEq { x with hash256Preimages := v } x) ∧
    (∀ v, PsetInput.IdEq { x with sequence := v } x) ∧
    (∀ v, PsetInput.IdEq { x with tapKeySig := v } x) ∧
    (∀ v, PsetInput.IdEq { x with tapScriptSigs := v } x) ∧
    (∀ v, PsetInput.IdEq { x with tapScripts := v } x) ∧
    (∀ v, PsetInput.IdEq { x with tapKeyOrigins := v } x) ∧
    (∀ v, PsetInput.IdEq { x with tapInternalKey := v } x) ∧
    (∀ v, PsetInput.IdEq { x with tapMerkleRoot := v } x) ∧
    (∀ v, PsetInput.IdEq { x with issuanceValueRangeproof := v } x) ∧
    (∀ v, PsetInput.IdEq { x with issuanceKeysRangeproof := v } x) ∧
    (∀ v, PsetInput.IdEq { x with peginTx := v } x) ∧
    (∀ v, PsetInput.IdEq { x with peginTxoutProof := v } x) ∧
    (∀ v, PsetInput.IdEq { x with peginGenesisHash := v } x) ∧
    (∀ v, PsetInput.IdEq { x with peginClaimScript := v } x) ∧
    (∀ v, PsetInput.IdEq { x with peginValue := v } x) ∧
    (∀ v, PsetInput.IdEq { x with peginWitness := v } x) ∧
    (∀ v, PsetInput.IdEq { x with inUtxoRangeproof := v } x) ∧
    (∀ v, PsetInput.IdEq { x with inIssuanceBlindValueProof := v } x) ∧
    (∀ v, PsetInput.IdEq { x with inIssuanceBlindInflationKeysProof := v } x) ∧
    (∀ v, PsetInput.IdEq { x with amount := v } x) ∧
    (∀ v, PsetInput.IdEq { x with blindValueProof := v } x) ∧
    (∀ v, PsetInput.IdEq { x with asset := v } x) ∧
    (∀ v, PsetInput.IdEq { x with blindAssetProof := v } x) ∧
    (∀ v, PsetInput.IdEq { x with blindedIssuance := v } x) ∧
    (∀ v, PsetInput.IdEq { x with proprietary := v } x) ∧
    (∀ v, PsetInput.IdEq { x with unknown := v } x) :=
  PsetInput.idEq_ignores x

/-- ALL other output fields, enumerated -/
theorem unique_id_ignores_output_fields (x : PsetOutput) :
    (∀ v, PsetOutput.IdEq { x with redeemScript := v } x) ∧
    (∀ v, PsetOutput.IdEq { x with witnessScript := v } x) ∧
    (∀ v, PsetOutput.IdEq { x with bip32Derivation := v } x) ∧
    (∀ v, PsetOutput.IdEq { x with tapInternalKey := v } x) ∧
    (∀ v, PsetOutput.IdEq { x with tapTree := v } x) ∧
    (∀ v, PsetOutput.IdEq { x with tapKeyOrigins := v } x) ∧
    (∀ v, PsetOutput.IdEq { x with valueRangeproof := v } x) ∧
    (∀ v, PsetOutput.IdEq { x with assetSurjectionProof := v } x) ∧
    (∀ v, PsetOutput.IdEq { x with blindingKey := v } x) ∧
    (∀ v, PsetOutput.IdEq { x with blinderIndex := v } x) ∧
    (∀ v, PsetOutput.IdEq { x with blindValueProof := v } x) ∧
    (∀ v, PsetOutput.IdEq { x with blindAssetProof := v } x) ∧
    (∀ v, PsetOutput.IdEq { x with proprietary := v } x) ∧
    (∀ v, PsetOutput.IdEq { x with unknown := v } x) :=
  PsetOutput.idEq_ignores x

/-- ALL other global fields, enumerated -/
theorem unique_id_ignores_global_fields (x : PsetGlobal) :
    (∀ v, PsetGlobal.IdEq { x with txModifiable := v } x) ∧
    (∀ v, PsetGlobal.IdEq { x with version := v } x) ∧
    (∀ v, PsetGlobal.IdEq { x with xpub := v } x) ∧
    (∀ v, PsetGlobal.IdEq { x with scalars := v } x) ∧
    (∀ v, PsetGlobal.IdEq { x with elementsTxModifiableFlag := v } x) ∧
    (∀ v, PsetGlobal.IdEq { x with proprietary := v } x) ∧
    (∀ v, PsetGlobal.IdEq { x with unknown := v } x) :=
  PsetGlobal.idEq_ignores x

/-- one updater/signer/finalizer step at input `j` -/
theorem unique_id_ignores_input_update (p : Pset) (j : Nat) (x x' : PsetInput) (hx : p.inputs[j]? = some x)
    (h : PsetInput.IdEq x' x) : Pset.uniqueId H { p with inputs := p.inputs.set j x' } = p.uniqueId H :=
  uniqueId_congr H ⟨PsetGlobal.IdEq.refl _, ListRel.set PsetInput.IdEq.refl _ j x x' hx h,
    ListRel.refl PsetOutput.IdEq.refl _⟩

theorem unique_id_ignores_output_update (p : Pset) (j : Nat) (x x' : PsetOutput) (hx : p.outputs[j]? = some x)
    (h : PsetOutput.IdEq x' x) : Pset.uniqueId H { p with outputs := p.outputs.set j x' } = p.uniqueId H :=
  uniqueId_congr H ⟨PsetGlobal.IdEq.refl _, ListRel.refl PsetInput.IdEq.refl _,
    ListRel.set PsetOutput.IdEq.refl _ j x x' hx h⟩

theorem unique_id_ignores_global_update (p : Pset) (g : PsetGlobal) (h : PsetGlobal.IdEq g p.global) :
    Pset.uniqueId H { p with global := g } = p.uniqueId H :=
  uniqueId_congr H ⟨h, ListRel.refl PsetInput.IdEq.refl _, ListRel.refl PsetOutput.IdEq.refl _⟩

/-- any sequence of such steps (a history): the relation is an equivalence, so it composes -/
theorem unique_id_ignores_history {a b c : Pset} (h1 : Pset.IdEq a b) (h2 : Pset.IdEq b c) :
    a.uniqueId H = c.uniqueId H := by
  rw [uniqueId_congr H h1, uniqueId_congr H h2]

/-- the identifying transaction, field by field: version, selected lock time, per input plain
    outpoint / pegin flag / issuance, per output asset / value / nonce / script -/
theorem unique_id_identifying_data (p : Pset) (t : Tx) (h : idTx p = .ok t) :
    t.version = p.global.txVersion ∧ p.locktime = .ok t.lockTime ∧
    t.input = p.inputs.map (fun x =>
      { previousOutput := ⟨x.previousTxid, x.plainIndex⟩, isPegin := x.isPegin, scriptSig := [], sequence := 0,
        assetIssuance := x.assetIssuance, witness := TxInWitness.empty }) ∧
    idOuts p.outputs = .ok t.output := by
  simp only [idTx] at h
  cases hs : p.sanityCheck with
  | ok u =>
    cases u
    rw [hs] at h
    simp only at h
    cases hl : p.locktime with
    | ok lt =>
      rw [hl] at h
      simp only at h
      cases ho : idOuts p.outputs with
      | ok outs =>
        rw [ho] at h
        simp only [Res.ok.injEq] at h
        subst h
        exact ⟨rfl, rfl, rfl, rfl⟩
      | err e => rw [ho] at h; cases h
      | panic s => rw [ho] at h; cases h
    | err e => rw [hl] at h; cases h
    | panic s => rw [hl] at h; cases h
  | err e => rw [hs] at h; cases h
  | panic s => rw [hs] at h; cases h

/-- **the id commits to the identifying data**: two PSETs with the same unique id have the same
    identifying transaction (`canon` only normalises the issuance record of inputs without
    issuance, which the transaction format does not serialize), or the hash collides.  Hypothesis:
    the identifying transactions are well-formed transactions in the sense of C01 (field widths as
    the Rust types guarantee, counts within the decoder's allocation bound, no flag/coinbase index
    clash). -/
theorem unique_id_commits (hs : SizesPos P) (a b : Pset) (ta tb : Tx)
    (ha : idTx a = .ok ta) (hb : idTx b = .ok tb) (wa : (canon ta).wf P) (wb : (canon tb).wf P)
    (h : a.uniqueId H = b.uniqueId H) :
    stripWit (canon ta) = stripWit (canon tb) ∨ Collision H.sha256d :=
  uniqueId_commits P hs H a b ta tb ha hb wa wb h

/-- unique id never panics -/
theorem unique_id_no_panic (p : Pset) (s : String) : p.uniqueId H ≠ .panic s := uniqueId_no_panic H p s

/-! ### lock time -/

/-- **the lock time is chosen as BIP370 prescribes** (`bip370`: the fallback, or 0, when no input
    constrains it; otherwise the maximum of the heights if every constraining input supports a
    height — height preferred when both kinds are possible —; otherwise the maximum of the times if
    every constraining input supports a time; otherwise an error), for every PSET -/
theorem locktime_spec (p : Pset) : p.locktime = bip370 p.global.fallbackLocktime p.lockReqs :=
  locktimeOf_eq_bip370 _ _

/-- the same on bare requirement lists: for all lists of inputs and every fallback -/
theorem locktime_spec_reqs (fb : Option Nat) (reqs : List LockReq) : locktimeOf fb reqs = bip370 fb reqs :=
  locktimeOf_eq_bip370 fb reqs

/-- **the two `unreachable!()` arms are unreachable** -/
theorem locktime_no_panic (p : Pset) (s : String) : p.locktime ≠ .panic s :=
  locktimeOf_no_panic _ _ s

/-- the loop invariant behind it: a kind is `Disallowed` only if the other is at least `Minimum` -/
theorem locktime_invariant (reqs : List LockReq) :
    ((lockFold reqs).2 = .disallowed → (lockFold reqs).1 ≠ .unconstrained) ∧
    ((lockFold reqs).1 = .disallowed → (lockFold reqs).2 ≠ .unconstrained) :=
  lockFold_invariant reqs

/-- with requirements typed as in Rust (heights below `LOCK_TIME_THRESHOLD`, times at or above;
    constant regenerated from src/locktime.rs) a constrained lock time is a block height exactly
    when every constraining input supports one: height is preferred whenever possible -/
theorem locktime_prefers_height (fb : Option Nat) (reqs : List LockReq) (hw : WellTyped reqs)
    (hc : ∃ r ∈ reqs, constraining r = true) (n : Nat) (h : locktimeOf fb reqs = .ok n) :
    (n < EV.Gen.lockTimeThreshold ↔ ∀ r ∈ reqs, constraining r = true → r.2.isSome = true) :=
  locktime_kind fb reqs hw hc n h

/-- a constrained lock time is one of the stated requirements -/
theorem locktime_is_stated (fb : Option Nat) (reqs : List LockReq)
    (hc : ∃ r ∈ reqs, constraining r = true) (n : Nat) (h : locktimeOf fb reqs = .ok n) :
    (∃ r ∈ reqs, r.2 = some n) ∨ (∃ r ∈ reqs, r.1 = some n) :=
  locktime_is_a_requirement fb reqs hc n h

/-! ### non-vacuity -/

/-- a well-formed transaction with a pegin+issuance input and a blinded output with nonce survives -/
example :
    let t : Tx := ⟨2, 77,
      [⟨⟨List.replicate 32 1, 5⟩, true, [0x51], 0xfffffffe, ⟨List.replicate 32 0, List.replicate 32 9, .explicit 10, .null⟩,
        ⟨none, none, [[1]], [[2, 3]]⟩⟩,
       ⟨OutPoint.null, false, [], 0xffffffff, AssetIssuance.null, TxInWitness.empty⟩],
      [⟨.explicit (List.replicate 32 1), .conf (8 :: List.replicate 32 2), .conf (2 :: List.replicate 32 7), [0x51], TxOutWitness.empty⟩]⟩
    (Pset.fromTx t).extractTx = .ok t := by decide

/-- every branch of the BIP370 selection occurs -/
example : locktimeOf (some 77) [] = .ok 77 ∧ locktimeOf none [(none, none)] = .ok 0 ∧
    locktimeOf (some 77) [(some 500000005, some 7), (some 500000009, some 3)] = .ok 7 ∧
    locktimeOf (some 77) [(some 500000005, some 7), (some 500000009, none)] = .ok 500000009 ∧
    locktimeOf (some 77) [(some 500000005, none), (none, some 3)] = .err "LocktimeConflict" := by decide

/-- the sequence and the final script sig do not enter the id, the previous txid does (different
    identifying transactions) -/
example :
    let p := Pset.fromTx ⟨2, 0, [⟨⟨List.replicate 32 1, 0⟩, false, [1], 5, AssetIssuance.null, TxInWitness.empty⟩], []⟩
    let q := Pset.fromTx ⟨2, 0, [⟨⟨List.replicate 32 1, 0⟩, false, [], 0xffffffff, AssetIssuance.null, TxInWitness.empty⟩], []⟩
    let r := Pset.fromTx ⟨2, 0, [⟨⟨List.replicate 32 2, 0⟩, false, [1], 5, AssetIssuance.null, TxInWitness.empty⟩], []⟩
    idTx p = idTx q ∧ idTx p ≠ idTx r := by decide

/-! ### lock times and sequence numbers (EV.Model.LockTime)

`LockTime`, `Height`, `Time` of src/locktime.rs and `Sequence` of src/transaction.rs, over `Nat` with the
Rust widths as hypotheses where they matter.  The model reads every literal from `EV.Gen` (regenerated from
/repo); the statements below are written with the consensus numbers (BIP-65 threshold 500000000, BIP-68 bits
31 and 22, 16-bit value, 512-second granularity, BIP-125 0xfffffffe), so a changed literal in the source
breaks a proof here. -/

/-- the regenerated literals are the consensus ones -/
theorem lt_constants :
    EV.Gen.lockTimeThreshold = 500000000 ∧ LockTime.zero = .blocks ⟨0⟩ ∧ Height.zero = ⟨0⟩ ∧
    Sequence.max = ⟨0xffffffff⟩ ∧ Sequence.zero = ⟨0⟩ ∧ Sequence.minNoRbf = ⟨0xfffffffe⟩ ∧
    Sequence.enableLocktimeNoRbf = ⟨0xfffffffe⟩ ∧ Sequence.enableRbfNoLocktime = ⟨0xfffffffd⟩ ∧
    Sequence.default = Sequence.max ∧
    Sequence.lockTimeDisableFlagMask = 2^31 ∧ Sequence.lockTypeMask = 2^22 ∧
    EV.Gen.sequenceFloorGranularity = 512 ∧ EV.Gen.sequenceCeilGranularity = 512 := by decide

/-- **`LockTime::from_consensus` is total and splits exactly at the threshold**: below 500000000 a block
    height, at or above a block time, the value kept; in particular neither `expect("n is valid")` fires -/
theorem lt_from_consensus_total (n : Nat) :
    LockTime.fromConsensus n = .ok (if n < 500000000 then .blocks ⟨n⟩ else .seconds ⟨n⟩) := by
  rw [fromConsensus_eq, threshold_eq]

/-- `to_consensus_u32` undoes `from_consensus` ("`from_consensus` roundtrips as expected with `to_consensus_u32`") -/
theorem lt_consensus_roundtrip (n : Nat) (l : LockTime) (h : LockTime.fromConsensus n = .ok l) :
    l.toConsensusU32 = n := toConsensus_fromConsensus n l h
example : LockTime.fromConsensus 500000000 = .ok (.seconds ⟨500000000⟩) := by decide

/-- **`from_consensus` / `to_consensus_u32` are inverse bijections between `u32` and the values of
    `LockTime`** (`Valid`: a `Blocks` payload below the threshold, a `Seconds` payload a `u32` at or above it) -/
theorem lt_consensus_bijection :
    (∀ n, n < 2^32 → ∃ l, LockTime.fromConsensus n = .ok l ∧ l.Valid ∧ l.toConsensusU32 = n) ∧
    (∀ l : LockTime, l.Valid → l.toConsensusU32 < 2^32 ∧ LockTime.fromConsensus l.toConsensusU32 = .ok l) := by
  constructor
  · intro n hn
    refine ⟨_, fromConsensus_eq n, fromConsensus_valid n hn _ (fromConsensus_eq n), ?_⟩
    exact toConsensus_fromConsensus n _ (fromConsensus_eq n)
  · intro l hv
    exact ⟨valid_lt_u32 l hv, fromConsensus_toConsensus l hv⟩
example : (LockTime.blocks ⟨499999999⟩).Valid ∧ (LockTime.seconds ⟨0xffffffff⟩).Valid := by decide

/-- the unit predicates are the threshold test -/
theorem lt_unit_split (n : Nat) (l : LockTime) (h : LockTime.fromConsensus n = .ok l) :
    (l.isBlockHeight = true ↔ n < 500000000) ∧ (l.isBlockTime = true ↔ 500000000 ≤ n) := by
  rw [fromConsensus_ok n l h, threshold_eq]
  by_cases hn : n < 500000000
  · simp [hn, LockTime.isBlockHeight, LockTime.isBlockTime]
  · simp [hn, LockTime.isBlockHeight, LockTime.isBlockTime]; omega

/-- **`from_height` succeeds iff the value is below the threshold** (then it is that height; otherwise an
    error, never a panic) -/
theorem lt_from_height_iff (n : Nat) :
    (n < 500000000 → LockTime.fromHeight n = .ok (.blocks ⟨n⟩)) ∧
    (500000000 ≤ n → ∃ e, LockTime.fromHeight n = .err e) := by
  rw [fromHeight_eq, threshold_eq]
  constructor
  · intro h; rw [if_pos h]
  · intro h; rw [if_neg (by omega)]; exact ⟨_, rfl⟩

/-- **`from_time` succeeds iff the value is at or above the threshold** -/
theorem lt_from_time_iff (n : Nat) :
    (500000000 ≤ n → LockTime.fromTime n = .ok (.seconds ⟨n⟩)) ∧
    (n < 500000000 → ∃ e, LockTime.fromTime n = .err e) := by
  rw [fromTime_eq, threshold_eq]
  constructor
  · intro h; rw [if_pos h]
  · intro h; rw [if_neg (by omega)]; exact ⟨_, rfl⟩

/-- `Height::from_consensus` / `Time::from_consensus` are the same tests and produce values of the types -/
theorem lt_height_time_constructors (n : Nat) :
    (Height.fromConsensus n = if n < 500000000 then .ok ⟨n⟩ else .err "Conversion(invalid_height)") ∧
    (Time.fromConsensus n = if 500000000 ≤ n then .ok ⟨n⟩ else .err "Conversion(invalid_time)") ∧
    (∀ h, Height.fromConsensus n = .ok h → h.Valid) ∧
    (n < 2^32 → ∀ t, Time.fromConsensus n = .ok t → t.Valid) := by
  refine ⟨?_, ?_, ?_, ?_⟩
  · simp only [Height.fromConsensus, Lock.isBlockHeight, decide_eq_true_eq, threshold_eq]
  · simp only [Time.fromConsensus, Lock.isBlockTime, decide_eq_true_eq, threshold_eq, ge_iff_le]
  · intro h hh
    simp only [Height.fromConsensus, Lock.isBlockHeight, decide_eq_true_eq] at hh
    split at hh
    · cases hh; assumption
    · cases hh
  · intro h32 t ht
    simp only [Time.fromConsensus, Lock.isBlockTime, decide_eq_true_eq, ge_iff_le] at ht
    split at ht
    · cases ht; exact ⟨by assumption, h32⟩
    · cases ht

/-- **`is_satisfied_by` specification**: a lock time is satisfied by (height, time) iff its value is at most
    the component of its own unit -/
theorem lt_is_satisfied_by_spec (n : Nat) (l : LockTime) (h : LockTime.fromConsensus n = .ok l)
    (hgt : Height) (tm : Time) :
    l.isSatisfiedBy hgt tm = true ↔ (if n < 500000000 then n ≤ hgt.n else n ≤ tm.n) := by
  rw [fromConsensus_ok n l h, threshold_eq]
  by_cases hn : n < 500000000 <;> simp [hn, LockTime.isSatisfiedBy, Height.le, Time.le]
example : (LockTime.blocks ⟨5⟩).isSatisfiedBy ⟨5⟩ ⟨500000000⟩ = true ∧
    (LockTime.blocks ⟨5⟩).isSatisfiedBy ⟨4⟩ ⟨0xffffffff⟩ = false ∧
    (LockTime.seconds ⟨500000001⟩).isSatisfiedBy ⟨499999999⟩ ⟨500000000⟩ = false := by decide

/-- **monotone in height and time**: what satisfies a lock time keeps satisfying it later -/
theorem lt_is_satisfied_by_monotone (l : LockTime) (hgt hgt' : Height) (tm tm' : Time)
    (h : l.isSatisfiedBy hgt tm = true) (hh : hgt.n ≤ hgt'.n) (ht : tm.n ≤ tm'.n) :
    l.isSatisfiedBy hgt' tm' = true := by
  cases l <;> simp_all [LockTime.isSatisfiedBy, Height.le, Time.le] <;> omega
example : (LockTime.seconds ⟨500000001⟩).isSatisfiedBy ⟨0⟩ ⟨500000001⟩ = true := by decide

/-- **`ZERO` is always satisfied** ("able to be included immediately in any block") -/
theorem lt_zero_always_satisfied (hgt : Height) (tm : Time) : LockTime.zero.isSatisfiedBy hgt tm = true := by
  rw [zero_eq]
  simp [LockTime.isSatisfiedBy, Height.le]

/-- `ZERO` is the lock time of consensus value 0 -/
theorem lt_zero_is_consensus_zero : LockTime.fromConsensus 0 = .ok LockTime.zero ∧ LockTime.zero.toConsensusU32 = 0 := by
  decide

/-- **comparison**: `partial_cmp` is the comparison of the values within a unit and `None` across units;
    `is_same_unit` is an equivalence with the two units as classes -/
theorem lt_partial_cmp_spec (a b : LockTime) :
    a.partialCmp b = (if a.isSameUnit b then some (cmpNat a.toConsensusU32 b.toConsensusU32) else none) ∧
    (a.isSameUnit b = (a.isBlockHeight == b.isBlockHeight)) ∧
    (a.le b = true ↔ a.isSameUnit b = true ∧ a.toConsensusU32 ≤ b.toConsensusU32) := by
  refine ⟨?_, ?_, le_iff a b⟩ <;> cases a <;> cases b <;> rfl

/-- a lock time that is `<=` a satisfied one is satisfied (the documented use of `partial_cmp`: `n <= lock_time`) -/
theorem lt_is_satisfied_by_antitone (q l : LockTime) (hgt : Height) (tm : Time) (hle : q.le l = true)
    (hs : l.isSatisfiedBy hgt tm = true) : q.isSatisfiedBy hgt tm = true :=
  isSatisfiedBy_of_le q l hgt tm hle hs
example : (LockTime.blocks ⟨3⟩).le (.blocks ⟨7⟩) = true ∧ (LockTime.blocks ⟨7⟩).isSatisfiedBy ⟨7⟩ ⟨500000000⟩ = true := by
  decide

/-- … and for a transaction lock time `txl` of the same unit as `n`, "`n` is satisfied" is `n <= txl` -/
theorem lt_satisfied_is_le (l : LockTime) (hgt : Height) (tm : Time) :
    l.isSatisfiedBy hgt tm = l.le (match l with | .blocks _ => .blocks hgt | .seconds _ => .seconds tm) := by
  cases l with
  | blocks x =>
    simp only [LockTime.isSatisfiedBy, LockTime.le, LockTime.partialCmp, Height.le, Height.cmp]
    unfold cmpNat
    by_cases h1 : x.n < hgt.n
    · simp [h1]; omega
    · by_cases h2 : x.n = hgt.n
      · simp [h2]
      · simp [h1, h2]; omega
  | seconds x =>
    simp only [LockTime.isSatisfiedBy, LockTime.le, LockTime.partialCmp, Time.le, Time.cmp]
    unfold cmpNat
    by_cases h1 : x.n < tm.n
    · simp [h1]; omega
    · by_cases h2 : x.n = tm.n
      · simp [h2]
      · simp [h1, h2]; omega

/-- **text**: `FromStr` undoes `Display` on every value of each type (decimal through `parse::int::<u32>`,
    C20 `text_roundtrip_u32`) -/
theorem lt_text_roundtrip :
    (∀ l : LockTime, l.Valid → LockTime.fromStr (l.display false) = .ok l) ∧
    (∀ h : Height, h.Valid → Height.fromStr h.display = .ok h) ∧
    (∀ t : Time, t.Valid → Time.fromStr t.display = .ok t) ∧
    (∀ s : Sequence, s.Valid → Sequence.fromStr s.display = .ok s) :=
  ⟨lockTime_fromStr_display, height_fromStr_display, time_fromStr_display, sequence_fromStr_display⟩
example : (Sequence.mk 0xffffffff).Valid ∧ (Height.mk 0).Valid ∧ (Time.mk 500000000).Valid := by decide

/-- the alternate `Display` names the unit -/
example : String.ofList ((LockTime.blocks ⟨100⟩).display true) = "block-height 100" ∧
    String.ofList ((LockTime.seconds ⟨500000000⟩).display true) = "block-time 500000000 (seconds since epoch)" ∧
    String.ofList ((LockTime.blocks ⟨100⟩).display false) = "100" := by decide

/-! #### Sequence -/

/-- **`is_final` ↔ 0xffffffff; `enables_absolute_lock_time` ↔ not final; `is_rbf` ↔ below 0xfffffffe** -/
theorem seq_final_rbf (s : Sequence) :
    (s.isFinal = true ↔ s.n = 0xffffffff) ∧
    (s.enablesAbsoluteLockTime = true ↔ s.n ≠ 0xffffffff) ∧
    (s.enablesAbsoluteLockTime = !s.isFinal) ∧
    (s.isRbf = true ↔ s.n < 0xfffffffe) := by
  obtain ⟨n⟩ := s
  have h1 : (Sequence.mk n).isFinal = true ↔ n = 0xffffffff := by
    simp only [Sequence.isFinal, seqMax_eq, beq_iff_eq, Sequence.mk.injEq]
  refine ⟨h1, ?_, rfl, ?_⟩
  · simp only [Sequence.enablesAbsoluteLockTime, Bool.not_eq_true', ne_eq]
    rw [← Bool.not_eq_true, h1]
  · simp only [Sequence.isRbf, seqMinNoRbf_eq, decide_eq_true_eq]

/-- **`is_relative_lock_time` ↔ bit 31 clear; height-locked and time-locked partition the relative lock
    times by bit 22**; without a relative lock time neither holds -/
theorem seq_relative_partition (s : Sequence) :
    (s.isRelativeLockTime = true ↔ s.n.testBit 31 = false) ∧
    (s.isHeightLocked = true ↔ s.n.testBit 31 = false ∧ s.n.testBit 22 = false) ∧
    (s.isTimeLocked = true ↔ s.n.testBit 31 = false ∧ s.n.testBit 22 = true) ∧
    (s.isRelativeLockTime = true → s.isHeightLocked = !s.isTimeLocked) ∧
    (s.isRelativeLockTime = false → s.isHeightLocked = false ∧ s.isTimeLocked = false) := by
  refine ⟨isRelativeLockTime_iff s, isHeightLocked_iff s, isTimeLocked_iff s, ?_, ?_⟩
  · intro hr
    have h31 := (isRelativeLockTime_iff s).mp hr
    have hH := isHeightLocked_iff s
    have hT := isTimeLocked_iff s
    cases hb : s.n.testBit 22 <;> cases hh : s.isHeightLocked <;> cases ht : s.isTimeLocked <;>
      simp_all
  · intro hr
    simp [Sequence.isHeightLocked, Sequence.isTimeLocked, hr]

/-- a final sequence and the two no-relative-lock constants carry no relative lock time: bit 31 is set from
    0x80000000 up -/
theorem seq_relative_iff_below_2_31 (s : Sequence) (hs : s.Valid) :
    s.isRelativeLockTime = true ↔ s.n < 2^31 := by
  rw [isRelativeLockTime_iff]
  constructor
  · intro h
    apply Classical.byContradiction
    intro hge
    have hge : 2^31 ≤ s.n := Nat.le_of_not_lt hge
    have hs : s.n < 2^32 := hs
    have : s.n.testBit 31 = true := by
      rw [Nat.testBit_eq_decide_div_mod_eq]
      have : s.n / 2^31 = 1 := by omega
      simp [this]
    rw [h] at this; cases this
  · intro h; exact Nat.testBit_lt_two_pow h
example : (Sequence.mk 0x7fffffff).Valid := by decide

/-- **`from_height(h)` is a height-locked relative lock time with value `h`** -/
theorem seq_from_height_spec (h : Nat) (hh : h < 2^16) :
    (Sequence.fromHeight h).isRelativeLockTime = true ∧ (Sequence.fromHeight h).isHeightLocked = true ∧
    (Sequence.fromHeight h).isTimeLocked = false ∧ (Sequence.fromHeight h).n % 2^16 = h ∧
    (Sequence.fromHeight h).n = h := by
  obtain ⟨b31, b22⟩ := fromHeight_bits h hh
  refine ⟨(isRelativeLockTime_iff _).mpr b31, (isHeightLocked_iff _).mpr ⟨b31, b22⟩, ?_, Nat.mod_eq_of_lt hh, rfl⟩
  cases ht : (Sequence.fromHeight h).isTimeLocked with
  | false => rfl
  | true => have := ((isTimeLocked_iff _).mp ht).2; rw [b22] at this; cases this
example : (65535 : Nat) < 2^16 := by decide

/-- **`from_512_second_intervals(i)` is a time-locked relative lock time with value `i`** (bit 22 added) -/
theorem seq_from_512_spec (i : Nat) (hi : i < 2^16) :
    (Sequence.from512SecondIntervals i).isRelativeLockTime = true ∧
    (Sequence.from512SecondIntervals i).isTimeLocked = true ∧
    (Sequence.from512SecondIntervals i).isHeightLocked = false ∧
    (Sequence.from512SecondIntervals i).n % 2^16 = i ∧
    (Sequence.from512SecondIntervals i).n = i + 2^22 := by
  obtain ⟨b31, b22, hm⟩ := from512_bits i hi
  refine ⟨(isRelativeLockTime_iff _).mpr b31, (isTimeLocked_iff _).mpr ⟨b31, b22⟩, ?_, hm, from512_n i hi⟩
  cases ht : (Sequence.from512SecondIntervals i).isHeightLocked with
  | false => rfl
  | true => have := ((isHeightLocked_iff _).mp ht).2; rw [b22] at this; cases this

/-- **`from_seconds_floor`**: succeeds exactly below 65536·512 seconds; the result is the time-locked
    sequence of `⌊s/512⌋` intervals, so `value·512 ≤ s < (value+1)·512`; otherwise `IntegerOverflow` -/
theorem seq_from_seconds_floor_spec (s : Nat) :
    (s < 2^16 * 512 → ∃ q, Sequence.fromSecondsFloor s = .ok q ∧ q = Sequence.from512SecondIntervals (s / 512) ∧
        q.isTimeLocked = true ∧ (q.n % 2^16) * 512 ≤ s ∧ s < (q.n % 2^16 + 1) * 512) ∧
    (2^16 * 512 ≤ s → Sequence.fromSecondsFloor s = .err "IntegerOverflow") := by
  rw [fromSecondsFloor_eq]
  constructor
  · intro h
    rw [if_pos h]
    have hi : s / 512 < 2^16 := by omega
    have ht := (seq_from_512_spec (s / 512) hi).2.1
    have hm := (seq_from_512_spec (s / 512) hi).2.2.2.1
    exact ⟨_, rfl, rfl, ht, floor_bracket s _ hm⟩
  · intro h
    rw [if_neg (by omega)]

/-- **`from_seconds_ceil`**: succeeds exactly up to 65535·512 seconds; the result is the time-locked
    sequence of `⌈s/512⌉` intervals, so `s ≤ value·512 < s + 512`; otherwise `IntegerOverflow` -/
theorem seq_from_seconds_ceil_spec (s : Nat) :
    (s ≤ (2^16 - 1) * 512 → ∃ q, Sequence.fromSecondsCeil s = .ok q ∧
        q = Sequence.from512SecondIntervals ((s + 511) / 512) ∧
        q.isTimeLocked = true ∧ s ≤ (q.n % 2^16) * 512 ∧ (q.n % 2^16) * 512 < s + 512) ∧
    ((2^16 - 1) * 512 < s → Sequence.fromSecondsCeil s = .err "IntegerOverflow") := by
  rw [fromSecondsCeil_eq]
  constructor
  · intro h
    rw [if_pos h]
    have hi : (s + 511) / 512 < 2^16 := by omega
    have ht := (seq_from_512_spec ((s + 511) / 512) hi).2.1
    have hm := (seq_from_512_spec ((s + 511) / 512) hi).2.2.2.1
    exact ⟨_, rfl, rfl, ht, ceil_bracket s _ hm⟩
  · intro h
    rw [if_neg (by omega)]

/-- **floor and ceil bracket the argument**: when both succeed, `floor·512 ≤ s ≤ ceil·512`, they differ by at
    most one interval and coincide exactly on multiples of 512; neither ever panics -/
theorem seq_floor_ceil_bracket (s : Nat) (f c : Sequence)
    (hf : Sequence.fromSecondsFloor s = .ok f) (hc : Sequence.fromSecondsCeil s = .ok c) :
    (f.n % 2^16) * 512 ≤ s ∧ s ≤ (c.n % 2^16) * 512 ∧ f.n % 2^16 ≤ c.n % 2^16 ∧ c.n % 2^16 ≤ f.n % 2^16 + 1 ∧
    (f = c ↔ s % 512 = 0) := by
  rw [fromSecondsFloor_eq] at hf
  rw [fromSecondsCeil_eq] at hc
  split at hf
  · split at hc
    · rename_i h1 h2
      cases hf; cases hc
      have hi1 : s / 512 < 2^16 := by omega
      have hi2 : (s + 511) / 512 < 2^16 := by omega
      have hm1 := (seq_from_512_spec (s / 512) hi1).2.2.2.1
      have hn1 := (seq_from_512_spec (s / 512) hi1).2.2.2.2
      have hm2 := (seq_from_512_spec ((s + 511) / 512) hi2).2.2.2.1
      have hn2 := (seq_from_512_spec ((s + 511) / 512) hi2).2.2.2.2
      obtain ⟨b1, b2, b3, b4⟩ := floor_ceil_bracket s _ _ hm1 hm2
      refine ⟨b1, b2, b3, b4, ?_⟩
      constructor
      · intro he
        have := congrArg Sequence.n he
        rw [hn1, hn2] at this
        exact (floor_eq_ceil_iff s).mp this
      · intro hz
        have h3 := (floor_eq_ceil_iff s).mpr hz
        have h4 : s / 512 = (s + 511) / 512 := Nat.add_right_cancel h3
        rw [h4]
    · cases hc
  · cases hf
example : Sequence.fromSecondsFloor 1000 = .ok ⟨0x400001⟩ ∧ Sequence.fromSecondsCeil 1000 = .ok ⟨0x400002⟩ ∧
    Sequence.fromSecondsFloor 33554431 = .ok ⟨0x40ffff⟩ ∧ Sequence.fromSecondsCeil 33553921 = .err "IntegerOverflow" := by
  decide

theorem seq_from_seconds_no_panic (s : Nat) (site : String) :
    Sequence.fromSecondsFloor s ≠ .panic site ∧ Sequence.fromSecondsCeil s ≠ .panic site := by
  rw [fromSecondsFloor_eq, fromSecondsCeil_eq]
  constructor <;> split <;> intro c <;> cases c

/-- `from_consensus` / `to_consensus_u32` are the identity on the inner value -/
theorem seq_consensus_roundtrip (n : Nat) (s : Sequence) :
    (Sequence.fromConsensus n).toConsensusU32 = n ∧ Sequence.fromConsensus s.toConsensusU32 = s := ⟨rfl, rfl⟩

/-- **the constants do what their documentation says**: `MAX` disables lock time and replace-by-fee; `ZERO`
    enables both; `ENABLE_LOCKTIME_NO_RBF` enables the absolute lock time only; `ENABLE_RBF_NO_LOCKTIME`
    enables replace-by-fee and the absolute lock time; none of the three high constants is a relative lock time -/
theorem seq_constants_as_documented :
    (Sequence.max.isFinal = true ∧ Sequence.max.enablesAbsoluteLockTime = false ∧ Sequence.max.isRbf = false ∧
      Sequence.max.isRelativeLockTime = false) ∧
    (Sequence.zero.isRbf = true ∧ Sequence.zero.enablesAbsoluteLockTime = true ∧ Sequence.zero.isHeightLocked = true) ∧
    (Sequence.enableLocktimeNoRbf.enablesAbsoluteLockTime = true ∧ Sequence.enableLocktimeNoRbf.isRbf = false ∧
      Sequence.enableLocktimeNoRbf.isRelativeLockTime = false) ∧
    (Sequence.enableRbfNoLocktime.isRbf = true ∧ Sequence.enableRbfNoLocktime.enablesAbsoluteLockTime = true ∧
      Sequence.enableRbfNoLocktime.isRelativeLockTime = false) ∧
    Sequence.default = Sequence.max := by decide

/-! #### bridge: the BIP370 lock time as a `LockTime` -/

/-- **the lock time a PSET selects, viewed as a `LockTime`, honours every input**: when some input constrains
    the lock time and `locktime()` returns `n`, then `LockTime::from_consensus(n)` is a lock time `l` such that
    * `l` is a block height exactly when every constraining input supports a height (height preferred);
    * every constraining input states a requirement of the unit of `l`;
    * `l` is `>=` every stated requirement of its unit — hence **any (height, time) that satisfies `l` (via
      `is_satisfied_by`) satisfies each of them**;
    * `l` is itself one of the stated requirements (the maximum, not more).
    `reqLocks r` are the requirements of input `r` as `LockTime`s (`LockTime::from`); `WellTyped`: heights below,
    times at or above the threshold, as the Rust types guarantee. -/
theorem locktime_honours_inputs (fb : Option Nat) (reqs : List LockReq) (hw : WellTyped reqs)
    (hc : ∃ r ∈ reqs, constraining r = true) (n : Nat) (h : locktimeOf fb reqs = .ok n) :
    ∃ l, LockTime.fromConsensus n = .ok l ∧
      (l.isBlockHeight = true ↔ ∀ r ∈ reqs, constraining r = true → r.2.isSome = true) ∧
      (∀ r ∈ reqs, constraining r = true → ∃ q ∈ reqLocks r, q.isSameUnit l = true) ∧
      (∀ r ∈ reqs, ∀ q ∈ reqLocks r, q.isSameUnit l = true → q.le l = true) ∧
      (∀ hgt tm, l.isSatisfiedBy hgt tm = true →
        ∀ r ∈ reqs, ∀ q ∈ reqLocks r, q.isSameUnit l = true → q.isSatisfiedBy hgt tm = true) ∧
      (∃ r ∈ reqs, l ∈ reqLocks r) := by
  obtain ⟨l, h1, h2, h3, h4, h5⟩ := bridge_core fb reqs hw hc n h
  exact ⟨l, h1, h2, h3, h4,
    fun hgt tm hs r hr q hq hu => isSatisfiedBy_of_le q l hgt tm (h4 r hr q hq hu) hs, h5⟩
/-- the hypotheses are satisfiable: a time-only input forces the time unit, 500000009 dominates both times -/
example : WellTyped [(some 500000005, some 7), (some 500000009, none)] ∧
    (∃ r ∈ [((some 500000005 : Option Nat), (some 7 : Option Nat)), (some 500000009, none)], constraining r = true) ∧
    locktimeOf (some 77) [(some 500000005, some 7), (some 500000009, none)] = .ok 500000009 := by
  refine ⟨?_, ⟨_, List.mem_cons_self, rfl⟩, by decide⟩
  intro r hr
  simp only [List.mem_cons, List.not_mem_nil, or_false] at hr
  rcases hr with rfl | rfl <;> constructor <;> intro x hx <;> cases hx <;> decide

/-- **the error case exactly**: `LocktimeConflict` iff some input supports only a time lock and some input
    only a height lock -/
theorem locktime_conflict_iff (fb : Option Nat) (reqs : List LockReq) :
    locktimeOf fb reqs = .err "LocktimeConflict" ↔
      (∃ r ∈ reqs, r.1.isSome = true ∧ r.2.isSome = false) ∧ (∃ r ∈ reqs, r.2.isSome = true ∧ r.1.isSome = false) :=
  conflict_iff fb reqs

/-- **the fallback case exactly**: when no input constrains the lock time the result is the fallback, or
    `LockTime::ZERO` (consensus value 0) when there is none -/
theorem locktime_fallback_exact (fb : Option Nat) (reqs : List LockReq) (hno : ∀ r ∈ reqs, constraining r = false) :
    locktimeOf fb reqs = .ok (fb.getD 0) ∧
    (fb = none → LockTime.fromConsensus (fb.getD 0) = .ok LockTime.zero) := by
  refine ⟨fallback_iff fb reqs hno, ?_⟩
  intro h; subst h; decide
example : ∀ r ∈ [((none : Option Nat), (none : Option Nat))], constraining r = false := by decide

/-- **the typed function and the untyped model agree**: `locktimeTyped` keeps the `Time` / `Height` / `LockTime`
    types of the Rust code (`x.into()`, `unwrap_or(LockTime::ZERO)`); its consensus value is what `locktimeOf`
    computes on the erased numbers, error for error and (no) panic for panic -/
theorem locktime_typed_agrees (fb : Option LockTime) (reqs : List TypedReq) :
    (locktimeTyped fb reqs).map LockTime.toConsensusU32 =
      locktimeOf (fb.map LockTime.toConsensusU32) (reqs.map TypedReq.erase) :=
  locktimeTyped_erase fb reqs

/-- … and on values of the types (`TypedValid`) the typed result is a value of `LockTime` and is exactly
    `LockTime::from_consensus` of the number the untyped model returns: the `Blocks`/`Seconds` variant chosen
    by the match arm coincides with the threshold test -/
theorem locktime_typed_view (fb : Option LockTime) (reqs : List TypedReq) (hfb : ∀ l, fb = some l → l.Valid)
    (hv : TypedValid reqs) (l : LockTime) (h : locktimeTyped fb reqs = .ok l) :
    l.Valid ∧ locktimeOf (fb.map LockTime.toConsensusU32) (reqs.map TypedReq.erase) = .ok l.toConsensusU32 ∧
    LockTime.fromConsensus l.toConsensusU32 = .ok l := by
  have hval := locktimeTyped_valid fb reqs hfb hv l h
  refine ⟨hval, ?_, fromConsensus_toConsensus l hval⟩
  rw [← locktimeTyped_erase, h]
  rfl
example : TypedValid [(some ⟨500000005⟩, some ⟨7⟩)] ∧
    locktimeTyped (some (.seconds ⟨500000000⟩)) [(some ⟨500000005⟩, some ⟨7⟩)] = .ok (.blocks ⟨7⟩) := by
  refine ⟨?_, by decide⟩
  intro r hr
  simp only [List.mem_cons, List.not_mem_nil, or_false] at hr
  subst hr
  constructor <;> intro x hx <;> cases hx <;> decide

/-- **sequences in the PSET views**: an input without `sequence` extracts to the final sequence
    (`unwrap_or(Sequence::MAX)`), which does not enable the absolute lock time; the unique id zeroes every
    sequence with `Sequence::from_height(0)`, which is `Sequence::ZERO`, is not final and enables it -/
theorem extract_default_sequence_is_final (x : PsetInput) (h : x.sequence = none) :
    x.toTxIn.sequence = Sequence.max.n ∧ (Sequence.fromConsensus x.toTxIn.sequence).isFinal = true ∧
    (Sequence.fromConsensus x.toTxIn.sequence).enablesAbsoluteLockTime = false := by
  have hs : x.toTxIn.sequence = 0xffffffff := by
    rw [(toTxIn_fields x).2.2.2.2.1, h]; rfl
  rw [hs]
  decide
example : ({} : PsetInput).sequence = none := rfl

theorem unique_id_sequence_is_from_height_zero :
    Sequence.fromHeight 0 = Sequence.zero ∧ (Sequence.fromHeight 0).toConsensusU32 = 0 ∧
    (Sequence.fromHeight 0).isFinal = false ∧ (Sequence.fromHeight 0).enablesAbsoluteLockTime = true := by decide

end EV.Props.C08
