/-
  C01 — consensus encoding is an exact bijection on canonical values.
  Property theorems only (helper lemmas: EV.Proofs.CodecPrim / CodecTx / CodecBlock).

  For each consensus type τ the model has `dec : Bytes → Res (τ × Bytes)` (= `deserialize_partial`),
  `enc : τ → Bytes` and an explicit canonicity predicate `wf`.  `Lawful dec enc wf` bundles
    sound    : dec bs = ok (v, rest) → bs = enc v ++ rest ∧ wf v     (accepted bytes re-encode identically;
                                                                      every decoded value is canonical)
    complete : wf v → dec (enc v ++ r) = ok (v, r)                    (canonical values round-trip, and the
                                                                      decoder stops exactly at the end)
    total    : dec bs ≠ panic                                         (errors, never panics)
  Curve-point / tweak / proof validity are arbitrary predicates `P : Prims`; `size_of` facts are
  parameters constrained only to be positive.
-/
import EV.Proofs.CodecPrim
import EV.Proofs.CodecTx
import EV.Proofs.CodecBlock
namespace EV.Props.C01
open EV EV.Codec EV.Proofs.CodecPrim EV.Proofs.CodecTx EV.Proofs.CodecBlock

variable (P : Prims)

/-! ### the three laws for every listed type -/
theorem varint_laws : Lawful varint encVarint (fun n => n < 2^64) := varint_lawful
theorem script_laws : Lawful bytesVec encBytesVec (fun b => b.length ≤ maxVecSize) := bytesVec_lawful
theorem locktime_laws : Lawful (le 4) (encLe 4) (fun n => n < 256 ^ 4) := le_lawful 4
theorem value_laws : Lawful (Value.dec P) Value.enc (Value.wf P) := value_lawful P
theorem asset_laws : Lawful (Asset.dec P) Asset.enc (Asset.wf P) := asset_lawful P
theorem nonce_laws : Lawful (Nonce.dec P) Nonce.enc (Nonce.wf P) := nonce_lawful P
theorem issuance_laws : Lawful (AssetIssuance.dec P) AssetIssuance.enc (AssetIssuance.wf P) := issuance_lawful P
theorem outpoint_laws : Lawful OutPoint.dec OutPoint.enc OutPoint.wf := outpoint_lawful
theorem txInWitness_laws : Lawful (TxInWitness.dec P) TxInWitness.enc (TxInWitness.wf P) := txInWitness_lawful P
theorem txOutWitness_laws : Lawful (TxOutWitness.dec P) TxOutWitness.enc (TxOutWitness.wf P) := txOutWitness_lawful P
theorem txIn_laws : Lawful (TxIn.dec P) TxIn.enc (fun i => i.wfBody P ∧ i.witness = TxInWitness.empty) := txIn_lawful P
theorem txOut_laws : Lawful (TxOut.dec P) TxOut.enc (fun o => o.wfBody P ∧ o.witness = TxOutWitness.empty) := txOut_lawful P
theorem tx_laws (hs : SizesPos P) : Lawful (Tx.dec P) Tx.enc (Tx.wf P) := tx_lawful P hs
theorem params_laws : Lawful Params.dec Params.enc Params.wf := params_lawful
theorem header_laws : Lawful BlockHeader.dec BlockHeader.enc BlockHeader.wf := header_lawful
theorem block_laws (hs : SizesPos P) : Lawful (Block.dec P) Block.enc (Block.wf P) := block_lawful P hs

/-! ### consequences stated as in the property -/

/-- `deserialize` succeeds exactly when the partial decoder consumed everything -/
theorem deserialize_iff (bs : Bytes) (t : Tx) :
    Tx.deserialize P bs = .ok t ↔ Tx.dec P bs = .ok (t, []) := by
  unfold Tx.deserialize
  constructor
  · intro h
    split at h <;> simp_all
  · intro h
    simp [h]

/-- whenever `deserialize` accepts, re-encoding reproduces exactly the input bytes … -/
theorem deserialize_reencode (hs : SizesPos P) (bs : Bytes) (t : Tx)
    (h : Tx.deserialize P bs = .ok t) : t.enc = bs ∧ t.wf P := by
  have h' := (deserialize_iff P bs t).1 h
  have := (tx_lawful P hs).sound bs t [] h'
  simpa using And.intro this.1.symm this.2

/-- … so no two different byte strings decode to equal values -/
theorem deserialize_injective (hs : SizesPos P) (a b : Bytes) (t : Tx)
    (ha : Tx.deserialize P a = .ok t) (hb : Tx.deserialize P b = .ok t) : a = b := by
  rw [← (deserialize_reencode P hs a t ha).1, ← (deserialize_reencode P hs b t hb).1]

/-- every canonical value encodes to bytes that `deserialize` maps back to it -/
theorem serialize_deserialize (hs : SizesPos P) (t : Tx) (h : t.wf P) :
    Tx.deserialize P t.enc = .ok t := by
  have := (tx_lawful P hs).complete t [] h
  simp only [List.append_nil] at this
  simp [Tx.deserialize, this]

/-- every value the decoder returns is canonical, hence round-trips -/
theorem decoded_roundtrips (hs : SizesPos P) (bs : Bytes) (t : Tx) (h : Tx.deserialize P bs = .ok t) :
    Tx.deserialize P t.enc = .ok t :=
  serialize_deserialize P hs t (deserialize_reencode P hs bs t h).2

/-- the hard-coded lengths the encoders report are the numbers of bytes written -/
theorem value_reported_length (v : Value) (h : v.wf P) : v.enc.length = v.encodedLength := value_enc_length P v h
theorem asset_reported_length (v : Asset) (h : v.wf P) : v.enc.length = v.encodedLength := asset_enc_length P v h
theorem nonce_reported_length (v : Nonce) (h : v.wf P) : v.enc.length = v.encodedLength := nonce_enc_length P v h
theorem varint_reported_length (n : Nat) : (encVarint n).length = varintSize n := encVarint_length n
theorem bytes_reported_length (b : Bytes) : (encBytesVec b).length = varintSize b.length + b.length := encBytesVec_length b
theorem tx_reported_length (t : Tx) (h : t.wf P) : t.size = t.enc.length := size_eq_enc_length P t h

/-! ### constructors produce canonical values -/
def newFee (amount : Nat) (asset : Bytes) : TxOut :=
  ⟨.explicit asset, .explicit amount, .null, [], TxOutWitness.empty⟩

theorem newFee_wf (amount : Nat) (asset : Bytes) (ha : amount < 2^64) (hl : asset.length = 32) :
    (newFee amount asset).wf P := by
  simp [newFee, TxOut.wf, TxOut.wfBody, Asset.wf, Value.wf, Nonce.wf, TxOutWitness.wf, TxOutWitness.empty,
    wfOptProof, ha, hl, maxVecSize]

def defaultTxIn : TxIn := ⟨OutPoint.null, false, [], 0xffffffff, AssetIssuance.null, TxInWitness.empty⟩

theorem defaultTxIn_wf : defaultTxIn.wf P := by
  simp [defaultTxIn, TxIn.wf, TxIn.wfBody, OutPoint.null, TxIn.hasIssuance, AssetIssuance.null,
    AssetIssuance.isNull, Value.isNull, TxInWitness.wf, TxInWitness.empty, wfOptProof, TxInWitness.wfStack, maxVecSize]

/-! ### non-vacuity: canonical values with the features the property lists exist -/
section Examples
def P0 : Prims := ⟨fun _ => true, fun _ => true, fun _ => true, fun _ => true, fun _ => true, fun _ => true, 328, 160, 56⟩

/-- a pegin + issuance input (explicit amount, null keys) -/
def exIn : TxIn :=
  ⟨⟨List.replicate 32 7, 5⟩, true, [0x51], 0xfffffffe,
   ⟨List.replicate 32 0, List.replicate 32 9, .explicit 1000, .null⟩, TxInWitness.empty⟩

example : exIn.wfBody P0 := by
  simp [exIn, TxIn.wfBody, TxIn.hasIssuance, AssetIssuance.isNull, Value.isNull, AssetIssuance.wf, Value.wf, P0, maxVecSize]

example : (TxIn.dec P0 (exIn.enc ++ [1, 2, 3])) = .ok (exIn, [1, 2, 3]) := by decide
end Examples

end EV.Props.C01
