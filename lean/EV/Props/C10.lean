/-
  C10 — fallible public APIs are total: errors, never panics or unbounded allocation.

  Property theorems only (helper lemmas: EV.Proofs.Accessors and the codec-law files of C01).
  A modelled API returns `Res α = ok | err | panic site`; every Rust operation that can panic
  (index, slice, `unwrap`/`expect`, `debug_assert!`, checked arithmetic) is an explicit `panic`
  branch of the model, so `… ≠ .panic s` for all inputs says that none of them can fire.

  Scope of THIS file: the accessors modelled in EV.Model.Accessors, the allocation guard of the
  consensus vector decoders, and re-exports of the totality facts proved for C01/C12/C18/C19.
  The no-panic lemmas of the other cross-cutting models (scripts C16, blech32/addresses C17/C06,
  taproot C15, sighash C03/C13, PSET C08/C14, blinding C04/C05/C09) are referenced from the
  INTEGRATION block at the end.  The inventory of panic sites is hand-made; it is tied to the
  Rust source by the correspondence ops `acc.*` and by the direct search of harness/src/props/c10.rs,
  which also *measures* heap usage and panics inside dependencies on the implementation.
-/
import EV.Model.Accessors
import EV.Model.Secp
import EV.Proofs.Accessors
import EV.Props.C01
import EV.Props.C12
import EV.Props.C18
import EV.Props.C19
import EV.Props.C03
import EV.Props.C05
import EV.Props.C06
import EV.Props.C07
import EV.Props.C08
import EV.Props.C09
import EV.Props.C11
import EV.Props.C14
import EV.Props.C15
import EV.Props.C17
namespace EV.Props.C10
open EV EV.Codec EV.Acc EV.Proofs.CodecPrim EV.Proofs.CodecTx

/-! ### script instruction iterator, null data, pegout data -/

/-- `Script::instructions()` / `instructions_minimal()` iterated to the end never index out of the
    script, for every byte string, and need at most `len + 1` calls of `next` -/
theorem no_panic_instructions (minimal : Bool) (script : Bytes) (s : String) :
    instructions minimal script ≠ .panic s :=
  EV.Proofs.Accessors.instructions_no_panic minimal script s

/-- one call of `Instructions::next` never panics, and a yielded instruction consumes ≥ 1 byte
    (so the iterator terminates; "at most one error and then the iterator ends" is built in) -/
theorem no_panic_instructions_next (minimal : Bool) (data : Bytes) :
    (∀ s, step minimal data ≠ .panic s) ∧
    (∀ i rest, step minimal data = .item i rest → rest.length < data.length) :=
  EV.Proofs.Accessors.step_spec minimal data

/-- `TxOut::is_null_data` -/
theorem no_panic_is_null_data (script : Bytes) (s : String) : isNullData script ≠ .panic s :=
  EV.Proofs.Accessors.isNullData_no_panic script s

/-- `TxOut::pegout_data` / `TxOut::is_pegout`, for every output (any script, any value/asset) -/
theorem no_panic_pegout_data (o : TxOut) (s : String) : pegoutData o ≠ .panic s :=
  EV.Proofs.Accessors.pegoutData_no_panic o s

/-- a reported pegout really has the documented shape: explicit value, a 32-byte genesis hash,
    a non-empty destination script -/
theorem pegout_data_shape (o : TxOut) (d : PegoutData) (h : pegoutData o = .ok (some d)) :
    o.value = .explicit d.value ∧ d.asset = o.asset ∧ d.genesisHash.length = 32 ∧ d.scriptPubkey ≠ [] := by
  unfold pegoutData at h
  split at h
  · cases h
  · cases h
  · cases h
  · split at h
    · rename_i value hv
      split at h
      · cases h
      · cases h
      · split at h
        · rename_i g spk rest
          split at h
          · cases h
          · rename_i hg
            split at h
            · cases h
            · rename_i hspk
              split at h
              · cases h
                refine ⟨hv, rfl, ?_, ?_⟩
                · simp only; omega
                · simp only; intro hh; subst hh; simp at hspk
              · cases h
        · cases h
    · cases h

/-! ### minimum value -/

/-- every byte string accepted by `RangeProof::from_slice` (libsecp `rangeproof_getheader`, as
    transcribed in EV.Model.Secp) has at least 65 bytes -/
theorem rangeproof_accepted_length (pr : Bytes) (h : Secp.rangeproof pr = true) : 65 ≤ pr.length := by
  unfold Secp.rangeproof at h
  split at h
  · cases h
  · rename_i b0 rest
    split at h
    · cases h
    · rename_i hc
      simp only [Bool.or_eq_true, decide_eq_true_eq, not_or, Nat.not_lt] at hc
      exact hc.1

/-- `TxOut::minimum_value` never panics when the range proof (if present) has more than 10
    bytes: `prf[0]`, `&prf[2..10]`, `&prf[1..9]`, the `debug_assert!` and the `expect` are all
    inside that bound -/
theorem no_panic_minimum_value (o : TxOut)
    (h : ∀ prf, o.witness.rangeproof = some prf → 10 < prf.length) (s : String) :
    minimumValue o ≠ .panic s :=
  EV.Proofs.Accessors.minimumValue_no_panic o h s

/-- … in particular for every output whose witness was accepted by the decoder (C01 canonicity),
    given only that the range-proof parser rejects anything shorter than 65 bytes -/
theorem no_panic_minimum_value_decoded (P : Prims) (hP : ∀ b, P.rangeproof b = true → 65 ≤ b.length)
    (o : TxOut) (hw : o.witness.wf P) (s : String) : minimumValue o ≠ .panic s := by
  apply no_panic_minimum_value
  intro prf hprf
  have := hw.2
  rw [hprf] at this
  have := hP prf this.2.1
  omega

/-- … and the parser transcribed from libsecp has that property -/
theorem no_panic_minimum_value_secp (a b c : Nat) (o : TxOut) (hw : o.witness.wf (Secp.prims a b c))
    (s : String) : minimumValue o ≠ .panic s :=
  no_panic_minimum_value_decoded (Secp.prims a b c) (fun b hb => rangeproof_accepted_length b hb) o hw s

/-- hence: on every output of every transaction the consensus decoder accepts, `minimum_value`
    cannot panic — for any byte string whatsoever -/
theorem no_panic_minimum_value_of_decoded_tx (P : Prims) (hs : SizesPos P)
    (hP : ∀ b, P.rangeproof b = true → 65 ≤ b.length)
    (bs : Bytes) (t : Tx) (rest : Bytes) (h : Tx.dec P bs = .ok (t, rest))
    (o : TxOut) (ho : o ∈ t.output) (s : String) : minimumValue o ≠ .panic s := by
  obtain ⟨_, _, _, _, _, hout⟩ := ((EV.Props.C01.tx_laws P hs).sound bs t rest h).2
  exact no_panic_minimum_value_decoded P hP o (hout o ho).2 s

/-- the result fits a `u64` whenever the explicit value does -/
theorem minimum_value_lt (o : TxOut) (v : Nat) (hv : ∀ n, o.value = .explicit n → n < 2^64)
    (h : minimumValue o = .ok v) : v < 2^64 := by
  unfold minimumValue at h
  split at h
  · cases h
  · cases h
  · rename_i opret _
    have hmv : (if opret = true then 1 else 0) < 2^64 := by split <;> omega
    generalize (if opret = true then 1 else 0) = mv at h hmv
    unfold minimumValueWith at h
    split at h
    · cases h; exact hmv
    · rename_i n hn; cases h; exact hv _ hn
    · split at h
      · cases h; exact hmv
      · split at h
        · cases h
        · split at h
          · cases h
          · cases h
          · split at h
            · cases h; exact hmv
            · simp only at h
              split at h
              · rename_i b _
                split at h
                · rename_i hb
                  cases h
                  have := beNat_lt b
                  rw [hb] at this
                  exact this
                · cases h
              · cases h
              · cases h

/-! ### pegin data -/

/-- `PeginData::from_pegin_witness`, for every witness stack and hash function -/
theorem no_panic_from_pegin_witness (H : Bytes → Bytes) (w : List Bytes) (txid : Bytes) (vout : Nat) (s : String) :
    fromPeginWitness H w txid vout ≠ .panic s :=
  EV.Proofs.Accessors.fromPeginWitness_no_panic H w txid vout s

/-- `TxIn::pegin_data` -/
theorem no_panic_pegin_data (H : Bytes → Bytes) (i : TxIn) (s : String) : peginData H i ≠ .panic s :=
  EV.Proofs.Accessors.peginData_no_panic H i s

/-- accepted pegin witnesses have exactly the documented layout -/
theorem pegin_data_shape (H : Bytes → Bytes) (w : List Bytes) (txid : Bytes) (vout : Nat) (d : PeginData)
    (h : fromPeginWitness H w txid vout = .ok d) :
    w.length = 6 ∧ d.value < 2^64 ∧ d.asset.length = 32 ∧ d.genesisHash.length = 32 ∧
    80 ≤ d.merkleProof.length ∧ d.referencedBlock = H (d.merkleProof.take 80) ∧
    w = [leBytes 8 d.value, d.asset, d.genesisHash, d.claimScript, d.tx, d.merkleProof] := by
  unfold fromPeginWitness at h
  split at h
  · cases h
  · rename_i hl
    have hl6 : w.length = 6 := by omega
    match w, hl6 with
    | [w0, w1, w2, w3, w4, w5], _ =>
      simp only [idx, List.getElem?_cons_zero, List.getElem?_cons_succ] at h
      split at h
      · cases h
      · rename_i h80
        split at h
        · cases h
        · rename_i h0
          split at h
          · cases h
          · rename_i h1
            split at h
            · cases h
            · rename_i h2
              cases h
              have hlt := leNat_lt w0
              have h0' : w0.length = 8 := by omega
              rw [h0'] at hlt
              refine ⟨rfl, by simpa using hlt, by simp only; omega, by simp only; omega, by simp only; omega, rfl, ?_⟩
              have := leBytes_leNat w0
              rw [h0'] at this
              simp [this]

/-! ### Schnorr signatures and taproot slices -/

/-- `SchnorrSig::from_slice`, for every slice -/
theorem no_panic_schnorrsig_from_slice (sl : Bytes) (s : String) : schnorrSigFromSlice sl ≠ .panic s :=
  EV.Proofs.Accessors.schnorrSig_no_panic sl s

/-- it accepts exactly 64 bytes (default type) or 64 bytes followed by a listed sighash byte -/
theorem schnorrsig_from_slice_ok (sl sig : Bytes) (h : UInt8) (hr : schnorrSigFromSlice sl = .ok (sig, h)) :
    sig.length = 64 ∧ ((sl = sig ∧ h = 0) ∨ (sl = sig ++ [h] ∧ schnorrSighashOfU8 h = true)) := by
  unfold schnorrSigFromSlice at hr
  split at hr
  · rename_i h64
    cases hr
    exact ⟨h64, .inl ⟨rfl, rfl⟩⟩
  · split at hr
    · cases hr
    · rename_i last hlast
      split at hr
      · cases hr
      · rename_i hs
        split at hr
        · rename_i hd
          cases hr
          refine ⟨hd, .inr ⟨?_, by simpa using hs⟩⟩
          have hne : sl ≠ [] := by intro hh; subst hh; simp at hlast
          have := List.dropLast_concat_getLast hne
          rw [List.getLast?_eq_some_getLast hne] at hlast
          cases hlast
          exact this.symm
        · cases hr

/-- `LeafVersion::from_u8` -/
theorem no_panic_leaf_version_from_u8 (v : UInt8) (s : String) : leafVersionFromU8 v ≠ .panic s :=
  EV.Proofs.Accessors.leafVersion_no_panic v s

/-- `TaprootMerkleBranch::from_slice`: the `expect("need array_chunks in stdlib")` never fires -/
theorem no_panic_merkle_branch_from_slice (sl : Bytes) (s : String) : merkleBranchFromSlice sl ≠ .panic s :=
  EV.Proofs.Accessors.merkleBranch_no_panic sl s

/-- an accepted branch has at most 128 nodes of 32 bytes -/
theorem merkle_branch_bound (sl : Bytes) (l : List Bytes) (h : merkleBranchFromSlice sl = .ok l) :
    l.length ≤ 128 ∧ ∀ c ∈ l, c.length = 32 := by
  unfold merkleBranchFromSlice at h
  split at h
  · cases h
  · split at h
    · cases h
    · rename_i h1 h2
      obtain ⟨hl, hc⟩ := EV.Proofs.Accessors.chunks32_ok _ _ _ h
      refine ⟨?_, hc⟩
      have e1 : EV.Gen.c10TaprootControlNodeSize = 32 := rfl
      have e2 : EV.Gen.c10TaprootControlMaxNodeCount = 128 := rfl
      rw [e1, e2] at h2
      rw [hl]
      omega

/-- `ControlBlock::from_slice`, for every slice and every x-only-key acceptance predicate -/
theorem no_panic_control_block_from_slice (xonly : Bytes → Bool) (sl : Bytes) (s : String) :
    controlBlockFromSlice xonly sl ≠ .panic s :=
  EV.Proofs.Accessors.controlBlock_no_panic xonly sl s

/-! ### allocation guard of the consensus vector decoders (`MAX_VEC_SIZE`) -/

/-- `Vec<T>`: when the claimed count times `size_of::<T>()` exceeds `MAX_VEC_SIZE` the decoder
    returns an error whatever the item decoder `d` is — even one that panics or never returns an
    item — i.e. before `Vec::with_capacity` and without decoding anything -/
theorem alloc_bound {α} (m : Nat) (d : Dec α) (bs : Bytes) (n : Nat) (rest : Bytes)
    (hv : varint bs = .ok (n, rest)) (hbig : n * m > maxVecSize) : ∃ e, vecOf m d bs = .err e :=
  EV.Proofs.Accessors.vecOf_guard m d bs n rest hv hbig

/-- the same on the wire: any input that starts with the (minimal) varint of an oversized count -/
theorem alloc_bound_wire {α} (m : Nat) (d : Dec α) (n : Nat) (rest : Bytes)
    (hn : n < 2^64) (hbig : n * m > maxVecSize) : ∃ e, vecOf m d (encVarint n ++ rest) = .err e :=
  alloc_bound m d _ n rest (varint_lawful.complete n rest hn) hbig

/-- `Vec<u8>` (scripts, proofs, witness elements): `vec![0; s]` is not reached for `s > MAX_VEC_SIZE` -/
theorem alloc_bound_bytes (n : Nat) (rest : Bytes) (hn : n < 2^64) (hbig : n > maxVecSize) :
    ∃ e, bytesVec (encVarint n ++ rest) = .err e :=
  EV.Proofs.Accessors.bytesVec_guard _ n rest (varint_lawful.complete n rest hn) hbig

/-- the single up-front allocation request of either decoder is at most `MAX_VEC_SIZE` bytes,
    for every input -/
theorem alloc_request_le (m : Nat) (bs : Bytes) :
    (∀ a, allocVecOf m bs = some a → a ≤ maxVecSize) ∧ (∀ a, allocBytesVec bs = some a → a ≤ maxVecSize) :=
  ⟨fun a h => EV.Proofs.Accessors.allocVecOf_le m bs a h, fun a h => EV.Proofs.Accessors.allocBytesVec_le bs a h⟩

/-- and on success that request is exactly the memory of the decoded vector (nothing is
    over-allocated) -/
theorem alloc_request_exact {α} (m : Nat) (d : Dec α) (bs : Bytes) (l : List α) (rest : Bytes)
    (h : vecOf m d bs = .ok (l, rest)) : allocVecOf m bs = some (l.length * m) :=
  EV.Proofs.Accessors.vecOf_ok_alloc m d bs l rest h (EV.Proofs.Accessors.repeatN_length d)

/-- the nesting of vectors in a transaction is fixed by the types (Transaction → inputs / outputs →
    script; witnesses → stack → element): a decoded transaction holds at most `MAX_VEC_SIZE` bytes
    of `TxIn`/`TxOut` structs, and every byte vector inside it is at most `MAX_VEC_SIZE` long -/
theorem decoded_tx_vectors_bounded (P : Prims) (hs : SizesPos P) (bs : Bytes) (t : Tx) (rest : Bytes)
    (h : Tx.dec P bs = .ok (t, rest)) :
    t.input.length * P.sizeTxIn ≤ maxVecSize ∧ t.output.length * P.sizeTxOut ≤ maxVecSize ∧
    (∀ i ∈ t.input, i.scriptSig.length ≤ maxVecSize ∧
      i.witness.scriptWitness.length * 24 ≤ maxVecSize ∧ i.witness.peginWitness.length * 24 ≤ maxVecSize) ∧
    (∀ o ∈ t.output, o.scriptPubkey.length ≤ maxVecSize) := by
  obtain ⟨_, _, hi, ho, hin, hout⟩ := ((EV.Props.C01.tx_laws P hs).sound bs t rest h).2
  refine ⟨hi, ho, ?_, ?_⟩
  · intro i hi'
    have := hin i hi'
    exact ⟨this.1.2.2.1, this.2.2.2.1.1, this.2.2.2.2.1⟩
  · intro o ho'
    exact (hout o ho').1.2.2.2

/-! ### re-exports: decoders of every consensus type are total (C01) -/

/-- no byte string makes any consensus decoder panic (`deserialize_partial::<T>` for the 16
    modelled types); the laws themselves are C01's -/
theorem decoders_total (P : Prims) (hs : SizesPos P) (bs : Bytes) (s : String) :
    varint bs ≠ .panic s ∧ bytesVec bs ≠ .panic s ∧ bytesVecVec bs ≠ .panic s ∧ le 4 bs ≠ .panic s ∧
    Value.dec P bs ≠ .panic s ∧ Asset.dec P bs ≠ .panic s ∧ Nonce.dec P bs ≠ .panic s ∧
    AssetIssuance.dec P bs ≠ .panic s ∧ OutPoint.dec bs ≠ .panic s ∧
    TxInWitness.dec P bs ≠ .panic s ∧ TxOutWitness.dec P bs ≠ .panic s ∧
    TxIn.dec P bs ≠ .panic s ∧ TxOut.dec P bs ≠ .panic s ∧ Tx.dec P bs ≠ .panic s ∧
    Params.dec bs ≠ .panic s ∧ BlockHeader.dec bs ≠ .panic s ∧ Block.dec P bs ≠ .panic s :=
  ⟨EV.Props.C01.varint_laws.total bs s, EV.Props.C01.script_laws.total bs s, bytesVecVec_lawful.total bs s,
   EV.Props.C01.locktime_laws.total bs s,
   (EV.Props.C01.value_laws P).total bs s, (EV.Props.C01.asset_laws P).total bs s,
   (EV.Props.C01.nonce_laws P).total bs s, (EV.Props.C01.issuance_laws P).total bs s,
   EV.Props.C01.outpoint_laws.total bs s,
   (EV.Props.C01.txInWitness_laws P).total bs s, (EV.Props.C01.txOutWitness_laws P).total bs s,
   (EV.Props.C01.txIn_laws P).total bs s, (EV.Props.C01.txOut_laws P).total bs s,
   EV.Proofs.CodecTx.tx_total P bs s,
   EV.Props.C01.params_laws.total bs s, EV.Props.C01.header_laws.total bs s,
   (EV.Props.C01.block_laws P hs).total bs s⟩

/-- `deserialize::<Transaction>` (the whole-slice wrapper) is total as well -/
theorem deserialize_total (P : Prims) (bs : Bytes) (s : String) : Tx.deserialize P bs ≠ .panic s := by
  unfold Tx.deserialize
  split
  · intro h; cases h
  · intro h; cases h
  · intro h; cases h
  · rename_i s' h
    exact absurd h (EV.Proofs.CodecTx.tx_total P bs s')

/-! ### re-exports: accessors on decoded values (C12, C18, C19) -/

/-- `discount_weight` / `discount_vsize`: the `usize` subtractions never underflow on a decoded
    transaction (C12) -/
theorem no_panic_discount_weight (P : Prims) (t : Tx) (h : t.wf P) :
    t.discountWeight ≠ none ∧ t.discountVsize ≠ none := by
  have h1 := (EV.Props.C12.discount_weight_eq P t h).2
  have h2 := EV.Props.C12.discount_vsize_eq P t h
  rw [h1, h2]; simp

/-- `fast_merkle_root` (ids, dynafed roots) never panics below 2^31 leaves (C18) -/
theorem no_panic_fast_merkle_root {α} (comb : α → α → α) (zero : α) (leaves : List α)
    (h : leaves.length ≤ 2^31) : EV.FastMerkle.fast comb zero leaves ≠ none :=
  EV.Props.C18.fast_no_panic comb zero leaves h

/-- `Params::calculate_root`, `BlockHeader::calculate_dynafed_params_root` (C19) -/
theorem no_panic_dynafed_roots (H : Hashes) (p : Params) (h : BlockHeader) :
    p.calculateRoot H ≠ none ∧ h.dynafedParamsRoot H ≠ none :=
  ⟨EV.Props.C19.root_no_panic H p, EV.Props.C19.header_root_no_panic H h⟩

/-! ### fallible APIs owned by other properties: totality lemmas proved there (integration) -/

/-- taproot signature hash (`SighashCache::taproot_*`): for every index (also ≥ #inputs / #outputs), every
    `SchnorrSighashType`, `Prevouts::All` of any length and `Prevouts::One` with any index the result is a
    message or one of the five named errors — never a panic (C03) -/
theorem no_panic_taproot_sighash : type_of% @EV.Props.C03.taproot_never_panics := @EV.Props.C03.taproot_never_panics

/-- `Address::from_str` / `parse_with_params` (C06) and the blech32 / bech32 segwit decoders incl.
    `new_bech32` (C17) -/
theorem no_panic_address_parse : type_of% @EV.Props.C06.parse_total := @EV.Props.C06.parse_total
theorem no_panic_segwit_hrpstring : type_of% @EV.Props.C17.segwitNew_total := @EV.Props.C17.segwitNew_total

/-- the PSET decoder on any byte string (C07) -/
theorem no_panic_pset_deserialize : type_of% @EV.Props.C07.dec_total := @EV.Props.C07.dec_total

/-- `Pset::{extract_tx, unique_id, locktime}` (C08): the two `unreachable!()` arms of `locktime` are unreachable -/
theorem no_panic_pset_extract_tx : type_of% @EV.Props.C08.extract_no_panic := @EV.Props.C08.extract_no_panic
theorem no_panic_pset_unique_id : type_of% @EV.Props.C08.unique_id_no_panic := @EV.Props.C08.unique_id_no_panic
theorem no_panic_pset_locktime : type_of% @EV.Props.C08.locktime_no_panic := @EV.Props.C08.locktime_no_panic

/-- `Pset::merge` incl. the global xpub key-source reconciliation for every pair of key sources (C14) -/
theorem no_panic_pset_merge : type_of% @EV.Props.C14.merge_no_panic := @EV.Props.C14.merge_no_panic
theorem no_panic_xpub_reconcile : type_of% @EV.Props.C14.xpub_reconcile_no_panic := @EV.Props.C14.xpub_reconcile_no_panic
theorem no_panic_xpub_merge : type_of% @EV.Props.C14.xpub_merge_no_panic := @EV.Props.C14.xpub_merge_no_panic

/-- `blind_non_last` / `blind_last` and whole multi-party flows (C09) -/
theorem no_panic_pset_blinders : type_of% @EV.Props.C09.blinders_never_panic := @EV.Props.C09.blinders_never_panic
theorem no_panic_pset_blind_flow : type_of% @EV.Props.C09.flow_never_panics := @EV.Props.C09.flow_never_panics

/-- the output loop of `verify_tx_amt_proofs` (C05) -/
theorem no_panic_verify_outputs : type_of% @EV.Props.C05.outputs_no_panic := @EV.Props.C05.outputs_no_panic

/-- `TaprootBuilder` with arbitrary depths, `ControlBlock::from_slice`, Huffman construction (C15) -/
theorem no_panic_taproot_builder : type_of% @EV.Props.C15.builder_no_panic := @EV.Props.C15.builder_no_panic
theorem no_panic_control_block_decode : type_of% @EV.Props.C15.cb_decode_no_panic := @EV.Props.C15.cb_decode_no_panic
theorem no_panic_huffman : type_of% @EV.Props.C15.huffman_total := @EV.Props.C15.huffman_total

/-- issuance id derivation on any input (C11) -/
theorem no_panic_issuance_ids : type_of% @EV.Props.C11.ids_no_panic := @EV.Props.C11.ids_no_panic

-- Not referenced here because their statements are not of the form "never panics":
--   `Transaction::blind` (C04 `blind_none_marked_err`, `blind_not_all_explicit_err`: errors, not panics),
--   documented panics of legacy/segwit sighash (C03 `legacy_out_of_range_panics`, `segwit_out_of_range_panics`:
--   panic exactly when index ≥ #inputs), `Builder::push_scriptint(i64::MIN)` (C16 `push_i64_min_panics`).

/-! ### non-vacuity -/
section Examples

/-- OP_RETURN <32-byte genesis> <1-byte script> <1 extra push>: a pegout -/
def exPegoutScript : Bytes := [0x6a, 32] ++ List.replicate 32 7 ++ [1, 0x51] ++ [2, 0xaa, 0xbb]

example : pegoutData ⟨.explicit (List.replicate 32 1), .explicit 5000, .null, exPegoutScript, TxOutWitness.empty⟩ =
    .ok (some ⟨5000, .explicit (List.replicate 32 1), List.replicate 32 7, [0x51], [[0xaa, 0xbb]]⟩) := by decide

/-- a push running past the end is an error item, not a panic, and the output is not null data -/
example : instructions false [0x6a, 0x4c, 5, 1, 2] = .ok ([.op 0x6a], some "EarlyEndOfScript") := by decide
example : isNullData [0x6a, 0x4c, 5, 1, 2] = .ok false := by decide
/-- `instructions_minimal` rejects a one-byte push of a small number -/
example : instructions true [1, 5] = .ok ([], some "NonMinimalPush") := by decide
example : instructions false [1, 5] = .ok ([.push [5]], none) := by decide

/-- range proof header with `has_min` and a non-zero range: min value is bytes 2..10, big endian -/
example : minimumValue ⟨.null, .conf (List.replicate 33 8), .null, [0x51],
    ⟨none, some ([0x60, 0, 0, 0, 0, 0, 0, 0, 1, 2] ++ List.replicate 60 0)⟩⟩ = .ok 258 := by decide

/-- an (impossible, because the parser wants ≥ 65 bytes) 5-byte proof would trip the `debug_assert!` -/
example : (minimumValue ⟨.null, .conf (List.replicate 33 8), .null, [], ⟨none, some [0x60, 0, 0, 0, 0]⟩⟩).isPanic = true := by decide

example : (fromPeginWitness (fun b => b.take 4) [leBytes 8 1000, List.replicate 32 1, List.replicate 32 2, [3], [4], List.replicate 80 5]
    (List.replicate 32 9) 1).isOk = true := by decide
example : fromPeginWitness (fun b => b) [[], [], [], [], [], []] [] 0 = .err "merkle proof too short" := by decide

example : schnorrSigFromSlice (List.replicate 64 1 ++ [0x83]) = .ok (List.replicate 64 1, 0x83) := by decide
example : schnorrSigFromSlice (List.replicate 64 1 ++ [0x04]) = .err "InvalidSighashType" := by decide
example : leafVersionFromU8 0xc4 = .ok 0xc4 := by decide
example : leafVersionFromU8 0x50 = .err "InvalidTaprootLeafVersion" := by decide
example : (merkleBranchFromSlice (List.replicate 64 0)).isOk = true := by decide

/-- a 5-byte input claiming 2^24 script-witness elements (402 MB of `Vec<u8>` headers) is rejected
    before any allocation -/
example : bytesVecVec [0xfe, 0, 0, 0, 1] = .err "oversized vector" := by decide
example : allocVecOf 24 [0xfe, 0, 0, 0, 1] = none := by decide
example : allocVecOf 24 [0xfd, 0x10, 0x27] = some 240000 := by decide

end Examples

end EV.Props.C10
