/-
  C17 — segwit address checksums detect every one- and two-character corruption.

  Model: `EV.Model.Bech32` (polymod engine of the `bech32` crate, the four checksum variants,
  the two segwit string decoders). Constants: bech32/bech32m from `EV.Ref` (dependency), blech32 /
  blech32m from `EV.Gen` (re-extracted from /repo/src/blech32/mod.rs on every run — the finite tables
  below are re-evaluated by the kernel for whatever generators the source has).

  Length bounds proved (in 5-bit symbols, hrp expansion `2·|hrp|+1` included):
    same variant          : ≤ 1023 symbols  (x has order 1023 modulo both generator polynomials)
    switched variant      : ≤ 100 symbols for bech32↔bech32m, ≤ 140 for blech32↔blech32m.
  Every address the library can produce is within them: unblinded strings have ≤ 90 characters
  (≤ 93 symbols with a 3-character hrp); blinded data parts have ≤ 1 + 118 + 12 symbols
  (73 payload bytes), ≤ 138 symbols with a 3-character hrp (`total_symbols_within_bound`).
-/
import EV.Proofs.SegwitDecode
import EV.Proofs.AddrDetect
namespace EV.Props.C17
open EV EV.Bech32 EV.Bech32.Code

/-- the four checksum algorithms -/
def variants : List Variant := [bech32, bech32m, blech32, blech32m]

theorem variant_facts (v : Variant) (hv : v ∈ variants) :
    v.code.Good ∧ v.code.LowBij ∧ v.code.Table1 := by
  simp only [variants, List.mem_cons, List.mem_nil_iff, or_false] at hv
  rcases hv with rfl | rfl | rfl | rfl
  · exact ⟨bech32Code_good, bech32Code_lowBij, bech32Code_table1⟩
  · exact ⟨bech32Code_good, bech32Code_lowBij, bech32Code_table1⟩
  · exact ⟨blech32Code_good, blech32Code_lowBij, blech32Code_table1⟩
  · rw [blech32m_code_eq]; exact ⟨blech32Code_good, blech32Code_lowBij, blech32Code_table1⟩

/-- XOR-linearity of one polymod step (any generator table, any checksum length) -/
theorem step_linear (c : Code) (a b e f : Nat) (he : e < 32) (hf : f < 32) :
    c.step (a ^^^ b) (e ^^^ f) = c.step a e ^^^ c.step b f :=
  Code.step_linear c a b e f he hf

/-- XOR-linearity of the polymod of whole strings: the residue of `w ⊕ δ` from state `s ⊕ s'` is the
    XOR of the residues of `w` from `s` and of `δ` from `s'` -/
theorem polymod_linear (c : Code) (s s' : Nat) (w d : List Nat) (hlen : w.length = d.length)
    (hw : ∀ x ∈ w, x < 32) (hd : ∀ x ∈ d, x < 32) :
    c.polymodFrom (s ^^^ s') (xorList w d) = c.polymodFrom s w ^^^ c.polymodFrom s' d :=
  Code.polymod_linear c s s' w d hlen hw hd

/-- for a fixed input symbol the map residue ↦ next residue is injective (explicit left inverse
    `Code.Tinv`; the low-5-bit map of the generators is a bijection of 0..31) -/
theorem step_injective (v : Variant) (hv : v ∈ variants) (e a b : Nat) (he : e < 32)
    (ha : a < 2 ^ (5 * v.code.len)) (hb : b < 2 ^ (5 * v.code.len))
    (h : v.code.step a e = v.code.step b e) : a = b :=
  let ⟨hg, hl, _⟩ := variant_facts v hv
  Code.step_injective v.code hg hl e a b he ha hb h

/-- the finite table: starting from a non-zero symbol, `d` zero-input steps (1 ≤ d ≤ 1022) never
    lead back to a bare symbol -/
theorem no_bare_symbol_within_1022 (v : Variant) (hv : v ∈ variants) (e d : Nat)
    (he0 : 0 < e) (he : e < 32) (hd1 : 1 ≤ d) (hd : d ≤ 1022) : 32 ≤ v.code.Tpow d e :=
  (variant_facts v hv).2.2 e d he0 he hd1 hd

/-- **Symbol strings, anywhere.** Two symbol strings of equal length ≤ 1023 that differ in one or two
    positions have different residues under each of the four codes. -/
theorem single_double_residue (v : Variant) (hv : v ∈ variants) (w w' : List Nat)
    (hlen : w.length = w'.length) (hw : ∀ x ∈ w, x < 32) (hw' : ∀ x ∈ w', x < 32)
    (h1 : 1 ≤ diffCount w w') (h2 : diffCount w w' ≤ 2) (hl : w.length ≤ 1023) :
    v.code.polymod w ≠ v.code.polymod w' :=
  let ⟨hg, hb, ht⟩ := variant_facts v hv
  residues_differ v.code hg hb ht w w' hlen hw hw' h1 h2 hl

/-- **Main theorem.** For every string (hrp expansion ++ data ++ checksum) of at most 1023 symbols
    that verifies under a variant, replacing the symbols at one or two DATA positions by different
    symbols gives a string that does not verify under the same variant. -/
theorem single_double_detected (v : Variant) (hv : v ∈ variants) (hrp : Text) (hh : ∀ b ∈ hrp, b < 128)
    (syms syms' : List Nat) (hlen : syms.length = syms'.length)
    (hs : ∀ x ∈ syms, x < 32) (hs' : ∀ x ∈ syms', x < 32)
    (h1 : 1 ≤ diffCount syms syms') (h2 : diffCount syms syms' ≤ 2)
    (hl : (hrpExpand hrp ++ syms).length ≤ 1023)
    (hver : verify v hrp syms = true) : verify v hrp syms' = false := by
  have hpre := hrpExpand_lt hrp hh
  have := single_double_residue v hv (hrpExpand hrp ++ syms) (hrpExpand hrp ++ syms')
    (by simp [hlen])
    (by intro x hx; rcases List.mem_append.1 hx with hx | hx; exact hpre x hx; exact hs x hx)
    (by intro x hx; rcases List.mem_append.1 hx with hx | hx; exact hpre x hx; exact hs' x hx)
    (by rw [diffCount_append_left]; exact h1) (by rw [diffCount_append_left]; exact h2) hl
  simp only [verify, beq_iff_eq] at hver
  simp only [verify, beq_eq_false_iff_ne, ne_eq]
  intro h
  exact this (hver.trans h.symm)

/-- no string verifies under both variants of a decoder (the two targets differ) -/
theorem variants_exclusive (f : Flavor) (hf : IsFlavor f) (hrp : Text) (syms : List Nat)
    (h0 : verify f.v0 hrp syms = true) : verify f.vm hrp syms = false := by
  have ff := flavorFacts f hf
  simp only [verify, beq_iff_eq] at h0
  simp only [verify, beq_eq_false_iff_ne, ne_eq, ff.code_eq]
  intro h
  exact ff.target_ne (h0.symm.trans h)

/-- **Variant switch.** When a corruption of the witness-version character makes the decoder use
    the OTHER variant (v0: bech32/blech32, v1+: bech32m/blech32m), the corrupted string fails under
    that variant too: for one or two symbol errors anywhere in a string of at most 100 (bech32) /
    140 (blech32) symbols the residue difference is never `target ⊕ target'`. `ver`, `ver'` are the
    witness versions before and after (any values). -/
theorem variant_switch_detected (f : Flavor) (hf : IsFlavor f) (ver ver' : Nat) (hrp : Text)
    (hh : ∀ b ∈ hrp, b < 128) (syms syms' : List Nat) (hlen : syms.length = syms'.length)
    (hs : ∀ x ∈ syms, x < 32) (hs' : ∀ x ∈ syms', x < 32)
    (h1 : 1 ≤ diffCount syms syms') (h2 : diffCount syms syms' ≤ 2)
    (hl : (hrpExpand hrp ++ syms).length ≤ f.switchBound)
    (hver : verify (f.variant ver) hrp syms = true) : verify (f.variant ver') hrp syms' = false := by
  have hpre := hrpExpand_lt hrp hh
  have := symbols_detect f hf ver ver' (hrpExpand hrp ++ syms) (hrpExpand hrp ++ syms')
    (by simp [hlen])
    (by intro x hx; rcases List.mem_append.1 hx with hx | hx; exact hpre x hx; exact hs x hx)
    (by intro x hx; rcases List.mem_append.1 hx with hx | hx; exact hpre x hx; exact hs' x hx)
    (by rw [diffCount_append_left]; exact h1) (by rw [diffCount_append_left]; exact h2) hl
    (by simpa [verify] using hver)
  simpa [verify] using this

/-- the switch bounds are 100 and 140 symbols -/
theorem switch_bounds : crateFlavor.switchBound = 100 ∧ blechFlavor.switchBound = 140 := by decide

/-- every successfully decoded string with an hrp of at most 4 characters (the networks' hrps have
    2 or 3) is within the switch bound of its decoder, hence within all proved bounds -/
theorem total_symbols_within_bound (f : Flavor) (hf : IsFlavor f) (h d : Text) (r : Seg)
    (hok : segwitNew f (h ++ 49 :: d) = .ok r) (hh : h.length ≤ 4)
    (hd : ∀ c ∈ d, (fromChar c).isSome = true) :
    (hrpExpand h ++ d.map sym).length ≤ f.switchBound := by
  obtain ⟨hrp, c0, rest, htl, hun, _, hck, hvs⟩ := segwitNew_inv f _ r hok
  obtain ⟨e1, e2⟩ := uncheckedNew_split h d hd _ _ hun
  subst hrp d
  obtain ⟨hcl, _⟩ := validateChecksum_inv _ _ _ _ _ hck
  exact total_symbols_le f hf _ h c0 rest r (by simp; omega) hh htl hcl hvs

/-- a witness-version character above 16 is rejected by both decoders -/
theorem version_gt16_rejected (f : Flavor) (h d : Text) (c0 : Nat)
    (hd : ∀ c ∈ c0 :: d, (fromChar c).isSome = true) (hv : 16 < sym c0) :
    ∃ k, segwitNew f (h ++ 49 :: c0 :: d) = .err k :=
  version_gt16 f h d c0 hd hv

/-- **Strings.** If `h ++ "1" ++ d` is accepted by a segwit decoder (the crate's for unblinded, the
    repo's for blinded addresses) and `d'` is obtained from the data part `d` by replacing one or
    two characters — the witness-version character included — by alphabet characters of a different
    symbol value, then `h ++ "1" ++ d'` is rejected by that decoder, whatever variant the corrupted
    version character selects. -/
theorem corrupted_data_rejected (f : Flavor) (hf : IsFlavor f) (h d d' : Text) (r : Seg)
    (hok : segwitNew f (h ++ 49 :: d) = .ok r) (hh : h.length ≤ 4)
    (hd : ∀ c ∈ d, (fromChar c).isSome = true) (hd' : ∀ c ∈ d', (fromChar c).isSome = true)
    (hlen : d'.length = d.length)
    (h1 : 1 ≤ diffCount (d.map sym) (d'.map sym)) (h2 : diffCount (d.map sym) (d'.map sym) ≤ 2) :
    ∃ k, segwitNew f (h ++ 49 :: d') = .err k :=
  Bech32.corrupted_data_rejected f hf h d d' r hok hh hd hd' hlen h1 h2

/-- the decoders never panic -/
theorem segwitNew_total (f : Flavor) (s : Text) (site : String) : segwitNew f s ≠ .panic site :=
  segwitNew_not_panic f s site

/-! ### human-readable part -/

/-- residues of the expanded hrps of the three networks are pairwise different within each kind -/
theorem network_hrp_residues_differ :
    (∀ p ∈ Gen.allParamsB, ∀ q ∈ Gen.allParamsB, p.bechHrp ≠ q.bechHrp →
      bech32Code.polymod (hrpExpand p.bechHrp) ≠ bech32Code.polymod (hrpExpand q.bechHrp)) ∧
    (∀ p ∈ Gen.allParamsB, ∀ q ∈ Gen.allParamsB, p.blechHrp ≠ q.blechHrp →
      blech32.code.polymod (hrpExpand p.blechHrp) ≠ blech32.code.polymod (hrpExpand q.blechHrp)) := by
  decide

/-- the hrp is part of the checksum input: a data part that verifies with one network's hrp does not
    verify with the same-kind hrp of another network (so a corrupted hrp that happens to spell another
    network's hrp of the same kind is rejected — for any number of replaced characters) -/
theorem hrp_change_detected (p q : Gen.AddrParamsB) (hp : p ∈ Gen.allParamsB) (hq : q ∈ Gen.allParamsB)
    (syms : List Nat) (hs : ∀ x ∈ syms, x < 32) :
    (∀ v ∈ [bech32, bech32m], p.bechHrp ≠ q.bechHrp →
      verify v p.bechHrp syms = true → verify v q.bechHrp syms = false) ∧
    (∀ v ∈ [blech32, blech32m], p.blechHrp ≠ q.blechHrp →
      verify v p.blechHrp syms = true → verify v q.blechHrp syms = false) := by
  have hlt : ∀ r ∈ Gen.allParamsB, (∀ b ∈ r.bechHrp, b < 128) ∧ (∀ b ∈ r.blechHrp, b < 128) := by decide
  constructor
  · intro v hv hne h
    have hc : v.code = bech32Code := by
      simp only [List.mem_cons, List.mem_nil_iff, or_false] at hv
      rcases hv with rfl | rfl <;> rfl
    have := prefix_change_detected bech32Code bech32Code_good bech32Code_lowBij
      (hrpExpand p.bechHrp) (hrpExpand q.bechHrp) syms
      (hrpExpand_lt _ (hlt p hp).1) (hrpExpand_lt _ (hlt q hq).1) hs
      (network_hrp_residues_differ.1 p hp q hq hne)
    simp only [verify, beq_iff_eq, hc] at h
    simp only [verify, beq_eq_false_iff_ne, ne_eq, hc]
    intro h'
    exact this (h.trans h'.symm)
  · intro v hv hne h
    have hc : v.code = blech32.code := by
      simp only [List.mem_cons, List.mem_nil_iff, or_false] at hv
      rcases hv with rfl | rfl
      · rfl
      · exact blech32m_code_eq
    have := prefix_change_detected blech32.code blech32Code_good blech32Code_lowBij
      (hrpExpand p.blechHrp) (hrpExpand q.blechHrp) syms
      (hrpExpand_lt _ (hlt p hp).2) (hrpExpand_lt _ (hlt q hq).2) hs
      (network_hrp_residues_differ.2 p hp q hq hne)
    simp only [verify, beq_iff_eq, hc] at h
    simp only [verify, beq_eq_false_iff_ne, ne_eq, hc]
    intro h'
    exact this (h.trans h'.symm)

/-- one replaced hrp character changes at most two symbols of the expanded hrp (its high and its low
    part), so one / two replaced hrp characters are at most two / four symbol errors -/
theorem hrp_char_two_symbols (h1 h2 : Text) (a b : Nat) :
    diffCount (hrpExpand (h1 ++ a :: h2)) (hrpExpand (h1 ++ b :: h2)) ≤ 2 := by
  have key : ∀ (f : Nat → Nat) (l1 l2 r : List Nat),
      diffCount (l1.map f ++ f a :: (l2.map f ++ r)) (l1.map f ++ f b :: (l2.map f ++ r)) ≤ 1 := by
    intro f l1 l2 r
    rw [diffCount_append_left]
    simp only [diffCount, diffCount_self]
    split <;> omega
  simp only [hrpExpand, List.map_append, List.map_cons, List.append_assoc, List.cons_append]
  rw [diffCount_append_left]
  simp only [diffCount]
  have h2' := key (fun b => lowerByte b % 32) h1 h2 []
  simp only [List.append_nil] at h2'
  -- high part: one position; low part: one position
  have : diffCount (List.map (fun b => lowerByte b / 32) h2 ++ 0 :: (List.map (fun b => lowerByte b % 32) h1 ++ lowerByte a % 32 :: List.map (fun b => lowerByte b % 32) h2))
      (List.map (fun b => lowerByte b / 32) h2 ++ 0 :: (List.map (fun b => lowerByte b % 32) h1 ++ lowerByte b % 32 :: List.map (fun b => lowerByte b % 32) h2)) ≤ 1 := by
    rw [diffCount_append_left]
    simp only [diffCount, if_true, Nat.zero_add]
    exact h2'
  split <;> omega

/-! ### the address parser (`EV.Model.Address`: `Address::from_str`, `parse_with_params`) -/

/-- **Addresses, data part.** If `h ++ "1" ++ d` parses as a segwit address (any of the three
    networks, blinded or not) and `d'` is `d` with one or two characters replaced by alphabet
    characters of different symbol values — the witness-version character included — then the
    corrupted string is rejected by `from_str` and by `parse_with_params` of the address's own network;
    under another network's parameters it is rejected unless the whole string happens to be a valid
    base58check string (its prefix matches none of that network's hrps, so the parser falls through
    to base58, where only a 32-bit SHA-256d checksum decides — searched, not provable). -/
theorem corrupted_address_rejected (P : Addr.Prims) (h d d' : Text) (a : Addr.Address)
    (hok : Addr.fromStr P (h ++ 49 :: d) = .ok a) (hseg : a.payload.isSegwit = true)
    (hd : ∀ c ∈ d, (fromChar c).isSome = true) (hd' : ∀ c ∈ d', (fromChar c).isSome = true)
    (hlen : d'.length = d.length)
    (h1 : 1 ≤ diffCount (d.map sym) (d'.map sym)) (h2 : diffCount (d.map sym) (d'.map sym) ≤ 2) :
    (∃ k, Addr.fromStr P (h ++ 49 :: d') = .err k) ∧
    (∃ k, Addr.parseWithParams P (h ++ 49 :: d') a.params = .err k) ∧
    (∀ q ∈ Gen.allParamsB, (∃ k, Addr.parseWithParams P (h ++ 49 :: d') q = .err k) ∨
      (Base58.decodeCheck P.sha256d (h ++ 49 :: d')).isSome = true) :=
  Addr.corrupted_address_rejected P h d d' a hok hseg hd hd' hlen h1 h2

/-- **Addresses, human-readable part (PARTIAL).** Replacing the human-readable part of a valid segwit
    address by anything that is not a case variant of it gives a string that `from_str` rejects,
    EXCEPT possibly when (1) the new hrp spells an hrp of the other kind (unblinded ↔ blinded, e.g.
    `ex`→`el`, `ex`→`lq`, `tex`→`tlq`), where the data part is checked under a different code, or
    (2) the new hrp matches no network and the whole string is a valid base58check string.
    Full statement (not provable: both exceptions depend on checksum coincidences of 60 resp. 32
    bits): `∃ k, fromStr P (h' ++ 49 :: d) = .err k`. The two residual cases are enumerated by the
    direct search for representative addresses. -/
theorem hrp_corruption_partial (P : Addr.Prims) (h h' d : Text) (a : Addr.Address)
    (hok : Addr.fromStr P (h ++ 49 :: d) = .ok a) (hseg : a.payload.isSegwit = true)
    (hd : ∀ c ∈ d, (fromChar c).isSome = true) (hne : lower h' ≠ lower h) :
    (∃ k, Addr.fromStr P (h' ++ 49 :: d) = .err k) ∨
    (Addr.IsBechHrp (lower h) ∧ Addr.IsBlechHrp (lower h') ∨ Addr.IsBlechHrp (lower h) ∧ Addr.IsBechHrp (lower h')) ∨
    (Base58.decodeCheck P.sha256d (h' ++ 49 :: d)).isSome = true :=
  Addr.hrp_corruption_partial P h h' d a hok hseg hd hne

/-! ### non-vacuity -/

/-- a 20-byte v0 program under hrp "ex" encodes to a string the crate decoder accepts … -/
example : (segwitNew crateFlavor
    (encode bech32 [101, 120] 0 (bytesToFes (List.replicate 20 7)))).isOk = true := by
  decide +kernel

/-- … and a 33+32-byte v1 payload under hrp "lq" to one the blech32 decoder accepts -/
example : (segwitNew blechFlavor
    (encode blech32m [108, 113] 1 (bytesToFes (List.replicate 65 2)))).isOk = true := by
  decide +kernel

end EV.Props.C17
