/-
  EV.Proofs.SegwitCodec — the encoder and the two segwit decoders of `EV.Model.Bech32` are inverse
  to each other:
    * decoding the encoding (in lower case or entirely upper-cased) returns the encoded parts;
    * the lower-cased form of every accepted string is the encoding of what was decoded from it.
-/
import EV.Proofs.SegwitDecode
import EV.Proofs.Checksum
namespace EV.Bech32
open Code

/-- identity, or upper-casing of every ASCII letter -/
def cmap (up : Bool) (c : Nat) : Nat := if up then upperByte c else c

/-- a human-readable part as the encoder is used with: accepted by `Hrp::parse`, lower case,
    without the separator character -/
def HrpOk (h : Text) : Prop :=
  h ≠ [] ∧ h.length ≤ Ref.maxHrpLen ∧ ∀ b ∈ h, 33 ≤ b ∧ b ≤ 126 ∧ isUpper b = false ∧ b ≠ 49

/-! ### finite character facts -/

theorem fromChar_toChar : ∀ x, x < 32 → fromChar (toChar x) = some x := by decide
theorem fromChar_upper_toChar : ∀ x, x < 32 → fromChar (upperByte (toChar x)) = some x := by decide
theorem isUpper_toChar : ∀ x, x < 32 → isUpper (toChar x) = false := by decide
theorem toChar_ne_sep : ∀ x, x < 32 → toChar x ≠ 49 := by decide

theorem cmap_false (c : Nat) : cmap false c = c := by simp [cmap]
theorem cmap_true (c : Nat) : cmap true c = upperByte c := by simp [cmap]

theorem cmap_sep (up : Bool) : cmap up 49 = 49 := by cases up <;> decide

theorem lowerByte_of_not_upper (b : Nat) (h : isUpper b = false) : lowerByte b = b := by
  simp [lowerByte, h]

theorem lowerByte_upperByte (b : Nat) : lowerByte (upperByte b) = lowerByte b := by
  simp only [lowerByte, upperByte, isUpper, isLower, Bool.and_eq_true, decide_eq_true_eq]
  repeat' split
  all_goals omega

theorem lowerByte_lowerByte (b : Nat) : lowerByte (lowerByte b) = lowerByte b := by
  simp only [lowerByte, isUpper, Bool.and_eq_true, decide_eq_true_eq]
  repeat' split
  all_goals omega

theorem isLower_upperByte (b : Nat) : isLower (upperByte b) = false := by
  simp only [upperByte, isLower, Bool.and_eq_false_iff, Bool.and_eq_true, decide_eq_true_eq, decide_eq_false_iff_not]
  split <;> omega

theorem isUpper_lowerByte (b : Nat) : isUpper (lowerByte b) = false := by
  simp only [lowerByte, isUpper, Bool.and_eq_false_iff, Bool.and_eq_true, decide_eq_true_eq, decide_eq_false_iff_not]
  split <;> omega

theorem lowerByte_cmap (up : Bool) (b : Nat) : lowerByte (cmap up b) = lowerByte b := by
  cases up
  · rw [cmap_false]
  · rw [cmap_true, lowerByte_upperByte]

theorem upperByte_range (b : Nat) (h : 33 ≤ b ∧ b ≤ 126) : 33 ≤ upperByte b ∧ upperByte b ≤ 126 := by
  simp only [upperByte, isLower, Bool.and_eq_true, decide_eq_true_eq]
  split <;> omega

theorem cmap_range (up : Bool) (b : Nat) (h : 33 ≤ b ∧ b ≤ 126) : 33 ≤ cmap up b ∧ cmap up b ≤ 126 := by
  cases up
  · rw [cmap_false]; exact h
  · rw [cmap_true]; exact upperByte_range b h

theorem fromChar_cmap_toChar (up : Bool) (x : Nat) (hx : x < 32) :
    fromChar (cmap up (toChar x)) = some x := by
  cases up
  · rw [cmap_false]; exact fromChar_toChar x hx
  · rw [cmap_true]; exact fromChar_upper_toChar x hx

theorem sym_cmap_toChar (up : Bool) (x : Nat) (hx : x < 32) : sym (cmap up (toChar x)) = x := by
  simp [sym, fromChar_cmap_toChar up x hx]

theorem indexIn_spec (c : Nat) (l : List Nat) (i v : Nat) (h : indexIn c l i = some v) :
    i ≤ v ∧ l.getD (v - i) 0 = c := by
  induction l generalizing i with
  | nil => simp [indexIn] at h
  | cons x xs ih =>
    simp only [indexIn] at h
    split at h
    · simp at h; subst h; subst x; simp
    · obtain ⟨h1, h2⟩ := ih _ h
      refine ⟨by omega, ?_⟩
      have : v - i = (v - (i + 1)) + 1 := by omega
      rw [this]; simpa using h2

theorem fromChar_spec (c x : Nat) (h : fromChar c = some x) : lowerByte c = toChar x ∧ c < 128 := by
  unfold fromChar at h
  split at h
  · simp at h
  · obtain ⟨_, h2⟩ := indexIn_spec _ _ _ _ h
    exact ⟨by simpa [toChar] using h2.symm, by omega⟩

theorem lowerByte_alphabet (c : Nat) (h : (fromChar c).isSome = true) : lowerByte c = toChar (sym c) := by
  cases hc : fromChar c with
  | none => simp [hc] at h
  | some x => simp [sym, hc, (fromChar_spec c x hc).1]

/-! ### splitting -/

theorem no_sep_of_splitLast_none (s : Text) (h : splitLast s = none) : ∀ c ∈ s, c ≠ 49 := by
  induction s with
  | nil => simp
  | cons c cs ih =>
    simp only [splitLast] at h
    split at h
    · simp at h
    · rename_i hn
      split at h
      · simp at h
      · rename_i hc
        intro x hx
        rcases List.mem_cons.1 hx with rfl | hx
        · exact hc
        · exact ih hn x hx

/-- what `splitLast` returns is a split at a separator after which no separator occurs -/
theorem splitLast_spec (s h d : Text) (hs : splitLast s = some (h, d)) :
    s = h ++ 49 :: d ∧ ∀ c ∈ d, c ≠ 49 := by
  induction s generalizing h d with
  | nil => simp [splitLast] at hs
  | cons c cs ih =>
    simp only [splitLast] at hs
    split at hs
    · rename_i h' d' heq
      simp only [Option.some.injEq, Prod.mk.injEq] at hs
      obtain ⟨rfl, rfl⟩ := hs
      obtain ⟨e, hd⟩ := ih _ _ heq
      refine ⟨?_, hd⟩
      simp only [List.cons_append]; rw [← e]
    · rename_i hn
      split at hs
      · rename_i hc
        simp only [Option.some.injEq, Prod.mk.injEq] at hs
        obtain ⟨rfl, rfl⟩ := hs
        subst hc
        exact ⟨rfl, no_sep_of_splitLast_none _ hn⟩
      · simp at hs

/-- shape of the (case-mapped) encoder output: hrp, separator, alphabet characters -/
theorem encode_map_split (v : Variant) (hrp : Text) (ver : Nat) (fes : List Nat) (up : Bool)
    (hver : ver < 32) (hfes : ∀ x ∈ fes, x < 32) :
    ∃ d, (encode v hrp ver fes).map (cmap up) = (lower hrp).map (cmap up) ++ 49 :: d ∧
      (∀ c ∈ d, (fromChar c).isSome = true) ∧
      d.length = 1 + fes.length + v.code.len := by
  refine ⟨(((ver :: fes) ++ createChecksum v (hrpExpand hrp ++ ver :: fes)).map toChar).map (cmap up), ?_, ?_, ?_⟩
  · simp only [encode, List.map_append, List.map_cons, cmap_sep]
  · intro c hc
    simp only [List.mem_map] at hc
    obtain ⟨_, ⟨x, hx, rfl⟩, rfl⟩ := hc
    have hx32 : x < 32 := by
      rcases List.mem_append.1 hx with hx | hx
      · rcases List.mem_cons.1 hx with rfl | hx
        · exact hver
        · exact hfes x hx
      · exact createChecksum_lt _ _ x hx
    simp [fromChar_cmap_toChar up x hx32]
  · simp only [List.length_map, List.length_append, List.length_cons, createChecksum_length]
    omega

theorem variant_target_lt (f : Flavor) (hf : IsFlavor f) (ver : Nat) :
    (f.variant ver).target < 2 ^ (5 * (f.variant ver).code.len) := by
  rcases hf with rfl | rfl <;> unfold Flavor.variant <;> split <;> decide

theorem variant_good (f : Flavor) (hf : IsFlavor f) (ver : Nat) : (f.variant ver).code.Good := by
  rw [variant_code f (flavorFacts f hf)]; exact (flavorFacts f hf).good

theorem codeLength_ok (f : Flavor) (hf : IsFlavor f) (ver n : Nat) (htl : f.tooLong n = false) :
    (f.checkCodeLength && decide (n > (f.variant ver).codeLength)) = false := by
  rcases hf with rfl | rfl
  · simp only [Flavor.tooLong, crateFlavor, Ref.segwitMaxStringLength, decide_eq_false_iff_not] at htl
    have : (crateFlavor.variant ver).codeLength = 1023 := by unfold Flavor.variant; split <;> rfl
    rw [this]
    simp only [Bool.and_eq_false_iff, decide_eq_false_iff_not]
    right; omega
  · rfl

theorem segwitNew_ok (f : Flavor) (hf : IsFlavor f) (s H : Text) (c0 : Nat) (R K : Text)
    (hun : uncheckedNew s = some (H, c0 :: (R ++ K)))
    (hver : sym c0 ≤ 16)
    (hK : K.length = f.v0.code.len)
    (hpoly : (f.variant (sym c0)).code.polymod (hrpExpand H ++ (c0 :: (R ++ K)).map sym)
      = (f.variant (sym c0)).target)
    (htl : f.tooLong s.length = false)
    (hpad : validatePadding (R.map sym) = true)
    (hlen : validateLength f (sym c0) (R.length * 5 / 8) = true) :
    segwitNew f s = .ok { hrp := H, version := sym c0, fes := R.map sym } := by
  have hcode := variant_code f (flavorFacts f hf) (sym c0)
  have hck : validateChecksum f (f.variant (sym c0)) s.length H (c0 :: (R ++ K)) = true := by
    unfold validateChecksum
    rw [codeLength_ok f hf _ _ htl]
    rw [if_neg (by simp), if_neg (by rw [hcode]; simp only [List.length_cons, List.length_append]; omega)]
    simpa [verify] using hpoly
  have htake : (c0 :: (R ++ K)).take ((c0 :: (R ++ K)).length - (f.variant (sym c0)).code.len)
      = c0 :: R := by
    rw [hcode]
    have : (c0 :: (R ++ K)).length - f.v0.code.len = (c0 :: R).length := by
      simp only [List.length_cons, List.length_append]; omega
    rw [this, ← List.cons_append, List.take_left']
    rfl
  unfold segwitNew
  rw [htl]
  simp only [hun]
  have h16 : ¬ sym c0 > 16 := by omega
  rw [if_neg h16, hck, htake]
  simp only [validateSegwit, htl, hpad, hlen, List.length_map]
  simp

theorem map_eq_self {l : List Nat} {g : Nat → Nat} (h : ∀ b ∈ l, g b = b) : l.map g = l := by
  induction l with
  | nil => rfl
  | cons a l ih => simp [h a (by simp), ih (fun b hb => h b (by simp [hb]))]

theorem map_sym_cmap_toChar (up : Bool) (xs : List Nat) (h : ∀ x ∈ xs, x < 32) :
    ((xs.map toChar).map (cmap up)).map sym = xs := by
  rw [List.map_map, List.map_map]
  exact map_eq_self (fun x hx => sym_cmap_toChar up x (h x hx))

theorem alphabet_cmap_toChar (up : Bool) (xs : List Nat) (h : ∀ x ∈ xs, x < 32) :
    ∀ c ∈ (xs.map toChar).map (cmap up), (fromChar c).isSome = true := by
  intro c hc
  simp only [List.mem_map] at hc
  obtain ⟨_, ⟨x, hx, rfl⟩, rfl⟩ := hc
  simp [fromChar_cmap_toChar up x (h x hx)]

theorem no_mixed (up : Bool) (s : Text) (h : ∀ c ∈ s, ∃ b, c = cmap up b ∧ isUpper b = false) :
    (s.any isUpper && s.any isLower) = false := by
  rw [Bool.and_eq_false_iff]
  cases up
  · left
    rw [List.any_eq_false]
    intro c hc
    obtain ⟨b, hcb, hb⟩ := h c hc
    rw [hcb, cmap_false]; simp [hb]
  · right
    rw [List.any_eq_false]
    intro c hc
    obtain ⟨b, hcb, _⟩ := h c hc
    rw [hcb, cmap_true]; simp [isLower_upperByte]

theorem hrpExpand_cmap (up : Bool) (h : Text) : hrpExpand (h.map (cmap up)) = hrpExpand h := by
  simp [hrpExpand, List.map_map, Function.comp_def, lowerByte_cmap]

/-- **encode then decode**: the decoder of flavor `f` accepts the encoder's output (as is, or with
    every letter upper-cased) and returns the encoded parts -/
theorem segwitNew_encode (f : Flavor) (hf : IsFlavor f) (up : Bool) (hrp : Text) (hh : HrpOk hrp)
    (ver : Nat) (fes : List Nat) (hver : ver ≤ 16) (hfes : ∀ x ∈ fes, x < 32)
    (hpad : validatePadding fes = true)
    (hlen : validateLength f ver (fes.length * 5 / 8) = true)
    (htl : f.tooLong (hrp.length + 1 + (1 + fes.length + f.v0.code.len)) = false) :
    segwitNew f ((encode (f.variant ver) hrp ver fes).map (cmap up))
      = .ok { hrp := hrp.map (cmap up), version := ver, fes := fes } := by
  obtain ⟨hne, hhl, hhb⟩ := hh
  have hcode := variant_code f (flavorFacts f hf) ver
  have hver32 : ver < 32 := by omega
  have hlow : lower hrp = hrp := map_eq_self (fun b hb => lowerByte_of_not_upper b (hhb b hb).2.2.1)
  have hpre : ∀ x ∈ hrpExpand hrp ++ ver :: fes, x < 32 := by
    intro x hx
    rcases List.mem_append.1 hx with hx | hx
    · exact hrpExpand_lt hrp (fun b hb => by have := hhb b hb; omega) x hx
    · rcases List.mem_cons.1 hx with rfl | hx
      · exact hver32
      · exact hfes x hx
  generalize hckdef : createChecksum (f.variant ver) (hrpExpand hrp ++ ver :: fes) = ck
  have hckl : ck.length = f.v0.code.len := by rw [← hckdef, createChecksum_length, hcode]
  have hcklt : ∀ x ∈ ck, x < 32 := by rw [← hckdef]; exact createChecksum_lt _ _
  have hpoly := polymod_createChecksum (f.variant ver) (variant_good f hf ver)
    (variant_target_lt f hf ver) _ hpre
  rw [hckdef] at hpoly
  -- the pieces of the string
  let H := hrp.map (cmap up)
  let c0 := cmap up (toChar ver)
  let R := (fes.map toChar).map (cmap up)
  let K := (ck.map toChar).map (cmap up)
  have hs : (encode (f.variant ver) hrp ver fes).map (cmap up) = H ++ 49 :: c0 :: (R ++ K) := by
    simp only [encode, hlow, hckdef, List.map_append, List.map_cons, cmap_sep, List.cons_append, H, c0, R, K]
  have hD : c0 :: (R ++ K) = (((ver :: fes) ++ ck).map toChar).map (cmap up) := by
    simp only [List.map_append, List.map_cons, List.cons_append, c0, R, K]
  have hall : ∀ x ∈ (ver :: fes) ++ ck, x < 32 := by
    intro x hx
    rcases List.mem_append.1 hx with hx | hx
    · rcases List.mem_cons.1 hx with rfl | hx
      · exact hver32
      · exact hfes x hx
    · exact hcklt x hx
  have halpha : ∀ c ∈ c0 :: (R ++ K), (fromChar c).isSome = true := by
    rw [hD]; exact alphabet_cmap_toChar up _ hall
  have hsym0 : sym c0 = ver := sym_cmap_toChar up ver hver32
  have hsymR : R.map sym = fes := map_sym_cmap_toChar up fes hfes
  have hsymK : K.map sym = ck := map_sym_cmap_toChar up ck hcklt
  have hsplit : splitLast (H ++ 49 :: c0 :: (R ++ K)) = some (H, c0 :: (R ++ K)) :=
    splitLast_append _ _ (no_sep_of_alphabet _ halpha)
  have hmixH : (H.any isUpper && H.any isLower) = false := by
    apply no_mixed up
    intro c hc
    simp only [H, List.mem_map] at hc
    obtain ⟨b, hb, rfl⟩ := hc
    exact ⟨b, rfl, (hhb b hb).2.2.1⟩
  have hmix : ((H ++ 49 :: c0 :: (R ++ K)).any isUpper && (H ++ 49 :: c0 :: (R ++ K)).any isLower) = false := by
    apply no_mixed up
    intro c hc
    rcases List.mem_append.1 hc with hc | hc
    · simp only [H, List.mem_map] at hc
      obtain ⟨b, hb, rfl⟩ := hc
      exact ⟨b, rfl, (hhb b hb).2.2.1⟩
    · rcases List.mem_cons.1 hc with rfl | hc
      · exact ⟨49, (cmap_sep up).symm, by decide⟩
      · rw [hD] at hc
        simp only [List.mem_map] at hc
        obtain ⟨_, ⟨x, hx, rfl⟩, rfl⟩ := hc
        exact ⟨toChar x, rfl, isUpper_toChar x (hall x hx)⟩
  have hparse : hrpParse H = true := by
    unfold hrpParse
    rw [hmixH]
    simp only [Bool.not_false, Bool.and_true, Bool.and_eq_true, Bool.not_eq_true', decide_eq_true_eq,
      List.all_eq_true]
    refine ⟨⟨?_, ?_⟩, ?_⟩
    · cases hrp with
      | nil => exact absurd rfl hne
      | cons a l => rfl
    · simpa [H] using hhl
    · intro c hc
      simp only [H, List.mem_map] at hc
      obtain ⟨b, hb, rfl⟩ := hc
      have := hhb b hb
      exact cmap_range up b ⟨this.1, this.2.1⟩
  have hun : uncheckedNew (H ++ 49 :: c0 :: (R ++ K)) = some (H, c0 :: (R ++ K)) := by
    unfold uncheckedNew checkCharacters
    rw [hsplit]
    simp only [hmix, Bool.not_false, Bool.and_true]
    rw [if_pos (by rw [List.all_eq_true]; exact halpha)]
    simp only [hparse, if_true]
  have hexp : hrpExpand H = hrpExpand hrp := hrpExpand_cmap up hrp
  have hsl : (H ++ 49 :: c0 :: (R ++ K)).length = hrp.length + 1 + (1 + fes.length + f.v0.code.len) := by
    simp only [List.length_append, List.length_cons, List.length_map, H, R, K, hckl]; omega
  have key := segwitNew_ok f hf _ H c0 R K hun (by rw [hsym0]; exact hver)
    (by simp only [K, List.length_map]; exact hckl)
    (by
      rw [hsym0, hexp]
      simp only [List.map_cons, List.map_append, hsym0, hsymR, hsymK]
      simpa using hpoly)
    (by rw [hsl]; exact htl)
    (by rw [hsymR]; exact hpad)
    (by rw [hsym0]; simpa [R] using hlen)
  rw [hsym0, hsymR] at key
  rw [hs]; exact key

theorem lower_alphabet (d : Text) (h : ∀ c ∈ d, (fromChar c).isSome = true) :
    d.map lowerByte = (d.map sym).map toChar := by
  rw [List.map_map]
  exact List.map_congr_left (fun c hc => lowerByte_alphabet c (h c hc))

/-- **decode then encode**: an accepted string, lower-cased, is the encoding of its decoded parts
    under the variant its version requires; the decoded parts satisfy the decoder's constraints -/
theorem encode_of_segwitNew (f : Flavor) (hf : IsFlavor f) (s : Text) (seg : Seg)
    (h : segwitNew f s = .ok seg) :
    lower s = encode (f.variant seg.version) seg.hrp seg.version seg.fes ∧
    seg.version ≤ 16 ∧ (∀ x ∈ seg.fes, x < 32) ∧ validatePadding seg.fes = true ∧
    validateLength f seg.version (seg.fes.length * 5 / 8) = true ∧
    (∃ d, s = seg.hrp ++ 49 :: d ∧ ∀ c ∈ d, c ≠ 49) := by
  obtain ⟨hrp, c0, rest, _, hun, hv16, hck, hvs⟩ := segwitNew_inv f s seg h
  obtain ⟨hsp, hparse, halpha⟩ := uncheckedNew_inv _ _ _ hun
  obtain ⟨hs, hnosep⟩ := splitLast_spec _ _ _ hsp
  obtain ⟨hL, hverify⟩ := validateChecksum_inv _ _ _ _ _ hck
  obtain ⟨c1, rest1, htake, _, hpad, hlen, hseg⟩ := validateSegwit_inv _ _ _ _ _ hvs
  generalize hv : f.variant (sym c0) = v at *
  generalize hk : (c0 :: rest).length - v.code.len = k at *
  -- the head of the prefix is the version character
  have hc1 : c1 = c0 ∧ rest1 = rest.take (k - 1) := by
    cases k with
    | zero => simp at htake
    | succ k =>
      simp only [List.take_succ_cons, List.cons.injEq] at htake
      exact ⟨htake.1.symm, by simpa using htake.2.symm⟩
  obtain ⟨rfl, hrest1⟩ := hc1
  subst hseg
  dsimp only
  rw [hv]
  -- the checksum symbols
  have hsplitd : (c1 :: rest).map sym = (sym c1 :: rest1.map sym) ++ ((c1 :: rest).drop k).map sym := by
    rw [← List.map_cons, ← htake, ← List.map_append, List.take_append_drop]
  have hckeq : ((c1 :: rest).drop k).map sym
      = createChecksum v (hrpExpand hrp ++ sym c1 :: rest1.map sym) := by
    apply checksum_unique v (by rw [← hv]; exact variant_good f hf _)
      (by rw [← hv]; exact variant_target_lt f hf _)
    · exact map_sym_lt _
    · rw [List.length_map, List.length_drop]; omega
    · have := hverify
      simp only [verify, beq_iff_eq] at this
      rw [hsplitd, ← List.append_assoc] at this
      exact this
  refine ⟨?_, hv16, map_sym_lt _, hpad, by simpa using hlen, ⟨_, hs, hnosep⟩⟩
  rw [hs]
  unfold encode lower
  rw [List.map_append, List.map_cons, lower_alphabet _ halpha, hsplitd, hckeq]
  rfl

end EV.Bech32
