/-
  EV.Proofs.Base58 — positional digits (`toDigits`/`ofDigits`) and the base58 / base58check round
  trips of `EV.Model.Base58`.
-/
import EV.Model.Base58
namespace EV.Base58
open EV.Bech32 (Text indexIn)

/-! ### positional digits -/

theorem toDigits_acc (b : Nat) : ∀ fuel n acc, toDigits b fuel n acc = toDigits b fuel n [] ++ acc := by
  intro fuel
  induction fuel with
  | zero => intro n acc; simp [toDigits]
  | succ f ih =>
    intro n acc
    simp only [toDigits]
    split
    · simp
    · rw [ih (n / b) (n % b :: acc), ih (n / b) [n % b]]; simp

theorem toDigits_fuel (b : Nat) (hb : 2 ≤ b) :
    ∀ f1 f2 n acc, n ≤ f1 → n ≤ f2 → toDigits b f1 n acc = toDigits b f2 n acc := by
  intro f1
  induction f1 with
  | zero =>
    intro f2 n acc h1 h2
    have : n = 0 := by omega
    subst this
    cases f2 <;> simp [toDigits]
  | succ f ih =>
    intro f2 n acc h1 h2
    cases f2 with
    | zero =>
      have : n = 0 := by omega
      subst this
      simp [toDigits]
    | succ g =>
      simp only [toDigits]
      split
      · rfl
      · have := Nat.div_lt_self (by omega : 0 < n) (by omega : 1 < b)
        apply ih <;> omega

theorem digits_zero (b : Nat) : digits b 0 = [] := by
  simp [digits, toDigits]

theorem ofDigits_snoc (b : Nat) (l : List Nat) (d : Nat) : ofDigits b (l ++ [d]) = ofDigits b l * b + d := by
  simp [ofDigits, List.foldl_append]

theorem ofDigits_nil (b : Nat) : ofDigits b [] = 0 := rfl

theorem digits_append (b n : Nat) (hb : 2 ≤ b) (hn : 0 < n) : digits b n = digits b (n / b) ++ [n % b] := by
  unfold digits
  cases n with
  | zero => omega
  | succ f =>
    have hlt := Nat.div_lt_self hn (by omega : 1 < b)
    simp only [toDigits]
    rw [if_neg (by omega), toDigits_acc]
    congr 1
    apply toDigits_fuel b hb <;> omega

theorem digits_ne_nil (b n : Nat) (hb : 2 ≤ b) (hn : 0 < n) : digits b n ≠ [] := by
  rw [digits_append b n hb hn]; simp

theorem digits_lt (b n : Nat) (hb : 2 ≤ b) : ∀ d ∈ digits b n, d < b := by
  induction n using Nat.strongRecOn with
  | ind n ih =>
    by_cases hn : n = 0
    · subst hn; simp [digits_zero]
    · have hn' : 0 < n := Nat.pos_of_ne_zero hn
      rw [digits_append b n hb hn']
      intro d hd
      rcases List.mem_append.mp hd with h | h
      · exact ih (n / b) (Nat.div_lt_self hn' (by omega)) d h
      · simp at h; subst h; exact Nat.mod_lt _ (by omega)

theorem digits_head_ne_zero (b n : Nat) (hb : 2 ≤ b) : (digits b n).head? ≠ some 0 := by
  induction n using Nat.strongRecOn with
  | ind n ih =>
    by_cases hn : n = 0
    · subst hn; simp [digits_zero]
    · have hn' : 0 < n := Nat.pos_of_ne_zero hn
      rw [digits_append b n hb hn']
      by_cases hq : n / b = 0
      · rw [hq, digits_zero]
        have hlt : n < b := by
          rcases Nat.div_eq_zero_iff.mp hq with h | h
          · omega
          · exact h
        simp [Nat.mod_eq_of_lt hlt, hn]
      · have hq' : 0 < n / b := Nat.pos_of_ne_zero hq
        have h1 := ih (n / b) (Nat.div_lt_self hn' (by omega))
        have h2 := digits_ne_nil b (n / b) hb hq'
        cases hd : digits b (n / b) with
        | nil => exact absurd hd h2
        | cons x xs => rw [hd] at h1; simpa using h1

theorem ofDigits_digits (b n : Nat) (hb : 2 ≤ b) : ofDigits b (digits b n) = n := by
  induction n using Nat.strongRecOn with
  | ind n ih =>
    by_cases hn : n = 0
    · subst hn; simp [digits_zero, ofDigits_nil]
    · have hn' : 0 < n := Nat.pos_of_ne_zero hn
      rw [digits_append b n hb hn', ofDigits_snoc, ih (n / b) (Nat.div_lt_self hn' (by omega)),
        Nat.mul_comm]
      exact Nat.div_add_mod n b

theorem digits_ofDigits_rev (b : Nat) (hb : 2 ≤ b) : ∀ (r : List Nat), (∀ d ∈ r, d < b) →
    r.reverse.head? ≠ some 0 → digits b (ofDigits b r.reverse) = r.reverse := by
  intro r
  induction r with
  | nil => intro _ _; simp [ofDigits_nil, digits_zero]
  | cons d r ih =>
    intro hlt hh
    have hd : d < b := hlt d (by simp)
    have hlt' : ∀ x ∈ r, x < b := fun x hx => hlt x (by simp [hx])
    rw [List.reverse_cons] at hh ⊢
    rw [ofDigits_snoc]
    have hdiv : (ofDigits b r.reverse * b + d) / b = ofDigits b r.reverse := by
      rw [Nat.mul_comm, Nat.mul_add_div (by omega), Nat.div_eq_of_lt hd]; rfl
    have hmod : (ofDigits b r.reverse * b + d) % b = d := by
      rw [Nat.mul_comm, Nat.mul_add_mod, Nat.mod_eq_of_lt hd]
    have hh' : r.reverse.head? ≠ some 0 := by
      cases hr : r.reverse with
      | nil => simp
      | cons x xs => rw [hr] at hh; simpa using hh
    have ih' := ih hlt' hh'
    have hpos : 0 < ofDigits b r.reverse * b + d := by
      cases hr : r.reverse with
      | nil =>
        rw [hr] at hh
        have : d ≠ 0 := by simpa using hh
        omega
      | cons x xs =>
        have hne : ofDigits b r.reverse ≠ 0 := by
          intro h0
          rw [h0, digits_zero, hr] at ih'
          exact absurd ih' (by simp)
        rw [← hr]
        have : 0 < ofDigits b r.reverse * b := Nat.mul_pos (Nat.pos_of_ne_zero hne) (by omega)
        omega
    rw [digits_append b _ hb hpos, hdiv, hmod, ih']

theorem digits_ofDigits (b : Nat) (hb : 2 ≤ b) (ds : List Nat) (hlt : ∀ d ∈ ds, d < b)
    (hh : ds.head? ≠ some 0) : digits b (ofDigits b ds) = ds := by
  have := digits_ofDigits_rev b hb ds.reverse (by simpa using hlt) (by simpa using hh)
  simpa using this

/-- leading digit from the magnitude -/
theorem head_digits_range (b k lo hi n : Nat) (hb : 2 ≤ b) (hlo : 1 ≤ lo) (hhi : hi < b)
    (h1 : lo * b ^ k ≤ n) (h2 : n < (hi + 1) * b ^ k) :
    ∃ d rest, digits b n = d :: rest ∧ lo ≤ d ∧ d ≤ hi := by
  induction k generalizing n with
  | zero =>
    simp at h1 h2
    have hn : 0 < n := by omega
    have hnb : n < b := by omega
    refine ⟨n, [], ?_, h1, by omega⟩
    rw [digits_append b n hb hn, Nat.div_eq_of_lt hnb, digits_zero, Nat.mod_eq_of_lt hnb]; rfl
  | succ k ih =>
    have hb0 : 0 < b := by omega
    have h1' : lo * b ^ k ≤ n / b := by
      rw [Nat.le_div_iff_mul_le hb0, Nat.mul_assoc, ← Nat.pow_succ]; exact h1
    have h2' : n / b < (hi + 1) * b ^ k := by
      rw [Nat.div_lt_iff_lt_mul hb0, Nat.mul_assoc, ← Nat.pow_succ]; exact h2
    obtain ⟨d, rest, hd, hlo', hhi'⟩ := ih (n / b) h1' h2'
    have hn : 0 < n := by
      apply Nat.pos_of_ne_zero
      intro h0
      subst h0
      simp [digits_zero] at hd
    refine ⟨d, rest ++ [n % b], ?_, hlo', hhi'⟩
    rw [digits_append b n hb hn, hd]; rfl

theorem foldl_ofDigits (b : Nat) : ∀ (l : List Nat) (a : Nat),
    List.foldl (fun a d => a * b + d) a l = a * b ^ l.length + ofDigits b l := by
  intro l
  induction l with
  | nil => intro a; simp [ofDigits]
  | cons x l ih =>
    intro a
    have e : ofDigits b (x :: l) = List.foldl (fun a d => a * b + d) (0 * b + x) l := rfl
    rw [e, List.foldl_cons, ih, ih (0 * b + x), List.length_cons, Nat.pow_succ]
    simp only [Nat.zero_mul, Nat.zero_add, Nat.add_mul, Nat.add_assoc]
    congr 1
    rw [Nat.mul_assoc, Nat.mul_comm b]

theorem ofDigits_cons (b x : Nat) (l : List Nat) :
    ofDigits b (x :: l) = x * b ^ l.length + ofDigits b l := by
  have e : ofDigits b (x :: l) = List.foldl (fun a d => a * b + d) (0 * b + x) l := rfl
  rw [e, foldl_ofDigits]; simp

theorem ofDigits_lt_pow (b : Nat) : ∀ (l : List Nat), (∀ x ∈ l, x < b) →
    ofDigits b l < b ^ l.length := by
  intro l
  induction l with
  | nil => intro _; simp [ofDigits_nil]
  | cons x l ih =>
    intro h
    have hx : x < b := h x (by simp)
    have := ih (fun y hy => h y (by simp [hy]))
    rw [ofDigits_cons, List.length_cons, Nat.pow_succ]
    calc x * b ^ l.length + ofDigits b l < x * b ^ l.length + b ^ l.length := by omega
      _ = (x + 1) * b ^ l.length := by rw [Nat.add_mul, Nat.one_mul]
      _ ≤ b * b ^ l.length := Nat.mul_le_mul_right _ hx
      _ = b ^ l.length * b := Nat.mul_comm _ _

theorem ofDigits256_range (v : Nat) (rest : List Nat) (h : ∀ x ∈ rest, x < 256) :
    v * 256 ^ rest.length ≤ ofDigits 256 (v :: rest) ∧
    ofDigits 256 (v :: rest) < (v + 1) * 256 ^ rest.length := by
  have := ofDigits_lt_pow 256 rest h
  rw [ofDigits_cons, Nat.add_mul, Nat.one_mul]
  omega

/-! ### alphabet -/

theorem digitOf_charOf : ∀ d, d < 58 → digitOf (charOf d) = some d := by
  decide

theorem indexIn_spec (c : Nat) : ∀ (l : List Nat) (i d : Nat), indexIn c l i = some d →
    i ≤ d ∧ d - i < l.length ∧ l.getD (d - i) 0 = c := by
  intro l
  induction l with
  | nil => intro i d h; simp [indexIn] at h
  | cons x xs ih =>
    intro i d h
    simp only [indexIn] at h
    split at h
    · injection h with h
      subst h
      simp [*]
    · obtain ⟨h1, h2, h3⟩ := ih (i + 1) d h
      have e : d - i = (d - (i + 1)) + 1 := by omega
      refine ⟨by omega, ?_, ?_⟩
      · simp only [List.length_cons]; omega
      · rw [e, List.getD_cons_succ]; exact h3

theorem charOf_digitOf (c d : Nat) (h : digitOf c = some d) : charOf d = c ∧ d < 58 := by
  obtain ⟨_, h2, h3⟩ := indexIn_spec c _ 0 d h
  exact ⟨h3, h2⟩

theorem charOf_eq_49 : ∀ d, d < 58 → (charOf d = 49 ↔ d = 0) := by
  decide

/-! ### round trips -/

theorem leading_split (z : Nat) : ∀ (bs : List Nat),
    bs = List.replicate (leading z bs) z ++ bs.drop (leading z bs) ∧
    (bs.drop (leading z bs)).head? ≠ some z := by
  intro bs
  induction bs with
  | nil => simp [leading]
  | cons x xs ih =>
    simp only [leading]
    split
    · rename_i hx
      subst hx
      simp only [List.replicate_succ, List.drop_succ_cons, List.cons_append]
      exact ⟨by rw [← ih.1], ih.2⟩
    · rename_i hx
      simp [hx]

theorem leading_replicate (z k : Nat) (l : List Nat) (h : l.head? ≠ some z) :
    leading z (List.replicate k z ++ l) = k := by
  induction k with
  | zero =>
    cases l with
    | nil => rfl
    | cons x xs =>
      have : x ≠ z := by simpa using h
      simp [leading, this]
  | succ k ih => simp [List.replicate_succ, leading, ih]

theorem ofDigits_replicate_zero (b k : Nat) (l : List Nat) :
    ofDigits b (List.replicate k 0 ++ l) = ofDigits b l := by
  induction k with
  | zero => simp
  | succ k ih =>
    rw [List.replicate_succ, List.cons_append, ofDigits_cons, ih]; simp

theorem digitsOf_map_charOf : ∀ (ds : List Nat), (∀ d ∈ ds, d < 58) →
    digitsOf (ds.map charOf) = some ds := by
  intro ds
  induction ds with
  | nil => intro _; rfl
  | cons d ds ih =>
    intro h
    simp only [List.map_cons, digitsOf]
    rw [digitOf_charOf d (h d (by simp)), ih (fun y hy => h y (by simp [hy]))]

theorem digitsOf_spec : ∀ (s : Text) (ds : List Nat), digitsOf s = some ds →
    s = ds.map charOf ∧ ∀ d ∈ ds, d < 58 := by
  intro s
  induction s with
  | nil => intro ds h; simp [digitsOf] at h; subst h; simp
  | cons c cs ih =>
    intro ds h
    simp only [digitsOf] at h
    split at h
    · rename_i d ds' h1 h2
      injection h with h
      subst h
      obtain ⟨e1, e2⟩ := charOf_digitOf c d h1
      obtain ⟨e3, e4⟩ := ih ds' h2
      refine ⟨by simp [e1, ← e3], ?_⟩
      intro x hx
      rcases List.mem_cons.mp hx with hx | hx
      · subst hx; exact e2
      · exact e4 x hx
    · cases h

theorem leading_map_charOf : ∀ (ds : List Nat), (∀ d ∈ ds, d < 58) →
    leading 49 (ds.map charOf) = leading 0 ds := by
  intro ds
  induction ds with
  | nil => intro _; rfl
  | cons d ds ih =>
    intro h
    have hd := charOf_eq_49 d (h d (by simp))
    simp only [List.map_cons, leading, ih (fun y hy => h y (by simp [hy]))]
    by_cases h0 : d = 0
    · subst h0; simp [hd]
    · have : charOf d ≠ 49 := fun hc => h0 (hd.mp hc)
      simp [h0, this]

theorem charOf_zero : charOf 0 = 49 := by decide

theorem map_charOf_replicate (k : Nat) (l : List Nat) :
    List.replicate k 49 ++ l.map charOf = (List.replicate k 0 ++ l).map charOf := by
  simp [List.map_append, List.map_replicate, charOf_zero]

theorem decode_lt (s : Text) (bs : List Nat) (h : decode s = some bs) : ∀ b ∈ bs, b < 256 := by
  unfold decode at h
  split at h
  · cases h
  · injection h with h
    subst h
    intro x hx
    rcases List.mem_append.mp hx with hx | hx
    · have := (List.mem_replicate.mp hx).2; omega
    · exact digits_lt 256 _ (by omega) x hx

theorem decode_encode (bs : List Nat) (h : ∀ b ∈ bs, b < 256) : decode (encode bs) = some bs := by
  obtain ⟨hs1, hs2⟩ := leading_split 0 bs
  have hdl : ∀ d ∈ List.replicate (leading 0 bs) 0 ++ digits 58 (ofDigits 256 bs), d < 58 := by
    intro x hx
    rcases List.mem_append.mp hx with hx | hx
    · have := (List.mem_replicate.mp hx).2; omega
    · exact digits_lt 58 _ (by omega) x hx
  have henc : encode bs =
      (List.replicate (leading 0 bs) 0 ++ digits 58 (ofDigits 256 bs)).map charOf := by
    unfold encode; exact map_charOf_replicate _ _
  unfold decode
  rw [henc, digitsOf_map_charOf _ hdl]
  simp only
  rw [leading_map_charOf _ hdl, leading_replicate _ _ _ (digits_head_ne_zero 58 _ (by omega)),
    ofDigits_replicate_zero, ofDigits_digits 58 _ (by omega)]
  have e : ofDigits 256 bs = ofDigits 256 (bs.drop (leading 0 bs)) := by
    conv => lhs; rw [hs1]
    exact ofDigits_replicate_zero _ _ _
  rw [e, digits_ofDigits 256 (by omega) _ (fun d hd => h d (List.mem_of_mem_drop hd)) hs2, ← hs1]

theorem encode_decode (s : Text) (bs : List Nat) (h : decode s = some bs) : encode bs = s := by
  unfold decode at h
  split at h
  · cases h
  · rename_i ds hds
    injection h with h
    obtain ⟨e1, e2⟩ := digitsOf_spec s ds hds
    obtain ⟨hs1, hs2⟩ := leading_split 0 ds
    have hl : leading 49 s = leading 0 ds := by rw [e1]; exact leading_map_charOf ds e2
    have hM : ofDigits 58 ds = ofDigits 58 (ds.drop (leading 0 ds)) := by
      conv => lhs; rw [hs1]
      exact ofDigits_replicate_zero _ _ _
    rw [hl] at h
    unfold encode
    rw [← h, leading_replicate _ _ _ (digits_head_ne_zero 256 _ (by omega)),
      ofDigits_replicate_zero, ofDigits_digits 256 _ (by omega), hM,
      digits_ofDigits 58 (by omega) _ (fun d hd => e2 d (List.mem_of_mem_drop hd)) hs2,
      map_charOf_replicate, ← hs1, ← e1]

theorem checksum4_length (H : List Nat → List Nat) (data : List Nat) : (checksum4 H data).length = 4 := by
  simp [checksum4]

theorem checksum4_lt (H : List Nat → List Nat) (data : List Nat) : ∀ b ∈ checksum4 H data, b < 256 := by
  intro b hb
  simp only [checksum4, List.mem_cons, List.mem_nil_iff, or_false] at hb
  rcases hb with hb | hb | hb | hb <;> subst hb <;> exact Nat.mod_lt _ (by omega)

theorem decodeCheck_encodeCheck (H : List Nat → List Nat) (data : List Nat) (h : ∀ b ∈ data, b < 256) :
    decodeCheck H (encodeCheck H data) = some data := by
  have hall : ∀ b ∈ data ++ checksum4 H data, b < 256 := by
    intro b hb
    rcases List.mem_append.mp hb with hb | hb
    · exact h b hb
    · exact checksum4_lt H data b hb
  have hlen : (data ++ checksum4 H data).length - 4 = data.length := by
    rw [List.length_append, checksum4_length]; omega
  unfold decodeCheck encodeCheck
  rw [decode_encode _ hall]
  simp only [hlen]
  rw [if_neg (by rw [List.length_append, checksum4_length]; omega)]
  rw [List.take_left', List.drop_left']
  · simp
  · rfl
  · rfl

theorem encodeCheck_decodeCheck (H : List Nat → List Nat) (s : Text) (data : List Nat)
    (h : decodeCheck H s = some data) : encodeCheck H data = s := by
  unfold decodeCheck at h
  split at h
  · cases h
  · rename_i ret hret
    split at h
    · cases h
    · simp only at h
      split at h
      · rename_i hck
        injection h with h
        unfold encodeCheck
        rw [← h, ← hck, List.take_append_drop]
        exact encode_decode s ret hret
      · cases h

theorem decodeCheck_lt (H : List Nat → List Nat) (s : Text) (data : List Nat)
    (h : decodeCheck H s = some data) : ∀ b ∈ data, b < 256 := by
  unfold decodeCheck at h
  split at h
  · cases h
  · rename_i ret hret
    split at h
    · cases h
    · simp only at h
      split at h
      · injection h with h
        intro b hb
        rw [← h] at hb
        exact decode_lt s ret hret b (List.mem_of_mem_take hb)
      · cases h

/-- the first character of the encoding of a byte string with a non-zero first byte is the character
    of the leading base-58 digit -/
theorem encode_head (v : Nat) (rest : List Nat) (hv : 0 < v) (hv' : v < 256) (h : ∀ x ∈ rest, x < 256)
    (k lo hi : Nat) (hlo : 1 ≤ lo) (hhi : hi < 58)
    (h1 : lo * 58 ^ k ≤ v * 256 ^ rest.length) (h2 : (v + 1) * 256 ^ rest.length ≤ (hi + 1) * 58 ^ k) :
    ∃ d tl, encode (v :: rest) = charOf d :: tl ∧ lo ≤ d ∧ d ≤ hi := by
  obtain ⟨r1, r2⟩ := ofDigits256_range v rest h
  obtain ⟨d, tl, hd, hl, hh⟩ := head_digits_range 58 k lo hi (ofDigits 256 (v :: rest)) (by omega) hlo hhi
    (Nat.le_trans h1 r1) (Nat.lt_of_lt_of_le r2 h2)
  refine ⟨d, tl.map charOf, ?_, hl, hh⟩
  have hv0 : v ≠ 0 := by omega
  unfold encode
  rw [hd]
  simp [leading, hv0]

end EV.Base58
