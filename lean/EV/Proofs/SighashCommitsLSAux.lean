/-
  Infrastructure for SighashCommitsLS: prefix-free encoders, injectivity of concatenated
  encodings, evaluation of the hash-type masks, canonicity of the normalised inputs/outputs.
-/
import EV.Proofs.SighashDefs
namespace EV.Sighash
open EV EV.Codec EV.Proofs.CodecPrim EV.Proofs.CodecTx

/-! ### prefix-free encoders -/

/-- `e` is prefix-free (and injective) on `wf` values -/
def PF {α : Type} (e : α → Bytes) (wf : α → Prop) : Prop :=
  ∀ a b r₁ r₂, wf a → wf b → e a ++ r₁ = e b ++ r₂ → a = b ∧ r₁ = r₂

theorem PF.of_lawful {α : Type} {d : Dec α} {e : α → Bytes} {wf : α → Prop} (h : Lawful d e wf) : PF e wf :=
  fun a b r₁ r₂ ha hb heq => enc_prefix_free h a b r₁ r₂ ha hb heq

theorem PF.injective {α : Type} {e : α → Bytes} {wf : α → Prop} (h : PF e wf) (a b : α) (ha : wf a) (hb : wf b)
    (heq : e a = e b) : a = b :=
  (h a b [] [] ha hb (by rw [heq])).1

theorem flatMap_injective {α : Type} {e : α → Bytes} {wf : α → Prop} (hpf : PF e wf)
    (hne : ∀ a, wf a → e a ≠ []) :
    ∀ (l l' : List α), (∀ a ∈ l, wf a) → (∀ b ∈ l', wf b) → l.flatMap e = l'.flatMap e → l = l' := by
  intro l
  induction l with
  | nil =>
    intro l' _ hl' h
    cases l' with
    | nil => rfl
    | cons b t =>
      exfalso
      simp only [List.flatMap_nil, List.flatMap_cons] at h
      have h2 := congrArg List.length h
      simp only [List.length_nil, List.length_append] at h2
      have : (e b).length = 0 := by omega
      exact hne b (hl' b List.mem_cons_self) (List.eq_nil_of_length_eq_zero this)
  | cons a t ih =>
    intro l' hl hl' h
    cases l' with
    | nil =>
      exfalso
      simp only [List.flatMap_nil, List.flatMap_cons] at h
      have h2 := congrArg List.length h
      simp only [List.length_nil, List.length_append] at h2
      have : (e a).length = 0 := by omega
      exact hne a (hl a List.mem_cons_self) (List.eq_nil_of_length_eq_zero this)
    | cons b t' =>
      simp only [List.flatMap_cons] at h
      obtain ⟨h1, h2⟩ := hpf a b _ _ (hl a List.mem_cons_self) (hl' b List.mem_cons_self) h
      subst h1
      have := ih t' (fun x hx => hl x (List.mem_cons_of_mem _ hx)) (fun x hx => hl' x (List.mem_cons_of_mem _ hx)) h2
      rw [this]

/-- peeling a fixed-length head -/
theorem append_peel {a b r₁ r₂ : Bytes} (hlen : a.length = b.length) (h : a ++ r₁ = b ++ r₂) : a = b ∧ r₁ = r₂ :=
  List.append_inj h hlen

theorem le4_pf : PF (encLe 4) (fun n => n < 2^32) := by
  have h := PF.of_lawful (le_lawful 4)
  intro a b r₁ r₂ ha hb heq
  exact h a b r₁ r₂ (by simpa [two_pow_32] using ha) (by simpa [two_pow_32] using hb) heq

theorem encLe_length (k n : Nat) : (encLe k n).length = k := leBytes_length k n

theorem encLe4_ne_nil (n : Nat) : encLe 4 n ≠ [] := by
  intro h
  have := encLe_length 4 n
  rw [h] at this
  cases this

theorem outpoint_enc_length (o : OutPoint) (h : o.wf) : o.enc.length = 36 := by
  simp only [OutPoint.enc, List.length_append, encLe_length, h.1]

theorem outpoint_enc_ne_nil (o : OutPoint) (h : o.wf) : o.enc ≠ [] := by
  intro hh
  have := outpoint_enc_length o h
  rw [hh] at this
  cases this

theorem asset_enc_ne_nil (P : Prims) (a : Asset) (h : a.wf P) : a.enc ≠ [] := by
  cases a with
  | null => simp [Asset.enc]
  | explicit id => simp [Asset.enc]
  | conf g =>
    intro hh
    have h1 : g.length = 33 := h.1
    simp only [Asset.enc] at hh
    rw [hh] at h1
    cases h1

theorem txOut_enc_ne_nil (P : Prims) (o : TxOut) (h : o.wfBody P) : o.enc ≠ [] := by
  intro hh
  simp only [TxOut.enc, List.append_assoc, List.append_eq_nil_iff] at hh
  exact asset_enc_ne_nil P o.asset h.1 hh.1

theorem issuance_enc_ne_nil (P : Prims) (i : AssetIssuance) (h : i.wf P) : i.enc ≠ [] := by
  intro hh
  simp only [AssetIssuance.enc, List.append_assoc, List.append_eq_nil_iff] at hh
  have := h.1
  rw [hh.1] at this
  cases this

theorem zero32_length : zero32.length = 32 := by simp [zero32]

/-! ### the hash-type masks on the six standard types -/

theorem mask_acp (ty : EcdsaTy) : (ty.asU32 &&& SIGHASH_ANYONECANPAY ≠ 0) ↔ ty.acp = true := by
  cases ty <;> decide
theorem mask_single (ty : EcdsaTy) : (ty.asU32 &&& 0x1f = SIGHASH_SINGLE) ↔ ty.base = .single := by
  cases ty <;> decide
theorem mask_none (ty : EcdsaTy) : (ty.asU32 &&& 0x1f = SIGHASH_NONE) ↔ ty.base = .none := by
  cases ty <;> decide
theorem asU32_lt (ty : EcdsaTy) : ty.asU32 < 2^32 := by
  cases ty <;> decide

/-! ### canonicity of normalised inputs and outputs -/

variable (P : Prims)

theorem default_txIn_wfBody : (default : TxIn).wfBody P := by
  refine ⟨?_, Or.inr ⟨rfl, rfl, rfl⟩, ?_, ?_, ?_⟩
  · decide
  · decide
  · decide
  · rfl

theorem txOutDefault_wfBody : txOutDefault.wfBody P :=
  ⟨trivial, trivial, trivial, by decide⟩

theorem getD_txIn_wfBody (l : List TxIn) (h : ∀ i ∈ l, i.wfBody P) (k : Nat) : (l.getD k default).wfBody P := by
  rw [List.getD_eq_getElem?_getD]
  cases hk : l[k]? with
  | none => exact default_txIn_wfBody P
  | some x => exact h x (List.mem_of_getElem? hk)

theorem getD_txOut_wfBody (l : List TxOut) (h : ∀ o ∈ l, o.wfBody P) (k : Nat) : (l.getD k default).wfBody P := by
  rw [List.getD_eq_getElem?_getD]
  cases hk : l[k]? with
  | none => exact txOutDefault_wfBody P
  | some x => exact h x (List.mem_of_getElem? hk)

theorem issuanceOf_wf (i : TxIn) (hi : i.wfBody P) (x : AssetIssuance) (hx : issuanceOf i = some x) : x.wf P := by
  unfold issuanceOf at hx
  cases hn : i.assetIssuance.isNull with
  | true => rw [hn] at hx; cases hx
  | false =>
    rw [hn] at hx
    simp only [Bool.false_eq_true, if_false, Option.some.injEq] at hx
    subst hx
    have h5 := hi.2.2.2.2
    simp only [TxIn.hasIssuance, hn, Bool.not_false, if_true] at h5
    exact h5

/-- the input the legacy algorithm serialises: outpoint, pegin flag and issuance of `i`, a replaced
    script and sequence, no witness -/
def normIn (i : TxIn) (s : Bytes) (q : Nat) : TxIn :=
  { previousOutput := i.previousOutput, isPegin := i.isPegin, scriptSig := s, sequence := q,
    assetIssuance := (issuanceOf i).getD AssetIssuance.null, witness := TxInWitness.empty }

theorem normIn_hasIssuance (i : TxIn) (s : Bytes) (q : Nat) : (normIn i s q).hasIssuance = i.hasIssuance := by
  unfold TxIn.hasIssuance normIn issuanceOf
  cases hn : i.assetIssuance.isNull <;> simp [null_isNull, hn]

theorem normIn_wf (i : TxIn) (hi : i.wfBody P) (s : Bytes) (hs : s.length ≤ maxVecSize) (q : Nat) (hq : q < 2^32) :
    (normIn i s q).wfBody P := by
  obtain ⟨h1, h2, _, _, h5⟩ := hi
  have hiss := normIn_hasIssuance i s q
  refine ⟨h1, ?_, hs, hq, ?_⟩
  · rw [hiss]; exact h2
  · rw [hiss]
    unfold normIn issuanceOf
    cases hn : i.assetIssuance.isNull with
    | true =>
      simp only [TxIn.hasIssuance, hn, Bool.not_true, Bool.false_eq_true, if_false, if_true, Option.getD_none]
    | false =>
      simp only [TxIn.hasIssuance, hn, Bool.not_false, if_true] at h5
      simp only [TxIn.hasIssuance, hn, Bool.not_false, if_true, Bool.false_eq_true, if_false, Option.getD_some]
      exact h5

theorem outpoint_wf_of_wfBody (i : TxIn) (h : i.wfBody P) : i.previousOutput.wf := by
  refine ⟨h.1, ?_⟩
  rcases h.2.1 with ⟨h1, _⟩ | ⟨h1, _⟩
  · simp only [two_pow_30] at h1
    simp only [two_pow_32]
    omega
  · rw [h1]; decide

/-! ### the BIP143 serialisation, piecewise -/

/-- hash of an optional list of items (zero hash when absent) -/
def optHash (H : SigHashes) {α : Type} (f : α → Bytes) : Option (List α) → Bytes
  | some l => H.sha256d (l.flatMap f)
  | none => zero32

def issPart : Option AssetIssuance → Bytes
  | some i => i.enc
  | none => []

def outHash (H : SigHashes) : OutSel → Bytes
  | .all l => H.sha256d (l.flatMap TxOut.enc)
  | .single o => H.sha256d o.enc
  | .none => zero32

theorem serSegwit_eq (H : SigHashes) (v : SegwitView) :
    serSegwit H v =
      encLe 4 v.version ++ (optHash H OutPoint.enc v.prevouts ++ (optHash H (encLe 4) v.sequences ++
      (optHash H encIssuanceOpt v.issuances ++ (v.outpoint.enc ++ (encBytesVec v.scriptCode ++ (v.value.enc ++
      (encLe 4 v.sequence ++ (issPart v.issuance ++ (outHash H v.outputs ++
      (encLe 4 v.lockTime ++ encLe 4 v.hashType)))))))))) := by
  simp only [serSegwit, List.append_assoc]
  cases v.prevouts <;> cases v.sequences <;> cases v.issuances <;> cases v.issuance <;> cases v.outputs <;> rfl

theorem optHash_length {H : SigHashes} (hl : HashLen H) {α : Type} (f : α → Bytes) (o : Option (List α)) :
    (optHash H f o).length = 32 := by
  cases o with
  | none => exact zero32_length
  | some l => exact hl.sha256d _

theorem outHash_length {H : SigHashes} (hl : HashLen H) (o : OutSel) : (outHash H o).length = 32 := by
  cases o with
  | all l => exact hl.sha256d _
  | single o => exact hl.sha256d _
  | none => exact zero32_length

theorem optHash_inj {H : SigHashes} (hinj : ∀ x y, H.sha256d x = H.sha256d y → x = y) {α : Type} (f : α → Bytes)
    (a b : Option (List α)) (hs : a.isSome = b.isSome) (h : optHash H f a = optHash H f b) :
    a.map (fun l => l.flatMap f) = b.map (fun l => l.flatMap f) := by
  cases a with
  | none =>
    cases b with
    | none => rfl
    | some y => cases hs
  | some x =>
    cases b with
    | none => cases hs
    | some y =>
      simp only [optHash] at h
      simp only [Option.map_some, hinj _ _ h]

theorem opt_flatMap_inj {α : Type} {e : α → Bytes} {wf : α → Prop} (hpf : PF e wf) (hne : ∀ a, wf a → e a ≠ [])
    (a b : Option (List α)) (ha : ∀ l, a = some l → ∀ x ∈ l, wf x) (hb : ∀ l, b = some l → ∀ x ∈ l, wf x)
    (h : a.map (fun l => l.flatMap e) = b.map (fun l => l.flatMap e)) : a = b := by
  cases a with
  | none =>
    cases b with
    | none => rfl
    | some y => cases h
  | some x =>
    cases b with
    | none => cases h
    | some y =>
      simp only [Option.map_some, Option.some.injEq] at h
      rw [flatMap_injective hpf hne x y (ha x rfl) (hb y rfl) h]

theorem issPart_inj (a b : Option AssetIssuance) (ha : ∀ i, a = some i → i.wf P) (hb : ∀ i, b = some i → i.wf P)
    (h : issPart a = issPart b) : a = b := by
  cases a with
  | none =>
    cases b with
    | none => rfl
    | some y => exact absurd h.symm (issuance_enc_ne_nil P y (hb y rfl))
  | some x =>
    cases b with
    | none => exact absurd h (issuance_enc_ne_nil P x (ha x rfl))
    | some y =>
      simp only [issPart] at h
      rw [enc_injective_of_complete (issuance_lawful P) x y (ha x rfl) (hb y rfl) h]

end EV.Sighash
