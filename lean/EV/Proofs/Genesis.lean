/-
  EV.Proofs.Genesis — helper lemmas for the genesis-block section of C02 (EV.Model.Genesis):
  closed forms of the two genesis transactions and the block, totality of the bitcoin merkle root,
  well-formedness in the sense of the C01 codec model, injectivity of the lower-case hex feed, and the
  commitment chain  chain hash → header → merkle root → txids → parameter commitment.
-/
import EV.Model.Genesis
import EV.Proofs.Issuance
import EV.Proofs.CodecTx
import EV.Proofs.CodecBlock
import EV.Proofs.Text
set_option linter.unusedSimpArgs false
set_option linter.unusedVariables false
namespace EV.Proofs.Genesis
open EV EV.Codec EV.Genesis EV.Proofs.CodecPrim EV.Proofs.CodecTx EV.Proofs.CodecBlock

/-- every hash of the record returns 32 bytes (true of SHA-256, double SHA-256 and the midstate) -/
structure Len32 (G : GHashes) : Prop where
  sha256 : ∀ x, (G.sha256 x).length = 32
  sha256d : ∀ x, (G.sha256d x).length = 32
  comb : ∀ a b, (G.comb a b).length = 32

/-- the parameters are representable: `initial_free_coins` is a `u64` and the sign-block script fits
    the decoder's `MAX_VEC_SIZE` guard -/
structure ParamsOk (p : NetworkParams) : Prop where
  coins : p.initialFreeCoins < 2^64
  signBlock : p.signBlockScript.length ≤ maxVecSize

/-- the platform sizes leave room for one input, one output and two transactions below `MAX_VEC_SIZE`
    (they are 328 / 160 / 56 on 64-bit targets) -/
structure SizesFit (P : Prims) : Prop where
  txIn : P.sizeTxIn ≤ maxVecSize
  txOut : P.sizeTxOut ≤ maxVecSize
  tx : 2 * P.sizeTx ≤ maxVecSize

/-! ### bitcoin merkle root -/

theorem btcPairs_length (h : Bytes → Bytes) : ∀ l : List Bytes, (btcPairs h l).length = (l.length + 1) / 2
  | a :: b :: rest => by
    have := btcPairs_length h rest
    simp only [btcPairs, List.length_cons, this]; omega
  | [a] => by simp [btcPairs]
  | [] => by simp [btcPairs]

theorem btcRootR_total (h : Bytes → Bytes) : ∀ (fuel : Nat) (l : List Bytes), l ≠ [] → l.length ≤ fuel + 1 →
    ∃ r, btcRootR h fuel l = some r
  | fuel, [], hne, _ => absurd rfl hne
  | fuel, [a], _, _ => ⟨a, by cases fuel <;> rfl⟩
  | 0, a :: b :: rest, _, hl => by simp at hl
  | fuel + 1, a :: b :: rest, _, hl => by
    have hlen := btcPairs_length h (a :: b :: rest)
    have hne : btcPairs h (a :: b :: rest) ≠ [] := by simp [btcPairs]
    have := btcRootR_total h fuel (btcPairs h (a :: b :: rest)) hne (by
      rw [hlen]; simp only [List.length_cons] at hl ⊢; omega)
    simpa [btcRootR] using this

/-- with enough fuel the result does not depend on the fuel -/
theorem btcRootR_fuel (h : Bytes → Bytes) : ∀ (f f' : Nat) (l : List Bytes), l.length ≤ f + 1 → l.length ≤ f' + 1 →
    btcRootR h f l = btcRootR h f' l
  | f, f', [], _, _ => by cases f <;> cases f' <;> rfl
  | f, f', [a], _, _ => by cases f <;> cases f' <;> rfl
  | 0, _, a :: b :: rest, hl, _ => by simp at hl
  | _, 0, a :: b :: rest, _, hl => by simp at hl
  | f + 1, f' + 1, a :: b :: rest, hl, hl' => by
    have hlen := btcPairs_length h (a :: b :: rest)
    simp only [btcRootR]
    apply btcRootR_fuel h f f'
    · rw [hlen]; simp only [List.length_cons] at hl ⊢; omega
    · rw [hlen]; simp only [List.length_cons] at hl' ⊢; omega

theorem btcMerkleRoot_total (h : Bytes → Bytes) (l : List Bytes) (hne : l ≠ []) : ∃ r, btcMerkleRoot h l = some r := by
  match l, hne with
  | [a], _ => exact ⟨a, rfl⟩
  | a :: b :: rest, _ =>
    have hlen := btcPairs_length h (a :: b :: rest)
    exact btcRootR_total h (rest.length + 2) _ (by simp [btcPairs]) (by
      rw [hlen]; simp only [List.length_cons]; omega)

/-- the root of two or more hashes is the root of their pair level -/
theorem btcMerkleRoot_level (h : Bytes → Bytes) (a b : Bytes) (rest : List Bytes) :
    btcMerkleRoot h (a :: b :: rest) = btcMerkleRoot h (btcPairs h (a :: b :: rest)) := by
  have hlen := btcPairs_length h (a :: b :: rest)
  generalize hq : btcPairs h (a :: b :: rest) = q at hlen
  simp only [btcMerkleRoot, hq]
  match q, hlen with
  | [], hlen => simp only [List.length_cons, List.length_nil] at hlen; omega
  | [x], _ => rfl
  | x :: y :: q', hlen =>
    have hlen2 := btcPairs_length h (x :: y :: q')
    simp only [btcMerkleRoot]
    simp only [List.length_cons] at hlen hlen2
    rw [show rest.length + 2 = (rest.length + 1) + 1 from rfl]
    simp only [btcRootR]
    apply btcRootR_fuel
    · rw [hlen2]; omega
    · rw [hlen2]; omega

/-! ### closed forms -/

/-- `liquid_genesis_tx` for a 32-byte commitment `c` -/
def coinbaseTx (c : Bytes) : Tx :=
  { version := Gen.genesisTxVersion
    lockTime := 0
    input := [⟨OutPoint.null, false, 32 :: c, Gen.sequenceMax, AssetIssuance.null, TxInWitness.empty⟩]
    output := [⟨.explicit (List.replicate 32 0), .explicit Gen.genesisTxOutValue, .null,
                opcodeScript Gen.genesisTxOutOpcode, TxOutWitness.empty⟩] }

/-- the asset id `liquid_genesis_asset_tx` derives from the commitment -/
def genesisAssetId (H : Hashes) (c : Bytes) : Bytes :=
  H.comb (H.comb (H.sha256d (c ++ encLe 4 Gen.genesisAssetVout)) (rep32 Gen.genesisAssetContractByte)) Issuance.assetLeaf

/-- `liquid_genesis_asset_tx` for a commitment `c` and a non-zero amount -/
def assetTx (H : Hashes) (c : Bytes) (amount : Nat) : Tx :=
  { version := Gen.genesisAssetTxVersion
    lockTime := 0
    input := [⟨⟨c, Gen.genesisAssetVout⟩, false, [], Gen.sequenceMax,
               ⟨List.replicate 32 0, rep32 Gen.genesisAssetEntropyByte, .explicit amount, .explicit Gen.genesisAssetInflationKeys⟩,
               TxInWitness.empty⟩]
    output := [⟨.explicit (genesisAssetId H c), .explicit amount, .null,
                opcodeScript Gen.genesisAssetTxOutOpcode, TxOutWitness.empty⟩] }

theorem pushSlice_32 (c : Bytes) (h : c.length = 32) :
    Script.Builder.new.pushSlice c = some ⟨32 :: c, none⟩ := by
  have hh : Script.pushHeader 32 = some [32] := by decide
  simp only [Script.Builder.pushSlice, h, hh, Script.Builder.new, List.nil_append, List.cons_append]

variable (G : GHashes) (p : NetworkParams)

theorem genesisTx_eq (h : (commit G.sha256 p).length = 32) :
    genesisTx G p = some (coinbaseTx (commit G.sha256 p)) := by
  simp only [genesisTx, pushSlice_32 _ h, coinbaseTx]

theorem genesisAssetTx_zero (h : p.initialFreeCoins = 0) : genesisAssetTx G p = some none := by
  simp only [genesisAssetTx, h, if_true]

theorem genesisAssetTx_nonzero (h : p.initialFreeCoins ≠ 0) :
    genesisAssetTx G p = some (some (assetTx G.toHashes (commit G.sha256 p) p.initialFreeCoins)) := by
  simp only [genesisAssetTx, h, if_false, EV.Proofs.Issuance.entropy_eq, EV.Proofs.Issuance.fromEntropy_eq,
    assetTx, genesisAssetId]

theorem genesisBlock_zero (hc : (commit G.sha256 p).length = 32) (h : p.initialFreeCoins = 0) :
    genesisBlock G p =
      some ⟨genesisHeader p ((coinbaseTx (commit G.sha256 p)).txid G.toHashes), [coinbaseTx (commit G.sha256 p)]⟩ := by
  simp only [genesisBlock, genesisTx_eq G p hc, genesisAssetTx_zero G p h]

theorem genesisBlock_nonzero (hc : (commit G.sha256 p).length = 32) (h : p.initialFreeCoins ≠ 0) :
    genesisBlock G p =
      some ⟨genesisHeader p (G.sha256d ((coinbaseTx (commit G.sha256 p)).txid G.toHashes ++
                (assetTx G.toHashes (commit G.sha256 p) p.initialFreeCoins).txid G.toHashes)),
            [coinbaseTx (commit G.sha256 p), assetTx G.toHashes (commit G.sha256 p) p.initialFreeCoins]⟩ := by
  simp only [genesisBlock, genesisTx_eq G p hc, genesisAssetTx_nonzero G p h, btcMerkleRoot, btcPairs, btcRootR]

/-- `genesis_block` never panics (32-byte hashes) -/
theorem genesisBlock_total (hc : (commit G.sha256 p).length = 32) : ∃ b, genesisBlock G p = some b := by
  by_cases h : p.initialFreeCoins = 0
  · exact ⟨_, genesisBlock_zero G p hc h⟩
  · exact ⟨_, genesisBlock_nonzero G p hc h⟩

/-! ### well-formedness (C01 model) -/

theorem genConsts :
    Gen.genesisTxVersion < 2^32 ∧ Gen.genesisAssetTxVersion < 2^32 ∧ Gen.sequenceMax < 2^32 ∧
    Gen.genesisTxOutValue < 2^64 ∧ Gen.genesisAssetInflationKeys < 2^64 ∧ Gen.genesisAssetVout < 2^30 ∧
    Gen.genesisAssetVout ≠ 2^30 - 1 ∧
    Gen.genesisHeaderVersion < 2^31 ∧ Gen.genesisHeaderTime < 2^32 ∧ Gen.genesisHeaderHeight < 2^32 := by decide

theorem prev_zero : rep32 Gen.genesisPrevBlockHashByte = List.replicate 32 0 := by decide
theorem height_zero : Gen.genesisHeaderHeight = 0 := by decide
theorem opcodeScript_length (c : UInt8) : (opcodeScript c).length = 1 := rfl
theorem rep32_length (b : Nat) : (rep32 b).length = 32 := by simp [rep32]

variable (P : Prims)

theorem coinbaseTx_wf (c : Bytes) (hc : c.length = 32) (hs : SizesFit P) : (coinbaseTx c).wf P := by
  obtain ⟨h1, h2, h3, h4, h5, h6, h7, h8, h9, h10⟩ := genConsts
  refine ⟨h1, by simp [coinbaseTx], by simpa [coinbaseTx] using hs.txIn, by simpa [coinbaseTx] using hs.txOut, ?_, ?_⟩
  · intro i hi
    simp only [coinbaseTx, List.mem_singleton] at hi
    subst hi
    refine ⟨⟨by simp [OutPoint.null], Or.inr ⟨rfl, rfl, rfl⟩, ?_, h3, ?_⟩, txInWitness_empty_wf P⟩
    · simp only [List.length_cons, hc, maxVecSize]; omega
    · simp [TxIn.hasIssuance, null_isNull]
  · intro o ho
    simp only [coinbaseTx, List.mem_singleton] at ho
    subst ho
    refine ⟨⟨by simp [Asset.wf], h4, trivial, ?_⟩, txOutWitness_empty_wf P⟩
    simp only [opcodeScript_length, maxVecSize]; omega

theorem assetTx_hasIssuance (H : Hashes) (c : Bytes) (amount : Nat) :
    ∀ i ∈ (assetTx H c amount).input, i.hasIssuance = true := by
  intro i hi
  simp only [assetTx, List.mem_singleton] at hi
  subst hi
  rfl

theorem assetTx_wf (H : Hashes) (c : Bytes) (amount : Nat) (hc : c.length = 32) (ha : amount < 2^64)
    (hcomb : ∀ a b, (H.comb a b).length = 32) (ht : P.tweak (List.replicate 32 0) = true) (hs : SizesFit P) :
    (assetTx H c amount).wf P := by
  obtain ⟨h1, h2, h3, h4, h5, h6, h7, h8, h9, h10⟩ := genConsts
  refine ⟨h2, by simp [assetTx], by simpa [assetTx] using hs.txIn, by simpa [assetTx] using hs.txOut, ?_, ?_⟩
  · intro i hi
    simp only [assetTx, List.mem_singleton] at hi
    subst hi
    have hiss : TxIn.hasIssuance ⟨⟨c, Gen.genesisAssetVout⟩, false, [], Gen.sequenceMax,
        ⟨List.replicate 32 0, rep32 Gen.genesisAssetEntropyByte, .explicit amount, .explicit Gen.genesisAssetInflationKeys⟩,
        TxInWitness.empty⟩ = true := rfl
    refine ⟨⟨hc, Or.inl ⟨h6, fun h => h7 h.1⟩, by simp [maxVecSize], h3, ?_⟩, txInWitness_empty_wf P⟩
    rw [if_pos hiss]
    exact ⟨by simp, ht, rep32_length _, ha, h5⟩
  · intro o ho
    simp only [assetTx, List.mem_singleton] at ho
    subst ho
    refine ⟨⟨hcomb _ _, ha, trivial, ?_⟩, txOutWitness_empty_wf P⟩
    simp only [opcodeScript_length, maxVecSize]; omega

theorem genesisHeader_wf (root : Bytes) (hr : root.length = 32) (hp : p.signBlockScript.length ≤ maxVecSize) :
    (genesisHeader p root).wf := by
  obtain ⟨h1, h2, h3, h4, h5, h6, h7, h8, h9, h10⟩ := genConsts
  exact ⟨h8, rep32_length _, hr, h9, h10, hp, by simp [maxVecSize]⟩

/-- the genesis block and its transactions are canonical values of the C01 codec model -/
theorem genesisBlock_wf (hl : Len32 G) (hp : ParamsOk p) (ht : P.tweak (List.replicate 32 0) = true) (hs : SizesFit P)
    (b : Block) (hb : genesisBlock G p = some b) : b.wf P := by
  have hc : (commit G.sha256 p).length = 32 := hl.sha256 (commitPreimage p)
  by_cases h : p.initialFreeCoins = 0
  · rw [genesisBlock_zero G p hc h] at hb
    cases hb
    refine ⟨genesisHeader_wf p _ (hl.sha256d _) hp.signBlock, ?_, ?_⟩
    · have := hs.tx; simp only [List.length_cons, List.length_nil]; omega
    · intro t ht'
      simp only [List.mem_singleton] at ht'
      subst ht'
      exact coinbaseTx_wf P _ hc hs
  · rw [genesisBlock_nonzero G p hc h] at hb
    cases hb
    refine ⟨genesisHeader_wf p _ (hl.sha256d _) hp.signBlock, ?_, ?_⟩
    · have := hs.tx; simp only [List.length_cons, List.length_nil]; omega
    · intro t ht'
      simp only [List.mem_cons, List.not_mem_nil, or_false] at ht'
      rcases ht' with rfl | rfl
      · exact coinbaseTx_wf P _ hc hs
      · exact assetTx_wf P _ _ _ hc hp.coins hl.comb ht hs

/-! ### the lower-case hex feed is injective -/

theorem digit_byte : ∀ m : Fin 16, UInt8.ofNat (Hex.digit m.val).toNat = hexDigitByte m.val := by decide
theorem digit_back : ∀ m : Fin 16, Char.ofNat (hexDigitByte m.val).toNat = Hex.digit m.val := by decide

/-- `hexAscii` is the lower-case hex string of EV.Model.Text, char by char as ASCII bytes -/
theorem hexAscii_eq_hexStr (bs : Bytes) : hexAscii bs = (Text.hexStr bs).map (fun c => UInt8.ofNat c.toNat) := by
  induction bs with
  | nil => rfl
  | cons b bs ih =>
    have h1 : b.toNat / 16 < 16 := by have := b.toNat_lt; omega
    have h2 : b.toNat % 16 < 16 := by omega
    simp only [hexAscii, Text.hexStr, List.flatMap_cons, Hex.ofByte, List.map_append, List.map_cons, List.map_nil] at ih ⊢
    rw [ih, digit_byte ⟨_, h1⟩, digit_byte ⟨_, h2⟩]

theorem hexAscii_back (bs : Bytes) : (hexAscii bs).map (fun b => Char.ofNat b.toNat) = Text.hexStr bs := by
  rw [hexAscii_eq_hexStr]
  simp only [List.map_map]
  conv => rhs; rw [← List.map_id (Text.hexStr bs)]
  apply List.map_congr_left
  intro c hc
  obtain ⟨m, hm, rfl⟩ := EV.Text.mem_hexStr bs c hc
  simp only [Function.comp, id]
  rw [digit_byte ⟨m, hm⟩]
  exact digit_back ⟨m, hm⟩

theorem hexAscii_inj (a b : Bytes) (h : hexAscii a = hexAscii b) : a = b := by
  have h' : Text.hexStr a = Text.hexStr b := by rw [← hexAscii_back a, ← hexAscii_back b, h]
  have ha := EV.Text.decodeChars_hexStr a
  rw [h', EV.Text.decodeChars_hexStr b] at ha
  exact (Option.some.inj ha).symm

theorem hexAscii_length (a : Bytes) : (hexAscii a).length = 2 * a.length := by
  simp [hexAscii_eq_hexStr, EV.Text.hexStr_length]

/-- with the network id and the length of the fedpeg script fixed, the preimage determines both scripts -/
theorem commitPreimage_inj (p q : NetworkParams) (hid : p.networkId = q.networkId)
    (hlen : p.fedpegScript.length = q.fedpegScript.length) (h : commitPreimage p = commitPreimage q) :
    p.fedpegScript = q.fedpegScript ∧ p.signBlockScript = q.signBlockScript := by
  simp only [commitPreimage, hid, List.append_assoc] at h
  have h1 := List.append_cancel_left h
  have hl : (hexAscii p.fedpegScript).length = (hexAscii q.fedpegScript).length := by
    simp [hexAscii_length, hlen]
  have := List.append_inj h1 hl
  exact ⟨hexAscii_inj _ _ this.1, hexAscii_inj _ _ this.2⟩

/-! ### txids commit to the parameter commitment -/

theorem coinbaseTx_hasWitness (c : Bytes) : (coinbaseTx c).hasWitness = false := rfl
theorem assetTx_hasWitness (H : Hashes) (c : Bytes) (a : Nat) : (assetTx H c a).hasWitness = false := rfl

theorem coinbaseTx_inj (c c' : Bytes) (h : coinbaseTx c = coinbaseTx c') : c = c' := by
  have := congrArg (fun t : Tx => t.input.map (·.scriptSig)) h
  simpa [coinbaseTx] using this

theorem assetTx_inj (H : Hashes) (c c' : Bytes) (a a' : Nat) (h : assetTx H c a = assetTx H c' a') : c = c' ∧ a = a' := by
  have h1 := congrArg (fun t : Tx => t.input.map (·.previousOutput.txid)) h
  have h2 := congrArg (fun t : Tx => t.output.map (·.value)) h
  simp [assetTx] at h1 h2
  exact ⟨h1, h2⟩

/-- equal txids of two genesis transactions: equal commitments, or a collision -/
theorem coinbase_txid_commits (H : Hashes) (hs : SizesPos P) (hf : SizesFit P) (c c' : Bytes) (hc : c.length = 32) (hc' : c'.length = 32)
    (h : (coinbaseTx c).txid H = (coinbaseTx c').txid H) : c = c' ∨ ∃ x y, x ≠ y ∧ H.sha256d x = H.sha256d y := by
  by_cases he : (coinbaseTx c).encStripped = (coinbaseTx c').encStripped
  · have := encStripped_injective P hs _ _ (coinbaseTx_wf P c hc hf) (coinbaseTx_wf P c' hc' hf) he
    rw [stripWit_eq_self_of_no_witness _ (coinbaseTx_hasWitness c),
        stripWit_eq_self_of_no_witness _ (coinbaseTx_hasWitness c')] at this
    exact Or.inl (coinbaseTx_inj c c' this)
  · exact Or.inr ⟨_, _, he, h⟩

theorem asset_txid_commits (H : Hashes) (hs : SizesPos P) (hf : SizesFit P) (c c' : Bytes) (a a' : Nat)
    (hc : c.length = 32) (hc' : c'.length = 32) (ha : a < 2^64) (ha' : a' < 2^64)
    (hcomb : ∀ a b, (H.comb a b).length = 32) (ht : P.tweak (List.replicate 32 0) = true)
    (h : (assetTx H c a).txid H = (assetTx H c' a').txid H) :
    (c = c' ∧ a = a') ∨ ∃ x y, x ≠ y ∧ H.sha256d x = H.sha256d y := by
  by_cases he : (assetTx H c a).encStripped = (assetTx H c' a').encStripped
  · have := encStripped_injective P hs _ _ (assetTx_wf P H c a hc ha hcomb ht hf) (assetTx_wf P H c' a' hc' ha' hcomb ht hf) he
    rw [stripWit_eq_self_of_no_witness _ (assetTx_hasWitness H c a),
        stripWit_eq_self_of_no_witness _ (assetTx_hasWitness H c' a')] at this
    exact Or.inl (assetTx_inj H c c' a a' this)
  · exact Or.inr ⟨_, _, he, h⟩

/-! ### the chain hash commits to (commitment, sign-block script, free coins) -/

/-- a trivial `Prims` (every parse predicate accepts, unit sizes): the genesis transactions carry no
    curve points or proofs, so the codec facts needed below hold for it -/
def P0 : Prims := ⟨fun _ => true, fun _ => true, fun _ => true, fun _ => true, fun _ => true, fun _ => true, 1, 1, 1⟩
theorem P0_pos : SizesPos P0 := ⟨by decide, by decide, by decide⟩
theorem P0_fit : SizesFit P0 := ⟨by decide, by decide, by decide⟩

theorem coinbaseTx_encStripped_length (c : Bytes) (hc : c.length = 32) : (coinbaseTx c).encStripped.length = 130 := by
  have hn : OutPoint.null.txid.length = 32 := by simp [OutPoint.null]
  simp [encStripped_length, coinbaseTx, TxIn.enc, TxOut.enc, TxIn.hasIssuance, null_isNull, encLe, leBytes_length,
    encBytesVec_length, varintSize, Asset.enc, Value.enc, Nonce.enc, beBytes_length, hn, hc, opcodeScript_length]

theorem chainHash_zero (hc : (commit G.sha256 p).length = 32) (h : p.initialFreeCoins = 0) :
    chainHash G p =
      some ((genesisHeader p ((coinbaseTx (commit G.sha256 p)).txid G.toHashes)).blockHash G.toHashes) := by
  simp only [chainHash, genesisBlock_zero G p hc h, Option.map_some]

theorem chainHash_nonzero (hc : (commit G.sha256 p).length = 32) (h : p.initialFreeCoins ≠ 0) :
    chainHash G p =
      some ((genesisHeader p (G.sha256d ((coinbaseTx (commit G.sha256 p)).txid G.toHashes ++
                (assetTx G.toHashes (commit G.sha256 p) p.initialFreeCoins).txid G.toHashes))).blockHash G.toHashes) := by
  simp only [chainHash, genesisBlock_nonzero G p hc h, Option.map_some]

theorem header_commits (H : Hashes) (p q : NetworkParams) (r r' : Bytes) (hr : r.length = 32) (hr' : r'.length = 32)
    (hp : p.signBlockScript.length ≤ maxVecSize) (hq : q.signBlockScript.length ≤ maxVecSize)
    (h : (genesisHeader p r).blockHash H = (genesisHeader q r').blockHash H) :
    (r = r' ∧ p.signBlockScript = q.signBlockScript) ∨ ∃ x y, x ≠ y ∧ H.sha256d x = H.sha256d y := by
  by_cases he : (genesisHeader p r).hashPreimage = (genesisHeader q r').hashPreimage
  · have := hashPreimage_injective _ _ (genesisHeader_wf p r hr hp) (genesisHeader_wf q r' hr' hq) he
    simp only [BlockHeader.clearWitness, genesisHeader, ExtData.clearWitness, BlockHeader.mk.injEq,
      ExtData.proof.injEq, and_true, true_and] at this
    exact Or.inl this
  · exact Or.inr ⟨_, _, he, h⟩

theorem chainHash_commits (hl : Len32 G) (p q : NetworkParams) (hp : ParamsOk p) (hq : ParamsOk q)
    (h : chainHash G p = chainHash G q) :
    (commit G.sha256 p = commit G.sha256 q ∧ p.signBlockScript = q.signBlockScript ∧
      p.initialFreeCoins = q.initialFreeCoins) ∨ ∃ x y, x ≠ y ∧ G.sha256d x = G.sha256d y := by
  have hcp : (commit G.sha256 p).length = 32 := hl.sha256 (commitPreimage p)
  have hcq : (commit G.sha256 q).length = 32 := hl.sha256 (commitPreimage q)
  have htw : P0.tweak (List.replicate 32 0) = true := rfl
  by_cases h0 : p.initialFreeCoins = 0 <;> by_cases h1 : q.initialFreeCoins = 0
  · rw [chainHash_zero G p hcp h0, chainHash_zero G q hcq h1] at h
    rcases header_commits G.toHashes p q _ _ (hl.sha256d _) (hl.sha256d _) hp.signBlock hq.signBlock (Option.some.inj h) with ⟨hr, hsb⟩ | hcol
    · rcases coinbase_txid_commits P0 G.toHashes P0_pos P0_fit _ _ hcp hcq hr with hc | hcol
      · exact Or.inl ⟨hc, hsb, by rw [h0, h1]⟩
      · exact Or.inr hcol
    · exact Or.inr hcol
  · rw [chainHash_zero G p hcp h0, chainHash_nonzero G q hcq h1] at h
    rcases header_commits G.toHashes p q _ _ (hl.sha256d _) (hl.sha256d _) hp.signBlock hq.signBlock (Option.some.inj h) with ⟨hr, _⟩ | hcol
    · refine Or.inr ⟨_, _, ?_, hr⟩
      intro heq
      have := congrArg List.length heq
      rw [coinbaseTx_encStripped_length _ hcp] at this
      simp only [List.length_append, Tx.txid, hl.sha256d] at this
      omega
    · exact Or.inr hcol
  · rw [chainHash_nonzero G p hcp h0, chainHash_zero G q hcq h1] at h
    rcases header_commits G.toHashes p q _ _ (hl.sha256d _) (hl.sha256d _) hp.signBlock hq.signBlock (Option.some.inj h) with ⟨hr, _⟩ | hcol
    · refine Or.inr ⟨_, _, ?_, hr.symm⟩
      intro heq
      have := congrArg List.length heq
      rw [coinbaseTx_encStripped_length _ hcq] at this
      simp only [List.length_append, Tx.txid, hl.sha256d] at this
      omega
    · exact Or.inr hcol
  · rw [chainHash_nonzero G p hcp h0, chainHash_nonzero G q hcq h1] at h
    rcases header_commits G.toHashes p q _ _ (hl.sha256d _) (hl.sha256d _) hp.signBlock hq.signBlock (Option.some.inj h) with ⟨hr, hsb⟩ | hcol
    · by_cases he : (coinbaseTx (commit G.sha256 p)).txid G.toHashes ++ (assetTx G.toHashes (commit G.sha256 p) p.initialFreeCoins).txid G.toHashes =
          (coinbaseTx (commit G.sha256 q)).txid G.toHashes ++ (assetTx G.toHashes (commit G.sha256 q) q.initialFreeCoins).txid G.toHashes
      · have hsplit := List.append_inj he (by simp only [Tx.txid, hl.sha256d])
        rcases asset_txid_commits P0 G.toHashes P0_pos P0_fit _ _ _ _ hcp hcq hp.coins hq.coins hl.comb htw hsplit.2 with ⟨hc, ha⟩ | hcol
        · exact Or.inl ⟨hc, hsb, ha⟩
        · exact Or.inr hcol
      · exact Or.inr ⟨_, _, he, hr⟩
    · exact Or.inr hcol

/-! ### the asset transaction is a self-consistent issuance -/

theorem entropy_contract_same : rep32 Gen.genesisAssetEntropyByte = rep32 Gen.genesisAssetContractByte := by decide
theorem rep32_zero : rep32 Gen.genesisAssetContractByte = List.replicate 32 0 := by decide

theorem assetTx_ids (H : Hashes) (c : Bytes) (amount : Nat) :
    ∃ i o, (assetTx H c amount).input = [i] ∧ (assetTx H c amount).output = [o] ∧
      (i.issuanceIds H).map Prod.fst = some (genesisAssetId H c) ∧ o.asset = .explicit (genesisAssetId H c) ∧
      Issuance.newIssuance H i.previousOutput (List.replicate 32 0) = some (genesisAssetId H c) ∧
      i.assetIssuance.amount = o.value ∧ o.value = .explicit amount ∧
      i.previousOutput = ⟨c, Gen.genesisAssetVout⟩ ∧ i.hasIssuance = true ∧ i.isPegin = false := by
  refine ⟨_, _, rfl, rfl, ?_, rfl, ?_, rfl, rfl, rfl, rfl, rfl⟩
  · rw [EV.Proofs.Issuance.txin_ids_eq]
    simp only [EV.Proofs.Issuance.entropyOf, Issuance.zero32, if_true, genesisAssetId, entropy_contract_same,
      Option.map_some]
  · simp only [Issuance.newIssuance, EV.Proofs.Issuance.entropy_eq, EV.Proofs.Issuance.fromEntropy_eq, genesisAssetId, rep32_zero]

/-! ### the scriptSig of the genesis transaction as a script (C16 model) -/

theorem push32_parses (c : Bytes) (hc : c.length = 32) (m : Bool) :
    Script.collect m (0x20 :: c).length (0x20 :: c) = ([.push c], none) := by
  have h1 : (0x20 : UInt8) ≤ EV.Gen.opPushbytes75 := by decide
  have h2 : ((0x20 : UInt8).toNat) = 32 := by decide
  simp only [List.length_cons, hc, Script.collect, Script.next, h1, if_true, h2]
  simp [hc, Script.smallNumByte, List.take_of_length_le, List.drop_of_length_le]

/-! ### instances showing that the hypotheses used in `Props/C02` are satisfiable -/

/-- constant 32-byte "hashes" -/
def constHashes : GHashes :=
  { sha256d := fun _ => List.replicate 32 0, comb := fun _ _ => List.replicate 32 0, sha256 := fun _ => List.replicate 32 0 }
theorem constHashes_len32 : Len32 constHashes := ⟨fun _ => by simp [constHashes], fun _ => by simp [constHashes], fun _ _ => by simp [constHashes]⟩
theorem liquidv1_ok : ParamsOk NetworkParams.liquidv1 := ⟨by decide +kernel, by decide +kernel⟩
theorem liquidtestnet_ok : ParamsOk NetworkParams.liquidtestnet := ⟨by decide +kernel, by decide +kernel⟩

end EV.Proofs.Genesis
