/-
  Laws of the transaction-level codecs (EV.Model.Transaction), built on CodecPrim.
-/
import EV.Model.Transaction
import EV.Proofs.CodecPrim
namespace EV.Proofs.CodecTx
open EV EV.Codec EV.Proofs.CodecPrim

variable (P : Prims)

/-! ### helpers -/

theorem take_sound' {n : Nat} {bs b r : Bytes} (h : take n bs = .ok (b, r)) :
    bs = b ++ r ∧ b.length = n := (take_lawful n).sound _ _ _ h
theorem take_complete' {n : Nat} (b r : Bytes) (h : b.length = n) : take n (b ++ r) = .ok (b, r) :=
  (take_lawful n).complete b r h
theorem take_total' (n : Nat) (bs : Bytes) (s : String) : take n bs ≠ .panic s :=
  (take_lawful n).total _ _

/-- split the outermost `match`/`if` of a decoder equation `h`, discard the branches in which `h`
    is an impossible constructor equation, and name the new hypotheses of the surviving branches -/
local macro "dsplit" h:ident " with" xs:(ppSpace colGt Lean.binderIdent)* : tactic =>
  `(tactic| (split at $h:ident <;> try (cases $h:ident; done)) <;> rename_i $xs*)

/-- exhaustively split a decoder equation `h` -/
local macro "dsplits" h:ident : tactic =>
  `(tactic| repeat' (split at $h:ident <;> try (cases $h:ident; done)))

/-! ### confidential values -/

theorem value_lawful : Lawful (Value.dec P) Value.enc (Value.wf P) := by
  refine ⟨?_, ?_, ?_⟩
  · intro bs v rest h
    cases bs with
    | nil => cases h
    | cons p t =>
      simp only [Value.dec] at h
      split at h
      · rename_i hp
        cases h
        subst hp
        exact ⟨rfl, trivial⟩
      · split at h
        · rename_i hp
          subst hp
          dsplit h with b r ht
          cases h
          obtain ⟨h1, h2⟩ := take_sound' ht
          have h3 := beBytes_beNat b
          have h4 := beNat_lt b
          rw [h2] at h3 h4
          refine ⟨?_, ?_⟩
          · simp only [Value.enc, h3, h1, List.cons_append]
          · simp only [Value.wf]; omega
        · dsplit h with hp
          dsplit h with b r ht
          dsplit h with hc
          obtain ⟨h1, h2⟩ := take_sound' ht
          cases h
          refine ⟨?_, ?_⟩
          · simp only [Value.enc, h1, List.cons_append]
          · refine ⟨by simp [h2], ?_, hc⟩
            rcases hp with rfl | rfl <;> simp
  · intro v r hv
    cases v with
    | null => simp [Value.dec, Value.enc]
    | explicit n =>
      have hn : n < 256 ^ 8 := by simp only [Value.wf] at hv; omega
      have hc := take_complete' (beBytes 8 n) r (beBytes_length 8 n)
      have d1 : ¬ ((1 : UInt8) = 0) := by decide
      simp only [Value.dec, Value.enc, List.cons_append, if_neg d1, if_true, hc, beNat_beBytes 8 n hn]
    | conf c =>
      obtain ⟨hl, hh, hc⟩ := hv
      cases c with
      | nil => simp at hl
      | cons p b =>
        simp only [List.head?_cons, Option.some.injEq] at hh
        have hb : b.length = 32 := by simpa using hl
        have ht := take_complete' b r hb
        have d0 : ¬ (p = 0) := by rcases hh with rfl | rfl <;> decide
        have d1 : ¬ (p = 1) := by rcases hh with rfl | rfl <;> decide
        simp only [Value.dec, Value.enc, List.cons_append, if_neg d0, if_neg d1, if_pos hh, ht, hc, if_true]
  · intro bs s h
    cases bs with
    | nil => cases h
    | cons p t =>
      simp only [Value.dec] at h
      dsplits h
      all_goals exact take_total' _ _ _ ‹_›

theorem asset_lawful : Lawful (Asset.dec P) Asset.enc (Asset.wf P) := by
  refine ⟨?_, ?_, ?_⟩
  · intro bs v rest h
    cases bs with
    | nil => cases h
    | cons p t =>
      simp only [Asset.dec] at h
      split at h
      · rename_i hp
        cases h
        subst hp
        exact ⟨rfl, trivial⟩
      · split at h
        · rename_i hp
          subst hp
          dsplit h with b r ht
          cases h
          obtain ⟨h1, h2⟩ := take_sound' ht
          refine ⟨?_, ?_⟩
          · simp only [Asset.enc, h1, List.cons_append]
          · simpa only [Asset.wf] using h2
        · dsplit h with hp
          dsplit h with b r ht
          dsplit h with hc
          obtain ⟨h1, h2⟩ := take_sound' ht
          cases h
          refine ⟨?_, ?_⟩
          · simp only [Asset.enc, h1, List.cons_append]
          · refine ⟨by simp [h2], ?_, hc⟩
            rcases hp with rfl | rfl <;> simp
  · intro v r hv
    cases v with
    | null => simp [Asset.dec, Asset.enc]
    | explicit b =>
      have hb : b.length = 32 := hv
      have hc := take_complete' b r hb
      have d1 : ¬ ((1 : UInt8) = 0) := by decide
      simp only [Asset.dec, Asset.enc, List.cons_append, if_neg d1, if_true, hc]
    | conf c =>
      obtain ⟨hl, hh, hc⟩ := hv
      cases c with
      | nil => simp at hl
      | cons p b =>
        simp only [List.head?_cons, Option.some.injEq] at hh
        have hb : b.length = 32 := by simpa using hl
        have ht := take_complete' b r hb
        have d0 : ¬ (p = 0) := by rcases hh with rfl | rfl <;> decide
        have d1 : ¬ (p = 1) := by rcases hh with rfl | rfl <;> decide
        simp only [Asset.dec, Asset.enc, List.cons_append, if_neg d0, if_neg d1, if_pos hh, ht, hc, if_true]
  · intro bs s h
    cases bs with
    | nil => cases h
    | cons p t =>
      simp only [Asset.dec] at h
      dsplits h
      all_goals exact take_total' _ _ _ ‹_›

theorem nonce_lawful : Lawful (Nonce.dec P) Nonce.enc (Nonce.wf P) := by
  refine ⟨?_, ?_, ?_⟩
  · intro bs v rest h
    cases bs with
    | nil => cases h
    | cons p t =>
      simp only [Nonce.dec] at h
      split at h
      · rename_i hp
        cases h
        subst hp
        exact ⟨rfl, trivial⟩
      · split at h
        · rename_i hp
          subst hp
          dsplit h with b r ht
          cases h
          obtain ⟨h1, h2⟩ := take_sound' ht
          refine ⟨?_, ?_⟩
          · simp only [Nonce.enc, h1, List.cons_append]
          · simpa only [Nonce.wf] using h2
        · dsplit h with hp
          dsplit h with b r ht
          dsplit h with hc
          obtain ⟨h1, h2⟩ := take_sound' ht
          cases h
          refine ⟨?_, ?_⟩
          · simp only [Nonce.enc, h1, List.cons_append]
          · refine ⟨by simp [h2], ?_, hc⟩
            rcases hp with rfl | rfl <;> simp
  · intro v r hv
    cases v with
    | null => simp [Nonce.dec, Nonce.enc]
    | explicit b =>
      have hb : b.length = 32 := hv
      have hc := take_complete' b r hb
      have d1 : ¬ ((1 : UInt8) = 0) := by decide
      simp only [Nonce.dec, Nonce.enc, List.cons_append, if_neg d1, if_true, hc]
    | conf c =>
      obtain ⟨hl, hh, hc⟩ := hv
      cases c with
      | nil => simp at hl
      | cons p b =>
        simp only [List.head?_cons, Option.some.injEq] at hh
        have hb : b.length = 32 := by simpa using hl
        have ht := take_complete' b r hb
        have d0 : ¬ (p = 0) := by rcases hh with rfl | rfl <;> decide
        have d1 : ¬ (p = 1) := by rcases hh with rfl | rfl <;> decide
        simp only [Nonce.dec, Nonce.enc, List.cons_append, if_neg d0, if_neg d1, if_pos hh, ht, hc, if_true]
  · intro bs s h
    cases bs with
    | nil => cases h
    | cons p t =>
      simp only [Nonce.dec] at h
      dsplits h
      all_goals exact take_total' _ _ _ ‹_›

theorem value_enc_length (v : Value) (h : v.wf P) : v.enc.length = v.encodedLength := by
  cases v with
  | null => rfl
  | explicit n => simp [Value.enc, Value.encodedLength, beBytes_length]
  | conf c => exact h.1
theorem asset_enc_length (v : Asset) (h : v.wf P) : v.enc.length = v.encodedLength := by
  cases v with
  | null => rfl
  | explicit n =>
    have : n.length = 32 := h
    simp [Asset.enc, Asset.encodedLength, this]
  | conf c => exact h.1
theorem nonce_enc_length (v : Nonce) (h : v.wf P) : v.enc.length = v.encodedLength := by
  cases v with
  | null => rfl
  | explicit n =>
    have : n.length = 32 := h
    simp [Nonce.enc, Nonce.encodedLength, this]
  | conf c => exact h.1

/-! ### issuance, outpoint, proofs, witnesses -/

theorem issuance_lawful : Lawful (AssetIssuance.dec P) AssetIssuance.enc (AssetIssuance.wf P) := by
  refine ⟨?_, ?_, ?_⟩
  · intro bs v rest h
    simp only [AssetIssuance.dec] at h
    dsplit h with n r1 h1
    dsplit h with htw
    dsplit h with e r2 h2
    dsplit h with a r3 h3
    dsplit h with k r4 h4
    cases h
    obtain ⟨e1, l1⟩ := take_sound' h1
    obtain ⟨e2, l2⟩ := take_sound' h2
    obtain ⟨e3, w3⟩ := (value_lawful P).sound _ _ _ h3
    obtain ⟨e4, w4⟩ := (value_lawful P).sound _ _ _ h4
    refine ⟨?_, l1, by simpa using htw, l2, w3, w4⟩
    simp only [AssetIssuance.enc, List.append_assoc]
    rw [e1, e2, e3, e4]
  · intro v r ⟨l1, tw, l2, w3, w4⟩
    have c1 := fun r => take_complete' v.nonce r l1
    have c2 := fun r => take_complete' v.entropy r l2
    have c3 := fun r => (value_lawful P).complete v.amount r w3
    have c4 := fun r => (value_lawful P).complete v.inflationKeys r w4
    simp only [AssetIssuance.dec, AssetIssuance.enc, List.append_assoc, c1, c2, c3, c4, tw]
    simp
  · intro bs s h
    simp only [AssetIssuance.dec] at h
    have t1 := take_total'
    have t2 := (value_lawful P).total
    dsplits h
    all_goals (first | exact t1 _ _ _ ‹_› | exact t2 _ _ ‹_›)

theorem outpoint_lawful : Lawful OutPoint.dec OutPoint.enc OutPoint.wf := by
  refine ⟨?_, ?_, ?_⟩
  · intro bs v rest h
    simp only [OutPoint.dec] at h
    dsplit h with t r1 h1
    dsplit h with n r2 h2
    cases h
    obtain ⟨e1, l1⟩ := take_sound' h1
    obtain ⟨e2, l2⟩ := (le_lawful 4).sound _ _ _ h2
    refine ⟨?_, l1, by omega⟩
    simp only [OutPoint.enc, List.append_assoc]
    rw [e1, e2]
  · intro v r ⟨l1, l2⟩
    have c1 := fun r => take_complete' v.txid r l1
    have c2 := fun r => (le_lawful 4).complete v.vout r (by omega)
    simp only [OutPoint.dec, OutPoint.enc, List.append_assoc, c1, c2]
  · intro bs s h
    simp only [OutPoint.dec] at h
    have t1 := take_total'
    have t2 := (le_lawful 4).total
    dsplits h
    all_goals (first | exact t1 _ _ _ ‹_› | exact t2 _ _ ‹_›)

theorem optProof_lawful (valid : Bytes → Bool) :
    Lawful (decOptProof valid) encOptProof (wfOptProof valid) := by
  refine ⟨?_, ?_, ?_⟩
  · intro bs v rest h
    simp only [decOptProof] at h
    dsplit h with b r1 h1
    obtain ⟨e1, l1⟩ := bytesVec_lawful.sound _ _ _ h1
    split at h
    · rename_i he
      cases h
      have : b = [] := by simpa using he
      subst this
      exact ⟨e1, trivial⟩
    · rename_i he
      dsplit h with hv
      cases h
      refine ⟨e1, ?_, hv, l1⟩
      simpa using he
  · intro v r hv
    cases v with
    | none =>
      have c1 := bytesVec_lawful.complete [] r (by simp)
      simp only [decOptProof, encOptProof, c1]
      simp
    | some b =>
      obtain ⟨h1, h2, h3⟩ := hv
      have c1 := bytesVec_lawful.complete b r h3
      have he : ¬ (b.isEmpty = true) := by simpa using h1
      simp only [decOptProof, encOptProof, c1, if_neg he, h2, if_true]
  · intro bs s h
    simp only [decOptProof] at h
    dsplits h
    exact bytesVec_lawful.total _ _ ‹_›

theorem txInWitness_lawful : Lawful (TxInWitness.dec P) TxInWitness.enc (TxInWitness.wf P) := by
  refine ⟨?_, ?_, ?_⟩
  · intro bs v rest h
    simp only [TxInWitness.dec] at h
    dsplit h with a r1 h1
    dsplit h with k r2 h2
    dsplit h with s r3 h3
    dsplit h with p r4 h4
    cases h
    obtain ⟨e1, w1⟩ := (optProof_lawful P.rangeproof).sound _ _ _ h1
    obtain ⟨e2, w2⟩ := (optProof_lawful P.rangeproof).sound _ _ _ h2
    obtain ⟨e3, w3⟩ := bytesVecVec_lawful.sound _ _ _ h3
    obtain ⟨e4, w4⟩ := bytesVecVec_lawful.sound _ _ _ h4
    refine ⟨?_, w1, w2, w3, w4⟩
    simp only [TxInWitness.enc, List.append_assoc]
    rw [e1, e2, e3, e4]
  · intro v r ⟨w1, w2, w3, w4⟩
    have c1 := fun r => (optProof_lawful P.rangeproof).complete v.amountRangeproof r w1
    have c2 := fun r => (optProof_lawful P.rangeproof).complete v.inflationKeysRangeproof r w2
    have c3 := fun r => bytesVecVec_lawful.complete v.scriptWitness r w3
    have c4 := fun r => bytesVecVec_lawful.complete v.peginWitness r w4
    simp only [TxInWitness.dec, TxInWitness.enc, List.append_assoc, c1, c2, c3, c4]
  · intro bs s h
    simp only [TxInWitness.dec] at h
    have t1 := (optProof_lawful P.rangeproof).total
    have t2 := bytesVecVec_lawful.total
    dsplits h
    all_goals (first | exact t1 _ _ ‹_› | exact t2 _ _ ‹_›)

theorem txOutWitness_lawful : Lawful (TxOutWitness.dec P) TxOutWitness.enc (TxOutWitness.wf P) := by
  refine ⟨?_, ?_, ?_⟩
  · intro bs v rest h
    simp only [TxOutWitness.dec] at h
    dsplit h with a r1 h1
    dsplit h with k r2 h2
    cases h
    obtain ⟨e1, w1⟩ := (optProof_lawful P.surjproof).sound _ _ _ h1
    obtain ⟨e2, w2⟩ := (optProof_lawful P.rangeproof).sound _ _ _ h2
    refine ⟨?_, w1, w2⟩
    simp only [TxOutWitness.enc, List.append_assoc]
    rw [e1, e2]
  · intro v r ⟨w1, w2⟩
    have c1 := fun r => (optProof_lawful P.surjproof).complete v.surjectionProof r w1
    have c2 := fun r => (optProof_lawful P.rangeproof).complete v.rangeproof r w2
    simp only [TxOutWitness.dec, TxOutWitness.enc, List.append_assoc, c1, c2]
  · intro bs s h
    simp only [TxOutWitness.dec] at h
    have t1 := (optProof_lawful P.surjproof).total
    have t2 := (optProof_lawful P.rangeproof).total
    dsplits h
    all_goals (first | exact t1 _ _ ‹_› | exact t2 _ _ ‹_›)

/-! ### the `vout` word of an input -/
theorem two_pow_30 : (2:Nat)^30 = 1073741824 := by decide
theorem two_pow_31 : (2:Nat)^31 = 2147483648 := by decide
theorem two_pow_32 : (2:Nat)^32 = 4294967296 := by decide
theorem testBit_30 (w : Nat) : w.testBit 30 = decide (w / 1073741824 % 2 = 1) := by
  rw [Nat.testBit_eq_decide_div_mod_eq]
theorem testBit_31 (w : Nat) : w.testBit 31 = decide (w / 2147483648 % 2 = 1) := by
  rw [Nat.testBit_eq_decide_div_mod_eq]

theorem or_two_pow_of_lt (v k : Nat) (hv : v < 2^k) : v ||| 2^k = v + 2^k := by
  have := Nat.two_pow_add_eq_or_of_lt hv 1
  simp only [Nat.mul_one] at this
  rw [Nat.or_comm, ← this, Nat.add_comm]

theorem word_eq (v : Nat) (hv : v < 1073741824) (p q : Bool) :
    (v ||| (if p then 1073741824 else 0)) ||| (if q then 2147483648 else 0)
      = v + (if p then 1073741824 else 0) + (if q then 2147483648 else 0) := by
  have h1 : v ||| (if p then 1073741824 else 0) = v + (if p then 1073741824 else 0) := by
    cases p
    · simp
    · simp only [if_true]
      have := or_two_pow_of_lt v 30 (by rw [two_pow_30]; exact hv)
      rw [two_pow_30] at this
      exact this
  rw [h1]
  cases q
  · simp
  · simp only [if_true]
    have h2 : v + (if p then 1073741824 else 0) < 2147483648 := by cases p <;> simp <;> omega
    have := or_two_pow_of_lt _ 31 (by rw [two_pow_31]; exact h2)
    rw [two_pow_31] at this
    exact this

/-- recombination of the serialized `vout` word from its decoded parts -/
theorem word_recombine (w : Nat) (hw : w < 2^32) :
    (w % 2^30 ||| (if w.testBit 30 then 2^30 else 0)) ||| (if w.testBit 31 then 2^31 else 0) = w := by
  rw [two_pow_32] at hw
  rw [two_pow_30, two_pow_31, word_eq _ (by omega), testBit_30, testBit_31]
  by_cases h1 : w / 1073741824 % 2 = 1 <;> by_cases h2 : w / 2147483648 % 2 = 1 <;>
    simp only [h1, h2, decide_true, decide_false, if_true] <;> (try simp) <;> omega

theorem word_parts_lit (v : Nat) (hv : v < 1073741824) (p q : Bool) (w : Nat)
    (hw : w = v + (if p then 1073741824 else 0) + (if q then 2147483648 else 0)) :
    w < 4294967296 ∧ w % 1073741824 = v ∧ decide (w / 1073741824 % 2 = 1) = p ∧
    decide (w / 2147483648 % 2 = 1) = q ∧
    (w = 4294967295 ↔ (v = 1073741823 ∧ p = true ∧ q = true)) := by
  subst hw
  cases p <;> cases q <;>
    simp only [Bool.false_eq_true, if_false, if_true, decide_eq_true_eq, decide_eq_false_iff_not,
      and_false, and_true, iff_false, Nat.add_zero] <;> omega

theorem null_isNull : AssetIssuance.null.isNull = true := rfl

theorem txIn_enc_of (i : TxIn) (w : Nat) (hw : i.voutWord = w) :
    i.enc = OutPoint.enc ⟨i.previousOutput.txid, w⟩ ++ (encBytesVec i.scriptSig ++ (encLe 4 i.sequence ++
      (if i.hasIssuance then i.assetIssuance.enc else []))) := by
  simp only [TxIn.enc, OutPoint.enc, hw, List.append_assoc]

theorem txIn_sound (bs : Bytes) (v : TxIn) (rest : Bytes) (h : TxIn.dec P bs = .ok (v, rest)) :
    bs = v.enc ++ rest ∧ (v.wfBody P ∧ v.witness = TxInWitness.empty) := by
  simp only [TxIn.dec] at h
  dsplit h with outp r1 h1
  dsplit h with ss r2 h2
  dsplit h with sq r3 h3
  obtain ⟨e1, l1, lw⟩ := outpoint_lawful.sound _ _ _ h1
  obtain ⟨e2, l2⟩ := bytesVec_lawful.sound _ _ _ h2
  obtain ⟨e3, l3⟩ := (le_lawful 4).sound _ _ _ h3
  have l3' : sq < 2 ^ 32 := by omega
  obtain ⟨txid, w⟩ := outp
  simp only at l1 lw h
  by_cases hcb : w = 0xffffffff
  · simp only [hcb, decide_true, Bool.not_true, Bool.false_and, if_true, Bool.false_eq_true, if_false] at h
    cases h
    refine ⟨?_, ⟨l1, Or.inr ⟨rfl, rfl, ?_⟩, l2, l3', ?_⟩, rfl⟩
    · rw [txIn_enc_of _ w]
      · simp only [TxIn.hasIssuance, null_isNull, Bool.not_true, Bool.false_eq_true, if_false,
          List.append_nil, List.append_assoc]
        rw [e1, e2, e3]
      · simp [TxIn.voutWord, TxIn.hasIssuance, null_isNull, hcb]
    · simp [TxIn.hasIssuance, null_isNull]
    · simp [TxIn.hasIssuance, null_isNull]
  · simp only [hcb, decide_false, Bool.not_false, Bool.true_and, if_false] at h
    have hrec := word_recombine w lw
    have hmod : w % 2 ^ 30 < 2 ^ 30 := Nat.mod_lt _ (Nat.two_pow_pos 30)
    split at h
    · rename_i hi
      dsplit h with iss r4 h4
      dsplit h with hnull
      cases h
      obtain ⟨e4, w4⟩ := (issuance_lawful P).sound _ _ _ h4
      have hI : TxIn.hasIssuance ⟨⟨txid, w % 2 ^ 30⟩, w.testBit 30, ss, sq, iss, TxInWitness.empty⟩ = true := by
        simpa [TxIn.hasIssuance] using hnull
      refine ⟨?_, ⟨l1, Or.inl ⟨hmod, ?_⟩, l2, l3', ?_⟩, rfl⟩
      · rw [txIn_enc_of _ w]
        · simp only [hI, if_true, List.append_assoc]
          rw [e1, e2, e3, e4]
        · simp only [TxIn.voutWord, hI, if_true]
          rw [hi] at hrec
          exact hrec
      · rintro ⟨a, b, _⟩
        simp only at a b
        apply hcb
        rw [← hrec, a, b, hi]
        decide
      · simp only [hI, if_true]; exact w4
    · rename_i hi
      cases h
      have hI : TxIn.hasIssuance ⟨⟨txid, w % 2 ^ 30⟩, w.testBit 30, ss, sq, AssetIssuance.null, TxInWitness.empty⟩ = false := by
        simp [TxIn.hasIssuance, null_isNull]
      refine ⟨?_, ⟨l1, Or.inl ⟨hmod, ?_⟩, l2, l3', ?_⟩, rfl⟩
      · rw [txIn_enc_of _ w]
        · simp only [hI, Bool.false_eq_true, if_false, List.append_nil, List.append_assoc]
          rw [e1, e2, e3]
        · simp only [TxIn.voutWord, hI, Bool.false_eq_true, if_false]
          simp only [hi, Bool.false_eq_true, if_false] at hrec
          exact hrec
      · simp [hI]
      · simp [hI]

theorem word_parts (v : Nat) (hv : v < 2^30) (p q : Bool) (w : Nat)
    (hw : (v ||| (if p then 2^30 else 0)) ||| (if q then 2^31 else 0) = w) :
    w < 2^32 ∧ w % 2^30 = v ∧ w.testBit 30 = p ∧ w.testBit 31 = q ∧
    (w = 0xffffffff ↔ (v = 2^30 - 1 ∧ p = true ∧ q = true)) := by
  rw [two_pow_30] at hv
  rw [two_pow_30, two_pow_31, word_eq v hv p q] at hw
  have h1 : (1073741824 - 1 : Nat) = 1073741823 := by decide
  rw [testBit_30, testBit_31, two_pow_30, two_pow_32, h1]
  exact word_parts_lit v hv p q w hw.symm

theorem txIn_complete (i : TxIn) (r : Bytes) (h : i.wfBody P ∧ i.witness = TxInWitness.empty) :
    TxIn.dec P (i.enc ++ r) = .ok (i, r) := by
  obtain ⟨⟨htx, hv, hss, hsq, hiss⟩, hwit⟩ := h
  obtain ⟨⟨txid, vout⟩, isPegin, ss, sq, iss, wit⟩ := i
  simp only at htx hv hss hsq hwit hiss
  subst hwit
  have hq : TxIn.hasIssuance ⟨⟨txid, vout⟩, isPegin, ss, sq, iss, TxInWitness.empty⟩ = !iss.isNull := rfl
  generalize hW : TxIn.voutWord ⟨⟨txid, vout⟩, isPegin, ss, sq, iss, TxInWitness.empty⟩ = W
  have hW' := hW
  simp only [TxIn.voutWord] at hW'
  rw [txIn_enc_of _ W hW]
  simp only [hq] at hv hiss hW' ⊢
  generalize (!iss.isNull) = q at *
  have hq' : (!iss.isNull) = q := hq
  clear hq hW
  have hWlt : W < 2 ^ 32 := by
    rcases hv with ⟨hv, _⟩ | ⟨hv, hp, hq⟩
    · exact (word_parts vout hv isPegin q W hW').1
    · subst hv hp hq
      simp only [Bool.false_eq_true, if_false, Nat.or_zero] at hW'
      omega
  have c1 := fun rr => outpoint_lawful.complete ⟨txid, W⟩ rr ⟨htx, hWlt⟩
  have c2 := fun rr => bytesVec_lawful.complete ss rr hss
  have c3 := fun rr => (le_lawful 4).complete sq rr (by omega)
  simp only [TxIn.dec, List.append_assoc, c1, c2, c3]
  rcases hv with ⟨hv, hne⟩ | ⟨hv, hp, hq⟩
  · obtain ⟨_, hmod, hb30, hb31, hcb⟩ := word_parts vout hv isPegin q W hW'
    have hcb' : ¬ W = 4294967295 := fun hh => hne (hcb.mp hh)
    simp only [hcb', decide_false, Bool.not_false, Bool.true_and, if_false, hmod, hb30, hb31]
    cases q
    · simp only [Bool.false_eq_true, if_false] at hiss ⊢
      subst hiss
      rfl
    · simp only [if_true] at hiss ⊢
      have c4 := (issuance_lawful P).complete iss r hiss
      have hn : iss.isNull = false := by simpa using hq'
      simp only [c4, hn, Bool.false_eq_true, if_false]
  · subst hv hp hq
    simp only [Bool.false_eq_true, if_false, Nat.or_zero] at hW' hiss
    subst hW' hiss
    simp only [decide_true, Bool.not_true, Bool.false_and, Bool.false_eq_true, if_false, if_true,
      List.nil_append]

theorem txIn_total (bs : Bytes) (s : String) : TxIn.dec P bs ≠ .panic s := by
  intro h
  simp only [TxIn.dec] at h
  have t1 := outpoint_lawful.total
  have t2 := bytesVec_lawful.total
  have t3 := (le_lawful 4).total
  have t4 := (issuance_lawful P).total
  dsplits h
  all_goals (first | exact t1 _ _ ‹_› | exact t2 _ _ ‹_› | exact t3 _ _ ‹_› | exact t4 _ _ ‹_›)

/-- `TxIn` as a stand-alone codec: the witness is not serialized, the decoder leaves it empty -/
theorem txIn_lawful :
    Lawful (TxIn.dec P) TxIn.enc (fun i => i.wfBody P ∧ i.witness = TxInWitness.empty) :=
  ⟨txIn_sound P, txIn_complete P, txIn_total P⟩

theorem txOut_lawful :
    Lawful (TxOut.dec P) TxOut.enc (fun o => o.wfBody P ∧ o.witness = TxOutWitness.empty) := by
  refine ⟨?_, ?_, ?_⟩
  · intro bs v rest h
    simp only [TxOut.dec] at h
    dsplit h with a r1 h1
    dsplit h with k r2 h2
    dsplit h with n r3 h3
    dsplit h with p r4 h4
    cases h
    obtain ⟨e1, w1⟩ := (asset_lawful P).sound _ _ _ h1
    obtain ⟨e2, w2⟩ := (value_lawful P).sound _ _ _ h2
    obtain ⟨e3, w3⟩ := (nonce_lawful P).sound _ _ _ h3
    obtain ⟨e4, w4⟩ := bytesVec_lawful.sound _ _ _ h4
    refine ⟨?_, ⟨w1, w2, w3, w4⟩, rfl⟩
    simp only [TxOut.enc, List.append_assoc]
    rw [e1, e2, e3, e4]
  · intro v r ⟨⟨w1, w2, w3, w4⟩, hw⟩
    have c1 := fun r => (asset_lawful P).complete v.asset r w1
    have c2 := fun r => (value_lawful P).complete v.value r w2
    have c3 := fun r => (nonce_lawful P).complete v.nonce r w3
    have c4 := fun r => bytesVec_lawful.complete v.scriptPubkey r w4
    simp only [TxOut.dec, TxOut.enc, List.append_assoc, c1, c2, c3, c4]
    cases v
    simp only at hw
    subst hw
    rfl
  · intro bs s h
    simp only [TxOut.dec] at h
    have t1 := (asset_lawful P).total
    have t2 := (value_lawful P).total
    have t3 := (nonce_lawful P).total
    have t4 := bytesVec_lawful.total
    dsplits h
    all_goals (first | exact t1 _ _ ‹_› | exact t2 _ _ ‹_› | exact t3 _ _ ‹_› | exact t4 _ _ ‹_›)

/-- the encoding of an input does not depend on its witness -/
theorem txIn_enc_witness (i : TxIn) (w : TxInWitness) : TxIn.enc { i with witness := w } = TxIn.enc i := rfl
theorem txOut_enc_witness (o : TxOut) (w : TxOutWitness) : TxOut.enc { o with witness := w } = TxOut.enc o := rfl


/-- sizes of platform structs are positive (needed by the vector guard) -/
structure SizesPos : Prop where
  txIn : 0 < P.sizeTxIn
  txOut : 0 < P.sizeTxOut
  tx : 0 < P.sizeTx

/-! ### helpers for the transaction codec -/

/-- clear the witness of an input / output (the same functions as `stripIn` / `stripOut` below) -/
private def clrIn (i : TxIn) : TxIn := { i with witness := TxInWitness.empty }
private def clrOut (o : TxOut) : TxOut := { o with witness := TxOutWitness.empty }

theorem decWitnesses_sound {α ω β : Type} (d : Dec ω) (e : ω → Bytes) (wf : ω → Prop)
    (hl : Lawful d e wf) (set : α → ω → α) (get : α → ω) (f : α → β)
    (hget : ∀ a w, get (set a w) = w) (hf : ∀ a w, f (set a w) = f a) :
    ∀ (l : List α) (bs : Bytes) (l' : List α) (rest : Bytes),
      Tx.decWitnesses d set l bs = .ok (l', rest) →
      bs = l'.flatMap (fun a => e (get a)) ++ rest ∧ l'.map f = l.map f ∧ ∀ a ∈ l', wf (get a) := by
  intro l
  induction l with
  | nil =>
    intro bs l' rest h
    simp only [Tx.decWitnesses] at h
    cases h
    simp
  | cons a as ih =>
    intro bs l' rest h
    simp only [Tx.decWitnesses] at h
    dsplit h with w r1 h1
    dsplit h with as' r2 h2
    cases h
    obtain ⟨e1, w1⟩ := hl.sound _ _ _ h1
    obtain ⟨e2, m2, w2⟩ := ih _ _ _ h2
    refine ⟨?_, ?_, ?_⟩
    · simp only [List.flatMap_cons, hget, List.append_assoc]
      rw [← e2, ← e1]
    · simp only [List.map_cons, hf, m2]
    · intro x hx
      rcases List.mem_cons.mp hx with rfl | hx
      · rw [hget]; exact w1
      · exact w2 x hx

theorem decWitnesses_complete {α ω : Type} (d : Dec ω) (e : ω → Bytes) (wf : ω → Prop)
    (hl : Lawful d e wf) (set : α → ω → α) (get : α → ω) (f : α → α)
    (hset : ∀ a, set (f a) (get a) = a) :
    ∀ (l : List α) (r : Bytes), (∀ a ∈ l, wf (get a)) →
      Tx.decWitnesses d set (l.map f) (l.flatMap (fun a => e (get a)) ++ r) = .ok (l, r) := by
  intro l
  induction l with
  | nil => intro r _; rfl
  | cons a as ih =>
    intro r hw
    have h1 := hl.complete (get a) (as.flatMap (fun a => e (get a)) ++ r) (hw a List.mem_cons_self)
    have h2 := ih r (fun v hv => hw v (List.mem_cons_of_mem _ hv))
    simp only [List.map_cons, List.flatMap_cons, List.append_assoc, Tx.decWitnesses, h1, h2, hset]

theorem decWitnesses_total {α ω : Type} (d : Dec ω) (ht : ∀ bs s, d bs ≠ .panic s) (set : α → ω → α) :
    ∀ (l : List α) (bs : Bytes) (s : String), Tx.decWitnesses d set l bs ≠ .panic s := by
  intro l
  induction l with
  | nil => intro bs s h; cases h
  | cons a as ih =>
    intro bs s h
    simp only [Tx.decWitnesses] at h
    dsplits h
    · exact ih _ _ ‹_›
    · exact ht _ _ ‹_›

theorem vecOf_total {α : Type} (m : Nat) (d : Dec α) (ht : ∀ bs s, d bs ≠ .panic s) (bs : Bytes)
    (s : String) : vecOf m d bs ≠ .panic s := by
  intro h
  simp only [vecOf] at h
  dsplits h
  · exact repeatN_total d ht _ _ _ h
  · exact varint_lawful.total _ _ ‹_›

theorem txInWitness_isEmpty_iff (w : TxInWitness) : w.isEmpty = true ↔ w = TxInWitness.empty := by
  obtain ⟨a, b, c, d⟩ := w
  cases a <;> cases b <;> cases c <;> cases d <;> simp [TxInWitness.isEmpty, TxInWitness.empty]

theorem txOutWitness_isEmpty_iff (w : TxOutWitness) : w.isEmpty = true ↔ w = TxOutWitness.empty := by
  obtain ⟨a, b⟩ := w
  cases a <;> cases b <;> simp [TxOutWitness.isEmpty, TxOutWitness.empty]

theorem txInWitness_empty_wf : TxInWitness.empty.wf P := by
  refine ⟨trivial, trivial, ⟨?_, ?_⟩, ⟨?_, ?_⟩⟩ <;> simp [TxInWitness.empty, maxVecSize]

theorem txOutWitness_empty_wf : TxOutWitness.empty.wf P := ⟨trivial, trivial⟩

theorem hasWitness_eq (t : Tx) :
    t.hasWitness = !(t.input.all (fun i => i.witness.isEmpty) && t.output.all (fun o => o.witness.isEmpty)) := by
  simp only [Tx.hasWitness, Bool.not_and, List.not_all_eq_any_not]

theorem hasWitness_false_iff (t : Tx) :
    t.hasWitness = false ↔
      (∀ i ∈ t.input, i.witness = TxInWitness.empty) ∧ (∀ o ∈ t.output, o.witness = TxOutWitness.empty) := by
  simp only [Tx.hasWitness, Bool.or_eq_false_iff, List.any_eq_false, Bool.not_eq_true',
    Bool.not_eq_false, txInWitness_isEmpty_iff, txOutWitness_isEmpty_iff]

theorem encVec_clrIn (l : List TxIn) : encVec TxIn.enc (l.map clrIn) = encVec TxIn.enc l := by
  have : ∀ l : List TxIn, (l.map clrIn).flatMap TxIn.enc = l.flatMap TxIn.enc := by
    intro l
    induction l with
    | nil => rfl
    | cons a as ih => simp only [List.map_cons, List.flatMap_cons, ih]; rfl
  simp only [encVec, List.length_map, this]

theorem encVec_clrOut (l : List TxOut) : encVec TxOut.enc (l.map clrOut) = encVec TxOut.enc l := by
  have : ∀ l : List TxOut, (l.map clrOut).flatMap TxOut.enc = l.flatMap TxOut.enc := by
    intro l
    induction l with
    | nil => rfl
    | cons a as ih => simp only [List.map_cons, List.flatMap_cons, ih]; rfl
  simp only [encVec, List.length_map, this]

theorem encVec_congr_clrIn {l l' : List TxIn} (h : l'.map clrIn = l.map clrIn) :
    encVec TxIn.enc l' = encVec TxIn.enc l := by
  rw [← encVec_clrIn l', ← encVec_clrIn l, h]

theorem encVec_congr_clrOut {l l' : List TxOut} (h : l'.map clrOut = l.map clrOut) :
    encVec TxOut.enc l' = encVec TxOut.enc l := by
  rw [← encVec_clrOut l', ← encVec_clrOut l, h]

theorem wfBody_of_map_clrIn {l l' : List TxIn} (h : l'.map clrIn = l.map clrIn)
    (hw : ∀ i ∈ l, i.wfBody P) : ∀ i ∈ l', i.wfBody P := by
  intro i hi
  have : clrIn i ∈ l.map clrIn := by rw [← h]; exact List.mem_map_of_mem hi
  obtain ⟨j, hj, hji⟩ := List.mem_map.mp this
  have h1 : (clrIn j).wfBody P := hw j hj
  rw [hji] at h1
  exact h1

theorem wfBody_of_map_clrOut {l l' : List TxOut} (h : l'.map clrOut = l.map clrOut)
    (hw : ∀ i ∈ l, i.wfBody P) : ∀ i ∈ l', i.wfBody P := by
  intro i hi
  have : clrOut i ∈ l.map clrOut := by rw [← h]; exact List.mem_map_of_mem hi
  obtain ⟨j, hj, hji⟩ := List.mem_map.mp this
  have h1 : (clrOut j).wfBody P := hw j hj
  rw [hji] at h1
  exact h1


/-- the full transaction codec -/
theorem tx_sound (hs : SizesPos P) (bs : Bytes) (t : Tx) (rest : Bytes)
    (h : Tx.dec P bs = .ok (t, rest)) : bs = t.enc ++ rest ∧ t.wf P := by
  simp only [Tx.dec] at h
  dsplit h with version r1 h1
  dsplit h with flag r2 h2
  dsplit h with input r3 h3
  dsplit h with output r4 h4
  dsplit h with lockTime r5 h5
  obtain ⟨e1, l1⟩ := (le_lawful 4).sound _ _ _ h1
  obtain ⟨e2, l2⟩ := u8_lawful.sound _ _ _ h2
  obtain ⟨e3, l3, w3⟩ := (vecOf_lawful P.sizeTxIn hs.txIn _ _ _ (txIn_lawful P)).sound _ _ _ h3
  obtain ⟨e4, l4, w4⟩ := (vecOf_lawful P.sizeTxOut hs.txOut _ _ _ (txOut_lawful P)).sound _ _ _ h4
  obtain ⟨e5, l5⟩ := (le_lawful 4).sound _ _ _ h5
  have l1' : version < 2 ^ 32 := by omega
  have l5' : lockTime < 2 ^ 32 := by omega
  split at h
  · rename_i hf
    cases h
    subst hf
    have hnw : Tx.hasWitness ⟨version, lockTime, input, output⟩ = false :=
      (hasWitness_false_iff _).mpr ⟨fun i hi => (w3 i hi).2, fun o ho => (w4 o ho).2⟩
    refine ⟨?_, l1', l5', l3, l4, ?_, ?_⟩
    · simp only [Tx.enc, hnw, Bool.false_eq_true, if_false, Tx.encStripped, List.append_assoc]
      rw [e1, e2, e3, e4, e5]
      rfl
    · intro i hi
      refine ⟨(w3 i hi).1, ?_⟩
      rw [(w3 i hi).2]
      exact txInWitness_empty_wf P
    · intro o ho
      refine ⟨(w4 o ho).1, ?_⟩
      rw [(w4 o ho).2]
      exact txOutWitness_empty_wf P
  · dsplit h with hf
    subst hf
    dsplit h with input' r6 h6
    dsplit h with output' r7 h7
    dsplit h with hne
    cases h
    obtain ⟨e6, m6, w6⟩ := decWitnesses_sound _ _ _ (txInWitness_lawful P)
      (fun (i : TxIn) w => { i with witness := w }) TxIn.witness clrIn (fun _ _ => rfl) (fun _ _ => rfl)
      _ _ _ _ h6
    obtain ⟨e7, m7, w7⟩ := decWitnesses_sound _ _ _ (txOutWitness_lawful P)
      (fun (o : TxOut) w => { o with witness := w }) TxOut.witness clrOut (fun _ _ => rfl) (fun _ _ => rfl)
      _ _ _ _ h7
    have hw : Tx.hasWitness ⟨version, lockTime, input', output'⟩ = true := by
      rw [hasWitness_eq]
      simp only [Bool.not_eq_true] at hne
      simp only [hne, Bool.not_false]
    have hlen6 : input'.length = input.length := by
      have := congrArg List.length m6
      simpa using this
    have hlen7 : output'.length = output.length := by
      have := congrArg List.length m7
      simpa using this
    refine ⟨?_, l1', l5', by simpa only [hlen6] using l3, by simpa only [hlen7] using l4, ?_, ?_⟩
    · simp only [Tx.enc, hw, if_true, List.append_assoc, encVec_congr_clrIn m6, encVec_congr_clrOut m7]
      rw [e1, e2, e3, e4, e5, e6, e7]
      rfl
    · intro i hi
      exact ⟨wfBody_of_map_clrIn P m6 (fun j hj => (w3 j hj).1) i hi, w6 i hi⟩
    · intro o ho
      exact ⟨wfBody_of_map_clrOut P m7 (fun j hj => (w4 j hj).1) o ho, w7 o ho⟩

theorem u8_zero (r : Bytes) : u8 ([0] ++ r) = .ok (0, r) := rfl
theorem u8_one (r : Bytes) : u8 ([1] ++ r) = .ok (1, r) := rfl

theorem tx_complete (hs : SizesPos P) (t : Tx) (r : Bytes) (h : t.wf P) :
    Tx.dec P (t.enc ++ r) = .ok (t, r) := by
  obtain ⟨l1, l5, l3, l4, w3, w4⟩ := h
  have LI := vecOf_lawful P.sizeTxIn hs.txIn _ _ _ (txIn_lawful P)
  have LO := vecOf_lawful P.sizeTxOut hs.txOut _ _ _ (txOut_lawful P)
  have c1 := fun rr => (le_lawful 4).complete t.version rr (by omega)
  have c5 := fun rr => (le_lawful 4).complete t.lockTime rr (by omega)
  cases hw : t.hasWitness
  · obtain ⟨hi, ho⟩ := (hasWitness_false_iff t).mp hw
    have c3 := fun rr => LI.complete t.input rr ⟨l3, fun i h => ⟨(w3 i h).1, hi i h⟩⟩
    have c4 := fun rr => LO.complete t.output rr ⟨l4, fun o h => ⟨(w4 o h).1, ho o h⟩⟩
    simp only [Tx.dec, Tx.enc, hw, Bool.false_eq_true, if_false, Tx.encStripped, List.append_assoc,
      c1, u8_zero, c3, c4, c5, if_true]
  · have c3 := fun rr => LI.complete (t.input.map clrIn) rr
      ⟨by simpa only [List.length_map] using l3, fun i h => by
        obtain ⟨j, hj, rfl⟩ := List.mem_map.mp h
        exact ⟨(w3 j hj).1, rfl⟩⟩
    have c4 := fun rr => LO.complete (t.output.map clrOut) rr
      ⟨by simpa only [List.length_map] using l4, fun o h => by
        obtain ⟨j, hj, rfl⟩ := List.mem_map.mp h
        exact ⟨(w4 j hj).1, rfl⟩⟩
    rw [encVec_clrIn] at c3
    rw [encVec_clrOut] at c4
    have c6 := fun rr => decWitnesses_complete _ _ _ (txInWitness_lawful P)
      (fun (i : TxIn) w => { i with witness := w }) TxIn.witness clrIn (fun _ => rfl) t.input rr
      (fun i h => (w3 i h).2)
    have c7 := fun rr => decWitnesses_complete _ _ _ (txOutWitness_lawful P)
      (fun (o : TxOut) w => { o with witness := w }) TxOut.witness clrOut (fun _ => rfl) t.output rr
      (fun o h => (w4 o h).2)
    have hne : (t.input.all (fun i => i.witness.isEmpty) && t.output.all (fun o => o.witness.isEmpty)) = false := by
      have := hasWitness_eq t
      rw [hw] at this
      generalize (t.input.all (fun i => i.witness.isEmpty) && t.output.all (fun o => o.witness.isEmpty)) = x at this
      cases x
      · rfl
      · cases this
    have d1 : ¬ ((1 : Nat) = 0) := by decide
    simp only [Tx.dec, Tx.enc, hw, if_true, List.append_assoc,
      c1, u8_one, c3, c4, c5, c6, c7, if_neg d1, hne, Bool.false_eq_true, if_false]

theorem tx_total (bs : Bytes) (s : String) : Tx.dec P bs ≠ .panic s := by
  intro h
  simp only [Tx.dec] at h
  have t1 := (le_lawful 4).total
  have t2 := u8_lawful.total
  have t3 := vecOf_total P.sizeTxIn _ (txIn_lawful P).total
  have t4 := vecOf_total P.sizeTxOut _ (txOut_lawful P).total
  have t6 := decWitnesses_total _ (txInWitness_lawful P).total (fun (i : TxIn) w => { i with witness := w })
  have t7 := decWitnesses_total _ (txOutWitness_lawful P).total (fun (o : TxOut) w => { o with witness := w })
  dsplits h
  all_goals first | exact t1 _ _ ‹_› | exact t2 _ _ ‹_› | exact t3 _ _ ‹_› | exact t4 _ _ ‹_› | exact t6 _ _ _ ‹_› | exact t7 _ _ _ ‹_›

theorem tx_lawful (hs : SizesPos P) : Lawful (Tx.dec P) Tx.enc (Tx.wf P) :=
  ⟨fun bs v rest h => tx_sound P hs bs v rest h, fun v r h => tx_complete P hs v r h, fun bs s => tx_total P bs s⟩


/-- strip all witnesses -/
def stripIn (i : TxIn) : TxIn := { i with witness := TxInWitness.empty }
def stripOut (o : TxOut) : TxOut := { o with witness := TxOutWitness.empty }
def stripWit (t : Tx) : Tx := { t with input := t.input.map stripIn, output := t.output.map stripOut }

private theorem stripIn_eq_clrIn : stripIn = clrIn := rfl
private theorem stripOut_eq_clrOut : stripOut = clrOut := rfl

theorem stripWit_hasWitness (t : Tx) : (stripWit t).hasWitness = false := by
  refine (hasWitness_false_iff _).mpr ⟨?_, ?_⟩
  · intro i hi
    obtain ⟨j, _, rfl⟩ := List.mem_map.mp hi
    rfl
  · intro o ho
    obtain ⟨j, _, rfl⟩ := List.mem_map.mp ho
    rfl

theorem encStripped_stripWit (t : Tx) : (stripWit t).encStripped = t.encStripped := by
  simp only [Tx.encStripped, stripWit, stripIn_eq_clrIn, stripOut_eq_clrOut, encVec_clrIn, encVec_clrOut]

theorem enc_stripWit (t : Tx) : (stripWit t).enc = t.encStripped := by
  simp only [Tx.enc, stripWit_hasWitness, Bool.false_eq_true, if_false]
  exact encStripped_stripWit t

theorem stripWit_wf (t : Tx) (h : t.wf P) : (stripWit t).wf P := by
  obtain ⟨l1, l5, l3, l4, w3, w4⟩ := h
  refine ⟨l1, l5, ?_, ?_, ?_, ?_⟩
  · simpa only [stripWit, List.length_map] using l3
  · simpa only [stripWit, List.length_map] using l4
  · intro i hi
    obtain ⟨j, hj, rfl⟩ := List.mem_map.mp hi
    exact ⟨(w3 j hj).1, txInWitness_empty_wf P⟩
  · intro o ho
    obtain ⟨j, hj, rfl⟩ := List.mem_map.mp ho
    exact ⟨(w4 j hj).1, txOutWitness_empty_wf P⟩

theorem stripWit_eq_self_of_no_witness (t : Tx) (h : t.hasWitness = false) : stripWit t = t := by
  obtain ⟨hi, ho⟩ := (hasWitness_false_iff t).mp h
  have e1 : t.input.map stripIn = t.input := by
    conv => rhs; rw [← List.map_id t.input]
    apply List.map_congr_left
    intro i hi'
    have := hi i hi'
    cases i
    simp only at this
    subst this
    rfl
  have e2 : t.output.map stripOut = t.output := by
    conv => rhs; rw [← List.map_id t.output]
    apply List.map_congr_left
    intro o ho'
    have := ho o ho'
    cases o
    simp only at this
    subst this
    rfl
  cases t
  simp only [stripWit] at e1 e2 ⊢
  rw [e1, e2]

/-- the witness-stripped serialization determines every non-witness field -/
theorem encStripped_injective (hs : SizesPos P) (a b : Tx) (ha : a.wf P) (hb : b.wf P)
    (h : a.encStripped = b.encStripped) : stripWit a = stripWit b :=
  enc_injective_of_complete (tx_lawful P hs) (stripWit a) (stripWit b) (stripWit_wf P a ha)
    (stripWit_wf P b hb) (by rw [enc_stripWit, enc_stripWit, h])

/-- the full serialization determines the transaction -/
theorem enc_injective (hs : SizesPos P) (a b : Tx) (ha : a.wf P) (hb : b.wf P)
    (h : a.enc = b.enc) : a = b :=
  enc_injective_of_complete (tx_lawful P hs) a b ha hb h

/-- full and stripped serializations differ exactly when a witness is present -/
theorem enc_eq_encStripped_iff (t : Tx) : t.enc = t.encStripped ↔ t.hasWitness = false := by
  constructor
  · intro h
    cases hw : t.hasWitness
    · rfl
    · exfalso
      simp only [Tx.enc, hw, if_true, Tx.encStripped, List.append_assoc, encLe] at h
      have h2 := List.append_cancel_left h
      simp only [List.cons_append, List.cons.injEq] at h2
      exact absurd h2.1 (by decide)
  · intro h
    simp only [Tx.enc, h, Bool.false_eq_true, if_false]


/-! sizes (C12) -/

theorem encOptProof_length (o : Option Bytes) :
    (encOptProof o).length = varintSize (Tx.optLen o) + Tx.optLen o := by
  cases o <;> simp only [encOptProof, Tx.optLen, encBytesVec_length, List.length_nil]

theorem encBytesVecVec_length (l : List Bytes) : (encBytesVecVec l).length = Tx.stackSize l := by
  have : ∀ l : List Bytes, (l.flatMap encBytesVec).length =
      (l.map (fun w => varintSize w.length + w.length)).sum := by
    intro l
    induction l with
    | nil => rfl
    | cons a as ih =>
      simp only [List.flatMap_cons, List.length_append, List.map_cons, List.sum_cons, ih,
        encBytesVec_length]
  simp only [encBytesVecVec, encVec, List.length_append, encVarint_length, this, Tx.stackSize]

/-- non-witness bytes of an input as counted by `scaled_size` -/
private def inBase (i : TxIn) : Nat :=
  32 + 4 + 4 + varintSize i.scriptSig.length + i.scriptSig.length +
    (if i.hasIssuance then 64 + i.assetIssuance.amount.encodedLength + i.assetIssuance.inflationKeys.encodedLength else 0)

/-- witness bytes of an input as counted by `scaled_size` -/
private def inWit (i : TxIn) : Nat :=
  varintSize (Tx.optLen i.witness.amountRangeproof) + Tx.optLen i.witness.amountRangeproof +
  varintSize (Tx.optLen i.witness.inflationKeysRangeproof) + Tx.optLen i.witness.inflationKeysRangeproof +
  Tx.stackSize i.witness.scriptWitness + Tx.stackSize i.witness.peginWitness

private def outBase (o : TxOut) : Nat :=
  o.asset.encodedLength + o.value.encodedLength + o.nonce.encodedLength +
    varintSize o.scriptPubkey.length + o.scriptPubkey.length

private def outWit (o : TxOut) : Nat :=
  varintSize o.witness.surjectionproofLen + o.witness.surjectionproofLen +
  varintSize o.witness.rangeproofLen + o.witness.rangeproofLen

theorem txIn_enc_length (i : TxIn) (h : i.wfBody P) : (TxIn.enc i).length = inBase i := by
  obtain ⟨htx, _, _, _, hiss⟩ := h
  simp only [TxIn.enc, inBase, List.length_append, encLe, leBytes_length, encBytesVec_length, htx]
  cases hq : i.hasIssuance
  · simp only [Bool.false_eq_true, if_false, List.length_nil]
    omega
  · simp only [hq, if_true] at hiss ⊢
    obtain ⟨l1, _, l2, w1, w2⟩ := hiss
    simp only [AssetIssuance.enc, List.length_append, l1, l2, value_enc_length P _ w1,
      value_enc_length P _ w2]
    omega

theorem txInWitness_enc_length (i : TxIn) : i.witness.enc.length = inWit i := by
  simp only [TxInWitness.enc, inWit, List.length_append, encOptProof_length, encBytesVecVec_length]
  omega

theorem txOut_enc_length (o : TxOut) (h : o.wfBody P) : (TxOut.enc o).length = outBase o := by
  obtain ⟨w1, w2, w3, _⟩ := h
  simp only [TxOut.enc, outBase, List.length_append, encBytesVec_length, asset_enc_length P _ w1,
    value_enc_length P _ w2, nonce_enc_length P _ w3]
  omega

theorem txOutWitness_enc_length (o : TxOut) : o.witness.enc.length = outWit o := by
  have h1 : o.witness.surjectionproofLen = Tx.optLen o.witness.surjectionProof := by
    simp only [TxOutWitness.surjectionproofLen, Tx.optLen]
  have h2 : o.witness.rangeproofLen = Tx.optLen o.witness.rangeproof := by
    simp only [TxOutWitness.rangeproofLen, Tx.optLen]
  simp only [TxOutWitness.enc, outWit, List.length_append, encOptProof_length, h1, h2]
  omega

theorem inputScaled_eq (k : Nat) (f : Bool) (i : TxIn) :
    Tx.inputScaled k f i = k * inBase i + (if f then inWit i else 0) := rfl

theorem outputScaled_eq (k : Nat) (f : Bool) (o : TxOut) :
    Tx.outputScaled k f o = k * outBase o + (if f then outWit o else 0) := rfl

theorem sum_inputScaled (k : Nat) (f : Bool) (l : List TxIn) (h : ∀ i ∈ l, i.wfBody P) :
    (l.map (Tx.inputScaled k f)).sum =
      k * (l.flatMap TxIn.enc).length + (if f then (l.flatMap (fun i => i.witness.enc)).length else 0) := by
  induction l with
  | nil => simp
  | cons a as ih =>
    have ih' := ih (fun i hi => h i (List.mem_cons_of_mem _ hi))
    have ha := txIn_enc_length P a (h a List.mem_cons_self)
    simp only [List.map_cons, List.sum_cons, List.flatMap_cons, List.length_append, ih', ha,
      inputScaled_eq, txInWitness_enc_length, Nat.mul_add]
    cases f
    · simp only [Bool.false_eq_true, if_false]; omega
    · simp only [if_true]; omega

theorem sum_outputScaled (k : Nat) (f : Bool) (l : List TxOut) (h : ∀ o ∈ l, o.wfBody P) :
    (l.map (Tx.outputScaled k f)).sum =
      k * (l.flatMap TxOut.enc).length + (if f then (l.flatMap (fun o => o.witness.enc)).length else 0) := by
  induction l with
  | nil => simp
  | cons a as ih =>
    have ih' := ih (fun i hi => h i (List.mem_cons_of_mem _ hi))
    have ha := txOut_enc_length P a (h a List.mem_cons_self)
    simp only [List.map_cons, List.sum_cons, List.flatMap_cons, List.length_append, ih', ha,
      outputScaled_eq, txOutWitness_enc_length, Nat.mul_add]
    cases f
    · simp only [Bool.false_eq_true, if_false]; omega
    · simp only [if_true]; omega

theorem encStripped_length (t : Tx) :
    t.encStripped.length = 4 + 1 + (varintSize t.input.length + (t.input.flatMap TxIn.enc).length) +
      (varintSize t.output.length + (t.output.flatMap TxOut.enc).length) + 4 := by
  simp only [Tx.encStripped, encVec, List.length_append, encLe, leBytes_length, encVarint_length,
    List.length_cons, List.length_nil]

theorem tx_enc_length (t : Tx) :
    t.enc.length = t.encStripped.length +
      (if t.hasWitness then (t.input.flatMap (fun i => i.witness.enc)).length +
        (t.output.flatMap (fun o => o.witness.enc)).length else 0) := by
  cases hw : t.hasWitness
  · simp only [Tx.enc, hw, Bool.false_eq_true, if_false, Nat.add_zero]
  · simp only [Tx.enc, hw, if_true, Tx.encStripped, List.length_append, List.length_cons,
      List.length_nil]
    omega

/-- `scaled_size` counts the stripped bytes `k` times and the witness bytes once -/
theorem scaledSize_eq (t : Tx) (h : t.wf P) (k : Nat) :
    t.scaledSize k + t.encStripped.length = k * t.encStripped.length + t.enc.length := by
  obtain ⟨_, _, _, _, w3, w4⟩ := h
  have h1 := sum_inputScaled P k t.hasWitness t.input (fun i hi => (w3 i hi).1)
  have h2 := sum_outputScaled P k t.hasWitness t.output (fun o ho => (w4 o ho).1)
  rw [tx_enc_length t, encStripped_length t]
  simp only [Tx.scaledSize, h1, h2, Nat.mul_add]
  cases t.hasWitness
  · simp only [Bool.false_eq_true, if_false]; omega
  · simp only [if_true]; omega

theorem size_eq_enc_length (t : Tx) (h : t.wf P) : t.size = t.enc.length := by
  have := scaledSize_eq P t h 1
  simp only [Tx.size]
  omega

theorem weight_eq (t : Tx) (h : t.wf P) : t.weight = 3 * t.encStripped.length + t.enc.length := by
  have := scaledSize_eq P t h 4
  simp only [Tx.weight]
  omega

end EV.Proofs.CodecTx
