/-
  Laws of the transaction-level codecs (EV.Model.Transaction), built on CodecPrim.
-/
import EV.Model.Transaction
import EV.Proofs.CodecPrim
namespace EV.Proofs.CodecTx
open EV EV.Codec EV.Proofs.CodecPrim

variable (P : Prims)

theorem value_lawful : Lawful (Value.dec P) Value.enc (Value.wf P) := by sorry
theorem asset_lawful : Lawful (Asset.dec P) Asset.enc (Asset.wf P) := by sorry
theorem nonce_lawful : Lawful (Nonce.dec P) Nonce.enc (Nonce.wf P) := by sorry

theorem value_enc_length (v : Value) (h : v.wf P) : v.enc.length = v.encodedLength := by sorry
theorem asset_enc_length (v : Asset) (h : v.wf P) : v.enc.length = v.encodedLength := by sorry
theorem nonce_enc_length (v : Nonce) (h : v.wf P) : v.enc.length = v.encodedLength := by sorry

theorem issuance_lawful : Lawful (AssetIssuance.dec P) AssetIssuance.enc (AssetIssuance.wf P) := by sorry
theorem outpoint_lawful : Lawful OutPoint.dec OutPoint.enc OutPoint.wf := by sorry

theorem optProof_lawful (valid : Bytes → Bool) :
    Lawful (decOptProof valid) encOptProof (wfOptProof valid) := by sorry

theorem txInWitness_lawful : Lawful (TxInWitness.dec P) TxInWitness.enc (TxInWitness.wf P) := by sorry
theorem txOutWitness_lawful : Lawful (TxOutWitness.dec P) TxOutWitness.enc (TxOutWitness.wf P) := by sorry

/-- `TxIn` as a stand-alone codec: the witness is not serialized, the decoder leaves it empty -/
theorem txIn_lawful :
    Lawful (TxIn.dec P) TxIn.enc (fun i => i.wfBody P ∧ i.witness = TxInWitness.empty) := by sorry

theorem txOut_lawful :
    Lawful (TxOut.dec P) TxOut.enc (fun o => o.wfBody P ∧ o.witness = TxOutWitness.empty) := by sorry

/-- the encoding of an input does not depend on its witness -/
theorem txIn_enc_witness (i : TxIn) (w : TxInWitness) : TxIn.enc { i with witness := w } = TxIn.enc i := by sorry
theorem txOut_enc_witness (o : TxOut) (w : TxOutWitness) : TxOut.enc { o with witness := w } = TxOut.enc o := by sorry

/-- sizes of platform structs are positive (needed by the vector guard) -/
structure SizesPos : Prop where
  txIn : 0 < P.sizeTxIn
  txOut : 0 < P.sizeTxOut
  tx : 0 < P.sizeTx

/-- the full transaction codec -/
theorem tx_sound (hs : SizesPos P) (bs : Bytes) (t : Tx) (rest : Bytes)
    (h : Tx.dec P bs = .ok (t, rest)) : bs = t.enc ++ rest ∧ t.wf P := by sorry

theorem tx_complete (hs : SizesPos P) (t : Tx) (r : Bytes) (h : t.wf P) :
    Tx.dec P (t.enc ++ r) = .ok (t, r) := by sorry

theorem tx_total (bs : Bytes) (s : String) : Tx.dec P bs ≠ .panic s := by sorry

theorem tx_lawful (hs : SizesPos P) : Lawful (Tx.dec P) Tx.enc (Tx.wf P) :=
  ⟨fun bs v rest h => tx_sound P hs bs v rest h, fun v r h => tx_complete P hs v r h, fun bs s => tx_total P bs s⟩

/-- strip all witnesses -/
def stripIn (i : TxIn) : TxIn := { i with witness := TxInWitness.empty }
def stripOut (o : TxOut) : TxOut := { o with witness := TxOutWitness.empty }
def stripWit (t : Tx) : Tx := { t with input := t.input.map stripIn, output := t.output.map stripOut }

theorem stripWit_hasWitness (t : Tx) : (stripWit t).hasWitness = false := by sorry
theorem encStripped_stripWit (t : Tx) : (stripWit t).encStripped = t.encStripped := by sorry
theorem enc_stripWit (t : Tx) : (stripWit t).enc = t.encStripped := by sorry
theorem stripWit_wf (t : Tx) (h : t.wf P) : (stripWit t).wf P := by sorry
theorem stripWit_eq_self_of_no_witness (t : Tx) (h : t.hasWitness = false) : stripWit t = t := by sorry

/-- the witness-stripped serialization determines every non-witness field -/
theorem encStripped_injective (hs : SizesPos P) (a b : Tx) (ha : a.wf P) (hb : b.wf P)
    (h : a.encStripped = b.encStripped) : stripWit a = stripWit b := by sorry

/-- the full serialization determines the transaction -/
theorem enc_injective (hs : SizesPos P) (a b : Tx) (ha : a.wf P) (hb : b.wf P)
    (h : a.enc = b.enc) : a = b := by sorry

/-- full and stripped serializations differ exactly when a witness is present -/
theorem enc_eq_encStripped_iff (t : Tx) : t.enc = t.encStripped ↔ t.hasWitness = false := by sorry

/-! sizes (C12) -/
theorem size_eq_enc_length (t : Tx) (h : t.wf P) : t.size = t.enc.length := by sorry

theorem weight_eq (t : Tx) (h : t.wf P) : t.weight = 3 * t.encStripped.length + t.enc.length := by sorry

end EV.Proofs.CodecTx
