/-
  C13: the cache invariant, soundness of every query against it, `witness_mut`, and the
  Prevouts::One / Prevouts::All clauses.
-/
import EV.Proofs.SighashDefs
import EV.Proofs.SighashCacheProofsAux
namespace EV.Sighash
open EV EV.Codec

variable (H : SigHashes)

theorem cacheInv_empty (tx : Tx) (ps : List TxOut) : CacheInv H tx ps Cache.empty := by
  refine ⟨?_, ?_, ?_⟩ <;> intro x h <;> cases h

/-- one query: the invariant is kept and the answer is the one of a fresh cache -/
theorem query_sound (tx : Tx) (ps : List TxOut) (q : Query) (hq : q.usesAll ps) (c : Cache)
    (hc : CacheInv H tx ps c) :
    CacheInv H tx ps (query H tx q c).1 ∧ (query H tx q c).2 = fresh H tx q := by
  cases q with
  | legacy idx script ty => exact ⟨hc, rfl⟩
  | segwit idx sc v ty =>
    exact Sound.mapRes H.sha256d (msgSegwitC_sound H tx ps idx sc v ty) c hc
  | taproot idx pv annex leaf ty g =>
    refine Sound.mapRes (H.tagged Gen.tapSighashTag)
      (msgTaprootC_sound H tx ps idx pv annex leaf ty g ?_) c hc
    intro ps' h
    subst h
    exact hq

/-- no cached value reads a script witness -/
theorem cacheInv_setScriptWitness (tx : Tx) (ps : List TxOut) (c : Cache) (i : Nat) (st : List Bytes)
    (hc : CacheInv H tx ps c) : CacheInv H (setScriptWitness tx i st) ps c := by
  unfold CacheInv at hc ⊢
  simp only [commonOf_ssw, taprootOf_ssw]
  exact hc

/-- no signature hash reads a script witness -/
theorem fresh_setScriptWitness (tx : Tx) (i : Nat) (st : List Bytes) (q : Query) :
    fresh H (setScriptWitness tx i st) q = fresh H tx q := by
  cases q with
  | legacy idx script ty => exact legacySighash_ssw H tx i st idx script ty
  | segwit idx sc v ty =>
    simp only [fresh, segwitSighash, msgSegwit_ssw]
  | taproot idx pv annex leaf ty g =>
    simp only [fresh, taprootSighash, msgTaproot_ssw]

theorem setScriptWitness_length (tx : Tx) (i : Nat) (st : List Bytes) :
    (setScriptWitness tx i st).input.length = tx.input.length :=
  setScriptWitness_length_aux tx i st

/-- any history on one cache answers like fresh caches over the transaction as it is at that point -/
theorem run_eq_runFresh (tx : Tx) (ps : List TxOut) (ops : List Op) (hops : ∀ o ∈ ops, o.usesAll ps)
    (c : Cache) (hc : CacheInv H tx ps c) : run H ⟨tx, c⟩ ops = runFresh H tx ops := by
  induction ops generalizing tx c with
  | nil => rfl
  | cons op ops ih =>
    have hop : op.usesAll ps := hops op (List.mem_cons_self ..)
    have hops' : ∀ o ∈ ops, o.usesAll ps := fun o ho => hops o (List.mem_cons_of_mem _ ho)
    cases op with
    | q q =>
      obtain ⟨h1, h2⟩ := query_sound H tx ps q hop c hc
      simp only [run, step, runFresh]
      rw [h2, ih tx hops' _ h1]
    | w idx st =>
      simp only [run, step, runFresh]
      by_cases h : idx < tx.input.length
      · simp only [if_pos h]
        rw [ih _ hops' c (cacheInv_setScriptWitness H tx ps c idx st hc)]
      · simp only [if_neg h]
        rw [ih tx hops' c hc]

/-- … which is what fresh caches over the original transaction answer -/
theorem runFresh_eq_runOriginal (tx : Tx) (ops : List Op) : runFresh H tx ops = runOriginal H tx ops := by
  suffices h : ∀ tx', (∀ q, fresh H tx' q = fresh H tx q) → tx'.input.length = tx.input.length →
      runFresh H tx' ops = runOriginal H tx ops from h tx (fun _ => rfl) rfl
  induction ops with
  | nil => intro tx' _ _; rfl
  | cons op ops ih =>
    intro tx' hf hl
    cases op with
    | q q =>
      simp only [runFresh, runOriginal]
      rw [hf q, ih tx' hf hl]
    | w idx st =>
      simp only [runFresh, runOriginal]
      by_cases h : idx < tx'.input.length
      · have h' : idx < tx.input.length := hl ▸ h
        simp only [if_pos h, decide_eq_true h']
        rw [ih (setScriptWitness tx' idx st)
          (fun q => (fresh_setScriptWitness H tx' idx st q).trans (hf q))
          ((setScriptWitness_length tx' idx st).trans hl)]
      · have h' : ¬ idx < tx.input.length := hl ▸ h
        simp only [if_neg h, decide_eq_false h']
        rw [ih tx' hf hl]

/-- the invariant is kept by every operation (query of any kind, `witness_mut`) -/
theorem step_inv (ps : List TxOut) (s : State) (op : Op) (hop : op.usesAll ps)
    (hc : CacheInv H s.tx ps s.cache) :
    CacheInv H (step H s op).1.tx ps (step H s op).1.cache := by
  cases op with
  | q q => exact (query_sound H s.tx ps q hop s.cache hc).1
  | w idx st =>
    simp only [step]
    split
    · exact cacheInv_setScriptWitness H s.tx ps s.cache idx st hc
    · exact hc

/-- ANYONECANPAY: the spent output of the signed input suffices -/
theorem one_eq_all (tx : Tx) (ps : List TxOut) (idx : Nat) (p : TxOut) (annex : Option Bytes)
    (leaf : Option (Bytes × Nat)) (ty : SchnorrTy) (g : Bytes)
    (hty : ty.acp = true) (hlen : ps.length = tx.input.length) (hp : ps[idx]? = some p) :
    msgTaproot H tx idx (.one idx p) annex leaf ty g = msgTaproot H tx idx (.all ps) annex leaf ty g := by
  have hi : ∀ pv, tapInsPart H tx pv ty = .ok [] := by
    intro pv; simp only [tapInsPart, hty, if_true]
  have ht : tapThisPart H tx idx (.one idx p) ty = tapThisPart H tx idx (.all ps) ty := by
    simp only [tapThisPart, hty, if_true, Prevouts.get, hp]
  simp only [msgTaproot, hi, ht, Prevouts.checkAll, hlen, ne_eq, not_true_eq_false, if_false]

/-- without ANYONECANPAY a single spent output is reported as `PrevoutKind` -/
theorem one_insufficient (tx : Tx) (idx j : Nat) (p : TxOut) (annex : Option Bytes)
    (leaf : Option (Bytes × Nat)) (ty : SchnorrTy) (g : Bytes) (hty : ty.acp = false) :
    msgTaproot H tx idx (.one j p) annex leaf ty g = .err ePrevoutKind := by
  simp only [msgTaproot, Prevouts.checkAll, tapInsPart, hty, Prevouts.getAll, Res.bind]
  rfl

end EV.Sighash
