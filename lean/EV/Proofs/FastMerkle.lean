/- helper lemmas for C18 -/
import EV.Model.FastMerkle
namespace EV.Proofs.FastMerkle
open EV.FastMerkle

variable {α : Type}

/-! ### Specification-side lemmas -/

theorem levelRoot_nil (comb : α → α → α) (zero : α) : levelRoot comb zero [] = zero := by
  rw [levelRoot]

theorem levelRoot_single (comb : α → α → α) (zero a : α) : levelRoot comb zero [a] = a := by
  rw [levelRoot]

theorem levelRoot_cons_cons (comb : α → α → α) (zero a b : α) (rest : List α) :
    levelRoot comb zero (a :: b :: rest) = levelRoot comb zero (pairUp comb (a :: b :: rest)) := by
  rw [levelRoot]

theorem levelRoot_pairUp (comb : α → α → α) (zero : α) (l : List α) :
    levelRoot comb zero (pairUp comb l) = levelRoot comb zero l := by
  match l with
  | [] => simp [pairUp]
  | [a] => simp [pairUp]
  | a :: b :: rest => rw [levelRoot_cons_cons]

theorem pairUp_length (comb : α → α → α) (l : List α) :
    (pairUp comb l).length = (l.length + 1) / 2 := by
  fun_induction pairUp comb l with
  | case1 a b rest ih => simp [ih]; omega
  | case2 a => simp
  | case3 => simp

/-! ### Bound-generic copies of the coded loops

The coded loops test `level ≥ 32` and `count ≥ 2^32`.  To reason by recursion on the slot list
(dropping slot 0 and halving the counter) the bound is made a parameter. -/

def carryB (comb : α → α → α) (B : Nat) (inner : List α) (count : Nat) : Nat → Nat → α → Option (Nat × α)
  | 0, _, _ => none
  | fuel+1, level, temp =>
    if level ≥ B then none
    else if count.testBit level then some (level, temp)
    else match inner[level]? with
      | none => none
      | some x => carryB comb B inner count fuel (level+1) (comb x temp)

def lowestSetB (B : Nat) (count : Nat) : Nat → Nat → Option Nat
  | 0, _ => none
  | fuel+1, level =>
    if level ≥ B then none
    else if count.testBit level then some level
    else lowestSetB B count fuel (level+1)

def sweepB (comb : α → α → α) (B FI : Nat) (inner : List α) : Nat → Nat → Nat → α → Option α
  | 0, _, _, _ => none
  | fuel+1, count, level, res =>
    if level ≥ B then none
    else if count = 2^level then some res
    else
      let count' := count + 2^level
      if count' ≥ 2^B then none
      else match carryB comb B inner count' FI (level+1) res with
        | none => none
        | some (level', res') => sweepB comb B FI inner fuel count' level' res'

theorem carry_eq (comb : α → α → α) (inner : List α) (count fuel level : Nat) (temp : α) :
    carry comb inner count fuel level temp = carryB comb 32 inner count fuel level temp := by
  induction fuel generalizing level temp with
  | zero => simp [carry, carryB]
  | succ f ih =>
    simp only [carry, carryB, ih]
    cases inner[level]? <;> rfl

theorem sweepInner_eq (comb : α → α → α) (inner : List α) (count fuel level : Nat) (temp : α) :
    sweepInner comb inner count fuel level temp = carryB comb 32 inner count fuel level temp := by
  induction fuel generalizing level temp with
  | zero => simp [sweepInner, carryB]
  | succ f ih =>
    simp only [sweepInner, carryB, ih]
    cases inner[level]? <;> rfl

theorem lowestSet_eq (count fuel level : Nat) :
    lowestSet count fuel level = lowestSetB 32 count fuel level := by
  induction fuel generalizing level with
  | zero => simp [lowestSet, lowestSetB]
  | succ f ih => simp only [lowestSet, lowestSetB, ih]

theorem sweep_eq (comb : α → α → α) (inner : List α) (fuel count level : Nat) (res : α) :
    sweep comb inner fuel count level res = sweepB comb 32 34 inner fuel count level res := by
  induction fuel generalizing count level res with
  | zero => simp [sweep, sweepB]
  | succ f ih =>
    simp only [sweep, sweepB, ih, sweepInner_eq]
    cases carryB comb 32 inner (count + 2 ^ level) 34 (level + 1) res <;> rfl

/-! ### Shift lemmas: dropping slot 0 halves the counter and lowers every level by one -/

def shiftRes : Option (Nat × α) → Option (Nat × α)
  | none => none
  | some (l, t) => some (l + 1, t)

theorem carryB_shift (comb : α → α → α) (B : Nat) (s : α) (inner : List α) (count fuel level : Nat)
    (temp : α) :
    carryB comb (B+1) (s :: inner) count fuel (level+1) temp
      = shiftRes (carryB comb B inner (count/2) fuel level temp) := by
  induction fuel generalizing level temp with
  | zero => simp [carryB, shiftRes]
  | succ f ih =>
    simp only [carryB, Nat.testBit_succ, List.getElem?_cons_succ, ih]
    by_cases h1 : level ≥ B
    · simp [h1, shiftRes]
    · simp only [ge_iff_le, Nat.add_le_add_iff_right, h1, if_false]
      by_cases h2 : (count/2).testBit level
      · simp [h2, shiftRes]
      · simp only [h2]
        cases inner[level]? <;> simp [shiftRes]

theorem lowestSetB_shift (B count fuel level : Nat) :
    lowestSetB (B+1) count fuel (level+1)
      = (lowestSetB B (count/2) fuel level).map (· + 1) := by
  induction fuel generalizing level with
  | zero => simp [lowestSetB]
  | succ f ih =>
    simp only [lowestSetB, Nat.testBit_succ, ih]
    by_cases h1 : level ≥ B
    · simp [h1]
    · simp only [ge_iff_le, Nat.add_le_add_iff_right, h1, if_false]
      by_cases h2 : (count/2).testBit level
      · simp [h2]
      · simp [h2]

theorem sweepB_shift (comb : α → α → α) (B FI : Nat) (s : α) (inner : List α)
    (fuel count level : Nat) (res : α) (heven : count % 2 = 0) :
    sweepB comb (B+1) FI (s :: inner) fuel count (level+1) res
      = sweepB comb B FI inner fuel (count/2) level res := by
  induction fuel generalizing count level res with
  | zero => simp [sweepB]
  | succ f ih =>
    simp only [sweepB]
    by_cases h1 : level ≥ B
    · simp [h1]
    · simp only [ge_iff_le, Nat.add_le_add_iff_right, h1, if_false]
      have hp : (2:Nat)^(level+1) = 2 * 2^level := by rw [Nat.pow_succ, Nat.mul_comm]
      have hB : (2:Nat)^(B+1) = 2 * 2^B := by rw [Nat.pow_succ, Nat.mul_comm]
      have e1 : (count = 2^(level+1)) ↔ (count/2 = 2^level) := by rw [hp]; omega
      have e2 : (count + 2^(level+1)) / 2 = count/2 + 2^level := by rw [hp]; omega
      have e3 : (2^(B+1) ≤ count + 2^(level+1)) ↔ (2^B ≤ count/2 + 2^level) := by
        rw [hp, hB]; omega
      have e4 : (count + 2^(level+1)) % 2 = 0 := by rw [hp]; omega
      simp only [e1, e3]
      by_cases h2 : count/2 = 2^level
      · simp [h2]
      · simp only [h2, if_false]
        by_cases h3 : 2^B ≤ count/2 + 2^level
        · simp [h3]
        · simp only [h3, if_false]
          rw [carryB_shift, e2]
          cases hc : carryB comb B inner (count/2 + 2^level) FI (level+1) res with
          | none => simp [shiftRes]
          | some p =>
            obtain ⟨l', r'⟩ := p
            simp only [shiftRes]
            rw [ih _ _ _ e4, e2]

/-! ### Pairing without promotion, and the recursive slot invariant -/

/-- pair adjacent nodes, dropping an unpaired last node -/
def pairsDown (comb : α → α → α) : List α → List α
  | a :: b :: rest => comb a b :: pairsDown comb rest
  | [_] => []
  | [] => []

theorem pairsDown_length (comb : α → α → α) (l : List α) :
    (pairsDown comb l).length = l.length / 2 := by
  fun_induction pairsDown comb l with
  | case1 a b rest ih => simp [ih]; omega
  | case2 a => simp
  | case3 => simp

theorem getLast?_rest_of_odd (a b : α) (rest : List α) (s : α)
    (h : (a :: b :: rest).length % 2 = 1) (hs : (a :: b :: rest).getLast? = some s) :
    rest.getLast? = some s := by
  cases rest with
  | nil => simp at h
  | cons c r => simpa [List.getLast?_cons_cons] using hs

theorem pairsDown_snoc_even (comb : α → α → α) (l : List α) (x : α) (h : l.length % 2 = 0) :
    pairsDown comb (l ++ [x]) = pairsDown comb l := by
  fun_induction pairsDown comb l with
  | case1 a b rest ih =>
    simp only [List.cons_append, pairsDown, List.cons.injEq, true_and]
    apply ih; simp at h; omega
  | case2 a => simp at h
  | case3 => simp [pairsDown]

theorem pairsDown_snoc_odd (comb : α → α → α) (l : List α) (s x : α) (h : l.length % 2 = 1)
    (hs : l.getLast? = some s) :
    pairsDown comb (l ++ [x]) = pairsDown comb l ++ [comb s x] := by
  fun_induction pairsDown comb l with
  | case1 a b rest ih =>
    simp only [List.cons_append, pairsDown, List.cons.injEq, true_and]
    apply ih
    · simp at h; omega
    · exact getLast?_rest_of_odd a b rest s h hs
  | case2 a =>
    simp at hs
    simp [pairsDown, hs]
  | case3 => simp at h

theorem pairUp_snoc_even (comb : α → α → α) (l : List α) (x : α) (h : l.length % 2 = 0) :
    pairUp comb (l ++ [x]) = pairsDown comb l ++ [x] := by
  fun_induction pairsDown comb l with
  | case1 a b rest ih =>
    simp only [List.cons_append, pairUp, List.cons.injEq, true_and]
    apply ih; simp at h; omega
  | case2 a => simp at h
  | case3 => simp [pairUp]

theorem pairUp_snoc_odd (comb : α → α → α) (l : List α) (s x : α) (h : l.length % 2 = 1)
    (hs : l.getLast? = some s) :
    pairUp comb (l ++ [x]) = pairsDown comb l ++ [comb s x] := by
  fun_induction pairsDown comb l with
  | case1 a b rest ih =>
    simp only [List.cons_append, pairUp, List.cons.injEq, true_and]
    apply ih
    · simp at h; omega
    · exact getLast?_rest_of_odd a b rest s h hs
  | case2 a =>
    simp at hs
    simp [pairUp, hs]
  | case3 => simp at h

theorem pairUp_even (comb : α → α → α) (l : List α) (h : l.length % 2 = 0) :
    pairUp comb l = pairsDown comb l := by
  fun_induction pairsDown comb l with
  | case1 a b rest ih =>
    simp only [pairUp, List.cons.injEq, true_and]
    apply ih; simp at h; omega
  | case2 a => simp at h
  | case3 => simp [pairUp]

theorem pairUp_odd (comb : α → α → α) (l : List α) (s : α) (h : l.length % 2 = 1)
    (hs : l.getLast? = some s) :
    pairUp comb l = pairsDown comb l ++ [s] := by
  fun_induction pairsDown comb l with
  | case1 a b rest ih =>
    simp only [pairUp, List.cons_append, List.cons.injEq, true_and]
    apply ih
    · simp at h; omega
    · exact getLast?_rest_of_odd a b rest s h hs
  | case2 a =>
    simp at hs
    simp [pairUp, hs]
  | case3 => simp at h

/-- Slot invariant, by recursion on the slots: slot 0 holds the last leaf when the count is odd; the
    remaining slots are the state for the paired-down list with the halved count. -/
def InvR (comb : α → α → α) : List α → Nat → List α → Prop
  | [], _, _ => True
  | s :: rest, k, pre => (k % 2 = 1 → pre.getLast? = some s) ∧ InvR comb rest (k/2) (pairsDown comb pre)

theorem InvR_zero (comb : α → α → α) (inner : List α) : InvR comb inner 0 [] := by
  induction inner with
  | nil => trivial
  | cons s rest ih => exact ⟨by simp, by simpa [pairsDown] using ih⟩

/-- the sweep, structurally: fold the occupied slots upwards into `res` -/
def sweepSpec (comb : α → α → α) : List α → Nat → α → α
  | [], _, res => res
  | s :: rest, k, res =>
    if k % 2 = 1 then sweepSpec comb rest (k/2) (comb s res) else sweepSpec comb rest (k/2) res

theorem sweepSpec_eq (comb : α → α → α) (zero : α) (inner : List α) (k : Nat) (pre : List α) (res : α)
    (hinv : InvR comb inner k pre) (hlen : pre.length = k) (hk : k < 2^inner.length) :
    sweepSpec comb inner k res = levelRoot comb zero (pre ++ [res]) := by
  induction inner generalizing k pre res with
  | nil =>
    simp at hk
    subst hk
    have : pre = [] := List.eq_nil_of_length_eq_zero hlen
    subst this
    simp [sweepSpec, levelRoot_single]
  | cons s rest ih =>
    obtain ⟨h0, hrest⟩ := hinv
    have hl2 : (pairsDown comb pre).length = k/2 := by rw [pairsDown_length, hlen]
    have hk2 : k/2 < 2^rest.length := by
      simp only [List.length_cons, Nat.pow_succ] at hk; omega
    rw [← levelRoot_pairUp]
    by_cases hodd : k % 2 = 1
    · simp only [sweepSpec, hodd, if_true]
      rw [ih (k/2) _ _ hrest hl2 hk2, pairUp_snoc_odd comb pre s res (by omega) (h0 hodd)]
    · simp only [sweepSpec, hodd, if_false]
      rw [ih (k/2) _ _ hrest hl2 hk2, pairUp_snoc_even comb pre res (by omega)]

/-! ### First loop: pushing a leaf preserves the invariant -/

theorem carryB_push (comb : α → α → α) (inner : List α) :
    ∀ (k : Nat) (pre : List α) (x : α) (fuel : Nat),
      k + 1 < 2^inner.length → inner.length < fuel →
      InvR comb inner k pre → pre.length = k →
      ∃ l t, carryB comb inner.length inner (k+1) fuel 0 x = some (l, t) ∧
        InvR comb (inner.set l t) (k+1) (pre ++ [x]) := by
  induction inner with
  | nil => intro k pre x fuel hk; simp at hk
  | cons s rest ih =>
    intro k pre x fuel hk hfuel hinv hlen
    obtain ⟨h0, hrest⟩ := hinv
    simp only [List.length_cons] at hk hfuel ⊢
    match fuel, hfuel with
    | f+1, hfuel =>
      by_cases hodd : k % 2 = 1
      · -- slot 0 occupied: merge and carry on
        have hb : (k+1).testBit 0 = false := by
          rw [Nat.testBit_zero]; simp; omega
        have hk2 : k/2 + 1 < 2^rest.length := by
          rw [Nat.pow_succ] at hk; omega
        have hl2 : (pairsDown comb pre).length = k/2 := by rw [pairsDown_length, hlen]
        obtain ⟨l, t, hc, hi⟩ := ih (k/2) (pairsDown comb pre) (comb s x) f hk2 (by omega) hrest hl2
        refine ⟨l+1, t, ?_, ?_⟩
        · simp only [carryB, hb]
          simp only [ge_iff_le, Nat.le_zero_eq, Nat.add_one_ne_zero, if_false, Bool.false_eq_true,
            List.getElem?_cons_zero]
          rw [carryB_shift]
          have : (k+1)/2 = k/2 + 1 := by omega
          rw [this, hc]; rfl
        · simp only [List.set_cons_succ]
          refine ⟨by omega, ?_⟩
          have : (k+1)/2 = k/2 + 1 := by omega
          rw [this, pairsDown_snoc_odd comb pre s x (by omega) (h0 hodd)]
          exact hi
      · -- slot 0 free: store the leaf
        have hb : (k+1).testBit 0 = true := by
          rw [Nat.testBit_zero]; simp; omega
        refine ⟨0, x, ?_, ?_⟩
        · simp [carryB, hb]
        · simp only [List.set_cons_zero]
          refine ⟨by simp, ?_⟩
          have : (k+1)/2 = k/2 := by omega
          rw [this, pairsDown_snoc_even comb pre x (by omega)]
          exact hrest

theorem pushAll_inv (comb : α → α → α) (ls : List α) :
    ∀ (inner : List α) (k : Nat) (pre : List α),
      inner.length = 32 → k + ls.length < 2^32 →
      InvR comb inner k pre → pre.length = k →
      ∃ inner', pushAll comb (inner, k) ls = some (inner', k + ls.length) ∧
        inner'.length = 32 ∧ InvR comb inner' (k + ls.length) (pre ++ ls) := by
  induction ls with
  | nil =>
    intro inner k pre hl _ hinv _
    exact ⟨inner, by simp [pushAll], hl, by simpa using hinv⟩
  | cons x ls ih =>
    intro inner k pre hl hk hinv hlen
    simp only [List.length_cons] at hk
    obtain ⟨l, t, hc, hi⟩ := carryB_push comb inner k pre x 33 (by rw [hl]; omega) (by omega) hinv hlen
    rw [hl] at hc
    obtain ⟨inner', hp, hl', hi'⟩ := ih (inner.set l t) (k+1) (pre ++ [x]) (by simpa using hl)
      (by omega) hi (by simp [hlen])
    refine ⟨inner', ?_, hl', ?_⟩
    · have hno : ¬ (k + 1 ≥ 2^32) := by omega
      simp only [pushAll, pushLeaf, hno, if_false, carry_eq, hc, setSlot]
      rw [hp]
      simp only [List.length_cons]
      congr 2; omega
    · have e1 : k + (x :: ls).length = k + 1 + ls.length := by simp; omega
      have e2 : pre ++ x :: ls = pre ++ [x] ++ ls := by simp
      rw [e1, e2]; exact hi'

/-! ### Second loop: the coded sweep computes `sweepSpec` -/

/-- inner carry loop followed by the rest of the outer loop -/
def carryThenSweep (comb : α → α → α) (B FI : Nat) (inner : List α) (fI fO c : Nat) (res : α) : Option α :=
  match carryB comb B inner c fI 0 res with
  | none => none
  | some (j, r) => sweepB comb B FI inner fO c j r

theorem sweepSpec_zero (comb : α → α → α) (inner : List α) (res : α) :
    sweepSpec comb inner 0 res = res := by
  induction inner with
  | nil => rfl
  | cons s rest ih => simpa [sweepSpec] using ih

theorem cts_shift (comb : α → α → α) (B FI : Nat) (s : α) (rest : List α) (fI fO c lvl : Nat) (res : α)
    (heven : c % 2 = 0) :
    (match shiftRes (carryB comb B rest (c/2) fI lvl res) with
      | none => none
      | some (j, r) => sweepB comb (B+1) FI (s :: rest) fO c j r)
    = (match carryB comb B rest (c/2) fI lvl res with
      | none => none
      | some (j, r) => sweepB comb B FI rest fO (c/2) j r) := by
  cases carryB comb B rest (c/2) fI lvl res with
  | none => simp [shiftRes]
  | some p =>
    obtain ⟨j, r⟩ := p
    simp only [shiftRes]
    rw [sweepB_shift _ _ _ _ _ _ _ _ _ heven]

theorem sweep_spec (comb : α → α → α) (FI : Nat) (inner : List α) :
    ∀ (n c fI fO : Nat) (res : α), inner.length = n + 1 → 1 ≤ c → c ≤ 2^n →
      n < fI → n < FI → n < fO →
      carryThenSweep comb (n+1) FI inner fI fO c res = some (sweepSpec comb inner (c-1) res) := by
  induction inner with
  | nil => intro n c fI fO res h; simp at h
  | cons s rest ih =>
    intro n c fI fO res hlen hc1 hc hfI hFI hfO
    have hrl : rest.length = n := by simpa using hlen
    match fI, hfI, fO, hfO with
    | gI+1, hfI, gO+1, hfO =>
    by_cases hodd : c % 2 = 1
    · -- bit 0 of c set: carry loop stops at once, outer loop at level 0
      have hb : c.testBit 0 = true := by rw [Nat.testBit_zero]; simp; omega
      have hss : sweepSpec comb (s :: rest) (c-1) res = sweepSpec comb rest ((c-1)/2) res := by
        have : ¬ ((c-1) % 2 = 1) := by omega
        simp only [sweepSpec, this, if_false]
      simp only [carryThenSweep, carryB, hb]
      simp only [ge_iff_le, Nat.le_zero_eq, Nat.add_one_ne_zero, if_false, if_true]
      rw [hss]
      simp only [sweepB]
      simp only [ge_iff_le, Nat.le_zero_eq, Nat.add_one_ne_zero, if_false, Nat.pow_zero]
      by_cases hone : c = 1
      · subst hone
        simp [sweepSpec_zero]
      · simp only [hone, if_false]
        cases n with
        | zero => simp at hc; omega
        | succ m =>
          have hp : (2:Nat)^(m+1) = 2 * 2^m := by rw [Nat.pow_succ, Nat.mul_comm]
          have hp2 : (2:Nat)^(m+1+1) = 2 * 2^(m+1) := by rw [Nat.pow_succ, Nat.mul_comm]
          have hno : ¬ (2^(m+1+1) ≤ c + 1) := by rw [hp2]; omega
          simp only [hno, if_false]
          rw [carryB_shift]
          have heven : (c+1) % 2 = 0 := by omega
          rw [cts_shift comb (m+1) FI s rest FI gO (c+1) 0 res heven]
          have := ih m ((c+1)/2) FI gO res hrl (by omega) (by rw [hp] at hc; omega) (by omega)
            (by omega) (by omega)
          simp only [carryThenSweep] at this
          rw [this]
          congr 2
          omega
    · -- bit 0 of c clear: merge slot 0 and carry on
      have hb : c.testBit 0 = false := by rw [Nat.testBit_zero]; simp; omega
      have hss : sweepSpec comb (s :: rest) (c-1) res = sweepSpec comb rest ((c-1)/2) (comb s res) := by
        have : (c-1) % 2 = 1 := by omega
        simp only [sweepSpec, this, if_true]
      simp only [carryThenSweep, carryB, hb]
      simp only [ge_iff_le, Nat.le_zero_eq, Nat.add_one_ne_zero, if_false, Bool.false_eq_true,
        List.getElem?_cons_zero]
      rw [hss]
      cases n with
      | zero => simp at hc; omega
      | succ m =>
        have hp : (2:Nat)^(m+1) = 2 * 2^m := by rw [Nat.pow_succ, Nat.mul_comm]
        rw [carryB_shift]
        have heven : c % 2 = 0 := by omega
        rw [cts_shift comb (m+1) FI s rest gI (gO+1) c 0 (comb s res) heven]
        have := ih m (c/2) gI (gO+1) (comb s res) hrl (by omega) (by rw [hp] at hc; omega) (by omega)
          (by omega) (by omega)
        simp only [carryThenSweep] at this
        rw [this]
        congr 2
        omega

theorem cts_odd (comb : α → α → α) (B FI : Nat) (inner : List α) (fI fO c : Nat) (res : α)
    (hodd : c % 2 = 1) :
    carryThenSweep comb (B+1) FI inner (fI+1) fO c res = sweepB comb (B+1) FI inner fO c 0 res := by
  have hb : c.testBit 0 = true := by rw [Nat.testBit_zero]; simp; omega
  simp [carryThenSweep, carryB, hb]

/-! ### Lowest set bit, first slot and sweep together -/

theorem final_spec (comb : α → α → α) (zero : α) (FI : Nat) (inner : List α) :
    ∀ (n k fL fO : Nat) (pre : List α), inner.length = n + 1 → 1 ≤ k → k ≤ 2^n →
      InvR comb inner k pre → pre.length = k →
      n < fL → n < FI → n < fO →
      ∃ l r, lowestSetB (n+1) k fL 0 = some l ∧ inner[l]? = some r ∧
        sweepB comb (n+1) FI inner fO k l r = some (levelRoot comb zero pre) := by
  induction inner with
  | nil => intro n k fL fO pre h; simp at h
  | cons s rest ih =>
    intro n k fL fO pre hlen hk1 hk hinv hpl hfL hFI hfO
    have hrl : rest.length = n := by simpa using hlen
    obtain ⟨h0, hrest⟩ := hinv
    have hl2 : (pairsDown comb pre).length = k/2 := by rw [pairsDown_length, hpl]
    match fL, hfL with
    | gL+1, hfL =>
    by_cases hodd : k % 2 = 1
    · have hb : k.testBit 0 = true := by rw [Nat.testBit_zero]; simp; omega
      refine ⟨0, s, by simp [lowestSetB, hb], by simp, ?_⟩
      rw [← cts_odd comb n FI (s :: rest) n fO k s hodd]
      rw [sweep_spec comb FI (s :: rest) n k (n+1) fO s hlen hk1 hk (by omega) hFI hfO]
      have hne : ¬ ((k-1) % 2 = 1) := by omega
      simp only [sweepSpec, hne, if_false]
      have hk2 : k/2 < 2^rest.length := by rw [hrl]; omega
      have e : (k-1)/2 = k/2 := by omega
      rw [e, sweepSpec_eq comb zero rest (k/2) _ s hrest hl2 hk2]
      rw [← pairUp_odd comb pre s (by omega) (h0 hodd), levelRoot_pairUp]
    · have hb : k.testBit 0 = false := by rw [Nat.testBit_zero]; simp; omega
      cases n with
      | zero => simp at hk; omega
      | succ m =>
        have hp : (2:Nat)^(m+1) = 2 * 2^m := by rw [Nat.pow_succ, Nat.mul_comm]
        obtain ⟨l, r, hl, hr, hsw⟩ := ih m (k/2) gL fO (pairsDown comb pre) hrl (by omega)
          (by rw [hp] at hk; omega) hrest hl2 (by omega) (by omega) (by omega)
        refine ⟨l+1, r, ?_, by simpa using hr, ?_⟩
        · simp only [lowestSetB, hb]
          simp only [ge_iff_le, Nat.le_zero_eq, Nat.add_one_ne_zero, if_false, Bool.false_eq_true]
          rw [lowestSetB_shift, hl]; rfl
        · rw [sweepB_shift _ _ _ _ _ _ _ _ _ (by omega), hsw]
          rw [← pairUp_even comb pre (by omega), levelRoot_pairUp]

/-! ### Main theorem -/

theorem fast_eq_level (comb : α → α → α) (zero : α) (leaves : List α)
    (h : leaves.length ≤ 2^31) :
    fast comb zero leaves = some (levelRoot comb zero leaves) := by
  cases leaves with
  | nil => simp [fast, levelRoot_nil]
  | cons x ls =>
    obtain ⟨inner, hp, hil, hinv⟩ := pushAll_inv comb (x :: ls) (List.replicate 32 zero) 0 []
      (by simp) (by omega) (InvR_zero comb _) rfl
    simp only [Nat.zero_add, List.nil_append] at hp hinv
    obtain ⟨l, r, hl, hr, hsw⟩ := final_spec comb zero 34 inner 31 (x :: ls).length 33 34 (x :: ls)
      hil (by simp) h hinv rfl (by omega) (by omega) (by omega)
    simp only [fast, List.isEmpty_cons, Bool.false_eq_true, if_false, hp, lowestSet_eq, hl, hr,
      sweep_eq, hsw]

/-! ### `root_commits` -/

theorem pairUp_inj (comb : α → α → α) (l₁ l₂ : List α) (hlen : l₁.length = l₂.length)
    (h : pairUp comb l₁ = pairUp comb l₂) :
    l₁ = l₂ ∨ (∃ a b c d, (a, b) ≠ (c, d) ∧ comb a b = comb c d) := by
  fun_induction pairUp comb l₁ generalizing l₂ with
  | case1 a b rest ih =>
    match l₂, hlen with
    | c :: d :: rest₂, hlen =>
      simp only [pairUp, List.cons.injEq] at h
      by_cases hp : (a, b) = (c, d)
      · have hl : rest.length = rest₂.length := by simpa using hlen
        rcases ih rest₂ hl h.2 with h' | h'
        · left
          simp only [Prod.mk.injEq] at hp
          rw [hp.1, hp.2, h']
        · right; exact h'
      · right; exact ⟨a, b, c, d, hp, h.1⟩
  | case2 a =>
    match l₂, hlen with
    | [c], _ =>
      simp only [pairUp, List.cons.injEq] at h
      left; rw [h.1]
  | case3 =>
    match l₂, hlen with
    | [], _ => left; rfl

theorem root_commits_aux (comb : α → α → α) (zero : α) :
    ∀ (n : Nat) (l₁ l₂ : List α), l₁.length = n → l₂.length = n →
      levelRoot comb zero l₁ = levelRoot comb zero l₂ →
      l₁ = l₂ ∨ (∃ a b c d, (a, b) ≠ (c, d) ∧ comb a b = comb c d) := by
  intro n
  induction n using Nat.strongRecOn with
  | ind n ih =>
    intro l₁ l₂ h₁ h₂ hroot
    match l₁, l₂, h₁, h₂ with
    | [], [], _, _ => left; rfl
    | [a], [c], _, _ =>
      simp only [levelRoot_single] at hroot
      left; rw [hroot]
    | a :: b :: r₁, c :: d :: r₂, h₁, h₂ =>
      rw [levelRoot_cons_cons, levelRoot_cons_cons] at hroot
      have hl : (a :: b :: r₁).length = (c :: d :: r₂).length := by rw [h₁, h₂]
      have hp₁ := pairUp_length comb (a :: b :: r₁)
      have hp₂ := pairUp_length comb (c :: d :: r₂)
      have hlt : (pairUp comb (a :: b :: r₁)).length < n := by
        rw [hp₁, h₁]; simp at h₁; omega
      have heq : (pairUp comb (c :: d :: r₂)).length = (pairUp comb (a :: b :: r₁)).length := by
        rw [hp₁, hp₂, hl]
      rcases ih _ hlt _ _ rfl heq hroot with h' | h'
      · exact pairUp_inj comb _ _ hl h'
      · right; exact h'

theorem root_commits (comb : α → α → α) (zero : α) (l₁ l₂ : List α)
    (hlen : l₁.length = l₂.length)
    (hroot : levelRoot comb zero l₁ = levelRoot comb zero l₂) :
    l₁ = l₂ ∨ (∃ a b c d, (a, b) ≠ (c, d) ∧ comb a b = comb c d) :=
  root_commits_aux comb zero l₁.length l₁ l₂ rfl hlen.symm hroot

end EV.Proofs.FastMerkle
