/- helper lemmas for C18 -/
import EV.Model.FastMerkle
namespace EV.Proofs.FastMerkle
open EV.FastMerkle

variable {α : Type}

theorem fast_eq_level (comb : α → α → α) (zero : α) (leaves : List α)
    (h : leaves.length ≤ 2^31) :
    fast comb zero leaves = some (levelRoot comb zero leaves) := by
  sorry

theorem root_commits (comb : α → α → α) (zero : α) (l₁ l₂ : List α)
    (hlen : l₁.length = l₂.length)
    (hroot : levelRoot comb zero l₁ = levelRoot comb zero l₂) :
    l₁ = l₂ ∨ (∃ a b c d, (a, b) ≠ (c, d) ∧ comb a b = comb c d) := by
  sorry

end EV.Proofs.FastMerkle
