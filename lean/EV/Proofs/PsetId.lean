/-
  EV.Proofs.PsetId — structure of `unique_id`: it is the txid of the *identifying transaction*
  `idTx` (extracted transaction, sequences zeroed, script sigs emptied, witnesses stripped), which
  is a function of a short list of fields (`IdEq`); every other field of global, inputs and
  outputs is ignored; equal ids force equal identifying transactions or exhibit a collision.
  The per-field text is generated from the table in tools/gen_pset_fields.py.
-/
import EV.Model.Pset
import EV.Proofs.CodecTx
import EV.Proofs.PsetLocktime
namespace EV
open Codec EV.Proofs.CodecTx

/-- the fields of `PsetInput` the unique id depends on -/
structure PsetInput.IdEq (x y : PsetInput) : Prop where
  previousTxid : x.previousTxid = y.previousTxid
  previousOutputIndex : x.previousOutputIndex = y.previousOutputIndex
  requiredTimeLocktime : x.requiredTimeLocktime = y.requiredTimeLocktime
  requiredHeightLocktime : x.requiredHeightLocktime = y.requiredHeightLocktime
  issuanceValueAmount : x.issuanceValueAmount = y.issuanceValueAmount
  issuanceValueComm : x.issuanceValueComm = y.issuanceValueComm
  issuanceInflationKeys : x.issuanceInflationKeys = y.issuanceInflationKeys
  issuanceInflationKeysComm : x.issuanceInflationKeysComm = y.issuanceInflationKeysComm
  issuanceBlindingNonce : x.issuanceBlindingNonce = y.issuanceBlindingNonce
  issuanceAssetEntropy : x.issuanceAssetEntropy = y.issuanceAssetEntropy

/-- the fields of `PsetOutput` the unique id depends on -/
structure PsetOutput.IdEq (x y : PsetOutput) : Prop where
  amount : x.amount = y.amount
  amountComm : x.amountComm = y.amountComm
  scriptPubkey : x.scriptPubkey = y.scriptPubkey
  asset : x.asset = y.asset
  assetComm : x.assetComm = y.assetComm
  ecdhPubkey : x.ecdhPubkey = y.ecdhPubkey

/-- setting or changing any other field of `PsetInput` leaves the identifying part unchanged -/
theorem PsetInput.idEq_ignores (x : PsetInput) :
    (∀ v, PsetInput.IdEq { x with nonWitnessUtxo := v } x) ∧
    (∀ v, PsetInput.IdEq { x with witnessUtxo := v } x) ∧
    (∀ v, PsetInput.IdEq { x with partialSigs := v } x) ∧
    (∀ v, PsetInput.IdEq { x with sighashType := v } x) ∧
    (∀ v, PsetInput.IdEq { x with redeemScript := v } x) ∧
    (∀ v, PsetInput.IdEq { x with witnessScript := v } x) ∧
    (∀ v, PsetInput.IdEq { x with bip32Derivation := v } x) ∧
    (∀ v, PsetInput.IdEq { x with finalScriptSig := v } x) ∧
    (∀ v, PsetInput.IdEq { x with finalScriptWitness := v } x) ∧
    (∀ v, PsetInput.IdEq { x with ripemd160Preimages := v } x) ∧
    (∀ v, PsetInput.IdEq { x with sha256Preimages := v } x) ∧
    (∀ v, PsetInput.IdEq { x with hash160Preimages := v } x) ∧
    (∀ v, PsetInput.IdEq { x with hash256Preimages := v } x) ∧
    (∀ v, PsetInput.IdEq { x with sequence := v } x) ∧
    (∀ v, PsetInput.IdEq { x with tapKeySig := v } x) ∧
    (∀ v, PsetInput.IdEq { x with tapScriptSigs := v } x) ∧
    (∀ v, PsetInput.IdEq { x with tapScripts := v } x) ∧
    (∀ v, PsetInput.IdEq { x with tapKeyOrigins := v } x) ∧
    (∀ v, PsetInput.IdEq { x with tapInternalKey := v } x) ∧
    (∀ v, PsetInput.IdEq { x with tapMerkleRoot := v } x) ∧
    (∀ v, PsetInput.IdEq { x with issuanceValueRangeproof := v } x) ∧
    (∀ v, PsetInput.IdEq { x with issuanceKeysRangeproof := v } x) ∧
    (∀ v, PsetInput.IdEq { x with peginTx := v } x) ∧
    (∀ v, PsetInput.IdEq { x with peginTxoutProof := v } x) ∧
    (∀ v, PsetInput.IdEq { x with peginGenesisHash := v } x) ∧
    (∀ v, PsetInput.IdEq { x with peginClaimScript := v } x) ∧
    (∀ v, PsetInput.IdEq { x with peginValue := v } x) ∧
    (∀ v, PsetInput.IdEq { x with peginWitness := v } x) ∧
    (∀ v, PsetInput.IdEq { x with inUtxoRangeproof := v } x) ∧
    (∀ v, PsetInput.IdEq { x with inIssuanceBlindValueProof := v } x) ∧
    (∀ v, PsetInput.IdEq { x with inIssuanceBlindInflationKeysProof := v } x) ∧
    (∀ v, PsetInput.IdEq { x with amount := v } x) ∧
    (∀ v, PsetInput.IdEq { x with blindValueProof := v } x) ∧
    (∀ v, PsetInput.IdEq { x with asset := v } x) ∧
    (∀ v, PsetInput.IdEq { x with blindAssetProof := v } x) ∧
    (∀ v, PsetInput.IdEq { x with blindedIssuance := v } x) ∧
    (∀ v, PsetInput.IdEq { x with proprietary := v } x) ∧
    (∀ v, PsetInput.IdEq { x with unknown := v } x) := by
  refine ⟨?_, ?_, ?_, ?_, ?_, ?_, ?_, ?_, ?_, ?_, ?_, ?_, ?_, ?_, ?_, ?_, ?_, ?_, ?_, ?_, ?_, ?_, ?_, ?_, ?_, ?_, ?_, ?_, ?_, ?_, ?_, ?_, ?_, ?_, ?_, ?_, ?_, ?_⟩ <;> intro v <;> constructor <;> rfl

/-- setting or changing any other field of `PsetOutput` leaves the identifying part unchanged -/
theorem PsetOutput.idEq_ignores (x : PsetOutput) :
    (∀ v, PsetOutput.IdEq { x with redeemScript := v } x) ∧
    (∀ v, PsetOutput.IdEq { x with witnessScript := v } x) ∧
    (∀ v, PsetOutput.IdEq { x with bip32Derivation := v } x) ∧
    (∀ v, PsetOutput.IdEq { x with tapInternalKey := v } x) ∧
    (∀ v, PsetOutput.IdEq { x with tapTree := v } x) ∧
    (∀ v, PsetOutput.IdEq { x with tapKeyOrigins := v } x) ∧
    (∀ v, PsetOutput.IdEq { x with valueRangeproof := v } x) ∧
    (∀ v, PsetOutput.IdEq { x with assetSurjectionProof := v } x) ∧
    (∀ v, PsetOutput.IdEq { x with blindingKey := v } x) ∧
    (∀ v, PsetOutput.IdEq { x with blinderIndex := v } x) ∧
    (∀ v, PsetOutput.IdEq { x with blindValueProof := v } x) ∧
    (∀ v, PsetOutput.IdEq { x with blindAssetProof := v } x) ∧
    (∀ v, PsetOutput.IdEq { x with proprietary := v } x) ∧
    (∀ v, PsetOutput.IdEq { x with unknown := v } x) := by
  refine ⟨?_, ?_, ?_, ?_, ?_, ?_, ?_, ?_, ?_, ?_, ?_, ?_, ?_, ?_⟩ <;> intro v <;> constructor <;> rfl

/-- global: transaction version, fallback lock time and the two counts (`sanity_check`) -/
structure PsetGlobal.IdEq (x y : PsetGlobal) : Prop where
  txVersion : x.txVersion = y.txVersion
  fallbackLocktime : x.fallbackLocktime = y.fallbackLocktime
  inputCount : x.inputCount = y.inputCount
  outputCount : x.outputCount = y.outputCount

/-- every other global field is ignored -/
theorem PsetGlobal.idEq_ignores (x : PsetGlobal) :
    (∀ v, PsetGlobal.IdEq { x with txModifiable := v } x) ∧
    (∀ v, PsetGlobal.IdEq { x with version := v } x) ∧
    (∀ v, PsetGlobal.IdEq { x with xpub := v } x) ∧
    (∀ v, PsetGlobal.IdEq { x with scalars := v } x) ∧
    (∀ v, PsetGlobal.IdEq { x with elementsTxModifiableFlag := v } x) ∧
    (∀ v, PsetGlobal.IdEq { x with proprietary := v } x) ∧
    (∀ v, PsetGlobal.IdEq { x with unknown := v } x) := by
  refine ⟨?_, ?_, ?_, ?_, ?_, ?_, ?_⟩ <;> intro v <;> constructor <;> rfl

/-- element-wise relation of two lists of equal length -/
def ListRel {α} (R : α → α → Prop) : List α → List α → Prop
  | [], [] => True
  | x :: xs, y :: ys => R x y ∧ ListRel R xs ys
  | _, _ => False

theorem ListRel.length_eq {α} {R : α → α → Prop} : ∀ {a b : List α}, ListRel R a b → a.length = b.length
  | [], [], _ => rfl
  | _ :: xs, _ :: ys, h => by simp only [List.length_cons, ListRel.length_eq (a := xs) (b := ys) h.2]
  | [], _ :: _, h => h.elim
  | _ :: _, [], h => h.elim

theorem ListRel.refl {α} {R : α → α → Prop} (hr : ∀ x, R x x) : ∀ l : List α, ListRel R l l
  | [] => trivial
  | x :: xs => ⟨hr x, ListRel.refl hr xs⟩

theorem ListRel.map_eq {α β} {R : α → α → Prop} {f : α → β} (hf : ∀ x y, R x y → f x = f y) :
    ∀ {a b : List α}, ListRel R a b → a.map f = b.map f
  | [], [], _ => rfl
  | x :: xs, y :: ys, h => by
    simp only [List.map_cons, hf x y h.1, ListRel.map_eq hf (a := xs) (b := ys) h.2]
  | [], _ :: _, h => h.elim
  | _ :: _, [], h => h.elim

/-- replacing the `j`-th element by a related one -/
theorem ListRel.set {α} {R : α → α → Prop} (hr : ∀ x, R x x) :
    ∀ (l : List α) (j : Nat) (x x' : α), l[j]? = some x → R x' x → ListRel R (l.set j x') l
  | [], _, _, _, h, _ => by simp at h
  | a :: as, 0, x, x', h, hx => by
    simp only [List.getElem?_cons_zero, Option.some.injEq] at h
    subst h
    exact ⟨hx, ListRel.refl hr as⟩
  | a :: as, j+1, x, x', h, hx => by
    simp only [List.getElem?_cons_succ] at h
    exact ⟨hr a, ListRel.set hr as j x x' h hx⟩

structure Pset.IdEq (a b : Pset) : Prop where
  global : PsetGlobal.IdEq a.global b.global
  inputs : ListRel PsetInput.IdEq a.inputs b.inputs
  outputs : ListRel PsetOutput.IdEq a.outputs b.outputs

theorem PsetInput.IdEq.refl (x : PsetInput) : PsetInput.IdEq x x := by constructor <;> rfl
theorem PsetOutput.IdEq.refl (x : PsetOutput) : PsetOutput.IdEq x x := by constructor <;> rfl
theorem PsetGlobal.IdEq.refl (x : PsetGlobal) : PsetGlobal.IdEq x x := by constructor <;> rfl
theorem Pset.IdEq.refl (p : Pset) : Pset.IdEq p p :=
  ⟨PsetGlobal.IdEq.refl _, ListRel.refl PsetInput.IdEq.refl _, ListRel.refl PsetOutput.IdEq.refl _⟩

namespace Proofs.PsetId
open EV.Proofs.PsetLocktime

/-- identifying part of an input as a `TxIn`: plain outpoint, pegin flag, issuance; no signature
    data, sequence 0, no witness -/
def idIn (x : PsetInput) : TxIn :=
  { previousOutput := ⟨x.previousTxid, x.plainIndex⟩, isPegin := x.isPegin, scriptSig := [], sequence := 0,
    assetIssuance := x.assetIssuance, witness := TxInWitness.empty }

theorem idIn_eq (x : PsetInput) : idIn x = stripIn (Pset.unsignedIn x.toTxIn) := rfl

theorem idIn_congr {x y : PsetInput} (h : PsetInput.IdEq x y) : idIn x = idIn y := by
  obtain ⟨h1, h2, _, _, h5, h6, h7, h8, h9, h10⟩ := h
  simp only [idIn, PsetInput.plainIndex, PsetInput.isPegin, PsetInput.assetIssuance, h1, h2, h5, h6, h7, h8, h9, h10]

/-- identifying part of an output (or the error `extract_tx` reports for it) -/
def idOut (o : PsetOutput) : Res TxOut :=
  match o.extract with
  | .ok t => .ok (stripOut t)
  | .err e => .err e
  | .panic s => .panic s

theorem idOut_congr {x y : PsetOutput} (h : PsetOutput.IdEq x y) : idOut x = idOut y := by
  obtain ⟨h1, h2, h3, h4, h5, h6⟩ := h
  simp only [idOut, PsetOutput.extract, h1, h2, h3, h4, h5, h6]
  cases y.assetComm <;> cases y.asset <;> cases y.amountComm <;> cases y.amount <;> rfl

def idOuts : List PsetOutput → Res (List TxOut)
  | [] => .ok []
  | o :: r =>
    match idOut o with
    | .ok t =>
      match idOuts r with
      | .ok ts => .ok (t :: ts)
      | .err e => .err e
      | .panic s => .panic s
    | .err e => .err e
    | .panic s => .panic s

theorem idOuts_eq (l : List PsetOutput) :
    idOuts l = match Pset.extractOutputs l with
      | .ok ts => .ok (ts.map stripOut)
      | .err e => .err e
      | .panic s => .panic s := by
  induction l with
  | nil => rfl
  | cons o r ih =>
    simp only [idOuts, Pset.extractOutputs, idOut, ih]
    cases o.extract <;> simp only
    cases Pset.extractOutputs r <;> simp only [List.map_cons]

theorem idOuts_congr : ∀ {a b : List PsetOutput}, ListRel PsetOutput.IdEq a b → idOuts a = idOuts b
  | [], [], _ => rfl
  | x :: xs, y :: ys, h => by
    simp only [idOuts, idOut_congr h.1, idOuts_congr (a := xs) (b := ys) h.2]
  | [], _ :: _, h => h.elim
  | _ :: _, [], h => h.elim

/-- the identifying transaction: what `unique_id` hashes, witness-stripped -/
def idTx (p : Pset) : Res Tx :=
  match p.sanityCheck with
  | .ok () =>
    match p.locktime with
    | .ok lt =>
      match idOuts p.outputs with
      | .ok outs => .ok { version := p.global.txVersion, lockTime := lt, input := p.inputs.map idIn, output := outs }
      | .err e => .err e
      | .panic s => .panic s
    | .err e => .err e
    | .panic s => .panic s
  | .err e => .err e
  | .panic s => .panic s

theorem idTx_eq (p : Pset) :
    idTx p = match p.extractTx with
      | .ok t => .ok (stripWit (Pset.unsignedTx t))
      | .err e => .err e
      | .panic s => .panic s := by
  simp only [idTx, Pset.extractTx, idOuts_eq]
  cases p.sanityCheck with
  | ok u =>
    cases u
    simp only
    cases p.locktime <;> simp only
    cases Pset.extractOutputs p.outputs <;> simp only
    simp only [stripWit, Pset.unsignedTx, List.map_map]
    congr 1
  | err e => rfl
  | panic s => rfl

/-- `unique_id` = txid of the identifying transaction -/
theorem uniqueId_eq (H : Hashes) (p : Pset) :
    p.uniqueId H = match idTx p with
      | .ok t => .ok (t.txid H)
      | .err e => .err e
      | .panic s => .panic s := by
  rw [idTx_eq]
  simp only [Pset.uniqueId]
  cases p.extractTx <;> simp only
  simp only [Tx.txid, encStripped_stripWit]

theorem lockReqs_congr {a b : Pset} (h : ListRel PsetInput.IdEq a.inputs b.inputs) : a.lockReqs = b.lockReqs :=
  ListRel.map_eq (fun x y hxy => by rw [hxy.requiredTimeLocktime, hxy.requiredHeightLocktime]) h

/-- the identifying transaction depends only on the identifying fields -/
theorem idTx_congr {a b : Pset} (h : Pset.IdEq a b) : idTx a = idTx b := by
  obtain ⟨⟨g1, g2, g3, g4⟩, hi, ho⟩ := h
  simp only [idTx, Pset.sanityCheck, Pset.nInputs, Pset.nOutputs, Pset.locktime, g1, g2, g3, g4,
    hi.length_eq, ho.length_eq, lockReqs_congr hi, idOuts_congr ho,
    ListRel.map_eq (fun x y hxy => idIn_congr hxy) hi]
  rfl

/-- **the unique id ignores every non-identifying field** -/
theorem uniqueId_congr (H : Hashes) {a b : Pset} (h : Pset.IdEq a b) : a.uniqueId H = b.uniqueId H := by
  rw [uniqueId_eq, uniqueId_eq, idTx_congr h]

theorem idOut_no_panic (o : PsetOutput) (s : String) : idOut o ≠ .panic s := by
  simp only [idOut, PsetOutput.extract]
  cases o.assetComm <;> cases o.asset <;> cases o.amountComm <;> cases o.amount <;> simp

theorem idOuts_no_panic (l : List PsetOutput) : ∀ s, idOuts l ≠ .panic s := by
  induction l with
  | nil => intro s; simp [idOuts]
  | cons o r ih =>
    intro s
    simp only [idOuts]
    cases h1 : idOut o with
    | ok t =>
      simp only
      cases h2 : idOuts r with
      | ok ts => simp
      | err e => simp
      | panic s' => exact absurd h2 (ih s')
    | err e => simp
    | panic s' => exact absurd h1 (idOut_no_panic o s')

theorem idTx_no_panic (p : Pset) (s : String) : idTx p ≠ .panic s := by
  simp only [idTx, Pset.sanityCheck, Pset.locktime]
  split
  · split
    · split
      · simp
      · simp
      · rename_i s' h; exact absurd h (idOuts_no_panic _ _)
    · simp
    · rename_i s' h; exact absurd h (locktimeOf_no_panic _ _ _)
  · simp
  · rename_i s' h
    split at h <;> try split at h
    all_goals simp at h

theorem uniqueId_no_panic (H : Hashes) (p : Pset) (s : String) : p.uniqueId H ≠ .panic s := by
  rw [uniqueId_eq]
  have := idTx_no_panic p
  cases h : idTx p with
  | ok t => simp
  | err e => simp
  | panic s' => exact absurd h (this s')

theorem ok_of_isOk {α} (r : Res α) (h : r.isOk = true) : ∃ t, r = .ok t := by
  cases r with
  | ok t => exact ⟨t, rfl⟩
  | err e => cases h
  | panic s => cases h

/-! ### what the id commits to -/

def Collision (f : Bytes → Bytes) : Prop := ∃ x y, x ≠ y ∧ f x = f y

/-- an input without issuance is serialized without its issuance record: normalise it -/
def canonIn (i : TxIn) : TxIn := if i.hasIssuance then i else { i with assetIssuance := AssetIssuance.null }
def canon (t : Tx) : Tx := { t with input := t.input.map canonIn }

theorem canonIn_enc (i : TxIn) : TxIn.enc (canonIn i) = TxIn.enc i := by
  unfold canonIn
  by_cases h : i.hasIssuance = true
  · simp only [h, if_true]
  · have h' : i.hasIssuance = false := by simpa using h
    have hn : TxIn.hasIssuance { i with assetIssuance := AssetIssuance.null } = false := rfl
    simp only [h', Bool.false_eq_true, if_false, TxIn.enc, TxIn.voutWord, hn]

theorem encVec_canonIn (l : List TxIn) : encVec TxIn.enc (l.map canonIn) = encVec TxIn.enc l := by
  simp only [encVec, List.length_map]
  congr 1
  induction l with
  | nil => rfl
  | cons i r ih => simp only [List.map_cons, List.flatMap_cons, canonIn_enc, ih]

theorem canon_encStripped (t : Tx) : (canon t).encStripped = t.encStripped := by
  simp only [Tx.encStripped, canon, encVec_canonIn]

/-- **equal unique ids ⇒ equal identifying transactions (up to the unserialized default issuance), or
    a collision of the hash** -/
theorem uniqueId_commits (P : Prims) (hs : SizesPos P) (H : Hashes) (a b : Pset) (ta tb : Tx)
    (ha : idTx a = .ok ta) (hb : idTx b = .ok tb) (wa : (canon ta).wf P) (wb : (canon tb).wf P)
    (h : a.uniqueId H = b.uniqueId H) :
    stripWit (canon ta) = stripWit (canon tb) ∨ Collision H.sha256d := by
  rw [uniqueId_eq, uniqueId_eq, ha, hb] at h
  simp only [Res.ok.injEq, Tx.txid] at h
  by_cases he : ta.encStripped = tb.encStripped
  · left
    apply encStripped_injective P hs _ _ wa wb
    rw [canon_encStripped, canon_encStripped, he]
  · exact Or.inr ⟨_, _, he, h⟩

end Proofs.PsetId
end EV
