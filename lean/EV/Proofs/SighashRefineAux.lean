/-
  Helper lemmas for `EV.Proofs.SighashRefine`: tables of the hash-type bit masks, the
  enumerate-map, byte-level facts used by the three refinement theorems.
-/
import EV.Proofs.SighashDefs
namespace EV.Sighash
open EV EV.Codec

/-! ### hash-type tables (ECDSA) -/

theorem ecdsa_acp_iff (ty : EcdsaTy) : (ty.asU32 &&& SIGHASH_ANYONECANPAY ≠ 0) ↔ ty.acp = true := by
  cases ty <;> decide

theorem ecdsa_single_iff (ty : EcdsaTy) : (ty.asU32 &&& 0x1f = SIGHASH_SINGLE) ↔ ty.base = .single := by
  cases ty <;> decide

theorem ecdsa_none_iff (ty : EcdsaTy) : (ty.asU32 &&& 0x1f = SIGHASH_NONE) ↔ ty.base = .none := by
  cases ty <;> decide

/-! ### enumerate-map -/

theorem mapEnumFrom_getElem? {α β} (f : Nat → α → β) (l : List α) :
    ∀ (n k : Nat), (mapEnumFrom f n l)[k]? = (l[k]?).map (f (n + k)) := by
  induction l with
  | nil => intro n k; simp [mapEnumFrom]
  | cons a as ih =>
    intro n k
    cases k with
    | zero => simp [mapEnumFrom]
    | succ k =>
      simp only [mapEnumFrom, List.getElem?_cons_succ, ih]
      have : n + 1 + k = n + (k + 1) := by omega
      rw [this]

theorem mapEnumFrom_eq_range {α β} (f : Nat → α → β) (l : List α) (d : α) :
    mapEnumFrom f 0 l = (List.range l.length).map (fun k => f k (l.getD k d)) := by
  apply List.ext_getElem?
  intro k
  rw [mapEnumFrom_getElem?, List.getElem?_map]
  by_cases hk : k < l.length
  · rw [List.getElem?_range hk, List.getElem?_eq_getElem hk]
    simp [List.getD_eq_getElem?_getD, List.getElem?_eq_getElem hk]
  · have h1 : l[k]? = none := by simp; omega
    have h2 : (List.range l.length)[k]? = none := by simp; omega
    rw [h1, h2]; rfl

theorem encVec_congr {α} (e : α → Bytes) (l₁ l₂ : List α) (h : l₁.map e = l₂.map e) :
    encVec e l₁ = encVec e l₂ := by
  have hl : l₁.length = l₂.length := by simpa using congrArg List.length h
  unfold encVec
  rw [List.flatMap_def, List.flatMap_def, h, hl]

/-! ### legacy: per-element encodings -/

theorem txin_enc_norm (po : OutPoint) (pg : Bool) (ss : Bytes) (sq : Nat) (ai : AssetIssuance) (w w' : TxInWitness) :
    TxIn.enc ⟨po, pg, ss, sq, ai, w⟩ =
    TxIn.enc ⟨po, pg, ss, sq, (if ai.isNull then none else some ai).getD AssetIssuance.null, w'⟩ := by
  have hn : AssetIssuance.null.isNull = true := by decide
  by_cases h : ai.isNull = true
  · simp [h, hn, TxIn.enc, TxIn.voutWord, TxIn.hasIssuance]
  · simp [h, TxIn.enc, TxIn.voutWord, TxIn.hasIssuance]

theorem legacy_input_enc (tx : Tx) (idx : Nat) (script : Bytes) (ty : EcdsaTy) (hacp : ty.acp = false) (k : Nat) :
    TxIn.enc (legacyIn idx script ty.base k (tx.input.getD k default)) =
    TxIn.enc (specLegacyInput tx idx script ty.asU32 k) := by
  unfold specLegacyInput legacyIn issuanceOf
  simp only [ecdsa_acp_iff, ecdsa_single_iff, ecdsa_none_iff, hacp, Bool.false_eq_true, if_false, ne_eq, ite_not]
  exact txin_enc_norm _ _ _ _ _ _ _

theorem legacy_input_enc_acp (tx : Tx) (idx : Nat) (script : Bytes) (ty : EcdsaTy) (hacp : ty.acp = true) (k : Nat)
    (me : TxIn) (hme : tx.input[idx]? = some me) :
    TxIn.enc ⟨me.previousOutput, me.isPegin, script, me.sequence, me.assetIssuance, TxInWitness.empty⟩ =
    TxIn.enc (specLegacyInput tx idx script ty.asU32 k) := by
  have hg : tx.input.getD idx default = me := by simp [List.getD_eq_getElem?_getD, hme]
  unfold specLegacyInput issuanceOf
  simp only [ecdsa_acp_iff, ecdsa_single_iff, ecdsa_none_iff, hacp, if_true, ne_eq, not_true_eq_false, false_and, if_false, hg]
  exact txin_enc_norm _ _ _ _ _ _ _

theorem legacy_output_enc_all (tx : Tx) (idx : Nat) (ty : EcdsaTy) (hb : ty.base = .all) (k : Nat) :
    TxOut.enc (tx.output.getD k default) = TxOut.enc (specLegacyOutput tx idx ty.asU32 k) := by
  unfold specLegacyOutput
  simp only [ecdsa_single_iff, hb, reduceCtorEq, false_and, if_false]
  rfl

theorem legacy_output_enc_single (tx : Tx) (idx : Nat) (ty : EcdsaTy) (hb : ty.base = .single) (k : Nat) :
    TxOut.enc (if k = idx then tx.output.getD k default else txOutDefault) = TxOut.enc (specLegacyOutput tx idx ty.asU32 k) := by
  unfold specLegacyOutput
  simp only [ecdsa_single_iff, hb, true_and, ne_eq, ite_not]
  split <;> rfl


theorem mapEnumFrom_id {α} (l : List α) : mapEnumFrom (fun _ a => a) 0 l = l := by
  apply List.ext_getElem?
  intro k
  rw [mapEnumFrom_getElem?]; simp

theorem list_eq_range_getD {α} (l : List α) (d : α) : l = (List.range l.length).map (fun k => l.getD k d) := by
  have := mapEnumFrom_eq_range (fun _ (a : α) => a) l d
  rw [mapEnumFrom_id] at this
  exact this

theorem legacy_ins_enc (tx : Tx) (idx : Nat) (script : Bytes) (ty : EcdsaTy) (me : TxIn) (hme : tx.input[idx]? = some me) :
    encVec TxIn.enc (if ty.acp = true then
        [⟨me.previousOutput, me.isPegin, script, me.sequence, me.assetIssuance, TxInWitness.empty⟩]
      else mapEnumFrom (legacyIn idx script ty.base) 0 tx.input) =
    encVec TxIn.enc ((List.range (if ty.asU32 &&& SIGHASH_ANYONECANPAY ≠ 0 then 1 else tx.input.length)).map
      (specLegacyInput tx idx script ty.asU32)) := by
  apply encVec_congr
  by_cases hacp : ty.acp = true
  · rw [if_pos hacp, if_pos ((ecdsa_acp_iff ty).2 hacp)]
    simp only [List.range_one, List.map_cons, List.map_nil]
    rw [legacy_input_enc_acp tx idx script ty hacp 0 me hme]
  · have hacp' : ty.acp = false := by simpa using hacp
    rw [if_neg hacp, if_neg (by rw [ecdsa_acp_iff]; exact hacp), mapEnumFrom_eq_range _ _ default,
      List.map_map, List.map_map]
    apply List.map_congr_left
    intro k _
    exact legacy_input_enc tx idx script ty hacp' k

theorem legacy_outs_enc (tx : Tx) (idx : Nat) (ty : EcdsaTy) (hs : ty.base = .single → idx < tx.output.length) :
    encVec TxOut.enc (legacyOuts tx idx ty.base) =
    encVec TxOut.enc ((List.range (if ty.asU32 &&& 0x1f = SIGHASH_NONE then 0
        else if ty.asU32 &&& 0x1f = SIGHASH_SINGLE then idx + 1 else tx.output.length)).map
      (specLegacyOutput tx idx ty.asU32)) := by
  apply encVec_congr
  simp only [ecdsa_none_iff, ecdsa_single_iff]
  cases hb : ty.base with
  | all =>
    simp only [legacyOuts, reduceCtorEq, if_false]
    conv => lhs; rw [list_eq_range_getD tx.output default]
    rw [List.map_map, List.map_map]
    apply List.map_congr_left
    intro k _
    exact legacy_output_enc_all tx idx ty hb k
  | single =>
    have hlt := hs hb
    simp only [legacyOuts, reduceCtorEq, if_false, if_true]
    rw [mapEnumFrom_eq_range _ _ default, List.map_map, List.map_map]
    have hlen : (tx.output.take (idx + 1)).length = idx + 1 := by rw [List.length_take]; omega
    rw [hlen]
    apply List.map_congr_left
    intro k hk
    have hk' : k < idx + 1 := by simpa using hk
    have : (tx.output.take (idx + 1)).getD k default = tx.output.getD k default := by
      simp [List.getD_eq_getElem?_getD, hk']
    simp only [Function.comp, this]
    exact legacy_output_enc_single tx idx ty hb k
  | none =>
    simp [legacyOuts]

/-! ### segwit -/

theorem issuanceOrZero_eq (i : TxIn) : issuanceOrZero i = encIssuanceOpt (issuanceOf i) := by
  unfold issuanceOrZero issuanceOf TxIn.hasIssuance
  cases h : i.assetIssuance.isNull <;> simp [encIssuanceOpt]

theorem seg_prevouts (H : SigHashes) (hd : Dbl H) (tx : Tx) :
    (segwitOf H (commonOf H tx)).prevouts = H.sha256d ((tx.input.map (fun i => i.previousOutput)).flatMap OutPoint.enc) := by
  rw [hd, List.flatMap_map]; rfl

theorem seg_sequences (H : SigHashes) (hd : Dbl H) (tx : Tx) :
    (segwitOf H (commonOf H tx)).sequences = H.sha256d ((tx.input.map (fun i => i.sequence)).flatMap (encLe 4)) := by
  rw [hd, List.flatMap_map]; rfl

theorem seg_issuances (H : SigHashes) (hd : Dbl H) (tx : Tx) :
    (segwitOf H (commonOf H tx)).issuances = H.sha256d ((tx.input.map issuanceOf).flatMap encIssuanceOpt) := by
  have hf : issuanceOrZero = fun a => encIssuanceOpt (issuanceOf a) := funext issuanceOrZero_eq
  rw [hd, List.flatMap_map, ← hf]; rfl

theorem seg_outputs (H : SigHashes) (hd : Dbl H) (tx : Tx) :
    (segwitOf H (commonOf H tx)).outputs = H.sha256d ((tx.output.map outBody).flatMap TxOut.enc) := by
  rw [hd, List.flatMap_map]; rfl

theorem seg_issuance (txin : TxIn) :
    (if txin.hasIssuance = true then txin.assetIssuance.enc else []) =
    (match issuanceOf txin with | some i => i.enc | none => []) := by
  unfold issuanceOf TxIn.hasIssuance
  cases h : txin.assetIssuance.isNull <;> simp


/-! ### hash-type tables (Schnorr) -/

theorem schnorr_valid (ty : SchnorrTy) (h : ty ≠ .reserved) :
    ty.byte ≤ 0x03 ∨ (0x81 ≤ ty.byte ∧ ty.byte ≤ 0x83) := by
  cases ty <;> first | exact absurd rfl h | decide

theorem schnorr_acp_iff (ty : SchnorrTy) (h : ty ≠ .reserved) :
    (ty.byte &&& SIGHASH_INPUT_MASK = SIGHASH_ANYONECANPAY) ↔ ty.acp = true := by
  cases ty <;> first | exact absurd rfl h | decide

theorem schnorr_single_iff (ty : SchnorrTy) (h : ty ≠ .reserved) :
    ((if ty.byte = 0 then SIGHASH_ALL else ty.byte &&& SIGHASH_OUTPUT_MASK) = SIGHASH_SINGLE) ↔ ty.isSingle = true := by
  cases ty <;> first | exact absurd rfl h | decide

theorem schnorr_none_iff (ty : SchnorrTy) (h : ty ≠ .reserved) :
    ((if ty.byte = 0 then SIGHASH_ALL else ty.byte &&& SIGHASH_OUTPUT_MASK) = SIGHASH_NONE) ↔ ty.isNone = true := by
  cases ty <;> first | exact absurd rfl h | decide

/-! ### taproot: byte-level facts -/

theorem outpointFlag_eq (i : TxIn) : outpointFlag i = flagByte (inFlag i) := by
  unfold outpointFlag flagByte inFlag TxIn.hasIssuance
  cases i.isPegin <;> cases i.assetIssuance.isNull <;> decide

theorem spendType_eq (annex : Option Bytes) (leaf : Option (Bytes × Nat)) :
    spendType annex leaf = UInt8.ofNat ((if leaf.isSome then 1 else 0) * 2 + (if annex.isSome then 1 else 0)) := by
  unfold spendType
  cases annex <;> cases leaf <;> simp only [Option.isSome] <;> decide

theorem leBytes_mod (k n : Nat) : leBytes k (n % 256 ^ k) = leBytes k n := by
  induction k generalizing n with
  | zero => rfl
  | succ k ih =>
    simp only [leBytes]
    have h1 : n % 256 ^ (k + 1) % 256 = n % 256 := by
      rw [Nat.pow_succ, Nat.mul_comm]; exact Nat.mod_mul_right_mod n 256 (256 ^ k)
    have h2 : n % 256 ^ (k + 1) / 256 = (n / 256) % 256 ^ k := by
      rw [Nat.pow_succ, Nat.mul_comm]; exact Nat.mod_mul_right_div_self n 256 (256 ^ k)
    rw [h1, h2, ih]

theorem encLe4_mod (n : Nat) : encLe 4 (n % 2 ^ 32) = encLe 4 n := by
  have : (2 : Nat) ^ 32 = 256 ^ 4 := by decide
  rw [this]; exact leBytes_mod 4 n

theorem issuanceProofs_eq (i : TxIn) : issuanceProofs i = encProofs (proofsOf i) := rfl

theorem tapThisInput_eq (H : SigHashes) (txin : TxIn) (prev : TxOut) :
    tapThisInput H txin prev = serTapThisInput H
      { flag := inFlag txin, outpoint := txin.previousOutput, asset := prev.asset, value := prev.value,
        script := prev.scriptPubkey, sequence := txin.sequence,
        issuance := (issuanceOf txin).map (fun i => (i, proofsOf txin)) } := by
  unfold tapThisInput serTapThisInput issuanceOf TxIn.hasIssuance
  rw [outpointFlag_eq]
  cases txin.assetIssuance.isNull <;> simp [issuanceProofs_eq]

theorem tapAllInputs_eq (H : SigHashes) (tx : Tx) (ps : List TxOut) (n : Nat) :
    tapAllInputs H tx ps = serTapInputsAll H
      { flags := tx.input.map inFlag, outpoints := tx.input.map (fun i => i.previousOutput),
        spentAssetAmounts := ps.map (fun p => (p.asset, p.value)),
        spentScripts := ps.map (fun p => p.scriptPubkey),
        sequences := tx.input.map (fun i => i.sequence), issuances := tx.input.map issuanceOf,
        issuanceProofs := tx.input.map proofsOf, index := n } := by
  have hf : issuanceOrZero = fun a => encIssuanceOpt (issuanceOf a) := funext issuanceOrZero_eq
  have hg : outpointFlag = fun a => flagByte (inFlag a) := funext outpointFlag_eq
  unfold tapAllInputs serTapInputsAll
  simp only [taprootOf, commonOf, preOutpointFlags, preOutpoints, preAssetAmounts, preScriptPubkeys,
    preSequences, preIssuances, preIssuanceRangeproofs, List.flatMap_map, List.map_map, hf, hg]
  rfl

/-! ### taproot: stages -/

/-- the two places where `serTaproot` writes data of the inputs -/
def insA (H : SigHashes) : TapInputs → Bytes
  | .all a => serTapInputsAll H a
  | .one _ => []
def insB (H : SigHashes) : TapInputs → Bytes
  | .all a => encLe 4 a.index
  | .one t => serTapThisInput H t
/-- the two places where `serTaproot` writes data of the outputs -/
def outA (H : SigHashes) : OutSel → Bytes
  | .all l => H.sha256 (l.flatMap TxOut.enc) ++ H.sha256 (l.flatMap (fun o => o.witness.enc))
  | _ => []
def outB (H : SigHashes) : OutSel → Bytes
  | .single o => H.sha256 o.enc ++ H.sha256 o.witness.enc
  | _ => []

theorem specTaprootView_eq (tx : Tx) (nIn : Nat) (pv : Prevouts) (annex : Option Bytes)
    (leaf : Option (Bytes × Nat)) (ht : Nat) (genesis : Bytes) (hv : ht ≤ 0x03 ∨ (0x81 ≤ ht ∧ ht ≤ 0x83)) :
    specTaprootView tx nIn pv annex leaf ht genesis =
    (specTapPrevoutsOk tx pv).bind fun _ =>
    (specTapInputs tx nIn pv ht).bind fun ins =>
    (specTapOutputs tx nIn ht).bind fun outs =>
    .ok { genesis := genesis, hashType := ht, version := tx.version, lockTime := tx.lockTime,
          inputs := ins, outputs := outs, annex := annex, leaf := leaf } := by
  unfold specTaprootView
  rw [if_neg (not_not_intro hv)]
  cases specTapPrevoutsOk tx pv <;> simp only [Res.bind]
  cases specTapInputs tx nIn pv ht <;> simp only []
  cases specTapOutputs tx nIn ht <;> simp only []

theorem specTapPrevoutsOk_eq (tx : Tx) (pv : Prevouts) : specTapPrevoutsOk tx pv = pv.checkAll tx := by
  cases pv with
  | one j p => rfl
  | all ps =>
    unfold specTapPrevoutsOk Prevouts.checkAll
    by_cases h : ps.length = tx.input.length <;> simp [h]

theorem tap_ins_bind {β} (H : SigHashes) (tx : Tx) (idx : Nat) (pv : Prevouts) (ty : SchnorrTy)
    (hty : ty ≠ .reserved) (k : Bytes → Bytes → Res β) :
    ((tapInsPart H tx pv ty).bind fun a => (tapThisPart H tx idx pv ty).bind fun b => k a b) =
    (specTapInputs tx idx pv ty.byte).bind fun ins => k (insA H ins) (insB H ins) := by
  unfold tapInsPart tapThisPart specTapInputs
  simp only [schnorr_acp_iff ty hty]
  by_cases hacp : ty.acp = true
  · simp only [hacp, if_true, Res.bind]
    cases tx.input[idx]? with
    | none => rfl
    | some txin =>
      simp only []
      cases pv.get idx with
      | ok prev => simp only [insA, insB, tapThisInput_eq]
      | err e => rfl
      | panic s => rfl
  · simp only [hacp, if_false, Bool.false_eq_true]
    cases pv with
    | one j p => rfl
    | all ps =>
      simp only [Prevouts.getAll, Res.bind, insA, insB, encLe4_mod, tapAllInputs_eq H tx ps (idx % 2 ^ 32)]

theorem tapSinglePart_eq (H : SigHashes) (tx : Tx) (idx : Nat) (ty : SchnorrTy) (hty : ty ≠ .reserved) :
    tapSinglePart H tx idx ty = (specTapOutputs tx idx ty.byte).map (outB H) := by
  unfold tapSinglePart specTapOutputs
  simp only [schnorr_single_iff ty hty, schnorr_none_iff ty hty]
  by_cases hs : ty.isSingle = true
  · simp only [hs, if_true]
    cases tx.output[idx]? <;> rfl
  · simp only [hs, if_false, Bool.false_eq_true]
    by_cases hn : ty.isNone = true
    · simp only [hn, if_true]; rfl
    · simp only [hn, if_false, Bool.false_eq_true]; rfl

theorem tapOutsPart_eq (H : SigHashes) (tx : Tx) (idx : Nat) (ty : SchnorrTy) (hty : ty ≠ .reserved)
    (outs : OutSel) (h : specTapOutputs tx idx ty.byte = .ok outs) :
    tapOutsPart H tx ty = outA H outs := by
  unfold specTapOutputs at h
  simp only [schnorr_single_iff ty hty, schnorr_none_iff ty hty] at h
  unfold tapOutsPart
  by_cases hs : ty.isSingle = true
  · simp only [hs, if_true] at h
    cases ho : tx.output[idx]? with
    | none => simp [ho] at h
    | some o =>
      simp only [ho, Res.ok.injEq] at h
      subst h
      simp [hs, outA]
  · simp only [hs, if_false, Bool.false_eq_true] at h
    by_cases hn : ty.isNone = true
    · simp only [hn, if_true, Res.ok.injEq] at h
      subst h
      simp [hn, outA]
    · simp only [hn, if_false, Bool.false_eq_true, Res.ok.injEq] at h
      subst h
      simp [hn, hs, outA, preOutputs, preOutputWitnesses]

theorem tap_assemble (H : SigHashes) (tx : Tx) (annex : Option Bytes) (leaf : Option (Bytes × Nat))
    (ty : SchnorrTy) (genesis : Bytes) (ins : TapInputs) (outs : OutSel) :
    tapHead tx ty genesis ++ insA H ins ++ outA H outs ++ [spendType annex leaf] ++ insB H ins ++
      tapAnnexPart H annex ++ outB H outs ++ tapLeafPart leaf =
    serTaproot H ⟨genesis, ty.byte, tx.version, tx.lockTime, ins, outs, annex, leaf⟩ := by
  have hk : UInt8.ofNat Gen.sighashKeyVersion0 = 0 := by decide
  unfold serTaproot tapHead
  rw [spendType_eq]
  cases ins <;> cases outs <;> cases annex <;> cases leaf <;>
    simp only [insA, insB, outA, outB, tapAnnexPart, tapLeafPart, hk]

end EV.Sighash
