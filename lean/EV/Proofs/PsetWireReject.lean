/-
  Rejection and preservation lemmas of the generic pair loop (EV.Model.PsetWire `insertAll`), for ANY
  field table:
    invalid_value_rejected   a pair whose value the codec of its field refuses makes the map fail;
    duplicate_key_rejected   two pairs with the same raw key (any field kind except `optLast`) make
                             the map fail, wherever they stand;
    untouched_slot           a slot no pair is routed to is left as it was (hence: a mandatory field
                             without a pair is still missing after the loop);
    stored                   every pair of an accepted map is stored under its key with its canonical
                             value (unknown and foreign proprietary pairs: verbatim).
-/
import EV.Proofs.PsetWireMap
namespace EV.Proofs.PsetWireReject
open EV EV.Codec EV.PsetWire EV.Proofs.PsetWireMap

/-! ### helpers -/

theorem lookup_append_some {V : Type} (k : Bytes) (v : V) : ∀ (s t : List (Bytes × V)), KV.lookup k s = some v →
    KV.lookup k (s ++ t) = some v := by
  intro s
  induction s with
  | nil => intro t h; cases h
  | cons p r ih =>
    intro t h
    obtain ⟨k1, v1⟩ := p
    simp only [List.cons_append, KV.lookup] at h ⊢
    split at h
    · rename_i e
      rw [if_pos e]; exact h
    · rename_i e
      rw [if_neg e]; exact ih t h

theorem lookup_append_none {V : Type} (k : Bytes) : ∀ (s t : List (Bytes × V)), KV.lookup k s = none →
    KV.lookup k (s ++ t) = KV.lookup k t := by
  intro s
  induction s with
  | nil => intro t _; rfl
  | cons p r ih =>
    intro t h
    obtain ⟨k1, v1⟩ := p
    simp only [List.cons_append, KV.lookup] at h ⊢
    split at h
    · cases h
    · rename_i e
      rw [if_neg e]; exact ih t h

theorem isSome_false_none {α} {o : Option α} (h : ¬ o.isSome = true) : o = none := by
  cases o with
  | none => rfl
  | some x => exact absurd rfl h

/-- whatever kind: an accepted pair has a value its codec accepts -/
theorem insert_ok_normVal (f : Field) (s s' : Slot) (k v : Bytes) (h : f.insert s k v = .ok s') :
    ∃ c, f.normVal k v = some c := by
  unfold Field.insert at h
  cases hk : f.kind with
  | opt =>
    rw [hk] at h
    simp only at h
    split at h
    · cases h
    · rename_i hk0
      have hk0 : k = [] := Classical.not_not.mp hk0
      subst hk0
      split at h
      · cases h
      · cases hn : f.normVal [] v with
        | none => rw [hn] at h; cases h
        | some c => exact ⟨c, rfl⟩
  | optLast =>
    rw [hk] at h
    simp only at h
    split at h
    · cases h
    · rename_i hk0
      have hk0 : k = [] := Classical.not_not.mp hk0
      subst hk0
      cases hn : f.normVal [] v with
      | none => rw [hn] at h; cases h
      | some c => exact ⟨c, rfl⟩
  | map =>
    rw [hk] at h
    simp only at h
    split at h
    · cases h
    · split at h
      · cases h
      · split at h
        · cases h
        · cases hn : f.normVal k v with
          | none => rw [hn] at h; cases h
          | some c => exact ⟨c, rfl⟩
  | keyList =>
    rw [hk] at h
    simp only at h
    split at h
    · cases h
    · split at h
      · cases h
      · cases hn : f.normVal k v with
        | none => rw [hn] at h; cases h
        | some c => exact ⟨c, rfl⟩

/-- every kind but `optLast`: an accepted pair had a fresh key, is stored under it with its canonical
    value, and no other key of the slot is disturbed -/
theorem insert_ok_spec (f : Field) (hnl : f.kind ≠ .optLast) (s s' : Slot) (k v : Bytes)
    (h : f.insert s k v = .ok s') :
    ∃ c, f.normVal k v = some c ∧ KV.lookup k s = none ∧ KV.lookup k s' = some c ∧
      ∀ k0, k0 ≠ k → KV.lookup k0 s' = KV.lookup k0 s := by
  unfold Field.insert at h
  cases hk : f.kind with
  | opt =>
    rw [hk] at h
    simp only at h
    split at h
    · cases h
    · rename_i hk0
      have hk0 : k = [] := Classical.not_not.mp hk0
      subst hk0
      split at h
      · cases h
      · rename_i hs0
        have hs0 : s = [] := Classical.not_not.mp hs0
        subst hs0
        cases hn : f.normVal [] v with
        | none => rw [hn] at h; cases h
        | some c =>
          rw [hn] at h
          simp only [Res.ok.injEq] at h
          subst h
          refine ⟨c, rfl, rfl, ?_, ?_⟩
          · simp only [KV.lookup, if_true]
          · intro k0 hne
            simp only [KV.lookup, if_neg hne]
  | optLast => exact absurd hk hnl
  | map =>
    rw [hk] at h
    simp only at h
    split at h
    · cases h
    · split at h
      · cases h
      · split at h
        · cases h
        · rename_i hlk
          have hlk := isSome_false_none hlk
          cases hn : f.normVal k v with
          | none => rw [hn] at h; cases h
          | some c =>
            rw [hn] at h
            simp only [Res.ok.injEq] at h
            subst h
            refine ⟨c, rfl, hlk, ?_, ?_⟩
            · rw [KV.lookup_insert, if_pos rfl]
            · intro k0 hne
              rw [KV.lookup_insert, if_neg hne]
  | keyList =>
    rw [hk] at h
    simp only at h
    split at h
    · cases h
    · split at h
      · cases h
      · rename_i hlk
        have hlk := isSome_false_none hlk
        cases hn : f.normVal k v with
        | none => rw [hn] at h; cases h
        | some c =>
          rw [hn] at h
          simp only [Res.ok.injEq] at h
          subst h
          refine ⟨c, rfl, hlk, ?_, ?_⟩
          · rw [lookup_append_none _ _ _ hlk]
            simp only [KV.lookup, if_true]
          · intro k0 hne
            cases h0 : KV.lookup k0 s with
            | some x => exact lookup_append_some _ _ _ _ h0
            | none =>
              rw [lookup_append_none _ _ _ h0]
              simp only [KV.lookup, if_neg hne]

/-- what an accepted `insertPair` did -/
theorem insertPair_ok {T : List Field} {st st' : List Slot} {p : Pair} (h : insertPair T st p = .ok st') :
    ∃ (i : Nat) (ik : Bytes) (f : Field) (s s' : Slot), classify T p.1 = .ok (i, ik) ∧ T[i]? = some f ∧
      st[i]? = some s ∧ f.insert s ik p.2 = .ok s' ∧ st' = st.set i s' := by
  unfold insertPair at h
  cases hc : classify T p.1 with
  | ok q =>
    obtain ⟨i, ik⟩ := q
    rw [hc] at h
    simp only at h
    cases hf : T[i]? with
    | none => rw [hf] at h; cases h
    | some f =>
      rw [hf] at h
      cases hs : st[i]? with
      | none => rw [hs] at h; cases h
      | some s =>
        rw [hs] at h
        simp only at h
        cases hi : f.insert s ik p.2 with
        | ok s' =>
          rw [hi] at h
          simp only [Res.ok.injEq] at h
          exact ⟨i, ik, f, s, s', rfl, hf, hs, hi, h.symm⟩
        | err e => rw [hi] at h; cases h
        | panic m => rw [hi] at h; cases h
  | err e => rw [hc] at h; cases h
  | panic m => rw [hc] at h; cases h

theorem insertAll_cons_ok {T : List Field} {st st' : List Slot} {p : Pair} {ps : List Pair}
    (h : insertAll T st (p :: ps) = .ok st') : ∃ st1, insertPair T st p = .ok st1 ∧ insertAll T st1 ps = .ok st' := by
  simp only [insertAll] at h
  cases h1 : insertPair T st p with
  | ok st1 => rw [h1] at h; exact ⟨st1, rfl, h⟩
  | err e => rw [h1] at h; cases h
  | panic m => rw [h1] at h; cases h

theorem insertAll_append_ok {T : List Field} : ∀ (a b : List Pair) (st st' : List Slot),
    insertAll T st (a ++ b) = .ok st' → ∃ st1, insertAll T st a = .ok st1 ∧ insertAll T st1 b = .ok st' := by
  intro a
  induction a with
  | nil => intro b st st' h; exact ⟨st, rfl, h⟩
  | cons p r ih =>
    intro b st st' h
    rw [List.cons_append] at h
    obtain ⟨st1, h1, h2⟩ := insertAll_cons_ok h
    obtain ⟨st2, h3, h4⟩ := ih b st1 st' h2
    refine ⟨st2, ?_, h4⟩
    simp only [insertAll, h1]
    exact h3

theorem getElem?_set_self' {α} {l : List α} {i : Nat} {a b : α} (h : l[i]? = some a) : (l.set i b)[i]? = some b := by
  have hlt : i < l.length := by
    rcases List.getElem?_eq_some_iff.mp h with ⟨h, _⟩; exact h
  rw [List.getElem?_set_self hlt]

/-- slot `i` holds the value `c` under the key `ik` -/
def Keeps (st : List Slot) (i : Nat) (ik c : Bytes) : Prop := ∃ s, st[i]? = some s ∧ KV.lookup ik s = some c

/-- an accepted pair routed to `(i, ik)` is stored there with its canonical value -/
theorem insertPair_keeps_new {T : List Field} {st st' : List Slot} {p : Pair} {i : Nat} {ik : Bytes} {f : Field}
    (hc : classify T p.1 = .ok (i, ik)) (hf : T[i]? = some f) (hk : f.kind ≠ .optLast)
    (h : insertPair T st p = .ok st') : ∃ c, f.normVal ik p.2 = some c ∧ Keeps st' i ik c := by
  obtain ⟨j, jk, g, s, s', hc', hg, hs, hi, rfl⟩ := insertPair_ok h
  rw [hc] at hc'
  simp only [Res.ok.injEq, Prod.mk.injEq] at hc'
  obtain ⟨rfl, rfl⟩ := hc'
  rw [hf] at hg
  simp only [Option.some.injEq] at hg
  subst hg
  obtain ⟨c, h1, _, h3, _⟩ := insert_ok_spec f hk s s' ik p.2 hi
  exact ⟨c, h1, s', getElem?_set_self' hs, h3⟩

/-- an entry of a slot that is not `optLast` survives every later accepted pair -/
theorem insertPair_keeps {T : List Field} {st st' : List Slot} {p : Pair} {i : Nat} {ik c : Bytes} {f : Field}
    (hf : T[i]? = some f) (hk : f.kind ≠ .optLast) (h : insertPair T st p = .ok st') (hK : Keeps st i ik c) :
    Keeps st' i ik c := by
  obtain ⟨j, jk, g, s, s', _, hg, hs, hi, rfl⟩ := insertPair_ok h
  obtain ⟨s0, hs0, hl0⟩ := hK
  by_cases e : j = i
  · subst e
    rw [hf] at hg
    simp only [Option.some.injEq] at hg
    subst hg
    rw [hs0] at hs
    simp only [Option.some.injEq] at hs
    subst hs
    obtain ⟨_, _, h2, _, h4⟩ := insert_ok_spec f hk s0 s' jk p.2 hi
    have hne : ik ≠ jk := by
      intro e
      subst e
      rw [hl0] at h2
      cases h2
    exact ⟨s', getElem?_set_self' hs0, by rw [h4 ik hne]; exact hl0⟩
  · exact ⟨s0, by rw [List.getElem?_set_ne e]; exact hs0, hl0⟩

theorem insertAll_keeps {T : List Field} {i : Nat} {ik c : Bytes} {f : Field} (hf : T[i]? = some f)
    (hk : f.kind ≠ .optLast) : ∀ (ps : List Pair) (st st' : List Slot), insertAll T st ps = .ok st' →
      Keeps st i ik c → Keeps st' i ik c := by
  intro ps
  induction ps with
  | nil =>
    intro st st' h hK
    simp only [insertAll, Res.ok.injEq] at h
    subst h
    exact hK
  | cons p r ih =>
    intro st st' h hK
    obtain ⟨st1, h1, h2⟩ := insertAll_cons_ok h
    exact ih st1 st' h2 (insertPair_keeps hf hk h1 hK)

/-! ### the four statements -/

theorem invalid_value_rejected (T : List Field) (pre post : List Pair) (rk : RawKey) (v : Bytes) (i : Nat) (ik : Bytes)
    (f : Field) (hc : classify T rk = .ok (i, ik)) (hf : T[i]? = some f) (hv : f.normVal ik v = none) :
    ∀ st st', insertAll T st (pre ++ (rk, v) :: post) ≠ .ok st' := by
  intro st st' h
  obtain ⟨st1, _, h2⟩ := insertAll_append_ok _ _ _ _ h
  obtain ⟨st2, h3, _⟩ := insertAll_cons_ok h2
  obtain ⟨j, jk, g, s, s', hc', hg, _, hi, _⟩ := insertPair_ok h3
  simp only at hc' hi
  rw [hc] at hc'
  simp only [Res.ok.injEq, Prod.mk.injEq] at hc'
  obtain ⟨rfl, rfl⟩ := hc'
  rw [hf] at hg
  simp only [Option.some.injEq] at hg
  subst hg
  obtain ⟨c, hn⟩ := insert_ok_normVal f s s' ik v hi
  rw [hv] at hn
  cases hn

theorem duplicate_key_rejected (T : List Field) (pre mid post : List Pair) (rk : RawKey) (v1 v2 : Bytes) (i : Nat)
    (ik : Bytes) (f : Field) (hc : classify T rk = .ok (i, ik)) (hf : T[i]? = some f) (hk : f.kind ≠ .optLast) :
    ∀ st st', insertAll T st (pre ++ (rk, v1) :: (mid ++ (rk, v2) :: post)) ≠ .ok st' := by
  intro st st' h
  obtain ⟨st1, _, h2⟩ := insertAll_append_ok _ _ _ _ h
  obtain ⟨st2, h3, h4⟩ := insertAll_cons_ok h2
  obtain ⟨st3, h5, h6⟩ := insertAll_append_ok _ _ _ _ h4
  obtain ⟨st4, h7, _⟩ := insertAll_cons_ok h6
  obtain ⟨c, _, hK2⟩ := insertPair_keeps_new (p := (rk, v1)) hc hf hk h3
  obtain ⟨s0, hs0, hl0⟩ := insertAll_keeps hf hk mid st2 st3 h5 hK2
  obtain ⟨j, jk, g, s, s', hc', hg, hs, hi, _⟩ := insertPair_ok h7
  simp only at hc' hi
  rw [hc] at hc'
  simp only [Res.ok.injEq, Prod.mk.injEq] at hc'
  obtain ⟨rfl, rfl⟩ := hc'
  rw [hf] at hg
  simp only [Option.some.injEq] at hg
  subst hg
  rw [hs0] at hs
  simp only [Option.some.injEq] at hs
  subst hs
  obtain ⟨_, _, hnone, _, _⟩ := insert_ok_spec f hk s0 s' ik v2 hi
  rw [hl0] at hnone
  cases hnone

theorem untouched_slot (T : List Field) (i : Nat) : ∀ (ps : List Pair) (st st' : List Slot),
    (∀ p ∈ ps, ∀ ik, classify T p.1 ≠ .ok (i, ik)) → insertAll T st ps = .ok st' → st'[i]? = st[i]? := by
  intro ps
  induction ps with
  | nil =>
    intro st st' _ h
    simp only [insertAll, Res.ok.injEq] at h
    subst h
    rfl
  | cons p r ih =>
    intro st st' hn h
    obtain ⟨st1, h1, h2⟩ := insertAll_cons_ok h
    rw [ih st1 st' (fun q hq => hn q (List.mem_cons_of_mem _ hq)) h2]
    obtain ⟨j, jk, g, s, s', hc, _, _, _, rfl⟩ := insertPair_ok h1
    have hne : j ≠ i := by
      intro e
      subst e
      exact hn p (List.mem_cons_self ..) jk hc
    rw [List.getElem?_set_ne hne]

theorem stored (T : List Field) : ∀ (ps : List Pair) (st st' : List Slot), insertAll T st ps = .ok st' →
    ∀ p ∈ ps, ∀ (i : Nat) (ik : Bytes) (f : Field), classify T p.1 = .ok (i, ik) → T[i]? = some f → f.kind ≠ .optLast →
      ∃ s, st'[i]? = some s ∧ KV.lookup ik s = f.normVal ik p.2 := by
  intro ps
  induction ps with
  | nil => intro st st' _ p hp; cases hp
  | cons p0 r ih =>
    intro st st' h p hp i ik f hc hf hk
    obtain ⟨st1, h1, h2⟩ := insertAll_cons_ok h
    rcases List.mem_cons.mp hp with e | hm
    · subst e
      obtain ⟨c, hn, hK⟩ := insertPair_keeps_new hc hf hk h1
      obtain ⟨s, hs, hl⟩ := insertAll_keeps hf hk r st1 st' h2 hK
      exact ⟨s, hs, by rw [hl, hn]⟩
    · exact ih st1 st' h2 p hm i ik f hc hf hk

end EV.Proofs.PsetWireReject
