/-
  EV.Proofs.PolymodFacts — the finite facts about the two codes (bech32: reference constants of the
  `bech32` crate; blech32: constants regenerated from /repo/src/blech32/mod.rs), each established by
  one kernel evaluation:
    * constants in range, low-5-bit map of the generators bijective (⇒ the step is injective);
    * `Table1`: no bare symbol at distance 1…1022 from a non-zero symbol;
    * `Table2`: one or two symbol errors never produce the residue difference
      `target(v0) ⊕ target(vm)` within 100 (bech32) / 140 (blech32) symbols.
-/
import EV.Proofs.Detect
namespace EV.Bech32
open Code

theorem bech32Code_good : bech32Code.Good := ⟨by decide, by decide⟩
theorem blech32Code_good : blech32.code.Good := ⟨by decide, by decide⟩
theorem bech32Code_lowBij : bech32Code.LowBij := by decide +kernel
theorem blech32Code_lowBij : blech32.code.LowBij := by decide +kernel

/-- blech32 and blech32m use the same generator table and checksum length -/
theorem blech32m_code_eq : blech32m.code = blech32.code := by decide

set_option maxRecDepth 100000 in
theorem bech32Code_table1 : bech32Code.Table1 := table1_of_ok _ (by decide +kernel)

set_option maxRecDepth 100000 in
theorem blech32Code_table1 : blech32.code.Table1 := table1_of_ok _ (by decide +kernel)

/-- bound (in symbols, hrp expansion included) up to which a bech32 ↔ bech32m switch is excluded -/
def bech32SwitchBound : Nat := 100
/-- same for blech32 ↔ blech32m -/
def blech32SwitchBound : Nat := 140

set_option maxRecDepth 100000 in
theorem bech32Code_table2 :
    bech32Code.Table2 (bech32.target ^^^ bech32m.target) (bech32SwitchBound - 1) :=
  table2_of_ok _ bech32Code_good bech32Code_lowBij _ _ 1023 (by decide +kernel)

set_option maxRecDepth 100000 in
theorem blech32Code_table2 :
    blech32.code.Table2 (blech32.target ^^^ blech32m.target) (blech32SwitchBound - 1) :=
  table2_of_ok _ blech32Code_good blech32Code_lowBij _ _ 1023 (by decide +kernel)

end EV.Bech32
