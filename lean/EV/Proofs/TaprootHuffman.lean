/-
  The Huffman construction of `TaprootSpendInfo::with_huffman_tree` (model: `huffmanLoop`,
  `heapPush` in EV.Model.Taproot) never places a heavier leaf deeper than a lighter one.

  Proof idea (no optimality argument needed, ties broken arbitrarily):
  the heap is a weight-sorted forest; invariant of the merge loop:
   (S) roots sorted by weight, (M) every child weight of every internal node ≤ every root weight,
   (P) any two distinct internal nodes p, q are compatible: for children x of p, y of q,
       W x < W y → W p < W q.
  On the final single tree, (P) gives by induction on depth: W x < W y → depth y ≤ depth x.
-/
import EV.Model.Taproot
import EV.Proofs.TaprootBuilder
namespace EV.Proofs.TaprootHuffman
open EV EV.Taproot EV.Proofs.TaprootBuilder

/-- weighted script tree (ghost structure of the proof) -/
inductive WT where
  | leaf (w : Nat) (script : Bytes)
  | node (l r : WT)

namespace WT
def weight : WT → Nat
  | leaf w _ => w
  | node l r => l.weight + r.weight
def toTree : WT → Tree
  | leaf _ s => .leaf s tapscriptVer
  | node l r => .node l.toTree r.toTree
/-- (weight, script) of the leaves, depth-first -/
def leaves : WT → List (Nat × Bytes)
  | leaf w s => [(w, s)]
  | node l r => l.leaves ++ r.leaves
/-- (weight, script, depth) of the leaves, depth-first -/
def leafDepths : WT → Nat → List (Nat × Bytes × Nat)
  | leaf w s, d => [(w, s, d)]
  | node l r, d => l.leafDepths (d + 1) ++ r.leafDepths (d + 1)
/-- child weights of every internal node -/
def internals : WT → List (Nat × Nat)
  | leaf _ _ => []
  | node l r => (l.weight, r.weight) :: (l.internals ++ r.internals)
/-- the subtrees rooted at depth `k` -/
def subAt : WT → Nat → List WT
  | t, 0 => [t]
  | leaf _ _, _ + 1 => []
  | node l r, k + 1 => l.subAt k ++ r.subAt k
end WT

/-- children (a, b) of p and (c, d) of q: a lighter child of p under a heavier child of q forces
    W p < W q -/
def Compat (p q : Nat × Nat) : Prop :=
  (p.1 < q.1 → p.1 + p.2 < q.1 + q.2) ∧ (p.1 < q.2 → p.1 + p.2 < q.1 + q.2) ∧
  (p.2 < q.1 → p.1 + p.2 < q.1 + q.2) ∧ (p.2 < q.2 → p.1 + p.2 < q.1 + q.2)
def R (p q : Nat × Nat) : Prop := Compat p q ∧ Compat q p

theorem R_symm {p q : Nat × Nat} (h : R p q) : R q p := ⟨h.2, h.1⟩

/-- the forest invariant -/
structure Inv (F : List WT) : Prop where
  sorted : F.Pairwise (fun a b => a.weight ≤ b.weight)
  childLe : ∀ p ∈ F.flatMap WT.internals, ∀ T ∈ F, p.1 ≤ T.weight ∧ p.2 ≤ T.weight
  compat : (F.flatMap WT.internals).Pairwise R

variable (H : TapHashes)

/-- heap entry of a ghost tree -/
def enc (T : WT) : Nat × NodeInfo := (T.weight, info H T.toTree)

/-- ghost `heapPush` -/
def fPush (x : WT) : List WT → List WT
  | [] => [x]
  | y :: ys => if popsBefore (enc H y) (enc H x) then y :: fPush x ys else x :: y :: ys

private theorem popsBefore_true {x y : Nat × NodeInfo} (h : popsBefore x y = true) : x.1 ≤ y.1 := by
  unfold popsBefore at h
  simp only [Bool.or_eq_true, Bool.and_eq_true, decide_eq_true_eq, beq_iff_eq] at h
  rcases h with h | ⟨h, _⟩ <;> omega
private theorem popsBefore_false {x y : Nat × NodeInfo} (h : popsBefore x y = false) : y.1 ≤ x.1 := by
  unfold popsBefore at h
  simp only [Bool.or_eq_false_iff, decide_eq_false_iff_not] at h
  omega

theorem heapPush_enc (x : WT) (F : List WT) : heapPush (enc H x) (F.map (enc H)) = (fPush H x F).map (enc H) := by
  induction F with
  | nil => rfl
  | cons y ys ih =>
    simp only [List.map_cons, heapPush, fPush]
    split
    · simp only [List.map_cons, ih]
    · simp only [List.map_cons]
theorem fPush_perm (x : WT) (F : List WT) : (fPush H x F).Perm (x :: F) := by
  induction F with
  | nil => exact List.Perm.refl _
  | cons y ys ih =>
    simp only [fPush]
    split
    · exact (List.Perm.cons y ih).trans (List.Perm.swap x y ys)
    · exact List.Perm.refl _
theorem fPush_sorted (x : WT) (F : List WT) (hs : F.Pairwise (fun a b => a.weight ≤ b.weight)) :
    (fPush H x F).Pairwise (fun a b => a.weight ≤ b.weight) := by
  induction F with
  | nil => exact List.pairwise_singleton _ _
  | cons y ys ih =>
    have hs' := List.pairwise_cons.1 hs
    simp only [fPush]
    split
    · rename_i hp
      have hyx : y.weight ≤ x.weight := popsBefore_true hp
      refine List.pairwise_cons.2 ⟨?_, ih hs'.2⟩
      intro a ha
      have ha' := (fPush_perm H x ys).mem_iff.1 ha
      rcases List.mem_cons.1 ha' with rfl | ha''
      · exact hyx
      · exact hs'.1 a ha''
    · rename_i hp
      have hp' : popsBefore (enc H y) (enc H x) = false := by
        cases hq : popsBefore (enc H y) (enc H x) with
        | true => exact absurd hq hp
        | false => rfl
      have hxy : x.weight ≤ y.weight := popsBefore_false hp'
      refine List.pairwise_cons.2 ⟨?_, hs⟩
      intro a ha
      rcases List.mem_cons.1 ha with rfl | ha''
      · exact hxy
      · exact Nat.le_trans hxy (hs'.1 a ha'')

/-- pushing a leaf keeps the invariant when the forest has no internal node yet -/
theorem inv_push_leaf (w : Nat) (s : Bytes) (F : List WT) (hF : Inv F) (hno : F.flatMap WT.internals = []) :
    Inv (fPush H (.leaf w s) F) ∧ (fPush H (.leaf w s) F).flatMap WT.internals = [] := by
  have hnil : (fPush H (.leaf w s) F).flatMap WT.internals = [] := by
    have hp : ((fPush H (.leaf w s) F).flatMap WT.internals).Perm
        ((WT.leaf w s :: F).flatMap WT.internals) :=
      (fPush_perm H (.leaf w s) F).flatMap_right _
    rw [List.flatMap_cons, hno] at hp
    simp only [WT.internals, List.append_nil] at hp
    exact List.perm_nil.1 hp
  refine ⟨⟨fPush_sorted H _ F hF.sorted, ?_, ?_⟩, hnil⟩
  · intro p hp
    rw [hnil] at hp
    cases hp
  · rw [hnil]
    exact List.Pairwise.nil

/-- one merge step keeps the invariant -/
theorem inv_merge (A B : WT) (rest : List WT) (h : Inv (A :: B :: rest)) : Inv (fPush H (.node A B) rest) := by
  have hI : (A :: B :: rest).flatMap WT.internals =
      A.internals ++ (B.internals ++ rest.flatMap WT.internals) := by
    simp only [List.flatMap_cons]
  have hperm : ((fPush H (.node A B) rest).flatMap WT.internals).Perm
      ((A.weight, B.weight) :: (A :: B :: rest).flatMap WT.internals) := by
    have hp : ((fPush H (.node A B) rest).flatMap WT.internals).Perm
        ((WT.node A B :: rest).flatMap WT.internals) :=
      (fPush_perm H (.node A B) rest).flatMap_right _
    rw [hI]
    simpa only [List.flatMap_cons, WT.internals, List.cons_append, List.append_assoc] using hp
  have hs1 := List.pairwise_cons.1 h.sorted
  have hs2 := List.pairwise_cons.1 hs1.2
  have hAB : A.weight ≤ B.weight := hs1.1 B (List.mem_cons_self)
  have hold : ∀ q ∈ (A :: B :: rest).flatMap WT.internals, q.1 ≤ A.weight ∧ q.2 ≤ A.weight :=
    fun q hq => h.childLe q hq A (List.mem_cons_self)
  refine ⟨fPush_sorted H _ rest hs2.2, ?_, ?_⟩
  · intro p hp T hT
    have hp' := List.mem_cons.1 (hperm.mem_iff.1 hp)
    have hT' := List.mem_cons.1 ((fPush_perm H (.node A B) rest).mem_iff.1 hT)
    rcases hp' with rfl | hp'
    · rcases hT' with rfl | hT'
      · simp only [WT.weight]; omega
      · exact ⟨hs1.1 T (List.mem_cons_of_mem _ hT'), hs2.1 T hT'⟩
    · rcases hT' with rfl | hT'
      · have := hold p hp'
        simp only [WT.weight]; omega
      · exact h.childLe p hp' T (List.mem_cons_of_mem _ (List.mem_cons_of_mem _ hT'))
  · refine (hperm.pairwise_iff (fun h => R_symm h)).2 (List.pairwise_cons.2 ⟨?_, h.compat⟩)
    intro q hq
    have := hold q hq
    unfold R Compat
    simp only
    omega

theorem subAt_weight_le (T : WT) : ∀ (k : Nat) (x : WT), x ∈ T.subAt k → x.weight ≤ T.weight := by
  induction T with
  | leaf w s =>
    intro k x hx
    cases k with
    | zero =>
      simp only [WT.subAt, List.mem_singleton] at hx
      subst hx; exact Nat.le_refl _
    | succ k => simp only [WT.subAt, List.not_mem_nil] at hx
  | node l r ihl ihr =>
    intro k x hx
    cases k with
    | zero =>
      simp only [WT.subAt, List.mem_singleton] at hx
      subst hx; exact Nat.le_refl _
    | succ k =>
      simp only [WT.subAt, List.mem_append] at hx
      simp only [WT.weight]
      rcases hx with hx | hx
      · have := ihl k x hx; omega
      · have := ihr k x hx; omega
theorem subAt_parent (T : WT) : ∀ (j : Nat) (x : WT), x ∈ T.subAt (j + 1) →
    ∃ l r, WT.node l r ∈ T.subAt j ∧ (x = l ∨ x = r) := by
  induction T with
  | leaf w s =>
    intro j x hx
    simp only [WT.subAt, List.not_mem_nil] at hx
  | node l r ihl ihr =>
    intro j x hx
    cases j with
    | zero =>
      simp only [WT.subAt, List.mem_append, List.mem_singleton] at hx
      exact ⟨l, r, by simp only [WT.subAt, List.mem_singleton], hx⟩
    | succ j =>
      rw [WT.subAt, List.mem_append] at hx
      rcases hx with hx | hx
      · obtain ⟨a, b, hab, hx'⟩ := ihl j x hx
        exact ⟨a, b, by rw [WT.subAt, List.mem_append]; exact Or.inl hab, hx'⟩
      · obtain ⟨a, b, hab, hx'⟩ := ihr j x hx
        exact ⟨a, b, by rw [WT.subAt, List.mem_append]; exact Or.inr hab, hx'⟩
theorem subAt_internal (T : WT) : ∀ (k : Nat) (c d : WT), WT.node c d ∈ T.subAt k →
    (c.weight, d.weight) ∈ T.internals := by
  induction T with
  | leaf w s =>
    intro k c d h
    cases k with
    | zero =>
      simp only [WT.subAt, List.mem_singleton] at h
      cases h
    | succ k => simp only [WT.subAt, List.not_mem_nil] at h
  | node l r ihl ihr =>
    intro k c d h
    cases k with
    | zero =>
      simp only [WT.subAt, List.mem_singleton] at h
      cases h
      simp only [WT.internals, List.mem_cons, true_or]
    | succ k =>
      rw [WT.subAt, List.mem_append] at h
      simp only [WT.internals]
      refine List.mem_cons_of_mem _ (List.mem_append.2 ?_)
      rcases h with h | h
      · exact Or.inl (ihl k c d h)
      · exact Or.inr (ihr k c d h)
/-- internal nodes on different levels are distinct, hence compatible -/
theorem subAt_compat (T : WT) : T.internals.Pairwise R → ∀ (j k : Nat) (a b c d : WT),
    WT.node a b ∈ T.subAt j → WT.node c d ∈ T.subAt k → j ≠ k →
    R (a.weight, b.weight) (c.weight, d.weight) := by
  induction T with
  | leaf w s =>
    intro _ j k a b c d ha
    cases j with
    | zero =>
      simp only [WT.subAt, List.mem_singleton] at ha
      cases ha
    | succ j => simp only [WT.subAt, List.not_mem_nil] at ha
  | node l r ihl ihr =>
    intro hP j k a b c d ha hc hjk
    simp only [WT.internals] at hP
    have hP1 := List.pairwise_cons.1 hP
    have hP2 := List.pairwise_append.1 hP1.2
    cases j with
    | zero =>
      cases k with
      | zero => exact absurd rfl hjk
      | succ k =>
        simp only [WT.subAt, List.mem_singleton] at ha
        cases ha
        rw [WT.subAt, List.mem_append] at hc
        refine hP1.1 _ (List.mem_append.2 ?_)
        rcases hc with hc | hc
        · exact Or.inl (subAt_internal l k c d hc)
        · exact Or.inr (subAt_internal r k c d hc)
    | succ j =>
      rw [WT.subAt, List.mem_append] at ha
      cases k with
      | zero =>
        simp only [WT.subAt, List.mem_singleton] at hc
        cases hc
        refine R_symm (hP1.1 _ (List.mem_append.2 ?_))
        rcases ha with ha | ha
        · exact Or.inl (subAt_internal l j a b ha)
        · exact Or.inr (subAt_internal r j a b ha)
      | succ k =>
        rw [WT.subAt, List.mem_append] at hc
        have hjk' : j ≠ k := fun e => hjk (by rw [e])
        rcases ha with ha | ha <;> rcases hc with hc | hc
        · exact ihl hP2.1 j k a b c d ha hc hjk'
        · exact hP2.2.2 _ (subAt_internal l j a b ha) _ (subAt_internal r k c d hc)
        · exact R_symm (hP2.2.2 _ (subAt_internal l k c d hc) _ (subAt_internal r j a b ha))
        · exact ihr hP2.2.1 j k a b c d ha hc hjk'

/-- in a tree whose internal nodes are pairwise compatible, a lighter subtree is never higher up -/
theorem lighter_not_higher (T : WT) (hP : T.internals.Pairwise R) : ∀ (dy dx : Nat) (x y : WT),
    x ∈ T.subAt dx → y ∈ T.subAt dy → x.weight < y.weight → dy ≤ dx := by
  intro dy
  induction dy with
  | zero => intro dx x y _ _ _; exact Nat.zero_le _
  | succ k ih =>
    intro dx x y hx hy hlt
    obtain ⟨c, d, hq, hyq⟩ := subAt_parent T k y hy
    cases dx with
    | zero =>
      simp only [WT.subAt, List.mem_singleton] at hx
      subst hx
      have := subAt_weight_le x (k + 1) y hy
      omega
    | succ j =>
      obtain ⟨a, b, hp, hxp⟩ := subAt_parent T j x hx
      by_cases hjk : j = k
      · omega
      · have hR := (subAt_compat T hP j k a b c d hp hq hjk).1
        unfold Compat at hR
        simp only at hR
        have hlt' : (WT.node a b).weight < (WT.node c d).weight := by
          simp only [WT.weight]
          rcases hxp with rfl | rfl <;> rcases hyq with rfl | rfl
          · exact hR.1 hlt
          · exact hR.2.1 hlt
          · exact hR.2.2.1 hlt
          · exact hR.2.2.2 hlt
        have := ih j (WT.node a b) (WT.node c d) hp hq hlt'
        omega

theorem leafDepths_subAt (T : WT) : ∀ (d0 : Nat) (e : Nat × Bytes × Nat), e ∈ T.leafDepths d0 →
    d0 ≤ e.2.2 ∧ WT.leaf e.1 e.2.1 ∈ T.subAt (e.2.2 - d0) := by
  induction T with
  | leaf w s =>
    intro d0 e he
    simp only [WT.leafDepths, List.mem_singleton] at he
    subst he
    simp only [Nat.le_refl, Nat.sub_self, WT.subAt, List.mem_singleton, and_self]
  | node l r ihl ihr =>
    intro d0 e he
    simp only [WT.leafDepths, List.mem_append] at he
    have key : ∀ (t : WT), (d0 + 1 ≤ e.2.2 ∧ WT.leaf e.1 e.2.1 ∈ t.subAt (e.2.2 - (d0 + 1))) →
        d0 + 1 ≤ e.2.2 ∧ WT.leaf e.1 e.2.1 ∈ t.subAt (e.2.2 - d0 - 1) := by
      intro t ht
      have : e.2.2 - d0 - 1 = e.2.2 - (d0 + 1) := by omega
      rw [this]; exact ht
    have hsplit : ∀ (n : Nat), d0 + 1 ≤ n → n - d0 = (n - d0 - 1) + 1 := by
      intro n hn; omega
    rcases he with he | he
    · have h1 := key l (ihl (d0 + 1) e he)
      refine ⟨by omega, ?_⟩
      rw [hsplit _ h1.1, WT.subAt, List.mem_append]
      exact Or.inl h1.2
    · have h1 := key r (ihr (d0 + 1) e he)
      refine ⟨by omega, ?_⟩
      rw [hsplit _ h1.1, WT.subAt, List.mem_append]
      exact Or.inr h1.2

/-- heavier-not-deeper on the ghost tree -/
theorem good_of_inv (T : WT) (h : Inv [T]) :
    ∀ a ∈ T.leafDepths 0, ∀ b ∈ T.leafDepths 0, a.1 < b.1 → b.2.2 ≤ a.2.2 := by
  have hP : T.internals.Pairwise R := by
    have := h.compat
    simpa only [List.flatMap_cons, List.flatMap_nil, List.append_nil] using this
  intro a ha b hb hlt
  have h1 := (leafDepths_subAt T 0 a ha).2
  have h2 := (leafDepths_subAt T 0 b hb).2
  rw [Nat.sub_zero] at h1 h2
  exact lighter_not_higher T hP b.2.2 a.2.2 _ _ h1 h2 (by simpa only [WT.weight] using hlt)

/-- total weight of a forest -/
def total (F : List WT) : Nat := (F.map WT.weight).sum

private theorem total_perm {F G : List WT} (h : F.Perm G) : total F = total G :=
  (h.map WT.weight).sum_nat

private theorem satAdd_lt {a b : Nat} (h : a + b < 2 ^ 64) : satAdd a b = a + b := by
  unfold satAdd
  split
  · omega
  · rfl

private theorem total_cons2 (A B : WT) (rest : List WT) :
    total (A :: B :: rest) = A.weight + B.weight + total rest := by
  simp only [total, List.map_cons, List.sum_cons]
  omega

/-- one successful iteration of the loop, on the ghost level -/
private theorem loop_step_ok (fuel : Nat) (A B : WT) (rest : List WT) (ht : total (A :: B :: rest) < 2 ^ 64)
    (n' : NodeInfo) (hc : combine H (info H A.toTree) (info H B.toTree) = .ok n') :
    huffmanLoop H (fuel + 1) ((A :: B :: rest).map (enc H)) =
      huffmanLoop H fuel ((fPush H (.node A B) rest).map (enc H)) := by
  have hn := combine_ok_info H A.toTree B.toTree n' hc
  have hsat : satAdd A.weight B.weight = A.weight + B.weight :=
    satAdd_lt (by rw [total_cons2] at ht; omega)
  rw [← heapPush_enc]
  simp only [List.map_cons, enc, huffmanLoop, hc, hsat, hn, WT.weight, WT.toTree]

/-- the merge loop on an encoded forest: if it returns a node, the node is `info` of a ghost tree
    with the forest's leaves that satisfies the invariant -/
theorem loop_inv : ∀ (fuel : Nat) (F : List WT), Inv F → total F < 2 ^ 64 →
    ∀ n, huffmanLoop H fuel (F.map (enc H)) = .ok n →
    ∃ T : WT, n = info H T.toTree ∧ T.leaves.Perm (F.flatMap WT.leaves) ∧ Inv [T] := by
  intro fuel
  induction fuel with
  | zero =>
    intro F hI ht n hn
    match F, hI, ht, hn with
    | [], _, _, hn => simp only [List.map_nil, huffmanLoop] at hn; cases hn
    | [T], hI, _, hn =>
      simp only [List.map_cons, List.map_nil, enc, huffmanLoop, Res.ok.injEq] at hn
      exact ⟨T, hn.symm, by simp only [List.flatMap_cons, List.flatMap_nil, List.append_nil]; exact List.Perm.refl _, hI⟩
    | A :: B :: rest, _, _, hn =>
      simp only [List.map_cons, enc, huffmanLoop] at hn
      cases hn
  | succ fuel ih =>
    intro F hI ht n hn
    match F, hI, ht, hn with
    | [], _, _, hn => simp only [List.map_nil, huffmanLoop] at hn; cases hn
    | [T], hI, _, hn =>
      simp only [List.map_cons, List.map_nil, enc, huffmanLoop, Res.ok.injEq] at hn
      exact ⟨T, hn.symm, by simp only [List.flatMap_cons, List.flatMap_nil, List.append_nil]; exact List.Perm.refl _, hI⟩
    | A :: B :: rest, hI, ht, hn =>
      cases hc : combine H (info H A.toTree) (info H B.toTree) with
      | ok n' =>
        rw [loop_step_ok H fuel A B rest ht n' hc] at hn
        have hperm := fPush_perm H (.node A B) rest
        have ht' : total (fPush H (.node A B) rest) < 2 ^ 64 := by
          rw [total_perm hperm]
          rw [total_cons2] at ht
          simp only [total, List.map_cons, List.sum_cons, WT.weight] at ht ⊢
          omega
        obtain ⟨T, hT, hl, hIT⟩ := ih _ (inv_merge H A B rest hI) ht' n hn
        refine ⟨T, hT, hl.trans ?_, hIT⟩
        have := hperm.flatMap_right WT.leaves
        simpa only [List.flatMap_cons, WT.leaves, List.append_assoc] using this
      | err e =>
        simp only [List.map_cons, enc, huffmanLoop, hc] at hn
        cases hn
      | panic s =>
        simp only [List.map_cons, enc, huffmanLoop, hc] at hn
        cases hn

/-- with enough fuel and a non-empty forest the loop does not panic; it can only fail with the
    depth error of `combine` -/
theorem loop_total : ∀ (fuel : Nat) (F : List WT), F ≠ [] → F.length ≤ fuel + 1 → total F < 2 ^ 64 →
    (∃ n, huffmanLoop H fuel (F.map (enc H)) = .ok n) ∨
    huffmanLoop H fuel (F.map (enc H)) = .err "InvalidMerkleTreeDepth" := by
  intro fuel
  induction fuel with
  | zero =>
    intro F hne hlen ht
    match F, hne, hlen with
    | [], hne, _ => exact absurd rfl hne
    | [T], _, _ =>
      exact Or.inl ⟨info H T.toTree, by simp only [List.map_cons, List.map_nil, enc, huffmanLoop]⟩
    | A :: B :: rest, _, hlen =>
      simp only [List.length_cons] at hlen
      omega
  | succ fuel ih =>
    intro F hne hlen ht
    match F, hne, hlen, ht with
    | [], hne, _, _ => exact absurd rfl hne
    | [T], _, _, _ =>
      exact Or.inl ⟨info H T.toTree, by simp only [List.map_cons, List.map_nil, enc, huffmanLoop]⟩
    | A :: B :: rest, _, hlen, ht =>
      cases hc : combine H (info H A.toTree) (info H B.toTree) with
      | ok n' =>
        rw [loop_step_ok H fuel A B rest ht n' hc]
        have hperm := fPush_perm H (.node A B) rest
        have ht' : total (fPush H (.node A B) rest) < 2 ^ 64 := by
          rw [total_perm hperm]
          rw [total_cons2] at ht
          simp only [total, List.map_cons, List.sum_cons, WT.weight] at ht ⊢
          omega
        have hlen' : (fPush H (.node A B) rest).length ≤ fuel + 1 := by
          rw [hperm.length_eq]
          simp only [List.length_cons] at hlen ⊢
          omega
        have hne' : fPush H (.node A B) rest ≠ [] := by
          intro e
          have := hperm.length_eq
          rw [e] at this
          simp only [List.length_nil, List.length_cons] at this
          omega
        exact ih _ hne' hlen' ht'
      | err e =>
        right
        have := combine_err H _ _ e hc
        subst this
        simp only [List.map_cons, enc, huffmanLoop, hc]
      | panic s => exact absurd hc (combine_no_panic H _ _ s)

private theorem heap_init_aux (ws : List (Nat × Bytes)) : ∀ (F0 : List WT), Inv F0 →
    F0.flatMap WT.internals = [] →
    ∃ F : List WT,
      ws.foldl (fun h (x : Nat × Bytes) => heapPush (x.1, newLeaf H x.2 tapscriptVer) h) (F0.map (enc H)) =
        F.map (enc H) ∧ Inv F ∧ F.flatMap WT.internals = [] ∧
      (F.flatMap WT.leaves).Perm (F0.flatMap WT.leaves ++ ws) ∧ F.length = F0.length + ws.length ∧
      total F = total F0 + (ws.map (·.1)).sum := by
  induction ws with
  | nil =>
    intro F0 hI hno
    refine ⟨F0, rfl, hI, hno, ?_, rfl, ?_⟩
    · rw [List.append_nil]
    · simp only [List.map_nil, List.sum_nil, Nat.add_zero]
  | cons x ws ih =>
    intro F0 hI hno
    obtain ⟨w, s⟩ := x
    have hpush := inv_push_leaf H w s F0 hI hno
    have hperm := fPush_perm H (.leaf w s) F0
    obtain ⟨F, h1, h2, h3, h4, h5, h6⟩ := ih (fPush H (.leaf w s) F0) hpush.1 hpush.2
    refine ⟨F, ?_, h2, h3, ?_, ?_, ?_⟩
    · rw [List.foldl_cons, ← h1, ← heapPush_enc]
      rfl
    · refine h4.trans ?_
      have h7 := (hperm.flatMap_right WT.leaves).append_right ws
      refine h7.trans ?_
      simp only [List.flatMap_cons, WT.leaves, List.cons_append, List.nil_append]
      exact List.perm_middle.symm
    · rw [h5, hperm.length_eq]
      simp only [List.length_cons]
      omega
    · rw [h6, total_perm hperm]
      simp only [total, List.map_cons, List.sum_cons, WT.weight]
      omega

/-- the initial heap -/
theorem heap_init (ws : List (Nat × Bytes)) :
    ∃ F : List WT, huffmanHeap H ws = F.map (enc H) ∧ Inv F ∧ F.flatMap WT.internals = [] ∧
      (F.flatMap WT.leaves).Perm ws ∧ F.length = ws.length ∧ total F = (ws.map (·.1)).sum := by
  obtain ⟨F, h1, h2, h3, h4, h5, h6⟩ := heap_init_aux H ws []
    ⟨List.Pairwise.nil, fun p hp => absurd hp List.not_mem_nil, List.Pairwise.nil⟩ rfl
  refine ⟨F, h1, h2, h3, ?_, ?_, ?_⟩
  · simpa only [List.flatMap_nil, List.nil_append] using h4
  · simpa only [List.length_nil, Nat.zero_add] using h5
  · simpa only [total, List.map_nil, List.sum_nil, Nat.zero_add] using h6

private theorem info_leaf_depths_aux (T : WT) : ∀ d : Nat,
    (info H T.toTree).leaves.map (fun l => (l.script, l.branch.length + d)) =
      (T.leafDepths d).map (fun x => (x.2.1, x.2.2)) := by
  induction T with
  | leaf w s =>
    intro d
    simp only [WT.toTree, info, newLeaf, WT.leafDepths, List.map_cons, List.map_nil, List.length_nil,
      Nat.zero_add]
  | node l r ihl ihr =>
    intro d
    simp only [WT.toTree, info, WT.leafDepths, List.map_append, List.map_map]
    rw [← ihl (d + 1), ← ihr (d + 1)]
    congr 1
    · apply List.map_congr_left
      intro x _
      simp only [Function.comp, List.length_append, List.length_cons, List.length_nil]
      rw [Nat.zero_add, Nat.add_assoc, Nat.add_comm 1 d]
    · apply List.map_congr_left
      intro x _
      simp only [Function.comp, List.length_append, List.length_cons, List.length_nil]
      rw [Nat.zero_add, Nat.add_assoc, Nat.add_comm 1 d]

/-- depth of a leaf in the ghost tree = length of its merkle branch in the node -/
theorem info_leaf_depths (T : WT) :
    (info H T.toTree).leaves.map (fun l => (l.script, l.branch.length)) =
      (T.leafDepths 0).map (fun x => (x.2.1, x.2.2)) := by
  have := info_leaf_depths_aux H T 0
  simpa only [Nat.add_zero] using this

/-- FULL STATEMENT: the node returned by the Huffman construction is the node of a weighted tree over
    exactly the given (weight, script) leaves in which no heavier leaf is deeper than a lighter one
    (depth = merkle branch length, see `info_leaf_depths`).  No saturation: Σ weights < 2^64, which
    holds for fewer than 2^32 `u32` weights. -/
theorem huffman_heavier_not_deeper (ws : List (Nat × Bytes)) (n : NodeInfo)
    (hsum : (ws.map (·.1)).sum < 2 ^ 64) (h : huffmanNode H ws = .ok n) :
    ∃ T : WT, n = info H T.toTree ∧ T.leaves.Perm ws ∧
      ∀ a ∈ T.leafDepths 0, ∀ b ∈ T.leafDepths 0, a.1 < b.1 → b.2.2 ≤ a.2.2 := by
  obtain ⟨F, h1, h2, _, h4, _, h6⟩ := heap_init H ws
  unfold huffmanNode at h
  split at h
  · cases h
  · rw [h1] at h
    obtain ⟨T, hT, hl, hIT⟩ := loop_inv H ws.length F h2 (by rw [h6]; exact hsum) n h
    exact ⟨T, hT, hl.trans h4, good_of_inv T hIT⟩

/-- the construction terminates: for a non-empty input it returns a node or the depth error, never a panic -/
theorem huffman_total (ws : List (Nat × Bytes)) (hne : ws ≠ []) (hsum : (ws.map (·.1)).sum < 2 ^ 64) :
    (∃ n, huffmanNode H ws = .ok n) ∨ huffmanNode H ws = .err "InvalidMerkleTreeDepth" := by
  obtain ⟨F, h1, _, _, _, h5, h6⟩ := heap_init H ws
  have hemp : ws.isEmpty = false := by
    cases ws with
    | nil => exact absurd rfl hne
    | cons _ _ => rfl
  have hF : F ≠ [] := by
    intro e
    rw [e] at h5
    cases ws with
    | nil => exact absurd rfl hne
    | cons _ _ => simp only [List.length_nil, List.length_cons] at h5; omega
  have := loop_total H ws.length F hF (by omega) (by rw [h6]; exact hsum)
  unfold huffmanNode
  simp only [hemp, Bool.false_eq_true, if_false]
  rw [h1]
  exact this
theorem huffman_empty : huffmanNode H [] = .err "IncompleteTree" := by
  rfl

end EV.Proofs.TaprootHuffman
