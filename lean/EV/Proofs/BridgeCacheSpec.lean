/-
  Bridge C13 × C03.  C13 proves "a used `SighashCache` answers like a fresh one" (`query_sound`,
  `run_eq_runFresh`); C03 proves "the as-coded functions equal the independent transcription of the
  specifications" (`legacy_digest_refines`, `segwit_refines`, `taproot_refines`).  Composed: every
  digest a cache returns — in any state a consistent history of queries and `witness_mut` updates can
  reach — is the SPECIFICATION digest of that query over the original transaction.
-/
import EV.Proofs.SighashCacheProofs
import EV.Proofs.SighashRefine
namespace EV.Sighash
open EV EV.Codec

/-- the digest the SPECIFICATIONS assign to a query (C03, Part 2 of `EV.Model.Sighash`): Elements Core's
    `SignatureHash(SigVersion::BASE)`, double SHA-256 of the BIP143 (+ issuance) message, tagged hash of
    the Elements taproot message; the hash type enters as the number the wire carries -/
def specDigest (H : SigHashes) (tx : Tx) : Query → Res Bytes
  | .legacy idx script ty => specLegacySighash H tx idx script ty.asU32
  | .segwit idx sc v ty => (specSegwit H tx idx sc v ty.asU32).map H.sha256d
  | .taproot idx pv annex leaf ty g =>
    (specTaproot H tx idx pv annex leaf ty.byte g).map (H.tagged Gen.tapSighashTag)

/-- queries on which the specifications define an outcome other than an assertion failure: the signed
    input exists (legacy, segwit v0 — outside, code and Core both abort), the taproot hash type is one of
    the seven `SchnorrSighashType::from_u8` produces.  `n` is the number of inputs (unchanged by
    `witness_mut`). -/
def Query.Covered (n : Nat) : Query → Prop
  | .legacy idx _ _ => idx < n
  | .segwit idx _ _ _ => idx < n
  | .taproot _ _ _ _ ty _ => ty ≠ .reserved

def Op.Covered (n : Nat) : Op → Prop
  | .q qq => qq.Covered n
  | .w _ _ => True

/-- what the specification says an operation returns, over the ORIGINAL transaction -/
def specOut (H : SigHashes) (tx : Tx) : Op → Out
  | .q qq => .digest (specDigest H tx qq)
  | .w idx _ => .wit (decide (idx < tx.input.length))

variable (H : SigHashes)

/-- C03 in one line: the cache-free functions are the specification digests -/
theorem fresh_eq_specDigest (hd : Dbl H) (tx : Tx) (q : Query) (hq : q.Covered tx.input.length) :
    fresh H tx q = specDigest H tx q := by
  cases q with
  | legacy idx script ty => exact legacy_digest_refines H tx idx script ty hq
  | segwit idx sc v ty =>
    obtain ⟨vw, h1, h2⟩ := segwit_refines H hd tx idx sc v ty hq
    simp only [fresh, specDigest, segwitSighash, specSegwit, h1, h2]
  | taproot idx pv annex leaf ty g =>
    simp only [fresh, specDigest, taprootSighash, taproot_refines H tx idx pv annex leaf ty g hq]

/-- outside `Covered` (legacy / segwit on a missing input) code and specification both abort -/
theorem uncovered_both_panic (tx : Tx) (q : Query) (hty : ∀ i pv a l ty g, q = .taproot i pv a l ty g → ty ≠ .reserved)
    (hq : ¬ q.Covered tx.input.length) :
    (∃ s, fresh H tx q = .panic s) ∧ (∃ s, specDigest H tx q = .panic s) := by
  cases q with
  | legacy idx script ty =>
    obtain ⟨_, _, h3, h4⟩ := legacy_panic H tx idx script ty hq
    exact ⟨h3, h4⟩
  | segwit idx sc v ty =>
    obtain ⟨⟨s, h1⟩, h2⟩ := segwit_panic H tx idx sc v ty hq
    refine ⟨⟨s, ?_⟩, ⟨"assert(nIn < txTo.vin.size())", ?_⟩⟩
    · simp only [fresh, segwitSighash, h1, Res.map, Res.bind]
    · simp only [specDigest, specSegwit, h2, Res.map, Res.bind]
  | taproot idx pv annex leaf ty g => exact absurd (hty _ _ _ _ _ _ rfl) hq

/-- **one query on a used cache**: in any cache state satisfying the invariant the returned digest (or
    error) is the specification's -/
theorem cached_query_eq_spec (hd : Dbl H) (tx : Tx) (ps : List TxOut) (q : Query) (hu : q.usesAll ps)
    (hq : q.Covered tx.input.length) (c : Cache) (hc : CacheInv H tx ps c) :
    (query H tx q c).2 = specDigest H tx q := by
  rw [(query_sound H tx ps q hu c hc).2, fresh_eq_specDigest H hd tx q hq]

theorem runOriginal_eq_spec (hd : Dbl H) (tx : Tx) (ops : List Op) (hcov : ∀ o ∈ ops, o.Covered tx.input.length) :
    runOriginal H tx ops = ops.map (specOut H tx) := by
  induction ops with
  | nil => rfl
  | cons op ops ih =>
    have ih' := ih (fun o ho => hcov o (List.mem_cons_of_mem _ ho))
    have hop := hcov op (List.mem_cons_self ..)
    cases op with
    | q q =>
      simp only [runOriginal, List.map_cons, specOut, ih']
      rw [fresh_eq_specDigest H hd tx q (by simpa only [Op.Covered] using hop)]
    | w idx st => simp only [runOriginal, List.map_cons, specOut, ih']

/-- **whole histories**: any finite history of queries and `witness_mut` updates, on a cache in ANY state
    satisfying the invariant (new or used), returns operation by operation what the specification says
    over the original transaction -/
theorem run_eq_spec (hd : Dbl H) (tx : Tx) (ps : List TxOut) (ops : List Op)
    (hu : ∀ o ∈ ops, o.usesAll ps) (hcov : ∀ o ∈ ops, o.Covered tx.input.length)
    (c : Cache) (hc : CacheInv H tx ps c) :
    run H ⟨tx, c⟩ ops = ops.map (specOut H tx) := by
  rw [run_eq_runFresh H tx ps ops hu c hc, runFresh_eq_runOriginal, runOriginal_eq_spec H hd tx ops hcov]

/-- … read position by position: the `k`-th answer of the history is the specification digest of the
    `k`-th query -/
theorem run_getElem_eq_spec (hd : Dbl H) (tx : Tx) (ps : List TxOut) (ops : List Op)
    (hu : ∀ o ∈ ops, o.usesAll ps) (hcov : ∀ o ∈ ops, o.Covered tx.input.length)
    (c : Cache) (hc : CacheInv H tx ps c) (k : Nat) (q : Query) (hk : ops[k]? = some (.q q)) :
    (run H ⟨tx, c⟩ ops)[k]? = some (.digest (specDigest H tx q)) := by
  rw [run_eq_spec H hd tx ps ops hu hcov c hc, List.getElem?_map, hk]
  rfl

end EV.Sighash
