/-
  The tap-tree value codec (`impl Deserialize / Serialize for TapTree`, EV.Model.PsetCodec
  `tapTreeNorm`) accepts only canonical encodings: whatever it accepts re-serializes to the same
  bytes.  This is where fix 0e43b3e matters: the builder stores the leaves of a combined node
  left-before-right, so the leaf list of the finalized root is the depth-first listing that was fed in,
  and the length of each leaf's merkle branch is its depth (EV.Proofs.TaprootBuilder:
  `builder_sound`, `info_leaves_dfs`).
-/
import EV.Model.PsetCodec
import EV.Proofs.CodecPrim
import EV.Proofs.TaprootBuilder
namespace EV.Proofs.PsetWireTap
open EV EV.Codec EV.PsetWire EV.Proofs.CodecPrim

/-- the serialization of a listing of leaves `(depth, script, version)` -/
def serItems (l : List (Nat × Bytes × UInt8)) : Bytes :=
  l.flatMap (fun x => UInt8.ofNat x.1 :: x.2.2 :: encBytesVec x.2.1)

theorem serItems_cons (a : Nat × Bytes × UInt8) (l : List (Nat × Bytes × UInt8)) :
    serItems (a :: l) = UInt8.ofNat a.1 :: a.2.2 :: (encBytesVec a.2.1 ++ serItems l) := by
  simp only [serItems, List.flatMap_cons, List.cons_append]

/-- parse soundness: the accepted bytes are the serialization of the parsed leaves -/
theorem parseTapItems_sound (fuel : Nat) (bs : Bytes) (items : List (Nat × Taproot.Item))
    (h : parseTapItems fuel bs = some items) :
    bs = serItems (EV.Proofs.TaprootBuilder.leafItems items) := by
  induction fuel generalizing bs items with
  | zero =>
    cases bs with
    | nil =>
      simp only [parseTapItems, Option.some.injEq] at h
      subst h
      rfl
    | cons b rest => simp only [parseTapItems] at h; cases h
  | succ fuel ih =>
    cases bs with
    | nil =>
      simp only [parseTapItems, Option.some.injEq] at h
      subst h
      rfl
    | cons d rest =>
      cases rest with
      | nil => simp only [parseTapItems] at h; cases h
      | cons ver rest =>
        simp only [parseTapItems] at h
        cases hv : bytesVec rest with
        | ok p =>
          obtain ⟨script, r⟩ := p
          rw [hv] at h
          simp only at h
          split at h
          · cases hp : parseTapItems fuel r with
            | none => rw [hp] at h; simp only [Option.map_none] at h; cases h
            | some its =>
              rw [hp] at h
              simp only [Option.map_some, Option.some.injEq] at h
              subst h
              have h1 := (bytesVec_lawful.sound _ _ _ hv).1
              have h2 := ih r its hp
              simp only [EV.Proofs.TaprootBuilder.leafItems, serItems_cons, UInt8.ofNat_toNat]
              rw [h1, ← h2]
          · cases h
        | err e => rw [hv] at h; simp only at h; cases h
        | panic e => rw [hv] at h; simp only at h; cases h

theorem serTapLeaves_eq (ls : List Taproot.LeafInfo) :
    serTapLeaves ls = serItems (ls.map (fun l => (l.branch.length + 0, l.script, l.ver))) := by
  induction ls with
  | nil => rfl
  | cons l ls ih =>
    simp only [Nat.add_zero] at ih
    simp only [List.map_cons, serItems_cons, Nat.add_zero]
    rw [← ih]
    simp only [serTapLeaves, List.flatMap_cons, List.cons_append]

theorem tapTreeNorm_canonical (W : WirePrims) (k v x : Bytes) (h : tapTreeNorm W k v = some x) : x = v := by
  simp only [tapTreeNorm] at h
  cases hp : parseTapItems v.length v with
  | none => rw [hp] at h; simp only at h; cases h
  | some items =>
    rw [hp] at h
    simp only at h
    split at h
    · rename_i n hok
      simp only [Option.some.injEq] at h
      obtain ⟨t, hit, hb, _⟩ := EV.Proofs.TaprootBuilder.builder_sound W.tap items [some n] hok rfl
      simp only [List.cons.injEq, Option.some.injEq, and_true] at hb
      subst hb
      rw [← h, serTapLeaves_eq, EV.Proofs.TaprootBuilder.info_leaves_dfs, ← hit]
      exact (parseTapItems_sound _ _ _ hp).symm
    · cases h

end EV.Proofs.PsetWireTap
