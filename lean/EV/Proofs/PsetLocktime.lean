/-
  EV.Proofs.PsetLocktime — the lock-time selection of `PartiallySignedTransaction::locktime`
  (three-state lattice per kind, fold over the inputs, final match) refines the selection rule
  of BIP370 written directly as a specification, for every list of inputs; the two
  `unreachable!()` arms are unreachable.
-/
import EV.Model.Pset
namespace EV.Proofs.PsetLocktime
open EV

/-- an input constrains the lock time if it states a time or a height requirement -/
def constraining (r : LockReq) : Bool := r.1.isSome || r.2.isSome

def maxList (l : List Nat) : Nat := l.foldl Nat.max 0

/-- BIP370, "Determining Lock Time": the fallback (or 0) if no input has a requirement; otherwise
    the maximum of the height requirements if every constraining input supports a height lock
    (height is preferred when both kinds are possible); otherwise the maximum of the time
    requirements if every constraining input supports a time lock; otherwise there is no valid
    lock time -/
def bip370 (fallback : Option Nat) (reqs : List LockReq) : Res Nat :=
  let cs := reqs.filter constraining
  if cs.isEmpty then .ok (fallback.getD 0)
  else if cs.all (fun r => r.2.isSome) then .ok (maxList (reqs.filterMap (·.2)))
  else if cs.all (fun r => r.1.isSome) then .ok (maxList (reqs.filterMap (·.1)))
  else .err "LocktimeConflict"

/-- what the fold has seen so far -/
structure Seen where
  /-- some input requires a time lock and supports no height lock -/
  timeOnly : Bool
  /-- some input requires a height lock and supports no time lock -/
  heightOnly : Bool
  /-- maximum of the stated time requirements, if any -/
  tmax : Option Nat
  hmax : Option Nat
  deriving DecidableEq, Repr

def Seen.init : Seen := ⟨false, false, none, none⟩

def Seen.step (s : Seen) (r : LockReq) : Seen :=
  { timeOnly := s.timeOnly || (r.1.isSome && r.2.isNone)
    heightOnly := s.heightOnly || (r.2.isSome && r.1.isNone)
    tmax := maxOpt s.tmax r.1
    hmax := maxOpt s.hmax r.2 }

def Seen.kind (excluded : Bool) (m : Option Nat) : LockState :=
  if excluded then .disallowed else match m with | none => .unconstrained | some x => .minimum x

/-- the lattice state that corresponds to what has been seen: a kind is `Disallowed` iff some input
    exclusively requires the other kind -/
def Seen.abs (s : Seen) : LockState × LockState := (Seen.kind s.heightOnly s.tmax, Seen.kind s.timeOnly s.hmax)

/-- invariant of the fold: an exclusive requirement of one kind has been recorded as a minimum of that kind -/
def Seen.Inv (s : Seen) : Prop := (s.timeOnly = true → s.tmax.isSome) ∧ (s.heightOnly = true → s.hmax.isSome)

theorem maxOpt_none_right (m : Option Nat) : maxOpt m none = m := by
  cases m <;> rfl

theorem maxOpt_assoc (a b c : Option Nat) : maxOpt (maxOpt a b) c = maxOpt a (maxOpt b c) := by
  cases a <;> cases b <;> cases c <;> simp only [maxOpt]
  rename_i x y z
  congr 1
  repeat' split
  all_goals omega

theorem max_kind (e : Bool) (m : Option Nat) (x : Nat) :
    LockState.max (Seen.kind e m) (.minimum x) = Seen.kind e (maxOpt m (some x)) := by
  cases e <;> cases m
  · rfl
  · rename_i y
    by_cases h : y ≤ x <;> simp [Seen.kind, LockState.max, LockState.le, maxOpt, h]
  · rfl
  · rfl

theorem kind_true (m : Option Nat) : Seen.kind true m = .disallowed := rfl

theorem abs_step (s : Seen) (r : LockReq) : lockStep s.abs r = (s.step r).abs := by
  obtain ⟨tO, hO, tm, hm⟩ := s
  obtain ⟨rt, rh⟩ := r
  cases rt <;> cases rh <;>
    simp only [lockStep, Seen.abs, Seen.step, max_kind, maxOpt_none_right, kind_true,
      Option.isSome_some, Option.isSome_none, Option.isNone_some, Option.isNone_none,
      Bool.and_true, Bool.and_false, Bool.or_false, Bool.or_true, Bool.and_self]

theorem inv_step (s : Seen) (r : LockReq) (h : s.Inv) : (s.step r).Inv := by
  obtain ⟨tO, hO, tm, hm⟩ := s
  obtain ⟨rt, rh⟩ := r
  obtain ⟨h1, h2⟩ := h
  cases rt <;> cases rh <;> cases tm <;> cases hm <;> cases tO <;> cases hO <;>
    simp_all [Seen.Inv, Seen.step, maxOpt]

theorem foldl_abs (reqs : List LockReq) :
    ∀ s : Seen, reqs.foldl lockStep s.abs = (reqs.foldl Seen.step s).abs := by
  induction reqs with
  | nil => intro s; rfl
  | cons r reqs ih => intro s; simp only [List.foldl_cons, abs_step, ih]

theorem foldl_inv (reqs : List LockReq) :
    ∀ s : Seen, s.Inv → (reqs.foldl Seen.step s).Inv := by
  induction reqs with
  | nil => intro s h; exact h
  | cons r reqs ih => intro s h; exact ih _ (inv_step s r h)

theorem lockFold_eq_abs (reqs : List LockReq) :
    lockFold reqs = (reqs.foldl Seen.step Seen.init).abs ∧ (reqs.foldl Seen.step Seen.init).Inv := by
  refine ⟨foldl_abs reqs Seen.init, foldl_inv reqs Seen.init ?_⟩
  constructor <;> intro h <;> cases h

/-! ### the components of the fold as functions of the list -/

/-- the optional maximum of a list -/
def mo (l : List Nat) : Option Nat :=
  match l with
  | [] => none
  | _ :: _ => some (maxList l)

theorem foldl_max (l : List Nat) : ∀ a, l.foldl Nat.max a = Nat.max a (l.foldl Nat.max 0) := by
  induction l with
  | nil => intro a; simp only [List.foldl_nil]; show a = max a 0; omega
  | cons x l ih =>
    intro a
    simp only [List.foldl_cons]
    rw [ih (Nat.max a x), ih (Nat.max 0 x)]
    show max (max a x) _ = max a (max (max 0 x) _)
    omega

theorem maxList_cons (x : Nat) (l : List Nat) : maxList (x :: l) = Nat.max x (maxList l) := by
  unfold maxList
  simp only [List.foldl_cons]
  rw [foldl_max]
  show max (max 0 x) _ = max x _
  omega

theorem mo_cons (x : Nat) (l : List Nat) : mo (x :: l) = maxOpt (some x) (mo l) := by
  cases l with
  | nil =>
    show some (maxList [x]) = some x
    rw [maxList_cons]; show some (max x (maxList [])) = some x
    have : maxList [] = 0 := rfl
    rw [this]; congr 1; omega
  | cons y l =>
    show some (maxList (x :: y :: l)) = some (if x ≤ maxList (y :: l) then maxList (y :: l) else x)
    rw [maxList_cons x]
    rfl

def pT (r : LockReq) : Bool := r.1.isSome && r.2.isNone
def pH (r : LockReq) : Bool := r.2.isSome && r.1.isNone

theorem foldl_timeOnly (reqs : List LockReq) :
    ∀ s : Seen, (reqs.foldl Seen.step s).timeOnly = (s.timeOnly || reqs.any pT) := by
  induction reqs with
  | nil => intro s; simp only [List.foldl_nil, List.any_nil, Bool.or_false]
  | cons r reqs ih =>
    intro s
    simp only [List.foldl_cons, List.any_cons, ih, Seen.step, pT, Bool.or_assoc]

theorem foldl_heightOnly (reqs : List LockReq) :
    ∀ s : Seen, (reqs.foldl Seen.step s).heightOnly = (s.heightOnly || reqs.any pH) := by
  induction reqs with
  | nil => intro s; simp only [List.foldl_nil, List.any_nil, Bool.or_false]
  | cons r reqs ih =>
    intro s
    simp only [List.foldl_cons, List.any_cons, ih, Seen.step, pH, Bool.or_assoc]

theorem foldl_tmax (reqs : List LockReq) :
    ∀ s : Seen, (reqs.foldl Seen.step s).tmax = maxOpt s.tmax (mo (reqs.filterMap (·.1))) := by
  induction reqs with
  | nil => intro s; simp only [List.foldl_nil, List.filterMap_nil, mo, maxOpt_none_right]
  | cons r reqs ih =>
    intro s
    obtain ⟨rt, rh⟩ := r
    cases rt with
    | none =>
      simp only [List.foldl_cons, ih, Seen.step, List.filterMap_cons, maxOpt_none_right]
    | some x =>
      simp only [List.foldl_cons, ih, Seen.step, List.filterMap_cons, mo_cons, maxOpt_assoc]

theorem foldl_hmax (reqs : List LockReq) :
    ∀ s : Seen, (reqs.foldl Seen.step s).hmax = maxOpt s.hmax (mo (reqs.filterMap (·.2))) := by
  induction reqs with
  | nil => intro s; simp only [List.foldl_nil, List.filterMap_nil, mo, maxOpt_none_right]
  | cons r reqs ih =>
    intro s
    obtain ⟨rt, rh⟩ := r
    cases rh with
    | none =>
      simp only [List.foldl_cons, ih, Seen.step, List.filterMap_cons, maxOpt_none_right]
    | some x =>
      simp only [List.foldl_cons, ih, Seen.step, List.filterMap_cons, mo_cons, maxOpt_assoc]

/-- the lattice state after the loop, as a function of the list of requirements -/
theorem lockFold_eq (reqs : List LockReq) :
    lockFold reqs = (Seen.kind (reqs.any pH) (mo (reqs.filterMap (·.1))),
                     Seen.kind (reqs.any pT) (mo (reqs.filterMap (·.2)))) := by
  rw [(lockFold_eq_abs reqs).1]
  simp only [Seen.abs, foldl_timeOnly, foldl_heightOnly, foldl_tmax, foldl_hmax, Seen.init,
    Bool.false_or, maxOpt]

/-! ### the conditions of the specification as functions of the list -/

theorem cs_isEmpty (reqs : List LockReq) :
    (reqs.filter constraining).isEmpty =
      ((reqs.filterMap (·.1)).isEmpty && (reqs.filterMap (·.2)).isEmpty) := by
  induction reqs with
  | nil => rfl
  | cons r reqs ih =>
    obtain ⟨rt, rh⟩ := r
    cases rt <;> cases rh <;>
      simp [constraining, ih]

theorem cs_all_height (reqs : List LockReq) :
    (reqs.filter constraining).all (fun r => r.2.isSome) = !reqs.any pT := by
  induction reqs with
  | nil => rfl
  | cons r reqs ih =>
    obtain ⟨rt, rh⟩ := r
    cases rt <;> cases rh <;>
      simp [constraining, pT, ih]

theorem cs_all_time (reqs : List LockReq) :
    (reqs.filter constraining).all (fun r => r.1.isSome) = !reqs.any pH := by
  induction reqs with
  | nil => rfl
  | cons r reqs ih =>
    obtain ⟨rt, rh⟩ := r
    cases rt <;> cases rh <;>
      simp [constraining, pH, ih]

/-- the facts that relate the flags to the presence of requirements of each kind -/
theorem flags_facts (reqs : List LockReq) :
    (reqs.any pT = true → reqs.filterMap (·.1) ≠ []) ∧
    (reqs.any pH = true → reqs.filterMap (·.2) ≠ []) ∧
    (reqs.filterMap (·.1) ≠ [] → reqs.any pT = false → reqs.filterMap (·.2) ≠ []) ∧
    (reqs.filterMap (·.2) ≠ [] → reqs.any pH = false → reqs.filterMap (·.1) ≠ []) := by
  induction reqs with
  | nil => simp
  | cons r reqs ih =>
    obtain ⟨rt, rh⟩ := r
    obtain ⟨i1, i2, i3, i4⟩ := ih
    revert i1 i2 i3 i4
    cases rt <;> cases rh <;> simp only [List.filterMap_cons, List.any_cons] <;>
      generalize reqs.any pT = aT <;> generalize reqs.any pH = aH <;>
      generalize reqs.filterMap (fun x => x.1) = T <;>
      generalize reqs.filterMap (fun x => x.2) = H <;>
      intro i1 i2 i3 i4 <;>
      cases aT <;> cases aH <;> cases T <;> cases H <;> simp_all [pT, pH]

theorem kind_cases (e : Bool) (l : List Nat) :
    (e = true ∧ Seen.kind e (mo l) = .disallowed) ∨
    (e = false ∧ l = [] ∧ Seen.kind e (mo l) = .unconstrained) ∨
    (e = false ∧ l ≠ [] ∧ Seen.kind e (mo l) = .minimum (maxList l)) := by
  cases e <;> cases l <;> simp [Seen.kind, mo]

/-- a kind is `Disallowed` only if the other one is at least `Minimum` -/
theorem lockFold_invariant (reqs : List LockReq) :
    ((lockFold reqs).2 = .disallowed → (lockFold reqs).1 ≠ .unconstrained) ∧
    ((lockFold reqs).1 = .disallowed → (lockFold reqs).2 ≠ .unconstrained) := by
  rw [lockFold_eq]
  obtain ⟨i1, i2, _, _⟩ := flags_facts reqs
  constructor
  · intro h
    rcases kind_cases (reqs.any pT) (reqs.filterMap (·.2)) with ⟨e, k⟩ | ⟨e, _, k⟩ | ⟨e, _, k⟩
    · rcases kind_cases (reqs.any pH) (reqs.filterMap (·.1)) with ⟨_, k'⟩ | ⟨_, n, _⟩ | ⟨_, _, k'⟩
      · simp only [k']; intro c; cases c
      · exact absurd n (i1 e)
      · simp only [k']; intro c; cases c
    · simp only [k] at h; cases h
    · simp only [k] at h; cases h
  · intro h
    rcases kind_cases (reqs.any pH) (reqs.filterMap (·.1)) with ⟨e, k⟩ | ⟨e, _, k⟩ | ⟨e, _, k⟩
    · rcases kind_cases (reqs.any pT) (reqs.filterMap (·.2)) with ⟨_, k'⟩ | ⟨_, n, _⟩ | ⟨_, _, k'⟩
      · simp only [k']; intro c; cases c
      · exact absurd n (i2 e)
      · simp only [k']; intro c; cases c
    · simp only [k] at h; cases h
    · simp only [k] at h; cases h

theorem final_core (fb : Option Nat) (aT aH : Bool) (T H : List Nat)
    (i1 : aT = true → T ≠ []) (i2 : aH = true → H ≠ [])
    (i3 : T ≠ [] → aT = false → H ≠ []) (i4 : H ≠ [] → aH = false → T ≠ []) :
    lockFinal fb (Seen.kind aH (mo T), Seen.kind aT (mo H)) =
      if (T.isEmpty && H.isEmpty) = true then Res.ok (fb.getD 0)
      else if (!aT) = true then Res.ok (maxList H)
      else if (!aH) = true then Res.ok (maxList T)
      else Res.err "LocktimeConflict" := by
  cases aT <;> cases aH <;> cases T <;> cases H <;>
    simp_all [Seen.kind, mo, lockFinal]

theorem locktimeOf_eq_bip370 (fb : Option Nat) (reqs : List LockReq) :
    locktimeOf fb reqs = bip370 fb reqs := by
  simp only [locktimeOf, bip370, lockFold_eq, cs_isEmpty, cs_all_height, cs_all_time]
  obtain ⟨i1, i2, i3, i4⟩ := flags_facts reqs
  exact final_core fb _ _ _ _ i1 i2 i3 i4

theorem locktimeOf_no_panic (fb : Option Nat) (reqs : List LockReq) (s : String) :
    locktimeOf fb reqs ≠ .panic s := by
  rw [locktimeOf_eq_bip370]
  simp only [bip370]
  split
  · intro c; cases c
  · split
    · intro c; cases c
    · split <;> intro c <;> cases c

end EV.Proofs.PsetLocktime
