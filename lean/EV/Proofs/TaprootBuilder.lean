/-
  Lemmas about the taproot builder model (EV.Model.Taproot): `info` (the NodeInfo a tree denotes),
  `combine`, the insertion loop, completeness (`builder_dfs`) and soundness (`builder_sound`).
-/
import EV.Model.Taproot
namespace EV.Proofs.TaprootBuilder
open EV EV.Taproot

variable (H : TapHashes)

/-- the leaves of a listing: (depth, script, version) -/
def leafItems : List (Nat × Item) → List (Nat × Bytes × UInt8)
  | [] => []
  | (d, .leaf s v) :: rest => (d, s, v) :: leafItems rest
  | (_, .hidden _) :: rest => leafItems rest

theorem leafItems_append (a b : List (Nat × Item)) : leafItems (a ++ b) = leafItems a ++ leafItems b := by
  induction a with
  | nil => rfl
  | cons p rest ih =>
    obtain ⟨d, it⟩ := p
    cases it with
    | leaf s v => simp only [List.cons_append, leafItems, ih]
    | hidden h => simp only [List.cons_append, leafItems, ih]

theorem info_hash (t : Tree) : (info H t).hash = t.merkleRoot H := by
  induction t with
  | leaf s v => rfl
  | hidden h => rfl
  | node l r ihl ihr => simp only [info, Tree.merkleRoot, ihl, ihr]

/-- the leaves of `info t` are the leaves of the depth-first listing, in order, and the length of each
    merkle branch is the leaf's depth -/
theorem info_leaves_dfs (t : Tree) (d : Nat) :
    (info H t).leaves.map (fun l => (l.branch.length + d, l.script, l.ver)) = leafItems (t.dfs d) := by
  induction t generalizing d with
  | leaf s v => simp [info, newLeaf, Tree.dfs, leafItems]
  | hidden h => simp [info, newHidden, Tree.dfs, leafItems]
  | node l r ihl ihr =>
    simp only [info, Tree.dfs, leafItems_append, List.map_append, List.map_map, ← ihl, ← ihr]
    congr 1
    · apply List.map_congr_left
      intro x _
      simp only [Function.comp, List.length_append, List.length_cons, List.length_nil]
      congr 1
      omega
    · apply List.map_congr_left
      intro x _
      simp only [Function.comp, List.length_append, List.length_cons, List.length_nil]
      congr 1
      omega

theorem computeRoot_append (s : Bytes) (v : UInt8) (b : List Bytes) (e : Bytes) :
    ControlBlock.computeRoot H s v (b ++ [e]) = branchHash H (ControlBlock.computeRoot H s v b) e := by
  simp only [ControlBlock.computeRoot, List.foldl_append, List.foldl_cons, List.foldl_nil]

theorem bytesLt_irrefl (a : Bytes) : bytesLt a a = false := by
  induction a with
  | nil => rfl
  | cons x xs ih =>
    have hx : ¬ x < x := UInt8.lt_irrefl x
    simp only [bytesLt, hx, if_false, ih]

theorem bytesLt_asymm (a b : Bytes) (h : bytesLt a b = true) : bytesLt b a = false := by
  induction a generalizing b with
  | nil =>
    cases b with
    | nil => rfl
    | cons y ys => rfl
  | cons x xs ih =>
    cases b with
    | nil => simp [bytesLt] at h
    | cons y ys =>
      simp only [bytesLt] at h ⊢
      by_cases h1 : x < y
      · have h2 : ¬ y < x := fun h2 => UInt8.lt_irrefl x (UInt8.lt_trans h1 h2)
        simp only [h2, if_false, h1, if_true]
      · simp only [h1, if_false] at h
        by_cases h2 : y < x
        · simp [h2] at h
        · simp only [h2, if_false] at h
          simp only [h2, h1, if_false]
          exact ih ys h

theorem bytesLt_total (a b : Bytes) (h1 : bytesLt a b = false) (h2 : bytesLt b a = false) : a = b := by
  induction a generalizing b with
  | nil =>
    cases b with
    | nil => rfl
    | cons y ys => simp [bytesLt] at h1
  | cons x xs ih =>
    cases b with
    | nil => simp [bytesLt] at h2
    | cons y ys =>
      simp only [bytesLt] at h1 h2
      by_cases hxy : x < y
      · simp [hxy] at h1
      · by_cases hyx : y < x
        · simp [hyx] at h2
        · simp only [hxy, hyx, if_false] at h1 h2
          have hxe : x = y := UInt8.le_antisymm (UInt8.not_lt.mp hyx) (UInt8.not_lt.mp hxy)
          rw [hxe, ih ys h1 h2]

theorem sortedPair_comm (a b : Bytes) : sortedPair a b = sortedPair b a := by
  unfold sortedPair
  cases hab : bytesLt a b with
  | true => simp [bytesLt_asymm a b hab]
  | false =>
    cases hba : bytesLt b a with
    | true => simp
    | false => simp [bytesLt_total a b hab hba]

theorem branchHash_comm (a b : Bytes) : branchHash H a b = branchHash H b a := by
  simp only [branchHash, sortedPair_comm a b]

/-- each leaf's merkle branch is its sibling path: folding it over the leaf hash yields the root -/
theorem info_leaf_root (t : Tree) :
    ∀ l ∈ (info H t).leaves, ControlBlock.computeRoot H l.script l.ver l.branch = t.merkleRoot H := by
  induction t with
  | leaf s v =>
    intro l hl
    simp only [info, newLeaf, List.mem_singleton] at hl
    subst hl
    rfl
  | hidden h =>
    intro l hl
    simp [info, newHidden] at hl
  | node a b iha ihb =>
    intro l hl
    simp only [info, List.mem_append, List.mem_map] at hl
    rcases hl with ⟨x, hx, rfl⟩ | ⟨x, hx, rfl⟩
    · simp only [computeRoot_append, iha x hx, Tree.merkleRoot, info_hash]
    · simp only [computeRoot_append, ihb x hx, Tree.merkleRoot, info_hash]
      exact branchHash_comm H _ _

theorem info_branch_le_height (t : Tree) : ∀ l ∈ (info H t).leaves, l.branch.length ≤ t.height := by
  induction t with
  | leaf s v =>
    intro l hl
    simp only [info, newLeaf, List.mem_singleton] at hl
    subst hl
    simp [Tree.height]
  | hidden h =>
    intro l hl
    simp [info, newHidden] at hl
  | node a b iha ihb =>
    intro l hl
    simp only [info, List.mem_append, List.mem_map] at hl
    rcases hl with ⟨x, hx, rfl⟩ | ⟨x, hx, rfl⟩
    · have := iha x hx
      simp only [List.length_append, List.length_cons, List.length_nil, Tree.height]
      omega
    · have := ihb x hx
      simp only [List.length_append, List.length_cons, List.length_nil, Tree.height]
      omega

theorem dfs_depth_le (t : Tree) (d : Nat) : ∀ p ∈ t.dfs d, p.1 ≤ d + t.height := by
  induction t generalizing d with
  | leaf s v =>
    intro p hp
    simp only [Tree.dfs, List.mem_singleton] at hp
    subst hp
    simp [Tree.height]
  | hidden h =>
    intro p hp
    simp only [Tree.dfs, List.mem_singleton] at hp
    subst hp
    simp [Tree.height]
  | node a b iha ihb =>
    intro p hp
    simp only [Tree.dfs, List.mem_append] at hp
    simp only [Tree.height]
    rcases hp with hp | hp
    · have := iha (d + 1) p hp
      omega
    · have := ihb (d + 1) p hp
      omega

theorem dfs_depth_max (t : Tree) (d : Nat) : ∃ p ∈ t.dfs d, p.1 = d + t.height := by
  induction t generalizing d with
  | leaf s v => exact ⟨(d, .leaf s v), by simp [Tree.dfs], by simp [Tree.height]⟩
  | hidden h => exact ⟨(d, .hidden h), by simp [Tree.dfs], by simp [Tree.height]⟩
  | node a b iha ihb =>
    obtain ⟨pa, hpa, ha⟩ := iha (d + 1)
    obtain ⟨pb, hpb, hb⟩ := ihb (d + 1)
    by_cases hab : a.height ≤ b.height
    · refine ⟨pb, ?_, ?_⟩
      · simp only [Tree.dfs, List.mem_append]; exact Or.inr hpb
      · simp only [Tree.height]; omega
    · refine ⟨pa, ?_, ?_⟩
      · simp only [Tree.dfs, List.mem_append]; exact Or.inl hpa
      · simp only [Tree.height]; omega

theorem dfs_ne_nil (t : Tree) (d : Nat) : t.dfs d ≠ [] := by
  obtain ⟨p, hp, _⟩ := dfs_depth_max t d
  intro h
  rw [h] at hp
  cases hp

theorem pushAll_ok (h : Bytes) (ls : List LeafInfo) (hl : ∀ l ∈ ls, l.branch.length < maxDepth) :
    pushAll h ls = .ok (ls.map (fun x => { x with branch := x.branch ++ [h] })) := by
  induction ls with
  | nil => rfl
  | cons l ls ih =>
    have h1 : ¬ l.branch.length ≥ maxDepth := by
      have := hl l (List.mem_cons_self ..)
      omega
    have h2 := ih (fun x hx => hl x (List.mem_cons_of_mem _ hx))
    simp only [pushAll, pushBranch, h1, if_false, h2, List.map_cons]

theorem pushAll_ok_eq (h : Bytes) (ls ls' : List LeafInfo) (hok : pushAll h ls = .ok ls') :
    ls' = ls.map (fun x => { x with branch := x.branch ++ [h] }) := by
  induction ls generalizing ls' with
  | nil =>
    simp only [pushAll, Res.ok.injEq] at hok
    subst hok; rfl
  | cons l ls ih =>
    by_cases h1 : l.branch.length ≥ maxDepth
    · simp [pushAll, pushBranch, h1] at hok
    · simp only [pushAll, pushBranch, h1, if_false] at hok
      cases hp : pushAll h ls with
      | ok ls2 =>
        rw [hp] at hok
        simp only [Res.ok.injEq] at hok
        subst hok
        rw [ih ls2 hp, List.map_cons]
      | err e => rw [hp] at hok; cases hok
      | panic s => rw [hp] at hok; cases hok

theorem pushAll_no_panic (h : Bytes) (ls : List LeafInfo) (s : String) : pushAll h ls ≠ .panic s := by
  induction ls with
  | nil => intro hc; cases hc
  | cons l ls ih =>
    intro hc
    by_cases h1 : l.branch.length ≥ maxDepth
    · simp [pushAll, pushBranch, h1] at hc
    · simp only [pushAll, pushBranch, h1, if_false] at hc
      cases hp : pushAll h ls with
      | ok ls2 => rw [hp] at hc; cases hc
      | err e => rw [hp] at hc; cases hc
      | panic s' =>
        rw [hp] at hc
        simp only [Res.panic.injEq] at hc
        subst hc
        exact ih hp

theorem pushAll_err (h : Bytes) (ls : List LeafInfo) (e : String) (he : pushAll h ls = .err e) :
    e = "InvalidMerkleTreeDepth" := by
  induction ls with
  | nil => cases he
  | cons l ls ih =>
    by_cases h1 : l.branch.length ≥ maxDepth
    · simp only [pushAll, pushBranch, h1, if_true, Res.err.injEq] at he
      exact he.symm
    · simp only [pushAll, pushBranch, h1, if_false] at he
      cases hp : pushAll h ls with
      | ok ls2 => rw [hp] at he; cases he
      | err e' =>
        rw [hp] at he
        simp only [Res.err.injEq] at he
        subst he
        exact ih hp
      | panic s' => rw [hp] at he; cases he

theorem combine_info (a b : Tree) (h : (Tree.node a b).height ≤ maxDepth) :
    combine H (info H a) (info H b) = .ok (info H (.node a b)) := by
  simp only [Tree.height] at h
  have ha : ∀ l ∈ (info H a).leaves, l.branch.length < maxDepth := by
    intro l hl
    have := info_branch_le_height H a l hl
    omega
  have hb : ∀ l ∈ (info H b).leaves, l.branch.length < maxDepth := by
    intro l hl
    have := info_branch_le_height H b l hl
    omega
  simp only [combine, pushAll_ok _ _ ha, pushAll_ok _ _ hb, info]

theorem combine_ok_info (a b : Tree) (x : NodeInfo) (hx : combine H (info H a) (info H b) = .ok x) :
    x = info H (.node a b) := by
  unfold combine at hx
  cases h1 : pushAll (info H b).hash (info H a).leaves with
  | ok la =>
    rw [h1] at hx
    cases h2 : pushAll (info H a).hash (info H b).leaves with
    | ok lb =>
      rw [h2] at hx
      simp only [Res.ok.injEq] at hx
      subst hx
      rw [pushAll_ok_eq _ _ _ h1, pushAll_ok_eq _ _ _ h2]
      rfl
    | err e => rw [h2] at hx; cases hx
    | panic s => rw [h2] at hx; cases hx
  | err e => rw [h1] at hx; cases hx
  | panic s => rw [h1] at hx; cases hx

theorem combine_no_panic (a b : NodeInfo) (s : String) : combine H a b ≠ .panic s := by
  intro hx
  unfold combine at hx
  cases h1 : pushAll b.hash a.leaves with
  | ok la =>
    rw [h1] at hx
    cases h2 : pushAll a.hash b.leaves with
    | ok lb => rw [h2] at hx; cases hx
    | err e => rw [h2] at hx; cases hx
    | panic s' => exact pushAll_no_panic _ _ _ h2
  | err e => rw [h1] at hx; cases hx
  | panic s' => exact pushAll_no_panic _ _ _ h1

theorem combine_err (a b : NodeInfo) (e : String) (he : combine H a b = .err e) : e = "InvalidMerkleTreeDepth" := by
  unfold combine at he
  cases h1 : pushAll b.hash a.leaves with
  | ok la =>
    rw [h1] at he
    cases h2 : pushAll a.hash b.leaves with
    | ok lb => rw [h2] at he; cases he
    | err e' =>
      rw [h2] at he
      simp only [Res.err.injEq] at he
      subst he
      exact pushAll_err _ _ _ h2
    | panic s' => rw [h2] at he; cases he
  | err e' =>
    rw [h1] at he
    simp only [Res.err.injEq] at he
    subst he
    exact pushAll_err _ _ _ h1
  | panic s' => rw [h1] at he; cases he

theorem addAll_append (b : Builder) (xs ys : List (Nat × Item)) :
    addAll H b (xs ++ ys) =
      match addAll H b xs with
      | .ok b' => addAll H b' ys
      | .err e => .err e
      | .panic s => .panic s := by
  induction xs generalizing b with
  | nil => rfl
  | cons p xs ih =>
    obtain ⟨d, it⟩ := p
    simp only [List.cons_append, addAll]
    cases addItem H b d it with
    | ok b' => exact ih b'
    | err e => rfl
    | panic s => rfl

theorem combineLoop_skip (b : Builder) (n : NodeInfo) (d : Nat) (h : b.length ≠ d + 1) :
    combineLoop H b n d = .ok (b, n, d) := by
  cases b with
  | nil => rfl
  | cons o rest =>
    cases o with
    | none => rfl
    | some c =>
      simp only [List.length_cons] at h
      simp only [combineLoop, h, if_false]


/-! ### the tail of `insert` after the loop -/

/-- what `insert` does with the result of the loop -/
def finish (r : Res (Builder × NodeInfo × Nat)) : Res Builder :=
  match r with
  | .ok (b', node', depth') =>
    let b'' := if b'.length < depth' + 1 then List.replicate (depth' + 1 - b'.length) none ++ b' else b'
    if depth' < b''.length then .ok (b''.set (b''.length - 1 - depth') (some node'))
    else .panic "branch[depth] out of bounds"
  | .err e => .err e
  | .panic s => .panic s

theorem insert_def (b : Builder) (n : NodeInfo) (d : Nat) :
    insert H b n d =
      if d > maxDepth then .err "InvalidMerkleTreeDepth"
      else if d + 1 < b.length then .err "NodeNotInDfsOrder"
      else finish (combineLoop H b n d) := rfl

theorem insert_eq_finish (b : Builder) (n : NodeInfo) (d : Nat) (hd : d ≤ maxDepth) (hb : b.length ≤ d + 1) :
    insert H b n d = finish (combineLoop H b n d) := by
  have h1 : ¬ d > maxDepth := by omega
  have h2 : ¬ d + 1 < b.length := by omega
  rw [insert_def, if_neg h1, if_neg h2]

theorem finish_ok_lt (b' : Builder) (n' : NodeInfo) (d' : Nat) (h : b'.length < d' + 1) :
    finish (.ok (b', n', d')) = .ok (some n' :: (List.replicate (d' - b'.length) none ++ b')) := by
  have hk : d' + 1 - b'.length = (d' - b'.length) + 1 := by omega
  have hlen : (List.replicate (d' + 1 - b'.length) (none : Option NodeInfo) ++ b').length = d' + 1 := by
    simp only [List.length_append, List.length_replicate]; omega
  simp only [finish, if_pos h, hlen, Nat.lt_succ_self, if_true, Nat.add_sub_cancel, Nat.sub_self]
  rw [hk, List.replicate_succ]
  rfl

theorem finish_ok_eq (x : Option NodeInfo) (rest : Builder) (n' : NodeInfo) (d' : Nat) (h : rest.length = d') :
    finish (.ok (x :: rest, n', d')) = .ok (some n' :: rest) := by
  have h1 : ¬ (x :: rest).length < d' + 1 := by simp only [List.length_cons]; omega
  have h2 : d' < (x :: rest).length := by simp only [List.length_cons]; omega
  have h3 : (x :: rest).length - 1 - d' = 0 := by simp only [List.length_cons]; omega
  simp only [finish, if_neg h1, if_pos h2, h3, List.set_cons_zero]

theorem insert_skip (b : Builder) (n : NodeInfo) (d : Nat) (h : b.length < d + 1) (hd : d ≤ maxDepth) :
    insert H b n d = .ok (some n :: (List.replicate (d - b.length) none ++ b)) := by
  rw [insert_eq_finish H b n d hd (by omega), combineLoop_skip H b n d (by omega), finish_ok_lt _ _ _ h]

/-- key step of completeness: feeding the depth-first listing of `t` (rooted at depth `d`) to the builder
    is the same as inserting the finished node `info t` at depth `d` -/
theorem insert_tree (t : Tree) : ∀ (d : Nat) (b : Builder), b.length ≤ d + 1 → d + t.height ≤ maxDepth →
    addAll H b (t.dfs d) = insert H b (info H t) d := by
  induction t with
  | leaf s v =>
    intro d b _ _
    simp only [Tree.dfs, addAll, addItem, info]
    cases insert H b (newLeaf H s v) d <;> rfl
  | hidden h =>
    intro d b _ _
    simp only [Tree.dfs, addAll, addItem, info]
    cases insert H b (newHidden h) d <;> rfl
  | node l r ihl ihr =>
    intro d b hb hh
    have hht : (Tree.node l r).height ≤ maxDepth := by omega
    simp only [Tree.height] at hh
    have hd : d ≤ maxDepth := by omega
    have hd1 : d + 1 ≤ maxDepth := by omega
    rw [Tree.dfs, addAll_append, ihl (d + 1) b (by omega) (by omega),
      insert_skip H b (info H l) (d + 1) (by omega) hd1]
    simp only
    have hlenR : (List.replicate (d + 1 - b.length) (none : Option NodeInfo) ++ b).length = d + 1 := by
      simp only [List.length_append, List.length_replicate]; omega
    rw [ihr (d + 1) _ (by simp only [List.length_cons, hlenR]; omega) (by omega),
      insert_eq_finish H _ _ _ hd1 (by simp only [List.length_cons, hlenR]; omega)]
    have hloop : combineLoop H (some (info H l) :: (List.replicate (d + 1 - b.length) none ++ b)) (info H r) (d + 1)
        = combineLoop H (List.replicate (d + 1 - b.length) none ++ b) (info H (.node l r)) d := by
      rw [combineLoop]
      simp only [hlenR, if_true, Nat.add_one_ne_zero, if_false, combine_info H l r hht, Nat.add_sub_cancel]
    rw [hloop]
    by_cases hk : b.length = d + 1
    · have h0 : d + 1 - b.length = 0 := by omega
      rw [h0, List.replicate_zero, List.nil_append, insert_eq_finish H b _ d hd hb]
    · have hk1 : d + 1 - b.length = (d - b.length) + 1 := by omega
      rw [insert_skip H b _ d (by omega) hd, hk1, List.replicate_succ, List.cons_append]
      rw [combineLoop]
      apply finish_ok_eq
      simp only [List.length_append, List.length_replicate]; omega

/-- completeness: the depth-first listing of every tree of height ≤ 128 is accepted and leaves the
    builder complete with exactly the node the tree denotes -/
theorem builder_dfs (t : Tree) (hh : t.height ≤ maxDepth) : addAll H [] (t.dfs 0) = .ok [some (info H t)] := by
  rw [insert_tree H t 0 [] (by simp) (by omega), insert_skip H [] _ 0 (by simp) (Nat.zero_le _)]
  rfl

theorem build_dfs (t : Tree) (hh : t.height ≤ maxDepth) : buildTree H (t.dfs 0) = .ok (info H t) := by
  simp only [buildTree, builder_dfs H t hh]
  rfl

theorem addAll_depths (items : List (Nat × Item)) : ∀ (b b' : Builder), addAll H b items = .ok b' →
    ∀ p ∈ items, p.1 ≤ maxDepth := by
  induction items with
  | nil => intro _ _ _ p hp; cases hp
  | cons q rest ih =>
    intro b b' hok p hp
    obtain ⟨d, it⟩ := q
    simp only [addAll] at hok
    cases hi : addItem H b d it with
    | ok b1 =>
      rw [hi] at hok
      rcases List.mem_cons.mp hp with rfl | hp'
      · simp only
        apply Nat.le_of_not_gt
        intro hgt
        cases it with
        | leaf s v =>
          simp only [addItem, insert_def, if_pos hgt] at hi
          cases hi
        | hidden h =>
          simp only [addItem, insert_def, if_pos hgt] at hi
          cases hi
      · exact ih b1 b' hok p hp'
    | err e => rw [hi] at hok; cases hok
    | panic s => rw [hi] at hok; cases hok


/-! ### generic facts about the loop and `insert` (arbitrary builders) -/

theorem combineLoop_len (b : Builder) : ∀ (n : NodeInfo) (d : Nat) (b' : Builder) (n' : NodeInfo) (d' : Nat),
    b.length ≤ d + 1 → combineLoop H b n d = .ok (b', n', d') → b'.length ≤ d' + 1 := by
  induction b with
  | nil =>
    intro n d b' n' d' _ hok
    simp only [combineLoop, Res.ok.injEq, Prod.mk.injEq] at hok
    obtain ⟨rfl, _, rfl⟩ := hok
    simp
  | cons o rest ih =>
    intro n d b' n' d' hlen hok
    cases o with
    | none =>
      simp only [combineLoop, Res.ok.injEq, Prod.mk.injEq] at hok
      obtain ⟨rfl, _, rfl⟩ := hok
      exact hlen
    | some c =>
      rw [combineLoop] at hok
      by_cases h1 : rest.length + 1 = d + 1
      · rw [if_pos h1] at hok
        by_cases h0 : d = 0
        · rw [if_pos h0] at hok; cases hok
        · rw [if_neg h0] at hok
          cases hc : combine H c n with
          | ok x =>
            rw [hc] at hok
            exact ih x (d - 1) b' n' d' (by omega) hok
          | err e => rw [hc] at hok; cases hok
          | panic s => rw [hc] at hok; cases hok
      · rw [if_neg h1] at hok
        simp only [Res.ok.injEq, Prod.mk.injEq] at hok
        obtain ⟨rfl, _, rfl⟩ := hok
        exact hlen

theorem combineLoop_no_panic (b : Builder) : ∀ (n : NodeInfo) (d : Nat) (s : String),
    combineLoop H b n d ≠ .panic s := by
  induction b with
  | nil => intro n d s hp; simp only [combineLoop] at hp; cases hp
  | cons o rest ih =>
    intro n d s hp
    cases o with
    | none => simp only [combineLoop] at hp; cases hp
    | some c =>
      rw [combineLoop] at hp
      by_cases h1 : rest.length + 1 = d + 1
      · rw [if_pos h1] at hp
        by_cases h0 : d = 0
        · rw [if_pos h0] at hp; cases hp
        · rw [if_neg h0] at hp
          cases hc : combine H c n with
          | ok x => rw [hc] at hp; exact ih x (d - 1) s hp
          | err e => rw [hc] at hp; cases hp
          | panic s' => exact combine_no_panic H c n s' hc
      · rw [if_neg h1] at hp; cases hp

theorem combineLoop_err (b : Builder) : ∀ (n : NodeInfo) (d : Nat) (e : String),
    combineLoop H b n d = .err e → e = "InvalidMerkleTreeDepth" ∨ e = "OverCompleteTree" := by
  induction b with
  | nil => intro n d e hp; simp only [combineLoop] at hp; cases hp
  | cons o rest ih =>
    intro n d e hp
    cases o with
    | none => simp only [combineLoop] at hp; cases hp
    | some c =>
      rw [combineLoop] at hp
      by_cases h1 : rest.length + 1 = d + 1
      · rw [if_pos h1] at hp
        by_cases h0 : d = 0
        · rw [if_pos h0] at hp
          simp only [Res.err.injEq] at hp
          exact Or.inr hp.symm
        · rw [if_neg h0] at hp
          cases hc : combine H c n with
          | ok x => rw [hc] at hp; exact ih x (d - 1) e hp
          | err e' =>
            rw [hc] at hp
            simp only [Res.err.injEq] at hp
            subst hp
            exact Or.inl (combine_err H c n e' hc)
          | panic s' => rw [hc] at hp; cases hp
      · rw [if_neg h1] at hp; cases hp

/-- `finish` on a loop result satisfying the length bound: index 0 is set -/
theorem finish_ok_head (b' : Builder) (n' : NodeInfo) (d' : Nat) (h : b'.length ≤ d' + 1) :
    ∃ rest, finish (.ok (b', n', d')) = .ok (some n' :: rest) := by
  by_cases hlt : b'.length < d' + 1
  · exact ⟨_, finish_ok_lt b' n' d' hlt⟩
  · cases b' with
    | nil => simp at hlt
    | cons x rest =>
      simp only [List.length_cons] at h hlt
      exact ⟨rest, finish_ok_eq x rest n' d' (by omega)⟩

theorem insert_no_panic (b : Builder) (n : NodeInfo) (d : Nat) (s : String) : insert H b n d ≠ .panic s := by
  intro hp
  rw [insert_def] at hp
  by_cases h1 : d > maxDepth
  · rw [if_pos h1] at hp; cases hp
  · rw [if_neg h1] at hp
    by_cases h2 : d + 1 < b.length
    · rw [if_pos h2] at hp; cases hp
    · rw [if_neg h2] at hp
      cases hl : combineLoop H b n d with
      | ok r =>
        obtain ⟨b', n', d'⟩ := r
        have hlen := combineLoop_len H b n d b' n' d' (by omega) hl
        obtain ⟨rest, hf⟩ := finish_ok_head b' n' d' hlen
        rw [hl, hf] at hp
        cases hp
      | err e => rw [hl] at hp; cases hp
      | panic s' => exact combineLoop_no_panic H b n d s' hl

theorem insert_ok_head (b b2 : Builder) (n : NodeInfo) (d : Nat) (hok : insert H b n d = .ok b2) :
    ∃ x rest, b2 = some x :: rest := by
  rw [insert_def] at hok
  by_cases h1 : d > maxDepth
  · rw [if_pos h1] at hok; cases hok
  · rw [if_neg h1] at hok
    by_cases h2 : d + 1 < b.length
    · rw [if_pos h2] at hok; cases hok
    · rw [if_neg h2] at hok
      cases hl : combineLoop H b n d with
      | ok r =>
        obtain ⟨b', n', d'⟩ := r
        have hlen := combineLoop_len H b n d b' n' d' (by omega) hl
        obtain ⟨rest, hf⟩ := finish_ok_head b' n' d' hlen
        rw [hl, hf] at hok
        simp only [Res.ok.injEq] at hok
        exact ⟨n', rest, hok.symm⟩
      | err e => rw [hl] at hok; cases hok
      | panic s' => rw [hl] at hok; cases hok

theorem addItem_no_panic (b : Builder) (d : Nat) (it : Item) (s : String) : addItem H b d it ≠ .panic s := by
  cases it with
  | leaf sc v => exact insert_no_panic H b _ d s
  | hidden h => exact insert_no_panic H b _ d s

theorem addItem_ok_head (b b2 : Builder) (d : Nat) (it : Item) (hok : addItem H b d it = .ok b2) :
    ∃ x rest, b2 = some x :: rest := by
  cases it with
  | leaf sc v => exact insert_ok_head H b b2 _ d hok
  | hidden h => exact insert_ok_head H b b2 _ d hok

theorem addAll_no_panic_gen (items : List (Nat × Item)) : ∀ (b : Builder) (s : String), addAll H b items ≠ .panic s := by
  induction items with
  | nil => intro b s hp; cases hp
  | cons q rest ih =>
    intro b s hp
    obtain ⟨d, it⟩ := q
    simp only [addAll] at hp
    cases hi : addItem H b d it with
    | ok b1 => rw [hi] at hp; exact ih b1 s hp
    | err e => rw [hi] at hp; cases hp
    | panic s' => exact addItem_no_panic H b d it s' hi

/-- every builder reachable from a builder that is empty or has a `some` head is again of that shape -/
theorem addAll_ok_head (items : List (Nat × Item)) : ∀ (b b2 : Builder),
    (b = [] ∨ ∃ x rest, b = some x :: rest) → addAll H b items = .ok b2 →
    (b2 = [] ∨ ∃ x rest, b2 = some x :: rest) := by
  induction items with
  | nil =>
    intro b b2 hb hok
    simp only [addAll, Res.ok.injEq] at hok
    subst hok; exact hb
  | cons q rest ih =>
    intro b b2 _ hok
    obtain ⟨d, it⟩ := q
    simp only [addAll] at hok
    cases hi : addItem H b d it with
    | ok b1 =>
      rw [hi] at hok
      exact ih b1 b2 (Or.inr (addItem_ok_head H b b1 d it hi)) hok
    | err e => rw [hi] at hok; cases hok
    | panic s' => rw [hi] at hok; cases hok

/-! ### soundness: the ghost stack of trees -/

/-- the listing denoted by a (reversed) stack of optional trees: the element with `k` elements
    below it sits at depth `k` -/
def listing : List (Option Tree) → List (Nat × Item)
  | [] => []
  | o :: rest => listing rest ++ (match o with | some t => t.dfs rest.length | none => [])

/-- the builder a ghost stack denotes -/
def ghost (ts : List (Option Tree)) : Builder := ts.map (Option.map (info H))

theorem ghost_length (ts : List (Option Tree)) : (ghost H ts).length = ts.length := by
  simp only [ghost, List.length_map]

theorem listing_replicate_none (k : Nat) (ts : List (Option Tree)) :
    listing (List.replicate k none ++ ts) = listing ts := by
  induction k with
  | zero => rfl
  | succ k ih =>
    rw [List.replicate_succ, List.cons_append, listing, ih]
    simp only [List.append_nil]

theorem ghost_replicate_none (k : Nat) (ts : List (Option Tree)) :
    ghost H (List.replicate k none ++ ts) = List.replicate k none ++ ghost H ts := by
  simp only [ghost, List.map_append, List.map_replicate, Option.map_none]

def Item.toTree : Item → Tree
  | .leaf s v => .leaf s v
  | .hidden h => .hidden h

theorem loop_inv (ts : List (Option Tree)) : ∀ (n : Tree) (d : Nat) (b' : Builder) (n' : NodeInfo) (d' : Nat),
    ts.length ≤ d + 1 → combineLoop H (ghost H ts) (info H n) d = .ok (b', n', d') →
    ∃ (ts' : List (Option Tree)) (tn' : Tree), b' = ghost H ts' ∧ n' = info H tn' ∧
      listing ts' ++ tn'.dfs d' = listing ts ++ n.dfs d ∧ ts'.length ≤ d' + 1 ∧
      (ts'.length = d' + 1 → ∃ rest, ts' = none :: rest) := by
  induction ts with
  | nil =>
    intro n d b' n' d' _ hok
    simp only [ghost, List.map_nil, combineLoop, Res.ok.injEq, Prod.mk.injEq] at hok
    obtain ⟨rfl, rfl, rfl⟩ := hok
    refine ⟨[], n, rfl, rfl, rfl, by simp, ?_⟩
    intro h; simp at h
  | cons o rest ih =>
    intro n d b' n' d' hlen hok
    cases o with
    | none =>
      simp only [ghost, List.map_cons, Option.map_none, combineLoop, Res.ok.injEq, Prod.mk.injEq] at hok
      obtain ⟨rfl, rfl, rfl⟩ := hok
      exact ⟨none :: rest, n, rfl, rfl, rfl, hlen, fun _ => ⟨rest, rfl⟩⟩
    | some c =>
      simp only [ghost, List.map_cons, Option.map_some] at hok
      rw [combineLoop] at hok
      simp only [List.length_map] at hok
      simp only [List.length_cons] at hlen
      by_cases h1 : rest.length + 1 = d + 1
      · rw [if_pos h1] at hok
        by_cases h0 : d = 0
        · rw [if_pos h0] at hok; cases hok
        · rw [if_neg h0] at hok
          cases hc : combine H (info H c) (info H n) with
          | ok x =>
            rw [hc] at hok
            have hx := combine_ok_info H c n x hc
            subst hx
            obtain ⟨ts', tn', e1, e2, e3, e4, e5⟩ := ih (.node c n) (d - 1) b' n' d' (by omega) hok
            refine ⟨ts', tn', e1, e2, ?_, e4, e5⟩
            rw [e3, listing, Tree.dfs]
            have hd : d - 1 + 1 = d := by omega
            have hr : rest.length = d := by omega
            rw [hd, hr, List.append_assoc]
          | err e => rw [hc] at hok; cases hok
          | panic s => rw [hc] at hok; cases hok
      · rw [if_neg h1] at hok
        simp only [Res.ok.injEq, Prod.mk.injEq] at hok
        obtain ⟨rfl, rfl, rfl⟩ := hok
        refine ⟨some c :: rest, n, ?_, rfl, rfl, by simp only [List.length_cons]; exact hlen, ?_⟩
        · simp only [ghost, List.map_cons, Option.map_some]
        · intro h; simp only [List.length_cons] at h; omega

theorem insert_inv (ts : List (Option Tree)) (n : Tree) (d : Nat) (b2 : Builder)
    (hok : insert H (ghost H ts) (info H n) d = .ok b2) :
    ∃ ts2 : List (Option Tree), b2 = ghost H ts2 ∧ listing ts2 = listing ts ++ n.dfs d := by
  rw [insert_def] at hok
  by_cases h1 : d > maxDepth
  · rw [if_pos h1] at hok; cases hok
  · rw [if_neg h1] at hok
    by_cases h2 : d + 1 < (ghost H ts).length
    · rw [if_pos h2] at hok; cases hok
    · rw [if_neg h2] at hok
      rw [ghost_length] at h2
      cases hl : combineLoop H (ghost H ts) (info H n) d with
      | ok r =>
        obtain ⟨b', n', d'⟩ := r
        rw [hl] at hok
        obtain ⟨ts', tn', rfl, rfl, e3, e4, e5⟩ := loop_inv H ts n d b' n' d' (by omega) hl
        by_cases hlt : ts'.length < d' + 1
        · rw [finish_ok_lt _ _ _ (by rw [ghost_length]; exact hlt)] at hok
          simp only [Res.ok.injEq] at hok
          subst hok
          refine ⟨some tn' :: (List.replicate (d' - ts'.length) none ++ ts'), ?_, ?_⟩
          · rw [ghost_length]
            simp only [ghost, List.map_cons, Option.map_some, List.map_append, List.map_replicate,
              Option.map_none]
          · rw [listing, listing_replicate_none]
            have hlen : (List.replicate (d' - ts'.length) (none : Option Tree) ++ ts').length = d' := by
              simp only [List.length_append, List.length_replicate]; omega
            rw [hlen]
            exact e3
        · obtain ⟨rest, rfl⟩ := e5 (by omega)
          simp only [List.length_cons] at e4 hlt
          have hr : rest.length = d' := by omega
          have hg : ghost H (none :: rest) = none :: ghost H rest := rfl
          rw [hg, finish_ok_eq _ _ _ _ (by rw [ghost_length]; exact hr)] at hok
          simp only [Res.ok.injEq] at hok
          subst hok
          refine ⟨some tn' :: rest, rfl, ?_⟩
          rw [listing, hr, ← e3, listing]
          simp only [List.append_nil]
      | err e => rw [hl] at hok; cases hok
      | panic s' => rw [hl] at hok; cases hok

theorem addItem_inv (ts : List (Option Tree)) (it : Item) (d : Nat) (b2 : Builder)
    (hok : addItem H (ghost H ts) d it = .ok b2) :
    ∃ ts2 : List (Option Tree), b2 = ghost H ts2 ∧ listing ts2 = listing ts ++ [(d, it)] := by
  cases it with
  | leaf s v => exact insert_inv H ts (.leaf s v) d b2 hok
  | hidden h => exact insert_inv H ts (.hidden h) d b2 hok

theorem addAll_inv (items : List (Nat × Item)) : ∀ (ts : List (Option Tree)) (b2 : Builder),
    addAll H (ghost H ts) items = .ok b2 →
    ∃ ts2 : List (Option Tree), b2 = ghost H ts2 ∧ listing ts2 = listing ts ++ items := by
  induction items with
  | nil =>
    intro ts b2 hok
    simp only [addAll, Res.ok.injEq] at hok
    exact ⟨ts, hok.symm, by simp⟩
  | cons q rest ih =>
    intro ts b2 hok
    obtain ⟨d, it⟩ := q
    simp only [addAll] at hok
    cases hi : addItem H (ghost H ts) d it with
    | ok b1 =>
      rw [hi] at hok
      obtain ⟨ts1, rfl, hl1⟩ := addItem_inv H ts it d b1 hi
      obtain ⟨ts2, e1, e2⟩ := ih ts1 b2 hok
      refine ⟨ts2, e1, ?_⟩
      rw [e2, hl1, List.append_assoc]
      rfl
    | err e => rw [hi] at hok; cases hok
    | panic s' => rw [hi] at hok; cases hok

/-- soundness: whatever listing the builder accepted, if it is complete then the listing is the
    depth-first listing of a tree (of height ≤ 128) and the builder holds that tree's node -/
theorem builder_sound (items : List (Nat × Item)) (b : Builder) (hok : addAll H [] items = .ok b)
    (hc : isComplete b = true) : ∃ t : Tree, items = t.dfs 0 ∧ b = [some (info H t)] ∧ t.height ≤ maxDepth := by
  obtain ⟨ts, rfl, hl⟩ := addAll_inv H items [] b hok
  simp only [listing, List.nil_append] at hl
  cases ts with
  | nil => simp [ghost, isComplete] at hc
  | cons o rest =>
    cases o with
    | none => simp [ghost, isComplete] at hc
    | some t =>
      cases rest with
      | cons o2 rest2 => simp [ghost, isComplete] at hc
      | nil =>
        simp only [listing, List.nil_append, List.length_nil] at hl
        refine ⟨t, hl.symm, rfl, ?_⟩
        obtain ⟨p, hp, hpe⟩ := dfs_depth_max t 0
        have := addAll_depths H items [] _ hok p (by rw [← hl]; exact hp)
        omega

/-- the builder never panics (the `unreachable!`, the index `branch[depth]` and the `expect` in
    `finalize` are dead) -/
theorem addAll_no_panic (items : List (Nat × Item)) (s : String) : addAll H [] items ≠ .panic s :=
  addAll_no_panic_gen H items [] s

theorem buildTree_no_panic (items : List (Nat × Item)) (s : String) : buildTree H items ≠ .panic s := by
  intro hp
  unfold buildTree at hp
  cases ha : addAll H [] items with
  | ok b =>
    rw [ha] at hp
    rcases addAll_ok_head H items [] b (Or.inl rfl) ha with rfl | ⟨x, rest, rfl⟩
    · simp [finalizeNode] at hp
    · simp only [finalizeNode] at hp
      split at hp <;> cases hp
  | err e => rw [ha] at hp; cases hp
  | panic s' => exact addAll_no_panic H items s' ha

theorem buildTree_ok_iff (items : List (Nat × Item)) (n : NodeInfo) :
    buildTree H items = .ok n ↔ ∃ t : Tree, items = t.dfs 0 ∧ t.height ≤ maxDepth ∧ n = info H t := by
  constructor
  · intro hok
    unfold buildTree at hok
    cases ha : addAll H [] items with
    | ok b =>
      rw [ha] at hok
      have hb : b = [some n] := by
        dsimp only at hok
        unfold finalizeNode at hok
        by_cases hlen : b.length > 1
        · rw [if_pos hlen] at hok; cases hok
        · rw [if_neg hlen] at hok
          cases b with
          | nil => cases hok
          | cons o rest =>
            cases o with
            | none => cases hok
            | some x =>
              simp only [Res.ok.injEq] at hok
              subst hok
              cases rest with
              | nil => rfl
              | cons y ys => simp only [List.length_cons] at hlen; omega
      subst hb
      obtain ⟨t, e1, e2, e3⟩ := builder_sound H items _ ha rfl
      refine ⟨t, e1, e3, ?_⟩
      simp only [List.cons.injEq, Option.some.injEq, and_true] at e2
      exact e2
    | err e => rw [ha] at hok; cases hok
    | panic s' => rw [ha] at hok; cases hok
  · rintro ⟨t, rfl, hh, rfl⟩
    exact build_dfs H t hh

/-! the four refusal classes -/
theorem insert_over_deep (b : Builder) (n : NodeInfo) (d : Nat) (h : d > maxDepth) :
    insert H b n d = .err "InvalidMerkleTreeDepth" := by
  rw [insert_def, if_pos h]
theorem insert_out_of_order (b : Builder) (n : NodeInfo) (d : Nat) (h1 : d ≤ maxDepth) (h2 : d + 1 < b.length) :
    insert H b n d = .err "NodeNotInDfsOrder" := by
  rw [insert_def, if_neg (by omega), if_pos h2]
theorem insert_over_complete (x n : NodeInfo) : insert H [some x] n 0 = .err "OverCompleteTree" := by
  rw [insert_def, if_neg (by omega), if_neg (by simp)]
  rfl
theorem finalize_incomplete (b : Builder) (h : b.length > 1) : finalizeNode b = .err "IncompleteTree" := by
  unfold finalizeNode
  rw [if_pos h]
theorem finalize_empty : finalizeNode [] = .err "EmptyTree" := by
  rfl
/-- every error of the builder is one of the named classes -/
theorem insert_err_class (b : Builder) (n : NodeInfo) (d : Nat) (e : String) (he : insert H b n d = .err e) :
    e = "InvalidMerkleTreeDepth" ∨ e = "NodeNotInDfsOrder" ∨ e = "OverCompleteTree" := by
  rw [insert_def] at he
  by_cases h1 : d > maxDepth
  · rw [if_pos h1] at he
    simp only [Res.err.injEq] at he
    exact Or.inl he.symm
  · rw [if_neg h1] at he
    by_cases h2 : d + 1 < b.length
    · rw [if_pos h2] at he
      simp only [Res.err.injEq] at he
      exact Or.inr (Or.inl he.symm)
    · rw [if_neg h2] at he
      cases hl : combineLoop H b n d with
      | ok r =>
        obtain ⟨b', n', d'⟩ := r
        have hlen := combineLoop_len H b n d b' n' d' (by omega) hl
        obtain ⟨rest, hf⟩ := finish_ok_head b' n' d' hlen
        rw [hl, hf] at he
        cases he
      | err e' =>
        rw [hl] at he
        simp only [finish, Res.err.injEq] at he
        subst he
        rcases combineLoop_err H b n d e' hl with h | h
        · exact Or.inl h
        · exact Or.inr (Or.inr h)
      | panic s' => rw [hl] at he; cases he

end EV.Proofs.TaprootBuilder
