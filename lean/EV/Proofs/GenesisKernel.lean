/-
  EV.Proofs.GenesisKernel — the chain hashes of the two built-in networks, computed by the Lean kernel:
  the model of `genesis_block` (EV.Model.Genesis) is run on the parameter sets extracted from
  src/genesis.rs with the kernel-evaluable SHA-256 (EV.Model.Sha256K) and the result is compared with the
  extracted `ChainHash::LIQUIDV1` / `ChainHash::LIQUIDTESTNET`.  Kept in its own module because the two
  `decide +kernel` evaluations take ~10–20 s of CPU each (≈ 60 SHA-256 compressions).
-/
import EV.Model.Sha256K
import EV.Model.Genesis
namespace EV.Proofs.GenesisKernel
open EV EV.Genesis

/-- the model's hash parameters instantiated with the kernel-evaluable SHA-256 -/
def kernelHashes : GHashes :=
  { sha256d := Sha256K.sha256d, comb := Sha256K.midstate, sha256 := Sha256K.sha256 }

theorem chainHash_liquidv1 :
    chainHash kernelHashes NetworkParams.liquidv1 = some chainHashLiquidv1 := by decide +kernel

theorem chainHash_liquidtestnet :
    chainHash kernelHashes NetworkParams.liquidtestnet = some chainHashLiquidtestnet := by decide +kernel

end EV.Proofs.GenesisKernel
