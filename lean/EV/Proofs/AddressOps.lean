/-
  EV.Proofs.AddressOps — helper lemmas for the "conversions and constructors" section of property C06
  (`EV.Model.AddressOps`): the model's payload conversion is the one of `EV.Proofs.BridgeScriptAddress`, the
  `Fe32` version constants, field-wise equality of parameter sets on the network table, the text prefix of
  displayed addresses, and "a printed base58 address reaches only the base58 decoder, under every network".
-/
import EV.Model.AddressOps
import EV.Proofs.BridgeScriptAddress
import EV.Proofs.AddrDetect
namespace EV.Addr
open EV EV.Bech32 EV.Base58 EV.Proofs.BridgeScriptAddress

/-! ### the payload conversion is the bridge's conversion -/

theorem natsOfBytes_eq (b : Bytes) : natsOfBytes b = toNats b := rfl
theorem bytesOfNats_eq (l : List Nat) : bytesOfNats l = ofNats l := rfl
theorem toScript_eq (p : Payload) : p.toScript = ofAddrPayload p := by cases p <;> rfl
theorem ofScript_eq (p : Script.Payload) : Payload.ofScript p = toAddrPayload p := by cases p <;> rfl

theorem natsOfBytes_length (b : Bytes) : (natsOfBytes b).length = b.length := toNats_length b
theorem natsOfBytes_bytesOk (b : Bytes) : bytesOk (natsOfBytes b) := toNats_bytesOk b
theorem bytesOfNats_natsOfBytes (b : Bytes) : bytesOfNats (natsOfBytes b) = b := ofNats_toNats b

/-! ### constants -/

/-- `Fe32::Q` = 0, `Fe32::P` = 1 (value of the bech32 characters `q`, `p`) -/
theorem version_consts :
    fe32OfChar Gen.p2wpkhVersionChar = 0 ∧ fe32OfChar Gen.p2wshVersionChar = 0 ∧
    fe32OfChar Gen.p2trVersionChar = 1 ∧ fe32OfChar Gen.p2trTweakedVersionChar = 1 := by decide

/-! ### field-wise equality of parameter sets -/

theorem paramsEq_iff (p q : Gen.AddrParamsB) :
    paramsEq p q = true ↔ (p.p2pkh = q.p2pkh ∧ p.p2sh = q.p2sh ∧ p.blinded = q.blinded ∧
      lower p.bechHrp = lower q.bechHrp ∧ lower p.blechHrp = lower q.blechHrp) := by
  simp only [paramsEq, Bool.and_eq_true, beq_iff_eq]
  constructor
  · rintro ⟨⟨⟨⟨a, b⟩, c⟩, d⟩, e⟩; exact ⟨a, b, c, d, e⟩
  · rintro ⟨a, b, c, d, e⟩; exact ⟨⟨⟨⟨a, b⟩, c⟩, d⟩, e⟩

theorem paramsEq_refl (p : Gen.AddrParamsB) : paramsEq p p = true := (paramsEq_iff p p).2 ⟨rfl, rfl, rfl, rfl, rfl⟩

/-- on the network table field-wise equality is equality: no two built-in sets share even their p2pkh byte -/
theorem paramsEq_table (p q : Gen.AddrParamsB) (hp : p ∈ Gen.allParamsB) (hq : q ∈ Gen.allParamsB) :
    paramsEq p q = true ↔ p = q := by
  constructor
  · intro h
    have h1 := ((paramsEq_iff p q).1 h).1
    rcases mem_all p hp with rfl | rfl | rfl <;> rcases mem_all q hq with rfl | rfl | rfl <;>
      first
      | rfl
      | (exfalso; revert h1; decide)
  · rintro rfl; exact paramsEq_refl p

theorem isLiquidParams_mem : Gen.isLiquidParams ∈ Gen.allParamsB := by decide

/-! ### text prefix of displayed addresses -/

theorem findPrefix_encode_plain (v : Variant) (hrp : Text) (ver : Nat) (fes : List Nat)
    (hver : ver < 32) (hfes : ∀ x ∈ fes, x < 32) : findPrefix (encode v hrp ver fes) = lower hrp := by
  have := findPrefix_encode v hrp ver fes false hver hfes
  rwa [map_cmap_false, map_cmap_false] at this

/-- a displayed witness-program address starts with its network's hrp — the blinded one iff it has a blinding
    key — followed by the separator -/
theorem findPrefix_display_wit (P : Prims) (a : Address) (hnet : a.params ∈ Gen.allParamsB) (ver : Nat)
    (prog : List Nat) (hpl : a.payload = .wit ver prog) (hver : ver ≤ 16) :
    findPrefix (display P a) = (if a.blinder.isSome then a.params.blechHrp else a.params.bechHrp) := by
  obtain ⟨p, pl, bl⟩ := a
  simp only at hpl hnet
  subst hpl
  have hver32 : ver < 32 := by omega
  cases bl with
  | none =>
    have hok := hrps_ok p.bechHrp (List.mem_flatMap.2 ⟨p, hnet, by simp [hrps]⟩)
    simp only [display, Option.isSome_none, Bool.false_eq_true, if_false]
    rw [findPrefix_encode_plain _ _ _ _ hver32 (bytesToFes_lt _), hrpOk_lower _ hok.1]
  | some pk =>
    have hok := hrps_ok p.blechHrp (List.mem_flatMap.2 ⟨p, hnet, by simp [hrps]⟩)
    simp only [display, Option.isSome_some, if_true]
    rw [findPrefix_encode_plain _ _ _ _ hver32 (bytesToFes_lt _), hrpOk_lower _ hok.1]

/-- blinded and unblinded hrp of one network differ, also up to letter case -/
theorem bech_ne_blech (p : Gen.AddrParamsB) (hp : p ∈ Gen.allParamsB) :
    p.blechHrp ≠ p.bechHrp ∧ lower p.blechHrp ≠ lower p.bechHrp := by
  rcases mem_all p hp with rfl | rfl | rfl <;> decide

/-! ### the bytes a displayed base58 address carries -/

/-- the base58check payload of a p2pkh / p2sh address (`impl Display`: `prefixed`) -/
def base58Bytes (a : Address) : Option (List Nat) :=
  match a.payload with
  | .pkh h =>
    some (match a.blinder with
      | some pk => a.params.blinded :: a.params.p2pkh :: (pk ++ h)
      | none => a.params.p2pkh :: h)
  | .sh h =>
    some (match a.blinder with
      | some pk => a.params.blinded :: a.params.p2sh :: (pk ++ h)
      | none => a.params.p2sh :: h)
  | .wit _ _ => none

theorem display_base58 (P : Prims) (a : Address) (bs : List Nat) (h : base58Bytes a = some bs) :
    display P a = encodeCheck P.sha256d bs := by
  obtain ⟨p, pl, bl⟩ := a
  cases pl <;> cases bl <;> simp only [base58Bytes, Option.some.injEq] at h <;> try (subst h; rfl)
  all_goals cases h

theorem base58Bytes_ok (P : Prims) (a : Address) (hwf : WF P a) (bs : List Nat) (h : base58Bytes a = some bs) :
    ∀ b ∈ bs, b < 256 := by
  obtain ⟨p, pl, bl⟩ := a
  obtain ⟨hnet, hstd, hbl⟩ := hwf
  simp only at hnet hstd hbl
  obtain ⟨_, _, _, hb1, hb2, hb3⟩ := prefix_facts p hnet
  cases pl with
  | wit v pr => simp [base58Bytes] at h
  | pkh hh =>
    cases bl with
    | none =>
      simp only [base58Bytes, Option.some.injEq] at h; subst h
      intro b hb; simp only [List.mem_cons] at hb
      rcases hb with rfl | hb
      · exact hb1
      · exact hstd.2 b hb
    | some pk =>
      simp only [base58Bytes, Option.some.injEq] at h; subst h
      intro b hb; simp only [List.mem_cons, List.mem_append] at hb
      rcases hb with rfl | rfl | hb | hb
      · exact hb3
      · exact hb1
      · exact hbl.2.2 b hb
      · exact hstd.2 b hb
  | sh hh =>
    cases bl with
    | none =>
      simp only [base58Bytes, Option.some.injEq] at h; subst h
      intro b hb; simp only [List.mem_cons] at hb
      rcases hb with rfl | hb
      · exact hb2
      · exact hstd.2 b hb
    | some pk =>
      simp only [base58Bytes, Option.some.injEq] at h; subst h
      intro b hb; simp only [List.mem_cons, List.mem_append] at hb
      rcases hb with rfl | rfl | hb | hb
      · exact hb3
      · exact hb2
      · exact hbl.2.2 b hb
      · exact hstd.2 b hb

/-- the displayed p2pkh / p2sh string decodes (base58check) to exactly those bytes -/
theorem decodeCheck_display (P : Prims) (a : Address) (hwf : WF P a) (bs : List Nat) (h : base58Bytes a = some bs) :
    decodeCheck P.sha256d (display P a) = some bs := by
  rw [display_base58 P a bs h]
  exact decodeCheck_encodeCheck _ _ (base58Bytes_ok P a hwf bs h)

/-! ### a printed base58 address reaches only the base58 decoder -/

/-- `from_str` returned a p2pkh / p2sh address: the segwit dispatch loop matched no network -/
theorem fromStr_base58_no_match (P : Prims) (s : Text) (a : Address) (h : fromStr P s = .ok a)
    (hns : a.payload.isSegwit = false) :
    dispatchBech P s (findPrefix s) Gen.fromStrOrder = none := by
  cases hd : dispatchBech P s (findPrefix s) Gen.fromStrOrder with
  | none => rfl
  | some r =>
    exfalso
    have hr : r = .ok a := by
      unfold fromStr at h; rw [hd] at h; exact h
    obtain ⟨p', hp', hc⟩ := dispatchBech_some P s _ _ _ hd
    rw [order_eq_all] at hp'
    rcases hc with ⟨hm', e⟩ | ⟨hm', e⟩
    · have := (fromBech32_sound P s false p' hp' a hm' (by rw [← e, hr])).2.2
      rw [this] at hns; cases hns
    · have := (fromBech32_sound P s true p' hp' a hm' (by rw [← e, hr])).2.2
      rw [this] at hns; cases hns

/-- `parse_with_params` of a string whose prefix matches no network hrp goes to the base58 decoder: an `Ok`
    result is `from_base58` of the string's base58check payload -/
theorem parseWithParams_base58 (P : Prims) (s : Text) (q : Gen.AddrParamsB) (hq : q ∈ Gen.allParamsB)
    (hnone : dispatchBech P s (findPrefix s) Gen.fromStrOrder = none) (b : Address)
    (h : parseWithParams P s q = .ok b) :
    ∃ data, decodeCheck P.sha256d s = some data ∧ fromBase58 P data q = .ok b := by
  have hnm := dispatchBech_none P _ _ _ hnone q (by rw [order_eq_all]; exact hq)
  simp only [parseWithParams, hnm.1, hnm.2, Bool.or_self, Bool.false_eq_true, if_false] at h
  split at h
  · cases h
  · split at h
    · cases h
    · rename_i data hd
      exact ⟨data, hd, h⟩

/-! ### scripts of whole addresses -/

open EV.Proofs.ScriptAddress in
/-- `from_script` then `script_pubkey` on whole addresses -/
theorem fromScript_scriptPubkey (s : Bytes) (bl : Option (List Nat)) (p : Gen.AddrParamsB) (a : Address)
    (h : fromScript s bl p = some a) :
    scriptPubkey a = some s ∧ a.params = p ∧ a.blinder = bl ∧ PayloadStd a.payload ∧
      ∃ pl, Script.fromScript s = some pl ∧ a.payload = toAddrPayload pl := by
  unfold fromScript at h
  split at h
  · rename_i pl hpl
    simp only [Option.some.injEq] at h
    subst h
    obtain ⟨hstd, hpat⟩ := fromScript_some hpl
    refine ⟨?_, rfl, rfl, ?_, pl, hpl, ofScript_eq pl⟩
    · show Script.scriptPubkey (Payload.ofScript pl).toScript = some s
      rw [toScript_eq, ofScript_eq, of_to_payload, hpat]
      exact scriptPubkey_standard hstd
    · show PayloadStd (Payload.ofScript pl)
      rw [ofScript_eq]; exact payloadStd_of_standard pl hstd
  · cases h

open EV.Proofs.ScriptAddress in
/-- `script_pubkey` then `from_script` on whole standard addresses -/
theorem scriptPubkey_fromScript (a : Address) (h : PayloadStd a.payload) :
    ∃ s, scriptPubkey a = some s ∧ s = (ofAddrPayload a.payload).pattern ∧
      fromScript s a.blinder a.params = some a := by
  obtain ⟨hstd, hback⟩ := standard_of_payloadStd a.payload h
  refine ⟨(ofAddrPayload a.payload).pattern, ?_, rfl, ?_⟩
  · show Script.scriptPubkey a.payload.toScript = _
    rw [toScript_eq]; exact scriptPubkey_standard hstd
  · unfold fromScript
    rw [fromScript_pattern hstd]
    simp only [ofScript_eq, hback]

/-! ### pay-to-taproot -/

theorem p2trScript_eq (k : Bytes) (hk : k.length = 32) :
    Taproot.p2trScript k = Script.witnessScript Gen.opPushnum1 k ∧
    Taproot.p2trScript k = (Script.Payload.witnessProgram 1 k).pattern := by
  have e1 : Script.versionOpcode 1 = Gen.opPushnum1 := by decide
  have e2 : Gen.opPushnum1 = 0x51 := by decide
  constructor
  · simp only [Taproot.p2trScript, Script.witnessScript, hk, e2]; rfl
  · simp only [Taproot.p2trScript, Script.Payload.pattern, Script.witnessScript, hk, e1, e2]; rfl

theorem p2tr_standard (k : Bytes) (hk : k.length = 32) : (Script.Payload.witnessProgram 1 k).standard :=
  Or.inr ⟨by omega, by omega, by omega, by omega⟩

theorem p2trTweaked_eq (k : Bytes) (bl : Option (List Nat)) (p : Gen.AddrParamsB) :
    p2trTweaked k bl p = { params := p, payload := .wit 1 (natsOfBytes k), blinder := bl } := by
  simp only [p2trTweaked, version_consts.2.2.2]

open EV.Proofs.ScriptAddress EV.Proofs.ScriptTemplates in
theorem p2trTweaked_script (k : Bytes) (bl : Option (List Nat)) (p : Gen.AddrParamsB) (hk : k.length = 32) :
    scriptPubkey (p2trTweaked k bl p) = some (Taproot.p2trScript k) ∧
    Script.isV1P2tr (Taproot.p2trScript k) = true ∧
    Script.fromScript (Taproot.p2trScript k) = some (.witnessProgram 1 k) ∧
    fromScript (Taproot.p2trScript k) bl p = some (p2trTweaked k bl p) := by
  obtain ⟨e1, e2⟩ := p2trScript_eq k hk
  have hstd := p2tr_standard k hk
  have hfs : Script.fromScript (Taproot.p2trScript k) = some (.witnessProgram 1 k) := by
    rw [e2]; exact fromScript_pattern hstd
  refine ⟨?_, ?_, hfs, ?_⟩
  · rw [p2trTweaked_eq]
    show Script.scriptPubkey (.witnessProgram 1 (bytesOfNats (natsOfBytes k))) = _
    rw [bytesOfNats_natsOfBytes, e2]
    exact scriptPubkey_standard hstd
  · rw [e1]; exact (isV1P2tr_iff _).2 ⟨k, hk, rfl⟩
  · rw [p2trTweaked_eq]
    simp only [fromScript, hfs, Payload.ofScript]

theorem p2trTweaked_wf (P : Prims) (k : Bytes) (bl : Option (List Nat)) (p : Gen.AddrParamsB) (hk : k.length = 32)
    (hp : p ∈ Gen.allParamsB) (hb : BlinderOk P bl) : WF P (p2trTweaked k bl p) := by
  rw [p2trTweaked_eq]
  refine ⟨hp, ?_, hb⟩
  show PayloadStd (.wit 1 (natsOfBytes k))
  refine ⟨by omega, ?_, ?_, fun h => by omega, natsOfBytes_bytesOk k⟩ <;> rw [natsOfBytes_length] <;> omega

/-- `p2tr` is `p2tr_tweaked` of the key `tap_tweak` returns -/
theorem p2tr_eq (E : Taproot.EC) (H : Taproot.TapHashes) (key : Bytes) (root : Option Bytes)
    (bl : Option (List Nat)) (p : Gen.AddrParamsB) :
    p2tr E H key root bl p =
      match Taproot.tapTweak E H key root with
      | .ok qp => .ok (p2trTweaked qp.1 bl p)
      | .err e => .err e
      | .panic site => .panic site := by
  unfold p2tr
  cases Taproot.tapTweak E H key root with
  | ok qp => obtain ⟨q, par⟩ := qp; simp only [p2trTweaked, version_consts.2.2.1, version_consts.2.2.2]
  | err e => rfl
  | panic s => rfl

theorem tapTweak_ok (E : Taproot.EC) (H : Taproot.TapHashes) (key : Bytes) (root : Option Bytes) (q : Bytes) (par : Bool)
    (h : Taproot.tapTweak E H key root = .ok (q, par)) :
    E.scalarOk (Taproot.tweakHash H key root) = true ∧
    E.tweakAdd key (Taproot.tweakHash H key root) = some (q, par) ∧
    E.tweakAddCheck key q par (Taproot.tweakHash H key root) = true := by
  unfold Taproot.tapTweak at h
  simp only at h
  split at h
  · cases h
  · rename_i hs
    split at h
    · cases h
    · rename_i q' par' hadd
      split at h
      · cases h
      · rename_i hc
        simp only [Res.ok.injEq, Prod.mk.injEq] at h
        obtain ⟨rfl, rfl⟩ := h
        exact ⟨by simpa using hs, hadd, by simpa using hc⟩

theorem tapTweak_not_err (E : Taproot.EC) (H : Taproot.TapHashes) (key : Bytes) (root : Option Bytes) (e : String) :
    Taproot.tapTweak E H key root ≠ .err e := by
  unfold Taproot.tapTweak
  simp only
  split
  · intro h; cases h
  · split
    · intro h; cases h
    · split <;> (intro h; cases h)

/-! ### constructors -/

theorem nestedScript_eq (h : Bytes) : nestedScript 0 h = Script.scriptPubkey (.witnessProgram 0 h) := rfl

theorem nested_consts : Gen.p2shwpkhPushInt = 0 ∧ Gen.p2shwshPushInt = 0 := by decide

end EV.Addr
