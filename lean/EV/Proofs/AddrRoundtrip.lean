/-
  EV.Proofs.AddrRoundtrip — `parse (display a) = a` for every standard address on the three
  networks (`from_str` and `parse_with_params`; segwit forms also entirely upper-cased).
-/
import EV.Proofs.AddrBase
namespace EV.Addr
open EV.Bech32 EV.Base58

/-! ### standard addresses -/

def Payload.isSegwit : Payload → Bool
  | .wit _ _ => true
  | _ => false

def bytesOk (l : List Nat) : Prop := ∀ b ∈ l, b < 256

/-- 20-byte hash, or witness version 0..16 with a program of 2..40 bytes (20 or 32 for version 0) -/
def PayloadStd : Payload → Prop
  | .pkh h => h.length = 20 ∧ bytesOk h
  | .sh h => h.length = 20 ∧ bytesOk h
  | .wit ver prog => ver ≤ 16 ∧ 2 ≤ prog.length ∧ prog.length ≤ 40 ∧
      (ver = 0 → prog.length = 20 ∨ prog.length = 32) ∧ bytesOk prog

/-- a blinding key is the 33-byte serialization of a valid public key -/
def BlinderOk (P : Prims) : Option (List Nat) → Prop
  | none => True
  | some pk => pk.length = 33 ∧ P.validPk pk = true ∧ bytesOk pk

/-- a standard address on one of the three built-in networks -/
structure WF (P : Prims) (a : Address) : Prop where
  net : a.params ∈ Gen.allParamsB
  payload : PayloadStd a.payload
  blinder : BlinderOk P a.blinder

/-! ### case maps -/

theorem map_cmap_false (s : Text) : s.map (cmap false) = s := by
  have : cmap false = id := by funext c; simp [cmap]
  rw [this, List.map_id]

theorem map_cmap_true (s : Text) : s.map (cmap true) = upper s := by
  have : cmap true = upperByte := by funext c; simp [cmap]
  rw [this]; rfl

theorem lowerByte_of_upper (b : Nat) (h : 65 ≤ b ∧ b ≤ 90) : lowerByte b = b + 32 := by
  simp [lowerByte, isUpper, h.1, h.2]
theorem lowerByte_of_not_upper (b : Nat) (h : ¬ (65 ≤ b ∧ b ≤ 90)) : lowerByte b = b := by
  have : isUpper b = false := by
    simp only [isUpper, Bool.and_eq_false_iff, decide_eq_false_iff_not]; omega
  simp [lowerByte, this]
theorem upperByte_of_lower (b : Nat) (h : 97 ≤ b ∧ b ≤ 122) : upperByte b = b - 32 := by
  simp [upperByte, isLower, h.1, h.2]
theorem upperByte_of_not_lower (b : Nat) (h : ¬ (97 ≤ b ∧ b ≤ 122)) : upperByte b = b := by
  have : isLower b = false := by
    simp only [isLower, Bool.and_eq_false_iff, decide_eq_false_iff_not]; omega
  simp [upperByte, this]

theorem lowerByte_cmap_lowerByte (up : Bool) (b : Nat) : lowerByte (cmap up (lowerByte b)) = lowerByte b := by
  cases up
  · simp only [cmap, Bool.false_eq_true, if_false]
    by_cases h : 65 ≤ b ∧ b ≤ 90
    · rw [lowerByte_of_upper b h, lowerByte_of_not_upper (b + 32) (by omega)]
    · rw [lowerByte_of_not_upper b h, lowerByte_of_not_upper b h]
  · simp only [cmap, if_true]
    by_cases h : 65 ≤ b ∧ b ≤ 90
    · rw [lowerByte_of_upper b h, upperByte_of_lower (b + 32) (by omega),
        lowerByte_of_upper (b + 32 - 32) (by omega)]
      omega
    · rw [lowerByte_of_not_upper b h]
      by_cases h2 : 97 ≤ b ∧ b ≤ 122
      · rw [upperByte_of_lower b h2, lowerByte_of_upper (b - 32) (by omega)]; omega
      · rw [upperByte_of_not_lower b h2, lowerByte_of_not_upper b h]

theorem lower_map_cmap_lower (up : Bool) (h : Text) : lower ((lower h).map (cmap up)) = lower h := by
  simp only [lower, List.map_map]
  apply List.map_congr_left
  intro b _
  exact lowerByte_cmap_lowerByte up b

/-! ### segwit forms -/

theorem fes_len_bytes (n : Nat) : (n * 8 + 4) / 5 * 5 / 8 = n := by omega

/-- the prefix of a (case-mapped) encoder output is the (case-mapped) hrp -/
theorem findPrefix_encode (v : Variant) (hrp : Text) (ver : Nat) (fes : List Nat) (up : Bool)
    (hver : ver < 32) (hfes : ∀ x ∈ fes, x < 32) :
    findPrefix ((encode v hrp ver fes).map (cmap up)) = (lower hrp).map (cmap up) := by
  obtain ⟨d, hd, hal, _⟩ := encode_map_split v hrp ver fes up hver hfes
  rw [hd]
  exact findPrefix_split _ _ (no_sep_of_alphabet d hal)

theorem fromBech32_encode_plain (P : Prims) (p : Gen.AddrParamsB) (hp : p ∈ Gen.allParamsB) (up : Bool)
    (ver : Nat) (prog : List Nat) (hstd : PayloadStd (.wit ver prog)) :
    fromBech32 P ((encode (crateFlavor.variant ver) p.bechHrp ver (bytesToFes prog)).map (cmap up)) false p
      = .ok { params := p, payload := .wit ver prog, blinder := none } := by
  obtain ⟨hver, h2, h40, hv0, hb⟩ := hstd
  have hok := hrps_ok p.bechHrp (List.mem_flatMap.2 ⟨p, hp, by simp [hrps]⟩)
  have hlen : (bytesToFes prog).length * 5 / 8 = prog.length := by
    rw [bytesToFes_length, fes_len_bytes]
  have hseg := segwitNew_encode crateFlavor (Or.inl rfl) up p.bechHrp hok.1 ver (bytesToFes prog) hver
    (bytesToFes_lt prog) (validatePadding_bytesToFes prog)
    (by
      rw [hlen]
      unfold validateLength
      simp only [crateFlavor]
      by_cases h0 : ver = 0
      · rcases hv0 h0 with h | h <;> simp [h0, h]
      · simp [h0]; omega)
    (by
      have h64 : (bytesToFes prog).length ≤ 64 := by rw [bytesToFes_length]; omega
      have htl : ∀ n, crateFlavor.tooLong n = decide (n > 90) := fun n => rfl
      have h6 : crateFlavor.v0.code.len = 6 := rfl
      rw [htl, h6, decide_eq_false_iff_not]
      have := hok.2.1
      omega)
  simp only [fromBech32, Bool.false_eq_true, if_false, hseg, Seg.bytes, fesToBytes_bytesToFes prog hb]

theorem fromBech32_encode_blinded (P : Prims) (p : Gen.AddrParamsB) (hp : p ∈ Gen.allParamsB) (up : Bool)
    (ver : Nat) (prog pk : List Nat) (hstd : PayloadStd (.wit ver prog)) (hpk : BlinderOk P (some pk)) :
    fromBech32 P ((encode (blechFlavor.variant ver) p.blechHrp ver (bytesToFes (pk ++ prog))).map (cmap up)) true p
      = .ok { params := p, payload := .wit ver prog, blinder := some pk } := by
  obtain ⟨hver, h2, h40, hv0, hb⟩ := hstd
  obtain ⟨hpl, hpv, hpb⟩ := hpk
  have hok := hrps_ok p.blechHrp (List.mem_flatMap.2 ⟨p, hp, by simp [hrps]⟩)
  have hbytes : ∀ b ∈ pk ++ prog, b < 256 := by
    intro b hb'; rcases List.mem_append.1 hb' with h | h
    · exact hpb b h
    · exact hb b h
  have hlen : (bytesToFes (pk ++ prog)).length * 5 / 8 = 33 + prog.length := by
    rw [bytesToFes_length, fes_len_bytes, List.length_append, hpl]
  have hseg := segwitNew_encode blechFlavor (Or.inr rfl) up p.blechHrp hok.1 ver (bytesToFes (pk ++ prog)) hver
    (bytesToFes_lt _) (validatePadding_bytesToFes _)
    (by
      rw [hlen]
      unfold validateLength
      simp only [blechFlavor]
      by_cases h0 : ver = 0
      · rcases hv0 h0 with h | h <;> simp [h0, h]
      · simp [h0]; omega)
    (by simp [Flavor.tooLong, blechFlavor])
  have htake : (pk ++ prog).take 33 = pk := by rw [← hpl]; exact List.take_left'  rfl
  have hdrop : (pk ++ prog).drop 33 = prog := by rw [← hpl]; exact List.drop_left' rfl
  simp only [fromBech32, if_true, hseg, Seg.bytes, fesToBytes_bytesToFes _ hbytes, List.length_append, hpl,
    htake, hdrop, hpv]
  simp

/-- `display` of a standard witness-program address, case-mapped, parses back -/
theorem segwit_roundtrip (P : Prims) (a : Address) (hwf : WF P a) (up : Bool) (ver : Nat) (prog : List Nat)
    (hpl : a.payload = .wit ver prog) :
    fromStr P ((display P a).map (cmap up)) = .ok a ∧
    parseWithParams P ((display P a).map (cmap up)) a.params = .ok a := by
  obtain ⟨p, pl, bl⟩ := a
  simp only at hpl
  subst hpl
  obtain ⟨hnet, hstd, hbl⟩ := hwf
  simp only at hnet hstd hbl
  have hver32 : ver < 32 := by have := hstd.1; omega
  cases bl with
  | none =>
    have hok := hrps_ok p.bechHrp (List.mem_flatMap.2 ⟨p, hnet, by simp [hrps]⟩)
    have hpre := findPrefix_encode (crateFlavor.variant ver) p.bechHrp ver (bytesToFes prog) up hver32 (bytesToFes_lt _)
    have hlow : lower ((lower p.bechHrp).map (cmap up)) = p.bechHrp := by
      rw [lower_map_cmap_lower, hrpOk_lower _ hok.1]
    have hfb := fromBech32_encode_plain P p hnet up ver prog hstd
    constructor
    · simp only [fromStr, display, hpre, dispatchBech_bech P _ _ p hnet hlow, hfb]
    · have hne : matchPrefix ((lower p.bechHrp).map (cmap up)) p.blechHrp = false := by
        rw [matchPrefix_beq, hlow]
        rcases mem_all p hnet with rfl | rfl | rfl <;> decide
      have hyes : matchPrefix ((lower p.bechHrp).map (cmap up)) p.bechHrp = true := by
        rw [matchPrefix_beq, hlow, hrpOk_lower _ hok.1]; simp
      simp only [parseWithParams, display, hpre, hne, hyes, Bool.or_false, if_true, hfb]
  | some pk =>
    have hok := hrps_ok p.blechHrp (List.mem_flatMap.2 ⟨p, hnet, by simp [hrps]⟩)
    have hpre := findPrefix_encode (blechFlavor.variant ver) p.blechHrp ver (bytesToFes (pk ++ prog)) up hver32 (bytesToFes_lt _)
    have hlow : lower ((lower p.blechHrp).map (cmap up)) = p.blechHrp := by
      rw [lower_map_cmap_lower, hrpOk_lower _ hok.1]
    have hfb := fromBech32_encode_blinded P p hnet up ver prog pk hstd hbl
    constructor
    · simp only [fromStr, display, hpre, dispatchBech_blech P _ _ p hnet hlow, hfb]
    · have hyes : matchPrefix ((lower p.blechHrp).map (cmap up)) p.blechHrp = true := by
        rw [matchPrefix_beq, hlow, hrpOk_lower _ hok.1]; simp
      simp only [parseWithParams, display, hpre, hyes, Bool.or_true, if_true, hfb]

/-! ### base58 forms -/

theorem digits_length_le (b : Nat) (hb : 2 ≤ b) (k n : Nat) (h : n < b ^ k) : (digits b n).length ≤ k := by
  induction k generalizing n with
  | zero =>
    have : n = 0 := by simpa using h
    subst this
    simp [digits, toDigits]
  | succ k ih =>
    by_cases hn : n = 0
    · subst hn; simp [digits, toDigits]
    · rw [digits_append b n hb (Nat.pos_of_ne_zero hn), List.length_append, List.length_singleton]
      have : n / b < b ^ k := by
        rw [Nat.div_lt_iff_lt_mul (by omega)]
        rw [Nat.pow_succ] at h
        exact h
      have := ih (n / b) this
      omega

/-- the base58check string of a 21- or 55-byte payload has at most 150 characters -/
theorem encodeCheck_length_le (H : List Nat → List Nat) (v : Nat) (rest : List Nat) (hv : 0 < v) (hv' : v < 256)
    (hr : ∀ b ∈ rest, b < 256) (hl : rest.length ≤ 54) : (encodeCheck H (v :: rest)).length ≤ 150 := by
  have hall : ∀ x ∈ rest ++ checksum4 H (v :: rest), x < 256 := by
    intro x hx; rcases List.mem_append.1 hx with h | h
    · exact hr x h
    · exact checksum4_lt H _ x h
  have hrange := (ofDigits256_range v (rest ++ checksum4 H (v :: rest)) hall).2
  simp only [encodeCheck, List.cons_append, Base58.encode, leading]
  have hv0 : ¬ v = 0 := by omega
  simp only [hv0, if_false, List.replicate_zero, List.nil_append, List.length_map]
  apply digits_length_le 58 (by decide) 150
  have hlen : (rest ++ checksum4 H (v :: rest)).length ≤ 58 := by
    rw [List.length_append, checksum4_length]; omega
  calc ofDigits 256 (v :: (rest ++ checksum4 H (v :: rest)))
      < (v + 1) * 256 ^ (rest ++ checksum4 H (v :: rest)).length := hrange
    _ ≤ 256 * 256 ^ 58 := Nat.mul_le_mul (by omega) (Nat.pow_le_pow_right (by decide) hlen)
    _ ≤ 58 ^ 150 := by decide

/-- leading base-58 digit ranges of the nine payload shapes (version byte, bytes after it incl. checksum) -/
def headRange : List (Nat × Nat × Nat × Nat × Nat) :=
  -- (first byte, number of following bytes, k, lo, hi)
  [(57, 24, 33, 22, 23), (39, 24, 33, 15, 16), (235, 24, 34, 1, 1), (75, 24, 33, 30, 30),
   (36, 24, 33, 14, 14), (19, 24, 33, 7, 8), (12, 58, 79, 27, 30), (4, 58, 79, 9, 11), (23, 58, 79, 53, 55)]

theorem headRange_ok : ∀ e ∈ headRange,
    1 ≤ e.2.2.2.1 ∧ e.2.2.2.2 < 58 ∧ e.2.2.2.1 * 58 ^ e.2.2.1 ≤ e.1 * 256 ^ e.2.1 ∧
    (e.1 + 1) * 256 ^ e.2.1 ≤ (e.2.2.2.2 + 1) * 58 ^ e.2.2.1 ∧
    ∀ d, d < 58 → e.2.2.2.1 ≤ d → d ≤ e.2.2.2.2 →
      lowerByte (charOf d) ≠ 101 ∧ lowerByte (charOf d) ≠ 108 ∧ lowerByte (charOf d) ≠ 116 := by
  decide

/-- which first bytes / lengths occur: unblinded `[p2pkh|p2sh] ++ 20 ++ 4`, blinded `[blinded, …] ++ 53 ++ 4` -/
theorem headRange_covers (p : Gen.AddrParamsB) (hp : p ∈ Gen.allParamsB) :
    (∃ e ∈ headRange, e.1 = p.p2pkh ∧ e.2.1 = 24) ∧ (∃ e ∈ headRange, e.1 = p.p2sh ∧ e.2.1 = 24) ∧
    (∃ e ∈ headRange, e.1 = p.blinded ∧ e.2.1 = 58) := by
  rcases mem_all p hp with rfl | rfl | rfl <;> decide

/-- a base58check string whose payload starts with a network's version byte matches no segwit hrp
    and is short enough: `from_str` and `parse_with_params` reach the base58 decoder -/
theorem base58_reaches_decoder (P : Prims) (v : Nat) (rest : List Nat) (hr : ∀ b ∈ rest, b < 256)
    (e : Nat × Nat × Nat × Nat × Nat) (he : e ∈ headRange) (hv : e.1 = v) (hl : e.2.1 = rest.length + 4) :
    let s := encodeCheck P.sha256d (v :: rest)
    dispatchBech P s (findPrefix s) Gen.fromStrOrder = none ∧ ¬ s.length > 150 := by
  intro s
  obtain ⟨hlo, hhi, h1, h2, hch⟩ := headRange_ok e he
  have hvpos : 0 < v ∧ v < 256 := by
    have : ∀ e ∈ headRange, 0 < e.1 ∧ e.1 < 256 ∧ e.2.1 ≤ 58 := by decide
    have := this e he; rw [hv] at this; exact ⟨this.1, this.2.1⟩
  have hlen58 : rest.length ≤ 54 := by
    have : ∀ e ∈ headRange, e.2.1 ≤ 58 := by decide
    have := this e he; omega
  have hall : ∀ x ∈ rest ++ checksum4 P.sha256d (v :: rest), x < 256 := by
    intro x hx; rcases List.mem_append.1 hx with h | h
    · exact hr x h
    · exact checksum4_lt _ _ x h
  have hlen' : (rest ++ checksum4 P.sha256d (v :: rest)).length = e.2.1 := by
    rw [List.length_append, checksum4_length, hl]
  obtain ⟨d, tl, henc, hdlo, hdhi⟩ := encode_head v (rest ++ checksum4 P.sha256d (v :: rest)) hvpos.1 hvpos.2 hall
    e.2.2.1 e.2.2.2.1 e.2.2.2.2 hlo hhi (by rw [hlen', ← hv]; exact h1) (by rw [hlen', ← hv]; exact h2)
  have hs : s = charOf d :: tl := by
    show encodeCheck P.sha256d (v :: rest) = _
    simp only [encodeCheck, List.cons_append]; exact henc
  refine ⟨no_match_of_head P s (charOf d) tl hs (hch d (by omega) hdlo hdhi), ?_⟩
  have := encodeCheck_length_le P.sha256d v rest hvpos.1 hvpos.2 hr hlen58
  show ¬ (encodeCheck P.sha256d (v :: rest)).length > 150
  omega

theorem prefix_facts (p : Gen.AddrParamsB) (hp : p ∈ Gen.allParamsB) :
    p.p2pkh ≠ p.blinded ∧ p.p2sh ≠ p.blinded ∧ p.p2sh ≠ p.p2pkh ∧
    p.p2pkh < 256 ∧ p.p2sh < 256 ∧ p.blinded < 256 := by
  rcases mem_all p hp with rfl | rfl | rfl <;> decide

/-- `display` of a standard p2pkh / p2sh address parses back -/
theorem base58_roundtrip (P : Prims) (a : Address) (hwf : WF P a) (hpl : a.payload.isSegwit = false) :
    fromStr P (display P a) = .ok a ∧ parseWithParams P (display P a) a.params = .ok a := by
  obtain ⟨p, pl, bl⟩ := a
  obtain ⟨hnet, hstd, hbl⟩ := hwf
  simp only at hnet hstd hbl hpl
  obtain ⟨hd1, hd2, hd3, hb1, hb2, hb3⟩ := prefix_facts p hnet
  obtain ⟨⟨e1, he1, hv1, hl1⟩, ⟨e2, he2, hv2, hl2⟩, ⟨e3, he3, hv3, hl3⟩⟩ := headRange_covers p hnet
  -- the payload bytes, by case
  have main : ∀ (v : Nat) (rest : List Nat) (hr : ∀ b ∈ rest, b < 256) (hv : v < 256)
      (e : Nat × Nat × Nat × Nat × Nat) (he : e ∈ headRange) (hev : e.1 = v) (hel : e.2.1 = rest.length + 4)
      (hdisp : display P ⟨p, pl, bl⟩ = encodeCheck P.sha256d (v :: rest))
      (hvb : v = p.p2pkh ∨ v = p.p2sh ∨ v = p.blinded)
      (hfb : fromBase58 P (v :: rest) p = .ok ⟨p, pl, bl⟩),
      fromStr P (display P ⟨p, pl, bl⟩) = .ok ⟨p, pl, bl⟩ ∧
      parseWithParams P (display P ⟨p, pl, bl⟩) p = .ok ⟨p, pl, bl⟩ := by
    intro v rest hr hv e he hev hel hdisp hvb hfb
    obtain ⟨hnone, hshort⟩ := base58_reaches_decoder P v rest hr e he hev hel
    have hdec : decodeCheck P.sha256d (encodeCheck P.sha256d (v :: rest)) = some (v :: rest) :=
      decodeCheck_encodeCheck _ _ (by
        intro b hb; simp only [List.mem_cons] at hb; rcases hb with rfl | hb
        · exact hv
        · exact hr b hb)
    have hnm := dispatchBech_none P _ _ _ hnone p (by rw [order_eq_all]; exact hnet)
    constructor
    · simp only [fromStr, hdisp, hnone, hshort, if_false, hdec, dispatchBase58_hit P _ v p hnet hvb, hfb]
    · simp only [parseWithParams, hdisp, hnm.1, hnm.2, Bool.or_self, Bool.false_eq_true, if_false, hshort, hdec, hfb]
  cases pl with
  | wit ver prog => simp [Payload.isSegwit] at hpl
  | pkh h =>
    obtain ⟨hlen, hbytes⟩ := hstd
    cases bl with
    | none =>
      apply main p.p2pkh h hbytes hb1 e1 he1 hv1 (by rw [hl1, hlen]) rfl (Or.inl rfl)
      simp [fromBase58, hd1, hlen]
    | some pk =>
      obtain ⟨hpl', hpv, hpb⟩ := hbl
      apply main p.blinded (p.p2pkh :: (pk ++ h))
        (by intro b hb; simp only [List.mem_cons, List.mem_append] at hb
            rcases hb with rfl | hb | hb
            · exact hb1
            · exact hpb b hb
            · exact hbytes b hb) hb3 e3 he3 hv3
        (by rw [hl3]; simp [hpl', hlen]) rfl (Or.inr (Or.inr rfl))
      have htake : (pk ++ h).take 33 = pk := by rw [← hpl']; exact List.take_left' rfl
      have hdrop : (pk ++ h).drop 33 = h := by rw [← hpl']; exact List.drop_left' rfl
      simp [fromBase58, hpl', hlen, htake, hdrop, hpv]
  | sh h =>
    obtain ⟨hlen, hbytes⟩ := hstd
    cases bl with
    | none =>
      apply main p.p2sh h hbytes hb2 e2 he2 hv2 (by rw [hl2, hlen]) rfl (Or.inr (Or.inl rfl))
      simp [fromBase58, hd2, hd3, hlen]
    | some pk =>
      obtain ⟨hpl', hpv, hpb⟩ := hbl
      apply main p.blinded (p.p2sh :: (pk ++ h))
        (by intro b hb; simp only [List.mem_cons, List.mem_append] at hb
            rcases hb with rfl | hb | hb
            · exact hb2
            · exact hpb b hb
            · exact hbytes b hb) hb3 e3 he3 hv3
        (by rw [hl3]; simp [hpl', hlen]) rfl (Or.inr (Or.inr rfl))
      have htake : (pk ++ h).take 33 = pk := by rw [← hpl']; exact List.take_left' rfl
      have hdrop : (pk ++ h).drop 33 = h := by rw [← hpl']; exact List.drop_left' rfl
      simp [fromBase58, hpl', hlen, htake, hdrop, hpv, hd3]

end EV.Addr
